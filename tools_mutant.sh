#!/bin/bash
# usage: tools_mutant.sh <patch file> <property id>...   — apply a seeded change to /repo, run the checks, undo it
P="$1"; shift
cd /repo && git apply "$P" || { echo "patch does not apply"; exit 9; }
for id in "$@"; do
  echo "== $id with $(basename $(dirname $P))/$(basename $P)"
  ( cd /verif && ./check $id quick 2>&1 | grep -E "^(VIOLATION|SUMMARY|ENGINE|KNOWN|BUILD)" | cut -c1-260 | sort | uniq -c | sort -rn | head -6 )
done
cd /repo && git checkout -- . && git status --short | head -3
