package symalg

import (
	"math/big"
	"sort"
	"strings"
)

// Poly is a sparse multivariate polynomial over GF(q) in normal form: a map from monomials
// (sorted multisets of variable ids) to non-zero coefficients in [1,q). The empty monomial is the
// constant term. Polys are immutable once built.
//
// This is the "flat term" representation of DESIGN §4.1: it is ordinary expression
// simplification (constant folding, collecting like terms, distributing products) and part of the
// encoder; every emitted term is validated by evaluation under random models against native
// concrete runs.
type Poly struct {
	t map[string]*big.Int
	// memoised key (polynomials are immutable once built; kn guards against a map that was still
	// being filled when the key was first asked for)
	k  string
	kn int
}

const monoSep = ","

func monoOf(ids []int) string {
	if len(ids) == 0 {
		return ""
	}
	sort.Ints(ids)
	var sb strings.Builder
	for i, id := range ids {
		if i > 0 {
			sb.WriteString(monoSep)
		}
		sb.WriteString(itoa(id))
	}
	return sb.String()
}

func itoa(i int) string {
	return big.NewInt(int64(i)).String()
}

func monoVars(m string) []int {
	if m == "" {
		return nil
	}
	parts := strings.Split(m, monoSep)
	out := make([]int, len(parts))
	for i, p := range parts {
		n := 0
		for _, c := range p {
			n = n*10 + int(c-'0')
		}
		out[i] = n
	}
	return out
}

func monoMul(a, b string) string {
	if a == "" {
		return b
	}
	if b == "" {
		return a
	}
	return monoOf(append(monoVars(a), monoVars(b)...))
}

func polyConst(c *big.Int, q *big.Int) *Poly {
	v := new(big.Int).Mod(c, q)
	p := &Poly{t: map[string]*big.Int{}}
	if v.Sign() != 0 {
		p.t[""] = v
	}
	return p
}

func polyVar(id int) *Poly {
	return &Poly{t: map[string]*big.Int{itoa(id): big.NewInt(1)}}
}

func (p *Poly) isConst() bool {
	if len(p.t) == 0 {
		return true
	}
	if len(p.t) == 1 {
		_, ok := p.t[""]
		return ok
	}
	return false
}

func (p *Poly) constVal() *big.Int {
	if c, ok := p.t[""]; ok {
		return new(big.Int).Set(c)
	}
	return new(big.Int)
}

func (p *Poly) isZero() bool { return len(p.t) == 0 }

func (p *Poly) add(o *Poly, q *big.Int) *Poly {
	r := &Poly{t: make(map[string]*big.Int, len(p.t)+len(o.t))}
	for m, c := range p.t {
		r.t[m] = c
	}
	for m, c := range o.t {
		if e, ok := r.t[m]; ok {
			s := new(big.Int).Add(e, c)
			s.Mod(s, q)
			if s.Sign() == 0 {
				delete(r.t, m)
			} else {
				r.t[m] = s
			}
		} else {
			r.t[m] = c
		}
	}
	return r
}

func (p *Poly) neg(q *big.Int) *Poly {
	r := &Poly{t: make(map[string]*big.Int, len(p.t))}
	for m, c := range p.t {
		r.t[m] = new(big.Int).Sub(q, c)
	}
	return r
}

func (p *Poly) sub(o *Poly, q *big.Int) *Poly { return p.add(o.neg(q), q) }

func (p *Poly) scale(k *big.Int, q *big.Int) *Poly {
	kk := new(big.Int).Mod(k, q)
	r := &Poly{t: make(map[string]*big.Int, len(p.t))}
	if kk.Sign() == 0 {
		return r
	}
	for m, c := range p.t {
		s := new(big.Int).Mul(c, kk)
		s.Mod(s, q)
		if s.Sign() != 0 {
			r.t[m] = s
		}
	}
	return r
}

func (p *Poly) mul(o *Poly, q *big.Int) *Poly {
	if p.isConst() {
		return o.scale(p.constVal(), q)
	}
	if o.isConst() {
		return p.scale(o.constVal(), q)
	}
	r := &Poly{t: make(map[string]*big.Int, len(p.t)*len(o.t))}
	for m1, c1 := range p.t {
		for m2, c2 := range o.t {
			m := monoMul(m1, m2)
			s := new(big.Int).Mul(c1, c2)
			if e, ok := r.t[m]; ok {
				s.Add(s, e)
			}
			s.Mod(s, q)
			if s.Sign() == 0 {
				delete(r.t, m)
			} else {
				r.t[m] = s
			}
		}
	}
	return r
}

func (p *Poly) equalForm(o *Poly) bool {
	if len(p.t) != len(o.t) {
		return false
	}
	for m, c := range p.t {
		d, ok := o.t[m]
		if !ok || c.Cmp(d) != 0 {
			return false
		}
	}
	return true
}

// monos returns the monomials in deterministic order.
func (p *Poly) monos() []string {
	ms := make([]string, 0, len(p.t))
	for m := range p.t {
		ms = append(ms, m)
	}
	sort.Strings(ms)
	return ms
}

// key is a canonical textual form (used to identify predicates across re-executions).
func (p *Poly) key() string {
	if p.k != "" && p.kn == len(p.t) {
		return p.k
	}
	k := p.keySlow()
	if len(p.t) > 0 {
		p.k, p.kn = k, len(p.t)
	}
	return k
}

func (p *Poly) keySlow() string {
	var sb strings.Builder
	for _, m := range p.monos() {
		sb.WriteString(p.t[m].Text(62))
		sb.WriteByte('*')
		sb.WriteString(m)
		sb.WriteByte(';')
	}
	return sb.String()
}

func (p *Poly) varSet(into map[int]bool) {
	for m := range p.t {
		for _, v := range monoVars(m) {
			into[v] = true
		}
	}
}

// eval evaluates under an assignment (missing variables evaluate to 0).
func (p *Poly) eval(asg map[int]*big.Int, q *big.Int) *big.Int {
	acc := new(big.Int)
	for m, c := range p.t {
		term := new(big.Int).Set(c)
		for _, v := range monoVars(m) {
			x, ok := asg[v]
			if !ok {
				term.SetInt64(0)
				break
			}
			term.Mul(term, x)
			term.Mod(term, q)
		}
		acc.Add(acc, term)
	}
	return acc.Mod(acc, q)
}

// subst replaces variable id by the polynomial s.
func (p *Poly) subst(id int, s *Poly, q *big.Int) *Poly {
	idS := itoa(id)
	r := &Poly{t: map[string]*big.Int{}}
	for m, c := range p.t {
		vs := monoVars(m)
		cnt := 0
		rest := make([]int, 0, len(vs))
		for _, v := range vs {
			if v == id {
				cnt++
			} else {
				rest = append(rest, v)
			}
		}
		if cnt == 0 {
			r = r.add(&Poly{t: map[string]*big.Int{m: c}}, q)
			continue
		}
		_ = idS
		term := &Poly{t: map[string]*big.Int{monoOf(rest): c}}
		for i := 0; i < cnt; i++ {
			term = term.mul(s, q)
		}
		r = r.add(term, q)
	}
	return r
}

// smt renders the polynomial as an (unreduced) integer term; the caller wraps it in one `mod`.
func (p *Poly) smt(varName func(int) string) string {
	if len(p.t) == 0 {
		return "0"
	}
	parts := make([]string, 0, len(p.t))
	for _, m := range p.monos() {
		c := p.t[m]
		if m == "" {
			parts = append(parts, c.String())
			continue
		}
		vs := monoVars(m)
		var sb strings.Builder
		sb.WriteString("(* ")
		sb.WriteString(c.String())
		for _, v := range vs {
			sb.WriteByte(' ')
			sb.WriteString(varName(v))
		}
		sb.WriteByte(')')
		parts = append(parts, sb.String())
	}
	if len(parts) == 1 {
		return parts[0]
	}
	return "(+ " + strings.Join(parts, " ") + ")"
}

// degreeIn returns the maximal power of variable id in any monomial.
func (p *Poly) isLinear() bool {
	for m := range p.t {
		if strings.Contains(m, monoSep) {
			return false
		}
	}
	return true
}

// commonFactor returns the variables (with multiplicity) dividing every monomial, and the quotient.
func (p *Poly) commonFactor() ([]int, *Poly) {
	var common []int
	first := true
	for m := range p.t {
		vs := monoVars(m)
		if first {
			common = vs
			first = false
			continue
		}
		// multiset intersection of sorted lists
		var inter []int
		i, j := 0, 0
		for i < len(common) && j < len(vs) {
			switch {
			case common[i] == vs[j]:
				inter = append(inter, common[i])
				i++
				j++
			case common[i] < vs[j]:
				i++
			default:
				j++
			}
		}
		common = inter
		if len(common) == 0 {
			return nil, p
		}
	}
	if len(common) == 0 {
		return nil, p
	}
	rest := &Poly{t: make(map[string]*big.Int, len(p.t))}
	for m, c := range p.t {
		vs := monoVars(m)
		var out []int
		i := 0
		for _, v := range vs {
			if i < len(common) && common[i] == v {
				i++
				continue
			}
			out = append(out, v)
		}
		rest.t[monoOf(out)] = c
	}
	return common, rest
}

// ---- exact division (used to split off factors known to be non-zero on the path)

// monoLess is the graded-lexicographic term order on monomials given as sorted id lists
// (variables ordered by id, smaller id = greater variable).
func monoLess(a, b []int) bool {
	if len(a) != len(b) {
		return len(a) < len(b)
	}
	for i := range a {
		if a[i] != b[i] {
			return a[i] > b[i]
		}
	}
	return false
}

// leadMono returns the greatest monomial of p (nil for a constant or zero polynomial).
func (p *Poly) leadMono() []int {
	var best []int
	first := true
	for m := range p.t {
		vs := monoVars(m)
		if first || monoLess(best, vs) {
			best, first = vs, false
		}
	}
	return best
}

// monoDiv returns a / b for sorted multisets, or false if b does not divide a.
func monoDiv(a, b []int) ([]int, bool) {
	out := make([]int, 0, len(a))
	j := 0
	for _, v := range a {
		if j < len(b) && b[j] == v {
			j++
			continue
		}
		if j < len(b) && b[j] < v {
			return nil, false
		}
		out = append(out, v)
	}
	if j != len(b) {
		return nil, false
	}
	return out, true
}

func (p *Poly) degree() int {
	d := 0
	for m := range p.t {
		if m == "" {
			continue
		}
		if n := strings.Count(m, monoSep) + 1; n > d {
			d = n
		}
	}
	return d
}

// divExact returns p / a when a divides p exactly in GF(q)[x…] (division algorithm with a single
// divisor under a term order: the remainder is zero iff a | p).
func (p *Poly) divExact(a *Poly, q *big.Int) (*Poly, bool) {
	la := a.leadMono()
	if len(a.t) == 0 || len(p.t) < 1 {
		return nil, false
	}
	ca := a.t[monoOf(append([]int{}, la...))]
	caInv := new(big.Int).ModInverse(ca, q)
	if caInv == nil {
		return nil, false
	}
	rem := p
	quo := &Poly{t: map[string]*big.Int{}}
	for steps := 0; len(rem.t) > 0; steps++ {
		if steps > 4096 {
			return nil, false
		}
		lr := rem.leadMono()
		d, ok := monoDiv(lr, la)
		if !ok {
			return nil, false
		}
		c := new(big.Int).Mul(rem.t[monoOf(append([]int{}, lr...))], caInv)
		c.Mod(c, q)
		term := &Poly{t: map[string]*big.Int{monoOf(d): c}}
		quo = quo.add(term, q)
		rem = rem.sub(term.mul(a, q), q)
	}
	return quo, true
}
