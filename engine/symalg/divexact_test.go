package symalg

import (
	"math/big"
	"math/rand"
	"testing"
)

func randPoly(rng *rand.Rand, q *big.Int, nvars, terms, deg int) *Poly {
	p := polyConst(big.NewInt(0), q)
	for i := 0; i < terms; i++ {
		m := polyConst(big.NewInt(int64(rng.Intn(1000)+1)), q)
		for d := rng.Intn(deg + 1); d > 0; d-- {
			m = m.mul(polyVar(rng.Intn(nvars)), q)
		}
		p = p.add(m, q)
	}
	return p
}

func TestDivExact(t *testing.T) {
	q := Secp256k1N
	rng := rand.New(rand.NewSource(7))
	for i := 0; i < 2000; i++ {
		a := randPoly(rng, q, 4, 1+rng.Intn(3), 2)
		b := randPoly(rng, q, 4, 1+rng.Intn(4), 2)
		if a.isZero() || b.isZero() {
			continue
		}
		prod := a.mul(b, q)
		got, ok := prod.divExact(a, q)
		if !ok || !got.equalForm(b) {
			t.Fatalf("(%s)·(%s): divExact failed ok=%v got=%v", a.key(), b.key(), ok, got)
		}
		// a non-multiple is refused: prod + 1 is divisible by a only if a is constant
		if !a.isConst() {
			np := prod.add(polyVar(5), q)
			if quo, ok := np.divExact(a, q); ok && !quo.mul(a, q).equalForm(np) {
				t.Fatalf("divExact accepted a non-multiple")
			}
		}
	}
}
