package symalg

import (
	"math/big"
	"sort"
)

// Seeded candidate models (guess-and-verify, DESIGN §4.1). z3 proves `unsat` for the congruence
// systems produced here in milliseconds but can be slow at *constructing* models over many
// 256-bit variables. Wherever the engine needs a satisfiable-direction answer it first builds a
// candidate natively (random values for free variables, Gaussian elimination over GF(q) for the
// equalities after fixing enough variables to make them linear), verifies it natively against
// every literal, and hands it to the solver as equalities so that the solver *confirms* a model
// instead of searching for one. Validity (`unsat`) verdicts are never seeded.

func (r *Run) randScalar() *big.Int {
	// mix of special and uniform values
	switch r.eng.rng.Intn(12) {
	case 0:
		return big.NewInt(0)
	case 1:
		return big.NewInt(1)
	case 2:
		return new(big.Int).Sub(r.q, big.NewInt(1))
	}
	return new(big.Int).Rand(r.eng.rng, r.q)
}

func (r *Run) uniformScalar() *big.Int { return new(big.Int).Rand(r.eng.rng, r.q) }

// flattenLits splits predicates into equalities (poly ≡ 0) that must be enforced and a list of all
// predicates to verify afterwards. Disjunctions pick one disjunct at random to enforce.
func (r *Run) flattenLits(ps []Pred, eqs *[]*Poly) {
	for _, p := range ps {
		switch v := p.(type) {
		case pEqZ:
			*eqs = append(*eqs, v.p)
		case pAnd:
			r.flattenLits(v.xs, eqs)
		case pOr:
			// enforce one disjunct (only matters when it contains equalities)
			pick := v.xs[r.eng.rng.Intn(len(v.xs))]
			r.flattenLits([]Pred{pick}, eqs)
		case pNot:
			if inner, ok := v.x.(pOr); ok {
				// ¬(a ∨ b) = ¬a ∧ ¬b
				ns := make([]Pred, len(inner.xs))
				for i, x := range inner.xs {
					ns[i] = Not(x)
				}
				r.flattenLits(ns, eqs)
			} else if inner, ok := v.x.(pAnd); ok {
				pick := inner.xs[r.eng.rng.Intn(len(inner.xs))]
				r.flattenLits([]Pred{Not(pick)}, eqs)
			}
		}
	}
}

func polyPartial(p *Poly, asg map[int]*big.Int, q *big.Int) *Poly {
	out := &Poly{t: map[string]*big.Int{}}
	for m, c := range p.t {
		coef := new(big.Int).Set(c)
		var rest []int
		for _, v := range monoVars(m) {
			if x, ok := asg[v]; ok {
				coef.Mul(coef, x)
				coef.Mod(coef, q)
			} else {
				rest = append(rest, v)
			}
		}
		if coef.Sign() == 0 {
			continue
		}
		mk := monoOf(rest)
		if e, ok := out.t[mk]; ok {
			s := new(big.Int).Add(e, coef)
			s.Mod(s, q)
			if s.Sign() == 0 {
				delete(out.t, mk)
			} else {
				out.t[mk] = s
			}
		} else {
			out.t[mk] = coef
		}
	}
	return out
}

// seedModel tries to construct an assignment satisfying path ∧ extra ∧ genericity assumptions.
func (r *Run) seedModel(extra []Pred) map[int]*big.Int {
	all := make([]Pred, 0, len(r.path)+len(extra)+len(r.generic))
	all = append(all, r.path...)
	all = append(all, extra...)
	nvars := len(*r.byID)
	for try := 0; try < 6; try++ {
		var eqs []*Poly
		r.flattenLits(all, &eqs)
		asg := map[int]*big.Int{}
		ok := r.solveEqs(eqs, asg, try)
		if !ok {
			continue
		}
		for id := 0; id < nvars; id++ {
			if _, has := asg[id]; !has {
				if try < 3 {
					asg[id] = r.uniformScalar()
				} else {
					asg[id] = r.randScalar()
				}
			}
		}
		good := true
		for _, p := range all {
			if !p.eval(asg, r.q) {
				good = false
				break
			}
		}
		if good {
			for _, g := range r.generic {
				if !g.eval(asg, r.q) {
					good = false
					break
				}
			}
		}
		if good {
			return asg
		}
	}
	return nil
}

// solveEqs extends asg so that every polynomial in eqs evaluates to 0: variables in non-linear
// monomials are fixed at random until the system is linear, then Gaussian elimination over GF(q).
func (r *Run) solveEqs(eqs []*Poly, asg map[int]*big.Int, try int) bool {
	if len(eqs) == 0 {
		return true
	}
	cur := make([]*Poly, len(eqs))
	copy(cur, eqs)
	for iter := 0; iter < 10000; iter++ {
		// count variable occurrences in non-linear monomials
		cnt := map[int]int{}
		for _, p := range cur {
			for m := range p.t {
				vs := monoVars(m)
				if len(vs) > 1 {
					for _, v := range vs {
						cnt[v]++
					}
				}
			}
		}
		if len(cnt) == 0 {
			break
		}
		ids := make([]int, 0, len(cnt))
		for id := range cnt {
			ids = append(ids, id)
		}
		sort.Slice(ids, func(i, j int) bool {
			if cnt[ids[i]] != cnt[ids[j]] {
				return cnt[ids[i]] > cnt[ids[j]]
			}
			return ids[i] < ids[j]
		})
		pick := ids[0]
		if try > 0 && len(ids) > 1 {
			pick = ids[r.eng.rng.Intn(min(len(ids), 1+try))]
		}
		val := r.uniformScalar()
		asg[pick] = val
		one := map[int]*big.Int{pick: val}
		for i, p := range cur {
			cur[i] = polyPartial(p, one, r.q)
		}
	}
	// linear system
	colOf := map[int]int{}
	var cols []int
	for _, p := range cur {
		for m := range p.t {
			if m == "" {
				continue
			}
			v := monoVars(m)[0]
			if _, ok := colOf[v]; !ok {
				colOf[v] = len(cols)
				cols = append(cols, v)
			}
		}
	}
	n := len(cols)
	rows := make([][]*big.Int, 0, len(cur))
	for _, p := range cur {
		if p.isZero() {
			continue
		}
		row := make([]*big.Int, n+1)
		for i := range row {
			row[i] = new(big.Int)
		}
		for m, c := range p.t {
			if m == "" {
				row[n] = new(big.Int).Sub(r.q, c) // move constant to rhs
				row[n].Mod(row[n], r.q)
			} else {
				row[colOf[monoVars(m)[0]]] = new(big.Int).Set(c)
			}
		}
		rows = append(rows, row)
	}
	// Gauss-Jordan
	pivotCol := make([]int, 0)
	rk := 0
	for c := 0; c < n && rk < len(rows); c++ {
		p := -1
		for i := rk; i < len(rows); i++ {
			if rows[i][c].Sign() != 0 {
				p = i
				break
			}
		}
		if p < 0 {
			continue
		}
		rows[rk], rows[p] = rows[p], rows[rk]
		inv := new(big.Int).ModInverse(rows[rk][c], r.q)
		for j := c; j <= n; j++ {
			rows[rk][j].Mul(rows[rk][j], inv)
			rows[rk][j].Mod(rows[rk][j], r.q)
		}
		for i := 0; i < len(rows); i++ {
			if i == rk || rows[i][c].Sign() == 0 {
				continue
			}
			f := new(big.Int).Set(rows[i][c])
			for j := c; j <= n; j++ {
				t := new(big.Int).Mul(f, rows[rk][j])
				rows[i][j].Sub(rows[i][j], t)
				rows[i][j].Mod(rows[i][j], r.q)
			}
		}
		pivotCol = append(pivotCol, c)
		rk++
	}
	for i := rk; i < len(rows); i++ {
		if rows[i][n].Sign() != 0 {
			return false // inconsistent under the random choices
		}
	}
	isPivot := map[int]bool{}
	for _, c := range pivotCol {
		isPivot[c] = true
	}
	for c := 0; c < n; c++ {
		if !isPivot[c] {
			asg[cols[c]] = r.uniformScalar()
		}
	}
	for i, c := range pivotCol {
		v := new(big.Int).Set(rows[i][n])
		for j := 0; j < n; j++ {
			if j != c && rows[i][j].Sign() != 0 {
				t := new(big.Int).Mul(rows[i][j], asg[cols[j]])
				v.Sub(v, t)
			}
		}
		asg[cols[c]] = v.Mod(v, r.q)
	}
	return true
}
