package symalg

import (
	"math/big"
	"sort"
)

// Seeded candidate models (guess-and-verify, DESIGN §4.1). z3 proves `unsat` for the congruence
// systems produced here in milliseconds but can be slow at *constructing* models over many
// 256-bit variables. Wherever the engine needs a satisfiable-direction answer it first builds a
// candidate natively (random values for free variables, Gaussian elimination over GF(q) for the
// equalities after fixing enough variables to make them linear), verifies it natively against
// every literal, and hands it to the solver as equalities so that the solver *confirms* a model
// instead of searching for one. Validity (`unsat`) verdicts are never seeded.

func (r *Run) randScalar() *big.Int {
	// mix of special and uniform values
	switch r.eng.rng.Intn(12) {
	case 0:
		return big.NewInt(0)
	case 1:
		return big.NewInt(1)
	case 2:
		return new(big.Int).Sub(r.q, big.NewInt(1))
	}
	return new(big.Int).Rand(r.eng.rng, r.q)
}

func (r *Run) uniformScalar() *big.Int { return new(big.Int).Rand(r.eng.rng, r.q) }

// flattenLits splits predicates into equalities (poly ≡ 0) that must be enforced and a list of all
// predicates to verify afterwards. Disjunctions pick one disjunct at random to enforce.
func (r *Run) flattenLits(ps []Pred, eqs *[]*Poly) {
	for _, p := range ps {
		switch v := p.(type) {
		case pEqZ:
			*eqs = append(*eqs, v.p)
		case pAnd:
			r.flattenLits(v.xs, eqs)
		case pOr:
			// enforce one disjunct (only matters when it contains equalities)
			pick := v.xs[r.eng.rng.Intn(len(v.xs))]
			r.flattenLits([]Pred{pick}, eqs)
		case pNot:
			if inner, ok := v.x.(pOr); ok {
				// ¬(a ∨ b) = ¬a ∧ ¬b
				ns := make([]Pred, len(inner.xs))
				for i, x := range inner.xs {
					ns[i] = Not(x)
				}
				r.flattenLits(ns, eqs)
			} else if inner, ok := v.x.(pAnd); ok {
				pick := inner.xs[r.eng.rng.Intn(len(inner.xs))]
				r.flattenLits([]Pred{Not(pick)}, eqs)
			}
		}
	}
}

func polyPartial(p *Poly, asg map[int]*big.Int, q *big.Int) *Poly {
	out := &Poly{t: map[string]*big.Int{}}
	for m, c := range p.t {
		coef := new(big.Int).Set(c)
		var rest []int
		for _, v := range monoVars(m) {
			if x, ok := asg[v]; ok {
				coef.Mul(coef, x)
				coef.Mod(coef, q)
			} else {
				rest = append(rest, v)
			}
		}
		if coef.Sign() == 0 {
			continue
		}
		mk := monoOf(rest)
		if e, ok := out.t[mk]; ok {
			s := new(big.Int).Add(e, coef)
			s.Mod(s, q)
			if s.Sign() == 0 {
				delete(out.t, mk)
			} else {
				out.t[mk] = s
			}
		} else {
			out.t[mk] = coef
		}
	}
	return out
}

// seedModel tries to construct an assignment satisfying path ∧ extra ∧ genericity assumptions.
func (r *Run) seedModel(extra []Pred) map[int]*big.Int {
	all := make([]Pred, 0, len(r.path)+len(extra)+len(r.generic))
	all = append(all, r.path...)
	all = append(all, extra...)
	nvars := len(*r.byID)
	for try := 0; try < 6; try++ {
		var eqs []*Poly
		r.flattenLits(all, &eqs)
		asg := map[int]*big.Int{}
		ok := r.solveEqs(eqs, asg, try)
		if !ok {
			continue
		}
		for id := 0; id < nvars; id++ {
			if _, has := asg[id]; !has {
				if try < 3 {
					asg[id] = r.uniformScalar()
				} else {
					asg[id] = r.randScalar()
				}
			}
		}
		good := true
		for _, p := range all {
			if !p.eval(asg, r.q) {
				good = false
				break
			}
		}
		if good {
			for _, g := range r.generic {
				if !g.eval(asg, r.q) {
					good = false
					break
				}
			}
		}
		if good {
			if viol := r.internViolations(asg); len(viol) > 0 {
				// make the violated distinctness assumptions explicit and try again
				for _, g := range viol {
					if k := g.key(); !r.genericK[k] && !r.pathK[k] {
						r.genericK[k] = true
						r.generic = append(r.generic, g)
					}
				}
				good = false
			}
		}
		if good {
			return asg
		}
	}
	return nil
}

// solveEqs extends asg so that every polynomial in eqs evaluates to 0. It alternates (1) Gaussian
// elimination over GF(q) on the currently linear equations, substituting the solved pivots (as
// affine expressions in the free variables) into the remaining equations, and (2) fixing at random
// a variable that occurs in a non-linear monomial, until nothing is left.
func (r *Run) solveEqs(eqs []*Poly, asg map[int]*big.Int, try int) bool {
	if len(eqs) == 0 {
		return true
	}
	cur := make([]*Poly, 0, len(eqs))
	for _, p := range eqs {
		cur = append(cur, p)
	}
	// expr holds solved variables as polynomials over still-free variables
	expr := map[int]*Poly{}
	substAll := func(id int, e *Poly) {
		for i, p := range cur {
			cur[i] = p.subst(id, e, r.q)
		}
		for k, x := range expr {
			expr[k] = x.subst(id, e, r.q)
		}
	}
	for iter := 0; iter < 10000; iter++ {
		// drop trivially true, fail on trivially false
		next := cur[:0]
		for _, p := range cur {
			if p.isZero() {
				continue
			}
			if p.isConst() {
				return false
			}
			next = append(next, p)
		}
		cur = next
		if len(cur) == 0 {
			break
		}
		// (1) a linear equation: solve it for one of its variables
		solved := false
		for i, p := range cur {
			if !p.isLinear() {
				continue
			}
			// pick the variable with the largest id (most recently created)
			best := -1
			for m := range p.t {
				if m == "" {
					continue
				}
				v := monoVars(m)[0]
				if v > best {
					best = v
				}
			}
			if best < 0 {
				continue
			}
			c := p.t[itoa(best)]
			rest := &Poly{t: map[string]*big.Int{}}
			for m, cc := range p.t {
				if m != itoa(best) {
					rest.t[m] = cc
				}
			}
			inv := new(big.Int).ModInverse(c, r.q)
			e := rest.scale(new(big.Int).Neg(inv), r.q)
			cur = append(cur[:i], cur[i+1:]...)
			substAll(best, e)
			expr[best] = e
			solved = true
			break
		}
		if solved {
			continue
		}
		// (2) all remaining equations are non-linear: fix one variable at random
		cnt := map[int]int{}
		for _, p := range cur {
			for m := range p.t {
				vs := monoVars(m)
				if len(vs) > 1 {
					for _, v := range vs {
						cnt[v]++
					}
				}
			}
		}
		ids := make([]int, 0, len(cnt))
		for id := range cnt {
			ids = append(ids, id)
		}
		if len(ids) == 0 {
			return false
		}
		sort.Slice(ids, func(i, j int) bool {
			if cnt[ids[i]] != cnt[ids[j]] {
				return cnt[ids[i]] > cnt[ids[j]]
			}
			return ids[i] < ids[j]
		})
		pick := ids[0]
		if try > 0 && len(ids) > 1 {
			pick = ids[r.eng.rng.Intn(min(len(ids), 1+try))]
		}
		val := r.uniformScalar()
		if try >= 3 && r.eng.rng.Intn(3) == 0 {
			val = big.NewInt(0)
		}
		asg[pick] = val
		substAll(pick, polyConst(val, r.q))
	}
	// free variables of the solved expressions get random values, then evaluate the expressions
	free := map[int]bool{}
	for _, e := range expr {
		e.varSet(free)
	}
	for id := range free {
		if _, ok := asg[id]; !ok {
			asg[id] = r.uniformScalar()
		}
	}
	for id, e := range expr {
		asg[id] = e.eval(asg, r.q)
	}
	return true
}
