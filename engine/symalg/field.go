package symalg

import (
	"bytes"
	"encoding/binary"
	"fmt"
	"hash/fnv"
	"io"
	"iter"
	"math/big"

	"github.com/bronlabs/bron-crypto/pkg/base"
	"github.com/bronlabs/bron-crypto/pkg/base/algebra"
	"github.com/bronlabs/bron-crypto/pkg/base/nt/cardinal"
	"github.com/bronlabs/bron-crypto/pkg/base/serde"
)

// Field is the model prime field GF(q) of one run. It satisfies algebra.PrimeField[*F].
type Field struct {
	run *Run
	q   *big.Int
}

// F is an element of the model field: a polynomial over the run's symbolic variables (a constant
// polynomial is a concrete element). It satisfies algebra.PrimeFieldElement[*F].
type F struct {
	f   *Field
	p   *Poly
	raw *node
}

var (
	_ algebra.PrimeField[*F]        = (*Field)(nil)
	_ algebra.PrimeFieldElement[*F] = (*F)(nil)
)

const elemSize = 32

// mk builds an element without operation history (constants, variables, decoded values).
func (f *Field) mk(p *Poly) *F { return &F{f: f, p: p, raw: rawOfPoly(p)} }

func (f *Field) mkr(p *Poly, raw *node) *F {
	if raw == nil || p.isConst() {
		return f.mk(p)
	}
	return &F{f: f, p: p, raw: raw}
}

// ---- structure

func (f *Field) Name() string                      { return "symGF(" + f.q.Text(16) + ")" }
func (f *Field) Order() cardinal.Cardinal          { return cardinal.NewFromBig(f.q) }
func (f *Field) Characteristic() cardinal.Cardinal { return cardinal.NewFromBig(f.q) }
func (f *Field) Contains(e *F) bool                { return e != nil }
func (f *Field) ElementSize() int                  { return elemSize }
func (f *Field) WideElementSize() int              { return 2 * elemSize }
func (f *Field) BitLen() int                       { return f.q.BitLen() }
func (f *Field) IsDomain() bool                    { return true }
func (f *Field) ExtensionDegree() uint             { return 1 }
func (f *Field) Zero() *F                          { return f.mk(polyConst(big.NewInt(0), f.q)) }
func (f *Field) One() *F                           { return f.mk(polyConst(big.NewInt(1), f.q)) }
func (f *Field) OpIdentity() *F                    { return f.Zero() }
func (f *Field) FromUint64(v uint64) *F            { return f.mk(polyConst(new(big.Int).SetUint64(v), f.q)) }
func (f *Field) FromBig(v *big.Int) *F             { return f.mk(polyConst(v, f.q)) }
func (f *Field) FromCardinal(c cardinal.Cardinal) (*F, error) {
	return f.mk(polyConst(c.Big(), f.q)), nil
}

// FromBytes decodes a big-endian element or resolves an interned handle.
func (f *Field) FromBytes(b []byte) (*F, error) {
	if len(b) != elemSize {
		return nil, fmt.Errorf("symalg: invalid field element length %d", len(b))
	}
	if p, ok := f.run.lookupHandle('F', b); ok {
		return f.mk(p), nil
	}
	v := new(big.Int).SetBytes(b)
	if v.Cmp(f.q) >= 0 {
		return nil, fmt.Errorf("symalg: unreduced field element")
	}
	return f.mk(polyConst(v, f.q)), nil
}

func (f *Field) FromBytesBE(b []byte) (*F, error) { return f.FromBytes(b) }

func (f *Field) FromBytesBEReduce(b []byte) (*F, error) {
	return f.mk(polyConst(new(big.Int).SetBytes(b), f.q)), nil
}

func (f *Field) FromWideBytes(b []byte) (*F, error) {
	if len(b) > 2*elemSize {
		return nil, fmt.Errorf("symalg: wide input too long")
	}
	return f.mk(polyConst(new(big.Int).SetBytes(b), f.q)), nil
}

func (f *Field) FromComponentsBytes(data [][]byte) (*F, error) {
	if len(data) != 1 {
		return nil, fmt.Errorf("symalg: prime field has one component")
	}
	return f.FromWideBytes(data[0])
}

// Hash maps bytes to a field element: an unknown-but-fixed function of the input (random-oracle
// idealisation): equal inputs give the same symbolic variable.
func (f *Field) Hash(b []byte) (*F, error) {
	return f.mk(f.run.newVarL("hashF:" + digestHex(b))), nil
}

// Random consumes exactly WideElementSize bytes of the reader and returns a fresh symbolic variable
// named by (reader identity, byte offset). A reader that is not a *Reader (e.g. a deterministic
// PRG keyed by a shared seed) yields a variable named by the bytes it produced, so both ends of a
// shared stream obtain the same variable.
func (f *Field) Random(prng io.Reader) (*F, error) {
	if prng == nil {
		return nil, fmt.Errorf("symalg: nil prng")
	}
	name, err := f.run.drawName(prng, f.drawSize(), "F")
	if err != nil {
		return nil, err
	}
	return f.mk(f.run.drawVar(name)), nil
}

// drawSize is the number of bytes the real generated fields read per random element
// ((bits+128+7)/8, see SetRandom in fq.gen.go).
func (f *Field) drawSize() int { return (f.q.BitLen() + 128 + 7) / 8 }

func (f *Field) Iter() iter.Seq[*F] {
	return func(yield func(*F) bool) {
		cur := big.NewInt(1)
		for cur.Cmp(f.q) < 0 {
			if !yield(f.mk(polyConst(cur, f.q))) {
				return
			}
			cur = new(big.Int).Add(cur, big.NewInt(1))
		}
	}
}

func (f *Field) Compare(x, y *F) base.Ordering {
	if f.run.decide(EqF(x, y)) {
		return base.Ordering(base.Equal)
	}
	if f.run.decide(pLEof(x.p, y.p)) {
		return base.Ordering(base.LessThan)
	}
	return base.Ordering(base.GreaterThan)
}

func (f *Field) PartialCompare(x, y *F) base.PartialOrdering {
	return base.PartialOrdering(f.Compare(x, y))
}

func pLEof(a, b *Poly) Pred {
	if a.isConst() && b.isConst() {
		return Bool(a.constVal().Cmp(b.constVal()) <= 0)
	}
	return pLE{a, b}
}

// ---- element

func (e *F) Structure() algebra.Structure[*F] { return e.f }
func (e *F) Clone() *F                        { return &F{f: e.f, p: e.p, raw: e.raw} }
func (e *F) Poly() *Poly                      { return e.p }

// IsSymbolic reports whether the element depends on symbolic variables.
func (e *F) IsSymbolic() bool { return !e.p.isConst() }

// Big returns the concrete value (panics for symbolic elements).
func (e *F) Big() *big.Int {
	if !e.p.isConst() {
		e.f.run.poison("unsupported", "concrete value of a symbolic field element requested")
		return new(big.Int)
	}
	return e.p.constVal()
}

func (e *F) Add(o *F) *F { return e.f.mkr(e.p.add(o.p, e.f.q), rawAdd(e.raw, o.raw)) }
func (e *F) Sub(o *F) *F { return e.f.mkr(e.p.sub(o.p, e.f.q), rawSub(e.raw, o.raw)) }
func (e *F) Neg() *F     { return e.f.mkr(e.p.neg(e.f.q), rawNeg(e.raw)) }
func (e *F) Double() *F {
	return e.f.mkr(e.p.scale(big.NewInt(2), e.f.q), rawScale(e.raw, big.NewInt(2)))
}
func (e *F) Mul(o *F) *F             { return e.f.mkr(e.p.mul(o.p, e.f.q), rawMul(e.raw, o.raw)) }
func (e *F) Square() *F              { return e.Mul(e) }
func (e *F) Op(o *F) *F              { return e.Add(o) }
func (e *F) OtherOp(o *F) *F         { return e.Mul(o) }
func (e *F) OpInv() *F               { return e.Neg() }
func (e *F) TryNeg() (*F, error)     { return e.Neg(), nil }
func (e *F) TryOpInv() (*F, error)   { return e.Neg(), nil }
func (e *F) TrySub(o *F) (*F, error) { return e.Sub(o), nil }

func (e *F) TryInv() (*F, error) {
	if e.p.isConst() {
		v := e.p.constVal()
		if v.Sign() == 0 {
			return nil, fmt.Errorf("symalg: division by zero")
		}
		return e.f.mk(polyConst(new(big.Int).ModInverse(v, e.f.q), e.f.q)), nil
	}
	if e.f.run.decide(IsZeroF(e)) {
		return nil, fmt.Errorf("symalg: division by zero")
	}
	e.f.run.poison("unsupported", "inverse of a symbolic field element (DESIGN §6 barrier 2)")
	return nil, fmt.Errorf("symalg: inverse of a symbolic element is not encodable")
}

func (e *F) TryDiv(o *F) (*F, error) {
	inv, err := o.TryInv()
	if err != nil {
		return nil, err
	}
	return e.Mul(inv), nil
}

func (e *F) EuclideanDiv(rhs *F) (quot, rem *F, err error) {
	q, err := e.TryDiv(rhs)
	if err != nil {
		return nil, nil, err
	}
	return q, e.f.Zero(), nil
}

func (e *F) EuclideanValuation() cardinal.Cardinal {
	if e.IsZero() {
		return cardinal.Zero()
	}
	return cardinal.New(1)
}

func (e *F) IsZero() bool       { return e.f.run.decide(IsZeroF(e)) }
func (e *F) IsOne() bool        { return e.f.run.decide(EqF(e, e.f.One())) }
func (e *F) IsOpIdentity() bool { return e.IsZero() }
func (e *F) Equal(o *F) bool {
	if o == nil {
		return false
	}
	return e.f.run.decide(EqF(e, o))
}
func (e *F) IsLessThanOrEqual(o *F) bool { return e.f.run.decide(pLEof(e.p, o.p)) }
func (e *F) IsOdd() bool {
	if e.p.isConst() {
		return e.p.constVal().Bit(0) == 1
	}
	return e.f.run.decide(pOdd{e.p})
}
func (e *F) IsEven() bool { return !e.IsOdd() }
func (e *F) IsNegative() bool {
	// "negative" = value > (q-1)/2, as fieldsImpl.IsNegative
	half := new(big.Int).Rsh(new(big.Int).Sub(e.f.q, big.NewInt(1)), 1)
	return !e.f.run.decide(pLEof(e.p, polyConst(half, e.f.q)))
}
func (e *F) IsPositive() bool      { return !e.IsNegative() }
func (e *F) IsProbablyPrime() bool { return e.Big().ProbablyPrime(0) }

func (e *F) HashCode() base.HashCode {
	if e.p.isConst() {
		h := fnv.New64a()
		_, _ = h.Write(e.p.constVal().Bytes())
		return base.HashCode(h.Sum64())
	}
	return 0 // symbolic: hash containers fall back to Equal, i.e. to the solver
}

// Bytes returns the fixed-width big-endian encoding, or an interned handle for symbolic elements.
func (e *F) Bytes() []byte {
	if e.p.isConst() {
		out := make([]byte, elemSize)
		e.p.constVal().FillBytes(out)
		return out
	}
	return e.f.run.intern('F', e.p, elemSize)
}
func (e *F) BytesBE() []byte             { return e.Bytes() }
func (e *F) ComponentsBytes() [][]byte   { return [][]byte{e.Bytes()} }
func (e *F) Cardinal() cardinal.Cardinal { return cardinal.NewFromBig(e.Big()) }

func (e *F) String() string {
	if e.p.isConst() {
		return e.p.constVal().String()
	}
	return "sym{" + trunc(e.p.key(), 60) + "}"
}

// MarshalBinary returns Bytes().
func (e *F) MarshalBinary() ([]byte, error) { return e.Bytes(), nil }

type elemDTO struct {
	B []byte `cbor:"fieldBytes"`
}

// MarshalCBOR / UnmarshalCBOR let elements pass through the library's CBOR layer (proof bytes,
// DTOs): symbolic elements travel as interned handles and are resolved on decoding.
func (e *F) MarshalCBOR() ([]byte, error) { return serde.MarshalCBOR(&elemDTO{B: e.Bytes()}) }

func (e *F) UnmarshalCBOR(data []byte) error {
	dto, err := serde.UnmarshalCBOR[*elemDTO](data)
	if err != nil {
		return err
	}
	if current == nil {
		return fmt.Errorf("symalg: no active run")
	}
	v, err := current.field.FromBytes(dto.B)
	if err != nil {
		return err
	}
	*e = *v
	return nil
}

// ---------------------------------------------------------------------------------------------
// handles (semantic interning, DESIGN §4.1)

var handleMagic = bytes.Repeat([]byte{0xFF}, 18)

func digestHex(b []byte) string {
	h := fnv.New128a()
	_, _ = h.Write(b)
	return fmt.Sprintf("%x/%d", h.Sum(nil), len(b))
}

// SetSerializationOnly switches off the genericity assumptions of interning. Sound only for
// harnesses in which element encodings are transported (encode → decode) but never hashed, used as
// map keys or compared unless the encoded terms are provably equal; such a harness can then
// quantify over ALL values, including coinciding ones.
func (r *Run) SetSerializationOnly(on bool) {
	r.mu.Lock()
	defer r.mu.Unlock()
	r.serializationOnly = on
}

func (r *Run) lookupHandle(kind byte, b []byte) (*Poly, bool) {
	r.mu.Lock()
	defer r.mu.Unlock()
	if ix, ok := r.handleIx[string(b)]; ok && r.interned[ix].kind == kind {
		return r.interned[ix].p, true
	}
	return nil, false
}

// intern assigns a handle to a symbolic term: provably equal terms share a handle; terms with
// different handles are assumed to denote different values (genericity / random-oracle
// idealisation). That pairwise distinctness is kept IMPLICIT: it is not materialised as O(n²)
// literals but enforced lazily — every model or witness the engine uses is checked against it
// (internViolations) and the violated pairs are then asserted explicitly (solve, seedModel,
// pathWitness). Candidates for "provably equal" are found through the current path witness: only
// entries that evaluate to the same value under it can be entailed equal.
func (r *Run) intern(kind byte, p *Poly, size int) []byte {
	r.mu.Lock()
	defer r.mu.Unlock()
	pk := string(kind) + p.key()
	if ix, ok := r.internKey[pk]; ok {
		return append([]byte(nil), r.interned[ix].h...)
	}
	tryEqual := func(ix int) (shared bool) {
		e := r.interned[ix]
		eq := simplifyEqZ(p.sub(e.p, r.q))
		if _, isF := eq.(pFalse); isF {
			return false
		}
		switch r.entailed(eq) {
		case Unsat: // negation unsatisfiable: provably equal under the path condition
			return true
		case Unknown:
			r.poison("inconclusive", "interning: equality of hashed terms undecided")
		}
		return false
	}
	w := r.pathWitness()
	if w != nil {
		r.syncInternVals(w)
		vk := string(kind) + p.eval(w, r.q).String()
		cands := append([]int(nil), r.internVals[vk]...)
		for _, ix := range cands {
			if tryEqual(ix) {
				r.internKey[pk] = ix
				return append([]byte(nil), r.interned[ix].h...)
			}
		}
		if len(cands) > 0 && !r.serializationOnly {
			// the witness makes two different handles coincide: assert their distinctness explicitly,
			// so that the next witness respects it
			for _, ix := range cands {
				g := Not(simplifyEqZ(p.sub(r.interned[ix].p, r.q)))
				if k := g.key(); !r.genericK[k] && !r.pathK[k] {
					r.genericK[k] = true
					r.generic = append(r.generic, g)
				}
			}
			r.witnessOK = false
		}
	} else {
		// no witness available: compare against every entry (slow path)
		for ix, e := range r.interned {
			if e.kind == kind && tryEqual(ix) {
				r.internKey[pk] = ix
				return append([]byte(nil), e.h...)
			}
		}
	}
	h := make([]byte, size)
	copy(h, handleMagic)
	h[len(handleMagic)] = kind
	binary.BigEndian.PutUint32(h[size-4:], uint32(len(r.interned)+1))
	r.interned = append(r.interned, internEntry{kind: kind, p: p, h: h})
	ix := len(r.interned) - 1
	r.handleIx[string(h)] = ix
	r.internKey[pk] = ix
	if w != nil && r.internValsN == ix && r.internValsWitness == r.witnessGen {
		vk := string(kind) + p.eval(w, r.q).String()
		r.internVals[vk] = append(r.internVals[vk], ix)
		r.internValsN = ix + 1
	}
	return append([]byte(nil), h...)
}

// syncInternVals (re)builds the index value-under-witness → interned entries.
func (r *Run) syncInternVals(w map[int]*big.Int) {
	if r.internVals == nil || r.internValsWitness != r.witnessGen {
		r.internVals = map[string][]int{}
		r.internValsN = 0
		r.internValsWitness = r.witnessGen
	}
	for ix := r.internValsN; ix < len(r.interned); ix++ {
		e := r.interned[ix]
		vk := string(e.kind) + e.p.eval(w, r.q).String()
		r.internVals[vk] = append(r.internVals[vk], ix)
	}
	r.internValsN = len(r.interned)
}

// internViolations returns the implicit genericity assumptions violated by the assignment m: pairs
// of interned terms with different handles that m makes equal.
func (r *Run) internViolations(m map[int]*big.Int) []Pred {
	var out []Pred
	for _, hv := range r.hashVars {
		if len(hv) <= hashExplicit {
			continue
		}
		seen := map[string]int{}
		for ix, p := range hv {
			vk := p.eval(m, r.q).String()
			if j, dup := seen[vk]; dup {
				out = append(out, Not(simplifyEqZ(p.sub(hv[j], r.q))))
				continue
			}
			seen[vk] = ix
		}
	}
	if r.serializationOnly || len(r.interned) < 2 {
		return out
	}
	first := map[string]int{}
	for ix, e := range r.interned {
		vk := string(e.kind) + e.p.eval(m, r.q).String()
		if j, dup := first[vk]; dup {
			out = append(out, Not(simplifyEqZ(e.p.sub(r.interned[j].p, r.q))))
			continue
		}
		first[vk] = ix
	}
	return out
}

// pairwiseGeneric materialises the implicit distinctness assumptions (used only to re-ask a raw
// query that came back sat).
func (r *Run) pairwiseGeneric(limit int) ([]Pred, bool) {
	if r.serializationOnly {
		return nil, true
	}
	if len(r.interned) > limit {
		return nil, false
	}
	var out []Pred
	for i := range r.interned {
		for j := 0; j < i; j++ {
			if r.interned[i].kind != r.interned[j].kind {
				continue
			}
			g := Not(simplifyEqZ(r.interned[i].p.sub(r.interned[j].p, r.q)))
			if _, isT := g.(pTrue); isT {
				continue
			}
			out = append(out, g)
		}
	}
	return out, true
}
