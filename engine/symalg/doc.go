// Package symalg provides the symbolic model algebra of engine E2.
package symalg

import _ "github.com/bronlabs/bron-crypto/pkg/mpc/sharing/scheme/kw"
import _ "golang.org/x/tools/go/ssa"
