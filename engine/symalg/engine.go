package symalg

import (
	"crypto/sha256"
	"encoding/binary"
	"fmt"
	"math/big"
	"math/rand"
	"runtime/debug"
	"sort"
	"strings"
	"sync"
	"time"
)

// current is the run being executed by this process (one at a time: the E2 runner shards cases
// over single-threaded child processes). Decoders that have no receiver state (UnmarshalCBOR of a
// zero-valued element) resolve handles through it.
var current *Run

// Status of an obligation.
type Status string

const (
	StValid        Status = "valid"        // unsat for the negation on every path that reached it
	StWitnessed    Status = "witnessed"    // existential obligation: sat, solver-confirmed
	StViolated     Status = "violated"     // counterexample found (to be replayed by the caller)
	StInconclusive Status = "inconclusive" // unknown / bound exceeded / unsupported
)

// Obligation is the aggregated result of one assertion id across all paths.
type Obligation struct {
	ID      string `json:"id"`
	Status  Status `json:"status"`
	Kind    string `json:"kind"` // valid | witness | concrete
	Paths   int    `json:"paths"`
	Queries int    `json:"queries"`
	// Syntactic counts the paths on which the obligation reduced to `true` under the polynomial
	// normal form and the path substitution, so that no solver query was needed.
	Syntactic int `json:"syntactic"`
	// RawConfirmed counts the paths on which the solver re-proved the obligation in raw form.
	RawConfirmed int               `json:"raw_confirmed"`
	Model        map[string]string `json:"model,omitempty"`
	Reason       string            `json:"reason,omitempty"`
}

// Outcome is the result of exploring one harness.
type Outcome struct {
	Name         string                 `json:"name"`
	Paths        int                    `json:"paths"`
	Forks        int                    `json:"forks"`
	Obligations  map[string]*Obligation `json:"obligations"`
	Genericity   int                    `json:"genericity_assumptions"`
	Vars         int                    `json:"vars"`
	Inconclusive string                 `json:"inconclusive,omitempty"`
	WallS        float64                `json:"wall_s"`
	Aborted      []string               `json:"aborted_paths,omitempty"`
}

// Options configure an engine.
type Options struct {
	Q          *big.Int
	SolverName string
	TimeoutMs  int
	MaxPaths   int
	MaxDepth   int
	Seed       int64
	// Concrete, when non-nil, puts the engine in concrete (replay / validation) mode: every
	// variable is bound to the listed value (or to a seeded pseudo-random value when missing).
	Concrete map[string]*big.Int
	// CrossSolver, when set, re-asks every validity query to this second solver; disagreement
	// makes the obligation inconclusive.
	CrossSolver string
	Trace       bool
	// ReplayWitness (concrete mode, replays only): an existential obligation whose predicate is false
	// under the concrete assignment is recorded as violated. Differential validation runs leave it
	// off: there a witness obligation is informational (its predicate may legitimately be false
	// under one particular assignment).
	ReplayWitness bool
	// NoRawRecheck disables the second, raw-form solver query of validity obligations.
	NoRawRecheck bool
	// RawTimeoutMs is the timeout of raw-form queries (default 5000).
	RawTimeoutMs int
}

// Engine owns the solver and explores harnesses.
type Engine struct {
	opt    Options
	Q      *big.Int
	solver *Solver
	cross  *Solver
	rng    *rand.Rand

	// statistics
	DecideQueries                                              int
	ValidQueries                                               int
	SeededSat                                                  int
	OpenSat                                                    int
	CrossChecks                                                int
	CrossDisagree                                              int
	CrossUnknown                                               int
	SyntacticValid                                             int
	RawChecks, RawConfirmed, RawUnknown, RawDisagree, RawNodes int

	rawSolver       *Solver
	fallback        map[string]*Solver
	FallbackQueries int
	FallbackDecided int
	// PropRefuted counts the branch sides refuted by propagation after the solvers answered unknown.
	PropRefuted int
	noFallback  bool
}

// Secp256k1N is the order of secp256k1 (default modulus).
var Secp256k1N, _ = new(big.Int).SetString("FFFFFFFFFFFFFFFFFFFFFFFFFFFFFFFEBAAEDCE6AF48A03BBFD25E8CD0364141", 16)

// Ed25519L, P256N, BLS12381R, PallasQ are other real group orders.
var (
	Ed25519L, _  = new(big.Int).SetString("1000000000000000000000000000000014def9dea2f79cd65812631a5cf5d3ed", 16)
	P256N, _     = new(big.Int).SetString("ffffffff00000000ffffffffffffffffbce6faada7179e84f3b9cac2fc632551", 16)
	BLS12381R, _ = new(big.Int).SetString("73eda753299d7d483339d80809a1d80553bda402fffe5bfeffffffff00000001", 16)
	PallasQ, _   = new(big.Int).SetString("40000000000000000000000000000000224698fc0994a8dd8c46eb2100000001", 16)
)

// ModulusByName resolves a modulus name.
func ModulusByName(n string) *big.Int {
	switch n {
	case "ed25519":
		return Ed25519L
	case "p256":
		return P256N
	case "bls12381":
		return BLS12381R
	case "pallas":
		return PallasQ
	default:
		return Secp256k1N
	}
}

// NewEngine creates an engine.
func NewEngine(opt Options) (*Engine, error) {
	if opt.Q == nil {
		opt.Q = Secp256k1N
	}
	if opt.TimeoutMs == 0 {
		opt.TimeoutMs = 20000
	}
	if opt.MaxPaths == 0 {
		opt.MaxPaths = 512
	}
	if opt.MaxDepth == 0 {
		opt.MaxDepth = 24
	}
	if opt.SolverName == "" {
		opt.SolverName = "z3-new"
	}
	e := &Engine{opt: opt, Q: opt.Q, rng: rand.New(rand.NewSource(opt.Seed + 1))}
	if opt.Concrete == nil {
		s, err := NewSolver(opt.SolverName, opt.TimeoutMs)
		if err != nil {
			return nil, err
		}
		e.solver = s
		if opt.CrossSolver != "" {
			// the cross solver only has to confirm verdicts the primary solver reached; a short
			// timeout keeps the thorough tier bounded (an unknown is counted, not a disagreement)
			c, err := NewSolver(opt.CrossSolver, min(opt.TimeoutMs, 5000))
			if err != nil {
				return nil, err
			}
			e.cross = c
		}
	}
	return e, nil
}

// check asks the primary solver and, on `unknown`, the fallback solvers in turn (each started
// lazily). `unknown` from all of them stays unknown (inconclusive, never success).
func (e *Engine) check(script string, want []string) (Verdict, map[string]string) {
	v, vals := e.solver.Check(script, want)
	if v != Unknown || e.noFallback {
		return v, vals
	}
	for _, name := range []string{"z3-new", "cvc5", "z3"} {
		if name == e.solver.Name {
			continue
		}
		fb, ok := e.fallback[name]
		if !ok {
			var err error
			fb, err = NewSolver(name, e.opt.TimeoutMs)
			if err != nil {
				continue
			}
			if e.fallback == nil {
				e.fallback = map[string]*Solver{}
			}
			e.fallback[name] = fb
		}
		e.FallbackQueries++
		v, vals = fb.Check(script, want)
		if v != Unknown {
			e.FallbackDecided++
			return v, vals
		}
	}
	return Unknown, nil
}

// checkRaw uses a dedicated solver process with a short timeout for the raw-form re-checks.
func (e *Engine) checkRaw(script string) (Verdict, map[string]string) {
	if e.rawSolver == nil {
		t := e.opt.RawTimeoutMs
		if t == 0 {
			t = 5000
		}
		s, err := NewSolver(e.opt.SolverName, t)
		if err != nil {
			return Unknown, nil
		}
		e.rawSolver = s
	}
	return e.rawSolver.Check(script, nil)
}

// Close stops solver processes.
func (e *Engine) Close() {
	if e.solver != nil {
		e.solver.Close()
	}
	if e.cross != nil {
		e.cross.Close()
	}
	for _, f := range e.fallback {
		f.Close()
	}
	if e.rawSolver != nil {
		e.rawSolver.Close()
	}
}

// SolverStats summarises solver usage.
func (e *Engine) SolverStats() map[string]any {
	m := map[string]any{"decide_queries": e.DecideQueries, "valid_queries": e.ValidQueries, "seeded_sat": e.SeededSat, "open_sat": e.OpenSat, "syntactic_valid": e.SyntacticValid,
		"raw_checks": e.RawChecks, "raw_confirmed": e.RawConfirmed, "raw_unknown": e.RawUnknown, "raw_disagree": e.RawDisagree, "raw_nodes": e.RawNodes, "branch_sides_refuted_by_propagation_after_solver_unknown": e.PropRefuted}
	if e.rawSolver != nil {
		m["raw_solver_s"] = e.rawSolver.Time.Seconds()
	}
	if e.solver != nil {
		m["solver"] = e.solver.Name
		m["sat"] = e.solver.Queries[Sat]
		m["unsat"] = e.solver.Queries[Unsat]
		m["unknown"] = e.solver.Queries[Unknown]
		m["errors"] = e.solver.Errors
		m["solver_s"] = e.solver.Time.Seconds()
	}
	m["fallback_queries"] = e.FallbackQueries
	m["fallback_decided"] = e.FallbackDecided
	for _, f := range e.fallback {
		m["solver_s"] = m["solver_s"].(float64) + f.Time.Seconds()
	}
	if e.cross != nil {
		m["cross_solver"] = e.cross.Name
		m["cross_checks"] = e.CrossChecks
		m["cross_disagree"] = e.CrossDisagree
		m["cross_unknown"] = e.CrossUnknown
		m["cross_solver_s"] = e.cross.Time.Seconds()
	}
	return m
}

// ---------------------------------------------------------------------------------------------

type varInfo struct {
	id   int
	name string
}

// unsupported is the panic value for operations the engine cannot encode.
type unsupported struct{ msg string }

// Unsupported aborts the current path as not encodable.
func Unsupported(msg string) { panic(unsupported{msg}) }

type abortPath struct{ why string }

// IsEnginePanic reports whether a recovered panic value is one of the engine's control-flow
// panics (path abort / unsupported operation), which harness code must re-raise.
func IsEnginePanic(x any) bool {
	switch x.(type) {
	case abortPath, unsupported:
		return true
	}
	return false
}

// Run is one path execution of a harness.
type Run struct {
	// mu serialises the entry points used by library code: some library code (sigand) runs
	// sub-protocols in goroutines that sample randomness and compare elements concurrently.
	mu      sync.Mutex
	eng     *Engine
	q       *big.Int
	field   *Field
	group   *Group
	group2  *Group2
	target  *TargetGroup
	coords2 []*coordEntry
	// hash-to-group outputs per source group: the discrete logs of outputs for distinct inputs are
	// assumed pairwise distinct (random-oracle idealisation: a collision has probability 1/q)
	hashVars map[byte][]*Poly
	nonzero  []nonzeroPoly
	hashSeen map[string]bool
	vars     map[string]*varInfo // shared by all runs of one exploration (stable ids across re-execution)
	byID     *[]*varInfo
	script   []scriptLit // literals pre-asserted for this path
	local    []scriptLit // forks taken during this run
	path     []Pred      // script literals + assumptions, in assertion order
	pathK    map[string]bool
	newForks [][]scriptLit
	depth    int

	serializationOnly bool
	// incremental propagation state (see propagate)
	propDone, propSigma int
	propUnstable        []int
	// genericNonIdentity: see SetGenericNonIdentity
	genericNonIdentity       bool
	GenericIdentityDecisions int
	coords                   []*coordEntry
	generic                  []Pred // genericity assumptions (lazily added to queries, see DESIGN §4.1)
	genericK                 map[string]bool
	interned                 []internEntry
	internKey                map[string]int   // kind+normal-form key → entry
	internVals               map[string][]int // kind+value under the current witness → entries
	internValsN              int              // entries indexed in internVals
	internValsWitness        int              // witnessGen the index belongs to
	witnessGen               int              // incremented whenever the witness is re-seeded
	handleIx                 map[string]int

	witness   map[int]*big.Int
	witnessOK bool
	// number of path literals / genericity assumptions the current witness has been validated against
	witnessPathN, witnessGenN int

	// sigma is the triangular substitution derived from the equalities of the path condition
	// (x ↦ polynomial over other variables); goals are normalised under it before they are posed.
	sigma map[int]*Poly
	facts map[string]bool

	out      *Outcome
	readers  map[string]*Reader
	monitor  []ReadEvent
	current  string // current actor label (set by harness) for reader-discipline monitoring
	concrete bool
	dead     bool

	// genericDraws: every freshly sampled random element is assumed non-zero (a probability-1/q
	// event is excluded; protocol-level harnesses enable it so that rejection-sampling loops such as
	// algebrautils.RandomNonIdentity do not fork at every draw). Counted in DrawAssumptions.
	genericDraws    bool
	DrawAssumptions int

	poisonKind, poisonMsg string
}

// poison records a control-flow abort requested while library code may be running on a goroutine
// of its own (a panic there would kill the process): execution continues with an arbitrary branch
// and the path is abandoned at the next harness-level call, on the harness goroutine.
func (r *Run) poison(kind, msg string) {
	if r.poisonKind == "" {
		r.poisonKind, r.poisonMsg = kind, msg
	}
}

func (r *Run) checkPoison() {
	if r.poisonKind == "" {
		return
	}
	k, m := r.poisonKind, r.poisonMsg
	switch k {
	case "abort":
		panic(abortPath{m})
	case "unsupported":
		panic(unsupported{m})
	default:
		if r.out.Inconclusive == "" {
			r.out.Inconclusive = m
		}
		panic(abortPath{"inconclusive: " + m})
	}
}

// AssumeDrawsNonZero makes every subsequently sampled random element carry the assumption ≠ 0.
func (r *Run) AssumeDrawsNonZero() { r.genericDraws = true }

// SetGenericNonIdentity makes IsOpIdentity on a symbolic, not syntactically trivial point answer
// "no" without forking and records the literal "≠ identity" in the path condition. Honest-run
// harnesses of protocols that refuse identity points (each such refusal has probability 1/q) use it
// to exclude those measure-zero refusals wholesale; the recorded literals are part of the path
// condition, so a reach marker at the end still guards against vacuity. Stated in the evidence.
func (r *Run) SetGenericNonIdentity(on bool) { r.genericNonIdentity = on }

func (r *Run) drawVar(name string) *Poly {
	r.mu.Lock()
	defer r.mu.Unlock()
	_, existed := r.vars[name]
	p := r.newVar(name)
	if r.genericDraws && !r.concrete && (!existed || !r.pathK[Not(pEqZ{p: p}).key()]) {
		r.DrawAssumptions++
		r.addPath(Not(pEqZ{p: p}))
	}
	return p
}

type scriptLit struct {
	p   Pred
	val bool
}

type internEntry struct {
	kind byte
	p    *Poly
	h    []byte
}

func (r *Run) varName(id int) string { return fmt.Sprintf("v%d", id) }

// Field returns the model scalar field of this run.
func (r *Run) Field() *Field { return r.field }

// Group returns the model prime-order group of this run.
func (r *Run) Group() *Group { return r.group }

// Q returns the modulus.
func (r *Run) Q() *big.Int { return r.q }

// IsConcrete reports whether this run is in concrete (replay/validation) mode.
func (r *Run) IsConcrete() bool { return r.concrete }

func (r *Run) newVar(name string) *Poly {
	if v, ok := r.vars[name]; ok {
		return r.varPoly(v)
	}
	v := &varInfo{id: len(*r.byID), name: name}
	r.vars[name] = v
	*r.byID = append(*r.byID, v)
	r.witnessOK = false
	return r.varPoly(v)
}

func (r *Run) varPoly(v *varInfo) *Poly {
	if r.concrete {
		return polyConst(r.concreteValue(v.name), r.q)
	}
	return polyVar(v.id)
}

func (r *Run) concreteValue(name string) *big.Int {
	if x, ok := r.eng.opt.Concrete[name]; ok {
		return new(big.Int).Mod(x, r.q)
	}
	// seeded pseudo-random value, a function of (seed, name) only
	h := sha256.New()
	var sd [8]byte
	binary.BigEndian.PutUint64(sd[:], uint64(r.eng.opt.Seed))
	h.Write(sd[:])
	h.Write([]byte(name))
	d := h.Sum(nil)
	h.Write([]byte{1})
	d = append(d, h.Sum(nil)...)
	return new(big.Int).Mod(new(big.Int).SetBytes(d), r.q)
}

// Scalar returns the named symbolic field element (an arbitrary element of GF(q)).
func (r *Run) Scalar(name string) *F { return r.field.mk(r.newVarL("in:" + name)) }

// Point returns the named symbolic group element (an arbitrary element of the group).
func (r *Run) Point(name string) *G { return r.group.mk(r.newVarL("in:" + name)) }

func (r *Run) newVarL(name string) *Poly {
	r.mu.Lock()
	defer r.mu.Unlock()
	return r.newVar(name)
}

const hashExplicit = 24

// noteHashVar records a hash-to-group output (caller holds r.mu) and adds, for a new input, the path
// literals "its discrete log differs from 0, 1 and from every earlier hash output of this group".
func (r *Run) noteHashVar(kind byte, name string, p *Poly) {
	if r.concrete {
		return
	}
	if r.hashSeen == nil {
		r.hashSeen, r.hashVars = map[string]bool{}, map[byte][]*Poly{}
	}
	if r.hashSeen[name] {
		return
	}
	r.hashSeen[name] = true
	for _, c := range []int64{0, 1} {
		r.addPath(Not(simplifyEqZ(p.sub(polyConst(big.NewInt(c), r.q), r.q))))
	}
	// explicit pairwise literals for the first hashExplicit outputs of a group; beyond that the
	// distinctness is implicit (models and witnesses are checked against it and only violated pairs
	// are asserted, like the distinctness of interned encodings): protocols with thousands of
	// hash-to-curve calls (ECBBOT) would otherwise pay O(n²) literals
	if len(r.hashVars[kind]) < hashExplicit {
		for _, prev := range r.hashVars[kind] {
			r.addPath(Not(simplifyEqZ(p.sub(prev, r.q))))
		}
	}
	r.hashVars[kind] = append(r.hashVars[kind], p)
}

// ConstF returns a concrete field element.
func (r *Run) ConstF(v *big.Int) *F { return &F{f: r.field, p: polyConst(v, r.q)} }

// Assume adds a precondition to the path. If it is infeasible the path is abandoned silently.
func (r *Run) Assume(p Pred) {
	r.checkPoison()
	switch p.(type) {
	case pTrue:
		return
	case pFalse:
		panic(abortPath{"assumption false"})
	}
	if r.concrete {
		if !p.eval(nil, r.q) {
			panic(abortPath{"assumption false (concrete)"})
		}
		return
	}
	p = r.norm(p)
	switch p.(type) {
	case pTrue:
		return
	case pFalse:
		panic(abortPath{"assumption false under the path condition"})
	}
	// feasibility is required (vacuity guard): path ∧ p must be satisfiable
	if v := r.feasible(p); v == Unsat {
		panic(abortPath{"assumption infeasible"})
	} else if v == Unknown {
		r.inconclusive("assumption feasibility unknown: " + trunc(p.key(), 80))
	}
	r.addPath(p)
}

func (r *Run) addPath(p Pred) {
	k := p.key()
	if r.pathK[k] {
		return
	}
	r.pathK[k] = true
	r.path = append(r.path, p)
	r.witnessOK = false
	r.propagate()
}

// norm rewrites a predicate under the substitution sigma and the known facts of the path (sound:
// both are implied by the path condition). The rewritten predicate is equivalent to the original
// one for every assignment satisfying the path; this is self-checked on the path witness.
func (r *Run) norm(p Pred) Pred {
	out := fold(p)
	if len(r.sigma) > 0 {
		out = out.mapPolys(r.normPoly)
	}
	out = r.splitKnownFactors(out)
	out = r.withFacts(out)
	return out
}

// withFacts prunes a predicate using literals already known to hold on the path.
func (r *Run) withFacts(p Pred) Pred {
	switch v := p.(type) {
	case pTrue, pFalse:
		return p
	case pAnd:
		xs := make([]Pred, 0, len(v.xs))
		for _, x := range v.xs {
			xs = append(xs, r.withFacts(x))
		}
		return And(xs...)
	case pOr:
		xs := make([]Pred, 0, len(v.xs))
		for _, x := range v.xs {
			xs = append(xs, r.withFacts(x))
		}
		return Or(xs...)
	case pNot:
		if r.facts[v.key()] {
			return pTrue{}
		}
		if r.facts[v.x.key()] {
			return pFalse{}
		}
		inner := r.withFacts(v.x)
		return Not(inner)
	default:
		k := p.key()
		if r.facts[k] {
			return pTrue{}
		}
		if r.facts[Not(p).key()] {
			return pFalse{}
		}
		return p
	}
}

// propagate brings sigma and the fact set to a fixpoint over the path literals.
func (r *Run) propagate() {
	if r.facts == nil {
		r.facts = map[string]bool{}
	}
	// Incremental: a literal whose simplified form is a plain disequality cannot be simplified
	// further by new facts (only by a new substitution, which triggers a full pass), so only the
	// literals added since the last call and the not-yet-stable ones are re-examined.
	for round := 0; round < 32; round++ {
		changed := false
		full := len(r.sigma) != r.propSigma
		var cand []int
		if full {
			cand = make([]int, len(r.path))
			for i := range cand {
				cand[i] = i
			}
			r.propUnstable = r.propUnstable[:0]
		} else {
			cand = append(cand, r.propUnstable...)
			for i := r.propDone; i < len(r.path); i++ {
				cand = append(cand, i)
			}
			r.propUnstable = r.propUnstable[:0]
		}
		r.propSigma = len(r.sigma)
		r.propDone = len(r.path)
		for _, i := range cand {
			n := r.path[i]
			if len(r.sigma) > 0 {
				n = n.mapPolys(r.normPoly)
			}
			n = r.splitKnownFactors(n)
			n = r.withFactsExcept(n)
			if r.assertFact(n) {
				changed = true
			}
			stable := false
			switch v := n.(type) {
			case pTrue:
				stable = true
			case pNot:
				_, stable = v.x.(pEqZ)
			}
			if !stable {
				r.propUnstable = append(r.propUnstable, i)
			}
		}
		if !changed && len(r.sigma) == r.propSigma {
			return
		}
	}
}

// withFactsExcept is withFacts, but a literal must not be simplified away by its own fact.
func (r *Run) withFactsExcept(p Pred) Pred {
	k := p.key()
	if r.facts[k] {
		return p
	}
	return r.withFacts(p)
}

// assertFact records a simplified path literal; returns true if something new was learnt.
func (r *Run) assertFact(p Pred) bool {
	switch v := p.(type) {
	case pTrue:
		return false
	case pFalse:
		r.poison("abort", "path condition contradictory")
		return false
	case pAnd:
		ch := false
		for _, x := range v.xs {
			if r.assertFact(x) {
				ch = true
			}
		}
		return ch
	}
	k := p.key()
	if r.facts[k] {
		return false
	}
	r.facts[k] = true
	r.learn(p)
	if n, ok := p.(pNot); ok {
		if e, ok := n.x.(pEqZ); ok && len(e.p.t) >= 2 && len(r.nonzero) < 256 {
			vs := map[int]bool{}
			e.p.varSet(vs)
			r.nonzero = append(r.nonzero, nonzeroPoly{p: e.p, lead: e.p.leadMono(), vars: vs, deg: e.p.degree()})
		}
	}
	return true
}

// nonzeroPoly is a polynomial (two or more terms) known to be non-zero on the path.
type nonzeroPoly struct {
	p    *Poly
	lead []int
	vars map[int]bool
	deg  int
}

// splitKnownFactors rewrites every atom P ≡ 0 of degree ≥ 2 whose polynomial is exactly divisible by
// a polynomial A known to be non-zero on this path into (P/A) ≡ 0 (GF(q) is an integral domain).
// The solvers do not know that q is prime and answer `unknown` on e.g. s·(h−h') ≡ 0 with s a
// linear form, s ≢ 0, h ≢ h'.
func (r *Run) splitKnownFactors(p Pred) Pred {
	if len(r.nonzero) == 0 {
		return p
	}
	switch v := p.(type) {
	case pEqZ:
		poly, changed := v.p, false
		if len(poly.t) > 128 {
			return p
		}
		for again := true; again; {
			again = false
			deg := poly.degree()
			if deg < 2 {
				break
			}
			lp := poly.leadMono()
			pv := map[int]bool{}
			poly.varSet(pv)
		nextNZ:
			for _, nz := range r.nonzero {
				if len(nz.p.t) > len(poly.t) || nz.deg >= deg || len(nz.vars) > len(pv) {
					continue
				}
				for x := range nz.vars {
					if !pv[x] {
						continue nextNZ
					}
				}
				if _, ok := monoDiv(lp, nz.lead); !ok {
					continue
				}
				if b, ok := poly.divExact(nz.p, r.q); ok {
					poly, changed, again = b, true, true
					break
				}
			}
		}
		if !changed {
			return p
		}
		return simplifyEqZ(poly)
	case pNot:
		return Not(r.splitKnownFactors(v.x))
	case pAnd:
		xs := make([]Pred, len(v.xs))
		for i, x := range v.xs {
			xs[i] = r.splitKnownFactors(x)
		}
		return And(xs...)
	case pOr:
		xs := make([]Pred, len(v.xs))
		for i, x := range v.xs {
			xs[i] = r.splitKnownFactors(x)
		}
		return Or(xs...)
	}
	return p
}

func (r *Run) normPoly(p *Poly) *Poly {
	for iter := 0; iter < 64; iter++ {
		changed := false
		for m := range p.t {
			for _, v := range monoVars(m) {
				if s, ok := r.sigma[v]; ok {
					p = p.subst(v, s, r.q)
					changed = true
					break
				}
			}
			if changed {
				break
			}
		}
		if !changed {
			return p
		}
	}
	return p
}

// learn extends sigma from an (already normalised) equality literal: if some variable occurs only
// in a degree-one monomial with a constant coefficient, it is solved for.
func (r *Run) learn(p Pred) {
	switch v := p.(type) {
	case pEqZ:
		poly := v.p
		// candidate variables: monomials that are a single variable
		var best = -1
		for m := range poly.t {
			vs := monoVars(m)
			if len(vs) != 1 {
				continue
			}
			x := vs[0]
			// x must not occur in any other monomial
			occ := 0
			for m2 := range poly.t {
				for _, y := range monoVars(m2) {
					if y == x {
						occ++
					}
				}
			}
			// only unit coefficients: dividing by a general coefficient would turn small
			// coefficients into 256-bit ones, which the solvers handle far worse (probed: a
			// linear system they decide in ms became `unknown`)
			c := poly.t[m]
			unit := c.Cmp(big.NewInt(1)) == 0 || new(big.Int).Add(c, big.NewInt(1)).Cmp(r.q) == 0
			if occ == 1 && unit && (best < 0 || x > best) {
				best = x // prefer the most recently created variable
			}
		}
		if best < 0 {
			return
		}
		c := poly.t[itoa(best)]
		rest := &Poly{t: map[string]*big.Int{}}
		for m, cc := range poly.t {
			if m != itoa(best) {
				rest.t[m] = cc
			}
		}
		inv := new(big.Int).ModInverse(c, r.q)
		expr := rest.scale(new(big.Int).Neg(inv), r.q) // x = -rest/c
		if r.sigma == nil {
			r.sigma = map[int]*Poly{}
		}
		// keep sigma idempotent: substitute x in existing ranges
		for k, e := range r.sigma {
			r.sigma[k] = e.subst(best, expr, r.q)
		}
		r.sigma[best] = expr
	}
}

func trunc(s string, n int) string {
	if len(s) > n {
		return s[:n] + "…"
	}
	return s
}

func (r *Run) inconclusive(why string) {
	if r.out.Inconclusive == "" {
		r.out.Inconclusive = why
	}
	panic(abortPath{"inconclusive: " + why})
}

// ---------------------------------------------------------------------------------------------
// SMT script construction

func (r *Run) scriptFor(extra []Pred, withGeneric []Pred) (string, []string) {
	used := map[int]bool{}
	for _, p := range r.path {
		p.vars(used)
	}
	for _, p := range extra {
		p.vars(used)
	}
	for _, p := range withGeneric {
		p.vars(used)
	}
	ids := make([]int, 0, len(used))
	for id := range used {
		ids = append(ids, id)
	}
	sort.Ints(ids)
	var sb strings.Builder
	names := make([]string, 0, len(ids))
	for _, id := range ids {
		n := r.varName(id)
		names = append(names, n)
		sb.WriteString("(declare-const " + n + " Int)\n")
		// bounds are semantically redundant for congruence predicates but make z3 4.8.12 decide
		// small inconsistent congruence systems that it otherwise times out on (probed)
		sb.WriteString("(assert (and (<= 0 " + n + ") (< " + n + " " + r.q.String() + ")))\n")
	}
	for _, p := range r.path {
		sb.WriteString("(assert " + p.smt(r.q, r.varName) + ")\n")
	}
	for _, p := range withGeneric {
		sb.WriteString("(assert " + p.smt(r.q, r.varName) + ")\n")
	}
	for _, p := range extra {
		sb.WriteString("(assert " + p.smt(r.q, r.varName) + ")\n")
	}
	return sb.String(), names
}

// solve decides satisfiability of path ∧ extra. Genericity assumptions are added lazily: a model
// that violates some of them causes those to be asserted and the query to be repeated.
// Satisfiable-direction answers are first sought by seeded candidate models (guess-and-verify)
// that the solver then confirms.
func (r *Run) solve(extra []Pred, wantModel bool, seedFirst bool) (Verdict, map[int]*big.Int) {
	if seedFirst {
		if m := r.seedModel(extra); m != nil {
			if r.confirmModel(extra, m) {
				r.eng.SeededSat++
				return Sat, m
			}
		}
	}
	var added []Pred
	for iter := 0; iter < 8; iter++ {
		script, names := r.scriptFor(extra, added)
		var want []string
		if wantModel || len(r.generic) > 0 || (len(r.interned) > 1 && !r.serializationOnly) {
			want = names
		}
		v, vals := r.eng.check(script, want)
		if v != Sat {
			return v, nil
		}
		r.eng.OpenSat++
		m := r.modelFromValues(vals)
		if m == nil {
			return Sat, nil
		}
		var viol []Pred
		for _, g := range r.generic {
			if !g.eval(m, r.q) {
				viol = append(viol, g)
			}
		}
		for _, g := range r.internViolations(m) {
			viol = append(viol, g)
			if k := g.key(); !r.genericK[k] && !r.pathK[k] {
				r.genericK[k] = true
				r.generic = append(r.generic, g)
			}
		}
		if len(viol) == 0 {
			return Sat, m
		}
		added = append(added, viol...)
	}
	return Unknown, nil
}

func (r *Run) modelFromValues(vals map[string]string) map[int]*big.Int {
	if vals == nil {
		return nil
	}
	m := map[int]*big.Int{}
	for _, v := range *r.byID {
		if s, ok := vals[r.varName(v.id)]; ok {
			x, ok2 := new(big.Int).SetString(s, 10)
			if !ok2 {
				return nil
			}
			m[v.id] = x.Mod(x, r.q)
		} else {
			m[v.id] = new(big.Int)
		}
	}
	return m
}

// confirmModel hands a concrete candidate to the solver as equalities: the solver confirms that
// path ∧ extra holds under it (a trivial query).
func (r *Run) confirmModel(extra []Pred, m map[int]*big.Int) bool {
	script, _ := r.scriptFor(extra, nil)
	var sb strings.Builder
	sb.WriteString(script)
	used := map[int]bool{}
	for _, p := range r.path {
		p.vars(used)
	}
	for _, p := range extra {
		p.vars(used)
	}
	ids := make([]int, 0, len(used))
	for id := range used {
		ids = append(ids, id)
	}
	sort.Ints(ids)
	for _, id := range ids {
		sb.WriteString("(assert (= " + r.varName(id) + " " + m[id].String() + "))\n")
	}
	v, _ := r.eng.check(sb.String(), nil)
	return v == Sat
}

// feasible: is path ∧ p satisfiable?
func (r *Run) feasible(p Pred) Verdict {
	v, _ := r.solve([]Pred{p}, false, true)
	return v
}

// entailed: does path ⊨ p ? (unsat of path ∧ ¬p); never seeded.
func (r *Run) entailed(p Pred) Verdict {
	p = r.norm(p)
	switch p.(type) {
	case pTrue:
		return Unsat
	case pFalse:
		return Sat
	}
	// cheap refutation first: a witness of the path that falsifies p shows non-entailment
	if w := r.pathWitness(); w != nil && !p.eval(w, r.q) {
		return Sat // "negation satisfiable" → not entailed
	}
	v, _ := r.solve([]Pred{Not(p)}, false, false)
	return v
}

// ---------------------------------------------------------------------------------------------
// Decisions (branches of the library on symbolic data)

func (r *Run) decide(p Pred) bool {
	r.mu.Lock()
	defer r.mu.Unlock()
	return r.decideL(p)
}

func (r *Run) decideL(p Pred) bool {
	if r.poisonKind != "" {
		return false
	}
	if !r.concrete {
		p = r.norm(p)
	}
	switch p.(type) {
	case pTrue:
		return true
	case pFalse:
		return false
	}
	if r.concrete {
		return p.eval(nil, r.q)
	}
	k := p.key()
	if r.pathK[k] {
		return true
	}
	if r.pathK[Not(p).key()] {
		return false
	}
	r.eng.DecideQueries++
	// Is ¬p possible?  Is p possible?
	w := r.pathWitness()
	var canT, canF Verdict
	if w != nil {
		if p.eval(w, r.q) {
			canT = Sat
		} else {
			canF = Sat
		}
	}
	// Each side: the primary solver first; if it answers unknown, a propagation-only refutation
	// (substitution of solved linear equalities, splitting of factors known to be non-zero, fact
	// lookup: a contradiction derived this way proves unsatisfiability, nothing is concluded
	// otherwise); then the fallback solvers.
	side := func(q Pred) Verdict {
		// first attempt: primary solver only, short timeout (almost every branch query is answered
		// in milliseconds; the ones that are not are typically products the solver cannot refute)
		r.eng.noFallback = true
		r.eng.solver.shortM = 3000
		v, _ := r.solve([]Pred{q}, false, true)
		r.eng.solver.shortM = 0
		r.eng.noFallback = false
		if v != Unknown {
			return v
		}
		if r.refuteByPropagation(q) {
			r.eng.PropRefuted++
			return Unsat
		}
		v, _ = r.solve([]Pred{q}, false, false)
		return v
	}
	if canT != Sat {
		canT = side(p)
	}
	if canF != Sat {
		canF = side(Not(p))
	}
	switch {
	case canT == Unknown || canF == Unknown:
		r.poison("inconclusive", "branch feasibility unknown: "+trunc(k, 100))
		return false
	case canT == Sat && canF == Unsat:
		return true
	case canT == Unsat && canF == Sat:
		return false
	case canT == Unsat && canF == Unsat:
		r.poison("abort", "path infeasible")
		return false
	}
	// fork: continue with true, schedule false
	r.depth++
	if r.depth > r.eng.opt.MaxDepth {
		r.poison("inconclusive", "fork depth bound exceeded")
		return false
	}
	alt := append(append([]scriptLit{}, r.script...), r.localLits()...)
	alt = append(alt, scriptLit{p, false})
	r.newForks = append(r.newForks, alt)
	r.local = append(r.local, scriptLit{p, true})
	r.addPath(p)
	r.out.Forks++
	return true
}

// refuteByPropagation reports whether path ∧ generic ∧ p is contradictory by propagation. The
// run's state is restored afterwards.
func (r *Run) refuteByPropagation(p Pred) bool {
	if r.poisonKind != "" {
		return false
	}
	facts := make(map[string]bool, len(r.facts))
	for k, v := range r.facts {
		facts[k] = v
	}
	sigma := make(map[int]*Poly, len(r.sigma))
	for k, v := range r.sigma {
		sigma[k] = v
	}
	nz, pathN := len(r.nonzero), len(r.path)
	propDone, propSigma := r.propDone, r.propSigma
	unstable := append([]int{}, r.propUnstable...)
	wOK := r.witnessOK
	var addedKeys []string
	add := func(q Pred) {
		k := q.key()
		if r.pathK[k] {
			return
		}
		r.pathK[k] = true
		addedKeys = append(addedKeys, k)
		r.path = append(r.path, q)
	}
	add(p)
	for _, g := range r.generic {
		add(g)
	}
	r.propagate()
	refuted := r.poisonKind == "abort"
	if !refuted && r.poisonKind == "" {
		refuted = r.linearRefute()
	}
	// restore
	r.poisonKind, r.poisonMsg = "", ""
	for _, k := range addedKeys {
		delete(r.pathK, k)
	}
	r.path = r.path[:pathN]
	r.facts, r.sigma = facts, sigma
	if len(sigma) == 0 {
		r.sigma = nil
	}
	r.nonzero = r.nonzero[:nz]
	r.propDone, r.propSigma, r.propUnstable = propDone, propSigma, unstable
	r.witnessOK = wOK
	return refuted
}

// linearRefute decides the LINEAR part of the current path by Gaussian elimination over GF(q)
// (exact modular arithmetic, done here and not by the solver: z3 and cvc5 answer `unknown` on
// inconsistent systems of three linear congruences in two unknowns modulo a 256-bit prime, see
// DESIGN §12.1): the linear equalities of the path are solved for one variable each; the path is
// contradictory if an equality reduces to a non-zero constant or a linear disequality reduces to
// 0 ≢ 0. Non-linear literals are ignored (sound: a contradiction among a subset of the literals
// refutes the whole path).
func (r *Run) linearRefute() bool {
	var eqs, neqs []*Poly
	var collect func(p Pred, positive bool)
	collect = func(p Pred, positive bool) {
		switch v := p.(type) {
		case pEqZ:
			q := v.p
			if len(r.sigma) > 0 {
				q = r.normPoly(q)
			}
			if !q.isLinear() {
				return
			}
			if positive {
				eqs = append(eqs, q)
			} else {
				neqs = append(neqs, q)
			}
		case pNot:
			collect(v.x, !positive)
		case pAnd:
			if positive {
				for _, x := range v.xs {
					collect(x, true)
				}
			}
		case pOr:
			if !positive {
				for _, x := range v.xs {
					collect(x, false)
				}
			}
		}
	}
	for _, p := range r.path {
		collect(p, true)
	}
	if len(eqs) == 0 || len(eqs) > 400 {
		return false
	}
	// triangularise: solved[id] = expression over the remaining variables
	order := []int{}
	solved := map[int]*Poly{}
	reduce := func(p *Poly) *Poly {
		for _, id := range order {
			if _, has := p.t[itoa(id)]; has {
				p = p.subst(id, solved[id], r.q)
			}
		}
		return p
	}
	for _, e := range eqs {
		e = reduce(e)
		if e.isZero() {
			continue
		}
		if e.isConst() {
			return true // 0 ≡ c with c ≢ 0
		}
		// solve for the variable with the largest id
		best := -1
		for m := range e.t {
			if m == "" {
				continue
			}
			if v := monoVars(m)[0]; v > best {
				best = v
			}
		}
		c := e.t[itoa(best)]
		inv := new(big.Int).ModInverse(c, r.q)
		if inv == nil {
			continue
		}
		rest := &Poly{t: map[string]*big.Int{}}
		for m, cc := range e.t {
			if m != itoa(best) {
				rest.t[m] = cc
			}
		}
		expr := rest.scale(new(big.Int).Neg(inv), r.q)
		// keep the triangular system reduced: substitute into earlier solutions
		for _, id := range order {
			if _, has := solved[id].t[itoa(best)]; has {
				solved[id] = solved[id].subst(best, expr, r.q)
			}
		}
		solved[best] = expr
		order = append(order, best)
	}
	for _, n := range neqs {
		if reduce(n).isZero() {
			return true // a disequality whose left side is forced to 0
		}
	}
	return false
}

// pathWitness returns an assignment satisfying the current path and all genericity
// assumptions, or nil if none was found cheaply.
func (r *Run) pathWitness() map[int]*big.Int {
	if r.witnessOK {
		return r.witness
	}
	// incremental maintenance: literals already validated only mention variables that existed then,
	// so the previous witness extended by random values for the new variables still satisfies them;
	// only the literals added since need to be evaluated. A failure falls back to a full re-seed.
	if r.witness != nil && r.witnessPathN <= len(r.path) && r.witnessGenN <= len(r.generic) {
		ok := true
		for _, v := range *r.byID {
			if _, has := r.witness[v.id]; !has {
				r.witness[v.id] = r.uniformScalar()
			}
		}
		for _, p := range r.path[r.witnessPathN:] {
			if !p.eval(r.witness, r.q) {
				ok = false
				break
			}
		}
		if ok {
			for _, g := range r.generic[r.witnessGenN:] {
				if !g.eval(r.witness, r.q) {
					ok = false
					break
				}
			}
		}
		if ok {
			r.witnessPathN, r.witnessGenN = len(r.path), len(r.generic)
			r.witnessOK = true
			return r.witness
		}
	}
	r.witness = r.seedModel(nil)
	r.witnessGen++
	r.witnessPathN, r.witnessGenN = len(r.path), len(r.generic)
	r.witnessOK = true
	return r.witness
}

// ---------------------------------------------------------------------------------------------
// Obligations

func (r *Run) ob(id, kind string) *Obligation {
	o, ok := r.out.Obligations[id]
	if !ok {
		o = &Obligation{ID: id, Kind: kind, Status: StValid}
		r.out.Obligations[id] = o
	}
	return o
}

func (r *Run) modelNames(m map[int]*big.Int) map[string]string {
	out := map[string]string{}
	for _, v := range *r.byID {
		if x, ok := m[v.id]; ok {
			out[v.name] = x.String()
		}
	}
	return out
}

func worse(o *Obligation, s Status, reason string, model map[string]string) {
	rank := map[Status]int{StValid: 0, StWitnessed: 0, StInconclusive: 1, StViolated: 2}
	if rank[s] > rank[o.Status] {
		o.Status = s
		o.Reason = reason
		o.Model = model
	}
}

// Valid records the obligation "p holds for every assignment satisfying the path condition".
func (r *Run) Valid(id string, p Pred) bool {
	r.checkPoison()
	o := r.ob(id, "valid")
	o.Paths++
	if r.concrete {
		if !p.eval(nil, r.q) {
			worse(o, StViolated, "fails under the concrete assignment", nil)
			return false
		}
		return true
	}
	p0 := p
	p = r.norm(p)
	switch p.(type) {
	case pTrue:
		o.Syntactic++
		r.eng.SyntacticValid++
		return r.rawRecheck(o, p0)
	}
	r.eng.ValidQueries++
	o.Queries++
	// a seeded falsifying witness is a counterexample candidate (confirmed by the solver below)
	v, m := r.solve([]Pred{Not(p)}, true, true)
	switch v {
	case Unsat:
		if r.eng.cross != nil {
			r.eng.CrossChecks++
			script, _ := r.scriptFor([]Pred{Not(p)}, r.generic)
			cv, _ := r.eng.cross.Check(script, nil)
			if cv == Unknown {
				r.eng.CrossUnknown++
			}
			if cv == Sat {
				r.eng.CrossDisagree++
				worse(o, StInconclusive, "solvers disagree", nil)
				return false
			}
		}
		return r.rawRecheck(o, p0)
	case Sat:
		var mm map[string]string
		if m != nil {
			mm = r.modelNames(m)
		}
		worse(o, StViolated, "counterexample: "+trunc(p.key(), 120), mm)
		return false
	default:
		worse(o, StInconclusive, "solver unknown on validity query", nil)
		return false
	}
}

// rawRecheck poses the obligation a second time in raw form (path literals and goal exactly as the
// library computed them). unsat = the solver itself confirms the verdict; unknown = the verdict
// rests on the normal form only (counted separately); sat = engine mismatch (never a success).
func (r *Run) rawRecheck(o *Obligation, p0 Pred) bool {
	if r.eng.opt.NoRawRecheck {
		return true
	}
	script, nodes := r.rawScript([]Pred{Not(p0)})
	r.eng.RawChecks++
	r.eng.RawNodes += nodes
	v, _ := r.eng.checkRaw(script)
	switch v {
	case Unsat:
		r.eng.RawConfirmed++
		o.RawConfirmed++
		return true
	case Sat:
		// the implicit distinctness of interned encodings is not part of the raw script: re-ask with
		// it materialised before calling this a disagreement
		if pw, ok := r.pairwiseGeneric(400); ok && len(pw) > 0 {
			script2, _ := r.rawScript(append([]Pred{Not(p0)}, pw...))
			switch v2, _ := r.eng.checkRaw(script2); v2 {
			case Unsat:
				r.eng.RawConfirmed++
				o.RawConfirmed++
				return true
			case Unknown:
				r.eng.RawUnknown++
				return true
			}
		} else if !ok {
			r.eng.RawUnknown++
			return true
		}
		r.eng.RawDisagree++
		worse(o, StInconclusive, "ENGINE-MISMATCH: raw-term query is satisfiable although the normal form says valid", nil)
		return false
	default:
		r.eng.RawUnknown++
		return true
	}
}

// Witness records the existential obligation "path ∧ p is satisfiable" (sat is required).
func (r *Run) Witness(id string, p Pred) (bool, map[string]string) {
	r.checkPoison()
	o := r.ob(id, "witness")
	o.Paths++
	if r.concrete {
		// replay / differential run: an existential obligation cannot be refuted by one assignment in
		// general, but a predicate that is false under a generic concrete assignment reproduces the
		// "no witness exists" verdict of the symbolic run (the chance of a false negative for a
		// satisfiable predicate is of the order 1/q)
		ok := p.eval(nil, r.q)
		if !ok && r.eng.opt.ReplayWitness {
			worse(o, StViolated, "no witness under the concrete assignment", nil)
		}
		return ok, nil
	}
	p = r.norm(p)
	o.Queries++
	v, m := r.solve([]Pred{p}, true, true)
	switch v {
	case Sat:
		if o.Status == StValid {
			o.Status = StWitnessed
		}
		var mm map[string]string
		if m != nil {
			mm = r.modelNames(m)
		}
		return true, mm
	case Unsat:
		worse(o, StViolated, "required witness does not exist (unsat): "+trunc(p.key(), 120), nil)
		return false, nil
	default:
		worse(o, StInconclusive, "solver unknown on witness query", nil)
		return false, nil
	}
}

// Unsatisfiable records the obligation "path ∧ p has no solution".
func (r *Run) Unsatisfiable(id string, p Pred) bool {
	return r.Valid(id, Not(p))
}

// Check records a concrete condition that must be true on this path (e.g. "no error returned").
// When it fails the current path condition is the set of inputs exhibiting the failure; a
// witness of it is recorded as the counterexample.
func (r *Run) Check(id string, cond bool, msg string) bool {
	r.checkPoison()
	o := r.ob(id, "concrete")
	o.Paths++
	if cond {
		return true
	}
	var mm map[string]string
	if !r.concrete {
		if w := r.pathWitness(); w != nil {
			mm = r.modelNames(w)
		} else if v, m := r.solve(nil, true, false); v == Sat && m != nil {
			mm = r.modelNames(m)
		}
	}
	worse(o, StViolated, msg, mm)
	return false
}

// Reach marks a reachability witness (vacuity guard): the id must be reached on some path.
func (r *Run) Reach(id string) {
	r.checkPoison()
	o := r.ob("reach:"+id, "reach")
	o.Paths++
	o.Status = StWitnessed
}

// ---------------------------------------------------------------------------------------------
// Exploration

// local literals decided (forked) during this run, in order.
func (r *Run) localLits() []scriptLit { return r.local }

// Explore runs the harness on every path (fork leaves) and aggregates obligations.
func (e *Engine) Explore(name string, h func(r *Run)) *Outcome {
	t0 := time.Now()
	out := &Outcome{Name: name, Obligations: map[string]*Obligation{}}
	work := [][]scriptLit{nil}
	vars := map[string]*varInfo{}
	var byID []*varInfo
	for len(work) > 0 {
		script := work[len(work)-1]
		work = work[:len(work)-1]
		if out.Paths >= e.opt.MaxPaths {
			if out.Inconclusive == "" {
				out.Inconclusive = "path bound exceeded"
			}
			break
		}
		out.Paths++
		r := e.newRun(out, script, vars, &byID)
		e.runOne(r, h)
		work = append(work, r.newForks...)
		if out.Vars < len(byID) {
			out.Vars = len(byID)
		}
		if out.Genericity < len(r.generic) {
			out.Genericity = len(r.generic)
		}
		if out.Inconclusive != "" {
			break
		}
	}
	if out.Inconclusive != "" {
		for _, o := range out.Obligations {
			if o.Status == StValid {
				// not all paths were explored: a "valid so far" verdict is not a verdict
				o.Status = StInconclusive
				o.Reason = "exploration incomplete: " + out.Inconclusive
			}
		}
	}
	out.WallS = time.Since(t0).Seconds()
	return out
}

func (e *Engine) newRun(out *Outcome, script []scriptLit, vars map[string]*varInfo, byID *[]*varInfo) *Run {
	r := &Run{eng: e, q: e.Q, vars: vars, byID: byID, pathK: map[string]bool{}, genericK: map[string]bool{},
		handleIx: map[string]int{}, internKey: map[string]int{}, out: out, readers: map[string]*Reader{}, script: script, concrete: e.opt.Concrete != nil}
	r.field = &Field{run: r, q: e.Q}
	r.group = &Group{run: r, f: r.field}
	r.group2 = &Group2{run: r, f: r.field}
	r.target = &TargetGroup{run: r, f: r.field}
	r.depth = len(script)
	return r
}

func (e *Engine) runOne(r *Run, h func(r *Run)) {
	defer func() {
		if x := recover(); x != nil {
			switch v := x.(type) {
			case abortPath:
				r.out.Aborted = append(r.out.Aborted, v.why)
			case unsupported:
				if r.out.Inconclusive == "" {
					r.out.Inconclusive = "unsupported: " + v.msg
				}
			default:
				// a panic of the library (or harness) on a feasible path
				o := r.ob("nopanic", "concrete")
				var mm map[string]string
				if !r.concrete {
					if w := r.pathWitness(); w != nil {
						mm = r.modelNames(w)
					}
				}
				worse(o, StViolated, fmt.Sprintf("panic: %v\n%s", x, trunc(string(debug.Stack()), 3000)), mm)
			}
		}
	}()
	// Scripted literals are asserted up front. They mention variables by id; ids are stable across
	// the runs of one exploration because the name→id table is shared (variable identity is the
	// name, i.e. (reader, offset) or the harness-given input name).
	for _, sl := range r.script {
		if sl.val {
			r.addPath(sl.p)
		} else {
			r.addPath(Not(sl.p))
		}
	}
	current = r
	h(r)
	r.checkPoison()
}
