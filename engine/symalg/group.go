package symalg

import (
	"fmt"
	"hash/fnv"
	"io"
	"math/big"

	"github.com/bronlabs/bron-crypto/pkg/base"
	"github.com/bronlabs/bron-crypto/pkg/base/algebra"
	"github.com/bronlabs/bron-crypto/pkg/base/nt/cardinal"
	"github.com/bronlabs/bron-crypto/pkg/base/serde"
)

// Group is the model cyclic group of prime order q written in its discrete-log representation
// (Op = +, ScalarOp(s) = ·s, generator = 1). Every group of prime order q is isomorphic to it, so
// any equality between group expressions that the generic library code can state holds in the real
// curve iff it holds here with q the real group order. It satisfies algebra.PrimeGroup[*G,*F] and
// the additive variants.
type Group struct {
	run *Run
	f   *Field
}

// G is a group element, represented by the polynomial of its discrete logarithm.
type G struct {
	g   *Group
	p   *Poly
	raw *node
}

var (
	_ algebra.PrimeGroup[*G, *F]                = (*Group)(nil)
	_ algebra.PrimeGroupElement[*G, *F]         = (*G)(nil)
	_ algebra.AdditivePrimeGroup[*G, *F]        = (*Group)(nil)
	_ algebra.AdditivePrimeGroupElement[*G, *F] = (*G)(nil)
)

const pointSize = 33

func (g *Group) mk(p *Poly) *G { return &G{g: g, p: p, raw: rawOfPoly(p)} }

func (g *Group) mkr(p *Poly, raw *node) *G {
	if raw == nil || p.isConst() {
		return g.mk(p)
	}
	return &G{g: g, p: p, raw: raw}
}

func (g *Group) Name() string                           { return "symGroup(" + g.f.q.Text(16) + ")" }
func (g *Group) Order() cardinal.Cardinal               { return cardinal.NewFromBig(g.f.q) }
func (g *Group) Contains(e *G) bool                     { return e != nil }
func (g *Group) ElementSize() int                       { return pointSize }
func (g *Group) OpIdentity() *G                         { return g.mk(polyConst(big.NewInt(0), g.f.q)) }
func (g *Group) Zero() *G                               { return g.OpIdentity() }
func (g *Group) Generator() *G                          { return g.mk(polyConst(big.NewInt(1), g.f.q)) }
func (g *Group) ScalarStructure() algebra.Structure[*F] { return g.f }
func (g *Group) ScalarField() algebra.PrimeField[*F]    { return g.f }
func (g *Group) ScalarBaseOp(s *F) *G                   { return g.mkr(s.p, s.raw) }
func (g *Group) ScalarBaseMul(s *F) *G                  { return g.mkr(s.p, s.raw) }

// FromDlog builds the element [s]G.
func (g *Group) FromDlog(s *F) *G { return g.mkr(s.p, s.raw) }

func (g *Group) FromBytes(b []byte) (*G, error) {
	if len(b) != pointSize {
		return nil, fmt.Errorf("symalg: invalid group element length %d", len(b))
	}
	if p, ok := g.run.lookupHandle('G', b); ok {
		return g.mk(p), nil
	}
	if b[0] != 0x02 {
		return nil, fmt.Errorf("symalg: invalid group element tag")
	}
	v := new(big.Int).SetBytes(b[1:])
	if v.Cmp(g.f.q) >= 0 {
		return nil, fmt.Errorf("symalg: invalid group element")
	}
	return g.mk(polyConst(v, g.f.q)), nil
}

// Random returns a fresh symbolic group element (its discrete log is a fresh variable).
func (g *Group) Random(prng io.Reader) (*G, error) {
	if prng == nil {
		return nil, fmt.Errorf("symalg: nil prng")
	}
	name, err := g.run.drawName(prng, 2*g.f.drawSize(), "G")
	if err != nil {
		return nil, err
	}
	return g.mk(g.run.drawVar(name)), nil
}

// Hash maps bytes to a group element whose discrete logarithm is an unknown-but-fixed function of
// the input; the genericity assumption "not the identity, not the generator" is recorded (the
// library's own NewCommitmentKeyUnchecked refuses exactly those).
func (g *Group) Hash(b []byte) (*G, error) {
	name := "hashG:" + digestHex(b)
	g.run.mu.Lock()
	p := g.run.newVar(name)
	g.run.noteHashVar('G', name, p)
	g.run.mu.Unlock()
	return g.mk(p), nil
}

// ---- element

func (e *G) Structure() algebra.Structure[*G] { return e.g }
func (e *G) Clone() *G                        { return &G{g: e.g, p: e.p, raw: e.raw} }
func (e *G) Dlog() *F                         { return e.g.f.mkr(e.p, e.raw) }
func (e *G) IsSymbolic() bool                 { return !e.p.isConst() }

func (e *G) Op(o *G) *G              { return e.g.mkr(e.p.add(o.p, e.g.f.q), rawAdd(e.raw, o.raw)) }
func (e *G) Add(o *G) *G             { return e.Op(o) }
func (e *G) Sub(o *G) *G             { return e.g.mkr(e.p.sub(o.p, e.g.f.q), rawSub(e.raw, o.raw)) }
func (e *G) TrySub(o *G) (*G, error) { return e.Sub(o), nil }
func (e *G) Neg() *G                 { return e.g.mkr(e.p.neg(e.g.f.q), rawNeg(e.raw)) }
func (e *G) TryNeg() (*G, error)     { return e.Neg(), nil }
func (e *G) OpInv() *G               { return e.Neg() }
func (e *G) TryOpInv() (*G, error)   { return e.Neg(), nil }
func (e *G) Double() *G {
	return e.g.mkr(e.p.scale(big.NewInt(2), e.g.f.q), rawScale(e.raw, big.NewInt(2)))
}
func (e *G) ScalarOp(s *F) *G    { return e.g.mkr(e.p.mul(s.p, e.g.f.q), rawMul(e.raw, s.raw)) }
func (e *G) ScalarMul(s *F) *G   { return e.ScalarOp(s) }
func (e *G) IsTorsionFree() bool { return true }

func (e *G) IsOpIdentity() bool {
	r := e.g.run
	if r.genericNonIdentity && !r.concrete && !e.p.isConst() {
		// genericity mode (SetGenericNonIdentity): a symbolic point that is not syntactically the
		// identity is taken to be non-identity; the literal is recorded in the path condition
		r.mu.Lock()
		r.GenericIdentityDecisions++
		r.addPath(Not(simplifyEqZ(e.p)))
		r.mu.Unlock()
		return false
	}
	return r.decide(simplifyEqZ(e.p))
}
func (e *G) IsZero() bool { return e.IsOpIdentity() }
func (e *G) IsDesignatedGenerator() bool {
	return e.g.run.decide(simplifyEqZ(e.p.sub(polyConst(big.NewInt(1), e.g.f.q), e.g.f.q)))
}
func (e *G) Equal(o *G) bool {
	if o == nil {
		return false
	}
	return e.g.run.decide(EqG(e, o))
}

func (e *G) HashCode() base.HashCode {
	if e.p.isConst() {
		h := fnv.New64a()
		_, _ = h.Write([]byte{'G'})
		_, _ = h.Write(e.p.constVal().Bytes())
		return base.HashCode(h.Sum64())
	}
	return 0
}

func (e *G) Bytes() []byte {
	if e.p.isConst() {
		out := make([]byte, pointSize)
		out[0] = 0x02
		e.p.constVal().FillBytes(out[1:])
		return out
	}
	return e.g.run.intern('G', e.p, pointSize)
}

func (e *G) String() string {
	if e.p.isConst() {
		return "[" + e.p.constVal().String() + "]G"
	}
	return "symG{" + trunc(e.p.key(), 60) + "}"
}

func (e *G) MarshalBinary() ([]byte, error) { return e.Bytes(), nil }

func (e *G) MarshalCBOR() ([]byte, error) { return serde.MarshalCBOR(&elemDTO{B: e.Bytes()}) }

func (e *G) UnmarshalCBOR(data []byte) error {
	dto, err := serde.UnmarshalCBOR[*elemDTO](data)
	if err != nil {
		return err
	}
	if current == nil {
		return fmt.Errorf("symalg: no active run")
	}
	v, err := current.group.FromBytes(dto.B)
	if err != nil {
		return err
	}
	*e = *v
	return nil
}
