package symalg

import (
	"math/big"
	"sort"
	"strings"
)

// Pred is a predicate over the symbolic variables of a run.
type Pred interface {
	// mapPolys rebuilds the predicate with every polynomial replaced (and re-simplified).
	mapPolys(f func(*Poly) *Poly) Pred
	smt(q *big.Int, vn func(int) string) string
	// smtRaw renders the predicate over the raw (unsimplified) terms where the atom has them.
	smtRaw(q *big.Int, em *rawEmitter, vars map[int]bool) string
	eval(asg map[int]*big.Int, q *big.Int) bool
	key() string
	vars(into map[int]bool)
}

type (
	pTrue  struct{}
	pFalse struct{}
	// pEqZ: poly ≡ 0 (mod q); ra, rb (optional) are the raw terms whose equality it states
	pEqZ struct {
		p      *Poly
		ra, rb *node
	}
	// pLE: (a mod q) <= (b mod q) as integers in [0,q)
	pLE struct{ a, b *Poly }
	// pOdd: (a mod q) is odd
	pOdd struct{ a *Poly }
	pNot struct{ x Pred }
	pAnd struct{ xs []Pred }
	pOr  struct{ xs []Pred }
)

func modTerm(p *Poly, q *big.Int, vn func(int) string) string {
	if p.isConst() {
		return p.constVal().String()
	}
	return "(mod " + p.smt(vn) + " " + q.String() + ")"
}

func (pTrue) mapPolys(func(*Poly) *Poly) Pred  { return pTrue{} }
func (pFalse) mapPolys(func(*Poly) *Poly) Pred { return pFalse{} }
func (e pEqZ) mapPolys(f func(*Poly) *Poly) Pred {
	np := f(e.p)
	if np == e.p {
		return e
	}
	return simplifyEqZ(np)
}
func (e pLE) mapPolys(f func(*Poly) *Poly) Pred { return pLEof(f(e.a), f(e.b)) }
func (e pOdd) mapPolys(f func(*Poly) *Poly) Pred {
	a := f(e.a)
	if a.isConst() {
		return Bool(a.constVal().Bit(0) == 1)
	}
	return pOdd{a}
}
func (n pNot) mapPolys(f func(*Poly) *Poly) Pred { return Not(n.x.mapPolys(f)) }
func (c pAnd) mapPolys(f func(*Poly) *Poly) Pred {
	xs := make([]Pred, len(c.xs))
	for i, x := range c.xs {
		xs[i] = x.mapPolys(f)
	}
	return And(xs...)
}
func (c pOr) mapPolys(f func(*Poly) *Poly) Pred {
	xs := make([]Pred, len(c.xs))
	for i, x := range c.xs {
		xs[i] = x.mapPolys(f)
	}
	return Or(xs...)
}

func (pTrue) smtRaw(*big.Int, *rawEmitter, map[int]bool) string  { return "true" }
func (pFalse) smtRaw(*big.Int, *rawEmitter, map[int]bool) string { return "false" }
func (e pEqZ) smtRaw(q *big.Int, em *rawEmitter, vars map[int]bool) string {
	if e.ra == nil || e.rb == nil {
		e.p.varSet(vars)
		return e.smt(q, em.vn)
	}
	a, b := em.emit(e.ra), em.emit(e.rb)
	return "(= (mod (- " + a + " " + b + ") " + q.String() + ") 0)"
}
func (e pLE) smtRaw(q *big.Int, em *rawEmitter, vars map[int]bool) string {
	e.a.varSet(vars)
	e.b.varSet(vars)
	return e.smt(q, em.vn)
}
func (e pOdd) smtRaw(q *big.Int, em *rawEmitter, vars map[int]bool) string {
	e.a.varSet(vars)
	return e.smt(q, em.vn)
}
func (n pNot) smtRaw(q *big.Int, em *rawEmitter, vars map[int]bool) string {
	return "(not " + n.x.smtRaw(q, em, vars) + ")"
}
func (c pAnd) smtRaw(q *big.Int, em *rawEmitter, vars map[int]bool) string {
	if len(c.xs) == 0 {
		return "true"
	}
	parts := make([]string, len(c.xs))
	for i, x := range c.xs {
		parts[i] = x.smtRaw(q, em, vars)
	}
	return "(and " + strings.Join(parts, " ") + ")"
}
func (c pOr) smtRaw(q *big.Int, em *rawEmitter, vars map[int]bool) string {
	if len(c.xs) == 0 {
		return "false"
	}
	parts := make([]string, len(c.xs))
	for i, x := range c.xs {
		parts[i] = x.smtRaw(q, em, vars)
	}
	return "(or " + strings.Join(parts, " ") + ")"
}

func (pTrue) smt(*big.Int, func(int) string) string       { return "true" }
func (pTrue) eval(map[int]*big.Int, *big.Int) bool        { return true }
func (pTrue) key() string                                 { return "T" }
func (pTrue) vars(map[int]bool)                           {}
func (pFalse) smt(*big.Int, func(int) string) string      { return "false" }
func (pFalse) eval(map[int]*big.Int, *big.Int) bool       { return false }
func (pFalse) key() string                                { return "F" }
func (pFalse) vars(map[int]bool)                          {}
func (e pEqZ) smt(q *big.Int, vn func(int) string) string { return "(= " + modTerm(e.p, q, vn) + " 0)" }
func (e pEqZ) eval(a map[int]*big.Int, q *big.Int) bool   { return e.p.eval(a, q).Sign() == 0 }
func (e pEqZ) key() string                                { return "Z[" + e.p.key() + "]" }
func (e pEqZ) vars(m map[int]bool)                        { e.p.varSet(m) }
func (e pLE) smt(q *big.Int, vn func(int) string) string {
	return "(<= " + modTerm(e.a, q, vn) + " " + modTerm(e.b, q, vn) + ")"
}
func (e pLE) eval(a map[int]*big.Int, q *big.Int) bool {
	return e.a.eval(a, q).Cmp(e.b.eval(a, q)) <= 0
}
func (e pLE) key() string         { return "LE[" + e.a.key() + "|" + e.b.key() + "]" }
func (e pLE) vars(m map[int]bool) { e.a.varSet(m); e.b.varSet(m) }
func (e pOdd) smt(q *big.Int, vn func(int) string) string {
	return "(= (mod " + modTerm(e.a, q, vn) + " 2) 1)"
}
func (e pOdd) eval(a map[int]*big.Int, q *big.Int) bool   { return e.a.eval(a, q).Bit(0) == 1 }
func (e pOdd) key() string                                { return "O[" + e.a.key() + "]" }
func (e pOdd) vars(m map[int]bool)                        { e.a.varSet(m) }
func (n pNot) smt(q *big.Int, vn func(int) string) string { return "(not " + n.x.smt(q, vn) + ")" }
func (n pNot) eval(a map[int]*big.Int, q *big.Int) bool   { return !n.x.eval(a, q) }
func (n pNot) key() string                                { return "!" + n.x.key() }
func (n pNot) vars(m map[int]bool)                        { n.x.vars(m) }

func joinSMT(op string, xs []Pred, q *big.Int, vn func(int) string) string {
	parts := make([]string, len(xs))
	for i, x := range xs {
		parts[i] = x.smt(q, vn)
	}
	return "(" + op + " " + strings.Join(parts, " ") + ")"
}
func joinKey(op string, xs []Pred) string {
	parts := make([]string, len(xs))
	for i, x := range xs {
		parts[i] = x.key()
	}
	sort.Strings(parts)
	return op + "(" + strings.Join(parts, "&") + ")"
}
func (c pAnd) smt(q *big.Int, vn func(int) string) string {
	if len(c.xs) == 0 {
		return "true"
	}
	return joinSMT("and", c.xs, q, vn)
}
func (c pAnd) eval(a map[int]*big.Int, q *big.Int) bool {
	for _, x := range c.xs {
		if !x.eval(a, q) {
			return false
		}
	}
	return true
}
func (c pAnd) key() string { return joinKey("A", c.xs) }
func (c pAnd) vars(m map[int]bool) {
	for _, x := range c.xs {
		x.vars(m)
	}
}
func (c pOr) smt(q *big.Int, vn func(int) string) string {
	if len(c.xs) == 0 {
		return "false"
	}
	return joinSMT("or", c.xs, q, vn)
}
func (c pOr) eval(a map[int]*big.Int, q *big.Int) bool {
	for _, x := range c.xs {
		if x.eval(a, q) {
			return true
		}
	}
	return false
}
func (c pOr) key() string { return joinKey("O", c.xs) }
func (c pOr) vars(m map[int]bool) {
	for _, x := range c.xs {
		x.vars(m)
	}
}

// True and False are the constant predicates.
func True() Pred  { return pTrue{} }
func False() Pred { return pFalse{} }

// Bool lifts a concrete condition.
func Bool(b bool) Pred {
	if b {
		return pTrue{}
	}
	return pFalse{}
}

// simplifyEqZ builds the predicate p ≡ 0 (mod q). GF(q) is an integral domain (q prime), so a
// variable dividing every monomial is split off: x·r ≡ 0 ⇔ x ≡ 0 ∨ r ≡ 0. Without this rewrite
// the solver, which does not know that q is prime, cannot refute e.g. t·δ ≡ 0 from t ≢ 0, δ ≢ 0.
func simplifyEqZ(p *Poly) Pred { return eqZRaw(p, nil, nil) }

// eqZRaw is simplifyEqZ keeping the raw terms of both sides. Note that a predicate whose normal
// form is constant is NOT folded when raw terms are present and keepRaw is requested by the caller
// (see EqF/EqG): the raw form is what the solver re-checks.
func eqZRaw(p *Poly, ra, rb *node) Pred {
	if p.isConst() {
		return Bool(p.constVal().Sign() == 0)
	}
	common, rest := p.commonFactor()
	if len(common) == 0 {
		return pEqZ{p: canonSign(p), ra: ra, rb: rb}
	}
	var alts []Pred
	seen := map[int]bool{}
	for _, v := range common {
		if !seen[v] {
			seen[v] = true
			alts = append(alts, pEqZ{p: polyVar(v)})
		}
	}
	if rest.isConst() {
		if rest.constVal().Sign() == 0 {
			return pTrue{}
		}
	} else {
		alts = append(alts, simplifyEqZ(rest))
	}
	return Or(alts...)
}

// EqF is a == b in the field.
func EqF(a, b *F) Pred { return eqZRaw(a.p.sub(b.p, a.f.q), a.raw, b.raw) }

// EqFKeep / EqGKeep are EqF / EqG for harness obligations: the atom keeps its raw terms even when
// its normal form is a constant, so that the solver can re-check it in raw form.
func EqFKeep(a, b *F) Pred { return keepRaw(a.p.sub(b.p, a.f.q), a.raw, b.raw) }

// EqGKeep see EqFKeep.
func EqGKeep(a, b *G) Pred { return keepRaw(a.p.sub(b.p, a.g.f.q), a.raw, b.raw) }

func keepRaw(p *Poly, ra, rb *node) Pred {
	if ra == nil || rb == nil {
		return simplifyEqZ(p)
	}
	return pEqZ{p: canonSign(p), ra: ra, rb: rb}
}

// canonSign picks between p and −p (the same zero set) the one whose leading coefficient is the
// smaller: a − b ≡ 0 and b − a ≡ 0 then have the same key, so that a literal contradicting a known
// fact or an enforced genericity assumption is recognised syntactically (and, for the solver, by
// identical terms) instead of by reasoning modulo q.
func canonSign(p *Poly) *Poly {
	if len(p.t) == 0 || current == nil {
		return p
	}
	q := current.q
	lead := p.leadMono()
	c := p.t[monoOf(append([]int{}, lead...))]
	if c == nil {
		return p
	}
	if new(big.Int).Lsh(c, 1).Cmp(q) > 0 {
		return p.neg(q)
	}
	return p
}

// fold simplifies atoms whose normal form is constant or factorisable (what EqF does eagerly).
func fold(p Pred) Pred {
	switch v := p.(type) {
	case pEqZ:
		return eqZRaw(v.p, v.ra, v.rb)
	case pNot:
		return Not(fold(v.x))
	case pAnd:
		xs := make([]Pred, len(v.xs))
		for i, x := range v.xs {
			xs[i] = fold(x)
		}
		return And(xs...)
	case pOr:
		xs := make([]Pred, len(v.xs))
		for i, x := range v.xs {
			xs[i] = fold(x)
		}
		return Or(xs...)
	}
	return p
}

// EqG is a == b in the group.
func EqG(a, b *G) Pred { return eqZRaw(a.p.sub(b.p, a.g.f.q), a.raw, b.raw) }

// IsZeroF is a == 0.
func IsZeroF(a *F) Pred { return eqZRaw(a.p, a.raw, rawConst(big.NewInt(0))) }

// Not negates.
func Not(x Pred) Pred {
	switch v := x.(type) {
	case pTrue:
		return pFalse{}
	case pFalse:
		return pTrue{}
	case pNot:
		return v.x
	}
	return pNot{x}
}

// And is conjunction.
func And(xs ...Pred) Pred {
	var out []Pred
	for _, x := range xs {
		switch v := x.(type) {
		case pTrue:
			continue
		case pFalse:
			return pFalse{}
		case pAnd:
			out = append(out, v.xs...)
		default:
			out = append(out, x)
		}
	}
	if len(out) == 0 {
		return pTrue{}
	}
	if len(out) == 1 {
		return out[0]
	}
	return pAnd{out}
}

// Or is disjunction.
func Or(xs ...Pred) Pred {
	var out []Pred
	for _, x := range xs {
		switch v := x.(type) {
		case pFalse:
			continue
		case pTrue:
			return pTrue{}
		case pOr:
			out = append(out, v.xs...)
		default:
			out = append(out, x)
		}
	}
	if len(out) == 0 {
		return pFalse{}
	}
	if len(out) == 1 {
		return out[0]
	}
	return pOr{out}
}

// Implies is a → b.
func Implies(a, b Pred) Pred { return Or(Not(a), b) }

// EvalConcrete evaluates a predicate that contains no symbolic variables.
func EvalConcrete(p Pred) bool {
	switch v := p.(type) {
	case pTrue:
		return true
	case pFalse:
		return false
	case pNot:
		return !EvalConcrete(v.x)
	case pAnd:
		for _, x := range v.xs {
			if !EvalConcrete(x) {
				return false
			}
		}
		return true
	case pOr:
		for _, x := range v.xs {
			if EvalConcrete(x) {
				return true
			}
		}
		return false
	}
	panic("symalg: EvalConcrete on a symbolic predicate")
}
