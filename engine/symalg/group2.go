// Derived from group.go and curve.go by textual substitution (G→G2, Group→Group2); keep the two in step by hand.
// The second source group of the pairing model (same discrete-log representation, distinct Go type).

package symalg

import (
	"crypto/elliptic"

	"fmt"
	"hash/fnv"
	"io"
	"math/big"

	"github.com/bronlabs/bron-crypto/pkg/base"
	"github.com/bronlabs/bron-crypto/pkg/base/algebra"
	"github.com/bronlabs/bron-crypto/pkg/base/nt/cardinal"
	"github.com/bronlabs/bron-crypto/pkg/base/serde"
)

// Group2 is the model cyclic group of prime order q written in its discrete-log representation
// (Op = +, ScalarOp(s) = ·s, generator = 1). Every group of prime order q is isomorphic to it, so
// any equality between group expressions that the generic library code can state holds in the real
// curve iff it holds here with q the real group order. It satisfies algebra.PrimeGroup[*G2,*F] and
// the additive variants.
type Group2 struct {
	run *Run
	f   *Field
}

// G is a group element, represented by the polynomial of its discrete logarithm.
type G2 struct {
	g   *Group2
	p   *Poly
	raw *node
}

var (
	_ algebra.PrimeGroup[*G2, *F]                = (*Group2)(nil)
	_ algebra.PrimeGroupElement[*G2, *F]         = (*G2)(nil)
	_ algebra.AdditivePrimeGroup[*G2, *F]        = (*Group2)(nil)
	_ algebra.AdditivePrimeGroupElement[*G2, *F] = (*G2)(nil)
)

const point2Size = 65

func (g *Group2) mk(p *Poly) *G2 { return &G2{g: g, p: p, raw: rawOfPoly(p)} }

func (g *Group2) mkr(p *Poly, raw *node) *G2 {
	if raw == nil || p.isConst() {
		return g.mk(p)
	}
	return &G2{g: g, p: p, raw: raw}
}

func (g *Group2) Name() string                           { return "symGroup2(" + g.f.q.Text(16) + ")" }
func (g *Group2) Order() cardinal.Cardinal               { return cardinal.NewFromBig(g.f.q) }
func (g *Group2) Contains(e *G2) bool                    { return e != nil }
func (g *Group2) ElementSize() int                       { return point2Size }
func (g *Group2) OpIdentity() *G2                        { return g.mk(polyConst(big.NewInt(0), g.f.q)) }
func (g *Group2) Zero() *G2                              { return g.OpIdentity() }
func (g *Group2) Generator() *G2                         { return g.mk(polyConst(big.NewInt(1), g.f.q)) }
func (g *Group2) ScalarStructure() algebra.Structure[*F] { return g.f }
func (g *Group2) ScalarField() algebra.PrimeField[*F]    { return g.f }
func (g *Group2) ScalarBaseOp(s *F) *G2                  { return g.mkr(s.p, s.raw) }
func (g *Group2) ScalarBaseMul(s *F) *G2                 { return g.mkr(s.p, s.raw) }

// FromDlog builds the element [s]G.
func (g *Group2) FromDlog(s *F) *G2 { return g.mkr(s.p, s.raw) }

func (g *Group2) FromBytes(b []byte) (*G2, error) {
	if len(b) != point2Size {
		return nil, fmt.Errorf("symalg: invalid group element length %d", len(b))
	}
	if p, ok := g.run.lookupHandle('H', b); ok {
		return g.mk(p), nil
	}
	if b[0] != 0x02 {
		return nil, fmt.Errorf("symalg: invalid group element tag")
	}
	v := new(big.Int).SetBytes(b[1:])
	if v.Cmp(g.f.q) >= 0 {
		return nil, fmt.Errorf("symalg: invalid group element")
	}
	return g.mk(polyConst(v, g.f.q)), nil
}

// Random returns a fresh symbolic group element (its discrete log is a fresh variable).
func (g *Group2) Random(prng io.Reader) (*G2, error) {
	if prng == nil {
		return nil, fmt.Errorf("symalg: nil prng")
	}
	name, err := g.run.drawName(prng, 2*g.f.drawSize(), "G2")
	if err != nil {
		return nil, err
	}
	return g.mk(g.run.drawVar(name)), nil
}

// Hash maps bytes to a group element whose discrete logarithm is an unknown-but-fixed function of
// the input; the genericity assumption "not the identity, not the generator" is recorded (the
// library's own NewCommitmentKeyUnchecked refuses exactly those).
func (g *Group2) Hash(b []byte) (*G2, error) {
	name := "hashG2:" + digestHex(b)
	g.run.mu.Lock()
	p := g.run.newVar(name)
	g.run.noteHashVar('H', name, p)
	g.run.mu.Unlock()
	return g.mk(p), nil
}

// ---- element

func (e *G2) Structure() algebra.Structure[*G2] { return e.g }
func (e *G2) Clone() *G2                        { return &G2{g: e.g, p: e.p, raw: e.raw} }
func (e *G2) Dlog() *F                          { return e.g.f.mkr(e.p, e.raw) }
func (e *G2) IsSymbolic() bool                  { return !e.p.isConst() }

func (e *G2) Op(o *G2) *G2              { return e.g.mkr(e.p.add(o.p, e.g.f.q), rawAdd(e.raw, o.raw)) }
func (e *G2) Add(o *G2) *G2             { return e.Op(o) }
func (e *G2) Sub(o *G2) *G2             { return e.g.mkr(e.p.sub(o.p, e.g.f.q), rawSub(e.raw, o.raw)) }
func (e *G2) TrySub(o *G2) (*G2, error) { return e.Sub(o), nil }
func (e *G2) Neg() *G2                  { return e.g.mkr(e.p.neg(e.g.f.q), rawNeg(e.raw)) }
func (e *G2) TryNeg() (*G2, error)      { return e.Neg(), nil }
func (e *G2) OpInv() *G2                { return e.Neg() }
func (e *G2) TryOpInv() (*G2, error)    { return e.Neg(), nil }
func (e *G2) Double() *G2 {
	return e.g.mkr(e.p.scale(big.NewInt(2), e.g.f.q), rawScale(e.raw, big.NewInt(2)))
}
func (e *G2) ScalarOp(s *F) *G2   { return e.g.mkr(e.p.mul(s.p, e.g.f.q), rawMul(e.raw, s.raw)) }
func (e *G2) ScalarMul(s *F) *G2  { return e.ScalarOp(s) }
func (e *G2) IsTorsionFree() bool { return true }

func (e *G2) IsOpIdentity() bool {
	r := e.g.run
	if r.genericNonIdentity && !r.concrete && !e.p.isConst() {
		// genericity mode (SetGenericNonIdentity): a symbolic point that is not syntactically the
		// identity is taken to be non-identity; the literal is recorded in the path condition
		r.mu.Lock()
		r.GenericIdentityDecisions++
		r.addPath(Not(simplifyEqZ(e.p)))
		r.mu.Unlock()
		return false
	}
	return r.decide(simplifyEqZ(e.p))
}
func (e *G2) IsZero() bool { return e.IsOpIdentity() }
func (e *G2) IsDesignatedGenerator() bool {
	return e.g.run.decide(simplifyEqZ(e.p.sub(polyConst(big.NewInt(1), e.g.f.q), e.g.f.q)))
}
func (e *G2) Equal(o *G2) bool {
	if o == nil {
		return false
	}
	return e.g.run.decide(eqG2(e, o))
}

func (e *G2) HashCode() base.HashCode {
	if e.p.isConst() {
		h := fnv.New64a()
		_, _ = h.Write([]byte{'H'})
		_, _ = h.Write(e.p.constVal().Bytes())
		return base.HashCode(h.Sum64())
	}
	return 0
}

func (e *G2) Bytes() []byte {
	if e.p.isConst() {
		out := make([]byte, point2Size)
		out[0] = 0x02
		e.p.constVal().FillBytes(out[1:])
		return out
	}
	return e.g.run.intern('H', e.p, point2Size)
}

func (e *G2) String() string {
	if e.p.isConst() {
		return "[" + e.p.constVal().String() + "]G2"
	}
	return "symG2{" + trunc(e.p.key(), 60) + "}"
}

func (e *G2) MarshalBinary() ([]byte, error) { return e.Bytes(), nil }

func (e *G2) MarshalCBOR() ([]byte, error) { return serde.MarshalCBOR(&elemDTO{B: e.Bytes()}) }

func (e *G2) UnmarshalCBOR(data []byte) error {
	dto, err := serde.UnmarshalCBOR[*elemDTO](data)
	if err != nil {
		return err
	}
	if current == nil {
		return fmt.Errorf("symalg: no active run")
	}
	v, err := current.group2.FromBytes(dto.B)
	if err != nil {
		return err
	}
	*e = *v
	return nil
}

// Curve-point facade: the model group also satisfies curves.Curve / curves.Point, so that the
// library's code written against elliptic-curve interfaces (base OTs, ECDSA-style code paths that
// only transport points) can be instantiated with it. Coordinates are OPAQUE: AffineX/AffineY
// return uninterpreted values that are functions of the point (x(P) = x(−P), y(−P) = −y(P)); the
// "base field" is the model scalar field type and no arithmetic relation between coordinates and
// the group law is available — code that needs one is outside the model.

func (g *Group2) coord(e *G2, axis byte) *F {
	r := g.run
	q := g.f.q
	r.mu.Lock()
	entries := r.coords2
	r.mu.Unlock()
	// syntactic match first, then provable equality / oppositeness under the path condition
	find := func() (*coordEntry, bool) {
		for _, c := range entries {
			if c.p.equalForm(e.p) {
				return c, false
			}
			if c.p.equalForm(e.p.neg(q)) {
				return c, true
			}
		}
		if r.concrete {
			return nil, false
		}
		for _, c := range entries {
			if _, isF := simplifyEqZ(e.p.sub(c.p, q)).(pFalse); !isF && r.entailed(simplifyEqZ(e.p.sub(c.p, q))) == Unsat {
				return c, false
			}
			if _, isF := simplifyEqZ(e.p.add(c.p, q)).(pFalse); !isF && r.entailed(simplifyEqZ(e.p.add(c.p, q))) == Unsat {
				return c, true
			}
		}
		return nil, false
	}
	c, flipped := find()
	if c == nil {
		r.mu.Lock()
		k := len(r.coords2)
		c = &coordEntry{p: e.p, x: r.newVar(fmt.Sprintf("aff2x:%d:%s", k, digestHex([]byte(e.p.key())))), y: r.newVar(fmt.Sprintf("aff2y:%d:%s", k, digestHex([]byte(e.p.key()))))}
		r.coords2 = append(r.coords2, c)
		r.mu.Unlock()
	}
	if axis == 'x' {
		return g.f.mk(c.x)
	}
	if flipped {
		return g.f.mk(c.y.neg(q))
	}
	return g.f.mk(c.y)
}

// AffineX returns the (opaque) x-coordinate; the identity has none.
func (e *G2) AffineX() (*F, error) {
	if e.IsOpIdentity() {
		return nil, fmt.Errorf("symalg: the identity has no affine coordinates")
	}
	return e.g.coord(e, 'x'), nil
}

// AffineY returns the (opaque) y-coordinate.
func (e *G2) AffineY() (*F, error) {
	if e.IsOpIdentity() {
		return nil, fmt.Errorf("symalg: the identity has no affine coordinates")
	}
	return e.g.coord(e, 'y'), nil
}

func (e *G2) ClearCofactor() *G2                       { return e }
func (e *G2) IsPrimeSubGroupDesignatedGenerator() bool { return e.IsDesignatedGenerator() }
func (e *G2) ToCompressed() []byte                     { return e.Bytes() }
func (e *G2) ToUncompressed() []byte                   { return append([]byte{0x04}, e.Bytes()...) }

func (g *Group2) BaseField() algebra.FiniteField[*F]   { return g.f }
func (g *Group2) BaseStructure() algebra.Structure[*F] { return g.f }
func (g *Group2) Cofactor() cardinal.Cardinal          { return cardinal.New(1) }
func (g *Group2) PrimeSubGroupGenerator() *G2          { return g.Generator() }
func (g *Group2) ScalarRing() algebra.ZModLike[*F]     { return g.f }
func (g *Group2) FromCompressed(b []byte) (*G2, error) { return g.FromBytes(b) }
func (g *Group2) FromUncompressed(b []byte) (*G2, error) {
	if len(b) != point2Size+1 || b[0] != 0x04 {
		return nil, fmt.Errorf("symalg: invalid uncompressed point")
	}
	return g.FromBytes(b[1:])
}
func (g *Group2) FromAffine(x, y *F) (*G2, error) {
	g.run.poison("not-encodable", "symalg: a point built from affine coordinates (coordinates are opaque in the model)")
	return nil, fmt.Errorf("symalg: FromAffine is outside the model")
}
func (g *Group2) HashWithDst(dst string, message []byte) (*G2, error) {
	return g.Hash(append(append([]byte(dst), 0), message...))
}

// FromAffineX / ToElliptic complete ecdsa.Curve; both are outside the model.
func (g *Group2) FromAffineX(x *F, odd bool) (*G2, error) {
	g.run.poison("not-encodable", "symalg: a point recovered from an x-coordinate (coordinates are opaque in the model)")
	return nil, fmt.Errorf("symalg: FromAffineX is outside the model")
}

func (g *Group2) ToElliptic() elliptic.Curve { return nil }

func eqG2(a, b *G2) Pred { return simplifyEqZ(a.p.sub(b.p, a.g.f.q)) }
