package symalg

import (
	"fmt"
	"hash/fnv"
	"math/big"

	"github.com/bronlabs/bron-crypto/pkg/base"
	"github.com/bronlabs/bron-crypto/pkg/base/algebra"
	"github.com/bronlabs/bron-crypto/pkg/base/curves"
	"github.com/bronlabs/bron-crypto/pkg/base/nt/cardinal"
)

// Pairing model. The three groups of a type-III pairing are all cyclic of prime order q; writing
// each in its discrete-log representation (G1 ∋ a ↦ [a]g1, G2 ∋ b ↦ [b]g2, GT ∋ c ↦ gT^c) the
// pairing is e([a]g1, [b]g2) = gT^(a·b): bilinear and non-degenerate. Every pairing-product
// equation the generic library code can state holds in a real pairing group iff it holds here
// (the converse needs "no unintended relations between g1 and g2", i.e. a type-III setting, which
// BLS12-381 is). The target group is written multiplicatively by the library; its model element T
// carries the exponent.

// Run accessors.
func (r *Run) Group2() *Group2           { return r.group2 }
func (r *Run) TargetGroup() *TargetGroup { return r.target }
func (r *Run) Point2(name string) *G2    { return r.group2.mk(r.newVarL("g2:" + name)) }

// PairingFamilyName is the name the family reports; the library selects the BLS ciphersuite (domain
// separation tags) by this name, so the model reports the name of the real family.
const PairingFamilyName = "BLS12381"

type TargetGroup struct {
	run *Run
	f   *Field
}

// T is an element of the target group, represented by its exponent.
type T struct {
	g *TargetGroup
	p *Poly
}

func (g *TargetGroup) mk(p *Poly) *T { return &T{g: g, p: p} }

func (g *TargetGroup) Name() string             { return "symGT(" + g.f.q.Text(16) + ")" }
func (g *TargetGroup) Order() cardinal.Cardinal { return cardinal.NewFromBig(g.f.q) }
func (g *TargetGroup) ElementSize() int         { return 2 * elemSize }
func (g *TargetGroup) OpIdentity() *T           { return g.mk(polyConst(big.NewInt(0), g.f.q)) }
func (g *TargetGroup) One() *T                  { return g.OpIdentity() }
func (g *TargetGroup) FromBytes(b []byte) (*T, error) {
	return nil, fmt.Errorf("symalg: target-group elements are not decoded in the model")
}

func (e *T) Structure() algebra.Structure[*T] { return e.g }
func (e *T) Clone() *T                        { return &T{g: e.g, p: e.p} }
func (e *T) Op(o *T) *T                       { return e.g.mk(e.p.add(o.p, e.g.f.q)) }
func (e *T) Mul(o *T) *T                      { return e.Op(o) }
func (e *T) OtherOp(o *T) *T                  { return e.Op(o) }
func (e *T) Square() *T                       { return e.g.mk(e.p.scale(big.NewInt(2), e.g.f.q)) }
func (e *T) OpInv() *T                        { return e.g.mk(e.p.neg(e.g.f.q)) }
func (e *T) TryOpInv() (*T, error)            { return e.OpInv(), nil }
func (e *T) Inv() *T                          { return e.OpInv() }
func (e *T) TryInv() (*T, error)              { return e.OpInv(), nil }
func (e *T) Div(o *T) *T                      { return e.g.mk(e.p.sub(o.p, e.g.f.q)) }
func (e *T) TryDiv(o *T) (*T, error)          { return e.Div(o), nil }
func (e *T) IsOpIdentity() bool               { return e.g.run.decide(simplifyEqZ(e.p)) }
func (e *T) IsOne() bool                      { return e.IsOpIdentity() }
func (e *T) Equal(o *T) bool {
	if o == nil {
		return false
	}
	return e.g.run.decide(simplifyEqZ(e.p.sub(o.p, e.g.f.q)))
}
func (e *T) HashCode() base.HashCode {
	if e.p.isConst() {
		h := fnv.New64a()
		_, _ = h.Write([]byte{'T'})
		_, _ = h.Write(e.p.constVal().Bytes())
		return base.HashCode(h.Sum64())
	}
	return 0
}
func (e *T) Bytes() []byte {
	if e.p.isConst() {
		out := make([]byte, 2*elemSize)
		e.p.constVal().FillBytes(out)
		return out
	}
	return e.g.run.intern('T', e.p, 2*elemSize)
}
func (e *T) String() string { return "symGT{" + trunc(e.p.key(), 60) + "}" }

// Exponent returns the exponent of the element as a field element (harness oracle).
func (e *T) Exponent() *F { return e.g.f.mk(e.p) }

func pairSum(f *Field, as, bs []*Poly, invert bool) *Poly {
	acc := polyConst(big.NewInt(0), f.q)
	for i := range as {
		t := as[i].mul(bs[i], f.q)
		if invert {
			t = t.neg(f.q)
		}
		acc = acc.add(t, f.q)
	}
	return acc
}

const pairingAlgorithm = "symbolic-bilinear"

// ---- G1 side
func (g *Group) DualStructure() curves.PairingFriendlyCurve[*G2, *F, *G, *F, *T, *F] {
	return g.run.group2
}
func (g *Group) PairingAlgorithm() algebra.PairingName { return pairingAlgorithm }
func (g *Group) MultiPair(these []*G, duals []*G2) (*T, error) {
	if len(these) != len(duals) || len(these) == 0 {
		return nil, fmt.Errorf("symalg: MultiPair needs two non-empty slices of equal length")
	}
	as, bs := make([]*Poly, len(these)), make([]*Poly, len(these))
	for i := range these {
		as[i], bs[i] = these[i].p, duals[i].p
	}
	return g.run.target.mk(pairSum(g.f, as, bs, false)), nil
}
func (g *Group) MultiPairAndInvertDuals(these []*G, duals []*G2) (*T, error) {
	if len(these) != len(duals) || len(these) == 0 {
		return nil, fmt.Errorf("symalg: MultiPair needs two non-empty slices of equal length")
	}
	as, bs := make([]*Poly, len(these)), make([]*Poly, len(these))
	for i := range these {
		as[i], bs[i] = these[i].p, duals[i].p
	}
	return g.run.target.mk(pairSum(g.f, as, bs, true)), nil
}
func (e *G) InSourceGroup() bool    { return true }
func (e *G) Pair(o *G2) (*T, error) { return e.g.MultiPair([]*G{e}, []*G2{o}) }
func (e *G) MultiPair(os ...*G2) (*T, error) {
	these := make([]*G, len(os))
	for i := range these {
		these[i] = e
	}
	return e.g.MultiPair(these, os)
}
func (e *G) MultiPairAndInvertDuals(os ...*G2) (*T, error) {
	these := make([]*G, len(os))
	for i := range these {
		these[i] = e
	}
	return e.g.MultiPairAndInvertDuals(these, os)
}

// ---- G2 side
func (g *Group2) DualStructure() curves.PairingFriendlyCurve[*G, *F, *G2, *F, *T, *F] {
	return g.run.group
}
func (g *Group2) PairingAlgorithm() algebra.PairingName { return pairingAlgorithm }
func (g *Group2) MultiPair(these []*G2, duals []*G) (*T, error) {
	if len(these) != len(duals) || len(these) == 0 {
		return nil, fmt.Errorf("symalg: MultiPair needs two non-empty slices of equal length")
	}
	as, bs := make([]*Poly, len(these)), make([]*Poly, len(these))
	for i := range these {
		as[i], bs[i] = these[i].p, duals[i].p
	}
	return g.run.target.mk(pairSum(g.f, as, bs, false)), nil
}
func (g *Group2) MultiPairAndInvertDuals(these []*G2, duals []*G) (*T, error) {
	if len(these) != len(duals) || len(these) == 0 {
		return nil, fmt.Errorf("symalg: MultiPair needs two non-empty slices of equal length")
	}
	as, bs := make([]*Poly, len(these)), make([]*Poly, len(these))
	for i := range these {
		as[i], bs[i] = these[i].p, duals[i].p
	}
	return g.run.target.mk(pairSum(g.f, as, bs, true)), nil
}
func (e *G2) InSourceGroup() bool   { return false }
func (e *G2) Pair(o *G) (*T, error) { return e.g.MultiPair([]*G2{e}, []*G{o}) }
func (e *G2) MultiPair(os ...*G) (*T, error) {
	these := make([]*G2, len(os))
	for i := range these {
		these[i] = e
	}
	return e.g.MultiPair(these, os)
}
func (e *G2) MultiPairAndInvertDuals(os ...*G) (*T, error) {
	these := make([]*G2, len(os))
	for i := range these {
		these[i] = e
	}
	return e.g.MultiPairAndInvertDuals(these, os)
}

// Family is the pairing-friendly family of the model.
type Family struct{ run *Run }

func (r *Run) PairingFamily() *Family { return &Family{run: r} }

func (f *Family) Name() string { return PairingFamilyName }
func (f *Family) SourceSubGroup() curves.PairingFriendlyCurve[*G, *F, *G2, *F, *T, *F] {
	return f.run.group
}
func (f *Family) TwistedSubGroup() curves.PairingFriendlyCurve[*G2, *F, *G, *F, *T, *F] {
	return f.run.group2
}
func (f *Family) TargetSubGroup() algebra.MultiplicativeGroup[*T] { return f.run.target }
func (f *Family) GetPPE(curves.PairingAlgorithm) (curves.PPE[*G, *F, *G2, *F, *T, *F], bool) {
	return nil, false
}

func (g *TargetGroup) Contains(e *T) bool { return e != nil }

var (
	_ curves.PairingFriendlyFamily[*G, *F, *G2, *F, *T, *F] = (*Family)(nil)
	_ curves.PairingFriendlyPoint[*G, *F, *G2, *F, *T, *F]  = (*G)(nil)
	_ curves.PairingFriendlyPoint[*G2, *F, *G, *F, *T, *F]  = (*G2)(nil)
	_ algebra.MultiplicativeGroupElement[*T]                = (*T)(nil)
	_ algebra.MultiplicativeGroup[*T]                       = (*TargetGroup)(nil)
)
