package symalg

import (
	"fmt"
	"math/big"
	"sort"
	"strings"
	"sync/atomic"
)

// Raw terms. Besides its polynomial normal form every element carries the *unsimplified* DAG of
// the arithmetic operations the library actually performed on it. Validity obligations are decided
// on the normal form (with the path substitution), and then posed a second time to the solver in
// raw form (path literals and goal exactly as the library computed them, no normalisation): the
// solver itself re-derives the identity. This keeps the solver — not the encoder's simplifier — the
// judge of every "valid" verdict, and it cross-validates the normal-form code: a `sat` answer on
// the raw query while the normal form says "valid" is reported as an engine mismatch.

type node struct {
	id   int
	op   byte // 'v' var, 'c' const, '+', '-', 'n' neg, '*', 's' scale(k)
	a, b *node
	k    *big.Int
	v    int
}

var nodeCounter atomic.Int64

func newNode(op byte, a, b *node, k *big.Int, v int) *node {
	return &node{id: int(nodeCounter.Add(1)), op: op, a: a, b: b, k: k, v: v}
}

func rawVar(id int) *node       { return newNode('v', nil, nil, nil, id) }
func rawConst(k *big.Int) *node { return newNode('c', nil, nil, new(big.Int).Set(k), 0) }
func rawAdd(a, b *node) *node   { return rawBin('+', a, b) }
func rawSub(a, b *node) *node   { return rawBin('-', a, b) }
func rawMul(a, b *node) *node   { return rawBin('*', a, b) }
func rawNeg(a *node) *node {
	if a == nil {
		return nil
	}
	return newNode('n', a, nil, nil, 0)
}
func rawScale(a *node, k *big.Int) *node {
	if a == nil {
		return nil
	}
	return newNode('s', a, nil, new(big.Int).Set(k), 0)
}
func rawBin(op byte, a, b *node) *node {
	if a == nil || b == nil {
		return nil
	}
	return newNode(op, a, b, nil, 0)
}

// rawOfPoly builds a raw term from a polynomial (used where no operation history exists).
func rawOfPoly(p *Poly) *node {
	if p.isConst() {
		return rawConst(p.constVal())
	}
	var acc *node
	for _, m := range p.monos() {
		var t *node = rawConst(p.t[m])
		for _, v := range monoVars(m) {
			t = rawMul(t, rawVar(v))
		}
		if acc == nil {
			acc = t
		} else {
			acc = rawAdd(acc, t)
		}
	}
	return acc
}

// rawEmitter renders raw nodes with sharing (one define-fun per node).
type rawEmitter struct {
	sb    strings.Builder
	done  map[int]bool
	vars  map[int]bool
	vn    func(int) string
	count int
}

func (e *rawEmitter) name(n *node) string { return fmt.Sprintf("n%d", n.id) }

func (e *rawEmitter) emit(n *node) string {
	// iterative post-order to avoid deep recursion on long chains
	type frame struct {
		n     *node
		state int
	}
	stack := []frame{{n, 0}}
	for len(stack) > 0 {
		f := &stack[len(stack)-1]
		if e.done[f.n.id] {
			stack = stack[:len(stack)-1]
			continue
		}
		if f.state == 0 {
			f.state = 1
			if f.n.a != nil && !e.done[f.n.a.id] {
				stack = append(stack, frame{f.n.a, 0})
				continue
			}
		}
		if f.state == 1 {
			f.state = 2
			if f.n.b != nil && !e.done[f.n.b.id] {
				stack = append(stack, frame{f.n.b, 0})
				continue
			}
		}
		nn := f.n
		var body string
		switch nn.op {
		case 'v':
			e.vars[nn.v] = true
			body = e.vn(nn.v)
		case 'c':
			body = nn.k.String()
		case '+':
			body = "(+ " + e.name(nn.a) + " " + e.name(nn.b) + ")"
		case '-':
			body = "(- " + e.name(nn.a) + " " + e.name(nn.b) + ")"
		case 'n':
			body = "(- " + e.name(nn.a) + ")"
		case '*':
			body = "(* " + e.name(nn.a) + " " + e.name(nn.b) + ")"
		case 's':
			body = "(* " + nn.k.String() + " " + e.name(nn.a) + ")"
		}
		e.sb.WriteString("(define-fun " + e.name(nn) + " () Int " + body + ")\n")
		e.done[nn.id] = true
		e.count++
		stack = stack[:len(stack)-1]
	}
	return e.name(n)
}

// rawScript builds the raw-form query "path ∧ extra" (all in raw form where available).
func (r *Run) rawScript(extra []Pred) (string, int) {
	em := &rawEmitter{done: map[int]bool{}, vars: map[int]bool{}, vn: r.varName}
	var asserts []string
	polyVars := map[int]bool{}
	for _, p := range r.path {
		asserts = append(asserts, p.smtRaw(r.q, em, polyVars))
	}
	for _, g := range r.generic {
		asserts = append(asserts, g.smtRaw(r.q, em, polyVars))
	}
	for _, p := range extra {
		asserts = append(asserts, p.smtRaw(r.q, em, polyVars))
	}
	for v := range em.vars {
		polyVars[v] = true
	}
	ids := make([]int, 0, len(polyVars))
	for id := range polyVars {
		ids = append(ids, id)
	}
	sort.Ints(ids)
	var sb strings.Builder
	for _, id := range ids {
		n := r.varName(id)
		sb.WriteString("(declare-const " + n + " Int)\n")
		sb.WriteString("(assert (and (<= 0 " + n + ") (< " + n + " " + r.q.String() + ")))\n")
	}
	sb.WriteString(em.sb.String())
	for _, a := range asserts {
		sb.WriteString("(assert " + a + ")\n")
	}
	return sb.String(), em.count
}
