package symalg

import (
	"crypto/elliptic"
	"fmt"

	"github.com/bronlabs/bron-crypto/pkg/base/algebra"
	"github.com/bronlabs/bron-crypto/pkg/base/nt/cardinal"
)

// Curve-point facade: the model group also satisfies curves.Curve / curves.Point, so that the
// library's code written against elliptic-curve interfaces (base OTs, ECDSA-style code paths that
// only transport points) can be instantiated with it. Coordinates are OPAQUE: AffineX/AffineY
// return uninterpreted values that are functions of the point (x(P) = x(−P), y(−P) = −y(P)); the
// "base field" is the model scalar field type and no arithmetic relation between coordinates and
// the group law is available — code that needs one is outside the model.

type coordEntry struct {
	p *Poly // canonical representative
	x *Poly
	y *Poly
}

func (g *Group) coord(e *G, axis byte) *F {
	r := g.run
	q := g.f.q
	r.mu.Lock()
	entries := r.coords
	r.mu.Unlock()
	// syntactic match first, then provable equality / oppositeness under the path condition
	find := func() (*coordEntry, bool) {
		for _, c := range entries {
			if c.p.equalForm(e.p) {
				return c, false
			}
			if c.p.equalForm(e.p.neg(q)) {
				return c, true
			}
		}
		if r.concrete {
			return nil, false
		}
		for _, c := range entries {
			if _, isF := simplifyEqZ(e.p.sub(c.p, q)).(pFalse); !isF && r.entailed(simplifyEqZ(e.p.sub(c.p, q))) == Unsat {
				return c, false
			}
			if _, isF := simplifyEqZ(e.p.add(c.p, q)).(pFalse); !isF && r.entailed(simplifyEqZ(e.p.add(c.p, q))) == Unsat {
				return c, true
			}
		}
		return nil, false
	}
	c, flipped := find()
	if c == nil {
		r.mu.Lock()
		k := len(r.coords)
		c = &coordEntry{p: e.p, x: r.newVar(fmt.Sprintf("affx:%d:%s", k, digestHex([]byte(e.p.key())))), y: r.newVar(fmt.Sprintf("affy:%d:%s", k, digestHex([]byte(e.p.key()))))}
		r.coords = append(r.coords, c)
		r.mu.Unlock()
	}
	if axis == 'x' {
		return g.f.mk(c.x)
	}
	if flipped {
		return g.f.mk(c.y.neg(q))
	}
	return g.f.mk(c.y)
}

// AffineX returns the (opaque) x-coordinate; the identity has none.
func (e *G) AffineX() (*F, error) {
	if e.IsOpIdentity() {
		return nil, fmt.Errorf("symalg: the identity has no affine coordinates")
	}
	return e.g.coord(e, 'x'), nil
}

// AffineY returns the (opaque) y-coordinate.
func (e *G) AffineY() (*F, error) {
	if e.IsOpIdentity() {
		return nil, fmt.Errorf("symalg: the identity has no affine coordinates")
	}
	return e.g.coord(e, 'y'), nil
}

func (e *G) ClearCofactor() *G                        { return e }
func (e *G) IsPrimeSubGroupDesignatedGenerator() bool { return e.IsDesignatedGenerator() }
func (e *G) ToCompressed() []byte                     { return e.Bytes() }
func (e *G) ToUncompressed() []byte                   { return append([]byte{0x04}, e.Bytes()...) }

func (g *Group) BaseField() algebra.FiniteField[*F]   { return g.f }
func (g *Group) BaseStructure() algebra.Structure[*F] { return g.f }
func (g *Group) Cofactor() cardinal.Cardinal          { return cardinal.New(1) }
func (g *Group) PrimeSubGroupGenerator() *G           { return g.Generator() }
func (g *Group) ScalarRing() algebra.ZModLike[*F]     { return g.f }
func (g *Group) FromCompressed(b []byte) (*G, error)  { return g.FromBytes(b) }
func (g *Group) FromUncompressed(b []byte) (*G, error) {
	if len(b) != pointSize+1 || b[0] != 0x04 {
		return nil, fmt.Errorf("symalg: invalid uncompressed point")
	}
	return g.FromBytes(b[1:])
}
func (g *Group) FromAffine(x, y *F) (*G, error) {
	g.run.poison("not-encodable", "symalg: a point built from affine coordinates (coordinates are opaque in the model)")
	return nil, fmt.Errorf("symalg: FromAffine is outside the model")
}
func (g *Group) HashWithDst(dst string, message []byte) (*G, error) {
	return g.Hash(append(append([]byte(dst), 0), message...))
}

// FromAffineX / ToElliptic complete ecdsa.Curve; both are outside the model.
func (g *Group) FromAffineX(x *F, odd bool) (*G, error) {
	g.run.poison("not-encodable", "symalg: a point recovered from an x-coordinate (coordinates are opaque in the model)")
	return nil, fmt.Errorf("symalg: FromAffineX is outside the model")
}

func (g *Group) ToElliptic() elliptic.Curve { return nil }
