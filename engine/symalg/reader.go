package symalg

import (
	"crypto/sha256"
	"encoding/binary"
	"fmt"
	"io"
)

// Reader is a symbolic random stream supplied by the harness to one party. Bytes read from it
// directly (not through Field.Random / Group.Random) are concrete pseudo-random bytes derived from
// (seed, name, offset), so byte-level consumers (commitment witnesses, session contributions) run
// natively; every read is recorded for the reader-discipline monitor (C07.a).
type Reader struct {
	run  *Run
	Name string
	off  int
	// Salt distinguishes two concrete streams of the same name (paired runs of C07).
	Salt string
	// failure injection (C07): the failAt-th consumption (0-based, element draws and raw reads
	// alike) returns an error once; later consumptions succeed again.
	calls   int
	failAt  int
	hasFail bool
	fired   bool
	// alternative draw (fault injection by a twin party): the altAt-th consumption yields a value
	// independent of the stream (a fresh variable / differently salted bytes); all other
	// consumptions coincide with those of every other reader of the same name.
	altAt  int
	hasAlt bool
	// short, when > 0, makes every raw Read deliver at most that many bytes (a legal io.Reader:
	// TPM/HSM-style sources, pipes); element draws are unaffected.
	short int
}

// SetShortReads makes raw reads deliver at most n bytes per call (0 = full reads).
func (rd *Reader) SetShortReads(n int) { rd.short = n }

// ReaderTwin returns a NEW reader over the stream `name`, positioned at its start: it replays
// exactly the values the registered reader of that name yields, except that its altAt-th
// consumption (if altAt ≥ 0) is replaced by an independent value. Used to model a deviating party
// that re-runs its own computation with one random choice changed.
func (r *Run) ReaderTwin(name string, altAt int) *Reader {
	return &Reader{run: r, Name: name, altAt: altAt, hasAlt: altAt >= 0}
}

// InjectFailure makes the k-th consumption of this stream fail (once).
func (rd *Reader) InjectFailure(k int) { rd.failAt, rd.hasFail = k, true }

// Calls returns the number of consumptions so far; Fired whether the injected failure happened.
func (rd *Reader) Calls() int  { return rd.calls }
func (rd *Reader) Fired() bool { return rd.fired }

// ErrInjected is the error of an injected read failure.
var ErrInjected = fmt.Errorf("symalg: injected failure of the random source")

func (rd *Reader) tick() error {
	k := rd.calls
	rd.calls++
	if rd.hasFail && !rd.fired && k == rd.failAt {
		rd.fired = true
		return ErrInjected
	}
	return nil
}

// ReadEvent records one consumption of randomness.
type ReadEvent struct {
	Reader string
	Actor  string
	Offset int
	N      int
	Kind   string // "bytes" | "F" | "G"
}

// Reader returns (creating it if needed) the named symbolic stream of this run.
func (r *Run) Reader(name string) *Reader {
	r.mu.Lock()
	defer r.mu.Unlock()
	if rd, ok := r.readers[name]; ok {
		return rd
	}
	rd := &Reader{run: r, Name: name}
	r.readers[name] = rd
	return rd
}

// SetActor labels the party currently executing (for the reader-discipline monitor).
func (r *Run) SetActor(a string) { r.current = a }

// ReadEvents returns the recorded consumption events.
func (r *Run) ReadEvents() []ReadEvent { return r.monitor }

func (rd *Reader) Read(p []byte) (int, error) {
	rd.run.mu.Lock()
	defer rd.run.mu.Unlock()
	if err := rd.tick(); err != nil {
		return 0, err
	}
	if rd.short > 0 && len(p) > rd.short {
		p = p[:rd.short]
	}
	rd.run.monitor = append(rd.run.monitor, ReadEvent{Reader: rd.Name, Actor: rd.run.current, Offset: rd.off, N: len(p), Kind: "bytes"})
	salt := rd.Salt
	if rd.hasAlt && rd.calls-1 == rd.altAt {
		salt += "#alt"
	}
	for i := range p {
		blk := (rd.off + i) / 32
		h := sha256.New()
		var sd [16]byte
		binary.BigEndian.PutUint64(sd[:8], uint64(rd.run.eng.opt.Seed))
		binary.BigEndian.PutUint64(sd[8:], uint64(blk))
		h.Write(sd[:])
		h.Write([]byte(rd.Name))
		h.Write([]byte{0})
		h.Write([]byte(salt))
		p[i] = h.Sum(nil)[(rd.off+i)%32]
	}
	rd.off += len(p)
	return len(p), nil
}

// drawName consumes n bytes from prng and returns the variable name for the element sampled.
func (r *Run) drawName(prng io.Reader, n int, kind string) (string, error) {
	if rd, ok := prng.(*Reader); ok {
		r.mu.Lock()
		defer r.mu.Unlock()
		if err := rd.tick(); err != nil {
			return "", err
		}
		name := fmt.Sprintf("rnd:%s@%d", rd.Name, rd.off)
		if rd.hasAlt && rd.calls-1 == rd.altAt {
			name = fmt.Sprintf("rnd:%s#alt@%d", rd.Name, rd.off)
		}
		r.monitor = append(r.monitor, ReadEvent{Reader: rd.Name, Actor: r.current, Offset: rd.off, N: n, Kind: kind})
		rd.off += n
		return name, nil
	}
	buf := make([]byte, n)
	if _, err := io.ReadFull(prng, buf); err != nil {
		return "", fmt.Errorf("symalg: prng read: %w", err)
	}
	r.mu.Lock()
	r.monitor = append(r.monitor, ReadEvent{Reader: fmt.Sprintf("%T", prng), Actor: r.current, Offset: -1, N: n, Kind: kind})
	r.mu.Unlock()
	return "prg:" + digestHex(buf), nil
}

// Drawn returns the variable that Field.Random yields for the named stream at a byte offset.
func (r *Run) Drawn(reader string, off int) *F {
	return r.field.mk(r.newVarL(fmt.Sprintf("rnd:%s@%d", reader, off)))
}

// RenameF returns x with every variable whose name satisfies match replaced by a fresh variable
// (name + suffix): "the same computation under another random stream of that party".
func (r *Run) RenameF(x *F, match func(name string) bool, suffix string) *F {
	return r.field.mk(r.renamePoly(x.p, match, suffix))
}

// RenameG is RenameF for group elements.
func (r *Run) RenameG(x *G, match func(name string) bool, suffix string) *G {
	return r.group.mk(r.renamePoly(x.p, match, suffix))
}

func (r *Run) renamePoly(p *Poly, match func(name string) bool, suffix string) *Poly {
	used := map[int]bool{}
	p.varSet(used)
	out := p
	for id := range used {
		name := (*r.byID)[id].name
		if match(name) {
			out = out.subst(id, r.newVarL(name+suffix), r.q)
		}
	}
	return out
}

// VarNamesF lists the variables an element depends on (syntactic support of its normal form).
func (r *Run) VarNamesF(x *F) []string { return r.varNames(x.p) }

// VarNamesG lists the variables a group element depends on.
func (r *Run) VarNamesG(x *G) []string { return r.varNames(x.p) }

func (r *Run) varNames(p *Poly) []string {
	used := map[int]bool{}
	p.varSet(used)
	var out []string
	for id := range used {
		out = append(out, (*r.byID)[id].name)
	}
	return out
}
