package symalg

import (
	"bufio"
	"fmt"
	"io"
	"os"
	"os/exec"
	"strings"
	"sync"
	"time"
)

// Verdict is a solver answer.
type Verdict int

const (
	Unknown Verdict = iota
	Sat
	Unsat
)

func (v Verdict) String() string {
	switch v {
	case Sat:
		return "sat"
	case Unsat:
		return "unsat"
	default:
		return "unknown"
	}
}

// Solver wraps one long-lived SMT solver process speaking SMT-LIB2 on stdin/stdout.
type Solver struct {
	Name string
	cmd  *exec.Cmd
	in   io.WriteCloser
	out  *bufio.Reader
	mu   sync.Mutex

	Queries  map[Verdict]int
	Time     time.Duration
	Errors   int
	timeoutM int
	// shortM, when non-zero, replaces the soft timeout of the next queries (z3 only: the timeout is
	// part of the per-query preamble)
	shortM int
	dead   bool
}

// SolverArgv returns the command line for a named solver.
func SolverArgv(name string) []string {
	switch name {
	case "z3-new":
		return []string{"z3-new", "-in"}
	case "cvc5":
		return []string{"cvc5", "--incremental", "--lang=smt2", "--produce-models"}
	default:
		return []string{"z3", "-in"}
	}
}

// NewSolver starts a solver process. timeoutMs is the per-query soft timeout.
func NewSolver(name string, timeoutMs int) (*Solver, error) {
	s := &Solver{Name: name, Queries: map[Verdict]int{}, timeoutM: timeoutMs}
	if err := s.start(); err != nil {
		return nil, err
	}
	return s, nil
}

func (s *Solver) start() error {
	argv := SolverArgv(s.Name)
	if s.Name == "cvc5" {
		argv = append(argv, fmt.Sprintf("--tlimit-per=%d", s.timeoutM))
	}
	cmd := exec.Command(argv[0], argv[1:]...)
	in, err := cmd.StdinPipe()
	if err != nil {
		return err
	}
	out, err := cmd.StdoutPipe()
	if err != nil {
		return err
	}
	cmd.Stderr = cmd.Stdout
	if err := cmd.Start(); err != nil {
		return err
	}
	s.cmd, s.in, s.out = cmd, in, bufio.NewReaderSize(out, 1<<20)
	s.dead = false
	return nil
}

// Close terminates the solver process.
func (s *Solver) Close() {
	s.mu.Lock()
	defer s.mu.Unlock()
	s.kill()
}

func (s *Solver) kill() {
	if s.cmd != nil && s.cmd.Process != nil {
		_ = s.in.Close()
		_ = s.cmd.Process.Kill()
		_, _ = s.cmd.Process.Wait()
	}
	s.dead = true
}

func (s *Solver) preamble() string {
	if s.Name == "cvc5" {
		return "(reset)\n(set-logic ALL)\n(set-option :produce-models true)\n"
	}
	t := s.timeoutM
	if s.shortM > 0 && s.shortM < t {
		t = s.shortM
	}
	return fmt.Sprintf("(reset)\n(set-option :timeout %d)\n", t)
}

// readLine reads one reply line with a hard deadline (solver timeouts are soft).
func (s *Solver) readLine(deadline time.Duration) (string, error) {
	type res struct {
		l   string
		err error
	}
	ch := make(chan res, 1)
	go func() {
		l, err := s.out.ReadString('\n')
		ch <- res{l, err}
	}()
	select {
	case r := <-ch:
		return strings.TrimSpace(r.l), r.err
	case <-time.After(deadline):
		s.kill()
		return "", fmt.Errorf("solver hard timeout")
	}
}

// Check runs one self-contained script (declarations + assertions, without check-sat) and returns
// the verdict; when wantModel is non-empty and the verdict is sat it also returns the values of the
// listed integer constants. Any reply other than sat/unsat/unknown (e.g. an `(error` line) is
// treated as Unknown and counted in Errors.
func (s *Solver) Check(script string, wantModel []string) (Verdict, map[string]string) {
	s.mu.Lock()
	defer s.mu.Unlock()
	if s.dead {
		if err := s.start(); err != nil {
			s.Errors++
			return Unknown, nil
		}
	}
	t0 := time.Now()
	defer func() { s.Time += time.Since(t0) }()
	var sb strings.Builder
	sb.WriteString(s.preamble())
	sb.WriteString(script)
	sb.WriteString("\n(check-sat)\n")
	if _, err := io.WriteString(s.in, sb.String()); err != nil {
		s.kill()
		s.Errors++
		s.Queries[Unknown]++
		return Unknown, nil
	}
	hard := time.Duration(s.timeoutM)*time.Millisecond*2 + 5*time.Second
	var v Verdict
	for {
		line, err := s.readLine(hard)
		if err != nil {
			s.Errors++
			s.Queries[Unknown]++
			return Unknown, nil
		}
		switch line {
		case "sat":
			v = Sat
		case "unsat":
			v = Unsat
		case "unknown", "timeout":
			v = Unknown
		case "":
			continue
		default:
			// error or unexpected output: inconclusive; resynchronise by restarting the process.
			s.Errors++
			s.Queries[Unknown]++
			s.kill()
			return Unknown, nil
		}
		break
	}
	s.Queries[v]++
	if v == Unknown {
		dumpQuery(sb.String())
	}
	if v != Sat || len(wantModel) == 0 {
		return v, nil
	}
	// fetch model values
	if _, err := io.WriteString(s.in, "(get-value ("+strings.Join(wantModel, " ")+"))\n"); err != nil {
		s.kill()
		return v, nil
	}
	text, ok := s.readSexpr(hard)
	if !ok {
		s.kill()
		return v, nil
	}
	return v, parseValues(text)
}

var dumpN int

func dumpQuery(q string) {
	dir := os.Getenv("SYMALG_DUMP")
	if dir == "" {
		return
	}
	dumpN++
	_ = os.WriteFile(fmt.Sprintf("%s/unknown_%d_%d.smt2", dir, os.Getpid(), dumpN), []byte(q), 0o644)
}

func (s *Solver) readSexpr(deadline time.Duration) (string, bool) {
	var sb strings.Builder
	depth := 0
	started := false
	for {
		line, err := s.readLine(deadline)
		if err != nil {
			return "", false
		}
		sb.WriteString(line)
		sb.WriteByte(' ')
		for _, c := range line {
			if c == '(' {
				depth++
				started = true
			} else if c == ')' {
				depth--
			}
		}
		if started && depth <= 0 {
			break
		}
	}
	return sb.String(), true
}

// parseValues parses `((x 5) (y (- 3)) ...)` into name → decimal string (possibly negative).
func parseValues(text string) map[string]string {
	out := map[string]string{}
	toks := tokenize(text)
	// expect ( ( name value ) ... )
	i := 0
	if i < len(toks) && toks[i] == "(" {
		i++
	}
	for i < len(toks) && toks[i] == "(" {
		i++
		if i >= len(toks) {
			break
		}
		name := toks[i]
		i++
		val, ni := parseIntValue(toks, i)
		i = ni
		out[name] = val
		if i < len(toks) && toks[i] == ")" {
			i++
		}
	}
	return out
}

func parseIntValue(toks []string, i int) (string, int) {
	if i >= len(toks) {
		return "0", i
	}
	if toks[i] == "(" {
		// (- n)
		i++
		neg := false
		if i < len(toks) && toks[i] == "-" {
			neg = true
			i++
		}
		v, ni := parseIntValue(toks, i)
		i = ni
		if i < len(toks) && toks[i] == ")" {
			i++
		}
		if neg {
			if strings.HasPrefix(v, "-") {
				return v[1:], i
			}
			return "-" + v, i
		}
		return v, i
	}
	return toks[i], i + 1
}

func tokenize(s string) []string {
	var toks []string
	cur := strings.Builder{}
	flush := func() {
		if cur.Len() > 0 {
			toks = append(toks, cur.String())
			cur.Reset()
		}
	}
	for _, c := range s {
		switch c {
		case '(', ')':
			flush()
			toks = append(toks, string(c))
		case ' ', '\n', '\t', '\r':
			flush()
		default:
			cur.WriteRune(c)
		}
	}
	flush()
	return toks
}
