// Command ssasym is the CLI of engine E1 (see /verif/engine/E1_SPEC.md).
//
//	ssasym -pkg <import path or ./dir in /repo> -harness <dir with zz_verif_*.go> -func H1,H2,...
//	       [-solver z3|z3-new|cvc5] [-timeout-ms N] [-max-paths N] [-max-steps N] [-max-decisions N] [-out result.json]
//	       [-replay-dir DIR] [-selftest N] [-seed S] [-v] [-smt-log PREFIX] [-list] [-no-replay] [-no-wire-nf] [-emit-intrinsics DIR]
//
// Exit status: 0 all obligations valid; 1 some obligation violated (replayed natively);
// 2 engine error or solver/native mismatch; 3 nothing violated but something inconclusive,
// vacuous or not encodable.
package main

import (
	"encoding/json"
	"flag"
	"fmt"
	"os"
	"strings"
	"time"

	"verif/engine/internal/ssasym"
)

func main() {
	pkg := flag.String("pkg", "", "target package: import path or ./dir relative to /repo")
	harness := flag.String("harness", "", "directory with zz_verif_*.go harness files")
	funcs := flag.String("func", "", "comma-separated harness functions (default: all niladic functions of the harness files; a name ending in * is a prefix)")
	solver := flag.String("solver", "z3", "z3 | z3-new | cvc5")
	timeout := flag.Int("timeout-ms", 120000, "per-query solver timeout in milliseconds")
	maxPaths := flag.Int("max-paths", 20000, "path bound per harness")
	maxSteps := flag.Int64("max-steps", 200000000, "interpreter step bound per path")
	maxEvents := flag.Int("max-decisions", 4096, "bound on solver-consulting events (forks, feasibility checks, assertions) per path")
	out := flag.String("out", "", "write result.json here")
	replayDir := flag.String("replay-dir", "", "directory for replay artefacts (default: a temporary directory)")
	selftest := flag.Int("selftest", 0, "differential validation: N seeded random concrete runs per harness, interpreter vs native")
	seed := flag.Int64("seed", 1, "seed for -selftest")
	verbose := flag.Bool("v", false, "per-path and per-assertion progress")
	smtLog := flag.String("smt-log", "", "write solver transcripts to PREFIX.{inc,oneshot}.smt2")
	list := flag.Bool("list", false, "list harness functions and exit")
	noReplay := flag.Bool("no-replay", false, "do not replay counterexamples natively (they are then reported inconclusive)")
	noWire := flag.Bool("no-wire-nf", false, "disable the bit-wiring normal form of the term layer (cross-check: everything is then decided by the solver)")
	emit := flag.String("emit-intrinsics", "", "write the generated zz_verif_intrinsics.go and zz_verif_intrinsics_native.go for the harness package into DIR and exit")
	flag.Parse()
	ssasym.WireNormalForm = !*noWire

	if *pkg == "" || *harness == "" {
		flag.Usage()
		os.Exit(2)
	}
	if *emit != "" {
		name, err := ssasym.HarnessPackageName(*harness)
		if err == nil {
			err = ssasym.EmitIntrinsics(*emit, name)
		}
		if err != nil {
			fmt.Fprintln(os.Stderr, "ssasym:", err)
			os.Exit(2)
		}
		fmt.Println("wrote intrinsics for package", name, "to", *emit)
		return
	}
	if err := ssasym.FixGoPath(); err != nil {
		fmt.Fprintln(os.Stderr, "ssasym:", err)
		os.Exit(2)
	}
	t0 := time.Now()
	L, err := ssasym.Load(*pkg, *harness)
	if err != nil {
		fmt.Fprintln(os.Stderr, "ssasym: load:", err)
		os.Exit(2)
	}
	loadS := time.Since(t0).Seconds()
	fmt.Printf("loaded %s with harness %s in %.2fs\n", L.PkgPath, L.HarnessDir, loadS)
	if *list {
		for _, f := range L.HarnessFns {
			fmt.Println(f)
		}
		return
	}
	var names []string
	if *funcs == "" {
		for _, f := range L.HarnessFns {
			names = append(names, f)
		}
	} else {
		for _, f := range strings.Split(*funcs, ",") {
			f = strings.TrimSpace(f)
			if f == "" {
				continue
			}
			if strings.HasSuffix(f, "*") {
				for _, h := range L.HarnessFns {
					if strings.HasPrefix(h, strings.TrimSuffix(f, "*")) {
						names = append(names, h)
					}
				}
				continue
			}
			names = append(names, f)
		}
	}
	if len(names) == 0 {
		fmt.Fprintln(os.Stderr, "ssasym: no harness function selected")
		os.Exit(2)
	}
	cfg := &ssasym.Config{Solver: *solver, TimeoutMS: *timeout, MaxPaths: *maxPaths, MaxSteps: *maxSteps, MaxEvents: *maxEvents,
		ReplayDir: *replayDir, Seed: *seed, Verbose: *verbose, SMTLog: *smtLog, NoReplay: *noReplay}
	eng := ssasym.NewEngine(L, cfg, os.Stdout)
	defer eng.Close()

	if *selftest > 0 {
		reps, err := eng.SelfTest(names, *selftest, *seed)
		if err != nil {
			fmt.Fprintln(os.Stderr, "ssasym: selftest:", err)
			eng.Close()
			os.Exit(2)
		}
		bad, weak := 0, 0
		for _, r := range reps {
			bad += len(r.Mismatches)
			weak += r.NotEncodable
		}
		if *out != "" {
			b, _ := json.MarshalIndent(map[string]interface{}{"selftest": reps, "seed": *seed, "wall_s": time.Since(t0).Seconds()}, "", "  ")
			os.WriteFile(*out, b, 0o644)
		}
		fmt.Printf("selftest: %d harnesses, %d mismatches, %d runs not encodable, wall %.2fs\n", len(reps), bad, weak, time.Since(t0).Seconds())
		eng.Close()
		switch {
		case bad > 0:
			os.Exit(2)
		case weak > 0:
			os.Exit(3)
		}
		return
	}

	res := eng.Run(names)
	res.LoadS = loadS
	res.WallS = time.Since(t0).Seconds()
	eng.Print(res)
	if *out != "" {
		if err := ssasym.WriteResult(*out, res); err != nil {
			fmt.Fprintln(os.Stderr, "ssasym:", err)
			eng.Close()
			os.Exit(2)
		}
	}
	eng.Close()
	os.Exit(res.ExitCode)
}
