package main

import (
	"fmt"
	"go/types"
	"os"

	"golang.org/x/tools/go/packages"
)

func main() {
	cfg := &packages.Config{Mode: packages.LoadAllSyntax, Dir: "/verif/engine", BuildFlags: []string{"-tags=purego"}}
	pkgs, err := packages.Load(cfg, "verif/engine/symalg", "github.com/bronlabs/bron-crypto/pkg/base/curves")
	if err != nil {
		panic(err)
	}
	var sym, cur *types.Package
	for _, p := range pkgs {
		if p.Types.Name() == "symalg" {
			sym = p.Types
		}
		if p.Types.Name() == "curves" {
			cur = p.Types
		}
	}
	G := types.NewPointer(sym.Scope().Lookup("G").Type())
	F := types.NewPointer(sym.Scope().Lookup("F").Type())
	Grp := types.NewPointer(sym.Scope().Lookup("Group").Type())
	for _, spec := range []struct {
		iface string
		impl  types.Type
		args  []types.Type
	}{{"Point", G, []types.Type{G, F, F}}, {"Curve", Grp, []types.Type{G, F, F}}, {"PairingFriendlyPoint", G, []types.Type{G, F, G, F, F, F}}, {"PairingFriendlyCurve", Grp, []types.Type{G, F, G, F, F, F}}, {"PairingFriendlyFamily", Grp, []types.Type{G, F, G, F, F, F}}} {
		gen := cur.Scope().Lookup(spec.iface).Type()
		inst, err := types.Instantiate(types.NewContext(), gen, spec.args, false)
		if err != nil {
			fmt.Println("instantiate:", err)
			os.Exit(1)
		}
		it := inst.Underlying().(*types.Interface)
		ms := types.NewMethodSet(spec.impl)
		fmt.Println("==", spec.iface)
		for i := 0; i < it.NumMethods(); i++ {
			m := it.Method(i)
			sel := ms.Lookup(sym, m.Name())
			if sel == nil {
				fmt.Printf("MISSING %s %s\n", m.Name(), types.TypeString(m.Type(), func(p *types.Package) string { return p.Name() }))
			} else if !types.Identical(sel.Type(), m.Type()) {
				fmt.Printf("MISMATCH %s want %s have %s\n", m.Name(), types.TypeString(m.Type(), nil), types.TypeString(sel.Type(), nil))
			}
		}
	}
}
