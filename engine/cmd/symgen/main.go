// Command symgen runs the E2 checks (symbolic instantiation of bron-crypto's generic code).
package main

import (
	"flag"
	"fmt"
	"os"
	"runtime/pprof"
	"strconv"
	"time"

	"verif/engine/harness/e2"
)

func main() {
	if pf := os.Getenv("SYMGEN_PPROF"); pf != "" {
		// development aid: CPU profile of an -inprocess run, written after SYMGEN_PPROF_SECS seconds (default 120)
		f, err := os.Create(pf)
		if err == nil {
			_ = pprof.StartCPUProfile(f)
			secs, _ := strconv.Atoi(os.Getenv("SYMGEN_PPROF_SECS"))
			if secs == 0 {
				secs = 120
			}
			go func() {
				time.Sleep(time.Duration(secs) * time.Second)
				pprof.StopCPUProfile()
				_ = f.Close()
				os.Exit(7)
			}()
		}
	}
	prop := flag.String("property", "", "property id (C01..C20)")
	tier := flag.String("tier", "quick", "quick|thorough")
	solver := flag.String("solver", "z3-new", "z3|z3-new|cvc5")
	cross := flag.String("cross", "", "second solver for cross-checking validity verdicts")
	only := flag.String("only", "", "regexp filter on case ids")
	replay := flag.String("replay", "", "replay file")
	workers := flag.Int("workers", 0, "parallel workers")
	timeout := flag.Int("timeout-ms", 0, "per-query solver timeout")
	verifDir := flag.String("verif", "/verif", "verif directory")
	list := flag.Bool("list", false, "list case ids")
	child := flag.Bool("child", false, "internal: run one shard and write JSON lines")
	shard := flag.String("shard", "0/1", "internal: shard k/n")
	outFile := flag.String("out", "", "internal: result file of a child")
	inproc := flag.Bool("inprocess", false, "run all cases in this process (debugging)")
	flag.Parse()
	seed := int64(1)
	if s := os.Getenv("VERIF_SEED"); s != "" {
		if v, err := strconv.ParseInt(s, 10, 64); err == nil {
			seed = v
		}
	}
	if t := os.Getenv("VERIF_TIER"); t != "" && !isFlagSet("tier") {
		*tier = t
	}
	def, ok := e2.Properties[*prop]
	if !ok {
		fmt.Fprintln(os.Stderr, "unknown property", *prop)
		os.Exit(2)
	}
	cases := def.Cases(*tier, seed)
	if *list {
		for _, c := range cases {
			fmt.Println(c.ID)
		}
		return
	}
	cfg := def.Config(*tier)
	cfg.Property = *prop
	cfg.Tier = *tier
	cfg.Seed = seed
	cfg.Solver = *solver
	if *cross != "" {
		cfg.Cross = *cross
	}
	cfg.OnlyCase = *only
	cfg.Workers = *workers
	if *timeout != 0 {
		cfg.TimeoutMs = *timeout
	}
	cfg.VerifDir = *verifDir
	cfg.Child = *child
	cfg.OutFile = *outFile
	cfg.InProcess = *inproc
	fmt.Sscanf(*shard, "%d/%d", &cfg.ShardIdx, &cfg.ShardN)
	if cfg.ShardN == 0 {
		cfg.ShardN = 1
	}
	if *replay != "" {
		os.Exit(e2.ReplayFile(cfg, cases, *replay))
	}
	os.Exit(e2.RunProperty(cfg, cases))
}

func isFlagSet(name string) bool {
	set := false
	flag.Visit(func(f *flag.Flag) {
		if f.Name == name {
			set = true
		}
	})
	return set
}
