package main

var properties = map[string]PropertyDef{
	"C09": {
		Batches: []Batch{
			{Name: "otbits-transpose", Pkg: "pkg/ot", Harness: "harness/e1/otbits",
				Funcs:   []string{"H_ot_transpose64", "H_ot_transpose_fast_slow", "H_ot_transpose_slow_spec", "H_ot_transpose_shapes"},
				Control: []string{"H_ot_transpose64_MUSTFAIL", "H_ot_transpose_fast_slow_MUSTFAIL"}},
			{Name: "otbits-packing", Pkg: "pkg/ot", Harness: "harness/e1/otbits",
				Funcs:   []string{"H_ot_pack", "H_ot_bits_rw", "H_ot_repeat", "H_ot_parse", "H_ot_parse_long"},
				Control: []string{"H_ot_pack_MUSTFAIL", "H_ot_bits_rw_MUSTFAIL", "H_ot_repeat_MUSTFAIL", "H_ot_parse_MUSTFAIL"}},
			{Name: "bf128", Pkg: "pkg/base/binaryfields/bf128", Harness: "harness/e1/bf128",
				Funcs:   []string{"H_bf128_add", "H_bf128_mul_left_basis", "H_bf128_mul_right_basis", "H_bf128_bytes", "H_bf128_select"},
				Control: []string{"H_bf128_mul_MUSTFAIL", "H_bf128_bytes_MUSTFAIL", "H_bf128_select_MUSTFAIL"}},
			{Name: "otbits-transpose-solver-only", Pkg: "pkg/ot", Harness: "harness/e1/otbits", Thor: true, NoNF: true,
				Funcs: []string{"H_ot_transpose64", "H_ot_transpose_fast_slow", "H_ot_transpose_slow_spec"}},
		},
		Bounds: map[string]any{"transpose64": "all 4096 input bits symbolic", "TransposePackedBits": "64×8-byte fully symbolic matrices; fast path ≡ slow path; involution; shape errors", "Pack/Unpack/Get/Set/Clear/Swap/Repeat/Parse": "lengths ≤ 16 bits, symbolic in-range indices", "bf128": "Add = XOR; Mul by the basis x^k for k=0..127 with the other operand fully symbolic (inductive in k); bytes round trip; Select/Equal/IsZero"},
		Assumes: []string{"bilinearity of bf128.Mul for two symbolic operands is NOT decided (symbolic×symbolic carry-less multiplication is out of the solvers' reach: DESIGN §6 barrier 1)"},
		Outside: []string{"base OTs (ecbbot, vsot)", "SoftSpoken extension rounds", "RVOLE multiplication", "real PRG/hash"},
	},
	"C19": {
		Batches: []Batch{
			{Name: "hagrid-framing", Pkg: "pkg/transcripts/hagrid", Harness: "harness/e1/hagrid",
				Funcs: []string{"H_hagrid_framing", "H_hagrid_layout", "H_hagrid_split"}, Control: []string{"H_hagrid_framing_MUSTFAIL"}},
			{Name: "hagrid-state", Pkg: "pkg/transcripts/hagrid", Harness: "harness/e1/hagrid",
				Funcs: []string{"H_hagrid_extract", "H_hagrid_clone", "H_hagrid_determinism"}, Control: []string{"H_hagrid_extract_MUSTFAIL", "H_hagrid_clone_MUSTFAIL"}},
			{Name: "xmd", Pkg: "pkg/base/curves/impl/rfc9380/expanders", Harness: "harness/e1/xmd",
				Funcs: []string{"H_xmd_layout_sha256", "H_xmd_layout_sha512", "H_xmd_oversize_dst", "H_xmd_bounds"}, Control: []string{"H_xmd_layout_MUSTFAIL", "H_xmd_output_MUSTFAIL"}},
		},
		Bounds:  map[string]any{"hagrid framing": "two single operations from {AppendDomainSeparator, AppendBytes with ≤2 messages, ExtractBytes}, label/tag/message lengths 0..3 (104 shapes × 104, all contents symbolic): a log that is a prefix of the other ⇒ same operation, label, message boundaries and length", "extraction": "output log ends in extractedTag, live log continues with continuedTag, neither is a prefix of the other; outLen=0 refused with the log unchanged; n ∈ {1,2,32,257}", "clone/determinism": "10 operation shapes", "expand_message_xmd": "hashed streams for b0,b1,bi equal the RFC 9380 §5.3.1 layout for msg/DST lengths 0..3, lenInBytes ∈ {32,48,64,96}, SHA-256 and SHA-512; oversize DST at 256; ell>255 panics"},
		Assumes: []string{"hash functions are modelled as byte logs with uninterpreted (but functional) outputs; collision-freeness is never assumed silently", "the inductive step (one operation) is the solver's; the induction over operation sequences is stated, not mechanised"},
		Outside: []string{"real cSHAKE/SHA-2 outputs and RFC vectors (pinned tests)", "hash_to_field reduction, SSWU/Elligator maps, cofactor clearing, subgroup membership", "expand_message_xof"},
	},
	"C18": {
		Batches: []Batch{
			{Name: "hashcom", Pkg: "pkg/commitments/hashcom", Harness: "harness/e1/hashcom",
				Funcs: []string{"H_hashcom_layout", "H_hashcom_open", "H_hashcom_injective", "H_hashcom_binding", "H_hashcom_extract_key"}, Control: []string{"H_hashcom_layout_MUSTFAIL", "H_hashcom_open_MUSTFAIL", "H_hashcom_binding_wrong_MUSTFAIL"}},
		},
		Bounds:  map[string]any{"hash commitments": "message lengths 0..4, 32-byte witness and key, all contents symbolic: Open accepts iff the recomputed digest equals the commitment; the absorbed stream is injective in (message, witness); under the explicit premise 'equal digests ⇒ equal logs' a changed message, witness, key or commitment alone makes Open reject; ExtractCommitmentKey is deterministic"},
		Assumes: []string{"keyed BLAKE2b modelled as a byte log; collision resistance appears only as a stated premise of the binding obligations"},
		Outside: []string{"intcom", "real hash behaviour"},
	},
	"C10": {
		Batches: []Batch{
			{Name: "sessionctx", Pkg: "pkg/mpc/session", Harness: "harness/e1/sessionctx",
				Funcs: []string{"H_session_pair_seeds", "H_session_subcontext", "H_session_newcontext_rejects", "H_session_subcontext_rejects"}, Control: []string{"H_session_pair_seeds_MUSTFAIL", "H_session_subcontext_MUSTFAIL"}},
		},
		Bounds:  map[string]any{"seed framing": "NewContext / SubContext with symbolic distinct 64-bit IDs (4 parties, sub-quorums of ≤3): the cSHAKE stream absorbed for pair (i,j) by i equals the one absorbed by j and differs for distinct pairs; SubContext binds the sorted member list and its size; argument validation"},
		Assumes: []string{"cSHAKE modelled as a byte log (functional, uninterpreted outputs)"},
		Outside: []string{"the interactive setup rounds", "real hash outputs"},
	},
	"C14": {
		Batches: []Batch{
			{Name: "points-w7-a0", Pkg: "pkg/base/curves/impl/points", Harness: "harness/e1/points",
				Funcs: []string{"H_points_w7_a0"}, Control: []string{"H_points_w7_MUSTFAIL"}},
			{Name: "points-w7-am3", Pkg: "pkg/base/curves/impl/points", Harness: "harness/e1/points",
				Funcs: []string{"H_points_w7_am3"}},
			{Name: "points-setaffine-edwards", Pkg: "pkg/base/curves/impl/points", Harness: "harness/e1/points",
				Funcs: []string{"H_points_w7_setaffine", "H_points_w7_am3_setaffine", "H_points_e5"}, Control: []string{"H_points_e5_MUSTFAIL"}},
			{Name: "k256-fp", Pkg: "pkg/base/curves/k256/impl", Harness: "harness/e1/fiat",
				Funcs: []string{"H_fiat_moduli", "H_fiat_fp_add", "H_fiat_fp_sub", "H_fiat_fp_opp", "H_fiat_fp_misc"}, Control: []string{"H_fiat_fp_add_MUSTFAIL", "H_fiat_fp_misc_MUSTFAIL"}},
			{Name: "k256-fq", Pkg: "pkg/base/curves/k256/impl", Harness: "harness/e1/fiat",
				Funcs: []string{"H_fiat_fq_add", "H_fiat_fq_sub", "H_fiat_fq_opp", "H_fiat_fq_misc"}, Control: []string{"H_fiat_fq_sub_MUSTFAIL"}},
		},
		Bounds:  map[string]any{"point formulas": "the REAL generic ShortWeierstrassPointImpl (Add, Double, Neg, Sub, Equal, IsZero, ToAffine, SetAffine, SetFromAffineX) instantiated with model curves y²=x³+5 and y²=x³-3x+1 over GF(7) (odd prime order) and TwistedEdwardsPointImpl with -x²+y²=1+2x²y² over GF(5): equal to the affine chord–tangent / Edwards law for ALL projective (extended) representatives of ALL points, identity / equal / opposite operands included", "generated field code": "secp256k1 base field and scalar field: Add/Sub/Opp ≡ (a±b) mod p for ALL 256-bit a,b < p (full width); Selectznz/Cmovznz/Nonzero; ToBytes/FromBytes round trip"},
		Assumes: []string{"Montgomery-domain values are compared as residues (linear operations commute with the Montgomery factor)"},
		Outside: []string{"Mul/Square/Inv/Sqrt/SetBytesWide of every generated field (symbolic×symbolic 256-bit multiplication)", "tower fields, pairing", "other curves' generated fields (same generator, not yet harnessed)", "point formulas at real field size and over larger model fields (GF(13): queries exceed the time budget)"},
	},
	"C17": {
		Batches: []Batch{
			{Name: "ct-ints", Pkg: "pkg/base/ct", Harness: "harness/e1/ct",
				Funcs: []string{"H_ct_less", "H_ct_select"}, Control: []string{"H_ct_less_MUSTFAIL", "H_ct_select_MUSTFAIL"}},
			{Name: "ct-slices", Pkg: "pkg/base/ct", Harness: "harness/e1/ct",
				Funcs: []string{"H_ct_compare_bytes", "H_ct_slice_preds", "H_ct_slice_select", "H_ct_bytes_ops"}, Control: []string{"H_ct_compare_bytes_MUSTFAIL", "H_ct_slice_select_MUSTFAIL", "H_ct_bytes_ops_MUSTFAIL"}},
		},
		Bounds:  map[string]any{"ct integer helpers": "64-bit instances, all inputs", "ct slice helpers": "lengths 0..4 each (unequal lengths included), all contents"},
		Assumes: []string{},
		Outside: []string{"saferith / BoringSSL big-number arithmetic", "modular exponentiation, inversion, square roots, CRT, prime generation"},
	},
}
