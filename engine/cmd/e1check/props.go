package main

var properties = map[string]PropertyDef{
	"C09": {
		Batches: []Batch{
			{Name: "otbits-transpose", Pkg: "pkg/ot", Harness: "harness/e1/otbits",
				Funcs:   []string{"H_ot_transpose64", "H_ot_transpose_fast_slow", "H_ot_transpose_slow_spec", "H_ot_transpose_shapes"},
				Control: []string{"H_ot_transpose64_MUSTFAIL", "H_ot_transpose_fast_slow_MUSTFAIL"}},
			{Name: "otbits-packing", Pkg: "pkg/ot", Harness: "harness/e1/otbits",
				Funcs:   []string{"H_ot_pack", "H_ot_bits_rw", "H_ot_repeat", "H_ot_parse", "H_ot_parse_long"},
				Control: []string{"H_ot_pack_MUSTFAIL", "H_ot_bits_rw_MUSTFAIL", "H_ot_repeat_MUSTFAIL", "H_ot_parse_MUSTFAIL"}},
			{Name: "bf128", Pkg: "pkg/base/binaryfields/bf128", Harness: "harness/e1/bf128",
				Funcs:   []string{"H_bf128_add", "H_bf128_mul_left_basis", "H_bf128_mul_right_basis", "H_bf128_bytes", "H_bf128_select"},
				Control: []string{"H_bf128_mul_MUSTFAIL", "H_bf128_bytes_MUSTFAIL", "H_bf128_select_MUSTFAIL"}},
			{Name: "otbits-transpose-solver-only", Pkg: "pkg/ot", Harness: "harness/e1/otbits", Thor: true, NoNF: true,
				Funcs: []string{"H_ot_transpose64", "H_ot_transpose_fast_slow", "H_ot_transpose_slow_spec"}},
		},
		Bounds: map[string]any{"transpose64": "all 4096 input bits symbolic", "TransposePackedBits": "64×8-byte fully symbolic matrices; fast path ≡ slow path; involution; shape errors", "Pack/Unpack/Get/Set/Clear/Swap/Repeat/Parse": "lengths ≤ 16 bits, symbolic in-range indices", "bf128": "Add = XOR; Mul by the basis x^k for k=0..127 with the other operand fully symbolic (inductive in k); bytes round trip; Select/Equal/IsZero"},
		Assumes: []string{"bilinearity of bf128.Mul for two symbolic operands is NOT decided (symbolic×symbolic carry-less multiplication is out of the solvers' reach: DESIGN §6 barrier 1)"},
		Outside: []string{"base OTs (ecbbot, vsot)", "SoftSpoken extension rounds", "RVOLE multiplication", "real PRG/hash"},
	},
	"C14": {
		Batches: []Batch{
			{Name: "k256-fp", Pkg: "pkg/base/curves/k256/impl", Harness: "harness/e1/fiat",
				Funcs: []string{"H_fiat_moduli", "H_fiat_fp_add", "H_fiat_fp_sub", "H_fiat_fp_opp", "H_fiat_fp_misc"}, Control: []string{"H_fiat_fp_add_MUSTFAIL", "H_fiat_fp_misc_MUSTFAIL"}},
			{Name: "k256-fq", Pkg: "pkg/base/curves/k256/impl", Harness: "harness/e1/fiat",
				Funcs: []string{"H_fiat_fq_add", "H_fiat_fq_sub", "H_fiat_fq_opp", "H_fiat_fq_misc"}, Control: []string{"H_fiat_fq_sub_MUSTFAIL"}},
		},
		Bounds:  map[string]any{"generated field code": "secp256k1 base field and scalar field: Add/Sub/Opp ≡ (a±b) mod p for ALL 256-bit a,b < p (full width); Selectznz/Cmovznz/Nonzero; ToBytes/FromBytes round trip"},
		Assumes: []string{"Montgomery-domain values are compared as residues (linear operations commute with the Montgomery factor)"},
		Outside: []string{"Mul/Square/Inv/Sqrt/SetBytesWide of every generated field (symbolic×symbolic 256-bit multiplication)", "tower fields, pairing", "other curves' generated fields (same generator, not yet harnessed)", "point formulas at real size"},
	},
	"C17": {
		Batches: []Batch{
			{Name: "ct-ints", Pkg: "pkg/base/ct", Harness: "harness/e1/ct",
				Funcs: []string{"H_ct_less", "H_ct_select"}, Control: []string{"H_ct_less_MUSTFAIL", "H_ct_select_MUSTFAIL"}},
			{Name: "ct-slices", Pkg: "pkg/base/ct", Harness: "harness/e1/ct",
				Funcs: []string{"H_ct_compare_bytes", "H_ct_slice_preds", "H_ct_slice_select", "H_ct_bytes_ops"}, Control: []string{"H_ct_compare_bytes_MUSTFAIL", "H_ct_slice_select_MUSTFAIL", "H_ct_bytes_ops_MUSTFAIL"}},
		},
		Bounds:  map[string]any{"ct integer helpers": "64-bit instances, all inputs", "ct slice helpers": "lengths 0..4 each (unequal lengths included), all contents"},
		Assumes: []string{},
		Outside: []string{"saferith / BoringSSL big-number arithmetic", "modular exponentiation, inversion, square roots, CRT, prime generation"},
	},
}
