// Command e1check drives engine E1 (ssasym) for one property: it runs the property's harness
// groups (one ssasym process per group/batch, in parallel), checks the negative controls
// (MUSTFAIL twins must be found and natively replayed), maps the results to the VIOLATION /
// KNOWN-FINDING protocol and writes (or merges into) the evidence file.
package main

import (
	"encoding/json"
	"flag"
	"fmt"
	"os"
	"os/exec"
	"path/filepath"
	"regexp"
	"sort"
	"strconv"
	"strings"
	"sync"
	"time"
)

// Batch is one ssasym invocation.
type Batch struct {
	Name    string   // label
	Pkg     string   // package dir relative to /repo
	Harness string   // harness dir relative to /verif/engine
	Funcs   []string // harness functions (real obligations)
	Control []string // MUSTFAIL twins (negative controls)
	Thor    bool     // thorough tier only
	NoNF    bool     // run with -no-wire-nf (solver alone decides)
	Timeout int      // per-query timeout ms (0 = default)
	Solver  string   // solver for this batch ("" = the -solver flag)
}

// PropertyDef lists the batches of a property.
type PropertyDef struct {
	Batches []Batch
	Bounds  map[string]any
	Assumes []string
	Outside []string
}

type obligation struct {
	ID      string         `json:"id"`
	Harness string         `json:"harness"`
	Status  string         `json:"status"`
	Paths   int            `json:"paths"`
	Queries map[string]int `json:"queries"`
	SolverS float64        `json:"solver_s"`
	Model   any            `json:"model"`
	Replay  *string        `json:"replay"`
	Reason  string         `json:"reason"`
}

type result struct {
	Obligations []obligation `json:"obligations"`
	Functions   []struct {
		Name   string `json:"name"`
		Instrs int    `json:"instrs"`
	} `json:"functions_encoded"`
	Stubs        any     `json:"stubs_used"`
	Replacements any     `json:"replacements_used"`
	WallS        float64 `json:"wall_s"`
	Exit         int     `json:"exit_code"`
}

// collectNames flattens the stubs_used / replacements_used value of a result (a list of strings, or
// a map keyed by name) into a set.
func collectNames(into map[string]bool, v any) {
	switch x := v.(type) {
	case []any:
		for _, e := range x {
			switch y := e.(type) {
			case string:
				into[y] = true
			case map[string]any:
				if n, ok := y["name"].(string); ok {
					into[n] = true
				}
			}
		}
	case map[string]any:
		for k, e := range x {
			if l, ok := e.([]any); ok && len(l) > 0 {
				collectNames(into, l)
				continue
			}
			into[k] = true
		}
	}
}

func sortedKeys(m map[string]bool) []string {
	out := make([]string, 0, len(m))
	for k := range m {
		out = append(out, k)
	}
	sort.Strings(out)
	return out
}

type known struct {
	Property string `json:"property"`
	Status   string `json:"status"`
	Match    string `json:"match"`
	What     string `json:"what"`
}

func main() {
	prop := flag.String("property", "", "property id")
	tier := flag.String("tier", "quick", "quick|thorough")
	verif := flag.String("verif", "/verif", "verif dir")
	solver := flag.String("solver", "z3", "solver")
	merge := flag.Bool("merge", false, "merge into an existing evidence file written by the E2 part of the same property")
	flag.Parse()
	seed := int64(1)
	if s := os.Getenv("VERIF_SEED"); s != "" {
		if v, err := strconv.ParseInt(s, 10, 64); err == nil {
			seed = v
		}
	}
	def, ok := properties[*prop]
	if !ok {
		fmt.Println("no E1 batches for", *prop)
		os.Exit(2)
	}
	t0 := time.Now()
	engine := filepath.Join(*verif, "engine")
	if exe, err := os.Executable(); err == nil {
		engine = filepath.Dir(filepath.Dir(exe))
	}
	bin := filepath.Join(engine, "bin", "ssasym")
	work, _ := os.MkdirTemp(filepath.Join(*verif, "work"), "e1-")
	if work == "" {
		_ = os.MkdirAll(filepath.Join(*verif, "work"), 0o755)
		work, _ = os.MkdirTemp(filepath.Join(*verif, "work"), "e1-")
	}
	defer os.RemoveAll(work)
	replayDir := filepath.Join(*verif, "replays", *prop)
	_ = os.MkdirAll(replayDir, 0o755)

	var batches []Batch
	for _, b := range def.Batches {
		if b.Thor && *tier != "thorough" {
			continue
		}
		batches = append(batches, b)
	}
	results := make([]*result, len(batches))
	errsOut := make([]string, len(batches))
	var wg sync.WaitGroup
	sem := make(chan struct{}, 8)
	for i, b := range batches {
		wg.Add(1)
		go func(i int, b Batch) {
			defer wg.Done()
			sem <- struct{}{}
			defer func() { <-sem }()
			out := filepath.Join(work, fmt.Sprintf("b%d.json", i))
			slv := *solver
			if b.Solver != "" {
				slv = b.Solver
			}
			args := []string{"-pkg", "./" + b.Pkg, "-harness", filepath.Join(engine, b.Harness), "-func", strings.Join(append(append([]string{}, b.Funcs...), b.Control...), ","),
				"-solver", slv, "-out", out, "-replay-dir", filepath.Join(replayDir, b.Name)}
			if b.NoNF {
				args = append(args, "-no-wire-nf")
			}
			if b.Timeout > 0 {
				args = append(args, "-timeout-ms", fmt.Sprint(b.Timeout))
			}
			cmd := exec.Command(bin, args...)
			cmd.Dir = engine
			cmd.Env = append(os.Environ(), "GOFLAGS=-mod=mod", "GOPROXY=off", "GOSUMDB=off", "GOTOOLCHAIN=local")
			o, _ := cmd.CombinedOutput()
			data, err := os.ReadFile(out)
			if err != nil {
				errsOut[i] = "no result file: " + tail(string(o), 800)
				return
			}
			var r result
			if err := json.Unmarshal(data, &r); err != nil {
				errsOut[i] = "bad result file: " + err.Error()
				return
			}
			results[i] = &r
		}(i, b)
	}
	wg.Wait()

	// aggregate
	kn := loadKnown(*verif)
	var (
		nObl, nValid, nViol, nInc, nFolded, nSolver int
		qsat, qunsat, qunk                          int
		solverS                                     float64
		controlsOK, controlsBad                     int
		paths                                       int
		samples                                     []any
		funcs                                       = map[string]int{}
		stubsUsed, contractsUsed                    = map[string]bool{}, map[string]bool{}
		incon                                       []string
		violLines, knownLines                       []string
		engineErr                                   []string
		controlHit                                  = map[string]bool{}
	)
	exit := 0
	for i, b := range batches {
		r := results[i]
		if r == nil {
			engineErr = append(engineErr, b.Name+": "+errsOut[i])
			continue
		}
		collectNames(stubsUsed, r.Stubs)
		collectNames(contractsUsed, r.Replacements)
		for _, f := range r.Functions {
			funcs[f.Name] = f.Instrs
		}
		isControl := map[string]bool{}
		for _, c := range b.Control {
			isControl[c] = true
		}
		for _, o := range r.Obligations {
			qsat += o.Queries["sat"]
			qunsat += o.Queries["unsat"]
			qunk += o.Queries["unknown"]
			solverS += o.SolverS
			paths += o.Paths
			key := b.Name + "/" + o.Harness + "/" + o.ID
			if isControl[o.Harness] {
				// a negative control is detected when at least one of its assertions is found
				// violated and confirmed natively (controls may contain auxiliary true assertions)
				if o.Status == "violated" {
					controlHit[b.Name+"/"+o.Harness] = true
				} else if _, seen := controlHit[b.Name+"/"+o.Harness]; !seen {
					controlHit[b.Name+"/"+o.Harness] = false
				}
				continue
			}
			nObl++
			switch o.Status {
			case "valid":
				nValid++
				if o.Queries["unsat"]+o.Queries["sat"] > 0 {
					nSolver++
				} else {
					nFolded++
				}
				if len(samples) < 8 && !strings.HasPrefix(o.ID, "reach:") {
					samples = append(samples, map[string]any{"obligation": key, "status": o.Status, "paths": o.Paths, "queries": o.Queries, "solver_s": o.SolverS, "note": o.Reason})
				}
			case "violated":
				nViol++
				rp := ""
				if o.Replay != nil {
					rp = *o.Replay
				}
				listed := false
				for _, k := range kn {
					if k.Property == *prop && k.Status == "known" {
						if ok, _ := regexp.MatchString(k.Match, key); ok {
							listed = true
							knownLines = append(knownLines, fmt.Sprintf("KNOWN-FINDING: property=%s %s (%s)", *prop, k.What, key))
						}
					}
				}
				if !listed {
					violLines = append(violLines, fmt.Sprintf("VIOLATION property=%s replay=%s\n  obligation=%s reason=%s model=%v", *prop, rp, key, o.Reason, o.Model))
				}
			default:
				nInc++
				incon = append(incon, key+": "+o.Status+" "+o.Reason)
				if strings.Contains(o.Reason, "ENGINE-MISMATCH") || strings.Contains(o.Reason, "mismatch") {
					engineErr = append(engineErr, key+": "+o.Reason)
				}
			}
		}
	}
	for name, hit := range controlHit {
		if hit {
			controlsOK++
		} else {
			controlsBad++
			engineErr = append(engineErr, "negative control not detected: "+name)
		}
	}
	sort.Strings(knownLines)
	for _, l := range uniq(knownLines) {
		fmt.Println(l)
	}
	for _, l := range violLines {
		fmt.Println(l)
	}
	if len(violLines) > 0 {
		exit = 1
	}
	for _, e := range engineErr {
		fmt.Printf("ENGINE-ERROR property=%s %s\n", *prop, tail(e, 600))
	}
	if len(engineErr) > 0 && exit == 0 {
		exit = 2
	}
	for _, s := range incon {
		fmt.Printf("INCONCLUSIVE property=%s %s\n", *prop, tail(s, 300))
	}

	stubList, contractList := sortedKeys(stubsUsed), sortedKeys(contractsUsed)
	fnames := make([]string, 0, len(funcs))
	for n := range funcs {
		fnames = append(fnames, n)
	}
	sort.Strings(fnames)
	var fl []string
	for _, n := range fnames {
		if strings.Contains(n, "bron-crypto") {
			fl = append(fl, fmt.Sprintf("%s (%d SSA instrs)", strings.TrimPrefix(n, "github.com/bronlabs/bron-crypto/"), funcs[n]))
		}
	}
	e1 := map[string]any{
		"engine":            "E1 ssasym: SSA-level symbolic interpreter of the real Go code (go/ssa), bit-vector SMT queries decided by " + *solver + ", counterexamples replayed natively",
		"batches":           len(batches),
		"obligations":       nObl,
		"obligations_valid": nValid,
		"obligations_valid_decided_by_solver_query":    nSolver,
		"obligations_valid_folded_by_term_normal_form": nFolded,
		"obligations_violated":                         nViol,
		"obligations_inconclusive":                     nInc,
		"inconclusive":                                 incon,
		"negative_controls_detected":                   controlsOK,
		"negative_controls_missed":                     controlsBad,
		"symbolic_paths":                               paths,
		"queries":                                      map[string]any{"sat": qsat, "unsat": qunsat, "unknown": qunk, "solver_s": solverS},
		"functions_encoded":                            fl,
		"stubs_used":                                   stubList,
		"contracts_used":                               contractList,
		"assumptions":                                  def.Assumes,
		"bounds":                                       def.Bounds,
		"outside_claim":                                def.Outside,
		"samples":                                      samples,
	}
	evPath := filepath.Join(*verif, "evidence", *prop+".json")
	_ = os.MkdirAll(filepath.Dir(evPath), 0o755)
	var ev map[string]any
	if *merge {
		if b, err := os.ReadFile(evPath); err == nil {
			_ = json.Unmarshal(b, &ev)
		}
	}
	if ev == nil {
		ev = map[string]any{
			"property_id": *prop, "tier": *tier, "seed": seed, "level": "model_checking", "violations": 0,
			"assumptions": def.Assumes,
			"coverage": map[string]any{
				"states": 0, "transitions": 0, "traces_validated_against_impl": 0, "evaluations": 0, "distinct_nontrivial": 0,
				"rule":         "one evaluation = one SMT query; one state = one symbolic path of a harness through the real code; an obligation is a (harness, assertion id) pair and counts as distinct non-trivial when it is not a reachability marker",
				"samples":      []any{},
				"checker_cmd":  fmt.Sprintf("./check %s %s", *prop, *tier),
				"trusted_base": []string{"z3", "ssasym interpreter and term layer (validated by -selftest against the natively compiled harness and by term_test.go)", "Go compiler / go/ssa"},
				"exhaustive":   false,
			},
		}
	}
	cov := ev["coverage"].(map[string]any)
	addI := func(k string, v int) {
		cur, _ := cov[k].(float64)
		if ci, ok := cov[k].(int); ok {
			cur = float64(ci)
		}
		cov[k] = int(cur) + v
	}
	addI("states", paths)
	addI("transitions", qsat+qunsat+qunk)
	addI("evaluations", qsat+qunsat+qunk)
	addI("distinct_nontrivial", nValid)
	addI("traces_validated_against_impl", controlsOK)
	addI("obligations", nObl)
	addI("discharged", nValid)
	if ss, ok := cov["samples"].([]any); ok {
		cov["samples"] = append(ss, samples...)
	}
	cov["E1"] = e1
	if as, ok := ev["assumptions"].([]any); ok && *merge {
		for _, a := range def.Assumes {
			as = append(as, a)
		}
		ev["assumptions"] = as
	}
	vcur, _ := ev["violations"].(float64)
	ev["violations"] = int(vcur) + len(violLines)
	wcur, _ := ev["wall_s"].(float64)
	ev["wall_s"] = wcur + time.Since(t0).Seconds()
	b, _ := json.MarshalIndent(ev, "", " ")
	if err := os.WriteFile(evPath, b, 0o644); err != nil {
		fmt.Println("cannot write evidence:", err)
		os.Exit(2)
	}
	fmt.Printf("SUMMARY property=%s engine=E1 tier=%s batches=%d obligations=%d valid=%d (solver=%d folded=%d) violated=%d inconclusive=%d controls=%d/%d queries(sat/unsat/unknown)=%d/%d/%d solver_s=%.1f wall_s=%.1f exit=%d\n",
		*prop, *tier, len(batches), nObl, nValid, nSolver, nFolded, nViol, nInc, controlsOK, controlsOK+controlsBad, qsat, qunsat, qunk, solverS, time.Since(t0).Seconds(), exit)
	os.Exit(exit)
}

func tail(s string, n int) string {
	s = strings.TrimSpace(s)
	if len(s) > n {
		return "…" + s[len(s)-n:]
	}
	return s
}

func uniq(xs []string) []string {
	var out []string
	prev := ""
	for _, x := range xs {
		if x != prev {
			out = append(out, x)
		}
		prev = x
	}
	return out
}

func loadKnown(dir string) []known {
	b, err := os.ReadFile(filepath.Join(dir, "known_findings.json"))
	if err != nil {
		return nil
	}
	var k struct {
		Findings []known `json:"findings"`
	}
	_ = json.Unmarshal(b, &k)
	return k.Findings
}
