//go:build verif_e1

package numct

import (
	"github.com/cronokirby/saferith"

	"github.com/bronlabs/bron-crypto/pkg/base/ct"
)

// E1 harnesses for integer division in pkg/base/nt/numct/int.go (property C17: "division with
// remainder ... returns the mathematically correct value, for operands of any size and any
// announced capacity"):
//
//	(*Int).EuclideanDivVarTime   n = q*d + r, 0 <= r < |d|        (Euclidean convention)
//	(*Int).DivVarTime            n = q*d + r, |r| < |d|, sign r = sign n   (truncated, as documented)
//	(*Int).EuclideanDiv / Div    the constant-time twins (bit-serial internal.EuclideanDiv)
//
// numct is written on top of saferith with explicit announced capacities; saferith itself is
// replaced by the value-level model of zz_verif_sfmodel.go (contracts; validated natively against
// the real saferith). What is checked here is therefore numct's OWN logic: sign handling, the
// Euclidean correction (q-1, |d|-r), and above all the CAPACITY it gives the quotient and the
// remainder - a capacity that is too small silently truncates the value.
//
// Inputs: numerator n = (-1)^sn * nm with nm < 2^B and ANY announced length nAnn with
// truelen(nm) <= nAnn (case split 1..B+2 and 64, the capacity of NewInt), denominator
// d = (-1)^sd * dm with 0 < dm < 2^B, true length L (case split) and announced length L or 64.
// Negative zero is included (saferith's sign-magnitude form has it, and numct's Neg produces it).
// nm, dm, the signs are symbolic; lengths are concrete on each path.
//
// Results are read back through the saferith API (IsNegative, Abs().Uint64(), AnnouncedLen), so
// the same harness code runs in the native twin against the real saferith.
//
// History (every violation was confirmed by native replay; both are repaired in /repo, see
// /verif/known_findings.json, and all harnesses are valid on the repaired tree):
//   - eucdivvt_cappos (capacity expression nAnn - truelen(d) + 2 >= 1): valid. Changing "+2" to "+1"
//     in EuclideanDivVarTime makes it fail (first witness -1/2; -255/2 is among the 140 failing paths).
//   - eucdivvt_capzero (expression == 0, i.e. announced(n) + 2 == truelen(d)) was VIOLATED for n < 0:
//     i.Resize(0) cut the quotient -1 (or +1) to zero bits: n = -1 (announced 1), d = 4 gave q = -0, r = 3.
//   - eucdivvt_capneg_dtight (expression < 0, d announced with its true length) was VIOLATED for n < 0:
//     Nat.EuclideanDivVarTime called rr.Mul(d, q, -1) with capacity announced(d) + announced(q) <
//     truelen(d); saferith masks the operand d IN PLACE and Int.EuclideanDivVarTime then computed
//     |d| - r from the damaged d: n = -1 (announced 1), d = 9 (announced 4) gave q = -1, r = 0.
//   - eucdivvt_capneg_dwide (expression < 0, d announced with 64 bits): valid.
//   - DivVarTime, EuclideanDiv, Div: valid on the whole domain.

func verifReplacements() map[string]any { return verifSaferithReplacements() }

func verifMkInt(neg bool, mag uint64, ann int) *Int {
	x := new(saferith.Int).SetUint64(mag)
	x.Neg(saferith.Choice(verifB2U(neg)))
	x.Resize(ann)
	return (*Int)(x)
}

func verifIntParts(x *Int) (neg saferith.Choice, mag uint64) {
	s := (*saferith.Int)(x)
	return s.IsNegative(), s.Abs().Uint64()
}

type verifDivCase struct {
	n, d           *Int
	nm, dm         uint64
	sn, sd         bool
	nAnn, dLen     int
	capExpr        int // nAnn - truelen(d) + 2, the capacity expression of the *VarTime functions
	nv, dv         int32
	bound          uint64
	numeratorIsNeg bool
}

// verifDivInputs draws the operands. region: 0 = everything, 1 = capExpr >= 1, 2 = capExpr == 0,
// 3 = capExpr < 0, 4 = capExpr < 0 and the denominator announced with 64 bits, 5 = capExpr < 0 and
// the denominator announced with exactly its true length, 6 = numerator and denominator announced
// with 64 bits, denominator 2 or 3.
func verifDivInputs(B int, region int) *verifDivCase { return verifDivInputsW(B, region, 64) }

// verifDivInputsW: dWide is the second choice for the announced length of the denominator.
func verifDivInputsW(B int, region int, dWide int) *verifDivCase {
	c := &verifDivCase{}
	c.nAnn = verifLen(1, B+3)
	if c.nAnn == B+3 {
		c.nAnn = 64
	}
	c.dLen = verifLen(1, B)
	dAnn := c.dLen
	if verifLen(0, 1) == 1 {
		dAnn = dWide
	}
	c.capExpr = c.nAnn - c.dLen + 2
	switch region {
	case 1:
		verifAssume(c.capExpr >= 1)
	case 2:
		verifAssume(c.capExpr == 0)
	case 3:
		verifAssume(c.capExpr < 0)
	case 4:
		verifAssume(c.capExpr < 0 && dAnn == dWide)
	case 5:
		verifAssume(c.capExpr < 0 && dAnn == c.dLen)
	case 6: // a small corner for the controls
		verifAssume(c.nAnn == 64 && c.dLen == 2 && dAnn == 64)
	}
	c.bound = uint64(1) << uint(B)
	// nm < 2^B and truelen(nm) <= nAnn, by construction (masks keep the high bits syntactically 0)
	nbits := min(B, c.nAnn)
	c.nm = verifU64() & (uint64(1)<<uint(nbits) - 1)
	// dm has true length exactly dLen: top bit set by construction
	top := uint64(1) << uint(c.dLen-1)
	c.dm = top | verifU64()&(top-1)
	c.sn = verifBool()
	c.sd = verifBool()
	verifLenHint = c.dLen
	c.n = verifMkInt(c.sn, c.nm, c.nAnn)
	c.d = verifMkInt(c.sd, c.dm, dAnn)
	c.nv = verifSigned(saferith.Choice(verifB2U(c.sn)), c.nm)
	c.dv = verifSigned(saferith.Choice(verifB2U(c.sd)), c.dm)
	return c
}

// verifSigned: the value (-1)^neg * mag as int32; the magnitude bound is asserted by the caller.
func verifSigned(neg saferith.Choice, mag uint64) int32 {
	v := int32(mag)
	return int32(verifIteU64(neg == 1, uint64(uint32(-v)), uint64(uint32(v))))
}

func verifEucDivVarTime(id string, B, region int) {
	c := verifDivInputs(B, region)
	q, r := new(Int), new(Nat)
	ok := q.EuclideanDivVarTime(r, c.n, c.d)
	verifReach(id + ".reach")
	verifAssert(id+".ok", ok == ct.True)
	qneg, qmag := verifIntParts(q)
	rmag := (*saferith.Nat)(r).Uint64()
	verifAssert(id+".quotient_magnitude_bounded", qmag <= c.bound)
	verifAssert(id+".remainder_in_range", rmag < c.dm) // 0 <= r < |d|
	qv := verifSigned(qneg, qmag&(2*c.bound-1))
	verifAssert(id+".n_eq_qd_plus_r", c.nv == qv*c.dv+int32(rmag&(c.bound-1)))
	verifAssertGhost(id+".model_in_domain", verifEscaped == 0)
}

func verifDivVarTime(id string, B, region int) {
	c := verifDivInputs(B, region)
	q, r := new(Int), new(Int)
	ok := q.DivVarTime(r, c.n, c.d)
	verifReach(id + ".reach")
	verifAssert(id+".ok", ok == ct.True)
	qneg, qmag := verifIntParts(q)
	rneg, rmag := verifIntParts(r)
	verifAssert(id+".quotient_magnitude_bounded", qmag < c.bound)
	verifAssert(id+".remainder_magnitude_lt_d", rmag < c.dm)
	// sign of a non-zero remainder = sign of the numerator (truncated division)
	verifAssert(id+".remainder_sign", verifB2U(rmag == 0)|verifB2U(uint64(rneg) == verifB2U(c.sn)) == 1)
	qv := verifSigned(qneg, qmag&(c.bound-1))
	rv := verifSigned(rneg, rmag&(c.bound-1))
	verifAssert(id+".n_eq_qd_plus_r", c.nv == qv*c.dv+rv)
	verifAssertGhost(id+".model_in_domain", verifEscaped == 0)
}

// ---- EuclideanDivVarTime

// H_numct_eucdivvt: the obligation on the whole domain, B = 8.
func H_numct_eucdivvt() { verifEucDivVarTime("eucdivvt", 8, 0) }

// H_numct_eucdivvt_cappos / _capzero / _capneg_*: the same, split by the sign of the capacity
// expression nAnn - truelen(d) + 2 (positive: the quotient is resized to it; zero: the quotient is
// truncated to 0 bits; negative: numct's Resize keeps the capacity, but saferith's Div/Mul are
// handed a non-positive / too small capacity).
func H_numct_eucdivvt_cappos()  { verifEucDivVarTime("eucdivvt_cappos", 8, 1) }
func H_numct_eucdivvt_capzero() { verifEucDivVarTime("eucdivvt_capzero", 8, 2) }

// the negative-capacity region split by the announced length of the denominator
func H_numct_eucdivvt_capneg_dwide()  { verifEucDivVarTime("eucdivvt_capneg_dwide", 8, 4) }
func H_numct_eucdivvt_capneg_dtight() { verifEucDivVarTime("eucdivvt_capneg_dtight", 8, 5) }

// H_numct_eucdivvt_m255_by_2: the concrete point -255 / 2 (numerator announced with its true
// length 8): q = -128 needs all 8 = 8 - 2 + 2 bits of the quotient capacity, r = 1.
func H_numct_eucdivvt_m255_by_2() {
	n := verifMkInt(true, 255, 8)
	d := verifMkInt(false, 2, 2)
	q, r := new(Int), new(Nat)
	ok := q.EuclideanDivVarTime(r, n, d)
	verifReach("eucdivvt_m255_by_2.reach")
	qneg, qmag := verifIntParts(q)
	verifAssert("eucdivvt_m255_by_2.quotient_is_minus_128", ok == ct.True && qneg == 1 && qmag == 128)
	verifAssert("eucdivvt_m255_by_2.remainder_is_1", (*saferith.Nat)(r).Uint64() == 1)
}

// thorough
func H_numct_eucdivvt_B10()        { verifEucDivVarTime("eucdivvt_b10", 10, 0) }
func H_numct_eucdivvt_cappos_B10() { verifEucDivVarTime("eucdivvt_cappos_b10", 10, 1) }

// ---- DivVarTime

func H_numct_divvt()     { verifDivVarTime("divvt", 8, 0) }
func H_numct_divvt_B10() { verifDivVarTime("divvt_b10", 10, 0) }

// ---- the constant-time twins (bit-serial internal.EuclideanDiv, one iteration per announced bit
// of the numerator; quotient capacity = numerator.AnnouncedLen(), remainder capacity =
// denominator.AnnouncedLen()). The denominator is announced with its true length or with 24 bits,
// not with 64: the loop computes rt - d modulo 2^(announced(d)+1), a value of announced(d)+1 bits
// whenever rt < d, which for 64 lies outside the model's one-limb domain (model_in_domain catches
// it).

func verifEucDivCT(id string, B, region int) {
	c := verifDivInputsW(B, region, 24)
	verifAssume(c.nAnn != 64) // 64 loop iterations over symbolic data: too slow for the solver
	q, r := new(Int), new(Nat)
	ok := q.EuclideanDiv(r, c.n, c.d)
	verifReach(id + ".reach")
	verifAssert(id+".ok", ok == ct.True)
	qneg, qmag := verifIntParts(q)
	rmag := (*saferith.Nat)(r).Uint64()
	verifAssert(id+".quotient_magnitude_bounded", qmag <= c.bound)
	verifAssert(id+".remainder_in_range", rmag < c.dm)
	qv := verifSigned(qneg, qmag&(2*c.bound-1))
	verifAssert(id+".n_eq_qd_plus_r", c.nv == qv*c.dv+int32(rmag&(c.bound-1)))
	verifAssertGhost(id+".model_in_domain", verifEscaped == 0)
}

func verifDivCT(id string, B, region int) {
	c := verifDivInputsW(B, region, 24)
	verifAssume(c.nAnn != 64)
	q, r := new(Int), new(Int)
	ok := q.Div(r, c.n, c.d)
	verifReach(id + ".reach")
	verifAssert(id+".ok", ok == ct.True)
	qneg, qmag := verifIntParts(q)
	rneg, rmag := verifIntParts(r)
	verifAssert(id+".quotient_magnitude_bounded", qmag < c.bound)
	verifAssert(id+".remainder_magnitude_lt_d", rmag < c.dm)
	verifAssert(id+".remainder_sign", verifB2U(rmag == 0)|verifB2U(uint64(rneg) == verifB2U(c.sn)) == 1)
	qv := verifSigned(qneg, qmag&(c.bound-1))
	rv := verifSigned(rneg, rmag&(c.bound-1))
	verifAssert(id+".n_eq_qd_plus_r", c.nv == qv*c.dv+rv)
	verifAssertGhost(id+".model_in_domain", verifEscaped == 0)
}

func H_numct_eucdiv_ct()    { verifEucDivCT("eucdiv_ct", 5, 0) }
func H_numct_div_ct()       { verifDivCT("div_ct", 5, 0) }
func H_numct_eucdiv_ct_B7() { verifEucDivCT("eucdiv_ct_b7", 7, 0) }
func H_numct_div_ct_B7()    { verifDivCT("div_ct_b7", 7, 0) }

// ---- division by zero: all four functions report ok = 0 and leave the outputs alone (d = +0 or -0
// with any announced length up to 9 bits, or 64)

func H_numct_div_by_zero() {
	which := verifLen(0, 3)
	dAnn := verifLen(0, 10)
	if dAnn == 10 {
		dAnn = 64
	}
	nm := verifU64() & 0xff
	n := verifMkInt(verifBool(), nm, 9)
	d := verifMkInt(verifBool(), 0, dAnn)
	q := verifMkInt(false, 5, 3)
	rn := (*Nat)(new(saferith.Nat).SetUint64(6).Resize(3))
	ri := verifMkInt(true, 6, 3)
	var ok ct.Bool
	switch which {
	case 0:
		ok = q.EuclideanDivVarTime(rn, n, d)
	case 1:
		ok = q.DivVarTime(ri, n, d)
	case 2:
		ok = q.EuclideanDiv(rn, n, d)
	default:
		ok = q.Div(ri, n, d)
	}
	verifReach("div_by_zero.reach")
	verifAssert("div_by_zero.not_ok", ok == ct.False)
	qneg, qmag := verifIntParts(q)
	verifAssert("div_by_zero.quotient_untouched", verifB2U(qneg == 0)&verifB2U(qmag == 5) == 1)
	rneg, rmag := verifIntParts(ri)
	verifAssert("div_by_zero.remainder_untouched", verifB2U(rneg == 1)&verifB2U(rmag == 6)&verifB2U((*saferith.Nat)(rn).Uint64() == 6) == 1)
	verifAssertGhost("div_by_zero.model_in_domain", verifEscaped == 0)
}

// ---- controls

// H_numct_eucdivvt_MUSTFAIL: claims the TRUNCATED remainder for the Euclidean function (wrong for
// a negative numerator that is not divisible).
func H_numct_eucdivvt_MUSTFAIL() {
	c := verifDivInputs(4, 6)
	q, r := new(Int), new(Nat)
	ok := q.EuclideanDivVarTime(r, c.n, c.d)
	verifReach("eucdivvt_mustfail.reach")
	rmag := (*saferith.Nat)(r).Uint64()
	verifAssert("eucdivvt_mustfail.wrong_remainder", verifB2U(ok == ct.True)&verifB2U(rmag == c.nm%c.dm) == 1)
}

// H_numct_divvt_MUSTFAIL: claims the Euclidean (non-negative) remainder for the truncated function.
func H_numct_divvt_MUSTFAIL() {
	c := verifDivInputs(4, 6)
	q, r := new(Int), new(Int)
	ok := q.DivVarTime(r, c.n, c.d)
	verifReach("divvt_mustfail.reach")
	rneg, rmag := verifIntParts(r)
	verifAssert("divvt_mustfail.wrong_remainder_sign", verifB2U(ok == ct.True)&(verifB2U(rmag == 0)|verifB2U(rneg == 0)) == 1)
}
