//go:build verif_e1

package numct

import (
	"github.com/cronokirby/saferith"

	"github.com/bronlabs/bron-crypto/pkg/base/ct"
)

// E1 harnesses for integer division in pkg/base/nt/numct/int.go (property C17: "division with
// remainder ... returns the mathematically correct value, for operands of any size and any
// announced capacity"):
//
//	(*Int).EuclideanDivVarTime   n = q*d + r, 0 <= r < |d|        (Euclidean convention)
//	(*Int).DivVarTime            n = q*d + r, |r| < |d|, sign r = sign n   (truncated, as documented)
//	(*Int).EuclideanDiv / Div    the constant-time twins (bit-serial internal.EuclideanDiv)
//
// numct is written on top of saferith with explicit announced capacities; saferith itself is
// replaced by the value-level model of zz_verif_sfmodel.go (contracts; validated natively against
// the real saferith). What is checked here is therefore numct's OWN logic: sign handling, the
// Euclidean correction (q-1, |d|-r), and above all the CAPACITY it gives the quotient and the
// remainder - a capacity that is too small silently truncates the value.
//
// Inputs: numerator n = (-1)^sn * nm with nm < 2^B and ANY announced length nAnn with
// truelen(nm) <= nAnn (case split 1..B+2 and 64, the capacity of NewInt), denominator
// d = (-1)^sd * dm with 0 < dm < 2^B, true length L (case split) and announced length L, L+1 or 64.
// Negative zero is included (saferith's sign-magnitude form has it, and numct's Neg produces it).
// nm, dm, the signs are symbolic; lengths are concrete on each path.
//
// Results are read back through the saferith API (IsNegative, Abs().Uint64(), AnnouncedLen), so
// the same harness code runs in the native twin against the real saferith.

func verifReplacements() map[string]any { return verifSaferithReplacements() }

func verifMkInt(neg bool, mag uint64, ann int) *Int {
	x := new(saferith.Int).SetUint64(mag)
	x.Neg(saferith.Choice(verifB2U(neg)))
	x.Resize(ann)
	return (*Int)(x)
}

func verifIntParts(x *Int) (neg saferith.Choice, mag uint64) {
	s := (*saferith.Int)(x)
	return s.IsNegative(), s.Abs().Uint64()
}

type verifDivCase struct {
	n, d           *Int
	nm, dm         uint64
	sn, sd         bool
	nAnn, dLen     int
	capExpr        int // nAnn - truelen(d) + 2, the capacity expression of the *VarTime functions
	nv, dv         int32
	bound          uint64
	numeratorIsNeg bool
}

// verifDivInputs draws the operands. region: 0 = everything, 1 = capExpr != 0, 2 = capExpr == 0.
func verifDivInputs(B int, region int) *verifDivCase {
	c := &verifDivCase{}
	c.nAnn = verifLen(1, B+3)
	if c.nAnn == B+3 {
		c.nAnn = 64
	}
	c.dLen = verifLen(1, B)
	dAnn := c.dLen + verifLen(0, 2)
	if dAnn == c.dLen+2 {
		dAnn = 64
	}
	c.capExpr = c.nAnn - c.dLen + 2
	switch region {
	case 1:
		verifAssume(c.capExpr != 0)
	case 2:
		verifAssume(c.capExpr == 0)
	}
	c.bound = uint64(1) << uint(B)
	c.nm = verifU64()
	verifAssume(c.nm < c.bound)
	if c.nAnn < 64 {
		verifAssume(c.nm>>uint(c.nAnn) == 0) // announced length >= true length
	}
	// dm has true length exactly dLen: top bit set by construction
	low := verifU64()
	verifAssume(low>>uint(c.dLen-1) == 0)
	c.dm = uint64(1)<<uint(c.dLen-1) | low
	c.sn = verifBool()
	c.sd = verifBool()
	verifLenHint = c.dLen
	c.n = verifMkInt(c.sn, c.nm, c.nAnn)
	c.d = verifMkInt(c.sd, c.dm, dAnn)
	c.nv = int32(c.nm)
	if c.sn {
		c.nv = -c.nv
	}
	c.dv = int32(c.dm)
	if c.sd {
		c.dv = -c.dv
	}
	return c
}

// verifSigned: the value (-1)^neg * mag as int32; the magnitude bound is asserted by the caller.
func verifSigned(neg saferith.Choice, mag uint64) int32 {
	v := int32(mag)
	return int32(verifIteU64(neg == 1, uint64(uint32(-v)), uint64(uint32(v))))
}

func verifEucDivVarTime(id string, B, region int) {
	c := verifDivInputs(B, region)
	q, r := new(Int), new(Nat)
	ok := q.EuclideanDivVarTime(r, c.n, c.d)
	verifReach(id + ".reach")
	verifAssert(id+".ok", ok == ct.True)
	qneg, qmag := verifIntParts(q)
	rmag := (*saferith.Nat)(r).Uint64()
	verifAssert(id+".quotient_magnitude_bounded", qmag <= c.bound)
	verifAssert(id+".remainder_in_range", rmag < c.dm) // 0 <= r < |d|
	qv := verifSigned(qneg, qmag&(2*c.bound-1))
	verifAssert(id+".n_eq_qd_plus_r", c.nv == qv*c.dv+int32(rmag&(c.bound-1)))
	verifAssertGhost(id+".model_in_domain", verifEscaped == 0)
}

func verifDivVarTime(id string, B, region int) {
	c := verifDivInputs(B, region)
	q, r := new(Int), new(Int)
	ok := q.DivVarTime(r, c.n, c.d)
	verifReach(id + ".reach")
	verifAssert(id+".ok", ok == ct.True)
	qneg, qmag := verifIntParts(q)
	rneg, rmag := verifIntParts(r)
	verifAssert(id+".quotient_magnitude_bounded", qmag < c.bound)
	verifAssert(id+".remainder_magnitude_lt_d", rmag < c.dm)
	// sign of a non-zero remainder = sign of the numerator (truncated division)
	verifAssert(id+".remainder_sign", rmag == 0 || (rneg == 1) == c.sn)
	qv := verifSigned(qneg, qmag&(c.bound-1))
	rv := verifSigned(rneg, rmag&(c.bound-1))
	verifAssert(id+".n_eq_qd_plus_r", c.nv == qv*c.dv+rv)
	verifAssertGhost(id+".model_in_domain", verifEscaped == 0)
}

// ---- EuclideanDivVarTime

// H_numct_eucdivvt: the obligation on the whole domain, B = 8.
func H_numct_eucdivvt() { verifEucDivVarTime("eucdivvt", 8, 0) }

// H_numct_eucdivvt_capnonzero / _capzero: the same split by the value of the capacity expression
// nAnn - truelen(d) + 2 (numct's Resize treats a negative capacity as "keep", zero truncates to 0).
func H_numct_eucdivvt_capnonzero() { verifEucDivVarTime("eucdivvt_capnonzero", 8, 1) }
func H_numct_eucdivvt_capzero()    { verifEucDivVarTime("eucdivvt_capzero", 8, 2) }

// thorough
func H_numct_eucdivvt_B10()            { verifEucDivVarTime("eucdivvt_b10", 10, 0) }
func H_numct_eucdivvt_capnonzero_B10() { verifEucDivVarTime("eucdivvt_capnonzero_b10", 10, 1) }

// ---- DivVarTime

func H_numct_divvt()     { verifDivVarTime("divvt", 8, 0) }
func H_numct_divvt_B10() { verifDivVarTime("divvt_b10", 10, 0) }

// ---- controls

// H_numct_eucdivvt_MUSTFAIL: claims the TRUNCATED remainder for the Euclidean function (wrong for
// a negative numerator that is not divisible).
func H_numct_eucdivvt_MUSTFAIL() {
	c := verifDivInputs(4, 1)
	q, r := new(Int), new(Nat)
	ok := q.EuclideanDivVarTime(r, c.n, c.d)
	verifReach("eucdivvt_mustfail.reach")
	rmag := (*saferith.Nat)(r).Uint64()
	verifAssert("eucdivvt_mustfail.wrong_remainder", ok == ct.True && rmag == c.nm%c.dm)
}

// H_numct_divvt_MUSTFAIL: claims the Euclidean (non-negative) remainder for the truncated function.
func H_numct_divvt_MUSTFAIL() {
	c := verifDivInputs(4, 1)
	q, r := new(Int), new(Int)
	ok := q.DivVarTime(r, c.n, c.d)
	verifReach("divvt_mustfail.reach")
	rneg, rmag := verifIntParts(r)
	verifAssert("divvt_mustfail.wrong_remainder_sign", ok == ct.True && (rmag == 0 || rneg == 0))
}
