//go:build verif_e1

package edwards25519

import (
	"bytes"
	"errors"

	"github.com/bronlabs/bron-crypto/pkg/base/ct"
	"github.com/bronlabs/bron-crypto/pkg/base/curves"
	edwards25519Impl "github.com/bronlabs/bron-crypto/pkg/base/curves/edwards25519/impl"
	"github.com/bronlabs/bron-crypto/pkg/base/serde"
)

// E1 harnesses for the edwards25519 decoders (property C13): curve.go, primecurve.go, cbor.go.
//
// Two group types, five decoding routes each:
//
//	route 0  FromCompressed      32 bytes: little-endian y, bit 255 = parity of x
//	route 1  FromBytes           (= FromCompressed)
//	route 2  FromUncompressed    64 bytes: y || x, both little-endian, bit 255 of each must be clear
//	route 3  FromAffine(x, y)    field elements
//	route 4  UnmarshalCBOR       {"compressedBytes": <route-0 bytes>}
//
// for *Curve / *Point (the full curve group, cofactor 8) and for *PrimeSubGroup / *PrimeSubGroupPoint
// (the subgroup of prime order). For the prime-subgroup type EVERY route has to run the subgroup
// check (*Point).IsTorsionFree on the decoded point and fail when it says no.
//
// Method as in harness/e1/k256dec. Replaced by contracts (they are part of the claim):
//
//	(*edwards25519/impl.Fp).SetBytes     len != 32 or bit 255 set -> 0, receiver untouched (as the real
//	                                     code); else 1 and the receiver becomes SOME element
//	(*edwards25519/impl.Fp).Bytes        32 arbitrary bytes (only the parity bit is used: fields.IsOdd)
//	(*points.TwistedEdwardsPointImpl).SetFromAffineY(y)
//	                                     arbitrary ok (0 when verifEd.forceNo); ok=1: X := some, Y := y,
//	                                     T := some, Z := 1; ok=0: receiver untouched
//	(*…).SetAffine(x, y)                 arbitrary ok (0 when forceNo); ok=1: X := x, Y := y, T := some,
//	                                     Z := 1; ok=0: untouched
//	(*…).ToAffine(xOut, yOut)            ok = [Z != 0] (real IsNonZero on the Z the contracts wrote);
//	                                     ok=1: outputs := some elements; ok=0: untouched
//	(*…).Neg(v)                          X := some, Y := v.Y, Z := v.Z, T := some
//	(*edwards25519.Point).IsTorsionFree  arbitrary answer (false when verifEd.forceTorsionNo)
//	serde.UnmarshalCBOR[*pointDTO]       arbitrary failure, or a DTO whose byte string is the
//	                                     argument itself (the CBOR framing is abstracted to the identity;
//	                                     natively the harness feeds the real encoding of the same DTO)
//	edwards25519.NewCurve / NewPrimeSubGroup
//	                                     a fresh empty instance (the real ones go through sync.Once,
//	                                     which the interpreter does not model; both types are empty structs)
//
// NOT checked here: that SetFromAffineY / SetAffine accept exactly the curve points, that
// IsTorsionFree is right, that x -> -x flips the parity of a non-zero x. Observed while writing
// (native tests, see the report): y >= p (19 values) is accepted and reduced, and x = 0 with the
// sign bit set is accepted (RFC 8032 rejects both), so the identity has the encodings 01 00..00,
// 01 00..80, ee ff..ff 7f, ee ff..ff ff.

type verifEdFpCall struct {
	recv *edwards25519Impl.Fp
	n    int
	data [32]byte
	val  edwards25519Impl.Fp
	ok   ct.Bool
}

type verifEdGhost struct {
	forceNo        bool // the curve-equation contracts answer 0 on this path
	forceTorsionNo bool // the subgroup-check contract answers false on this path

	nElems int

	setBytes  [2]verifEdFpCall
	nSetBytes int

	sfayCalls int
	sfayRecv  *edwards25519Impl.Point
	sfayY     *edwards25519Impl.Fp
	sfayYVal  edwards25519Impl.Fp
	sfayOK    ct.Bool
	sfayOut   edwards25519Impl.Point // the receiver after the call

	saCalls        int
	saRecv         *edwards25519Impl.Point
	saX, saY       *edwards25519Impl.Fp
	saXVal, saYVal edwards25519Impl.Fp
	saOK           ct.Bool
	saOut          edwards25519Impl.Point

	taCalls  int
	taRecv   *edwards25519Impl.Point
	taX, taY *edwards25519Impl.Fp
	taOK     ct.Bool

	bytesCalls  int
	bytesRecv   *edwards25519Impl.Fp
	bytesParity byte

	negCalls int
	negArg   *edwards25519Impl.Point
	negOut   edwards25519Impl.Point

	tfCalls int
	tfVal   edwards25519Impl.Point // the point that was tested
	tfOK    bool

	cborCalls int
	cborOK    bool
	cborLen   int
}

var verifEd verifEdGhost

func verifEdSomeFp(f *edwards25519Impl.Fp) {
	k := uint64(verifEd.nElems)
	verifEd.nElems++
	var c0, c1 edwards25519Impl.Fp
	c0.SetUint64(2*k + 2)
	c1.SetUint64(2*k + 3)
	f.Select(ct.Choice(verifU8()&1), &c0, &c1)
}

func verifEdFpSetBytes(f *edwards25519Impl.Fp, data []byte) ct.Bool {
	k := verifEd.nSetBytes
	verifEd.nSetBytes++
	if k >= len(verifEd.setBytes) {
		panic("harness: more SetBytes calls than a decoder can make")
	}
	c := &verifEd.setBytes[k]
	c.recv, c.n = f, len(data)
	if len(data) != 32 {
		return 0
	}
	copy(c.data[:], data)
	if data[31]&0x80 != 0 {
		return 0
	}
	verifEdSomeFp(f)
	c.val.Set(f)
	c.ok = 1
	return 1
}

func verifEdFpBytes(f *edwards25519Impl.Fp) []byte {
	out := verifBytes(32)
	verifEd.bytesCalls++
	verifEd.bytesRecv = f
	verifEd.bytesParity = out[0] & 1
	return out
}

func verifEdPtSetFromAffineY(p *edwards25519Impl.Point, y *edwards25519Impl.Fp) ct.Bool {
	g := &verifEd
	g.sfayCalls++
	g.sfayRecv, g.sfayY = p, y
	g.sfayYVal.Set(y)
	ok := ct.Bool(verifU8() & 1)
	if g.forceNo {
		ok = 0
	}
	g.sfayOK = ok
	if ok == 1 {
		var yy edwards25519Impl.Fp
		yy.Set(y)
		verifEdSomeFp(&p.X)
		p.Y.Set(&yy)
		verifEdSomeFp(&p.T)
		p.Z.SetOne()
	}
	g.sfayOut = *p
	return ok
}

func verifEdPtSetAffine(p *edwards25519Impl.Point, x, y *edwards25519Impl.Fp) ct.Bool {
	g := &verifEd
	g.saCalls++
	g.saRecv, g.saX, g.saY = p, x, y
	g.saXVal.Set(x)
	g.saYVal.Set(y)
	ok := ct.Bool(verifU8() & 1)
	if g.forceNo {
		ok = 0
	}
	g.saOK = ok
	if ok == 1 {
		var xx, yy edwards25519Impl.Fp
		xx.Set(x)
		yy.Set(y)
		p.X.Set(&xx)
		p.Y.Set(&yy)
		verifEdSomeFp(&p.T)
		p.Z.SetOne()
	}
	g.saOut = *p
	return ok
}

func verifEdPtToAffine(p *edwards25519Impl.Point, xOut, yOut *edwards25519Impl.Fp) ct.Bool {
	g := &verifEd
	g.taCalls++
	g.taRecv, g.taX, g.taY = p, xOut, yOut
	ok := p.Z.IsNonZero()
	g.taOK = ok
	if ok == 1 {
		verifEdSomeFp(xOut)
		verifEdSomeFp(yOut)
	}
	return ok
}

func verifEdPtNeg(p, v *edwards25519Impl.Point) {
	g := &verifEd
	g.negCalls++
	g.negArg = v
	var y, z edwards25519Impl.Fp
	y.Set(&v.Y)
	z.Set(&v.Z)
	verifEdSomeFp(&p.X)
	p.Y.Set(&y)
	p.Z.Set(&z)
	verifEdSomeFp(&p.T)
	g.negOut = *p
}

func verifEdIsTorsionFree(p *Point) bool {
	g := &verifEd
	g.tfCalls++
	g.tfVal = p.V
	ok := verifBool()
	if g.forceTorsionNo {
		ok = false
	}
	g.tfOK = ok
	return ok
}

func verifEdUnmarshalPointDTO(data []byte) (*pointDTO, error) {
	g := &verifEd
	g.cborCalls++
	g.cborLen = len(data)
	if verifBool() {
		g.cborOK = false
		return nil, curves.ErrFailed.WithMessage("harness: cbor says no")
	}
	g.cborOK = true
	return &pointDTO{AffineCompressedBytes: append([]byte{}, data...)}, nil
}

func verifEdNewCurve() *Curve                 { return &Curve{} }
func verifEdNewPrimeSubGroup() *PrimeSubGroup { return &PrimeSubGroup{} }

func verifReplacements() map[string]any {
	const pkg = "github.com/bronlabs/bron-crypto/pkg/base/curves/edwards25519"
	const fp = "(*" + pkg + "/impl.Fp)."
	const pt = "(*github.com/bronlabs/bron-crypto/pkg/base/curves/impl/points.TwistedEdwardsPointImpl)."
	return map[string]any{
		fp + "SetBytes":                      verifEdFpSetBytes,
		fp + "Bytes":                         verifEdFpBytes,
		pt + "SetFromAffineY":                verifEdPtSetFromAffineY,
		pt + "SetAffine":                     verifEdPtSetAffine,
		pt + "ToAffine":                      verifEdPtToAffine,
		pt + "Neg":                           verifEdPtNeg,
		"(*" + pkg + ".Point).IsTorsionFree": verifEdIsTorsionFree,
		"github.com/bronlabs/bron-crypto/pkg/base/serde.UnmarshalCBOR[*" + pkg + ".pointDTO]": verifEdUnmarshalPointDTO,
		pkg + ".NewCurve":         verifEdNewCurve,
		pkg + ".NewPrimeSubGroup": verifEdNewPrimeSubGroup,
	}
}

// ---- helpers

const (
	verifEdCompressed = iota
	verifEdFromBytes
	verifEdUncompressed
	verifEdAffine
	verifEdCBOR
)

// verifEdWire: natively the CBOR route gets the real encoding of the DTO that carries `in`; under
// the interpreter the UnmarshalCBOR contract hands its argument through, so the argument is `in`.
func verifEdWire(in []byte) []byte {
	if verifNative() {
		data, err := serde.MarshalCBOR(&pointDTO{AffineCompressedBytes: in})
		if err != nil {
			panic(err)
		}
		return data
	}
	return in
}

// verifEdDecode runs one route of one type. pv = &result.V (nil when no point was returned).
func verifEdDecode(route int, prime bool, in []byte, x, y *BaseFieldElement) (pv *edwards25519Impl.Point, err error, panicked bool) {
	defer func() {
		if r := recover(); r != nil {
			panicked = true
		}
	}()
	if prime {
		c := &PrimeSubGroup{}
		var p *PrimeSubGroupPoint
		switch route {
		case verifEdCompressed:
			p, err = c.FromCompressed(in)
		case verifEdFromBytes:
			p, err = c.FromBytes(in)
		case verifEdUncompressed:
			p, err = c.FromUncompressed(in)
		case verifEdAffine:
			p, err = c.FromAffine(x, y)
		default:
			var q PrimeSubGroupPoint
			err = q.UnmarshalCBOR(verifEdWire(in))
			if err == nil {
				p = &q
			}
		}
		if p != nil {
			pv = &p.V
		}
		return pv, err, false
	}
	c := &Curve{}
	var p *Point
	switch route {
	case verifEdCompressed:
		p, err = c.FromCompressed(in)
	case verifEdFromBytes:
		p, err = c.FromBytes(in)
	case verifEdUncompressed:
		p, err = c.FromUncompressed(in)
	case verifEdAffine:
		p, err = c.FromAffine(x, y)
	default:
		var q Point
		err = q.UnmarshalCBOR(verifEdWire(in))
		if err == nil {
			p = &q
		}
	}
	if p != nil {
		pv = &p.V
	}
	return pv, err, false
}

func verifEdWireLen() int {
	switch verifLen(0, 6) {
	case 0:
		return 0
	case 1:
		return 31
	case 2:
		return 32
	case 3:
		return 33
	case 4:
		return 63
	case 5:
		return 64
	}
	return 65
}

type verifEdRun struct {
	route    int
	prime    bool
	n        int
	in, copy []byte
	x, y     BaseFieldElement
	pv       *edwards25519Impl.Point
	err      error
}

// verifEdGo draws the input of a route, runs it, and states what holds for every route.
func verifEdGo(route int, prime bool) *verifEdRun {
	r := &verifEdRun{route: route, prime: prime}
	if route == verifEdAffine {
		verifEdSomeFp(&r.x.V)
		verifEdSomeFp(&r.y.V)
	} else {
		r.n = verifEdWireLen()
		r.in = verifBytes(r.n)
		r.copy = append([]byte{}, r.in...)
	}
	verifReach("ed25519dec_run")
	var panicked bool
	r.pv, r.err, panicked = verifEdDecode(route, prime, r.in, &r.x, &r.y)
	g := &verifEd

	verifAssert("ed.no_panic", !panicked)
	verifAssert("ed.input_not_modified", bytes.Equal(r.in, r.copy))
	verifAssert("ed.point_xor_error", (r.pv == nil) != (r.err == nil))
	if r.err == nil && r.pv != nil {
		verifReach("ed25519dec_run_accepted")
		// exactly one curve-equation routine ran, once, and said yes
		verifAssertGhost("ed.accepted_only_after_one_curve_equation_check_said_yes",
			(g.sfayCalls == 1 && g.saCalls == 0 && g.sfayOK == 1) || (g.sfayCalls == 0 && g.saCalls == 1 && g.saOK == 1))
		verifAssert("ed.returned_point_is_affine", r.pv.Z.IsOne() == 1)
	} else {
		verifReach("ed25519dec_run_rejected")
	}
	return r
}

// verifEdPrimeChecks: what the prime-subgroup type adds on every route.
func verifEdPrimeChecks(r *verifEdRun) {
	g := &verifEd
	if r.err == nil && r.pv != nil {
		verifAssertGhost("ed.prime.accepted_only_after_subgroup_check_said_yes", g.tfCalls == 1 && g.tfOK)
		verifAssertGhost("ed.prime.subgroup_check_ran_on_the_returned_point", verifSameValue(g.tfVal, *r.pv))
	} else if errors.Is(r.err, curves.ErrSubGroupMembership) {
		verifReach("ed25519dec_run_rejected_subgroup")
		verifAssertGhost("ed.prime.subgroup_error_only_when_check_said_no", g.tfCalls == 1 && !g.tfOK)
	} else {
		verifAssertGhost("ed.prime.other_errors_before_the_subgroup_check", g.tfCalls == 0)
	}
}

// verifEdCurveChecks: the full-group type never asks for (or reports) subgroup membership.
func verifEdCurveChecks(r *verifEdRun) {
	verifAssertGhost("ed.curve.no_subgroup_check", verifEd.tfCalls == 0)
	verifAssert("ed.curve.never_subgroup_error", r.err == nil || !errors.Is(r.err, curves.ErrSubGroupMembership))
}

// verifEdCBORChecks: the CBOR layer (route 4).
func verifEdCBORChecks(r *verifEdRun) {
	g := &verifEd
	verifAssertGhost("ed.cbor.unmarshal_called_once_on_the_wire_bytes", g.cborCalls == 1 && g.cborLen == r.n)
	if r.err == nil {
		verifAssertGhost("ed.cbor.accepted_only_when_unmarshal_succeeded", g.cborOK)
	} else {
		verifAssertGhost("ed.cbor.failure_of_unmarshal_touches_nothing", g.cborOK || (g.nSetBytes == 0 && g.sfayCalls == 0 && g.tfCalls == 0))
	}
}

// verifEdCompressedFormat: obligations of the 32-byte format (routes 0, 1 and 4).
func verifEdCompressedFormat(r *verifEdRun) {
	g := &verifEd
	if r.n != 32 {
		verifAssert("ed.comp.wrong_length_rejected", r.pv == nil && r.err != nil)
		// on the CBOR route the CBOR layer may fail first (its error is the contract's)
		verifAssertGhost("ed.comp.wrong_length_error_kind", (r.route == verifEdCBOR && !g.cborOK) || errors.Is(r.err, curves.ErrInvalidLength))
		verifAssertGhost("ed.comp.wrong_length_touches_nothing",
			g.nSetBytes == 0 && g.sfayCalls == 0 && g.saCalls == 0 && g.taCalls == 0 && g.bytesCalls == 0 && g.negCalls == 0 && g.tfCalls == 0)
		return
	}
	verifReach("ed25519dec_comp_wellformed")
	sign := r.copy[31] >> 7
	var yb [32]byte
	copy(yb[:], r.copy)
	yb[31] &= 0x7f
	sb := &g.setBytes[0]
	if r.err != nil {
		verifReach("ed25519dec_comp_rejected")
		verifAssertGhost("ed.comp.rejected_only_by_cbor_membership_or_subgroup",
			(r.route == verifEdCBOR && !g.cborOK) ||
				(g.nSetBytes == 1 && sb.ok == 1 && sb.data == yb && g.sfayCalls == 1 && g.saCalls == 0 &&
					((g.sfayOK != 1 && g.tfCalls == 0) || (r.prime && g.sfayOK == 1 && g.tfCalls == 1 && !g.tfOK))))
		return
	}
	if r.pv == nil {
		return
	}
	verifReach("ed25519dec_comp_accepted")
	verifAssertGhost("ed.comp.y_decoded_once_from_input_with_bit255_cleared", g.nSetBytes == 1 && sb.n == 32 && sb.ok == 1 && sb.data == yb)
	verifAssertGhost("ed.comp.membership_test_on_decoded_y", g.sfayCalls == 1 && g.sfayOK == 1 && g.sfayY == sb.recv && verifSameValue(g.sfayYVal, sb.val))
	verifAssertGhost("ed.comp.to_affine_of_the_tested_point", g.taCalls == 1 && g.taRecv == g.sfayRecv && g.taOK == 1)
	verifAssertGhost("ed.comp.parity_read_from_affine_x", g.bytesCalls == 1 && g.bytesRecv == g.taX && g.taX != g.taY)
	verifAssertGhost("ed.comp.negated_exactly_when_parity_differs",
		(g.bytesParity != sign && g.negCalls == 1 && g.negArg == g.sfayRecv) || (g.bytesParity == sign && g.negCalls == 0))
	verifAssertGhost("ed.comp.returned_point_is_the_tested_one_or_its_negation",
		(g.negCalls == 0 && verifSameValue(*r.pv, g.sfayOut)) || (g.negCalls == 1 && verifSameValue(*r.pv, g.negOut)))
	verifAssertGhost("ed.comp.returned_y_is_decoded_y", verifSameValue(r.pv.Y, sb.val))
	verifAssertGhost("ed.comp.returned_x_parity_is_sign_bit", (g.bytesParity^byte(g.negCalls&1)) == sign)
}

// verifEdUncompressedFormat: obligations of the 64-byte format (route 2).
func verifEdUncompressedFormat(r *verifEdRun) {
	g := &verifEd
	if r.n != 64 {
		verifAssert("ed.unc.wrong_length_rejected", r.pv == nil && r.err != nil && errors.Is(r.err, curves.ErrInvalidLength))
		verifAssertGhost("ed.unc.wrong_length_touches_nothing", g.nSetBytes == 0 && g.sfayCalls == 0 && g.saCalls == 0 && g.tfCalls == 0)
		return
	}
	verifReach("ed25519dec_unc_wellformed")
	var xb, yb [32]byte
	copy(yb[:], r.copy[:32])
	copy(xb[:], r.copy[32:])
	if (xb[31]|yb[31])&0x80 != 0 {
		verifReach("ed25519dec_unc_bit255")
		verifAssert("ed.unc.coordinate_with_bit255_rejected", r.pv == nil && r.err != nil && errors.Is(r.err, curves.ErrInvalidCoordinates))
		verifAssertGhost("ed.unc.coordinate_with_bit255_never_tested", g.saCalls == 0 && g.sfayCalls == 0 && g.tfCalls == 0)
		return
	}
	sx, sy := &g.setBytes[0], &g.setBytes[1]
	verifAssertGhost("ed.unc.x_from_bytes_32_to_64_then_y_from_bytes_0_to_32",
		g.nSetBytes == 2 && sx.ok == 1 && sy.ok == 1 && sx.recv != sy.recv && sx.data == xb && sy.data == yb)
	verifAssertGhost("ed.unc.never_uses_compressed_route", g.sfayCalls == 0 && g.taCalls == 0 && g.bytesCalls == 0 && g.negCalls == 0)
	verifAssertGhost("ed.unc.membership_test_on_decoded_x_y",
		g.saCalls == 1 && g.saX == sx.recv && g.saY == sy.recv && verifSameValue(g.saXVal, sx.val) && verifSameValue(g.saYVal, sy.val))
	if r.err != nil {
		verifReach("ed25519dec_unc_rejected")
		verifAssertGhost("ed.unc.rejected_only_by_membership_or_subgroup",
			(g.saOK != 1 && g.tfCalls == 0) || (r.prime && g.saOK == 1 && g.tfCalls == 1 && !g.tfOK))
		verifAssert("ed.unc.rejected_as_invalid_coordinates_or_subgroup",
			errors.Is(r.err, curves.ErrInvalidCoordinates) || (r.prime && errors.Is(r.err, curves.ErrSubGroupMembership)))
		return
	}
	if r.pv == nil {
		return
	}
	verifReach("ed25519dec_unc_accepted")
	verifAssertGhost("ed.unc.returned_point_is_the_tested_one", g.saOK == 1 && verifSameValue(*r.pv, g.saOut))
	verifAssertGhost("ed.unc.returned_coordinates_are_the_decoded_ones", verifSameValue(r.pv.X, sx.val) && verifSameValue(r.pv.Y, sy.val))
}

// verifEdAffineFormat: obligations of FromAffine (route 3).
func verifEdAffineFormat(r *verifEdRun) {
	g := &verifEd
	verifAssertGhost("ed.aff.membership_test_on_the_arguments",
		g.saCalls == 1 && g.sfayCalls == 0 && g.nSetBytes == 0 && g.saX == &r.x.V && g.saY == &r.y.V &&
			verifSameValue(g.saXVal, r.x.V) && verifSameValue(g.saYVal, r.y.V))
	if r.err != nil {
		verifReach("ed25519dec_aff_rejected")
		verifAssertGhost("ed.aff.rejected_only_by_membership_or_subgroup",
			(g.saOK != 1 && g.tfCalls == 0) || (r.prime && g.saOK == 1 && g.tfCalls == 1 && !g.tfOK))
		return
	}
	if r.pv == nil {
		return
	}
	verifReach("ed25519dec_aff_accepted")
	verifAssertGhost("ed.aff.returned_point_is_the_tested_one", g.saOK == 1 && verifSameValue(*r.pv, g.saOut))
	verifAssert("ed.aff.returned_coordinates_are_the_arguments", verifSameValue(r.pv.X, r.x.V) && verifSameValue(r.pv.Y, r.y.V))
}

// ---- the full curve group

func H_ed25519dec_curve_compressed() {
	r := verifEdGo(verifEdCompressed, false)
	verifEdCurveChecks(r)
	verifEdCompressedFormat(r)
}

func H_ed25519dec_curve_frombytes() {
	r := verifEdGo(verifEdFromBytes, false)
	verifEdCurveChecks(r)
	verifEdCompressedFormat(r)
}

func H_ed25519dec_curve_cbor() {
	r := verifEdGo(verifEdCBOR, false)
	verifEdCurveChecks(r)
	verifEdCBORChecks(r)
	verifEdCompressedFormat(r)
}

func H_ed25519dec_curve_uncompressed() {
	r := verifEdGo(verifEdUncompressed, false)
	verifEdCurveChecks(r)
	verifEdUncompressedFormat(r)
}

func H_ed25519dec_curve_affine() {
	r := verifEdGo(verifEdAffine, false)
	verifEdCurveChecks(r)
	verifEdAffineFormat(r)
}

// ---- the prime-order subgroup

func H_ed25519dec_prime_compressed() {
	r := verifEdGo(verifEdCompressed, true)
	verifEdPrimeChecks(r)
	verifEdCompressedFormat(r)
}

func H_ed25519dec_prime_frombytes() {
	r := verifEdGo(verifEdFromBytes, true)
	verifEdPrimeChecks(r)
	verifEdCompressedFormat(r)
}

func H_ed25519dec_prime_cbor() {
	r := verifEdGo(verifEdCBOR, true)
	verifEdPrimeChecks(r)
	verifEdCBORChecks(r)
	verifEdCompressedFormat(r)
}

func H_ed25519dec_prime_uncompressed() {
	r := verifEdGo(verifEdUncompressed, true)
	verifEdPrimeChecks(r)
	verifEdUncompressedFormat(r)
}

func H_ed25519dec_prime_affine() {
	r := verifEdGo(verifEdAffine, true)
	verifEdPrimeChecks(r)
	verifEdAffineFormat(r)
}

// ---- result-level (native) forms of "no acceptance without the checks"

// verifEdSmallOrder: encodings of points of order 2, 4, 4, 8, 8 (all on the curve, none in the
// prime-order subgroup). comp = 32-byte form; unc = y || x.
func verifEdSmallOrder(k int) (comp, unc []byte) {
	yM1 := []byte{0xec, 0xff, 0xff, 0xff, 0xff, 0xff, 0xff, 0xff, 0xff, 0xff, 0xff, 0xff, 0xff, 0xff, 0xff, 0xff,
		0xff, 0xff, 0xff, 0xff, 0xff, 0xff, 0xff, 0xff, 0xff, 0xff, 0xff, 0xff, 0xff, 0xff, 0xff, 0x7f} // (0, -1), order 2
	zero := make([]byte, 32)
	sqrtM1 := []byte{0xb0, 0xa0, 0x0e, 0x4a, 0x27, 0x1b, 0xee, 0xc4, 0x78, 0xe4, 0x2f, 0xad, 0x06, 0x18, 0x43, 0x2f,
		0xa7, 0xd7, 0xfb, 0x3d, 0x99, 0x00, 0x4d, 0x2b, 0x0b, 0xdf, 0xc1, 0x4f, 0x80, 0x24, 0x83, 0x2b} // even root of -1
	sqrtM1Neg := []byte{0x3d, 0x5f, 0xf1, 0xb5, 0xd8, 0xe4, 0x11, 0x3b, 0x87, 0x1b, 0xd0, 0x52, 0xf9, 0xe7, 0xbc, 0xd0,
		0x58, 0x28, 0x04, 0xc2, 0x66, 0xff, 0xb2, 0xd4, 0xf4, 0x20, 0x3e, 0xb0, 0x7f, 0xdb, 0x7c, 0x54} // odd root of -1
	o8a := []byte{0x26, 0xe8, 0x95, 0x8f, 0xc2, 0xb2, 0x27, 0xb0, 0x45, 0xc3, 0xf4, 0x89, 0xf2, 0xef, 0x98, 0xf0,
		0xd5, 0xdf, 0xac, 0x05, 0xd3, 0xc6, 0x33, 0x39, 0xb1, 0x38, 0x02, 0x88, 0x6d, 0x53, 0xfc, 0x05} // order 8
	o8b := []byte{0xc7, 0x17, 0x6a, 0x70, 0x3d, 0x4d, 0xd8, 0x4f, 0xba, 0x3c, 0x0b, 0x76, 0x0d, 0x10, 0x67, 0x0f,
		0x2a, 0x20, 0x53, 0xfa, 0x2c, 0x39, 0xcc, 0xc6, 0x4e, 0xc7, 0xfd, 0x77, 0x92, 0xac, 0x03, 0x7a} // order 8
	switch k {
	case 0:
		return yM1, append(append([]byte{}, yM1...), zero...)
	case 1:
		return zero, append(append([]byte{}, zero...), sqrtM1...) // (sqrt(-1), 0), order 4
	case 2:
		c := append([]byte{}, zero...)
		c[31] = 0x80
		return c, append(append([]byte{}, zero...), sqrtM1Neg...) // (-sqrt(-1), 0), order 4
	case 3:
		return o8a, nil
	}
	return o8b, nil
}

// H_ed25519dec_prime_subgroup_check_no: the subgroup-check contract answers "no" on the whole
// path, so every route of the prime-subgroup type has to fail. The inputs are encodings of real
// small-order points, so that an acceptance (a route that forgot the check) is accepted natively
// as well and the counterexample is confirmed by the native twin.
func H_ed25519dec_prime_subgroup_check_no() {
	route := verifLen(0, 4)
	k := verifLen(0, 4)
	comp, unc := verifEdSmallOrder(k)
	verifEd.forceTorsionNo = true
	var in []byte
	var x, y BaseFieldElement
	switch route {
	case verifEdUncompressed:
		if unc == nil {
			return
		}
		in = unc
	case verifEdAffine:
		if unc == nil {
			return
		}
		okx := x.V.SetBytes(unc[32:])
		oky := y.V.SetBytes(unc[:32])
		verifAssert("ed.prime.no.small_order_coordinates_are_field_elements", okx == 1 && oky == 1)
	default:
		in = comp
	}
	verifReach("ed25519dec_prime_no")
	_, err, panicked := verifEdDecode(route, true, in, &x, &y)
	verifAssert("ed.prime.no.no_panic", !panicked)
	verifAssert("ed.prime.no.small_order_point_rejected_on_every_route", err != nil)
}

// H_ed25519dec_prime_subgroup_check_no_anybytes: the same on arbitrary bytes. A counterexample
// here needs the curve-equation contract to say yes for the bytes the solver picked, which the
// real code will hardly do, so the obligation is a ghost obligation (inconclusive when refuted).
func H_ed25519dec_prime_subgroup_check_no_anybytes() {
	route := verifLen(0, 4)
	var in []byte
	var x, y BaseFieldElement
	if route == verifEdAffine {
		verifEdSomeFp(&x.V)
		verifEdSomeFp(&y.V)
	} else {
		in = verifBytes(verifEdWireLen())
	}
	verifEd.forceTorsionNo = true
	verifReach("ed25519dec_prime_no_any")
	pv, err, panicked := verifEdDecode(route, true, in, &x, &y)
	verifAssert("ed.prime.noany.no_panic", !panicked)
	verifAssertGhost("ed.prime.noany.nothing_accepted_when_subgroup_check_says_no", err != nil && pv == nil)
}

// H_ed25519dec_membership_no: the curve-equation contracts answer "no": nothing is accepted on
// any route of either type (edwards25519 has no identity shortcut: 01 00..00 goes through
// SetFromAffineY like every other string).
func H_ed25519dec_membership_no() {
	prime := verifBool()
	route := verifLen(0, 4)
	var in []byte
	var x, y BaseFieldElement
	if route == verifEdAffine {
		verifEdSomeFp(&x.V)
		verifEdSomeFp(&y.V)
	} else {
		in = verifBytes(verifEdWireLen())
	}
	verifEd.forceNo = true
	verifReach("ed25519dec_membership_no")
	pv, err, panicked := verifEdDecode(route, prime, in, &x, &y)
	verifAssert("ed.no.no_panic", !panicked)
	verifAssertGhost("ed.no.nothing_accepted_when_curve_equation_says_no", err != nil && pv == nil)
}

// ---- controls

// H_ed25519dec_uncompressed_MUSTFAIL: wrong twin (claims FromUncompressed rejects 01 00..00 || 00..00,
// which is the identity y = 1, x = 0). The input is concrete so that the counterexample (the
// membership contract says yes) is what the real code does as well.
func H_ed25519dec_uncompressed_MUSTFAIL() {
	in := make([]byte, 64)
	in[0] = 1
	verifReach("ed25519dec_unc_mustfail")
	_, err, _ := verifEdDecode(verifEdUncompressed, false, in, nil, nil)
	verifAssert("ed.unc.wrong_identity_rejected", err != nil)
}

// H_ed25519dec_prime_MUSTFAIL: wrong twin (claims the prime-subgroup type rejects the identity).
func H_ed25519dec_prime_MUSTFAIL() {
	in := make([]byte, 32)
	in[0] = 1
	in[31] = verifU8() & 0x80
	verifReach("ed25519dec_prime_mustfail")
	_, err, _ := verifEdDecode(verifEdCompressed, true, in, nil, nil)
	verifAssert("ed.prime.wrong_identity_rejected", err != nil)
}

// H_ed25519dec_cbor_MUSTFAIL: wrong twin (claims the CBOR route accepts a byte string of length 33).
func H_ed25519dec_cbor_MUSTFAIL() {
	in := make([]byte, 33)
	in[0] = 1
	in[32] = verifU8()
	verifReach("ed25519dec_cbor_mustfail")
	_, err, _ := verifEdDecode(verifEdCBOR, false, in, nil, nil)
	verifAssert("ed.cbor.wrong_identity_padded_to_33_bytes_accepted", err == nil)
}
