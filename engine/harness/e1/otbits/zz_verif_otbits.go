//go:build verif_e1

package ot

import "errors"

// E1 harnesses for pkg/ot/bits.go.

func verifPanics(f func()) (p bool) {
	defer func() {
		if recover() != nil {
			p = true
		}
	}()
	f()
	return false
}

// H_ot_transpose64: out[i] bit j == in[j] bit i for all 4096 bits.
func H_ot_transpose64() {
	in := verifU64s(64)
	blk := append([]uint64{}, in...)
	transpose64(blk)
	verifReach("ot_transpose64")
	var bad uint64
	for i := 0; i < 64; i++ {
		for j := 0; j < 64; j++ {
			bad |= ((blk[i] >> uint(j)) ^ (in[j] >> uint(i))) & 1
		}
	}
	verifAssert("transpose64.bits", bad == 0)
}

// H_ot_transpose64_MUSTFAIL: wrong twin (claims transpose64 is the identity on row 1).
func H_ot_transpose64_MUSTFAIL() {
	in := verifU64s(64)
	blk := append([]uint64{}, in...)
	transpose64(blk)
	verifReach("ot_transpose64_mustfail")
	verifAssert("transpose64.wrong", blk[1] == in[1])
}

func verifMatrix(rows, cols int) [][]byte {
	m := make([][]byte, rows)
	for i := range m {
		m[i] = verifBytes(cols)
	}
	return m
}

func verifCloneMatrix(m [][]byte) [][]byte {
	c := make([][]byte, len(m))
	for i := range m {
		c[i] = append([]byte{}, m[i]...)
	}
	return c
}

// H_ot_transpose_fast_slow: on a fully symbolic 64x8-byte matrix TransposePackedBits takes the
// fast path (rows%64==0, every row length %8==0); it must equal the slow path, leave the input
// untouched, and transposing twice must give the input back.
func H_ot_transpose_fast_slow() {
	m := verifMatrix(64, 8)
	m0 := verifCloneMatrix(m)
	fast, errF := TransposePackedBits(m)
	direct, errD := transposePackedBitsFast(m)
	slow, errS := transposePackedBitsSlow(m)
	verifReach("ot_transpose_fast_slow")
	verifAssert("TransposePackedBits.noerr", errF == nil && errS == nil && errD == nil)
	verifAssert("TransposePackedBits.shape", len(fast) == 64 && len(slow) == 64 && len(direct) == 64)
	var bad, badD, badIn byte
	for i := range fast {
		verifAssert("TransposePackedBits.rowlen", len(fast[i]) == 8 && len(slow[i]) == 8 && len(direct[i]) == 8)
		for j := range fast[i] {
			bad |= fast[i][j] ^ slow[i][j]
			badD |= fast[i][j] ^ direct[i][j]
			badIn |= m[i][j] ^ m0[i][j]
		}
	}
	verifAssert("TransposePackedBits.fast_eq_slow", bad == 0)
	verifAssert("TransposePackedBits.dispatch_is_fast", badD == 0)
	verifAssert("TransposePackedBits.input_untouched", badIn == 0)

	back, errB := TransposePackedBits(fast)
	verifAssert("TransposePackedBits.involution.noerr", errB == nil && len(back) == 64)
	var bad2 byte
	for i := range back {
		verifAssert("TransposePackedBits.involution.rowlen", len(back[i]) == 8)
		for j := range back[i] {
			bad2 |= back[i][j] ^ m0[i][j]
		}
	}
	verifAssert("TransposePackedBits.involution", bad2 == 0)
}

// H_ot_transpose_fast_slow_MUSTFAIL: wrong twin (claims the transpose equals the input).
func H_ot_transpose_fast_slow_MUSTFAIL() {
	m := verifMatrix(64, 8)
	fast, _ := TransposePackedBits(m)
	verifReach("ot_transpose_fast_slow_mustfail")
	verifAssert("TransposePackedBits.wrong", fast[3][2] == m[3][2])
}

// H_ot_transpose_slow_spec: slow path against the bit-level definition out[c][r] = in[r][c] on
// small symbolic matrices (rows in {8,16}, 1..3 byte columns), dispatched through
// TransposePackedBits (rows%64 != 0 selects the slow path).
func H_ot_transpose_slow_spec() {
	rows := 8 * verifLen(1, 2)
	cols := verifLen(1, 3)
	m := verifMatrix(rows, cols)
	out, err := TransposePackedBits(m)
	verifReach("ot_transpose_slow_spec")
	verifAssert("transposeSlow.noerr", err == nil)
	verifAssert("transposeSlow.rows", len(out) == cols*8)
	var bad byte
	for c := 0; c < cols*8; c++ {
		verifAssert("transposeSlow.rowlen", len(out[c]) == rows/8)
		for r := 0; r < rows; r++ {
			inBit := (m[r][c/8] >> uint(c%8)) & 1
			outBit := (out[c][r/8] >> uint(r%8)) & 1
			bad |= inBit ^ outBit
		}
	}
	verifAssert("transposeSlow.bits", bad == 0)
}

// H_ot_transpose_shapes: documented shape errors (concrete shapes, symbolic contents).
func H_ot_transpose_shapes() {
	verifReach("ot_transpose_shapes")
	// rows not divisible by 8
	_, err := TransposePackedBits(verifMatrix(7, 1))
	verifAssert("shape.rows7", err != nil && errors.Is(err, ErrInvalidArgument))
	// no rows
	_, err = TransposePackedBits(verifMatrix(0, 0))
	verifAssert("shape.rows0", err != nil && errors.Is(err, ErrInvalidArgument))
	// ragged
	rag := verifMatrix(8, 2)
	rag[5] = verifBytes(1)
	_, err = TransposePackedBits(rag)
	verifAssert("shape.ragged", err != nil && errors.Is(err, ErrInvalidArgument))
	// 64 rows, ragged with lengths that are all multiples of 8 (fast path's own check)
	rag64 := verifMatrix(64, 8)
	rag64[63] = verifBytes(16)
	_, err = TransposePackedBits(rag64)
	verifAssert("shape.ragged64", err != nil && errors.Is(err, ErrInvalidArgument))
	// 64 rows of 3 bytes: falls back to the slow path and succeeds
	out, err := TransposePackedBits(verifMatrix(64, 3))
	verifAssert("shape.64x3", err == nil && len(out) == 24 && len(out[0]) == 8)
	// 64 rows of 0 bytes: fast path rejects an empty column set
	_, err = TransposePackedBits(verifMatrix(64, 0))
	verifAssert("shape.64x0", err != nil && errors.Is(err, ErrInvalidArgument))
}

// ---- PackedBits, lengths up to 16 bits ----

// le16 reads up to two bytes as a little-endian integer.
func le16(pb PackedBits) uint64 {
	var v uint64
	for i := range pb {
		v |= uint64(pb[i]) << (8 * uint(i))
	}
	return v
}

// H_ot_pack: Pack against the bit-level definition, lengths 0..16.
func H_ot_pack() {
	n := verifLen(0, 16)
	in := verifBytes(n)
	out, err := Pack(in)
	verifReach("ot_pack")
	var nonBinary uint64
	for i := range in {
		nonBinary += verifB2U(in[i] > 1)
	}
	verifAssert("Pack.err_iff_nonbinary", (err != nil) == (nonBinary != 0))
	if err != nil {
		verifAssert("Pack.err.kind", errors.Is(err, ErrInvalidArgument) && out == nil)
		return
	}
	verifAssert("Pack.len", len(out) == (n+7)/8)
	var want uint64
	for i := range in {
		want |= uint64(in[i]&1) << uint(i)
	}
	verifAssert("Pack.bits", le16(out) == want)
}

// H_ot_pack_MUSTFAIL: wrong twin (claims big-endian bit order inside a byte).
func H_ot_pack_MUSTFAIL() {
	in := verifBytes(8)
	for i := range in {
		verifAssume(in[i] <= 1)
	}
	out, err := Pack(in)
	verifReach("ot_pack_mustfail")
	verifAssert("Pack.wrong", err == nil && (out[0]>>7)&1 == in[0])
}

// H_ot_bits_rw: Unpack, Get, Set, Clear, Swap, BitLen on 0..2 bytes with symbolic in-range
// indices; out-of-range indices panic.
func H_ot_bits_rw() {
	nb := verifLen(0, 2)
	pb := PackedBits(verifBytes(nb))
	v := le16(pb)
	nbits := uint(nb * 8)
	verifReach("ot_bits_rw")
	verifAssert("BitLen", pb.BitLen() == nb*8)

	un := pb.Unpack()
	verifAssert("Unpack.len", len(un) == nb*8)
	var bad uint64
	for i := range un {
		bad += verifB2U(uint64(un[i]) != (v>>uint(i))&1)
	}
	verifAssert("Unpack.bits", bad == 0)
	verifAssert("Unpack.input_untouched", le16(pb) == v)

	i, j := verifUint(), verifUint()
	if nb == 0 {
		verifAssert("Get.empty.panics", verifPanics(func() { pb.Get(i) }))
		return
	}
	// out-of-range index panics (index into the byte slice is i/8)
	if i/8 >= uint(nb) {
		verifAssert("Get.oob.panics", verifPanics(func() { pb.Get(i) }))
		verifAssert("Set.oob.panics", verifPanics(func() { pb.Set(i) }))
		verifAssert("Clear.oob.panics", verifPanics(func() { pb.Clear(i) }))
		return
	}
	verifAssume(j < nbits)
	verifReach("ot_bits_rw.inrange")
	verifAssert("Get", uint64(pb.Get(i)) == (v>>i)&1)

	s := append(PackedBits{}, pb...)
	s.Set(i)
	verifAssert("Set", le16(s) == v|(1<<i))

	c := append(PackedBits{}, pb...)
	c.Clear(i)
	verifAssert("Clear", le16(c) == v&^(1<<i))

	w := append(PackedBits{}, pb...)
	w.Swap(i, j)
	wv := le16(w)
	verifAssert("Swap.i", (wv>>i)&1 == (v>>j)&1)
	verifAssert("Swap.j", (wv>>j)&1 == (v>>i)&1)
	verifAssert("Swap.others", wv&^(1<<i|1<<j) == v&^(1<<i|1<<j))
}

// H_ot_bits_rw_MUSTFAIL: wrong twin (claims Clear leaves the vector unchanged).
func H_ot_bits_rw_MUSTFAIL() {
	pb := PackedBits(verifBytes(2))
	v := le16(pb)
	i := verifUint()
	verifAssume(i < 16)
	verifReach("ot_bits_rw_mustfail")
	pb.Clear(i)
	verifAssert("Clear.wrong", le16(pb) == v)
}

// H_ot_repeat: Repeat(r) output bit i*r+k == input bit i, for 0..2 bytes and r in 0..4.
func H_ot_repeat() {
	nb := verifLen(0, 2)
	r := verifLen(0, 4)
	pb := PackedBits(verifBytes(nb))
	v := le16(pb)
	out := pb.Repeat(r)
	verifReach("ot_repeat")
	verifAssert("Repeat.len", len(out) == nb*r)
	var bad uint64
	for i := 0; i < nb*8; i++ {
		for k := 0; k < r; k++ {
			pos := i*r + k
			bad += verifB2U(uint64((out[pos/8]>>uint(pos%8))&1) != (v>>uint(i))&1)
		}
	}
	verifAssert("Repeat.bits", bad == 0)
	verifAssert("Repeat.input_untouched", le16(pb) == v)
}

// H_ot_repeat_MUSTFAIL: wrong twin (claims Repeat(2) is concatenation v||v).
func H_ot_repeat_MUSTFAIL() {
	pb := PackedBits(verifBytes(1))
	out := pb.Repeat(2)
	verifReach("ot_repeat_mustfail")
	verifAssert("Repeat.wrong", out[0] == pb[0] && out[1] == pb[0])
}

// H_ot_parse: Parse on fully symbolic ASCII strings of length 0..4: error iff empty or some
// character is not '0'/'1'; otherwise bit i == (s[i]=='1'), length (n+7)/8.
// (Bytes >= 0x80 are outside the encoding: the engine decodes only ASCII in range-over-string.)
func H_ot_parse() {
	n := verifLen(0, 4)
	raw := verifBytes(n)
	var badChars uint64
	for i := range raw {
		verifAssume(raw[i] < 0x80)
		badChars += verifB2U(raw[i] != '0' && raw[i] != '1')
	}
	out, err := Parse(string(raw))
	verifReach("ot_parse")
	verifAssert("Parse.err_iff", (err != nil) == (n == 0 || badChars != 0))
	if err != nil {
		verifAssert("Parse.err.kind", errors.Is(err, ErrInvalidArgument) && out == nil)
		return
	}
	verifAssert("Parse.len", len(out) == (n+7)/8)
	var want uint64
	for i := range raw {
		want |= verifB2U(raw[i] == '1') << uint(i)
	}
	verifAssert("Parse.bits", le16(out) == want)
}

// H_ot_parse_long: Parse on 9- and 16-character strings with two symbolic positions.
func H_ot_parse_long() {
	n := 9 + 7*verifLen(0, 1)
	raw := []byte("0110100111010110")[:n]
	p, q := 3, n-1
	raw[p], raw[q] = verifU8(), verifU8()
	verifAssume(raw[p] < 0x80 && raw[q] < 0x80)
	okP := raw[p] == '0' || raw[p] == '1'
	okQ := raw[q] == '0' || raw[q] == '1'
	out, err := Parse(string(raw))
	verifReach("ot_parse_long")
	verifAssert("ParseLong.err_iff", (err != nil) == (!okP || !okQ))
	if err != nil {
		return
	}
	verifAssert("ParseLong.len", len(out) == (n+7)/8)
	var want uint64
	for i := range raw {
		want |= verifB2U(raw[i] == '1') << uint(i)
	}
	verifAssert("ParseLong.bits", le16(out) == want)
}

// H_ot_parse_MUSTFAIL: wrong twin (claims '1' characters are ignored).
func H_ot_parse_MUSTFAIL() {
	raw := verifBytes(3)
	for i := range raw {
		verifAssume(raw[i] == '0' || raw[i] == '1')
	}
	out, err := Parse(string(raw))
	verifReach("ot_parse_mustfail")
	verifAssert("Parse.wrong", err == nil && out[0] == 0)
}
