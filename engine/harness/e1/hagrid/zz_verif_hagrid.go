//go:build verif_e1

package hagrid

import (
	"bytes"
	"crypto/sha3"
	"encoding/binary"

	"github.com/bronlabs/bron-crypto/pkg/transcripts"
)

// E1 harnesses for pkg/transcripts/hagrid (property C19): the transcript is a cSHAKE256 whose
// absorbed byte stream ("log") is what the harnesses reason about. verifHashLog(t) is
//   be64(0) || be64(len S) || S || absorbed bytes,   S = customizedShakeName + name
// (engine convention for cSHAKE customisation; N is empty).

// Tags (hagrid.go): domainTag 0xa1, appendTag 0xa2, extractTag 0xa3, extractedTag 0xa4,
// continuedTag 0xa5. Extraction lengths are case-split over {1,2,32,257}: make([]byte, outLen)
// needs a concrete length; the set exercises the two low bytes of be64(outLen).

func verifExtractLen() uint {
	switch verifLen(0, 3) {
	case 0:
		return 1
	case 1:
		return 2
	case 2:
		return 32
	}
	return 257
}

// verifOp is one transcript operation with symbolic contents and case-split shape.
type verifOp struct {
	kind  int // 0 AppendDomainSeparator, 1 AppendBytes, 2 ExtractBytes
	label []byte
	msgs  [][]byte
	n     uint
}

func verifMkOp(maxMsgs int) verifOp {
	var o verifOp
	o.kind = verifLen(0, 2)
	o.label = verifBytes(verifLen(0, 3))
	switch o.kind {
	case 1:
		k := verifLen(0, maxMsgs)
		for i := 0; i < k; i++ {
			o.msgs = append(o.msgs, verifBytes(verifLen(0, 3)))
		}
	case 2:
		o.n = verifExtractLen()
	}
	return o
}

// verifMkSmallOp: the shapes used where several operations are composed (kinds x label length
// 0..1 x at most one message of length 0..1 x outLen 2): 10 shapes, contents symbolic.
func verifMkSmallOp() verifOp {
	var o verifOp
	o.kind = verifLen(0, 2)
	o.label = verifBytes(verifLen(0, 1))
	switch o.kind {
	case 1:
		if verifLen(0, 1) == 1 {
			o.msgs = append(o.msgs, verifBytes(verifLen(0, 1)))
		}
	case 2:
		o.n = 2
	}
	return o
}

func (o verifOp) apply(t transcripts.Transcript) ([]byte, error) {
	switch o.kind {
	case 0:
		t.AppendDomainSeparator(string(o.label))
	case 1:
		t.AppendBytes(string(o.label), o.msgs...)
	default:
		return t.ExtractBytes(string(o.label), o.n)
	}
	return nil, nil
}

// verifSameOp: same kind, equal label, equal message count, equal messages, equal n.
// Shape comparisons are concrete; contents are compared without branching.
func verifSameOp(a, b verifOp) bool {
	if a.kind != b.kind || len(a.label) != len(b.label) || len(a.msgs) != len(b.msgs) || a.n != b.n {
		return false
	}
	d := verifB2U(!bytes.Equal(a.label, b.label))
	for i := range a.msgs {
		if len(a.msgs[i]) != len(b.msgs[i]) {
			return false
		}
		d += verifB2U(!bytes.Equal(a.msgs[i], b.msgs[i]))
	}
	return d == 0
}

func verifIsPrefix(p, l []byte) bool {
	return len(p) <= len(l) && bytes.Equal(p, l[:len(p)])
}

func be64(n uint64) []byte { return binary.BigEndian.AppendUint64(nil, n) }

// verifFrame is the byte framing of an operation written independently of the implementation
// (ExtractBytes: the part absorbed before the fork).
func verifFrame(o verifOp) []byte {
	var f []byte
	switch o.kind {
	case 0:
		f = append(f, 0xa1) // domainTag (the const block starts with the name, so iota is 1 here)
		f = append(f, be64(uint64(len(o.label)))...)
		f = append(f, o.label...)
	case 1:
		f = append(f, 0xa2) // appendTag
		f = append(f, be64(uint64(len(o.label)))...)
		f = append(f, o.label...)
		f = append(f, be64(uint64(len(o.msgs)))...)
		for _, m := range o.msgs {
			f = append(f, be64(uint64(len(m)))...)
			f = append(f, m...)
		}
	default:
		f = append(f, 0xa3) // extractTag
		f = append(f, be64(uint64(len(o.label)))...)
		f = append(f, o.label...)
		f = append(f, be64(uint64(o.n))...)
	}
	return f
}

// H_hagrid_framing (C19, 2a): for two single operations on transcripts with the same name, if
// the log of one is a prefix of the log of the other then they are the same operation. All
// shapes: kinds x label length 0..3 x (AppendBytes: 0..2 messages of length 0..3) x
// (ExtractBytes: outLen in {1,2,32,257}); all contents symbolic. Ordered pairs, so both
// directions of "prefix" are covered.
func H_hagrid_framing() {
	o1, o2 := verifMkOp(2), verifMkOp(2)
	t1, t2 := NewTranscript("n"), NewTranscript("n")
	base := len(verifHashLog(t1))
	_, e1 := o1.apply(t1)
	_, e2 := o2.apply(t2)
	l1, l2 := verifHashLog(t1), verifHashLog(t2)
	verifReach("hagrid_framing")
	verifAssert("framing.noerr", e1 == nil && e2 == nil)
	verifAssert("framing.grows", len(l1) > base && len(l2) > base)
	verifAssert("framing.prefix_implies_same_op", verifB2U(verifIsPrefix(l1, l2)) <= verifB2U(verifSameOp(o1, o2)))
	verifAssert("framing.same_op_implies_equal_log", verifB2U(verifSameOp(o1, o2)) <= verifB2U(bytes.Equal(l1, l2)))
}

// H_hagrid_layout: the absorbed bytes of each operation are exactly the documented framing
// (tag, big-endian 64-bit lengths, contents; ExtractBytes ends the live log with continuedTag).
func H_hagrid_layout() {
	o := verifMkOp(2)
	t := NewTranscript("n")
	l0 := verifHashLog(t)
	_, err := o.apply(t)
	l := verifHashLog(t)
	verifReach("hagrid_layout")
	want := append(append([]byte{}, l0...), verifFrame(o)...)
	if o.kind == 2 {
		want = append(want, 0xa5) // continuedTag
	}
	verifAssert("layout.noerr", err == nil)
	verifAssert("layout.bytes", bytes.Equal(l, want))
	// customisation prefix: be64(0) || be64(len S) || S
	s := []byte(customizedShakeName + "n")
	pre := append(append(be64(0), be64(uint64(len(s)))...), s...)
	verifAssert("layout.customisation", bytes.Equal(l0, pre))
}

// H_hagrid_split: the same content bytes split differently across label and messages give logs
// none of which is a prefix of another: AppendBytes("ab","c"), ("a","bc"), ("a","b","c"),
// ("abc"), ("", "abc"), ("abc", "").
func H_hagrid_split() {
	x := verifBytes(3)
	a, b, c := x[0:1], x[1:2], x[2:3]
	ab, bc := x[0:2], x[1:3]
	ops := []verifOp{
		{kind: 1, label: ab, msgs: [][]byte{c}},
		{kind: 1, label: a, msgs: [][]byte{bc}},
		{kind: 1, label: a, msgs: [][]byte{b, c}},
		{kind: 1, label: x},
		{kind: 1, label: nil, msgs: [][]byte{x}},
		{kind: 1, label: x, msgs: [][]byte{nil}},
		{kind: 0, label: x},
		{kind: 2, label: x, n: 1},
	}
	var logs [][]byte
	for _, o := range ops {
		t := NewTranscript("n")
		o.apply(t)
		logs = append(logs, verifHashLog(t))
	}
	verifReach("hagrid_split")
	for i := range logs {
		for j := range logs {
			if i != j {
				verifAssert("split.not_prefix", !verifIsPrefix(logs[i], logs[j]))
			}
		}
	}
}

// H_hagrid_framing_MUSTFAIL: wrong twin (claims the split does not matter).
func H_hagrid_framing_MUSTFAIL() {
	x := verifBytes(3)
	t1, t2 := NewTranscript("n"), NewTranscript("n")
	t1.AppendBytes(string(x[0:2]), x[2:3])
	t2.AppendBytes(string(x[0:1]), x[1:3])
	verifReach("hagrid_framing_mustfail")
	verifAssert("framing.wrong", bytes.Equal(verifHashLog(t1), verifHashLog(t2)))
}

// H_hagrid_extract (C19, 2b): ExtractBytes forks the state. The output is the cSHAKE output of
// prefix || frame || extractedTag (checked functionally against an independently built
// cSHAKE), the live log continues with continuedTag, neither log is a prefix of the other,
// and outLen = 0 is refused and leaves the log unchanged.
func H_hagrid_extract() {
	pre := verifMkSmallOp() // one arbitrary earlier operation
	label := verifBytes(verifLen(0, 3))
	n := verifExtractLen()
	t := NewTranscript("n")
	pre.apply(t)
	before := append([]byte{}, verifHashLog(t)...)

	out0, err0 := t.ExtractBytes(string(label), 0)
	verifAssert("extract.zero.refused", err0 != nil && out0 == nil)
	verifAssert("extract.zero.log_unchanged", bytes.Equal(verifHashLog(t), before))

	out, err := t.ExtractBytes(string(label), n)
	verifReach("hagrid_extract")
	verifAssert("extract.ok", err == nil && uint(len(out)) == n)
	verifObserve("extract.out0", uint64(out[0])) // -selftest: real cSHAKE output, interpreter vs native

	frame := verifFrame(verifOp{kind: 2, label: label, n: n})
	live := verifHashLog(t)
	wantLive := append(append(append([]byte{}, before...), frame...), 0xa5)
	verifAssert("extract.live_log", bytes.Equal(live, wantLive))

	// the output was read from prefix || frame || extractedTag
	ref := sha3.NewCSHAKE256(nil, []byte(customizedShakeName+"n"))
	refPre := len(verifHashLog(ref))
	ref.Write(before[refPre:])
	ref.Write(frame)
	ref.Write([]byte{0xa4}) // extractedTag
	outLog := verifHashLog(ref)
	want := make([]byte, n)
	ref.Read(want)
	verifAssert("extract.output_is_hash_of_forked_log", bytes.Equal(out, want))
	verifAssert("extract.fork.not_prefix", !verifIsPrefix(outLog, live) && !verifIsPrefix(live, outLog))
	verifAssert("extract.fork.tags", outLog[len(outLog)-1] == 0xa4 && live[len(live)-1] == 0xa5 && len(outLog) == len(live))
}

// H_hagrid_extract_MUSTFAIL: wrong twin (claims extraction leaves the live log unchanged).
func H_hagrid_extract_MUSTFAIL() {
	label := verifBytes(2)
	t := NewTranscript("n")
	before := append([]byte{}, verifHashLog(t)...)
	t.ExtractBytes(string(label), 4)
	verifReach("hagrid_extract_mustfail")
	verifAssert("extract.wrong", bytes.Equal(verifHashLog(t), before))
}

// H_hagrid_clone (C19, 2c): operations on a clone leave the origin's log unchanged and vice
// versa; the clone starts with the origin's log.
func H_hagrid_clone() {
	o0, o1, o2 := verifMkSmallOp(), verifMkSmallOp(), verifMkSmallOp()
	t := NewTranscript("n")
	o0.apply(t)
	c := t.Clone()
	l0 := append([]byte{}, verifHashLog(t)...)
	verifReach("hagrid_clone")
	verifAssert("clone.starts_equal", bytes.Equal(verifHashLog(c), l0))
	o1.apply(c)
	verifAssert("clone.origin_unchanged", bytes.Equal(verifHashLog(t), l0))
	lc := append([]byte{}, verifHashLog(c)...)
	o2.apply(t)
	verifAssert("clone.clone_unchanged", bytes.Equal(verifHashLog(c), lc))
	verifAssert("clone.distinct_objects", c != t)
}

// H_hagrid_clone_MUSTFAIL: wrong twin (claims the clone shares the origin's state).
func H_hagrid_clone_MUSTFAIL() {
	m := verifBytes(2)
	t := NewTranscript("n")
	c := t.Clone()
	t.AppendBytes("l", m)
	verifReach("hagrid_clone_mustfail")
	verifAssert("clone.wrong", bytes.Equal(verifHashLog(c), verifHashLog(t)))
}

// H_hagrid_determinism (C19, 2d): two transcripts with the same name performing the same two
// operations (symbolic contents) have equal logs, and a final ExtractBytes returns equal bytes;
// a different name gives a different log.
func H_hagrid_determinism() {
	o1, o2 := verifMkSmallOp(), verifMkSmallOp()
	label := verifBytes(verifLen(0, 2))
	n := verifExtractLen()
	t1, t2, t3 := NewTranscript("n"), NewTranscript("n"), NewTranscript("m")
	for _, t := range []transcripts.Transcript{t1, t2, t3} {
		o1.apply(t)
		o2.apply(t)
	}
	verifReach("hagrid_determinism")
	verifAssert("determinism.logs", bytes.Equal(verifHashLog(t1), verifHashLog(t2)))
	verifAssert("determinism.name_separates", !bytes.Equal(verifHashLog(t1), verifHashLog(t3)))
	x1, e1 := t1.ExtractBytes(string(label), n)
	x2, e2 := t2.ExtractBytes(string(label), n)
	verifAssert("determinism.extract", e1 == nil && e2 == nil && bytes.Equal(x1, x2))
	verifAssert("determinism.logs_after", bytes.Equal(verifHashLog(t1), verifHashLog(t2)))
}

// verifBL is a base.BytesLike value for the generic helper transcripts.Append.
type verifBL struct{ b []byte }

func (v verifBL) Bytes() []byte { return v.b }

func verifMkVals(maxVals, maxLen int) []verifBL {
	var vs []verifBL
	k := verifLen(0, maxVals)
	for i := 0; i < k; i++ {
		vs = append(vs, verifBL{verifBytes(verifLen(0, maxLen))})
	}
	return vs
}

func verifSameVals(a, b []verifBL) bool {
	if len(a) != len(b) {
		return false
	}
	d := uint64(0)
	for i := range a {
		if len(a[i].b) != len(b[i].b) {
			return false
		}
		d += verifB2U(!bytes.Equal(a[i].b, b[i].b))
	}
	return d == 0
}

// H_hagrid_append_helper (C19, "a message boundary, the order or number of messages"): the generic
// helper transcripts.Append[T](tape, label, xs...) on the real hagrid transcript. Two calls with
// value lists xs, ys (0..2 values of length 0..2, contents symbolic) under labels of length 0..1:
// equal logs imply the same value list (count, boundaries, contents) and - for a non-empty list -
// the same label; a non-empty list changes the log; the same list under the same label gives the
// same log. Nothing is demanded about HOW the helper frames the values.
func H_hagrid_append_helper() {
	la, lb := verifBytes(verifLen(0, 1)), verifBytes(verifLen(0, 1))
	xs, ys := verifMkVals(2, 2), verifMkVals(2, 2)
	t1, t2 := NewTranscript("n"), NewTranscript("n")
	l0 := append([]byte{}, verifHashLog(t1)...)
	transcripts.Append(t1, string(la), xs...)
	transcripts.Append(t2, string(lb), ys...)
	l1, l2 := verifHashLog(t1), verifHashLog(t2)
	verifReach("hagrid_append_helper")
	same := verifB2U(verifSameVals(xs, ys))
	sameLabel := verifB2U(len(la) == len(lb) && bytes.Equal(la, lb))
	if len(xs) == 0 {
		sameLabel = 1 // without values the label is never absorbed
	}
	verifAssert("append_helper.equal_logs_imply_same_values_and_label", verifB2U(bytes.Equal(l1, l2)) <= same&sameLabel)
	verifAssert("append_helper.same_values_and_label_imply_equal_logs", same&sameLabel <= verifB2U(bytes.Equal(l1, l2)))
	verifAssert("append_helper.values_are_absorbed", len(xs) == 0 || !bytes.Equal(l1, l0))
	var nilTape transcripts.Transcript
	transcripts.Append(nilTape, string(la), xs...) // documented no-op
}

// H_hagrid_append_helper_MUSTFAIL: wrong twin (claims the split of bytes across values does not matter).
func H_hagrid_append_helper_MUSTFAIL() {
	x := verifBytes(2)
	t1, t2 := NewTranscript("n"), NewTranscript("n")
	transcripts.Append(t1, "l", verifBL{x[0:1]}, verifBL{x[1:2]})
	transcripts.Append(t2, "l", verifBL{x[0:2]}, verifBL{nil})
	verifReach("hagrid_append_helper_mustfail")
	verifAssert("append_helper.wrong", bytes.Equal(verifHashLog(t1), verifHashLog(t2)))
}
