//go:build verif_e1

package pasta

import (
	"bytes"

	"github.com/bronlabs/bron-crypto/pkg/base"
	pastaImpl "github.com/bronlabs/bron-crypto/pkg/base/curves/pasta/impl"
)

// E1 harness for the hash-to-curve entry points (*PallasCurve).Hash / HashWithDst of pasta (PallasCurve) (property C19);
// generated from harness/e1/ed25519h2c (see there for the method): the hash-to-curve primitive
// (*points.ShortWeierstrassPointImpl).Hash is an ideal-hash contract, "same point" is evaluated on the
// logged inputs under the interpreter and with the real Equal in the native replay twin.
//
// Inputs: tags of length 1..2 and messages of length 0..1 (case split), contents symbolic.

var verifH2C struct {
	n    int
	logs [8][]byte
}

func verifH2CEnc(dst, msg []byte) []byte {
	out := []byte{byte(len(dst))}
	out = append(out, dst...)
	return append(out, msg...)
}

func verifCPtHash(p *pastaImpl.PallasPoint, dst string, message []byte) {
	k := verifH2C.n
	verifH2C.n++
	verifH2C.logs[k] = verifH2CEnc([]byte(dst), message)
	p.X.SetUint64(uint64(k) + 2)
	p.Y.SetOne()
	p.Z.SetOne()
}

func verifH2CNewCurve() *PallasCurve { return &PallasCurve{} }

func verifReplacements() map[string]any {
	const pkg = "github.com/bronlabs/bron-crypto/pkg/base/curves/pasta"
	return map[string]any{
		"(*github.com/bronlabs/bron-crypto/pkg/base/curves/impl/points.ShortWeierstrassPointImpl).Hash": verifCPtHash,
		pkg + ".NewPallasCurve": verifH2CNewCurve,
	}
}

// verifH2COrigin: the index of the primitive call whose output v is (interpreter only), -1 if none.
func verifH2COrigin(v *pastaImpl.PallasPoint) int {
	for k := 0; k < verifH2C.n; k++ {
		var c pastaImpl.Fp
		c.SetUint64(uint64(k) + 2)
		if v.X.Equal(&c) == 1 {
			return k
		}
	}
	return -1
}

// verifH2CSame: 1 iff a and b are the same point (native: real Equal; interpreter: same logged input).
func verifH2CSame(a, b *pastaImpl.PallasPoint) uint64 {
	if verifNative() {
		return verifB2U(a.Equal(b) == 1)
	}
	i, j := verifH2COrigin(a), verifH2COrigin(b)
	if i < 0 || j < 0 {
		return 0
	}
	return verifB2U(bytes.Equal(verifH2C.logs[i], verifH2C.logs[j]))
}

type verifH2CHasher interface {
	hash(msg []byte) (*pastaImpl.PallasPoint, error)
	hashWithDst(dst string, msg []byte) (*pastaImpl.PallasPoint, error)
}

type verifH2CCurve struct{}

func (verifH2CCurve) hash(msg []byte) (*pastaImpl.PallasPoint, error) {
	p, err := NewPallasCurve().Hash(msg)
	if err != nil || p == nil {
		return nil, err
	}
	return &p.V, nil
}

func (verifH2CCurve) hashWithDst(dst string, msg []byte) (*pastaImpl.PallasPoint, error) {
	p, err := NewPallasCurve().HashWithDst(dst, msg)
	if err != nil || p == nil {
		return nil, err
	}
	return &p.V, nil
}

func verifH2CCheck(id string, h verifH2CHasher) {
	d1, d2 := verifBytes(verifLen(1, 2)), verifBytes(verifLen(1, 2))
	m1, m2 := verifBytes(verifLen(0, 1)), verifBytes(verifLen(0, 1))
	r1, e1 := h.hashWithDst(string(d1), m1)
	r2, e2 := h.hashWithDst(string(d2), m2)
	r3, e3 := h.hashWithDst(string(d1), m1)
	r4, e4 := h.hash(m1)
	r5, e5 := h.hashWithDst(base.Hash2CurveAppTag+PallasHash2CurveSuite, m1)
	verifReach(id + ".reach")
	ok := e1 == nil && e2 == nil && e3 == nil && e4 == nil && e5 == nil && r1 != nil && r2 != nil && r3 != nil && r4 != nil && r5 != nil
	verifAssert(id+".no_error", ok)
	if !ok {
		return
	}
	sameIn := verifB2U(len(d1) == len(d2) && bytes.Equal(d1, d2)) & verifB2U(len(m1) == len(m2) && bytes.Equal(m1, m2))
	verifAssert(id+".another_tag_or_message_gives_another_point", sameIn|(1-verifH2CSame(r1, r2)) == 1)
	verifAssert(id+".same_tag_and_message_give_the_same_point", verifH2CSame(r1, r3) == 1)
	verifAssert(id+".Hash_is_HashWithDst_under_the_suite_tag", verifH2CSame(r4, r5) == 1)
	verifAssert(id+".results_are_distinct_objects", r1 != r3)
	if !verifNative() {
		verifAssertGhost(id+".primitive_received_callers_tag_and_message", verifH2C.n == 5 &&
			bytes.Equal(verifH2C.logs[0], verifH2CEnc(d1, m1)) && bytes.Equal(verifH2C.logs[1], verifH2CEnc(d2, m2)))
	}
}

// H_pallash2c_curve: (*PallasCurve).Hash / HashWithDst of pasta (Pallas).
func H_pallash2c_curve() { verifH2CCheck("pallash2c_curve", verifH2CCurve{}) }

// H_pallash2c_MUSTFAIL: wrong twin (claims the tag does not matter).
func H_pallash2c_MUSTFAIL() {
	m := verifBytes(1)
	r1, _ := verifH2CCurve{}.hashWithDst("a", m)
	r2, _ := verifH2CCurve{}.hashWithDst("b", m)
	verifReach("pallash2c_mustfail.reach")
	verifAssert("pallash2c_mustfail.tag_ignored", verifH2CSame(r1, r2) == 1)
}
