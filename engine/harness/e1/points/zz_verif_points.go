//go:build verif_e1

package points

// E1 harnesses for pkg/base/curves/impl/points (property C14.b): the REAL generic point code
// (ShortWeierstrassPointImpl / TwistedEdwardsPointImpl: the complete projective addition,
// doubling, negation, equality formulas shared by every curve of the library) is instantiated with a
// tiny prime field written here in plain Go (so that the solver can range over ALL projective
// representatives of ALL points) and with model curve parameters of the same shape as the real
// curves: a = 0 and a = -3 short Weierstrass curves of odd prime order, a = -1 twisted Edwards with
// non-square d. The result is compared with the affine chord–tangent / Edwards law written here.

import (
	"io"

	"github.com/bronlabs/bron-crypto/pkg/base/ct"
	h2c "github.com/bronlabs/bron-crypto/pkg/base/curves/impl/rfc9380"
)

// ---- model prime field GF(p), p given by a parameter type

type vModulus interface{ p() uint8 }

type vP7 struct{}
type vP13 struct{}
type vP5 struct{}

func (vP7) p() uint8  { return 7 }
func (vP13) p() uint8 { return 13 }
func (vP5) p() uint8  { return 5 }

type mf[P vModulus] struct{ v uint8 }

func (e *mf[P]) mod() uint8 { var m P; return m.p() }

func (e *mf[P]) Set(x *mf[P])  { e.v = x.v }
func (e *mf[P]) SetZero()     { e.v = 0 }
func (e *mf[P]) SetOne()      { e.v = 1 }
func (e *mf[P]) SetUint64(u uint64) { e.v = uint8(u % uint64(e.mod())) }
func (e *mf[P]) Select(choice ct.Choice, x0, x1 *mf[P]) {
	m := uint8(0) - uint8(choice&1)
	e.v = x0.v ^ (m & (x0.v ^ x1.v))
}
func (e *mf[P]) Equal(rhs *mf[P]) ct.Bool { return ct.Bool(verifB2U(e.v == rhs.v)) }
func (e *mf[P]) IsZero() ct.Bool         { return ct.Bool(verifB2U(e.v == 0)) }
func (e *mf[P]) IsNonZero() ct.Bool      { return ct.Bool(verifB2U(e.v != 0)) }
func (e *mf[P]) IsOne() ct.Bool          { return ct.Bool(verifB2U(e.v == 1)) }
func (e *mf[P]) Add(l, r *mf[P])         { e.v = (l.v + r.v) % e.mod() }
func (e *mf[P]) Double(x *mf[P])         { e.v = (x.v + x.v) % e.mod() }
func (e *mf[P]) Sub(l, r *mf[P])         { e.v = (l.v + e.mod() - r.v) % e.mod() }
func (e *mf[P]) Neg(x *mf[P])            { e.v = (e.mod() - x.v) % e.mod() }
func (e *mf[P]) Mul(l, r *mf[P])         { e.v = (l.v * r.v) % e.mod() }
func (e *mf[P]) Square(x *mf[P])         { e.v = (x.v * x.v) % e.mod() }
func (e *mf[P]) Inv(x *mf[P]) ct.Bool {
	// x^(p-2)
	acc := uint8(1)
	for i := uint8(0); i < e.mod()-2; i++ {
		acc = (acc * x.v) % e.mod()
	}
	ok := ct.Bool(verifB2U(x.v != 0))
	e.v = acc
	return ok
}
func (e *mf[P]) Div(l, r *mf[P]) ct.Bool {
	var t mf[P]
	ok := t.Inv(r)
	e.v = (l.v * t.v) % e.mod()
	return ok
}
func (e *mf[P]) Sqrt(x *mf[P]) ct.Bool {
	found := uint8(0)
	root := uint8(0)
	for r := uint8(0); r < e.mod(); r++ {
		hit := uint8(verifB2U((r*r)%e.mod() == x.v)) & (1 - found)
		root |= (uint8(0) - hit) & r
		found |= hit
	}
	e.v = root
	return ct.Bool(found)
}
func (e *mf[P]) SetBytes(b []byte) ct.Bool {
	if len(b) != 1 {
		return 0
	}
	e.v = uint8(b[0]) % e.mod()
	return 1
}
func (e *mf[P]) Bytes() []byte                             { return []byte{byte(e.v)} }
func (e *mf[P]) SetRandom(io.Reader) ct.Bool                { e.v = 0; return 1 }
func (e *mf[P]) SetUniformBytes(d ...[]byte) ct.Bool        { e.v = 0; return 1 }
func (e *mf[P]) ComponentsBytes() [][]byte                  { return [][]byte{e.Bytes()} }
func (e *mf[P]) Degree() uint64                             { return 1 }

// ---- dummies for the hash-to-curve type parameters (never exercised here)

type vHasher struct{}

func (vHasher) L() uint64                           { return 1 }
func (vHasher) MessageExpander() h2c.MessageExpander { return nil }

type vMapper[P vModulus] struct{}

func (vMapper[P]) Map(xn, xd, yn, yd, u *mf[P]) {}

// ---- model short Weierstrass curves y^2 = x^3 + a x + b

type vWCoeffs interface {
	a() uint8
	b() uint8
}

type vW7a0 struct{}  // y^2 = x^3 + 5 over GF(7), order 7
type vW7am3 struct{} // y^2 = x^3 - 3x + 1 over GF(7), order 5
type vW13a0 struct{} // y^2 = x^3 + 2 over GF(13), order 19
type vW13am3 struct{} // y^2 = x^3 - 3x + 1 over GF(13), order 19

func (vW7a0) a() uint8    { return 0 }
func (vW7a0) b() uint8    { return 5 }
func (vW7am3) a() uint8   { return 4 }
func (vW7am3) b() uint8   { return 1 }
func (vW13a0) a() uint8   { return 0 }
func (vW13a0) b() uint8   { return 2 }
func (vW13am3) a() uint8  { return 10 }
func (vW13am3) b() uint8  { return 1 }

type vWParams[P vModulus, K vWCoeffs] struct{}

func (vWParams[P, K]) coeff() (uint8, uint8, uint8) {
	var k K
	var m P
	return k.a(), k.b(), m.p()
}
func (c vWParams[P, K]) SetGenerator(x, y, z *mf[P])                       { x.v, y.v, z.v = 0, 1, 0 }
func (c vWParams[P, K]) ClearCofactor(xo, yo, zo, xi, yi, zi *mf[P])        { xo.v, yo.v, zo.v = xi.v, yi.v, zi.v }
func (c vWParams[P, K]) AddA(out, in *mf[P])                                { a, _, p := c.coeff(); out.v = (in.v + a) % p }
func (c vWParams[P, K]) AddB(out, in *mf[P])                                { _, b, p := c.coeff(); out.v = (in.v + b) % p }
func (c vWParams[P, K]) MulByA(out, in *mf[P])                              { a, _, p := c.coeff(); out.v = (in.v * a) % p }
func (c vWParams[P, K]) MulBy3B(out, in *mf[P])                             { _, b, p := c.coeff(); out.v = (in.v * ((3 * b) % p)) % p }

type vWPoint[P vModulus, K vWCoeffs] = ShortWeierstrassPointImpl[*mf[P], vWParams[P, K], vHasher, vMapper[P], mf[P]]

// affine specification -------------------------------------------------------------------------

func vInv(x, p uint8) uint8 {
	acc := uint8(1)
	for i := uint8(0); i < p-2; i++ {
		acc = (acc * x) % p
	}
	return acc
}

// an affine point or the point at infinity
type vAff struct {
	inf  bool
	x, y uint8
}

func vWOnCurveProj(X, Y, Z, a, b, p uint8) bool {
	lhs := (Y * Y % p) * Z % p
	rhs := ((X*X%p)*X%p + (a*X%p)*(Z*Z%p)%p + b*((Z*Z%p)*Z%p)%p) % p
	return lhs == rhs
}

func vWToAffine(X, Y, Z, p uint8) vAff {
	if Z == 0 {
		return vAff{inf: true}
	}
	zi := vInv(Z, p)
	return vAff{x: X * zi % p, y: Y * zi % p}
}

// chord–tangent law
func vWAddAffine(P, Q vAff, a, p uint8) vAff {
	if P.inf {
		return Q
	}
	if Q.inf {
		return P
	}
	if P.x == Q.x {
		if (P.y+Q.y)%p == 0 {
			return vAff{inf: true}
		}
		// doubling (P = Q, y != 0)
		num := (3*(P.x*P.x%p) + a) % p
		lam := num * vInv(2*P.y%p, p) % p
		x3 := (lam*lam%p + 2*p - 2*P.x%p) % p
		y3 := (lam*((P.x+p-x3)%p)%p + p - P.y) % p
		return vAff{x: x3, y: y3}
	}
	lam := ((Q.y + p - P.y) % p) * vInv((Q.x+p-P.x)%p, p) % p
	x3 := (lam*lam%p + 2*p - P.x - Q.x) % p
	y3 := (lam*((P.x+p-x3)%p)%p + p - P.y) % p
	return vAff{x: x3, y: y3}
}

// vWMatches: the projective result (X:Y:Z) represents the affine point S
func vWMatches(X, Y, Z uint8, S vAff, p uint8) bool {
	if S.inf {
		return Z == 0 && X == 0 && Y != 0
	}
	return Z != 0 && X == S.x*Z%p && Y == S.y*Z%p
}

func vWInput[P vModulus, K vWCoeffs](name string) (pt vWPoint[P, K], aff vAff) {
	var c vWParams[P, K]
	a, b, p := c.coeff()
	X, Y, Z := verifU8(), verifU8(), verifU8()
	verifAssume(X < p && Y < p && Z < p)
	verifAssume(!(X == 0 && Y == 0 && Z == 0))
	verifAssume(vWOnCurveProj(X, Y, Z, a, b, p))
	pt.X.v, pt.Y.v, pt.Z.v = X, Y, Z
	return pt, vWToAffine(X, Y, Z, p)
}

func vWCheck[P vModulus, K vWCoeffs](tag string) {
	var c vWParams[P, K]
	a, _, p := c.coeff()
	P1, A1 := vWInput[P, K]("P")
	P2, A2 := vWInput[P, K]("Q")
	verifReach(tag)

	var R vWPoint[P, K]
	R.Add(&P1, &P2)
	verifAssert(tag+".Add=chord-tangent (all projective representatives, identity/equal/opposite included)", vWMatches(R.X.v, R.Y.v, R.Z.v, vWAddAffine(A1, A2, a, p), p))

	var D vWPoint[P, K]
	D.Double(&P1)
	verifAssert(tag+".Double=P+P", vWMatches(D.X.v, D.Y.v, D.Z.v, vWAddAffine(A1, A1, a, p), p))

	var N vWPoint[P, K]
	N.Neg(&P1)
	negA := A1
	if !negA.inf {
		negA.y = (p - negA.y) % p
	}
	verifAssert(tag+".Neg", vWMatches(N.X.v, N.Y.v, N.Z.v, negA, p))

	var S vWPoint[P, K]
	S.Sub(&P1, &P2)
	negB := A2
	if !negB.inf {
		negB.y = (p - negB.y) % p
	}
	verifAssert(tag+".Sub=P+(-Q)", vWMatches(S.X.v, S.Y.v, S.Z.v, vWAddAffine(A1, negB, a, p), p))

	same := (A1.inf && A2.inf) || (!A1.inf && !A2.inf && A1.x == A2.x && A1.y == A2.y)
	verifAssert(tag+".Equal⇔same point", (P1.Equal(&P2) == 1) == same)
	verifAssert(tag+".IsZero⇔identity", (P1.IsZero() == 1) == A1.inf && (P1.IsNonZero() == 1) == !A1.inf)

	var ax, ay mf[P]
	ok := P1.ToAffine(&ax, &ay)
	verifAssert(tag+".ToAffine", (ok == 1) == !A1.inf && (A1.inf || (ax.v == A1.x && ay.v == A1.y)))
}

// SetAffine accepts exactly the points of the curve
func vWSetAffine[P vModulus, K vWCoeffs](tag string) {
	var c vWParams[P, K]
	a, b, p := c.coeff()
	x, y := verifU8(), verifU8()
	verifAssume(x < p && y < p)
	verifReach(tag)
	var fx, fy mf[P]
	fx.v, fy.v = x, y
	var pt vWPoint[P, K]
	pt.SetZero()
	ok := pt.SetAffine(&fx, &fy)
	on := vWOnCurveProj(x, y, 1, a, b, p)
	verifAssert(tag+".SetAffine accepts ⇔ on curve", (ok == 1) == on)
	verifAssert(tag+".SetAffine stores the point", !on || (pt.X.v == x && pt.Y.v == y && pt.Z.v == 1))
	verifAssert(tag+".SetAffine leaves the receiver unchanged on failure", on || (pt.X.v == 0 && pt.Y.v == 1 && pt.Z.v == 0))
	// SetFromAffineX: accepts iff x^3+ax+b is a square, and then lands on the curve
	var q vWPoint[P, K]
	ok2 := q.SetFromAffineX(&fx)
	rhs := ((x*x%p)*x%p + a*x%p + b) % p
	isSq := false
	for r := uint8(0); r < p; r++ {
		if r*r%p == rhs {
			isSq = true
		}
	}
	verifAssert(tag+".SetFromAffineX accepts ⇔ rhs is a square", (ok2 == 1) == isSq)
	verifAssert(tag+".SetFromAffineX result on curve", !isSq || (q.X.v == x && q.Z.v == 1 && vWOnCurveProj(q.X.v, q.Y.v, 1, a, b, p)))
}

func H_points_w7_a0()       { vWCheck[vP7, vW7a0]("W(GF7,a=0,b=5)") }
func H_points_w7_am3()      { vWCheck[vP7, vW7am3]("W(GF7,a=-3,b=1)") }
func H_points_w13_a0()      { vWCheck[vP13, vW13a0]("W(GF13,a=0,b=2)") }
func H_points_w13_am3()     { vWCheck[vP13, vW13am3]("W(GF13,a=-3,b=1)") }
func H_points_w7_setaffine() {
	vWSetAffine[vP7, vW7a0]("W(GF7,a=0,b=5)")
}
func H_points_w7_am3_setaffine() {
	vWSetAffine[vP7, vW7am3]("W(GF7,a=-3,b=1)")
}

// negative control: claims P+Q = P-Q
func H_points_w7_MUSTFAIL() {
	var c vWParams[vP7, vW7a0]
	a, _, p := c.coeff()
	P1, A1 := vWInput[vP7, vW7a0]("P")
	P2, A2 := vWInput[vP7, vW7a0]("Q")
	verifReach("w7_mustfail")
	var R vWPoint[vP7, vW7a0]
	R.Sub(&P1, &P2)
	verifAssert("W7.Sub=P+Q.wrong", vWMatches(R.X.v, R.Y.v, R.Z.v, vWAddAffine(A1, A2, a, p), p))
}

// ---- model twisted Edwards curve a x^2 + y^2 = 1 + d x^2 y^2, a = -1, d non-square

// over GF(5): a = -1 = 4 (a square), d = 2 (a non-square): complete; over GF(13): a = 12, d = 2

type vEParams[P vModulus] struct{}

func (vEParams[P]) ad() (uint8, uint8, uint8) { var m P; return m.p() - 1, 2, m.p() }
func (c vEParams[P]) SetGenerator(x, y, t, z *mf[P])                 { x.v, y.v, t.v, z.v = 0, 1, 0, 1 }
func (c vEParams[P]) ClearCofactor(xo, yo, to, zo, xi, yi, ti, zi *mf[P]) { xo.v, yo.v, to.v, zo.v = xi.v, yi.v, ti.v, zi.v }
func (c vEParams[P]) SetA(out *mf[P])                                { a, _, _ := c.ad(); out.v = a }
func (c vEParams[P]) MulByA(out, in *mf[P])                          { a, _, p := c.ad(); out.v = in.v * a % p }
func (c vEParams[P]) MulByD(out, in *mf[P])                          { _, d, p := c.ad(); out.v = in.v * d % p }
func (c vEParams[P]) MulBy2D(out, in *mf[P])                         { _, d, p := c.ad(); out.v = in.v * (2 * d % p) % p }

type vEPoint[P vModulus] = TwistedEdwardsPointImpl[*mf[P], vEParams[P], vHasher, vMapper[P], mf[P]]

func vEInput[P vModulus]() (pt vEPoint[P], x, y uint8) {
	var c vEParams[P]
	a, d, p := c.ad()
	X, Y, T, Z := verifU8(), verifU8(), verifU8(), verifU8()
	verifAssume(X < p && Y < p && T < p && Z < p && Z != 0)
	verifAssume(T*Z%p == X*Y%p)
	zi := vInv(Z, p)
	x, y = X*zi%p, Y*zi%p
	verifAssume((a*(x*x%p)%p+y*y%p)%p == (1+d*((x*x%p)*(y*y%p)%p))%p)
	pt.X.v, pt.Y.v, pt.T.v, pt.Z.v = X, Y, T, Z
	return pt, x, y
}

func vEMatches[P vModulus](R *vEPoint[P], x, y, p uint8) bool {
	return R.Z.v != 0 && R.X.v == x*R.Z.v%p && R.Y.v == y*R.Z.v%p && R.T.v*R.Z.v%p == R.X.v*R.Y.v%p
}

func vEAdd(x1, y1, x2, y2, a, d, p uint8) (uint8, uint8) {
	k := d * ((x1 * x2 % p) * (y1 * y2 % p) % p) % p
	x3 := ((x1*y2%p + y1*x2%p) % p) * vInv((1+k)%p, p) % p
	y3 := ((y1*y2%p + p - a*(x1*x2%p)%p) % p) * vInv((1+p-k)%p, p) % p
	return x3, y3
}

func H_points_e5() {
	var c vEParams[vP5]
	a, d, p := c.ad()
	P1, x1, y1 := vEInput[vP5]()
	P2, x2, y2 := vEInput[vP5]()
	verifReach("E(GF5,a=-1,d=2)")
	var R vEPoint[vP5]
	R.Add(&P1, &P2)
	x3, y3 := vEAdd(x1, y1, x2, y2, a, d, p)
	verifAssert("E5.Add=Edwards law (all extended representatives)", vEMatches(&R, x3, y3, p))
	var D vEPoint[vP5]
	D.Double(&P1)
	dx, dy := vEAdd(x1, y1, x1, y1, a, d, p)
	verifAssert("E5.Double=P+P", vEMatches(&D, dx, dy, p))
	var N vEPoint[vP5]
	N.Neg(&P1)
	verifAssert("E5.Neg", vEMatches(&N, (p-x1)%p, y1, p))
	var S vEPoint[vP5]
	S.Sub(&P1, &P2)
	sx, sy := vEAdd(x1, y1, (p-x2)%p, y2, a, d, p)
	verifAssert("E5.Sub=P+(-Q)", vEMatches(&S, sx, sy, p))
	verifAssert("E5.Equal⇔same point", (P1.Equal(&P2) == 1) == (x1 == x2 && y1 == y2))
	verifAssert("E5.IsZero⇔neutral", (P1.IsZero() == 1) == (x1 == 0 && y1 == 1))
}

func H_points_e5_MUSTFAIL() {
	var c vEParams[vP5]
	a, d, p := c.ad()
	P1, x1, y1 := vEInput[vP5]()
	P2, x2, y2 := vEInput[vP5]()
	verifReach("e5_mustfail")
	var R vEPoint[vP5]
	R.Add(&P1, &P2)
	x3, y3 := vEAdd(x1, y1, x2, y2, a, d, p)
	verifAssert("E5.Add.wrong", vEMatches(&R, y3, x3, p))
}
