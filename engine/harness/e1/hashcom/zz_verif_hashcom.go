//go:build verif_e1

package hashcom

import (
	"bytes"
	"errors"

	"golang.org/x/crypto/blake2b"

	"github.com/bronlabs/bron-crypto/pkg/commitments"
	"github.com/bronlabs/bron-crypto/pkg/transcripts/hagrid"
)

// E1 harnesses for pkg/commitments/hashcom (property C18.a). The commitment is keyed
// BLAKE2b-256 of message || witness. The hash is a byte log: verifHashLog(h) of a keyed BLAKE2b
// object is be64(len key) || key || absorbed bytes. Outputs are uninterpreted but functional
// (equal logs give equal digests); collision-freeness is assumed only where stated.

func verifKey() *CommitmentKey {
	var k CommitmentKey
	copy(k[:], verifBytes(KeySize))
	return &k
}

func verifWitness() Witness {
	var w Witness
	copy(w[:], verifBytes(DigestSize))
	return w
}

// verifRefLog builds, independently of CommitWithWitness, the keyed hash of message || witness
// and returns its log and digest.
func verifRefLog(k *CommitmentKey, m []byte, w Witness) ([]byte, Commitment) {
	h, err := blake2b.New256(k[:])
	if err != nil {
		panic(err)
	}
	h.Write(m)
	h.Write(w[:])
	log := append([]byte{}, verifHashLog(h)...)
	return log, Commitment(h.Sum(nil))
}

// H_hashcom_layout: the commitment is H_key(message || witness): it equals the digest of an
// independently built keyed BLAKE2b-256 whose absorbed stream is be64(32)||key||message||witness;
// message lengths 0..4, all contents symbolic.
func H_hashcom_layout() {
	k := verifKey()
	m := verifBytes(verifLen(0, 4))
	w := verifWitness()
	c, err := k.CommitWithWitness(m, w)
	log, ref := verifRefLog(k, m, w)
	verifReach("hashcom_layout")
	verifAssert("commit.noerr", err == nil)
	verifAssert("commit.is_keyed_hash_of_m_then_w", c == ref)
	var want []byte
	want = append(want, 0, 0, 0, 0, 0, 0, 0, KeySize)
	want = append(want, k[:]...)
	want = append(want, m...)
	want = append(want, w[:]...)
	verifAssert("commit.stream_layout", bytes.Equal(log, want))
	verifAssert("commit.deterministic", func() bool { c2, _ := k.CommitWithWitness(m, w); return c2 == c }())
	var nilKey *CommitmentKey
	_, errNil := nilKey.CommitWithWitness(m, w)
	verifAssert("commit.nilkey", errNil != nil && errors.Is(errNil, commitments.ErrIsNil))
}

// H_hashcom_layout_MUSTFAIL: wrong twin (claims the witness is absorbed before the message).
func H_hashcom_layout_MUSTFAIL() {
	k := verifKey()
	m := verifBytes(2)
	w := verifWitness()
	log, _ := verifRefLog(k, m, w)
	verifReach("hashcom_layout_mustfail")
	var wrong []byte
	wrong = append(wrong, 0, 0, 0, 0, 0, 0, 0, KeySize)
	wrong = append(wrong, k[:]...)
	wrong = append(wrong, w[:]...)
	wrong = append(wrong, m...)
	verifAssert("commit.wrong_layout", bytes.Equal(log, wrong))
}

// H_hashcom_open: Open(c, m, w) accepts iff the recomputed digest equals c (no premise on the
// hash); a rejection is commitments.ErrVerificationFailed.
func H_hashcom_open() {
	k := verifKey()
	m := verifBytes(verifLen(0, 4))
	w := verifWitness()
	// the candidate commitment is an ARBITRARY value, written as (recomputed digest) XOR (arbitrary
	// mask): a counterexample is then a mask, which replays natively against the real hash (a
	// concrete value of c chosen under the idealised hash would not)
	recomputed, _ := k.CommitWithWitness(m, w)
	mask := verifBytes(DigestSize)
	c := recomputed
	for i := range c {
		c[i] ^= mask[i]
	}
	err := k.Open(c, m, w)
	verifReach("hashcom_open")
	verifAssert("open.accepts_iff_digest_matches", (err == nil) == (c == recomputed))
	if err != nil {
		verifAssert("open.reject_kind", errors.Is(err, commitments.ErrVerificationFailed))
	}
	verifAssert("open.completeness", k.Open(recomputed, m, w) == nil)
	var nilKey *CommitmentKey
	verifAssert("open.nilkey", nilKey.Open(c, m, w) != nil)
}

// H_hashcom_open_MUSTFAIL: wrong twin (claims Open accepts every commitment).
func H_hashcom_open_MUSTFAIL() {
	k := verifKey()
	m := verifBytes(1)
	w := verifWitness()
	var c Commitment
	copy(c[:], verifBytes(DigestSize))
	verifReach("hashcom_open_mustfail")
	verifAssert("open.wrong", k.Open(c, m, w) == nil)
}

// H_hashcom_injective: the absorbed stream is injective in (key, message, witness): for two
// triples with message lengths 0..4, equal logs imply equal key, message and witness.
func H_hashcom_injective() {
	k1, k2 := verifKey(), verifKey()
	m1, m2 := verifBytes(verifLen(0, 4)), verifBytes(verifLen(0, 4))
	w1, w2 := verifWitness(), verifWitness()
	l1, _ := verifRefLog(k1, m1, w1)
	l2, _ := verifRefLog(k2, m2, w2)
	verifReach("hashcom_injective")
	same := verifB2U(*k1 != *k2) + verifB2U(!bytes.Equal(m1, m2)) + verifB2U(w1 != w2)
	verifAssert("stream.injective", verifB2U(bytes.Equal(l1, l2)) <= verifB2U(same == 0))
	verifAssert("stream.functional", verifB2U(same == 0) <= verifB2U(bytes.Equal(l1, l2)))
}

// H_hashcom_binding: under the explicit premise "equal digests => equal logs" for the two
// hash evaluations involved (collision-freeness of keyed BLAKE2b, stated with verifAssume), a
// changed message, witness or key alone makes Open reject; a changed commitment alone is
// rejected without any premise.
func H_hashcom_binding() {
	k, k2 := verifKey(), verifKey()
	m, m2 := verifBytes(verifLen(0, 4)), verifBytes(verifLen(0, 4))
	w, w2 := verifWitness(), verifWitness()
	c, _ := k.CommitWithWitness(m, w)
	logC, _ := verifRefLog(k, m, w)

	premise := func(kk *CommitmentKey, mm []byte, ww Witness) {
		l, d := verifRefLog(kk, mm, ww)
		verifAssume(verifB2U(d == c) <= verifB2U(bytes.Equal(l, logC)))
	}
	premise(k, m2, w)
	premise(k, m, w2)
	premise(k2, m, w)
	verifReach("hashcom_binding")

	verifAssert("binding.message", verifB2U(!bytes.Equal(m, m2)) <= verifB2U(k.Open(c, m2, w) != nil))
	verifAssert("binding.witness", verifB2U(w != w2) <= verifB2U(k.Open(c, m, w2) != nil))
	verifAssert("binding.key", verifB2U(*k != *k2) <= verifB2U(k2.Open(c, m, w) != nil))
	var c2 Commitment
	copy(c2[:], verifBytes(DigestSize))
	verifAssert("binding.commitment", verifB2U(c2 != c) <= verifB2U(k.Open(c2, m, w) != nil))
	verifAssert("binding.unchanged_accepts", k.Open(c, m, w) == nil)
}

// H_hashcom_binding_nopremise_INCONCLUSIVE (control, expected status: inconclusive): the same
// statement WITHOUT the collision-freeness premise is not provable, because the hash model does
// not assume it: the solver finds a "collision" of the uninterpreted hash. That counterexample
// exists only in the idealised hash and does not reproduce with the real BLAKE2b, so it is
// reported inconclusive, never violated. The control that must be VIOLATED natively is
// H_hashcom_binding_wrong_MUSTFAIL below.
func H_hashcom_binding_nopremise_INCONCLUSIVE() {
	k := verifKey()
	m, m2 := verifBytes(2), verifBytes(2)
	w := verifWitness()
	c, _ := k.CommitWithWitness(m, w)
	verifReach("hashcom_binding_nopremise")
	verifAssert("binding.message.nopremise", verifB2U(!bytes.Equal(m, m2)) <= verifB2U(k.Open(c, m2, w) != nil))
}

// H_hashcom_binding_wrong_MUSTFAIL: wrong twin (claims Open rejects even the honest opening).
func H_hashcom_binding_wrong_MUSTFAIL() {
	k := verifKey()
	m := verifBytes(2)
	w := verifWitness()
	c, _ := k.CommitWithWitness(m, w)
	verifReach("hashcom_binding_wrong_mustfail")
	verifAssert("binding.wrong", k.Open(c, m, w) != nil)
}

// H_hashcom_extract_key: ExtractCommitmentKey is deterministic (same transcript operations =>
// same key), leaves two equal transcripts equal, depends on the label as a log, and refuses a
// nil transcript or an empty label.
func H_hashcom_extract_key() {
	msg := verifBytes(verifLen(0, 2))
	label := string(verifBytes(verifLen(1, 2)))
	t1, t2 := hagrid.NewTranscript("n"), hagrid.NewTranscript("n")
	t1.AppendBytes("m", msg)
	t2.AppendBytes("m", msg)
	k1, e1 := ExtractCommitmentKey(t1, label)
	k2, e2 := ExtractCommitmentKey(t2, label)
	verifReach("hashcom_extract_key")
	verifAssert("extractkey.noerr", e1 == nil && e2 == nil)
	verifAssert("extractkey.deterministic", *k1 == *k2 && k1.Equal(k2))
	verifAssert("extractkey.transcripts_stay_equal", bytes.Equal(verifHashLog(t1), verifHashLog(t2)))
	_, e3 := ExtractCommitmentKey(nil, label)
	_, e4 := ExtractCommitmentKey(t1, "")
	verifAssert("extractkey.nil_refused", e3 != nil && e4 != nil)
	verifAssert("extractkey.refusal_leaves_log", bytes.Equal(verifHashLog(t1), verifHashLog(t2)))
}
