//go:build verif_e1

package p256

import (
	"bytes"
	"errors"

	"github.com/bronlabs/bron-crypto/pkg/base/ct"
	"github.com/bronlabs/bron-crypto/pkg/base/curves"
	p256Impl "github.com/bronlabs/bron-crypto/pkg/base/curves/p256/impl"
)

// E1 harnesses for (*Curve).FromCompressed / FromUncompressed (property C13 "decoders admit only
// valid group elements"), pkg/base/curves/p256/curve.go. Port of harness/e1/k256dec (the two
// decoders are textually the same), with three changes:
//
//   - the SetBytes contract fixes WHICH byte strings decode to zero: exactly 0 and p (the real
//     SetBytes does not range-check, it reduces; 2p > 2^256). That makes every counterexample about
//     the zero-coordinate shortcuts replayable natively.
//   - the ghost switch verifG.forceNo makes the two curve-equation contracts answer "no" on the
//     whole path. A harness that sets it and still sees an acceptance has found an input that is
//     accepted WITHOUT the curve-equation routine having said yes; the obligation is stated on
//     (input, error) only, so the native twin confirms it (natively the same input is accepted too).
//   - the identity-form obligations are split from the control-flow obligations
//     (H_p256dec_*_identity_form, H_p256dec_*_membership_no), because P-256, unlike secp256k1,
//     HAS points with x = 0 (b is a square): "x = 0 denotes the identity" is not a free encoding.
//
// What is checked is the decoders' OWN logic: length and tag checks, byte order, which bytes
// become which coordinate, that a point is returned only when the curve-membership test
// (SetFromAffineX / SetAffine) said yes for exactly those coordinates, the sign selection, the
// reserved encoding of the identity, and the absence of panics. 256-bit field arithmetic is not
// encodable, so the field / point operations the decoders call are replaced by CONTRACTS
// (engine feature "replacements"); the contracts are part of the claim and are listed in
// result.json. Exactly these seven functions are replaced:
//
//	(*p256/impl.Fp).SetBytes        len != 32 -> 0, receiver untouched (as the real code); else 1
//	                                and the receiver becomes SOME field element (see verifSomeFp); IsZero of
//	                                that element is 1 exactly when the bytes are 0^32 or the
//	                                little-endian bytes of p
//	(*p256/impl.Fp).IsZero          for an element produced by the SetBytes contract and not
//	                                modified since: the zero flag chosen there; otherwise the REAL
//	                                IsZero
//	(*p256/impl.Fp).Bytes           32 arbitrary bytes (only the parity bit is used)
//	(*points.ShortWeierstrassPointImpl[..]).SetFromAffineX(x)
//	                                arbitrary ok (0 when verifG.forceNo); ok=1: X := x, Y := some element, Z := 1;
//	                                ok=0: receiver untouched (as the real code's Select)
//	(*…).SetAffine(x, y)            arbitrary ok (0 when verifG.forceNo); ok=1: X := x, Y := y, Z := 1; ok=0: untouched
//	(*…).ToAffine(xOut, yOut)       ok = [Z != 0] (real IsNonZero on Z); ok=1: outputs := some
//	                                elements; ok=0: outputs untouched
//	(*…).Neg(v)                     X := v.X, Y := some element, Z := v.Z
//
// Every contract records its calls (receiver, argument pointers, argument VALUES at call time,
// result) in the ghost variable verifG. The native twin runs the real functions, so verifG stays
// empty there; obligations that read verifG use verifAssertGhost, and the MUSTFAIL controls are
// stated on results only.
//
// Algebraic facts that are NOT checked here (they are about the replaced functions): y -> p - y
// flips the parity of a non-zero y; SetFromAffineX/SetAffine accept exactly the curve points.

type verifFpCall struct {
	recv *p256Impl.Fp
	n    int      // len(data)
	data [32]byte // copy of the argument (when n == 32)
	val  p256Impl.Fp
	zero ct.Bool // the zero flag of the produced element
	ok   ct.Bool
}

type verifGhost struct {
	forceNo bool // the curve-equation contracts answer 0 on this path

	nElems int // abstract field elements produced so far (verifSomeFp)

	setBytes                [2]verifFpCall
	nSetBytes               int
	isZeroGhost, isZeroReal int // IsZero calls answered from the ghost table / by the real code

	sfaxCalls int
	sfaxRecv  *p256Impl.Point
	sfaxX     *p256Impl.Fp
	sfaxXVal  p256Impl.Fp
	sfaxOK    ct.Bool

	saCalls        int
	saRecv         *p256Impl.Point
	saX, saY       *p256Impl.Fp
	saXVal, saYVal p256Impl.Fp
	saOK           ct.Bool

	taCalls int
	taRecv  *p256Impl.Point
	taOK    ct.Bool

	bytesCalls  int
	bytesRecv   *p256Impl.Fp
	bytesParity byte

	negCalls        int
	negRecv, negArg *p256Impl.Point
}

var verifG verifGhost

// verifSomeFp makes *f "some field element". No code that remains un-replaced looks inside a field
// element (it is only copied by Set/Select, and Z is only ever written by SetOne/SetZero), so the
// element just has to be (a) not fixed and (b) recognisable: the k-th element produced on a path
// is one of the two constants 2k+2, 2k+3, chosen by a fresh symbolic bit. (A fully symbolic
// 256-bit value would have to go through the Montgomery conversion of SetLimbs/SetBytes, the very
// 256-bit multiplication that is not encodable: equalities between such terms time the solver out.)
func verifSomeFp(f *p256Impl.Fp) {
	k := uint64(verifG.nElems)
	verifG.nElems++
	var c0, c1 p256Impl.Fp
	c0.SetUint64(2*k + 2)
	c1.SetUint64(2*k + 3)
	f.Select(ct.Choice(verifU8()&1), &c0, &c1)
}

func verifFpSetBytes(f *p256Impl.Fp, data []byte) ct.Bool {
	k := verifG.nSetBytes
	verifG.nSetBytes++
	if k >= len(verifG.setBytes) {
		panic("harness: more SetBytes calls than a decoder can make")
	}
	c := &verifG.setBytes[k]
	c.recv, c.n = f, len(data)
	if len(data) != p256Impl.FpBytes {
		return 0
	}
	copy(c.data[:], data)
	verifSomeFp(f)
	c.val.Set(f)
	// the bytes that decode to zero: 0 and p (little-endian here)
	pLE := verifPLE()
	var acc0, accP byte
	for i, b := range data {
		acc0 |= b
		accP |= b ^ pLE[i]
	}
	c.zero = ct.Bool(verifB2U(acc0 == 0) | verifB2U(accP == 0))
	c.ok = 1
	return 1
}

// verifPLE: p = 2^256 - 2^224 + 2^192 + 2^96 - 1, little-endian (= p256Impl.FpModulus; a literal,
// so that no package initialiser is needed).
func verifPLE() [32]byte {
	return [32]byte{0xff, 0xff, 0xff, 0xff, 0xff, 0xff, 0xff, 0xff, 0xff, 0xff, 0xff, 0xff, 0x00, 0x00, 0x00, 0x00,
		0x00, 0x00, 0x00, 0x00, 0x00, 0x00, 0x00, 0x00, 0x01, 0x00, 0x00, 0x00, 0xff, 0xff, 0xff, 0xff}
}

// verifIsP: b (32 bytes big-endian, as on the wire) is p.
func verifIsP(b []byte) bool {
	pLE := verifPLE()
	var acc byte
	for i := 0; i < 32; i++ {
		acc |= b[i] ^ pLE[31-i]
	}
	return acc == 0
}

func verifFpIsZero(f *p256Impl.Fp) ct.Bool {
	for k := 0; k < verifG.nSetBytes && k < len(verifG.setBytes); k++ {
		c := &verifG.setBytes[k]
		if c.recv == f && c.ok == 1 && verifSameValue(c.val, *f) {
			verifG.isZeroGhost++
			return c.zero
		}
	}
	verifG.isZeroReal++
	return f.IsZero() // the real one (a contract is not applied inside itself)
}

func verifFpBytes(f *p256Impl.Fp) []byte {
	out := verifBytes(p256Impl.FpBytes)
	verifG.bytesCalls++
	verifG.bytesRecv = f
	verifG.bytesParity = out[0] & 1
	return out
}

func verifPtSetFromAffineX(p *p256Impl.Point, x *p256Impl.Fp) ct.Bool {
	verifG.sfaxCalls++
	verifG.sfaxRecv, verifG.sfaxX = p, x
	verifG.sfaxXVal.Set(x)
	ok := ct.Bool(verifU8() & 1)
	if verifG.forceNo {
		ok = 0
	}
	verifG.sfaxOK = ok
	if ok == 1 {
		p.X.Set(x)
		verifSomeFp(&p.Y)
		p.Z.SetOne()
	}
	return ok
}

func verifPtSetAffine(p *p256Impl.Point, x, y *p256Impl.Fp) ct.Bool {
	verifG.saCalls++
	verifG.saRecv, verifG.saX, verifG.saY = p, x, y
	verifG.saXVal.Set(x)
	verifG.saYVal.Set(y)
	ok := ct.Bool(verifU8() & 1)
	if verifG.forceNo {
		ok = 0
	}
	verifG.saOK = ok
	if ok == 1 {
		p.X.Set(x)
		p.Y.Set(y)
		p.Z.SetOne()
	}
	return ok
}

func verifPtToAffine(p *p256Impl.Point, xOut, yOut *p256Impl.Fp) ct.Bool {
	verifG.taCalls++
	verifG.taRecv = p
	ok := p.Z.IsNonZero() // real, on the Z the contracts wrote
	verifG.taOK = ok
	if ok == 1 {
		verifSomeFp(xOut)
		verifSomeFp(yOut)
	}
	return ok
}

func verifPtNeg(p, v *p256Impl.Point) {
	verifG.negCalls++
	verifG.negRecv, verifG.negArg = p, v
	var x, z p256Impl.Fp
	x.Set(&v.X)
	z.Set(&v.Z)
	p.X.Set(&x)
	verifSomeFp(&p.Y)
	p.Z.Set(&z)
}

func verifReplacements() map[string]any {
	const fp = "(*github.com/bronlabs/bron-crypto/pkg/base/curves/p256/impl.Fp)."
	const pt = "(*github.com/bronlabs/bron-crypto/pkg/base/curves/impl/points.ShortWeierstrassPointImpl)."
	return map[string]any{
		fp + "SetBytes":       verifFpSetBytes,
		fp + "IsZero":         verifFpIsZero,
		fp + "Bytes":          verifFpBytes,
		pt + "SetFromAffineX": verifPtSetFromAffineX,
		pt + "SetAffine":      verifPtSetAffine,
		pt + "ToAffine":       verifPtToAffine,
		pt + "Neg":            verifPtNeg,
	}
}

// ---- helpers

// verifDecode runs a decoder and reports a panic instead of propagating it.
func verifDecode(compressed bool, in []byte) (p *Point, err error, panicked bool) {
	defer func() {
		if r := recover(); r != nil {
			panicked = true
		}
	}()
	c := &Curve{}
	if compressed {
		p, err = c.FromCompressed(in)
	} else {
		p, err = c.FromUncompressed(in)
	}
	return p, err, false
}

func verifNoContractCalled() bool {
	g := &verifG
	return g.nSetBytes == 0 && g.isZeroGhost+g.isZeroReal == 0 && g.sfaxCalls == 0 && g.saCalls == 0 &&
		g.taCalls == 0 && g.bytesCalls == 0 && g.negCalls == 0
}

// verifLE32: b (32 bytes, big-endian as on the wire) reversed, as the decoders hand it to SetBytes.
func verifLE32(b []byte) (out [32]byte) {
	for i := 0; i < 32; i++ {
		out[i] = b[31-i]
	}
	return out
}

func verifAllZero(b []byte) bool {
	var acc byte
	for _, x := range b {
		acc |= x
	}
	return acc == 0
}

func verifIsIdentity(p *Point) bool {
	var id Point
	id.V.SetZero()
	return p != nil && verifSameValue(p.V, id.V)
}

func verifWireLen() int {
	switch verifLen(0, 6) {
	case 0:
		return 0
	case 1:
		return 32
	case 2:
		return 33
	case 3:
		return 34
	case 4:
		return 64
	case 5:
		return 65
	}
	return 66
}

// ---- FromCompressed
//
// Control flow of the harnesses below depends only on what the native twin observes as well
// (input, returned point, error); everything that reads the ghost record verifG is stated with
// verifAssertGhost (a counterexample there is inconclusive, never VIOLATION, because the native
// twin runs the real functions and has no ghost record).

// H_p256dec_compressed: all obligations for FromCompressed, input = arbitrary bytes of length
// 0, 32, 33, 34, 64, 65 or 66.
func H_p256dec_compressed() {
	n := verifWireLen()
	in := verifBytes(n)
	inCopy := append([]byte{}, in...)
	verifReach("p256dec_compressed")
	p, err, panicked := verifDecode(true, in)
	g := &verifG

	verifAssert("comp.no_panic", !panicked)
	verifAssert("comp.input_not_modified", bytes.Equal(in, inCopy))
	verifAssert("comp.point_xor_error", (p == nil) != (err == nil))
	if n != 33 {
		verifAssert("comp.wrong_length_rejected", p == nil && err != nil && errors.Is(err, curves.ErrInvalidLength))
		verifAssertGhost("comp.wrong_length_touches_nothing", verifNoContractCalled())
		return
	}
	tag := in[0]
	if tag != 2 && tag != 3 {
		verifAssert("comp.bad_tag_rejected", p == nil && err != nil && errors.Is(err, curves.ErrFailed))
		verifAssertGhost("comp.bad_tag_touches_nothing", verifNoContractCalled())
		return
	}
	verifReach("p256dec_compressed_wellformed")
	// the x coordinate: exactly input[1:33], reversed to little-endian, decoded once
	sb := &g.setBytes[0]
	verifAssertGhost("comp.x_decoded_once_from_bytes_1_to_33_reversed", g.nSetBytes == 1 && sb.n == 32 && sb.data == verifLE32(inCopy[1:33]))
	verifAssertGhost("comp.zero_test_on_decoded_x", g.isZeroGhost == 1 && g.isZeroReal == 0)
	if verifAllZero(inCopy[1:33]) {
		verifReach("p256dec_compressed_x0")
		verifAssert("comp.x_zero_is_identity", err == nil && verifIsIdentity(p))
	}
	if err != nil {
		verifReach("p256dec_compressed_rejected")
		verifAssert("comp.wellformed_rejected_only_as_invalid_coordinates", p == nil && errors.Is(err, curves.ErrInvalidCoordinates))
		verifAssertGhost("comp.rejected_iff_membership_test_on_decoded_x_said_no",
			sb.zero != 1 && g.sfaxCalls == 1 && g.sfaxOK != 1 && g.sfaxX == sb.recv && verifSameValue(g.sfaxXVal, sb.val))
		verifAssertGhost("comp.rejected_no_further_calls", g.saCalls == 0 && g.taCalls == 0 && g.bytesCalls == 0 && g.negCalls == 0)
		return
	}
	if p == nil {
		return // excluded by comp.point_xor_error
	}
	if verifIsIdentity(p) {
		// what the code does: x = 0 (mod p) is taken as the identity, without a membership test.
		// Whether that is RIGHT is the subject of H_p256dec_compressed_identity_form /
		// _membership_no below (P-256 has the points (0, +-sqrt b)).
		verifReach("p256dec_compressed_identity")
		verifAssertGhost("comp.identity_only_for_zero_x_without_membership_test",
			sb.zero == 1 && g.sfaxCalls == 0 && g.saCalls == 0 && g.taCalls == 0 && g.negCalls == 0)
		return
	}
	verifReach("p256dec_compressed_accepted")
	verifAssertGhost("comp.accepted_iff_membership_test_on_decoded_x_said_yes",
		sb.zero != 1 && g.sfaxCalls == 1 && g.saCalls == 0 && g.sfaxOK == 1 && g.sfaxX == sb.recv && verifSameValue(g.sfaxXVal, sb.val))
	verifAssertGhost("comp.returned_point_is_the_tested_one", g.sfaxRecv == &p.V)
	verifAssertGhost("comp.returned_x_is_decoded_x", verifSameValue(p.V.X, sb.val))
	verifAssert("comp.returned_point_is_affine", p.V.Z.IsOne() == 1)
	verifAssertGhost("comp.to_affine_succeeds", g.taCalls == 1 && g.taRecv == &p.V && g.taOK == 1)
	verifAssertGhost("comp.parity_read_from_returned_y", g.bytesCalls == 1 && g.bytesRecv == &p.V.Y)
	verifAssertGhost("comp.negated_exactly_when_parity_differs",
		(g.bytesParity != tag&1 && g.negCalls == 1 && g.negRecv == &p.V && g.negArg == &p.V) ||
			(g.bytesParity == tag&1 && g.negCalls == 0))
	// parity of the returned y = parity read, flipped once per negation (fact about Neg, see top)
	verifAssertGhost("comp.returned_y_parity_is_tag_bit", (g.bytesParity^byte(g.negCalls&1)) == tag&1)
}

// ---- FromUncompressed

// H_p256dec_uncompressed: all obligations for FromUncompressed, same input lengths.
func H_p256dec_uncompressed() {
	n := verifWireLen()
	in := verifBytes(n)
	inCopy := append([]byte{}, in...)
	verifReach("p256dec_uncompressed")
	p, err, panicked := verifDecode(false, in)
	g := &verifG

	verifAssert("unc.no_panic", !panicked)
	verifAssert("unc.input_not_modified", bytes.Equal(in, inCopy))
	verifAssert("unc.point_xor_error", (p == nil) != (err == nil))
	if n != 65 {
		verifAssert("unc.wrong_length_rejected", p == nil && err != nil && errors.Is(err, curves.ErrInvalidLength))
		verifAssertGhost("unc.wrong_length_touches_nothing", verifNoContractCalled())
		return
	}
	if in[0] != 4 {
		verifAssert("unc.bad_tag_rejected", p == nil && err != nil && errors.Is(err, curves.ErrFailed))
		verifAssertGhost("unc.bad_tag_touches_nothing", verifNoContractCalled())
		return
	}
	verifReach("p256dec_uncompressed_wellformed")
	sx, sy := &g.setBytes[0], &g.setBytes[1]
	verifAssertGhost("unc.x_then_y_decoded_from_bytes_1_to_33_and_33_to_65_reversed",
		g.nSetBytes == 2 && sx.n == 32 && sy.n == 32 && sx.recv != sy.recv &&
			sx.data == verifLE32(inCopy[1:33]) && sy.data == verifLE32(inCopy[33:65]))
	verifAssertGhost("unc.never_uses_compressed_route", g.sfaxCalls == 0 && g.taCalls == 0 && g.bytesCalls == 0 && g.negCalls == 0)
	if verifAllZero(inCopy[1:65]) {
		verifReach("p256dec_uncompressed_00")
		verifAssert("unc.all_zero_is_identity", err == nil && verifIsIdentity(p))
	}
	if err != nil {
		verifReach("p256dec_uncompressed_rejected")
		verifAssert("unc.wellformed_rejected_only_as_invalid_coordinates", p == nil && errors.Is(err, curves.ErrInvalidCoordinates))
		verifAssertGhost("unc.rejected_iff_membership_test_on_decoded_x_y_said_no",
			!(sx.zero == 1 && sy.zero == 1) && g.saCalls == 1 && g.saOK != 1 &&
				g.saX == sx.recv && g.saY == sy.recv && verifSameValue(g.saXVal, sx.val) && verifSameValue(g.saYVal, sy.val))
		return
	}
	if p == nil {
		return // excluded by unc.point_xor_error
	}
	if verifIsIdentity(p) {
		verifReach("p256dec_uncompressed_identity")
		verifAssertGhost("unc.identity_only_for_zero_zero_without_membership_test", sx.zero == 1 && sy.zero == 1 && g.saCalls == 0)
		return
	}
	verifReach("p256dec_uncompressed_accepted")
	verifAssertGhost("unc.accepted_iff_membership_test_on_decoded_x_y_said_yes",
		!(sx.zero == 1 && sy.zero == 1) && g.saCalls == 1 && g.saOK == 1 &&
			g.saX == sx.recv && g.saY == sy.recv && verifSameValue(g.saXVal, sx.val) && verifSameValue(g.saYVal, sy.val))
	verifAssertGhost("unc.returned_point_is_the_tested_one", g.saRecv == &p.V)
	verifAssertGhost("unc.returned_coordinates_are_the_decoded_ones", verifSameValue(p.V.X, sx.val) && verifSameValue(p.V.Y, sy.val))
	verifAssert("unc.returned_point_is_affine", p.V.Z.IsOne() == 1)
}

// ---- identity forms and acceptance without the curve-equation routine (result-level, native)
//
// Documented identity encodings = what the encoders emit for the identity (curve.go ToCompressed /
// ToUncompressed): 02 || 0^32 and 04 || 0^64.

// H_p256dec_compressed_identity_form: the decoder returns the identity only for 02 || 0^32.
// Stated on (input, result) only. On the current tree this is expected to be VIOLATED twice:
// tag 03 with x = 0 (that byte string is the encoding ToCompressed emits for the curve point
// (0, y) with y odd), and x = p (non-canonical zero).
func H_p256dec_compressed_identity_form() {
	in := verifBytes(33)
	verifReach("p256dec_compid")
	p, err, panicked := verifDecode(true, in)
	verifAssert("compid.no_panic", !panicked)
	if err == nil && p != nil && verifIsIdentity(p) {
		verifReach("p256dec_compid_identity")
		verifAssert("compid.identity_only_with_tag_02", in[0] == 2)
		// what does hold: the x bytes are 0 or p
		verifAssert("compid.identity_only_with_x_bytes_0_or_p", verifAllZero(in[1:33]) || verifIsP(in[1:33]))
	}
}

// H_p256dec_uncompressed_identity_form: the decoder returns the identity only for 04 || 0^64.
// Expected on the current tree: violated by coordinates equal to p (non-canonical zero); what
// holds is "each coordinate is 0 or p".
func H_p256dec_uncompressed_identity_form() {
	in := verifBytes(65)
	verifReach("p256dec_uncid")
	p, err, panicked := verifDecode(false, in)
	verifAssert("uncid.no_panic", !panicked)
	if err == nil && p != nil && verifIsIdentity(p) {
		verifReach("p256dec_uncid_identity")
		verifAssert("uncid.identity_only_with_both_coordinates_0_or_p",
			(verifAllZero(in[1:33]) || verifIsP(in[1:33])) && (verifAllZero(in[33:65]) || verifIsP(in[33:65])))
	}
}

// H_p256dec_compressed_membership_no: with the curve-equation contracts answering "no" on the
// whole path, whatever is still accepted was accepted without SetFromAffineX/SetAffine having
// said yes. Natively the same byte string is accepted as well (the real decoder takes the same
// shortcut), so a counterexample is confirmed natively although the condition is about the
// contracts' answer.
func H_p256dec_compressed_membership_no() {
	n := verifWireLen()
	in := verifBytes(n)
	verifG.forceNo = true
	verifReach("p256dec_compno")
	_, err, panicked := verifDecode(true, in)
	verifAssert("compno.no_panic", !panicked)
	if err == nil {
		verifReach("p256dec_compno_accepted")
		verifAssert("compno.accepted_without_membership_only_wellformed", n == 33 && (in[0] == 2 || in[0] == 3))
		if n == 33 {
			verifAssert("compno.accepted_without_membership_only_with_tag_02", in[0] == 2)
			verifAssert("compno.accepted_without_membership_only_x_bytes_0_or_p", verifAllZero(in[1:33]) || verifIsP(in[1:33]))
		}
	}
}

// H_p256dec_uncompressed_membership_no: same for FromUncompressed. In particular an input with
// exactly ONE zero coordinate must not be accepted here.
func H_p256dec_uncompressed_membership_no() {
	n := verifWireLen()
	in := verifBytes(n)
	verifG.forceNo = true
	verifReach("p256dec_uncno")
	_, err, panicked := verifDecode(false, in)
	verifAssert("uncno.no_panic", !panicked)
	if err == nil {
		verifReach("p256dec_uncno_accepted")
		verifAssert("uncno.accepted_without_membership_only_wellformed", n == 65 && in[0] == 4)
		if n == 65 {
			xz := verifAllZero(in[1:33]) || verifIsP(in[1:33])
			yz := verifAllZero(in[33:65]) || verifIsP(in[33:65])
			verifAssert("uncno.one_zero_coordinate_is_not_enough", xz && yz)
		}
	}
}

// ---- controls

// H_p256dec_compressed_MUSTFAIL: wrong twin (claims only tag 2 is ever accepted). The input is
// restricted to x = 0 so that the counterexample (tag 3, identity) does not depend on a contract
// and replays natively.
func H_p256dec_compressed_MUSTFAIL() {
	in := make([]byte, 33)
	in[0] = verifU8()
	verifReach("p256dec_compressed_mustfail")
	_, err, _ := verifDecode(true, in)
	verifAssert("comp.wrong_only_tag2_accepted", err != nil || in[0] == 2)
}

// H_p256dec_uncompressed_MUSTFAIL: wrong twin (claims a 64-byte input without tag is accepted).
func H_p256dec_uncompressed_MUSTFAIL() {
	in := verifBytes(64)
	verifReach("p256dec_uncompressed_mustfail")
	_, err, _ := verifDecode(false, in)
	verifAssert("unc.wrong_length64_accepted", err == nil)
}

// H_p256dec_generator_native_sanity: concrete anchor that involves no symbolic input: the
// generator's compressed encoding is handled by the contracts as an on-curve or off-curve x (both
// outcomes appear) and is never rejected for its length or tag. (Natively the real code accepts it.)
func H_p256dec_generator_sanity() {
	in := []byte{0x03, // P-256 base point, y odd
		0x6B, 0x17, 0xD1, 0xF2, 0xE1, 0x2C, 0x42, 0x47, 0xF8, 0xBC, 0xE6, 0xE5, 0x63, 0xA4, 0x40, 0xF2,
		0x77, 0x03, 0x7D, 0x81, 0x2D, 0xEB, 0x33, 0xA0, 0xF4, 0xA1, 0x39, 0x45, 0xD8, 0x98, 0xC2, 0x96}
	verifReach("p256dec_generator")
	p, err, panicked := verifDecode(true, in)
	verifAssert("gen.no_panic", !panicked)
	if err != nil {
		verifAssert("gen.only_membership_can_reject", errors.Is(err, curves.ErrInvalidCoordinates))
		verifAssertGhost("gen.rejected_by_membership_test", verifG.sfaxCalls == 1 && verifG.sfaxOK == 0)
	} else {
		verifReach("p256dec_generator_accepted")
		verifAssert("gen.accepted_point", p != nil)
		verifAssertGhost("gen.accepted_by_membership_test_or_zero_flag", verifG.sfaxCalls+verifG.isZeroGhost >= 1)
	}
}
