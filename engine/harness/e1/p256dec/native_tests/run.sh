#!/bin/sh
# re-creates the scratch copy of /repo with the E1D native tests and runs them (never writes /repo)
set -e
export GOPROXY=off GOSUMDB=off GOTOOLCHAIN=local CGO_ENABLED=0
rm -rf /tmp/e1D/repo && cp -a /repo /tmp/e1D/repo
cp -a /tmp/e1D/native_tests/pkg /tmp/e1D/repo/
cd /tmp/e1D/repo
go1.26.8 test -tags purego -count=1 -v -run 'TestE1D' ./pkg/base/curves/p256/ ./pkg/base/curves/pairable/bls12381/ ./pkg/base/curves/edwards25519/
