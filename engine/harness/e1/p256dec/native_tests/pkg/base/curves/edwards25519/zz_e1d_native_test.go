package edwards25519_test

import (
	"encoding/hex"
	"testing"

	"github.com/bronlabs/bron-crypto/pkg/base/curves/edwards25519"
)

func TestE1D_Ed25519_NonCanonical(t *testing.T) {
	c := edwards25519.NewCurve()
	ps := edwards25519.NewPrimeSubGroup()
	for _, h := range []string{
		"0100000000000000000000000000000000000000000000000000000000000000", // identity, canonical
		"0100000000000000000000000000000000000000000000000000000000000080", // x = 0 with sign bit
		"eeffffffffffffffffffffffffffffffffffffffffffffffffffffffffffff7f", // y = p + 1
		"eeffffffffffffffffffffffffffffffffffffffffffffffffffffffffffffff", // y = p + 1, sign bit
		"ecffffffffffffffffffffffffffffffffffffffffffffffffffffffffffff7f", // (0,-1) order 2
		"ecffffffffffffffffffffffffffffffffffffffffffffffffffffffffffffff", // (0,-1) with sign bit
		"edffffffffffffffffffffffffffffffffffffffffffffffffffffffffffff7f", // y = p (=0): order 4
	} {
		b, _ := hex.DecodeString(h)
		p, err := c.FromCompressed(b)
		q, errq := ps.FromCompressed(b)
		if err != nil {
			t.Logf("%s: Curve rejected: %v", h, err)
		} else {
			t.Logf("%s: Curve ACCEPTED identity=%v torsionfree=%v re-encoded=%x", h, p.IsOpIdentity(), p.IsTorsionFree(), p.ToCompressed())
		}
		if errq != nil {
			t.Logf("%s: PrimeSubGroup rejected: %v", h, errq)
		} else {
			t.Logf("%s: PrimeSubGroup ACCEPTED identity=%v re-encoded=%x", h, q.IsOpIdentity(), q.ToCompressed())
		}
	}
}
