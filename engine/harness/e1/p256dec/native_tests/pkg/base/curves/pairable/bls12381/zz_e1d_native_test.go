package bls12381_test

import (
	"encoding/hex"
	"math/big"
	"testing"

	"github.com/bronlabs/bron-crypto/pkg/base/curves/pairable/bls12381"
)

var e1dP, _ = new(big.Int).SetString("1a0111ea397fe69a4b1ba7b6434bacd764774b84f38512bf6730d2a0f6b0f6241eabfffeb153ffffb9feffffffffaaab", 16)

// (b) infinity flag set together with other non-zero bytes.
func TestE1D_BLS_InfinityFlagWithGarbage(t *testing.T) {
	g1, g2 := bls12381.NewG1(), bls12381.NewG2()

	mk := func(n int, first byte) []byte {
		b := make([]byte, n)
		for i := range b {
			b[i] = byte(0x11 + i)
		}
		b[0] = first
		return b
	}
	type dec struct {
		name string
		f    func([]byte) (isID bool, enc string, err error)
		n    int
	}
	decs := []dec{
		{"G1.FromUncompressed", func(b []byte) (bool, string, error) {
			p, err := g1.FromUncompressed(b)
			if err != nil {
				return false, "", err
			}
			return p.IsOpIdentity(), hex.EncodeToString(p.ToUncompressed()), nil
		}, 96},
		{"G2.FromUncompressed", func(b []byte) (bool, string, error) {
			p, err := g2.FromUncompressed(b)
			if err != nil {
				return false, "", err
			}
			return p.IsOpIdentity(), hex.EncodeToString(p.ToUncompressed()), nil
		}, 192},
		{"G1.FromCompressed", func(b []byte) (bool, string, error) {
			p, err := g1.FromCompressed(b)
			if err != nil {
				return false, "", err
			}
			return p.IsOpIdentity(), hex.EncodeToString(p.ToCompressed()), nil
		}, 48},
		{"G2.FromCompressed", func(b []byte) (bool, string, error) {
			p, err := g2.FromCompressed(b)
			if err != nil {
				return false, "", err
			}
			return p.IsOpIdentity(), hex.EncodeToString(p.ToCompressed()), nil
		}, 96},
	}
	for _, d := range decs {
		for _, first := range []byte{0x40, 0x5f, 0x60, 0x7f, 0xc0, 0xc1, 0xdf, 0xe0, 0xff} {
			in := mk(d.n, first)
			id, enc, err := d.f(in)
			if err != nil {
				t.Logf("%s(first byte %#02x, rest 0x12,0x13,...): rejected: %v", d.name, first, err)
			} else {
				t.Logf("%s(first byte %#02x, rest 0x12,0x13,...): ACCEPTED identity=%v re-encoded=%s...", d.name, first, id, enc[:16])
				t.Errorf("%s accepts infinity flag with non-zero other bytes: input %x", d.name, in)
			}
		}
		// only the first byte non-zero besides the flag, and only a late byte non-zero
		for _, variant := range []string{"c0+lastbyte", "40+lastbyte", "41", "c1", "60zero", "e0zero", "40zero", "c0zero"} {
			in := make([]byte, d.n)
			switch variant {
			case "c0+lastbyte":
				in[0], in[d.n-1] = 0xc0, 1
			case "40+lastbyte":
				in[0], in[d.n-1] = 0x40, 1
			case "41":
				in[0] = 0x41
			case "c1":
				in[0] = 0xc1
			case "60zero":
				in[0] = 0x60
			case "e0zero":
				in[0] = 0xe0
			case "40zero":
				in[0] = 0x40
			case "c0zero":
				in[0] = 0xc0
			}
			id, _, err := d.f(in)
			if err != nil {
				t.Logf("%s(%s): rejected: %v", d.name, variant, err)
			} else {
				t.Logf("%s(%s): ACCEPTED identity=%v", d.name, variant, id)
			}
		}
	}
}

// non-canonical x: x + p < 2^381 for a subgroup point with small x.
func TestE1D_BLS_G1_NonCanonicalX(t *testing.T) {
	g1 := bls12381.NewG1()
	limit := new(big.Int).Sub(new(big.Int).Lsh(big.NewInt(1), 381), e1dP) // x < 2^381 - p
	P := g1.Generator()
	G := g1.Generator()
	for k := 1; k < 200; k++ {
		enc := P.ToCompressed()
		x := new(big.Int).SetBytes(append([]byte{enc[0] & 0x1f}, enc[1:]...))
		if x.Cmp(limit) < 0 {
			xp := new(big.Int).Add(x, e1dP)
			nc := xp.FillBytes(make([]byte, 48))
			nc[0] |= enc[0] & 0xe0
			Q, err := g1.FromCompressed(nc)
			t.Logf("k=%d canonical   = %x", k, enc)
			t.Logf("k=%d x+p encoded = %x", k, nc)
			if err != nil {
				t.Logf("  rejected: %v", err)
			} else {
				t.Logf("  ACCEPTED equal-to-kG=%v re-encoded=%x", Q.Equal(P), Q.ToCompressed())
				t.Errorf("G1.FromCompressed accepts x >= p (non-canonical encoding of %d*G)", k)
			}
			// uncompressed with x+p and y+p if possible
			unc := P.ToUncompressed()
			copy(unc[:48], xp.FillBytes(make([]byte, 48)))
			Q2, err2 := g1.FromUncompressed(unc)
			if err2 != nil {
				t.Logf("  uncompressed x+p rejected: %v", err2)
			} else {
				t.Logf("  uncompressed x+p ACCEPTED equal=%v  input=%x", Q2.Equal(P), unc)
			}
			// flag bits in uncompressed: compression flag / sort flag set
			unc = P.ToUncompressed()
			for _, fl := range []byte{0x80, 0x20, 0xa0} {
				u := append([]byte{}, unc...)
				u[0] |= fl
				Q3, err3 := g1.FromUncompressed(u)
				if err3 != nil {
					t.Logf("  uncompressed with flag bits %#02x rejected: %v", fl, err3)
				} else {
					t.Logf("  uncompressed with flag bits %#02x ACCEPTED equal=%v", fl, Q3.Equal(P))
				}
			}
			return
		}
		P = P.Op(G)
	}
	t.Log("no small-x multiple found")
}
