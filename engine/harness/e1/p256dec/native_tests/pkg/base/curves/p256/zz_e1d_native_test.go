package p256_test

import (
	"bytes"
	"encoding/hex"
	"testing"

	"github.com/bronlabs/bron-crypto/pkg/base/curves/p256"
)

func mustHex(t *testing.T, s string) []byte {
	t.Helper()
	b, err := hex.DecodeString(s)
	if err != nil {
		t.Fatal(err)
	}
	return b
}

const (
	sqrtBEven = "66485c780e2f83d72433bd5d84a06bb6541c2af31dae871728bf856a174f93f4"
	sqrtBOdd  = "99b7a386f1d07c29dbcc42a27b5f9449abe3d50de25178e8d7407a95e8b06c0b"
	zero32    = "0000000000000000000000000000000000000000000000000000000000000000"
	pHex      = "ffffffff00000001000000000000000000000000ffffffffffffffffffffffff"
)

// (a) the curve points (0, +-sqrt(b)): encode / decode.
func TestE1D_P256_XZeroPoints(t *testing.T) {
	c := p256.NewCurve()
	for _, yh := range []string{sqrtBEven, sqrtBOdd} {
		unc := mustHex(t, "04"+zero32+yh)
		P, err := c.FromUncompressed(unc)
		t.Logf("FromUncompressed(04||0||%s): err=%v", yh, err)
		if err != nil {
			continue
		}
		t.Logf("  P.IsOpIdentity=%v  P=%s", P.IsOpIdentity(), P.String())
		// also through FromAffine
		x0, _ := p256.NewBaseField().FromBytes(mustHex(t, zero32))
		y0, _ := p256.NewBaseField().FromBytes(mustHex(t, yh))
		PA, errA := c.FromAffine(x0, y0)
		t.Logf("  FromAffine(0, y): err=%v equal-to-P=%v", errA, errA == nil && PA.Equal(P))
		// on-curve sanity through the group law: n*P == identity, 2P != identity
		t.Logf("  P+P identity? %v ; P.IsTorsionFree=%v", P.Op(P).IsOpIdentity(), P.IsTorsionFree())
		enc := P.ToCompressed()
		t.Logf("  ToCompressed(P)   = %x", enc)
		t.Logf("  ToCompressed(identity) = %x", c.OpIdentity().ToCompressed())
		Q, errQ := c.FromCompressed(enc)
		if errQ != nil {
			t.Logf("  FromCompressed(ToCompressed(P)): err=%v", errQ)
		} else {
			t.Logf("  FromCompressed(ToCompressed(P)): identity=%v equal-to-P=%v", Q.IsOpIdentity(), Q.Equal(P))
			if !Q.Equal(P) {
				t.Errorf("ROUND TRIP BROKEN: decode(encode(P)) != P for P=(0,%s): encoding %x decodes to identity=%v", yh, enc, Q.IsOpIdentity())
			}
		}
		if bytes.Equal(enc, c.OpIdentity().ToCompressed()) {
			t.Errorf("ENCODING NOT INJECTIVE: ToCompressed((0,%s)) == ToCompressed(identity) == %x", yh, enc)
		}
		encU := P.ToUncompressed()
		QU, errU := c.FromUncompressed(encU)
		t.Logf("  ToUncompressed(P) = %x ; decode err=%v equal=%v", encU, errU, errU == nil && QU.Equal(P))
	}
}

// non-canonical coordinates: x = p, y = p are accepted and reduced.
func TestE1D_P256_NonCanonical(t *testing.T) {
	c := p256.NewCurve()
	for _, in := range []string{
		"02" + pHex, "03" + pHex, "03" + zero32,
		"04" + pHex + pHex, "04" + zero32 + pHex, "04" + pHex + zero32,
		"04" + pHex + sqrtBEven, // (p, sqrt b) == (0, sqrt b)
	} {
		var P *p256.Point
		var err error
		b := mustHex(t, in)
		if b[0] == 4 {
			P, err = c.FromUncompressed(b)
		} else {
			P, err = c.FromCompressed(b)
		}
		if err != nil {
			t.Logf("%s: rejected: %v", in, err)
		} else {
			t.Logf("%s: ACCEPTED identity=%v re-encoded=%x", in, P.IsOpIdentity(), P.ToUncompressed())
		}
	}
	// generator with x+p does not fit 256 bits for P-256 (2p > 2^256) unless x < 2^256-p; skip.
}
