package bls12381_test

import (
	"fmt"
	"math/big"
	"strings"
	"testing"

	"github.com/bronlabs/bron-crypto/pkg/base/curves/pairable/bls12381"
	bls12381Impl "github.com/bronlabs/bron-crypto/pkg/base/curves/pairable/bls12381/impl"
)

func goLit(b []byte) string {
	var sb strings.Builder
	for i, x := range b {
		if i%16 == 0 {
			sb.WriteString("\n\t\t")
		}
		fmt.Fprintf(&sb, "0x%02x, ", x)
	}
	return sb.String()
}

func TestE1D_Vectors(t *testing.T) {
	g1, g2 := bls12381.NewG1(), bls12381.NewG2()
	P := g1.Generator().Op(g1.Generator())
	c := P.ToCompressed()
	u := P.ToUncompressed()
	x := new(big.Int).SetBytes(append([]byte{c[0] & 0x1f}, c[1:]...))
	xp := new(big.Int).Add(x, e1dP)
	cnc := xp.FillBytes(make([]byte, 48))
	cnc[0] |= c[0] & 0xe0
	unc := append([]byte{}, u...)
	copy(unc[:48], xp.FillBytes(make([]byte, 48)))
	fmt.Println("G1 2G compressed:", goLit(c))
	fmt.Println("G1 2G compressed x+p:", goLit(cnc))
	fmt.Println("G1 2G uncompressed:", goLit(u))
	fmt.Println("G1 2G uncompressed x+p:", goLit(unc))
	for _, b := range [][]byte{cnc} {
		_, err := g1.FromCompressed(b)
		fmt.Println("  accepted:", err == nil)
	}
	for _, b := range [][]byte{unc} {
		_, err := g1.FromUncompressed(b)
		fmt.Println("  accepted:", err == nil)
	}
	Q := g2.Generator()
	c2 := Q.ToCompressed()
	u2 := Q.ToUncompressed()
	x0 := new(big.Int).SetBytes(c2[48:96])
	x0p := new(big.Int).Add(x0, e1dP)
	c2nc := append([]byte{}, c2...)
	copy(c2nc[48:96], x0p.FillBytes(make([]byte, 48)))
	u2nc := append([]byte{}, u2...)
	copy(u2nc[48:96], x0p.FillBytes(make([]byte, 48)))
	fmt.Println("G2 G compressed:", goLit(c2))
	fmt.Println("G2 G compressed x0+p:", goLit(c2nc))
	fmt.Println("G2 G uncompressed:", goLit(u2))
	fmt.Println("G2 G uncompressed x0+p:", goLit(u2nc))
	_, err := g2.FromCompressed(c2nc)
	fmt.Println("  G2 compressed x0+p accepted:", err == nil)
	_, err = g2.FromUncompressed(u2nc)
	fmt.Println("  G2 uncompressed x0+p accepted:", err == nil)
	for _, fl := range []byte{0x80, 0x20, 0xa0} {
		w := append([]byte{}, u2...)
		w[0] |= fl
		_, err = g2.FromUncompressed(w)
		fmt.Printf("  G2 uncompressed flags %#02x accepted: %v\n", fl, err == nil)
	}

	// on-curve points OUTSIDE the prime-order subgroup
	for v := uint64(1); v < 100; v++ {
		var x bls12381Impl.Fp
		x.SetUint64(v)
		var p bls12381.PointG1
		if p.V.SetFromAffineX(&x) != 1 {
			continue
		}
		if p.IsTorsionFree() {
			continue
		}
		fmt.Println("G1 offsubgroup compressed:", goLit(p.ToCompressed()))
		fmt.Println("G1 offsubgroup uncompressed:", goLit(p.ToUncompressed()))
		_, e1 := g1.FromCompressed(p.ToCompressed())
		_, e2 := g1.FromUncompressed(p.ToUncompressed())
		fmt.Printf("  G1 off-subgroup point x=%d: FromCompressed err=%v FromUncompressed err=%v\n", v, e1, e2)
		break
	}
	for v := uint64(1); v < 100; v++ {
		var x bls12381Impl.Fp2
		x.U0.SetUint64(v)
		x.U1.SetZero()
		var p bls12381.PointG2
		if p.V.SetFromAffineX(&x) != 1 {
			continue
		}
		if p.IsTorsionFree() {
			continue
		}
		fmt.Println("G2 offsubgroup compressed:", goLit(p.ToCompressed()))
		fmt.Println("G2 offsubgroup uncompressed:", goLit(p.ToUncompressed()))
		_, e1 := g2.FromCompressed(p.ToCompressed())
		_, e2 := g2.FromUncompressed(p.ToUncompressed())
		fmt.Printf("  G2 off-subgroup point x=(%d,0): FromCompressed err=%v FromUncompressed err=%v\n", v, e1, e2)
		break
	}
}
