//go:build verif_e1

package bls

import (
	"bytes"
	"errors"

	"github.com/bronlabs/bron-crypto/pkg/base/curves"
	"github.com/bronlabs/bron-crypto/pkg/base/curves/impl/traits"
	"github.com/bronlabs/bron-crypto/pkg/base/curves/pairable"
	"github.com/bronlabs/bron-crypto/pkg/base/curves/pairable/bls12381"
	bls12381Impl "github.com/bronlabs/bron-crypto/pkg/base/curves/pairable/bls12381/impl"
	"github.com/bronlabs/bron-crypto/pkg/signatures"
)

// E1 harnesses for property C15 (BLS part): (*Verifier).AggregateVerify of
// pkg/signatures/bls/participants.go together with what it calls in core.go (popVerify, coreVerify,
// coreAggregateVerify, AugmentMessage) and types.go (AggregateAll, TryAdd, GetDst, GetPopDst),
// instantiated with BLS12-381 in the minimal-pubkey-size variant (keys in G1, signatures in G2), in
// the three rogue-key modes Basic, MessageAugmentation and POP.
//
// What is checked is the CONTROL FLOW: which precondition is tested in which order with which
// error, which proof is checked against which key, which message / tag is hashed, and that the
// verdict is the pairing's verdict exactly when every precondition holds. Pairings, hash-to-curve
// and point arithmetic are not encodable; the routines of the bls12381 wrapper layer that the code
// calls are replaced by CONTRACTS: points are opaque objects (identified by their address) with two
// facts each, "is the identity" and "is in the prime-order subgroup"; HashWithDst, ScalarBaseMul,
// Add, Neg are uninterpreted functions of their operands (memo tables in ghost state); MultiPair is
// an uninterpreted predicate ("product of pairings is one") of the two operand lists.
//
// The obligations are stated on RESULTS. The harness states the preconditions itself and obtains
// the verdicts of the proof-of-possession checks and of the final pairing check by calling
// popVerify / coreVerify / coreAggregateVerify itself (same oracle answers under the interpreter,
// the real arithmetic natively). The oracle answers that matter are harness INPUTS (popValid[i],
// aggValid, identity / subgroup facts); the native twin builds a REAL situation with exactly those
// properties (real keys, real proofs of possession, a real aggregate signature, each deliberately
// wrong where the input says so), so counterexamples replay natively. A point outside the
// prime-order subgroup is not built natively (verifSkipReplay).
//
// Not checked here: the pairing algebra (that the product of pairings is one exactly for a valid
// aggregate): it is about the replaced routines (engine E2). The minimal-signature-size variant
// (keys in G2) runs the same generic code with the type arguments swapped and is not instantiated.

const (
	verifBK  = "github.com/bronlabs/bron-crypto/pkg/base/curves/pairable/bls12381"
	verifBIM = verifBK + "/impl"
	verifBT  = "github.com/bronlabs/bron-crypto/pkg/base/curves/impl/traits"
)

type (
	verifG1 = bls12381.PointG1
	verifG2 = bls12381.PointG2
	verifGt = bls12381.GtElement

	verifPtT1 = traits.PointTrait[*bls12381Impl.Fp, *bls12381Impl.G1Point, bls12381Impl.G1Point, *bls12381.PointG1, bls12381.PointG1]
	verifPtT2 = traits.PointTrait[*bls12381Impl.Fp2, *bls12381Impl.G2Point, bls12381Impl.G2Point, *bls12381.PointG2, bls12381.PointG2]
	verifCvT1 = traits.CurveTrait[*bls12381Impl.Fp, *bls12381Impl.G1Point, *bls12381.PointG1, bls12381.PointG1]
	verifCvT2 = traits.CurveTrait[*bls12381Impl.Fp2, *bls12381Impl.G2Point, *bls12381.PointG2, bls12381.PointG2]
	verifPcT1 = traits.PrimeCurveTrait[*bls12381Impl.Fp, *bls12381Impl.G1Point, *bls12381.PointG1, bls12381.PointG1]
	verifPcT2 = traits.PrimeCurveTrait[*bls12381Impl.Fp2, *bls12381Impl.G2Point, *bls12381.PointG2, bls12381.PointG2]

	verifPK     = PublicKey[*bls12381.PointG1, *bls12381.BaseFieldElementG1, *bls12381.PointG2, *bls12381.BaseFieldElementG2, *bls12381.GtElement, *bls12381.Scalar]
	verifSig    = Signature[*bls12381.PointG2, *bls12381.BaseFieldElementG2, *bls12381.PointG1, *bls12381.BaseFieldElementG1, *bls12381.GtElement, *bls12381.Scalar]
	verifPop    = ProofOfPossession[*bls12381.PointG2, *bls12381.BaseFieldElementG2, *bls12381.PointG1, *bls12381.BaseFieldElementG1, *bls12381.GtElement, *bls12381.Scalar]
	verifVerifT = Verifier[*bls12381.PointG1, *bls12381.BaseFieldElementG1, *bls12381.PointG2, *bls12381.BaseFieldElementG2, *bls12381.GtElement, *bls12381.Scalar]
	verifSigGrp = curves.PairingFriendlyCurve[*bls12381.PointG2, *bls12381.BaseFieldElementG2, *bls12381.PointG1, *bls12381.BaseFieldElementG1, *bls12381.GtElement, *bls12381.Scalar]
)

// ---- ghost state

type verifP1 struct {
	p        *verifG1
	zero, tf bool
}

type verifP2 struct {
	p        *verifG2
	zero, tf bool
}

type verifSbm struct {
	k  uint64
	p1 *verifG1
	p2 *verifG2
}

type verifBin1 struct {
	a, b, res *verifG1
}

type verifBin2 struct {
	a, b, res *verifG2
}

type verifHash struct {
	dst string
	msg []byte
	res *verifG2
}

type verifPair struct {
	g2s     []*verifG2
	g1s     []*verifG1
	one     bool
	harness bool // the call was made while the harness computed its specification
}

type verifGtE struct {
	e   *verifGt
	one bool
}

var (
	verifP1s    []verifP1
	verifP2s    []verifP2
	verifSbm1   []verifSbm
	verifSbm2   []verifSbm
	verifNeg1   []verifBin1
	verifAdd1   []verifBin1
	verifNeg2   []verifBin2
	verifAdd2   []verifBin2
	verifHashes []verifHash
	verifPairs  []verifPair
	verifGts    []verifGtE
	verifGen1   *verifG1
	verifGen2   *verifG2

	verifNextNotTF bool // the next point made by ScalarBaseMul is outside the prime-order subgroup
	verifForce     bool // the next NEW MultiPair operand tuple gets the verdict verifForceVal
	verifForceVal  bool
	verifExpect    []verifPair // operand tuples whose verdict the harness fixed in advance
	verifInSpec    bool        // the harness is computing its specification
)

func verifNewP1(zero, tf bool) *verifG1 {
	p := new(verifG1)
	verifP1s = append(verifP1s, verifP1{p: p, zero: zero, tf: tf})
	return p
}

func verifNewP2(zero, tf bool) *verifG2 {
	p := new(verifG2)
	verifP2s = append(verifP2s, verifP2{p: p, zero: zero, tf: tf})
	return p
}

func verifInfo1(p *verifG1) *verifP1 {
	for i := range verifP1s {
		if verifP1s[i].p == p {
			return &verifP1s[i]
		}
	}
	panic("harness: G1 point that no contract produced")
}

func verifInfo2(p *verifG2) *verifP2 {
	for i := range verifP2s {
		if verifP2s[i].p == p {
			return &verifP2s[i]
		}
	}
	panic("harness: G2 point that no contract produced")
}

// the receiver of a PointTrait method is the address of the embedded trait = the address of the point
func verifOf1(t *verifPtT1) *verifG1 {
	for i := range verifP1s {
		if &verifP1s[i].p.PointTrait == t {
			return verifP1s[i].p
		}
	}
	panic("harness: G1 point that no contract produced")
}

func verifOf2(t *verifPtT2) *verifG2 {
	for i := range verifP2s {
		if &verifP2s[i].p.PointTrait == t {
			return verifP2s[i].p
		}
	}
	panic("harness: G2 point that no contract produced")
}

// ---- contracts: structures

func verifNewG1() *bls12381.G1                   { return &bls12381.G1{} }
func verifNewG2() *bls12381.G2                   { return &bls12381.G2{} }
func verifNewScalarField() *bls12381.ScalarField { return &bls12381.ScalarField{} }

type verifFamilyT = curves.PairingFriendlyFamily[*bls12381.PointG1, *bls12381.BaseFieldElementG1, *bls12381.PointG2, *bls12381.BaseFieldElementG2, *bls12381.GtElement, *bls12381.Scalar]

func verifNewFamily() verifFamilyT { return &pairable.BLS12381{} }

// ---- contracts: G1

// (*G1).Zero (the identity; OpIdentity calls it): a new point with the fact "identity".
func verifG1Zero(c *verifCvT1) *verifG1 { return verifNewP1(true, true) }

// (*G1).Generator: one fixed non-identity subgroup point.
func verifG1Generator(c *verifPcT1) *verifG1 {
	if verifGen1 == nil {
		verifGen1 = verifNewP1(false, true)
	}
	return verifGen1
}

func verifScalarKey(sc *bls12381.Scalar) uint64 {
	l := sc.V.Limbs()
	if l[1]|l[2]|l[3] != 0 {
		panic("harness: only small scalars are used")
	}
	return l[0]
}

// (*G1).ScalarBaseMul(k): uninterpreted function of k (k is concrete and small in the harnesses);
// the identity iff k = 0; in the subgroup unless the harness asked otherwise (such a point is not a
// multiple of the generator in reality: the harness only uses ScalarBaseMul as a source of points).
func verifG1ScalarBaseMul(c *bls12381.G1, sc *bls12381.Scalar) *verifG1 {
	k := verifScalarKey(sc)
	for i := range verifSbm1 {
		if verifSbm1[i].k == k {
			return verifSbm1[i].p1
		}
	}
	p := verifNewP1(k == 0, !verifNextNotTF)
	verifNextNotTF = false
	verifSbm1 = append(verifSbm1, verifSbm{k: k, p1: p})
	return p
}

// (*PointG1).IsZero / IsTorsionFree: the two facts.
func verifP1IsZero(t *verifPtT1) bool            { return verifInfo1(verifOf1(t)).zero }
func verifP1IsTorsionFree(p *verifG1) bool       { return verifInfo1(p).tf }
func verifP1Equal(t *verifPtT1, o *verifG1) bool { return verifOf1(t) == o }

// (*PointG1).ToCompressed: 48 bytes that determine the point (its index in the ghost table).
func verifP1ToCompressed(p *verifG1) []byte {
	out := make([]byte, 48)
	out[0] = 0x80
	for i := range verifP1s {
		if verifP1s[i].p == p {
			out[47] = byte(i + 1)
			return out
		}
	}
	panic("harness: G1 point that no contract produced")
}

// (*PointG1).Neg: uninterpreted function; keeps both facts.
func verifP1Neg(t *verifPtT1) *verifG1 {
	a := verifOf1(t)
	for i := range verifNeg1 {
		if verifNeg1[i].a == a {
			return verifNeg1[i].res
		}
	}
	ia := verifInfo1(a)
	res := verifNewP1(ia.zero, ia.tf)
	verifNeg1 = append(verifNeg1, verifBin1{a: a, res: res})
	return res
}

// (*PointG1).Add: uninterpreted function of the ordered pair; the sum of two subgroup points is a
// subgroup point; whether it is the identity is arbitrary.
func verifP1Add(t *verifPtT1, b *verifG1) *verifG1 {
	a := verifOf1(t)
	for i := range verifAdd1 {
		if verifAdd1[i].a == a && verifAdd1[i].b == b {
			return verifAdd1[i].res
		}
	}
	ia, ib := verifInfo1(a), verifInfo1(b)
	zero := verifU8()&1 == 1
	tf := verifU8()&1 == 1
	verifAssume(verifB2U(ia.tf)&verifB2U(ib.tf) <= verifB2U(tf))
	verifAssume(verifB2U(zero) <= verifB2U(tf))
	res := verifNewP1(zero, tf)
	verifAdd1 = append(verifAdd1, verifBin1{a: a, b: b, res: res})
	return res
}

// ---- contracts: G2

func verifG2Zero(c *verifCvT2) *verifG2 { return verifNewP2(true, true) }

func verifG2Generator(c *verifPcT2) *verifG2 {
	if verifGen2 == nil {
		verifGen2 = verifNewP2(false, true)
	}
	return verifGen2
}

func verifG2ScalarBaseMul(c *bls12381.G2, sc *bls12381.Scalar) *verifG2 {
	k := verifScalarKey(sc)
	for i := range verifSbm2 {
		if verifSbm2[i].k == k {
			return verifSbm2[i].p2
		}
	}
	p := verifNewP2(k == 0, !verifNextNotTF)
	verifNextNotTF = false
	verifSbm2 = append(verifSbm2, verifSbm{k: k, p2: p})
	return p
}

func verifP2IsZero(t *verifPtT2) bool      { return verifInfo2(verifOf2(t)).zero }
func verifP2IsTorsionFree(p *verifG2) bool { return verifInfo2(p).tf }

func verifP2Neg(t *verifPtT2) *verifG2 {
	a := verifOf2(t)
	for i := range verifNeg2 {
		if verifNeg2[i].a == a {
			return verifNeg2[i].res
		}
	}
	ia := verifInfo2(a)
	res := verifNewP2(ia.zero, ia.tf)
	verifNeg2 = append(verifNeg2, verifBin2{a: a, res: res})
	return res
}

func verifP2Add(t *verifPtT2, b *verifG2) *verifG2 {
	a := verifOf2(t)
	for i := range verifAdd2 {
		if verifAdd2[i].a == a && verifAdd2[i].b == b {
			return verifAdd2[i].res
		}
	}
	ia, ib := verifInfo2(a), verifInfo2(b)
	zero := verifU8()&1 == 1
	tf := verifU8()&1 == 1
	verifAssume(verifB2U(ia.tf)&verifB2U(ib.tf) <= verifB2U(tf))
	verifAssume(verifB2U(zero) <= verifB2U(tf))
	res := verifNewP2(zero, tf)
	verifAdd2 = append(verifAdd2, verifBin2{a: a, b: b, res: res})
	return res
}

// (*G2).HashWithDst(dst, msg): uninterpreted function of (dst, msg) (both concrete in the
// harnesses); a non-identity subgroup point (hash-to-curve clears the cofactor; the identity has
// negligible probability and is not modelled).
func verifG2HashWithDst(c *bls12381.G2, dst string, msg []byte) (*verifG2, error) {
	for i := range verifHashes {
		if verifHashes[i].dst == dst && bytes.Equal(verifHashes[i].msg, msg) {
			return verifHashes[i].res, nil
		}
	}
	res := verifNewP2(false, true)
	verifHashes = append(verifHashes, verifHash{dst: dst, msg: append([]byte{}, msg...), res: res})
	return res, nil
}

// (*G2).MultiPair(these, with): lengths differ: error (as the real code). Otherwise an element of Gt
// whose only property, "is one", is an uninterpreted predicate of the two operand lists; the
// harness can fix the verdict for a given operand tuple (verifExpect) or for the next new one
// (verifForce); every other new tuple gets an arbitrary verdict.
func verifG2MultiPair(c *bls12381.G2, these []*verifG2, with []*verifG1) (*verifGt, error) {
	if len(these) != len(with) {
		return nil, curves.ErrFailed.WithMessage("number of G1 and G2 points must match")
	}
	for _, p := range these {
		verifInfo2(p)
	}
	for _, p := range with {
		verifInfo1(p)
	}
	one, found := false, false
	for i := range verifPairs {
		o := &verifPairs[i]
		if len(o.g2s) != len(these) {
			continue
		}
		same := true
		for j := range these {
			if o.g2s[j] != these[j] || o.g1s[j] != with[j] {
				same = false
			}
		}
		if same {
			one, found = o.one, true
			break
		}
	}
	if !found {
		for i := range verifExpect {
			if o := &verifExpect[i]; len(o.g2s) == len(these) {
				same := true
				for j := range these {
					if o.g2s[j] != these[j] || o.g1s[j] != with[j] {
						same = false
					}
				}
				if same {
					one, found = o.one, true
					break
				}
			}
		}
	}
	if !found {
		if verifForce {
			one, verifForce = verifForceVal, false
		} else {
			one = verifU8()&1 == 1
		}
	}
	verifPairs = append(verifPairs, verifPair{g2s: append([]*verifG2{}, these...), g1s: append([]*verifG1{}, with...), one: one, harness: verifInSpec})
	e := new(verifGt)
	verifGts = append(verifGts, verifGtE{e: e, one: one})
	return e, nil
}

// (*GtElement).IsOne (IsOpIdentity calls it).
func verifGtIsOne(e *verifGt) bool {
	for i := range verifGts {
		if verifGts[i].e == e {
			return verifGts[i].one
		}
	}
	panic("harness: Gt element that no contract produced")
}

func verifReplacements() map[string]any {
	const a1 = "[*" + verifBIM + ".Fp, *" + verifBIM + ".G1Point, "
	const a2 = "[*" + verifBIM + ".Fp2, *" + verifBIM + ".G2Point, "
	const pt1 = "(*" + verifBT + ".PointTrait" + a1 + verifBIM + ".G1Point, *" + verifBK + ".PointG1, " + verifBK + ".PointG1])."
	const pt2 = "(*" + verifBT + ".PointTrait" + a2 + verifBIM + ".G2Point, *" + verifBK + ".PointG2, " + verifBK + ".PointG2])."
	const cv1 = "(*" + verifBT + ".CurveTrait" + a1 + "*" + verifBK + ".PointG1, " + verifBK + ".PointG1])."
	const cv2 = "(*" + verifBT + ".CurveTrait" + a2 + "*" + verifBK + ".PointG2, " + verifBK + ".PointG2])."
	const pc1 = "(*" + verifBT + ".PrimeCurveTrait" + a1 + "*" + verifBK + ".PointG1, " + verifBK + ".PointG1])."
	const pc2 = "(*" + verifBT + ".PrimeCurveTrait" + a2 + "*" + verifBK + ".PointG2, " + verifBK + ".PointG2])."
	return map[string]any{
		verifBK + ".NewG1":          verifNewG1,
		verifBK + ".NewG2":          verifNewG2,
		verifBK + ".NewScalarField": verifNewScalarField,
		"github.com/bronlabs/bron-crypto/pkg/base/curves/pairable.NewBLS12381": verifNewFamily,

		cv1 + "Zero":                          verifG1Zero,
		pc1 + "Generator":                     verifG1Generator,
		"(*" + verifBK + ".G1).ScalarBaseMul": verifG1ScalarBaseMul,
		pt1 + "IsZero":                        verifP1IsZero,
		pt1 + "Equal":                         verifP1Equal,
		pt1 + "Neg":                           verifP1Neg,
		pt1 + "Add":                           verifP1Add,
		"(*" + verifBK + ".PointG1).IsTorsionFree": verifP1IsTorsionFree,
		"(*" + verifBK + ".PointG1).ToCompressed":  verifP1ToCompressed,

		cv2 + "Zero":                               verifG2Zero,
		pc2 + "Generator":                          verifG2Generator,
		"(*" + verifBK + ".G2).ScalarBaseMul":      verifG2ScalarBaseMul,
		"(*" + verifBK + ".G2).HashWithDst":        verifG2HashWithDst,
		"(*" + verifBK + ".G2).MultiPair":          verifG2MultiPair,
		pt2 + "IsZero":                             verifP2IsZero,
		pt2 + "Neg":                                verifP2Neg,
		pt2 + "Add":                                verifP2Add,
		"(*" + verifBK + ".PointG2).IsTorsionFree": verifP2IsTorsionFree,

		"(*" + verifBK + ".GtElement).IsOne": verifGtIsOne,
	}
}

// ---- the scenario (harness inputs) and its construction (run by BOTH twins)

const verifMaxN = 3

type verifCase struct {
	mode       RogueKeyPreventionAlgorithm
	n, nm, np  int            // number of keys, messages, proofs of possession (0..3 each)
	msgSel     [verifMaxN]int // message j is verifPoolMsg(msgSel[j])
	pkZero     [verifMaxN]bool
	pkNotTF    [verifMaxN]bool
	sigZero    bool
	sigNotTF   bool
	popValid   [verifMaxN]bool
	aggValid   bool
	nilKeyList bool
}

// the message pool: three different non-empty messages, the empty message and the nil message
func verifPoolMsg(k int) []byte {
	switch k {
	case 0:
		return []byte("message A")
	case 1:
		return []byte("message B")
	case 2:
		return []byte("message C")
	case 3:
		return []byte{}
	}
	return nil
}

func verifSk(i int) *bls12381.Scalar { return bls12381.NewScalarField().FromUint64(uint64(1000 + i)) }

type verifWorld struct {
	scheme   *Scheme[*bls12381.PointG1, *bls12381.BaseFieldElementG1, *bls12381.PointG2, *bls12381.BaseFieldElementG2, *bls12381.GtElement, *bls12381.Scalar]
	vf       *verifVerifT
	pks      []*verifPK
	pkVals   []*verifG1
	msgs     []Message
	pops     []*verifPop
	sig      *verifSig
	dst      string
	popDst   string
	sigGroup verifSigGrp
}

func verifDstFor(mode RogueKeyPreventionAlgorithm) string {
	cs := BLS12381CipherSuite()
	switch mode {
	case Basic:
		return cs.DstSignatureBasicInTwistedGroup
	case MessageAugmentation:
		return cs.DstSignatureAugInTwistedGroup
	}
	return cs.DstSignaturePopInTwistedGroup
}

// verifProcessed: the message that is hashed for key i (pk || m in the augmentation mode).
func verifProcessed(c *verifCase, w *verifWorld, i int) []byte {
	m := w.msgs[i]
	if c.mode == MessageAugmentation {
		return append(append([]byte{}, w.pkVals[i].ToCompressed()...), m...)
	}
	return m
}

func verifBuild(c *verifCase) *verifWorld {
	w := &verifWorld{}
	g1, g2 := bls12381.NewG1(), bls12381.NewG2()
	sf := bls12381.NewScalarField()
	scheme, err := NewShortKeyScheme(pairable.NewBLS12381(), c.mode)
	if err != nil {
		panic(err)
	}
	w.scheme, w.sigGroup = scheme, scheme.SignatureSubGroup()
	w.dst, w.popDst = verifDstFor(c.mode), BLS12381CipherSuite().DstPopProofInTwistedGroup

	native := verifNative()
	if native && (c.sigNotTF || c.pkNotTF[0] || c.pkNotTF[1] || c.pkNotTF[2]) {
		verifSkipReplay("the native twin does not construct a point outside the prime-order subgroup")
	}

	// keys
	for i := 0; i < c.n; i++ {
		var v *verifG1
		if c.pkZero[i] {
			v = g1.OpIdentity()
		} else {
			verifNextNotTF = c.pkNotTF[i]
			v = g1.ScalarBaseMul(verifSk(i))
		}
		pk := &verifPK{}
		pk.V = v
		if !c.pkZero[i] && !c.pkNotTF[i] {
			if pk, err = NewPublicKey[*bls12381.PointG1, *bls12381.BaseFieldElementG1, *bls12381.PointG2, *bls12381.BaseFieldElementG2](v); err != nil {
				panic(err)
			}
		}
		w.pks, w.pkVals = append(w.pks, pk), append(w.pkVals, v)
	}
	if c.n == 0 && !c.nilKeyList {
		w.pks = []*verifPK{}
	}
	for j := 0; j < c.nm; j++ {
		w.msgs = append(w.msgs, verifPoolMsg(c.msgSel[j]))
	}

	// proofs of possession: the k-th for key k (for a further key if there are more proofs than keys)
	for k := 0; k < c.np; k++ {
		var v *verifG2
		if native {
			sk := verifSk(k)
			if !c.popValid[k] {
				sk = verifSk(k + 50) // a proof by another key
			}
			pkv := g1.ScalarBaseMul(verifSk(k))
			if v, err = popProve[*bls12381.PointG1, *bls12381.BaseFieldElementG1, *bls12381.PointG2, *bls12381.BaseFieldElementG2, *bls12381.GtElement](sk, pkv, g2, w.popDst); err != nil {
				panic(err)
			}
		} else {
			v = g2.ScalarBaseMul(sf.FromUint64(uint64(500 + k)))
		}
		pop, err := NewProofOfPossession[*bls12381.PointG2, *bls12381.BaseFieldElementG2, *bls12381.PointG1, *bls12381.BaseFieldElementG1](v)
		if err != nil {
			panic(err)
		}
		w.pops = append(w.pops, pop)
	}

	// the aggregate signature
	var sv *verifG2
	switch {
	case c.sigZero:
		sv = g2.OpIdentity()
	case native:
		for i := 0; i < c.n && i < c.nm; i++ {
			m := verifProcessed(c, w, i)
			if c.pkZero[i] || m == nil {
				continue
			}
			s, err := coreSign(g2, verifSk(i), m, w.dst)
			if err != nil {
				panic(err)
			}
			if sv == nil {
				sv = s
			} else {
				sv = sv.Add(s)
			}
		}
		if sv == nil || !c.aggValid {
			s, err := coreSign(g2, verifSk(77), []byte("another message"), w.dst)
			if err != nil {
				panic(err)
			}
			if sv == nil {
				sv = s
			} else {
				sv = sv.Add(s)
			}
		}
	default:
		verifNextNotTF = c.sigNotTF
		sv = g2.ScalarBaseMul(sf.FromUint64(4242))
	}
	w.sig = &verifSig{v: sv}

	// the verifier
	if c.np > 0 {
		w.vf, err = scheme.Verifier(VerifyWithProofsOfPossession(w.pops...))
	} else {
		w.vf, err = scheme.Verifier()
	}
	if err != nil {
		panic(err)
	}
	return w
}

// verifSpec: the expected outcome (nil = accept, otherwise the sentinel the error must wrap),
// stated independently of AggregateVerify. The proof-of-possession verdicts and the final pairing
// verdict are obtained by calling popVerify / coreVerify / coreAggregateVerify here (BEFORE the call
// under test): under the interpreter this fixes the oracle answers for these operands to the
// harness inputs popValid[i] / aggValid, natively it evaluates the real pairings.
func verifSpec(c *verifCase, w *verifWorld) error {
	// (1) the oracle answers: every check the specification mentions is evaluated first, whether
	// or not an earlier precondition already decides the outcome, so that (under the interpreter)
	// each of them is tied to the corresponding harness input.
	var popOK [verifMaxN]bool
	for i := 0; i < c.n && i < c.np; i++ {
		verifForce, verifForceVal = true, c.popValid[i]
		popOK[i] = popVerify(w.pkVals[i], w.pops[i].Value(), w.sigGroup, w.popDst) == nil
		verifForce = false
	}
	finalOK := false
	if c.n == c.nm {
		processed := make([][]byte, c.n)
		allSame := c.n > 0
		for i := 0; i < c.n; i++ {
			processed[i] = verifProcessed(c, w, i)
			if !bytes.Equal(processed[i], processed[0]) {
				allSame = false
			}
		}
		var err error
		verifForce, verifForceVal = true, c.aggValid
		if c.mode == POP && allSame {
			agg := w.pkVals[0]
			for i := 1; i < c.n; i++ {
				agg = agg.Add(w.pkVals[i])
			}
			err = coreVerify(agg, processed[0], w.sig.Value(), w.dst, w.sigGroup)
		} else {
			err = coreAggregateVerify(w.pkVals, processed, w.sig.Value(), w.dst, w.sigGroup)
		}
		verifForce = false
		finalOK = err == nil
	}

	// (2) the preconditions, in the order in which they decide the error
	if c.n != c.nm {
		return signatures.ErrInvalidArgument
	}
	for i := 0; i < c.n; i++ {
		if c.pkNotTF[i] {
			return signatures.ErrInvalidSubGroup
		}
		if c.pkZero[i] {
			return signatures.ErrInvalidArgument
		}
	}
	if c.sigNotTF {
		return signatures.ErrInvalidSubGroup
	}
	if c.sigZero {
		return signatures.ErrInvalidArgument
	}
	switch c.mode {
	case Basic:
		if c.np > 0 {
			return signatures.ErrInvalidArgument
		}
		for i := 0; i < c.n; i++ {
			for j := i + 1; j < c.n; j++ {
				if bytes.Equal(w.msgs[i], w.msgs[j]) {
					return signatures.ErrInvalidArgument
				}
			}
		}
	case MessageAugmentation:
		if c.np > 0 {
			return signatures.ErrInvalidArgument
		}
	case POP:
		if c.n != c.np {
			return signatures.ErrInvalidArgument
		}
		for i := 0; i < c.n; i++ {
			if !popOK[i] {
				return signatures.ErrVerificationFailed
			}
		}
	}
	// (3) an empty input is refused (stated here, not inherited from coreAggregateVerify; how a nil
	// message is treated IS inherited: coreAggregateVerify refuses it, the FastAggregateVerify route
	// reads it as the empty message when the first message is empty and not nil)
	if c.n == 0 {
		return signatures.ErrVerificationFailed
	}
	// (4) the verdict of the pairing check
	if !finalOK {
		return signatures.ErrVerificationFailed
	}
	return nil
}

// verifCheck: build the scenario, state the expectation, run AggregateVerify, compare.
func verifCheck(c *verifCase) {
	w := verifBuild(c)
	msgsBefore := make([]Message, len(w.msgs))
	for j := range w.msgs {
		if w.msgs[j] != nil {
			msgsBefore[j] = append([]byte{}, w.msgs[j]...)
		}
	}
	verifInSpec = true
	want := verifSpec(c, w)
	verifInSpec = false
	callsBefore := len(verifPairs)

	got := w.vf.AggregateVerify(w.sig, w.pks, w.msgs)

	verifAssert("agg.accepts_iff_every_precondition_holds_and_the_pairing_check_passes", (got == nil) == (want == nil))
	verifAssert("agg.error_kind", got == nil || want == nil || errors.Is(got, want))
	same := len(w.msgs) == len(msgsBefore)
	for j := range msgsBefore {
		if (w.msgs[j] == nil) != (msgsBefore[j] == nil) || !bytes.Equal(w.msgs[j], msgsBefore[j]) {
			same = false
		}
	}
	verifAssert("agg.messages_not_modified", same)
	// every pairing evaluated by the call under test is one the specification evaluated as well
	// (same operands): no other proof / key / message / tag was used
	known := true
	for i := callsBefore; i < len(verifPairs); i++ {
		hit := false
		for j := 0; j < callsBefore; j++ {
			if verifSamePair(&verifPairs[i], &verifPairs[j]) {
				hit = true
			}
		}
		if !hit {
			known = false
		}
	}
	verifAssertGhost("agg.only_the_specified_pairings_are_evaluated", known)
}

func verifSamePair(a, b *verifPair) bool {
	if len(a.g2s) != len(b.g2s) {
		return false
	}
	for j := range a.g2s {
		if a.g2s[j] != b.g2s[j] || a.g1s[j] != b.g1s[j] {
			return false
		}
	}
	return true
}

func verifMode() RogueKeyPreventionAlgorithm {
	switch verifLen(1, 3) {
	case 1:
		return Basic
	case 2:
		return MessageAugmentation
	}
	return POP
}

// ---- harnesses

// H_blsagg_lengths: every combination of 0..3 keys, 0..3 messages, 0..3 proofs in the three modes;
// all points good, the messages pairwise different, every proof valid; final verdict arbitrary.
func H_blsagg_lengths() {
	c := &verifCase{}
	c.mode = verifMode()
	c.n, c.nm, c.np = verifLen(0, 3), verifLen(0, 3), verifLen(0, 3)
	c.aggValid = verifBool()
	c.nilKeyList = verifBool()
	c.msgSel = [verifMaxN]int{0, 1, 2}
	c.popValid = [verifMaxN]bool{true, true, true}
	verifReach("lengths")
	if c.n == 0 && c.nm == 0 {
		verifReach("lengths_empty_input")
	}
	if c.mode == POP && c.n == c.nm && c.n != c.np {
		verifReach("lengths_pop_count_differs")
	}
	verifCheck(c)
}

// H_blsagg_messages: 1..3 keys with as many messages, each message one of A, B, empty, nil (all
// equality patterns), right number of proofs, all points good, every proof valid.
func H_blsagg_messages() {
	c := &verifCase{}
	c.mode = verifMode()
	c.n = verifLen(1, 3)
	c.nm = c.n
	if c.mode == POP {
		c.np = c.n
	}
	for j := 0; j < c.n; j++ {
		switch verifLen(0, 3) {
		case 0:
			c.msgSel[j] = 0
		case 1:
			c.msgSel[j] = 1
		case 2:
			c.msgSel[j] = 3
		case 3:
			c.msgSel[j] = 4
		}
	}
	c.aggValid = verifBool()
	c.popValid = [verifMaxN]bool{true, true, true}
	verifReach("messages")
	verifCheck(c)
}

// H_blsagg_pops: POP mode, 1..3 keys, as many proofs, each proof valid or not, messages all equal
// (FastAggregateVerify route) or pairwise different.
func H_blsagg_pops() {
	c := &verifCase{mode: POP}
	c.n = verifLen(1, 3)
	c.nm, c.np = c.n, c.n
	for i := 0; i < c.n; i++ {
		c.popValid[i] = verifBool()
	}
	if verifBool() {
		c.msgSel = [verifMaxN]int{0, 0, 0}
		verifReach("pops_same_message")
	} else {
		c.msgSel = [verifMaxN]int{0, 1, 2}
		verifReach("pops_different_messages")
	}
	c.aggValid = verifBool()
	verifCheck(c)
}

// H_blsagg_points: two keys, each the identity / outside the subgroup / good, the signature
// likewise, in the three modes.
func H_blsagg_points() {
	c := &verifCase{}
	c.mode = verifMode()
	c.n, c.nm = 2, 2
	if c.mode == POP {
		c.np = 2
	}
	for i := 0; i < 2; i++ {
		switch verifLen(0, 2) {
		case 1:
			c.pkZero[i] = true
		case 2:
			c.pkNotTF[i] = true
		}
	}
	switch verifLen(0, 2) {
	case 1:
		c.sigZero = true
	case 2:
		c.sigNotTF = true
	}
	c.msgSel = [verifMaxN]int{0, 1, 2}
	c.popValid = [verifMaxN]bool{true, true, true}
	c.aggValid = verifBool()
	verifReach("points")
	verifCheck(c)
}

// ---- the core functions themselves (core.go): preconditions, the operands of the one pairing
// product, and "verdict = the pairing's verdict".
//
// Each harness fixes the verdict of the ONE product the function has to evaluate (verifExpect,
// computed with the library's own Hash / Neg / Generator) to a harness input; every other product
// gets an arbitrary verdict, so pairing other operands changes the RESULT on some path, and that
// path is replayed natively on a real valid (resp. deliberately invalid) signature.

func verifLastPair(callsBefore int) *verifPair {
	if len(verifPairs) != callsBefore+1 {
		return nil
	}
	return &verifPairs[callsBefore]
}

// H_blsagg_core_aggregate_verify: coreAggregateVerify with 0..3 keys, 0..3 messages (any of A, B,
// empty, nil; duplicates allowed at this level), the last key / the signature possibly the identity
// or outside the subgroup, possibly an empty tag.
func H_blsagg_core_aggregate_verify() {
	c := &verifCase{mode: Basic}
	c.aggValid = verifBool()
	if c.aggValid { // exploration order only: the valid aggregate first
		verifReach("core_agg")
	} else {
		verifReach("core_agg_invalid")
	}
	c.n, c.nm = verifLen(0, 3), verifLen(0, 3)
	for j := 0; j < c.nm; j++ {
		switch verifLen(0, 2) {
		case 0:
			c.msgSel[j] = j % 2
		case 1:
			c.msgSel[j] = 3
		case 2:
			c.msgSel[j] = 4
		}
	}
	if c.n > 0 {
		switch verifLen(0, 2) { // the LAST key may be bad
		case 1:
			c.pkZero[c.n-1] = true
		case 2:
			c.pkNotTF[c.n-1] = true
		}
	}
	switch verifLen(0, 2) {
	case 1:
		c.sigZero = true
	case 2:
		c.sigNotTF = true
	}
	emptyDst := verifBool()
	w := verifBuild(c)
	dst := w.dst
	if emptyDst {
		dst = ""
	}
	pre := c.n > 0 && c.n == c.nm && !emptyDst && !c.sigZero && !c.sigNotTF
	for i := 0; pre && i < c.n; i++ {
		if w.msgs[i] == nil || c.pkZero[i] || c.pkNotTF[i] {
			pre = false
		}
	}
	// the product: e(H(m_1), pk_1) ... e(H(m_n), pk_n) e(-sig, G1 generator)
	var exp verifPair
	if pre {
		for i := 0; i < c.n; i++ {
			h, _ := bls12381.NewG2().HashWithDst(dst, w.msgs[i])
			exp.g2s, exp.g1s = append(exp.g2s, h), append(exp.g1s, w.pkVals[i])
		}
		exp.g2s, exp.g1s = append(exp.g2s, w.sig.Value().Neg()), append(exp.g1s, bls12381.NewG1().Generator())
		exp.one = c.aggValid
		verifExpect = append(verifExpect, exp)
	}
	callsBefore := len(verifPairs)
	got := coreAggregateVerify(w.pkVals, w.msgs, w.sig.Value(), dst, w.sigGroup)

	verifAssert("coreagg.accepts_iff_preconditions_and_pairing_verdict", (got == nil) == (pre && c.aggValid))
	verifAssert("coreagg.error_kind", got == nil || errors.Is(got, signatures.ErrInvalidArgument) ||
		errors.Is(got, signatures.ErrInvalidSubGroup) || errors.Is(got, signatures.ErrVerificationFailed))
	if !pre {
		verifReach("core_agg_refused")
		verifAssertGhost("coreagg.no_pairing_when_a_precondition_fails", len(verifPairs) == callsBefore)
		return
	}
	verifReach("core_agg_pairing")
	pc := verifLastPair(callsBefore)
	verifAssertGhost("coreagg.one_pairing_product_over_hashed_messages_keys_negated_signature_generator", pc != nil && verifSamePair(pc, &exp))
}

// H_blsagg_core_verify: coreVerify (also the body of popVerify and of the FastAggregateVerify route).
func H_blsagg_core_verify() {
	c := &verifCase{mode: Basic, n: 1, nm: 1}
	c.aggValid = verifBool()
	if c.aggValid { // exploration order only
		verifReach("core_verify")
	} else {
		verifReach("core_verify_invalid")
	}
	switch verifLen(0, 2) {
	case 0:
		c.msgSel[0] = 0
	case 1:
		c.msgSel[0] = 3
	case 2:
		c.msgSel[0] = 4
	}
	switch verifLen(0, 2) {
	case 1:
		c.pkZero[0] = true
	case 2:
		c.pkNotTF[0] = true
	}
	switch verifLen(0, 2) {
	case 1:
		c.sigZero = true
	case 2:
		c.sigNotTF = true
	}
	emptyDst := verifBool()
	w := verifBuild(c)
	dst := w.dst
	if emptyDst {
		dst = ""
	}
	pre := w.msgs[0] != nil && !emptyDst && !c.sigZero && !c.sigNotTF && !c.pkZero[0] && !c.pkNotTF[0]
	// the product: e(H(m), -pk) e(sig, G1 generator)
	var exp verifPair
	if pre {
		h, _ := bls12381.NewG2().HashWithDst(dst, w.msgs[0])
		exp.g2s = []*verifG2{h, w.sig.Value()}
		exp.g1s = []*verifG1{w.pkVals[0].Neg(), bls12381.NewG1().Generator()}
		exp.one = c.aggValid
		verifExpect = append(verifExpect, exp)
	}
	callsBefore := len(verifPairs)
	got := coreVerify(w.pkVals[0], w.msgs[0], w.sig.Value(), dst, w.sigGroup)

	verifAssert("coreverify.accepts_iff_preconditions_and_pairing_verdict", (got == nil) == (pre && c.aggValid))
	if !pre {
		verifReach("core_verify_refused")
		verifAssertGhost("coreverify.no_pairing_when_a_precondition_fails", len(verifPairs) == callsBefore)
		return
	}
	verifReach("core_verify_pairing")
	pc := verifLastPair(callsBefore)
	verifAssertGhost("coreverify.one_pairing_product_over_hashed_message_negated_key_signature_generator", pc != nil && verifSamePair(pc, &exp))
}

// H_blsagg_pop_verify: popVerify = coreVerify of the proof over the key's own encoding under the
// proof-of-possession tag.
func H_blsagg_pop_verify() {
	c := &verifCase{mode: POP, n: 1, nm: 1, np: 1, aggValid: true}
	c.popValid[0] = verifBool()
	if c.popValid[0] { // exploration order only
		verifReach("pop_verify")
	} else {
		verifReach("pop_verify_invalid")
	}
	switch verifLen(0, 2) {
	case 1:
		c.pkZero[0] = true
	case 2:
		c.pkNotTF[0] = true
	}
	w := verifBuild(c)
	pre := !c.pkZero[0] && !c.pkNotTF[0]
	// the product: e(H_poptag(encoding of pk), -pk) e(proof, G1 generator)
	var exp verifPair
	if pre {
		h, _ := bls12381.NewG2().HashWithDst(BLS12381CipherSuite().DstPopProofInTwistedGroup, w.pkVals[0].ToCompressed())
		exp.g2s = []*verifG2{h, w.pops[0].Value()}
		exp.g1s = []*verifG1{w.pkVals[0].Neg(), bls12381.NewG1().Generator()}
		exp.one = c.popValid[0]
		verifExpect = append(verifExpect, exp)
	}
	callsBefore := len(verifPairs)
	got := popVerify(w.pkVals[0], w.pops[0].Value(), w.sigGroup, w.popDst)
	verifAssert("pop.accepts_iff_key_is_good_and_pairing_verdict", (got == nil) == (pre && c.popValid[0]))
	if !pre {
		verifAssertGhost("pop.no_pairing_for_a_bad_key", len(verifPairs) == callsBefore)
		return
	}
	verifReach("pop_verify_pairing")
	pc := verifLastPair(callsBefore)
	verifAssertGhost("pop.pairing_over_hash_of_the_keys_encoding_under_the_pop_tag", pc != nil && verifSamePair(pc, &exp))
}

// ---- controls (wrong claims on results; must be VIOLATED and confirmed natively)

// wrong: in POP mode one proof is enough for two keys.
func H_blsagg_fewer_pops_MUSTFAIL() {
	c := &verifCase{mode: POP, n: 2, nm: 2, np: 1, aggValid: true}
	c.msgSel = [verifMaxN]int{0, 1, 2}
	c.popValid = [verifMaxN]bool{true, true, true}
	w := verifBuild(c)
	verifReach("fewer_pops_mustfail")
	got := w.vf.AggregateVerify(w.sig, w.pks, w.msgs)
	verifAssert("agg.wrong_one_pop_for_two_keys_accepted", got == nil)
}

// wrong: Basic mode accepts the same message twice.
func H_blsagg_duplicate_message_MUSTFAIL() {
	c := &verifCase{mode: Basic, n: 2, nm: 2, aggValid: true}
	c.msgSel = [verifMaxN]int{0, 0, 0}
	w := verifBuild(c)
	verifReach("duplicate_message_mustfail")
	got := w.vf.AggregateVerify(w.sig, w.pks, w.msgs)
	verifAssert("agg.wrong_duplicate_messages_accepted_in_basic_mode", got == nil)
}

// wrong: a valid aggregate is rejected (one claim per mode / route). These controls also show that
// the situations the native twin builds really verify with the real pairing.
func H_blsagg_valid_rejected_MUSTFAIL() {
	c := &verifCase{n: 2, nm: 2, aggValid: true}
	c.msgSel = [verifMaxN]int{0, 1, 2}
	c.popValid = [verifMaxN]bool{true, true, true}
	which := verifLen(0, 3)
	switch which {
	case 0:
		c.mode = Basic
	case 1:
		c.mode = MessageAugmentation
	case 2:
		c.mode, c.np = POP, 2
	case 3:
		c.mode, c.np = POP, 2
		c.msgSel = [verifMaxN]int{0, 0, 0}
	}
	w := verifBuild(c)
	verifReach("valid_rejected_mustfail")
	got := w.vf.AggregateVerify(w.sig, w.pks, w.msgs)
	switch which {
	case 0:
		verifAssert("agg.wrong_valid_basic_aggregate_rejected", got != nil)
	case 1:
		verifAssert("agg.wrong_valid_augmented_aggregate_rejected", got != nil)
	case 2:
		verifAssert("agg.wrong_valid_pop_aggregate_rejected", got != nil)
	case 3:
		verifAssert("agg.wrong_valid_pop_same_message_aggregate_rejected", got != nil)
	}
}
