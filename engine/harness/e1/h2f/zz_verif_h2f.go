//go:build verif_e1

package rfc9380

import (
	"bytes"
	"io"

	"github.com/bronlabs/bron-crypto/pkg/base/ct"
)

// E1 harness for HashToField (h2f.go, RFC 9380 section 5.2; property C19 "matches the RFC 9380
// suites it names"). The real generic function is instantiated with harness field types of
// extension degree m = 1 and m = 2 that record what SetUniformBytes receives, and with a harness
// expander that records its arguments and returns ARBITRARY (symbolic) uniform bytes. Nothing is
// replaced by a contract: the harness types are ordinary Go values, so every obligation is
// evaluated identically in the native replay twin.
//
// Decided, for count = len(out) in 1..2, m in {1,2}, L in 1..3, tag and message lengths 0..2
// (case split; all contents symbolic): expand_message is called exactly once with the caller's
// tag and message and len_in_bytes = count*m*L; element i is set exactly once from m components;
// component j of element i is the big-endian substring uniform[L*(j+i*m) : L*(j+i*m)+L] handed
// over little-endian (reversed), as the field types' SetUniformBytes expects; the caller's
// message and tag are not modified.

type verifExp struct {
	calls    int
	dst, msg []byte
	outLen   uint
	out      []byte
}

func (e *verifExp) ExpandMessage(dst, msg []byte, outLen uint) []byte {
	e.calls++
	e.dst = append([]byte{}, dst...)
	e.msg = append([]byte{}, msg...)
	e.outLen = outLen
	e.out = verifBytes(int(outLen))
	return append([]byte{}, e.out...)
}

type verifParams struct {
	l uint64
	e *verifExp
}

func (p verifParams) L() uint64                        { return p.l }
func (p verifParams) MessageExpander() MessageExpander { return p.e }

// verifF1: field element stub of extension degree 1; only SetUniformBytes and Degree are live.
type verifF1 struct {
	sets  int
	comps [][]byte
}

func (f *verifF1) SetUniformBytes(componentsData ...[]byte) (ok ct.Bool) {
	f.sets++
	f.comps = nil
	for _, c := range componentsData {
		f.comps = append(f.comps, append([]byte{}, c...))
	}
	return ct.True
}
func (*verifF1) Degree() uint64                       { return 1 }
func (*verifF1) ComponentsBytes() [][]byte            { panic("stub") }
func (*verifF1) Set(*verifF1)                         { panic("stub") }
func (*verifF1) Select(ct.Choice, *verifF1, *verifF1) { panic("stub") }
func (*verifF1) Equal(*verifF1) ct.Bool               { panic("stub") }
func (*verifF1) Add(_, _ *verifF1)                    { panic("stub") }
func (*verifF1) Double(*verifF1)                      { panic("stub") }
func (*verifF1) SetBytes([]byte) ct.Bool              { panic("stub") }
func (*verifF1) Bytes() []byte                        { panic("stub") }
func (*verifF1) SetZero()                             { panic("stub") }
func (*verifF1) IsZero() ct.Bool                      { panic("stub") }
func (*verifF1) IsNonZero() ct.Bool                   { panic("stub") }
func (*verifF1) Sub(_, _ *verifF1)                    { panic("stub") }
func (*verifF1) Neg(*verifF1)                         { panic("stub") }
func (*verifF1) SetRandom(io.Reader) ct.Bool          { panic("stub") }
func (*verifF1) SetOne()                              { panic("stub") }
func (*verifF1) IsOne() ct.Bool                       { panic("stub") }
func (*verifF1) Mul(_, _ *verifF1)                    { panic("stub") }
func (*verifF1) Square(*verifF1)                      { panic("stub") }
func (*verifF1) Inv(*verifF1) ct.Bool                 { panic("stub") }
func (*verifF1) Div(_, _ *verifF1) ct.Bool            { panic("stub") }
func (*verifF1) Sqrt(*verifF1) ct.Bool                { panic("stub") }

func verifH2FRun1(id string, rev bool, maxCount, maxL, maxIn int) {
	const m = 1
	count := verifLen(1, maxCount)
	l := uint64(verifLen(1, maxL))
	dst, msg := verifBytes(verifLen(0, maxIn)), verifBytes(verifLen(0, maxIn))
	dst0, msg0 := append([]byte{}, dst...), append([]byte{}, msg...)
	e := &verifExp{}
	out := make([]verifF1, count)
	HashToField[*verifF1](out, verifParams{l, e}, string(dst), msg)
	verifReach(id + ".reach")
	verifAssert(id+".expand_message_called_once", e.calls == 1)
	if e.calls != 1 {
		return
	}
	verifAssert(id+".expander_got_callers_tag", len(e.dst) == len(dst0) && bytes.Equal(e.dst, dst0))
	verifAssert(id+".expander_got_callers_message", len(e.msg) == len(msg0) && bytes.Equal(e.msg, msg0))
	verifAssert(id+".len_in_bytes_is_count_m_L", uint64(e.outLen) == uint64(count)*m*l)
	verifAssert(id+".callers_message_not_modified", bytes.Equal(msg, msg0))
	if uint64(e.outLen) != uint64(count)*m*l {
		return
	}
	for i := 0; i < count; i++ {
		verifAssert(id+".element_set_once_from_m_components", out[i].sets == 1 && len(out[i].comps) == m)
		if out[i].sets != 1 || len(out[i].comps) != m {
			return
		}
		for j := 0; j < m; j++ {
			off := int(l) * (j + i*m)
			want := append([]byte{}, e.out[off:off+int(l)]...)
			if rev {
				for a, b := 0, len(want)-1; a < b; a, b = a+1, b-1 {
					want[a], want[b] = want[b], want[a]
				}
			}
			verifAssert(id+".component_is_the_reversed_substring_at_L_times_j_plus_i_m",
				len(out[i].comps[j]) == int(l) && bytes.Equal(out[i].comps[j], want))
		}
	}
}

// verifF2: field element stub of extension degree 2; only SetUniformBytes and Degree are live.
type verifF2 struct {
	sets  int
	comps [][]byte
}

func (f *verifF2) SetUniformBytes(componentsData ...[]byte) (ok ct.Bool) {
	f.sets++
	f.comps = nil
	for _, c := range componentsData {
		f.comps = append(f.comps, append([]byte{}, c...))
	}
	return ct.True
}
func (*verifF2) Degree() uint64                       { return 2 }
func (*verifF2) ComponentsBytes() [][]byte            { panic("stub") }
func (*verifF2) Set(*verifF2)                         { panic("stub") }
func (*verifF2) Select(ct.Choice, *verifF2, *verifF2) { panic("stub") }
func (*verifF2) Equal(*verifF2) ct.Bool               { panic("stub") }
func (*verifF2) Add(_, _ *verifF2)                    { panic("stub") }
func (*verifF2) Double(*verifF2)                      { panic("stub") }
func (*verifF2) SetBytes([]byte) ct.Bool              { panic("stub") }
func (*verifF2) Bytes() []byte                        { panic("stub") }
func (*verifF2) SetZero()                             { panic("stub") }
func (*verifF2) IsZero() ct.Bool                      { panic("stub") }
func (*verifF2) IsNonZero() ct.Bool                   { panic("stub") }
func (*verifF2) Sub(_, _ *verifF2)                    { panic("stub") }
func (*verifF2) Neg(*verifF2)                         { panic("stub") }
func (*verifF2) SetRandom(io.Reader) ct.Bool          { panic("stub") }
func (*verifF2) SetOne()                              { panic("stub") }
func (*verifF2) IsOne() ct.Bool                       { panic("stub") }
func (*verifF2) Mul(_, _ *verifF2)                    { panic("stub") }
func (*verifF2) Square(*verifF2)                      { panic("stub") }
func (*verifF2) Inv(*verifF2) ct.Bool                 { panic("stub") }
func (*verifF2) Div(_, _ *verifF2) ct.Bool            { panic("stub") }
func (*verifF2) Sqrt(*verifF2) ct.Bool                { panic("stub") }

func verifH2FRun2(id string, rev bool, maxCount, maxL, maxIn int) {
	const m = 2
	count := verifLen(1, maxCount)
	l := uint64(verifLen(1, maxL))
	dst, msg := verifBytes(verifLen(0, maxIn)), verifBytes(verifLen(0, maxIn))
	dst0, msg0 := append([]byte{}, dst...), append([]byte{}, msg...)
	e := &verifExp{}
	out := make([]verifF2, count)
	HashToField[*verifF2](out, verifParams{l, e}, string(dst), msg)
	verifReach(id + ".reach")
	verifAssert(id+".expand_message_called_once", e.calls == 1)
	if e.calls != 1 {
		return
	}
	verifAssert(id+".expander_got_callers_tag", len(e.dst) == len(dst0) && bytes.Equal(e.dst, dst0))
	verifAssert(id+".expander_got_callers_message", len(e.msg) == len(msg0) && bytes.Equal(e.msg, msg0))
	verifAssert(id+".len_in_bytes_is_count_m_L", uint64(e.outLen) == uint64(count)*m*l)
	verifAssert(id+".callers_message_not_modified", bytes.Equal(msg, msg0))
	if uint64(e.outLen) != uint64(count)*m*l {
		return
	}
	for i := 0; i < count; i++ {
		verifAssert(id+".element_set_once_from_m_components", out[i].sets == 1 && len(out[i].comps) == m)
		if out[i].sets != 1 || len(out[i].comps) != m {
			return
		}
		for j := 0; j < m; j++ {
			off := int(l) * (j + i*m)
			want := append([]byte{}, e.out[off:off+int(l)]...)
			if rev {
				for a, b := 0, len(want)-1; a < b; a, b = a+1, b-1 {
					want[a], want[b] = want[b], want[a]
				}
			}
			verifAssert(id+".component_is_the_reversed_substring_at_L_times_j_plus_i_m",
				len(out[i].comps[j]) == int(l) && bytes.Equal(out[i].comps[j], want))
		}
	}
}

// H_h2f_degree1: prime fields (m = 1).
func H_h2f_degree1() { verifH2FRun1("h2f_m1", true, 2, 3, 2) }

// H_h2f_degree2: quadratic extensions (m = 2, e.g. BLS12-381 Fp2).
func H_h2f_degree2() { verifH2FRun2("h2f_m2", true, 2, 3, 2) }

// H_h2f_MUSTFAIL: wrong twin (claims the substrings are handed over big-endian, unreversed).
func H_h2f_MUSTFAIL() { verifH2FRun1("h2f_mustfail", false, 2, 3, 2) }

// thorough: count 1..3, L 1..5, tag and message lengths 0..3
func H_h2f_degree1_more() { verifH2FRun1("h2f_m1_more", true, 3, 5, 3) }
func H_h2f_degree2_more() { verifH2FRun2("h2f_m2_more", true, 3, 5, 3) }
