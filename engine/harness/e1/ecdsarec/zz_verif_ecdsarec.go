//go:build verif_e1

package ecdsa

import (
	"bytes"
	"crypto/sha256"

	"github.com/bronlabs/bron-crypto/pkg/base/curves/k256"
)

const verifK256 = "github.com/bronlabs/bron-crypto/pkg/base/curves/k256"

type verifSc struct {
	limbs [4]uint64
}

var verifScalars []verifSc

func verifNewScalar(l [4]uint64) *k256.Scalar {
	verifScalars = append(verifScalars, verifSc{limbs: l})
	s := new(k256.Scalar)
	s.V.SetUint64(uint64(len(verifScalars)))
	return s
}

func verifScLimbs(s *k256.Scalar) [4]uint64 {
	id := s.V.Limbs()[0]
	return verifScalars[id-1].limbs
}

func verifScalarIsZero(s *k256.Scalar) bool {
	l := verifScLimbs(s)
	return l[0]|l[1]|l[2]|l[3] == 0
}

func verifNewScalarField() *k256.ScalarField { return &k256.ScalarField{} }

func verifScalarFieldFromBytes(f *k256.ScalarField, b []byte) (*k256.Scalar, error) {
	var l [4]uint64
	for i := 0; i < 32; i++ {
		l[i/8] |= uint64(b[31-i]) << (8 * (i % 8))
	}
	return verifNewScalar(l), nil
}

func verifReplacements() map[string]any {
	return map[string]any{
		"(*" + verifK256 + ".Scalar).IsZero":         verifScalarIsZero,
		verifK256 + ".NewScalarField":                verifNewScalarField,
		"(*" + verifK256 + ".ScalarField).FromBytes": verifScalarFieldFromBytes,
	}
}

func H_ecdsarec_probe() {
	rB, sB := verifBytes(32), verifBytes(32)
	_ = bytes.Equal
	_ = sha256.New
	f := k256.NewScalarField()
	r, _ := f.FromBytes(rB)
	s, _ := f.FromBytes(sB)
	verifReach("probe")
	sig, err := NewSignature(r, s, nil)
	verifAssert("probe.x", (err == nil) == (sig != nil))
}
