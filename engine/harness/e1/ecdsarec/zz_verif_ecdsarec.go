//go:build verif_e1

package ecdsa

import (
	"bytes"
	nativeEcdsa "crypto/ecdsa"
	"crypto/elliptic"
	crand "crypto/rand"
	"crypto/sha256"
	"errors"
	"math/big"

	"github.com/bronlabs/bron-crypto/pkg/base/curves"
	"github.com/bronlabs/bron-crypto/pkg/base/curves/impl/traits"
	"github.com/bronlabs/bron-crypto/pkg/base/curves/k256"
	k256Impl "github.com/bronlabs/bron-crypto/pkg/base/curves/k256/impl"
	"github.com/bronlabs/bron-crypto/pkg/base/nt/cardinal"
	"github.com/bronlabs/bron-crypto/pkg/signatures"
)

// E1 harnesses for property C15 (ECDSA part): pkg/signatures/ecdsa, files ecdsa.go
// (RecoverPublicKey, DigestToScalar), signature.go (NewSignature, Normalise, IsNormalized) and
// verifier.go (Verifier.Verify), instantiated with secp256k1
// (k256.Point, k256.BaseFieldElement, k256.Scalar) and SHA-256.
//
// What is checked is the CONTROL FLOW and DATA FLOW of those functions: which curve / field routine
// is called with which operands, in which order the checks are made, and which error / value comes
// back. 256-bit multiplicative arithmetic is not encodable, so every routine of the k256 wrapper
// layer that the three files call is replaced by a CONTRACT (engine feature "replacements"):
//
//   - scalars (mod n) and base-field elements (mod p) are modelled EXACTLY for the linear
//     operations (value = four symbolic 64-bit limbs; Neg, Add, reduction of a byte string,
//     comparison, byte encoding are exact; spec intrinsics verifSpec*Mod4);
//   - the multiplicative operations (TryInv, FromAffineX, ScalarMul, ScalarBaseMul, point Sub,
//     AffineX/AffineY, point Equal, crypto/ecdsa.Verify) are UNINTERPRETED FUNCTIONS: the result of
//     the first call with given operands is an arbitrary fresh value (constrained only by facts
//     that hold in every prime-order group, see each contract), later calls with equal operands
//     return the same value (memo tables in ghost state). Points are opaque identifiers.
//
// The obligations are stated on RESULTS: the harness recomputes the expected result with the same
// library routines (under the interpreter: the same contracts, hence the same uninterpreted
// function symbols; natively: the real routines) and compares. So a counterexample is replayed
// natively against the real arithmetic, and a deviation of the control / data flow (wrong bit of
// v, wrong operand) shows up as a natively confirmed VIOLATION. What is NOT checked here: the
// group-theoretic facts behind the formulas (that r^-1(sR - zG) is the signing key, that (r, n-s)
// verifies iff (r, s) does): they are about the replaced routines.
//
// Contracts: 28 keys in verifReplacements (see the comment on each function) plus 5 guard keys in
// verifReplacementsGuards that are never entered on the current tree.

const (
	verifK  = "github.com/bronlabs/bron-crypto/pkg/base/curves/k256"
	verifIM = verifK + "/impl"
	verifT  = "github.com/bronlabs/bron-crypto/pkg/base/curves/impl/traits"
)

type (
	verifScT = traits.PrimeFieldElementTrait[*k256Impl.Fq, k256Impl.Fq, *k256.Scalar, k256.Scalar]
	verifBeT = traits.PrimeFieldElementTrait[*k256Impl.Fp, k256Impl.Fp, *k256.BaseFieldElement, k256.BaseFieldElement]
	verifSfT = traits.PrimeFieldTrait[*k256Impl.Fq, *k256.Scalar, k256.Scalar]
	verifBfT = traits.PrimeFieldTrait[*k256Impl.Fp, *k256.BaseFieldElement, k256.BaseFieldElement]
	verifPtT = traits.PointTrait[*k256Impl.Fp, *k256Impl.Point, k256Impl.Point, *k256.Point, k256.Point]

	verifSuiteT = Suite[*k256.Point, *k256.BaseFieldElement, *k256.Scalar]
	verifSigT   = Signature[*k256.Scalar]
	verifPkT    = PublicKey[*k256.Point, *k256.BaseFieldElement, *k256.Scalar]
)

// ---- constants (little-endian limbs). n = group order, p = field modulus, verifHalfN = (n-1)/2.

func verifN() [4]uint64 {
	return [4]uint64{0xBFD25E8CD0364141, 0xBAAEDCE6AF48A03B, 0xFFFFFFFFFFFFFFFE, 0xFFFFFFFFFFFFFFFF}
}

func verifP() [4]uint64 {
	return [4]uint64{0xFFFFFFFEFFFFFC2F, 0xFFFFFFFFFFFFFFFF, 0xFFFFFFFFFFFFFFFF, 0xFFFFFFFFFFFFFFFF}
}

func verifHalfN() [4]uint64 {
	return [4]uint64{0xDFE92F46681B20A0, 0x5D576E7357A4501D, 0xFFFFFFFFFFFFFFFF, 0x7FFFFFFFFFFFFFFF}
}

// verifLimbsBE: the integer with big-endian bytes b (len <= 32).
func verifLimbsBE(b []byte) (l [4]uint64) {
	n := len(b)
	for i := 0; i < n; i++ {
		l[i/8] |= uint64(b[n-1-i]) << (8 * uint(i%8))
	}
	return l
}

// verifBytesBE: 32 big-endian bytes of l.
func verifBytesBE(l [4]uint64) []byte {
	out := make([]byte, 32)
	for i := 0; i < 32; i++ {
		out[31-i] = byte(l[i/8] >> (8 * uint(i%8)))
	}
	return out
}

func verifIsZero4(l [4]uint64) bool { return l[0]|l[1]|l[2]|l[3] == 0 }

func verifEq4(a, b [4]uint64) bool {
	return (a[0]^b[0])|(a[1]^b[1])|(a[2]^b[2])|(a[3]^b[3]) == 0
}

// verifMod: l mod m (exact; a genuine remainder unless the path condition entails l < m).
func verifMod(l, m [4]uint64) [4]uint64 { return verifSpecAddMod4(l, [4]uint64{}, m) }

// ---- ghost state (zero at the start of every path; empty in the native twin)

type verifInvEntry struct {
	arg [4]uint64
	res *k256.Scalar
}

type verifXEntry struct {
	x   [4]uint64
	ok  bool
	pts [2]*k256.Point // [even y, odd y]
}

type verifMulEntry struct {
	pid uint64
	s   [4]uint64
	res *k256.Point
}

type verifSubEntry struct {
	a, b uint64
	res  *k256.Point
}

type verifEqEntry struct {
	a, b uint64
	eq   bool
}

type verifPtInfo struct {
	zero   bool
	hasXY  bool
	ax, ay *k256.BaseFieldElement
}

type verifBigEntry struct {
	p *big.Int
	l [4]uint64
}

type verifNvCall struct {
	x, y, r, s [4]uint64
	nilCurve   bool
	digest     [32]byte
	dlen       int
	ans        bool
}

var (
	verifScalars []([4]uint64) // scalar id-1 -> value (< n)
	verifBases   []([4]uint64) // base-field element id-1 -> value (< p)
	verifPoints  []verifPtInfo // point id-1 -> facts
	verifInvs    []verifInvEntry
	verifXs      []verifXEntry
	verifMuls    []verifMulEntry // pid 0 = the generator (ScalarBaseMul)
	verifSubs    []verifSubEntry
	verifEqs     []verifEqEntry
	verifBigs    []verifBigEntry
	verifNvs     []verifNvCall

	// set by harness (b) from its inputs: the answers of the two oracles
	verifEqForced, verifEqAnswer bool // point Equal on two different identifiers
	verifOkForced, verifOkAnswer bool // crypto/ecdsa.Verify (first call / same arguments)
)

// ---- scalars: exact values

func verifNewScalar(l [4]uint64) *k256.Scalar {
	verifScalars = append(verifScalars, l)
	s := new(k256.Scalar)
	s.V.SetUint64(uint64(len(verifScalars)))
	return s
}

func verifScVal(v *k256Impl.Fq) [4]uint64 {
	id := v.Limbs()[0]
	if id == 0 || id > uint64(len(verifScalars)) {
		panic("harness: scalar that no contract produced")
	}
	return verifScalars[id-1]
}

// (*Scalar).IsZero: value == 0.
func verifScIsZero(fe *verifScT) bool { return verifIsZero4(verifScVal(&fe.V)) }

// (*Scalar).Neg: n - value (0 for 0), exact.
func verifScNeg(fe *verifScT) *k256.Scalar {
	return verifNewScalar(verifSpecNegMod4(verifScVal(&fe.V), verifN()))
}

// (*Scalar).Equal: equal values.
func verifScEqual(fe *verifScT, rhs *k256.Scalar) bool {
	return verifEq4(verifScVal(&fe.V), verifScVal(&rhs.V))
}

// (*Scalar).Clone: a new object with the same value.
func verifScClone(fe *verifScT) *k256.Scalar { return verifNewScalar(verifScVal(&fe.V)) }

// (*Scalar).Bytes: the 32 big-endian bytes of the value.
func verifScBytes(fe *verifScT) []byte { return verifBytesBE(verifScVal(&fe.V)) }

// (*Scalar).Cardinal: the value as a cardinal (big-endian bytes).
func verifScCardinal(fe *verifScT) cardinal.Cardinal {
	return cardinal.Known(verifBytesBE(verifScVal(&fe.V)))
}

// (*Scalar).TryInv: error iff the value is 0; otherwise an uninterpreted function of the value
// with a non-zero result.
func verifScTryInv(fe *verifScT) (*k256.Scalar, error) {
	l := verifScVal(&fe.V)
	if verifIsZero4(l) {
		return nil, curves.ErrFailed.WithMessage("division by zero")
	}
	for i := range verifInvs {
		if verifEq4(verifInvs[i].arg, l) {
			return verifInvs[i].res, nil
		}
	}
	u := verifU64s(4)
	r := [4]uint64{u[0], u[1], u[2], u[3]}
	verifAssume(verifSpecLess4(r, verifN()) && !verifIsZero4(r))
	res := verifNewScalar(r)
	verifInvs = append(verifInvs, verifInvEntry{arg: l, res: res})
	return res, nil
}

// (*ScalarField).FromWideBytes: more than 64 bytes: error (as the real code); up to 32 bytes: the
// big-endian integer reduced mod n, exact; 33..64 bytes: not modelled (no caller here).
func verifSfFromWideBytes(f *verifSfT, b []byte) (*k256.Scalar, error) {
	if len(b) > 64 {
		return nil, curves.ErrFailed.WithMessage("cannot set bytes")
	}
	if len(b) > 32 {
		panic("harness: FromWideBytes with more than 32 bytes is not modelled")
	}
	return verifNewScalar(verifMod(verifLimbsBE(b), verifN())), nil
}

// ---- base-field elements: exact values

func verifNewBase(l [4]uint64) *k256.BaseFieldElement {
	verifBases = append(verifBases, l)
	e := new(k256.BaseFieldElement)
	e.V.SetUint64(uint64(len(verifBases)))
	return e
}

func verifBeVal(v *k256Impl.Fp) [4]uint64 {
	id := v.Limbs()[0]
	if id == 0 || id > uint64(len(verifBases)) {
		panic("harness: base-field element that no contract produced")
	}
	return verifBases[id-1]
}

// (*BaseField).FromWideBytes: as for scalars, mod p.
func verifBfFromWideBytes(f *verifBfT, b []byte) (*k256.BaseFieldElement, error) {
	if len(b) > 64 {
		return nil, curves.ErrFailed.WithMessage("cannot set bytes")
	}
	if len(b) > 32 {
		panic("harness: FromWideBytes with more than 32 bytes is not modelled")
	}
	return verifNewBase(verifMod(verifLimbsBE(b), verifP())), nil
}

// (*BaseFieldElement).Add: (a + b) mod p, exact.
func verifBeAdd(fe *verifBeT, e *k256.BaseFieldElement) *k256.BaseFieldElement {
	return verifNewBase(verifSpecAddMod4(verifBeVal(&fe.V), verifBeVal(&e.V), verifP()))
}

// (*BaseFieldElement).Bytes / Cardinal: the 32 big-endian bytes of the value.
func verifBeBytes(fe *verifBeT) []byte { return verifBytesBE(verifBeVal(&fe.V)) }

func verifBeCardinal(fe *verifBeT) cardinal.Cardinal {
	return cardinal.Known(verifBytesBE(verifBeVal(&fe.V)))
}

// ---- cardinals and big integers
//
// (cardinal.Known).Big: a fresh *big.Int whose value (the cardinal's big-endian bytes) is kept in
// ghost state; (*big.Int).Cmp compares those values exactly. No other method of a big.Int produced
// here is called by the code under test (they are handed to crypto/ecdsa.Verify, a contract).

func verifKnownBig(k cardinal.Known) *big.Int {
	if len(k) > 32 {
		panic("harness: cardinal wider than 256 bits")
	}
	z := new(big.Int)
	verifBigs = append(verifBigs, verifBigEntry{p: z, l: verifLimbsBE(k)})
	return z
}

func verifBigVal(x *big.Int) [4]uint64 {
	for i := range verifBigs {
		if verifBigs[i].p == x {
			return verifBigs[i].l
		}
	}
	panic("harness: big.Int that no contract produced")
}

func verifBigCmp(x, y *big.Int) int {
	a, b := verifBigVal(x), verifBigVal(y)
	return int(verifB2U(verifSpecLess4(b, a))) - int(verifB2U(verifSpecLess4(a, b)))
}

// ---- structures

func verifNewCurve() *k256.Curve             { return &k256.Curve{} }
func verifNewScalarField() *k256.ScalarField { return &k256.ScalarField{} }
func verifNewBaseField() *k256.BaseField     { return &k256.BaseField{} }

// (*Curve).Order: n.
func verifCurveOrder(c *k256.Curve) cardinal.Cardinal { return cardinal.Known(verifBytesBE(verifN())) }

// (*Curve).ToElliptic: a nil elliptic.Curve (its only consumer, crypto/ecdsa.Verify, is a contract;
// the contract records that it received the nil curve of THIS contract).
func verifCurveToElliptic(c *k256.Curve) elliptic.Curve { return nil }

// ---- points: opaque identifiers

func verifNewPoint(zero bool) *k256.Point {
	verifPoints = append(verifPoints, verifPtInfo{zero: zero})
	p := new(k256.Point)
	p.V.X.SetUint64(uint64(len(verifPoints)))
	return p
}

func verifPtID(v *k256Impl.Point) uint64 {
	id := v.X.Limbs()[0]
	if id == 0 || id > uint64(len(verifPoints)) {
		panic("harness: point that no contract produced")
	}
	return id
}

// verifPtEq: the equality oracle. Same identifier: equal. Otherwise an arbitrary answer, fixed per
// unordered pair, consistent with the identity flags (two identities are equal, an identity and a
// non-identity are not). Harness (b) forces the answer of (*Point).Equal (not of the identity test
// inside Sub) from its own input, so that the native twin can build the corresponding situation.
func verifPtEq(a, b uint64, mayForce bool) bool {
	if a == b {
		return true
	}
	for i := range verifEqs {
		e := &verifEqs[i]
		if (e.a == a && e.b == b) || (e.a == b && e.b == a) {
			return e.eq
		}
	}
	za, zb := verifPoints[a-1].zero, verifPoints[b-1].zero
	var eq bool
	if verifEqForced && mayForce {
		eq = verifEqAnswer
	} else {
		eq = verifU8()&1 == 1
	}
	verifAssume(verifB2U(za)&verifB2U(zb) <= verifB2U(eq))   // both identity => equal
	verifAssume(verifB2U(za)^verifB2U(zb) <= 1-verifB2U(eq)) // exactly one identity => different
	verifEqs = append(verifEqs, verifEqEntry{a: a, b: b, eq: eq})
	return eq
}

// (*Point).Equal / IsZero.
func verifPtEqual(p *verifPtT, rhs *k256.Point) bool {
	return verifPtEq(verifPtID(&p.V), verifPtID(&rhs.V), true)
}
func verifPtIsZero(p *verifPtT) bool { return verifPoints[verifPtID(&p.V)-1].zero }

// (*Curve).FromAffineX(x, odd): whether x is the abscissa of a curve point is an uninterpreted
// predicate of the VALUE of x; if it is, the two points (even / odd y) are uninterpreted functions
// of x, different from each other and not the identity. Error value as in the real code.
func verifCurveFromAffineX(c *k256.Curve, x *k256.BaseFieldElement, odd bool) (*k256.Point, error) {
	l := verifBeVal(&x.V)
	var e *verifXEntry
	for i := range verifXs {
		if verifEq4(verifXs[i].x, l) {
			e = &verifXs[i]
			break
		}
	}
	if e == nil {
		verifXs = append(verifXs, verifXEntry{x: l, ok: verifU8()&1 == 1})
		e = &verifXs[len(verifXs)-1]
	}
	if !e.ok {
		return nil, curves.ErrInvalidCoordinates.WithMessage("x")
	}
	k := 0
	if odd {
		k = 1
	}
	if e.pts[k] == nil {
		e.pts[k] = verifNewPoint(false)
		if o := e.pts[1-k]; o != nil { // P and -P differ (no point of order 2)
			verifEqs = append(verifEqs, verifEqEntry{a: verifPtID(&o.V), b: verifPtID(&e.pts[k].V), eq: false})
		}
	}
	return e.pts[k], nil
}

func verifMul(pid uint64, pzero bool, s [4]uint64) *k256.Point {
	for i := range verifMuls {
		if verifMuls[i].pid == pid && verifEq4(verifMuls[i].s, s) {
			return verifMuls[i].res
		}
	}
	// prime order: s*P is the identity iff P is the identity or s = 0 (s < n)
	res := verifNewPoint(pzero || verifIsZero4(s))
	verifMuls = append(verifMuls, verifMulEntry{pid: pid, s: s, res: res})
	return res
}

// (*Point).ScalarMul(s): uninterpreted function of (point, value of s).
func verifPtScalarMul(p *k256.Point, s *k256.Scalar) *k256.Point {
	id := verifPtID(&p.V)
	return verifMul(id, verifPoints[id-1].zero, verifScVal(&s.V))
}

// (*Curve).ScalarBaseMul(s): uninterpreted function of the value of s (nil scalar: panic, as real).
func verifCurveScalarBaseMul(c *k256.Curve, s *k256.Scalar) *k256.Point {
	if c == nil {
		return nil
	}
	if s == nil {
		panic("scalar is nil")
	}
	return verifMul(0, false, verifScVal(&s.V))
}

// (*Point).Sub(q): uninterpreted function of (p, q); the identity iff p equals q (oracle).
func verifPtSub(p *verifPtT, q *k256.Point) *k256.Point {
	a, b := verifPtID(&p.V), verifPtID(&q.V)
	for i := range verifSubs {
		if verifSubs[i].a == a && verifSubs[i].b == b {
			return verifSubs[i].res
		}
	}
	res := verifNewPoint(verifPtEq(a, b, false))
	verifSubs = append(verifSubs, verifSubEntry{a: a, b: b, res: res})
	return res
}

func verifPtXY(p *k256.Point) (*verifPtInfo, error) {
	info := &verifPoints[verifPtID(&p.V)-1]
	if info.zero {
		return nil, curves.ErrFailed.WithMessage("point is identity")
	}
	if !info.hasXY {
		u := verifU64s(8)
		x := [4]uint64{u[0], u[1], u[2], u[3]}
		y := [4]uint64{u[4], u[5], u[6], u[7]}
		verifAssume(verifSpecLess4(x, verifP()) && verifSpecLess4(y, verifP()))
		info.ax, info.ay, info.hasXY = verifNewBase(x), verifNewBase(y), true
	}
	return info, nil
}

// (*Point).AffineX / AffineY: error for the identity (as real); otherwise uninterpreted functions
// of the point (arbitrary values < p).
func verifPtAffineX(p *k256.Point) (*k256.BaseFieldElement, error) {
	info, err := verifPtXY(p)
	if err != nil {
		return nil, err
	}
	return info.ax, nil
}

func verifPtAffineY(p *k256.Point) (*k256.BaseFieldElement, error) {
	info, err := verifPtXY(p)
	if err != nil {
		return nil, err
	}
	return info.ay, nil
}

// crypto/ecdsa.Verify(pub, digest, r, s): an uninterpreted predicate of (pub.X, pub.Y, digest, r, s);
// harness (b) forces the answer for the first argument tuple from its own input.
func verifNativeVerify(pub *nativeEcdsa.PublicKey, hash []byte, r, s *big.Int) bool {
	var c verifNvCall
	c.x, c.y, c.r, c.s = verifBigVal(pub.X), verifBigVal(pub.Y), verifBigVal(r), verifBigVal(s)
	c.nilCurve = pub.Curve == nil
	c.dlen = len(hash)
	if len(hash) != 32 {
		panic("harness: digest length not modelled")
	}
	copy(c.digest[:], hash)
	for i := range verifNvs {
		o := &verifNvs[i]
		if verifEq4(o.x, c.x) && verifEq4(o.y, c.y) && verifEq4(o.r, c.r) && verifEq4(o.s, c.s) && o.digest == c.digest {
			c.ans = o.ans
			verifNvs = append(verifNvs, c)
			return c.ans
		}
	}
	if verifOkForced && len(verifNvs) == 0 {
		c.ans = verifOkAnswer
	} else {
		c.ans = verifU8()&1 == 1
	}
	verifNvs = append(verifNvs, c)
	return c.ans
}

func verifReplacements() map[string]any {
	const sc = "(*" + verifT + ".PrimeFieldElementTrait[*" + verifIM + ".Fq, " + verifIM + ".Fq, *" + verifK + ".Scalar, " + verifK + ".Scalar])."
	const be = "(*" + verifT + ".PrimeFieldElementTrait[*" + verifIM + ".Fp, " + verifIM + ".Fp, *" + verifK + ".BaseFieldElement, " + verifK + ".BaseFieldElement])."
	const sf = "(*" + verifT + ".PrimeFieldTrait[*" + verifIM + ".Fq, *" + verifK + ".Scalar, " + verifK + ".Scalar])."
	const bf = "(*" + verifT + ".PrimeFieldTrait[*" + verifIM + ".Fp, *" + verifK + ".BaseFieldElement, " + verifK + ".BaseFieldElement])."
	const pt = "(*" + verifT + ".PointTrait)."
	return map[string]any{
		sc + "IsZero":   verifScIsZero,
		sc + "Neg":      verifScNeg,
		sc + "Equal":    verifScEqual,
		sc + "Clone":    verifScClone,
		sc + "Bytes":    verifScBytes,
		sc + "Cardinal": verifScCardinal,
		sc + "TryInv":   verifScTryInv,

		sf + "FromWideBytes": verifSfFromWideBytes,
		bf + "FromWideBytes": verifBfFromWideBytes,

		be + "Add":      verifBeAdd,
		be + "Bytes":    verifBeBytes,
		be + "Cardinal": verifBeCardinal,

		"(github.com/bronlabs/bron-crypto/pkg/base/nt/cardinal.Known).Big": verifKnownBig,
		"(*math/big.Int).Cmp": verifBigCmp,

		verifK + ".NewCurve":       verifNewCurve,
		verifK + ".NewScalarField": verifNewScalarField,
		verifK + ".NewBaseField":   verifNewBaseField,

		"(*" + verifK + ".Curve).Order":         verifCurveOrder,
		"(*" + verifK + ".Curve).ToElliptic":    verifCurveToElliptic,
		"(*" + verifK + ".Curve).FromAffineX":   verifCurveFromAffineX,
		"(*" + verifK + ".Curve).ScalarBaseMul": verifCurveScalarBaseMul,

		"(*" + verifK + ".Point).ScalarMul": verifPtScalarMul,
		"(*" + verifK + ".Point).AffineX":   verifPtAffineX,
		"(*" + verifK + ".Point).AffineY":   verifPtAffineY,
		pt + "Sub":                          verifPtSub,
		pt + "Equal":                        verifPtEqual,
		pt + "IsZero":                       verifPtIsZero,

		"crypto/ecdsa.Verify": verifNativeVerify,
	}
}

// ---- guards: operations that the code under test does NOT call on the current tree. They are
// modelled (exactly, resp. as uninterpreted functions) only so that a changed library that starts
// calling them does not silently compute on the opaque identifiers.

type verifAddEntry struct {
	a, b uint64
	res  *k256.Point
}

var (
	verifAdds  []verifAddEntry
	verifNegs  []verifAddEntry // b unused
	verifSMuls []verifInvEntry2
)

type verifInvEntry2 struct {
	a, b [4]uint64
	res  *k256.Scalar
}

func verifPtAdd(p *verifPtT, q *k256.Point) *k256.Point {
	a, b := verifPtID(&p.V), verifPtID(&q.V)
	for i := range verifAdds {
		if (verifAdds[i].a == a && verifAdds[i].b == b) || (verifAdds[i].a == b && verifAdds[i].b == a) {
			return verifAdds[i].res
		}
	}
	res := verifNewPoint(verifU8()&1 == 1)
	verifAdds = append(verifAdds, verifAddEntry{a: a, b: b, res: res})
	return res
}

func verifPtNeg(p *verifPtT) *k256.Point {
	a := verifPtID(&p.V)
	for i := range verifNegs {
		if verifNegs[i].a == a {
			return verifNegs[i].res
		}
	}
	res := verifNewPoint(verifPoints[a-1].zero)
	verifNegs = append(verifNegs, verifAddEntry{a: a, res: res})
	return res
}

func verifScAdd(fe *verifScT, e *k256.Scalar) *k256.Scalar {
	return verifNewScalar(verifSpecAddMod4(verifScVal(&fe.V), verifScVal(&e.V), verifN()))
}

func verifScSub(fe *verifScT, e *k256.Scalar) *k256.Scalar {
	return verifNewScalar(verifSpecSubMod4(verifScVal(&fe.V), verifScVal(&e.V), verifN()))
}

func verifScMul(fe *verifScT, e *k256.Scalar) *k256.Scalar {
	a, b := verifScVal(&fe.V), verifScVal(&e.V)
	for i := range verifSMuls {
		m := &verifSMuls[i]
		if (verifEq4(m.a, a) && verifEq4(m.b, b)) || (verifEq4(m.a, b) && verifEq4(m.b, a)) {
			return m.res
		}
	}
	u := verifU64s(4)
	r := [4]uint64{u[0], u[1], u[2], u[3]}
	verifAssume(verifSpecLess4(r, verifN()))
	verifAssume(verifIsZero4(r) == (verifIsZero4(a) || verifIsZero4(b))) // a field has no zero divisors
	res := verifNewScalar(r)
	verifSMuls = append(verifSMuls, verifInvEntry2{a: a, b: b, res: res})
	return res
}

func verifReplacementsGuards() map[string]any {
	const sc = "(*" + verifT + ".PrimeFieldElementTrait[*" + verifIM + ".Fq, " + verifIM + ".Fq, *" + verifK + ".Scalar, " + verifK + ".Scalar])."
	const pt = "(*" + verifT + ".PointTrait)."
	return map[string]any{
		pt + "Add": verifPtAdd,
		pt + "Neg": verifPtNeg,
		sc + "Add": verifScAdd,
		sc + "Sub": verifScSub,
		sc + "Mul": verifScMul,
	}
}

// ---- helpers shared by the harnesses (run by BOTH twins)

func verifSuite() *verifSuiteT {
	suite, err := NewSuite(k256.NewCurve(), sha256.New)
	if err != nil {
		panic(err)
	}
	return suite
}

// verifInScalar: 32 input bytes, assumed canonical (< n), as a scalar.
func verifInScalar(b []byte) *k256.Scalar {
	verifAssume(verifSpecLess4(verifLimbsBE(b), verifN()))
	s, err := k256.NewScalarField().FromWideBytes(b)
	if err != nil {
		panic(err)
	}
	return s
}

func verifAllZero(b []byte) bool {
	var acc byte
	for _, x := range b {
		acc |= x
	}
	return acc == 0
}

func verifOptV(has bool, v int) *int {
	if !has {
		return nil
	}
	p := new(int)
	*p = v
	return p
}

// ---- (c) NewSignature / Normalise / IsNormalized

func H_ecdsarec_signature() {
	rB, sB := verifBytes(32), verifBytes(32)
	hasV, v := verifBool(), verifInt()
	r, s := verifInScalar(rB), verifInScalar(sB)
	verifReach("sig")
	vp := verifOptV(hasV, v)
	sig, err := NewSignature(r, s, vp)

	accept := !verifAllZero(rB) && !verifAllZero(sB) && (!hasV || (v >= 0 && v <= 3))
	verifAssert("sig.accepted_iff_r_s_nonzero_and_v_nil_or_0_to_3", (err == nil) == accept)
	verifAssert("sig.signature_xor_error", (sig == nil) != (err == nil))
	if err != nil {
		verifAssert("sig.rejected_with_ErrFailed", errors.Is(err, signatures.ErrFailed))
		return
	}
	if sig == nil {
		return
	}
	verifReach("sig_accepted")
	verifAssert("sig.components_kept", bytes.Equal(sig.R().Bytes(), rB) && bytes.Equal(sig.S().Bytes(), sB) &&
		(sig.V() == nil) == !hasV && (sig.V() == nil || *sig.V() == v))

	sL := verifLimbsBE(sB)
	high := verifSpecLess4(verifHalfN(), sL) // s > (n-1)/2
	verifAssert("sig.is_normalized_iff_s_at_most_half_n", sig.IsNormalized() == !high)

	sig.Normalise()
	wantS := sL
	wantV := v
	if high {
		verifReach("sig_high")
		wantS = verifSpecNegMod4(sL, verifN())
		wantV = v ^ 1
	} else {
		verifReach("sig_low")
	}
	verifAssert("sig.normalise_s_becomes_n_minus_s_exactly_when_high", bytes.Equal(sig.S().Bytes(), verifBytesBE(wantS)))
	verifAssert("sig.normalise_flips_bit0_of_v_exactly_when_high", (sig.V() == nil) == !hasV && (sig.V() == nil || *sig.V() == wantV))
	verifAssert("sig.normalise_keeps_r", bytes.Equal(sig.R().Bytes(), rB))
	verifAssert("sig.normalise_v_stays_in_range", sig.V() == nil || (*sig.V() >= 0 && *sig.V() <= 3))
	verifAssert("sig.normalised_after_normalise", sig.IsNormalized())
	if hasV {
		verifAssert("sig.normalise_does_not_write_callers_v", *vp == v)
	}

	sig.Normalise()
	verifAssert("sig.normalise_idempotent", bytes.Equal(sig.S().Bytes(), verifBytesBE(wantS)) && bytes.Equal(sig.R().Bytes(), rB) &&
		(sig.V() == nil) == !hasV && (sig.V() == nil || *sig.V() == wantV) && sig.IsNormalized())
}

// ---- (a) RecoverPublicKey

// verifNonceR: r as a signer obtains it: the abscissa of k*G reduced mod n. Under the interpreter
// this is an arbitrary scalar (AffineX is uninterpreted); natively it guarantees that x = r is the
// abscissa of a curve point, so that counterexamples replay meaningfully.
func verifNonceR(kB []byte) *k256.Scalar {
	k := verifInScalar(kB)
	x, err := k256.NewCurve().ScalarBaseMul(k).AffineX()
	verifAssume(err == nil) // k != 0
	r, err := k256.NewScalarField().FromWideBytes(x.Bytes())
	if err != nil {
		panic(err)
	}
	return r
}

// verifRecoverSpec: the specification of RecoverPublicKey for a signature with recovery id v,
// computed with the library's own curve routines: Q = r^-1 (s R - z G), R = the point with
// abscissa r (+ n if bit 1 of v) and y parity bit 0 of v, z = SHA-256(message) mod n.
// ok = false: no such R, or Q is the identity.
func verifRecoverSpec(r, s *k256.Scalar, v int, msg []byte) (q *k256.Point, ok bool) {
	curve, bf, sf := k256.NewCurve(), k256.NewBaseField(), k256.NewScalarField()
	x, err := bf.FromWideBytes(r.Bytes())
	if err != nil {
		panic(err)
	}
	if v&2 != 0 {
		nB, err := bf.FromWideBytes(verifBytesBE(verifN()))
		if err != nil {
			panic(err)
		}
		x = x.Add(nB)
	}
	bigR, err := curve.FromAffineX(x, v&1 != 0)
	if err != nil {
		return nil, false
	}
	d := sha256.Sum256(msg)
	z, err := sf.FromWideBytes(d[:])
	if err != nil {
		panic(err)
	}
	rInv, err := r.TryInv()
	if err != nil {
		return nil, false
	}
	q = bigR.ScalarMul(s).Sub(curve.ScalarBaseMul(z)).ScalarMul(rInv)
	if q.IsZero() {
		return nil, false
	}
	return q, true
}

func H_ecdsarec_recover() {
	kB, sB := verifBytes(32), verifBytes(32)
	msg := verifBytes(3)
	hasV, v := verifBool(), verifInt()
	verifAssume(v >= 0 && v <= 3)
	r, s := verifNonceR(kB), verifInScalar(sB)
	msgCopy := append([]byte{}, msg...)
	sig, err := NewSignature(r, s, verifOptV(hasV, v))
	if err != nil {
		return // r or s zero: harness H_ecdsarec_signature
	}
	suite := verifSuite()
	// exploration order only: the recovery ids 0 and 1 first (natively, x = r is the abscissa of a
	// point by construction of r, x = r + n mostly is not; the engine keeps the first counterexample)
	if v&2 == 0 {
		verifReach("rec")
	} else {
		verifReach("rec_v_bit1")
	}
	pk, err := RecoverPublicKey(suite, sig, msg)
	verifAssert("rec.key_xor_error", (pk == nil) != (err == nil))
	verifAssert("rec.message_not_modified", bytes.Equal(msg, msgCopy))
	verifAssert("rec.signature_not_modified", sig.r == r && sig.s == s && (sig.v == nil) == !hasV && (sig.v == nil || *sig.v == v))
	if !hasV {
		verifReach("rec_no_v")
		verifAssert("rec.no_recovery_id_is_invalid_argument", err != nil && errors.Is(err, signatures.ErrInvalidArgument))
		return
	}
	want, ok := verifRecoverSpec(r, s, v, msg)
	verifAssert("rec.fails_iff_no_point_R_for_these_v_bits_or_Q_is_identity", (err == nil) == ok)
	if ok && err == nil && pk != nil {
		verifReach("rec_ok")
		verifAssert("rec.Q_is_rinv_times_sR_minus_zG_with_R_from_bits_of_v", pk.Value().Equal(want))
	}
	if !ok {
		verifReach("rec_fail")
	}
}

// H_ecdsarec_recover_nil_args: nil suite / nil signature are refused.
func H_ecdsarec_recover_nil_args() {
	sB := verifBytes(32)
	which := verifBool()
	s := verifInScalar(sB)
	v := 0
	sig, err := NewSignature(s, s, &v)
	if err != nil {
		return
	}
	verifReach("rec_nil")
	var pk *verifPkT
	if which {
		pk, err = RecoverPublicKey[*k256.Point, *k256.BaseFieldElement, *k256.Scalar](nil, sig, nil)
	} else {
		pk, err = RecoverPublicKey(verifSuite(), (*verifSigT)(nil), nil)
	}
	verifAssert("rec.nil_argument_refused", pk == nil && err != nil && errors.Is(err, signatures.ErrInvalidArgument))
}

// ---- (b) Verifier.Verify

// verifNativeCase (native twin only): a REAL situation with the requested oracle answers: a
// signature by a fixed key on msg, made high-s / low-s as requested; recovery id correct (wantEq) or
// with bit 0 flipped (recovers another key); verified against msg (wantOK) or against a different
// message. "recovered key matches but signature invalid" does not exist natively.
func verifNativeCase(msg []byte, hasV, high, wantEq, wantOK bool) (*verifSigT, *verifPkT, []byte) {
	curve := k256.NewCurve()
	nsuite := verifSuite()
	d := k256.NewScalarField().FromUint64(0x1D2C3B4A59687)
	pk, err := NewPublicKey(curve.ScalarBaseMul(d))
	if err != nil {
		panic(err)
	}
	sk, err := NewPrivateKey(d, pk)
	if err != nil {
		panic(err)
	}
	signer, err := NewSigner(nsuite, sk, crand.Reader)
	if err != nil {
		panic(err)
	}
	sig, err := signer.Sign(msg)
	if err != nil {
		panic(err)
	}
	rr, ss, vv := sig.r, sig.s, *sig.v
	if sig.IsNormalized() == high {
		ss, vv = ss.Neg(), vv^1
	}
	vmsg := append([]byte{}, msg...)
	switch {
	case hasV && wantEq && !wantOK:
		verifSkipReplay("a signature whose recovered key matches verifies: no native situation with a matching key and a failing crypto/ecdsa.Verify")
	case hasV && !wantEq && wantOK:
		vv ^= 1
	case !wantOK:
		vmsg[0] ^= 1
	}
	out, err := NewSignature(rr, ss, verifOptV(hasV, vv))
	if err != nil {
		panic(err)
	}
	return out, pk, vmsg
}

func H_ecdsarec_verify() {
	rB, sB, dB := verifBytes(32), verifBytes(32), verifBytes(32)
	msg := verifBytes(3)
	hasV, v := verifBool(), verifInt()
	nonMall, wantEq, wantOK, wantHigh := verifBool(), verifBool(), verifBool(), verifBool()
	verifAssume(v >= 0 && v <= 3)
	// exploration order only (the engine keeps the first counterexample of an obligation and takes
	// the true side of a branch first): the situations that exist natively first, "recovered key
	// matches but crypto/ecdsa.Verify fails" last
	noV, noEq := !hasV, !wantEq
	if noV {
		verifReach("ver_no_recovery_id")
	} else if wantOK {
		verifReach("ver_recovery_id")
	} else if noEq {
		verifReach("ver_recovery_id_invalid_signature")
	} else {
		verifReach("ver_no_native_situation")
	}

	var sig *verifSigT
	var pk *verifPkT
	if verifNative() {
		sig, pk, msg = verifNativeCase(msg, hasV, wantHigh, wantEq, wantOK)
	} else {
		verifEqForced, verifEqAnswer = true, wantEq
		verifOkForced, verifOkAnswer = true, wantOK
		verifAssume(wantHigh == verifSpecLess4(verifHalfN(), verifLimbsBE(sB)))
		var err error
		sig, err = NewSignature(verifInScalar(rB), verifInScalar(sB), verifOptV(hasV, v))
		if err != nil {
			return
		}
		pk, err = NewPublicKey(k256.NewCurve().ScalarBaseMul(verifInScalar(dB)))
		if err != nil {
			return
		}
	}
	suite := verifSuite()
	vf, err := NewVerifier(suite)
	if err != nil {
		panic(err)
	}
	if nonMall {
		if err := VerifyNonMalleably(vf); err != nil {
			panic(err)
		}
	}
	verifReach("ver")
	got := vf.Verify(sig, pk, msg)

	// specification, from the library's own routines (oracles under the interpreter, real natively)
	high := bytes.Compare(sig.S().Bytes(), verifBytesBE(verifHalfN())) > 0
	if nonMall && high {
		verifReach("ver_malleable")
		verifAssert("ver.non_malleable_verifier_rejects_high_s", got != nil)
		verifAssert("ver.high_s_rejected_as_verification_failure", got == nil || errors.Is(got, signatures.ErrVerificationFailed))
		// "before anything else": nothing was computed (ghost: no contract other than the scalar ones ran)
		verifAssertGhost("ver.high_s_rejected_before_any_curve_operation", len(verifPoints) <= 1 && len(verifNvs) == 0 && len(verifXs) == 0)
		return
	}
	keyOK := true
	if hasV {
		rec, rerr := RecoverPublicKey(suite, sig, msg)
		keyOK = rerr == nil && rec.Equal(pk)
	}
	pkE, perr := pk.ToElliptic()
	if perr != nil || pkE == nil {
		panic("harness: public key does not convert")
	}
	bigR, bigS := sig.ToElliptic()
	d := sha256.Sum256(msg)
	sigOK := nativeEcdsa.Verify(pkE, d[:], bigR, bigS)

	verifAssert("ver.nil_iff_recovered_key_matches_when_v_present_and_ecdsa_verifies", (got == nil) == (keyOK && sigOK))
	if got != nil {
		verifReach("ver_rejected")
		if hasV && !keyOK {
			verifReach("ver_key_mismatch")
		}
	} else {
		verifReach("ver_accepted")
	}
	if hasV && !keyOK {
		verifAssertGhost("ver.key_mismatch_rejected_without_consulting_ecdsa_verify", len(verifNvs) == 1)
	} else {
		verifAssertGhost("ver.ecdsa_verify_consulted_once_with_pk_digest_r_s", len(verifNvs) == 2 &&
			verifNvs[0].x == verifNvs[1].x && verifNvs[0].y == verifNvs[1].y && verifNvs[0].r == verifNvs[1].r &&
			verifNvs[0].s == verifNvs[1].s && verifNvs[0].digest == verifNvs[1].digest && verifNvs[0].nilCurve)
	}
}

// H_ecdsarec_verify_nil_args: nil signature / nil public key are refused.
func H_ecdsarec_verify_nil_args() {
	sB := verifBytes(32)
	which := verifBool()
	s := verifInScalar(sB)
	sig, err := NewSignature(s, s, nil)
	if err != nil {
		return
	}
	pk, err := NewPublicKey(k256.NewCurve().ScalarBaseMul(s))
	if err != nil {
		return
	}
	vf, err := NewVerifier(verifSuite())
	if err != nil {
		panic(err)
	}
	verifReach("ver_nil")
	if which {
		err = vf.Verify(nil, pk, nil)
	} else {
		err = vf.Verify(sig, nil, nil)
	}
	verifAssert("ver.nil_argument_refused", err != nil && errors.Is(err, signatures.ErrInvalidArgument))
}

// ---- controls (wrong claims, stated on results; each must be VIOLATED and confirmed natively)

// wrong: every recovery id is accepted.
func H_ecdsarec_signature_v_MUSTFAIL() {
	sB := verifBytes(32)
	v := verifInt()
	s := verifInScalar(sB)
	verifAssume(!verifAllZero(sB))
	verifReach("sig_v_mustfail")
	_, err := NewSignature(s, s, &v)
	verifAssert("sig.wrong_any_v_accepted", err == nil)
}

// wrong: Normalise never changes s.
func H_ecdsarec_normalise_MUSTFAIL() {
	sB := verifBytes(32)
	s := verifInScalar(sB)
	sig, err := NewSignature(s, s, nil)
	if err != nil {
		return
	}
	verifReach("normalise_mustfail")
	sig.Normalise()
	verifAssert("sig.wrong_normalise_keeps_s", bytes.Equal(sig.S().Bytes(), sB))
}

// wrong: bit 0 of the recovery id does not matter.
func H_ecdsarec_recover_parity_MUSTFAIL() {
	kB, sB := verifBytes(32), verifBytes(32)
	msg := verifBytes(3)
	r, s := verifNonceR(kB), verifInScalar(sB)
	v0, v1 := 0, 1
	sig0, err0 := NewSignature(r, s, &v0)
	sig1, err1 := NewSignature(r, s, &v1)
	if err0 != nil || err1 != nil {
		return
	}
	suite := verifSuite()
	verifReach("recover_parity_mustfail")
	pk0, e0 := RecoverPublicKey(suite, sig0, msg)
	pk1, e1 := RecoverPublicKey(suite, sig1, msg)
	verifAssert("rec.wrong_parity_bit_irrelevant", e0 != nil || e1 != nil || pk0.Equal(pk1))
}
