//go:build verif_e1

package mina

// E1 harnesses for the Mina random-oracle input (roinput.go; property C15: what a Mina signature
// signs is the packed ROInput, so "another message gives another challenge" needs the bit encoding
// of the message to be injective). No contracts: ROInput's bit accumulation is plain byte code
// (bitvec), executed by the interpreter with every bit and byte symbolic.
//
// Decided, for 0..1 leading bit, a string of 0..2 bytes (first byte ARBITRARY, second byte the
// constant 0xA5) and 0..1 trailing bit (case split; bitvec.Append branches on every bit, so each
// symbolic bit doubles the paths - hence one fully symbolic byte): Bits() is the leading bits, then
// the bits of every string byte most significant first in string order, then the trailing bits -
// an injective layout, so different strings give different bit sequences; a clone evolves
// independently. PackToFields (254-bit chunking into Pallas field elements) is outside.

func verifROBools(n int) []bool {
	bs := verifBytes(n)
	out := make([]bool, n)
	for i := range bs {
		out[i] = bs[i]&1 == 1
	}
	return out
}

func verifROWant(pre []bool, s []byte, post []bool, msbFirst bool) []bool {
	want := append([]bool{}, pre...)
	for _, b := range s {
		for i := 0; i < 8; i++ {
			k := i
			if msbFirst {
				k = 7 - i
			}
			want = append(want, (b>>uint(k))&1 == 1)
		}
	}
	return append(want, post...)
}

func verifRODiff(a, b []bool) uint64 {
	d := uint64(0)
	for i := range a {
		d += verifB2U(a[i] != b[i])
	}
	return d
}

func verifROBitsCheck(id string, msbFirst bool, maxBits int) {
	pre := verifROBools(verifLen(0, maxBits))
	s := verifBytes(verifLen(0, 1))
	if len(s) == 1 && verifLen(0, 1) == 1 {
		s = append(s, 0xA5)
	}
	post := verifROBools(verifLen(0, maxBits))
	r := new(ROInput).Init()
	r.AddBits(pre...)
	r.AddString(string(s))
	r.AddBits(post...)
	got := r.Bits()
	want := verifROWant(pre, s, post, msbFirst)
	verifReach(id + ".reach")
	verifAssert(id+".number_of_bits", len(got) == len(want))
	if len(got) != len(want) {
		return
	}
	verifAssert(id+".bits_are_the_bytes_msb_first_in_order", verifRODiff(got, want) == 0)
	c := r.Clone()
	c.AddBits(true)
	c.AddString("x")
	after := r.Bits()
	verifAssert(id+".clone_leaves_origin_unchanged", len(after) == len(want) && verifRODiff(after, want) == 0)
	verifAssert(id+".clone_has_its_own_bits", len(c.Bits()) == len(want)+9)
	verifAssert(id+".no_fields_added", len(r.Fields()) == 0)
}

// H_mina_roinput_bits: the bit layout.
func H_mina_roinput_bits() { verifROBitsCheck("roinput_bits", true, 1) }

// H_mina_roinput_MUSTFAIL: wrong twin (claims the bytes are laid out least significant bit first).
func H_mina_roinput_MUSTFAIL() { verifROBitsCheck("roinput_mustfail", false, 0) }
