//go:build verif_e1

package network

import (
	"bytes"
	"context"
	"errors"

	"github.com/bronlabs/errs-go/errs"

	"github.com/bronlabs/bron-crypto/pkg/base"
	"github.com/bronlabs/bron-crypto/pkg/base/datastructures/hashset"
	"github.com/bronlabs/bron-crypto/pkg/base/serde"
	"github.com/bronlabs/bron-crypto/pkg/mpc/sharing"
)

// E1 harnesses for pkg/network/router.go, second group (property C11 "message routing is exact").
// harness/e1/router covers one call of routerCore.deposit and one scan of routerCore.receiveFrom.
// This group covers what sits AROUND deposit:
//
//   - ONE iteration of routerCore.readLoop (the reader goroutine's body, run here synchronously
//     in the harness goroutine) from an arbitrary valid router state: which sender a message is
//     filed under (the TRANSPORT sender reported by Delivery.Receive, never the From field of the
//     envelope), the quorum filter, and the two ways the reader stops (delivery / decode error);
//   - Router.SendTo / Router.Namespaced: which correlation ID is put into the envelope.
//
// The state space is that of harness/e1/router (helpers copied: a harness directory is
// self-contained): correlation IDs "a" and "ns/a", senders 1..3 = the quorum, every cell
// independently present/absent, every mailbox independently poisoned, no waiter (one harness
// attaches one).
//
// Contracts (both are reflection-based CBOR and not encodable), listed in result.json:
//
//   - serde.UnmarshalCBOR[routerMessage] => verifUnmarshalRM: returns the message (or the error)
//     that the HARNESS chose (all three fields symbolic harness inputs), or, for the bytes handed
//     out by the MarshalCBOR contract, the message that was marshalled (round-trip law).
//   - serde.MarshalCBOR[*routerMessage] => verifMarshalRM: remembers the message and returns
//     opaque bytes.
//
// The native twin runs the REAL serde functions: it obtains the wire bytes of the chosen message
// with the real MarshalCBOR (resp. three bytes of invalid CBOR for the decode-error case), so
// both twins see the same decoded envelope and every obligation below is stated on results
// (c.boxes, c.fatal, what Delivery.Send decoded), not on ghost state, except where marked.

func verifCID(i int) string {
	if i == 0 {
		return "a"
	}
	return "ns/a"
}

const (
	verifNC = 2 // correlation IDs
	verifNS = 3 // senders 1..3
)

type verifShape struct {
	freeCells  [verifNC][verifNS]bool
	freePoison [verifNC]bool
	lens       [verifNC][verifNS]int // -1: case split over 0..2
}

type verifSnap struct {
	c        *routerCore
	d        *verifDelivery
	present  [verifNC][verifNS]bool
	data     [verifNC][verifNS][]byte
	stored   [verifNC][verifNS][]byte
	poison   [verifNC]error
	exists   [verifNC]bool
	buffered int
}

func verifFullShape(addrC, addrS int) verifShape {
	var sh verifShape
	for i := 0; i < verifNC; i++ {
		sh.freePoison[i] = true
		for j := 0; j < verifNS; j++ {
			sh.freeCells[i][j] = true
			sh.lens[i][j] = (i + j) % 3
		}
	}
	if addrC >= 0 && addrS >= 0 {
		sh.lens[addrC][addrS] = -1
	}
	return sh
}

// ---- the transport

var (
	verifErrDelivery = errs.New("harness: delivery failed")
	verifErrStop     = errs.New("harness: delivery closed after one message")
)

type verifSent struct {
	to  sharing.ID
	raw []byte
	msg routerMessage
	err error
}

// verifDelivery: Receive returns (from, msg, nil) on its first call unless failFirst, and an error
// on every later call (which ends the read loop). Send decodes what it is given.
type verifDelivery struct {
	from      sharing.ID
	msg       []byte
	failFirst bool
	calls     int
	ctxSeen   context.Context
	sent      []verifSent
}

func (d *verifDelivery) PartyID() sharing.ID  { return 1 }
func (d *verifDelivery) Quorum() []sharing.ID { return []sharing.ID{1, 2, 3} }

func (d *verifDelivery) Send(_ context.Context, to sharing.ID, message []byte) error {
	m, err := serde.UnmarshalCBOR[routerMessage](message)
	d.sent = append(d.sent, verifSent{to: to, raw: message, msg: m, err: err})
	return nil
}

func (d *verifDelivery) Receive(ctx context.Context) (sharing.ID, []byte, error) {
	d.calls++
	d.ctxSeen = ctx
	if d.calls == 1 {
		if d.failFirst {
			return d.from, d.msg, verifErrDelivery
		}
		return d.from, d.msg, nil
	}
	return 0, nil, verifErrStop
}

// ---- contracts

// ghost state
var (
	verifDecMsg   routerMessage // set by the harness: what the next decode returns
	verifDecFail  bool          // set by the harness: the next decode fails
	verifDecCalls int
	verifDecArg   []byte
	verifEncCalls int
	verifEncOut   []byte
	verifEncIn    routerMessage
)

var verifErrDecode = errs.New("harness: decode failed")

func verifSameSlice(a, b []byte) bool {
	if len(a) != len(b) {
		return false
	}
	if len(a) == 0 {
		return true
	}
	return &a[0] == &b[0]
}

func verifUnmarshalRM(data []byte) (routerMessage, error) {
	if verifEncCalls > 0 && verifSameSlice(data, verifEncOut) {
		return verifEncIn, nil // Unmarshal(Marshal(m)) = m
	}
	verifDecCalls++
	verifDecArg = data
	if verifDecFail {
		return routerMessage{}, verifErrDecode.WithMessage("no")
	}
	return verifDecMsg, nil
}

func verifMarshalRM(m *routerMessage) ([]byte, error) {
	verifEncCalls++
	verifEncIn = *m
	verifEncOut = verifBytes(4)
	return verifEncOut, nil
}

func verifReplacements() map[string]any {
	return map[string]any{
		"github.com/bronlabs/bron-crypto/pkg/base/serde.UnmarshalCBOR[...]": verifUnmarshalRM,
		"github.com/bronlabs/bron-crypto/pkg/base/serde.MarshalCBOR[...]":   verifMarshalRM,
	}
}

// verifWire: the bytes that decode to m (fail: that do not decode). Natively the real encoding;
// under the interpreter three placeholder bytes and the ghost instruction for the contract.
func verifWire(m routerMessage, fail bool) []byte {
	if verifNative() {
		if fail {
			return []byte{0xff, 0xff, 0xff}
		}
		w, err := serde.MarshalCBOR(&m)
		if err != nil {
			panic(err)
		}
		return w
	}
	verifDecMsg = m
	verifDecFail = fail
	return []byte{1, 2, 3}
}

// ---- state

func verifState(sh verifShape) *verifSnap {
	d := &verifDelivery{}
	c := &routerCore{
		delivery:  d,
		quorumSet: hashset.NewComparable(d.Quorum()...).Freeze(),
		boxes:     make(map[string]*mailbox),
		started:   true,
		failed:    make(chan struct{}),
	}
	s := &verifSnap{c: c, d: d}
	for i := 0; i < verifNC; i++ {
		var box *mailbox
		mk := func() {
			if box == nil {
				box = &mailbox{payloads: make(map[sharing.ID][]byte)}
				c.boxes[verifCID(i)] = box
				s.exists[i] = true
			}
		}
		for j := 0; j < verifNS; j++ {
			if !sh.freeCells[i][j] || verifLen(0, 1) == 0 {
				continue
			}
			n := sh.lens[i][j]
			if n < 0 {
				n = verifLen(0, 2)
			}
			p := verifBytes(n)
			mk()
			box.payloads[sharing.ID(j+1)] = p
			s.present[i][j] = true
			s.stored[i][j] = p
			s.data[i][j] = append([]byte{}, p...)
			c.buffered++
		}
		if sh.freePoison[i] && verifLen(0, 1) == 1 {
			mk()
			culprit := sharing.ID((i+1)%verifNS + 1)
			box.poison = ErrDuplicateMessage.WithTag(base.IdentifiableAbortPartyIDTag, culprit)
			s.poison[i] = box.poison
		}
	}
	s.buffered = c.buffered
	return s
}

func (s *verifSnap) verifCellUnchanged(i, j int) bool {
	box, ok := s.c.boxes[verifCID(i)]
	if !ok {
		return !s.present[i][j]
	}
	p, ok := box.payloads[sharing.ID(j+1)]
	if ok != s.present[i][j] {
		return false
	}
	return !ok || (verifSameSlice(p, s.stored[i][j]) && bytes.Equal(p, s.data[i][j]))
}

func (s *verifSnap) verifBoxUnchanged(i int) bool {
	box, ok := s.c.boxes[verifCID(i)]
	if ok != s.exists[i] {
		return false
	}
	if !ok {
		return true
	}
	n := 0
	for j := 0; j < verifNS; j++ {
		if !s.verifCellUnchanged(i, j) {
			return false
		}
		if s.present[i][j] {
			n++
		}
	}
	return len(box.payloads) == n && box.poison == s.poison[i] && box.notify == nil
}

func (s *verifSnap) verifNoForeignBoxes() bool {
	n := 0
	for i := 0; i < verifNC; i++ {
		if _, ok := s.c.boxes[verifCID(i)]; ok {
			n++
		}
	}
	return len(s.c.boxes) == n
}

func (s *verifSnap) verifCount(i int) int {
	n := 0
	for j := 0; j < verifNS; j++ {
		if s.present[i][j] {
			n++
		}
	}
	return n
}

// verifNothingChanged: every mailbox, the set of mailboxes and the counter are as in the snapshot.
func (s *verifSnap) verifNothingChanged() bool {
	for i := 0; i < verifNC; i++ {
		if !s.verifBoxUnchanged(i) {
			return false
		}
	}
	return s.verifNoForeignBoxes() && s.c.buffered == s.buffered
}

// verifTransportSender: the sender reported by the transport: any 64-bit identifier. The case
// split (member 1, 2, 3 / anything else) is made first; in the last case the value stays symbolic
// (it includes 0 and every non-member).
func verifTransportSender() (sharing.ID, int) {
	from := sharing.ID(verifU64())
	switch from {
	case 1:
		return from, 0
	case 2:
		return from, 1
	case 3:
		return from, 2
	}
	return from, -1
}

// verifEnvelope: an arbitrary envelope for correlation ID index ci: From is ANY 64-bit value
// (0, members, non-members), the payload has length 0..2.
func verifEnvelope(ci int) (routerMessage, []byte) {
	pl := verifBytes(verifLen(0, 2))
	m := routerMessage{From: sharing.ID(verifU64()), CorrelationID: verifCID(ci), Payload: pl}
	return m, append([]byte{}, pl...)
}

// verifStopped: the reader ended because the SECOND Delivery.Receive failed, i.e. the iteration
// under test itself did not stop it.
func verifStopped(c *routerCore, d *verifDelivery) bool {
	return d.calls == 2 && c.fatal != nil && errors.Is(c.fatal, verifErrStop) && !errors.Is(c.fatal, verifErrDelivery)
}

func verifFailedClosed(c *routerCore) bool {
	select {
	case _, open := <-c.failed:
		return !open
	default:
		return false
	}
}

// ---------------------------------------------------------------------------------------------
// (i) + (ii): one iteration of readLoop with a decodable message

func verifReadLoop(ci int) {
	from, sj := verifTransportSender()
	s := verifState(verifFullShape(ci, sj))
	c, d := s.c, s.d
	cid := verifCID(ci)
	m, plCopy := verifEnvelope(ci)
	wire := verifWire(m, false)
	d.from, d.msg = from, wire
	ctx := context.Background()
	verifReach("router2_readloop")

	c.readLoop(ctx)

	verifAssert("readloop.second_receive_ends_the_loop_not_this_message", verifStopped(c, d) && verifFailedClosed(c))
	verifAssert("readloop.reader_context_passed_to_delivery", d.ctxSeen == ctx)
	verifAssert("readloop.nothing_sent", len(d.sent) == 0)
	verifAssert("readloop.no_foreign_mailbox", s.verifNoForeignBoxes())
	for i := 0; i < verifNC; i++ {
		if i != ci {
			verifAssert("readloop.other_mailboxes_untouched", s.verifBoxUnchanged(i))
		}
	}
	if sj < 0 {
		// (i) transport sender outside the quorum: dropped, whatever the envelope says
		verifReach("router2_readloop_nonmember")
		verifAssert("readloop.nonmember.changes_nothing", s.verifNothingChanged())
		verifAssertGhost("readloop.nonmember.not_even_decoded", verifDecCalls == 0)
		return
	}
	// (ii) member: filed under the TRANSPORT sender in the envelope's mailbox
	verifReach("router2_readloop_member")
	verifAssertGhost("readloop.decodes_exactly_the_received_bytes_once", verifDecCalls == 1 && verifSameSlice(verifDecArg, wire))
	for j := 0; j < verifNS; j++ {
		if j != sj {
			// in particular the cell of the sender named INSIDE the envelope (m.From)
			verifAssert("readloop.other_senders_untouched", s.verifCellUnchanged(ci, j))
		}
	}
	box, exists := c.boxes[cid]
	verifAssert("readloop.mailbox_exists_after", exists && box != nil)
	if !exists {
		return
	}
	verifAssert("readloop.no_waiter_created", box.notify == nil)
	got, have := box.payloads[from]
	verifAssert("readloop.cell_of_transport_sender_filled", have)
	if !s.present[ci][sj] {
		verifAssert("readloop.new.stored_payload_is_message", bytes.Equal(got, plCopy))
		verifAssert("readloop.new.exactly_one_cell_added", len(box.payloads) == s.verifCount(ci)+1 && c.buffered == s.buffered+1)
		verifAssert("readloop.new.poison_unchanged", box.poison == s.poison[ci])
		return
	}
	old := s.data[ci][sj]
	verifAssert("readloop.dup.stored_payload_kept", verifSameSlice(got, s.stored[ci][sj]) && bytes.Equal(got, old))
	verifAssert("readloop.dup.no_cell_added", len(box.payloads) == s.verifCount(ci) && c.buffered == s.buffered)
	if bytes.Equal(old, plCopy) {
		verifAssert("readloop.dup.equal_retransmission_changes_nothing", box.poison == s.poison[ci])
		return
	}
	verifAssert("readloop.conflict.poisoned", box.poison != nil)
	if box.poison != nil {
		verifAssert("readloop.conflict.is_ErrDuplicateMessage", errors.Is(box.poison, ErrDuplicateMessage))
		ids := base.GetMaliciousIdentities[sharing.ID](box.poison)
		verifAssert("readloop.conflict.culprit_is_transport_sender", len(ids) == 1 && ids[0] == from)
	}
}

// H_router2_readloop_a / _ns: the envelope's correlation ID is "a" / "ns/a".
func H_router2_readloop_a()  { verifReadLoop(0) }
func H_router2_readloop_ns() { verifReadLoop(1) }

// H_router2_readloop_from_field_ignored: the focused statement of "never under the From field":
// transport sender 2, envelope From = any value different from 2 (every member, 0, non-members),
// state arbitrary in mailbox "a". Afterwards cell ("a", 2) holds the payload (or held one
// already) and the only cell that may have appeared is that of sender 2.
func H_router2_readloop_from_field_ignored() {
	var sh verifShape
	sh.freePoison[0] = true
	for j := 0; j < verifNS; j++ {
		sh.freeCells[0][j] = true
		sh.lens[0][j] = 1
	}
	s := verifState(sh)
	c, d := s.c, s.d
	m, plCopy := verifEnvelope(0)
	verifAssume(m.From != 2)
	d.from, d.msg = 2, verifWire(m, false)
	verifReach("router2_from_field")
	c.readLoop(context.Background())
	box := c.boxes["a"]
	verifAssert("fromfield.mailbox", box != nil && s.verifBoxUnchanged(1) && s.verifNoForeignBoxes())
	if box == nil {
		return
	}
	got, have := box.payloads[2]
	verifAssert("fromfield.filed_under_transport_sender", have && (s.present[0][1] || bytes.Equal(got, plCopy)))
	_, underFrom := box.payloads[m.From]
	inState := (m.From == 1 && s.present[0][0]) || (m.From == 3 && s.present[0][2])
	verifAssert("fromfield.nothing_filed_under_envelope_From", underFrom == inState)
	verifAssert("fromfield.cells_of_others_untouched", s.verifCellUnchanged(0, 0) && s.verifCellUnchanged(0, 2))
	n := s.verifCount(0)
	if !s.present[0][1] {
		n++
	}
	verifAssert("fromfield.no_extra_cell", len(box.payloads) == n)
}

// H_router2_readloop_wakes_waiter: a waiter attached to the addressed mailbox gets exactly one
// token when a NEW message or a conflict arrives, and a waiter on the other mailbox none.
func H_router2_readloop_wakes_waiter() {
	var sh verifShape
	sh.freeCells[0][0] = true
	sh.lens[0][0] = 1
	s := verifState(sh)
	c, d := s.c, s.d
	na, nb := make(chan struct{}, 1), make(chan struct{}, 1)
	c.boxFor("a").notify = na
	c.boxFor("ns/a").notify = nb
	m, plCopy := verifEnvelope(0)
	d.from, d.msg = 1, verifWire(m, false)
	verifReach("router2_waiter")
	c.readLoop(context.Background())
	verifAssert("waiter.other_mailbox_not_signalled", len(nb) == 0 && c.boxes["ns/a"].notify == nb)
	verifAssert("waiter.kept", c.boxes["a"].notify == na)
	changed := !s.present[0][0] || !bytes.Equal(s.data[0][0], plCopy)
	if changed {
		verifAssert("waiter.signalled_once_on_change", len(na) == 1)
	} else {
		verifAssert("waiter.not_signalled_on_identical_retransmission", len(na) == 0)
	}
}

// ---------------------------------------------------------------------------------------------
// (iii) the two ways the reader stops without touching a mailbox

// H_router2_readloop_errors: arbitrary full state; either Delivery.Receive fails on the first
// call (whatever else it returns: a member sender and well-formed bytes included) or the bytes of
// a member do not decode. c.fatal is latched with that error, c.failed is closed, Receive is not
// called again, no mailbox changes.
func H_router2_readloop_errors() {
	from, _ := verifTransportSender()
	s := verifState(verifFullShape(-1, -1))
	c, d := s.c, s.d
	ci := verifLen(0, 1)
	m, _ := verifEnvelope(ci)
	deliveryFails := verifLen(0, 1) == 1
	d.from, d.failFirst = from, deliveryFails
	d.msg = verifWire(m, !deliveryFails)
	verifReach("router2_readloop_errors")

	c.readLoop(context.Background())

	if deliveryFails {
		verifReach("router2_delivery_error")
		verifAssert("stop.delivery_error.latched", c.fatal != nil && errors.Is(c.fatal, verifErrDelivery) && verifFailedClosed(c))
		verifAssert("stop.delivery_error.reader_stopped", d.calls == 1)
		verifAssert("stop.delivery_error.no_mailbox_changed", s.verifNothingChanged())
		verifAssertGhost("stop.delivery_error.nothing_decoded", verifDecCalls == 0)
		return
	}
	if !c.quorumSet.Contains(from) {
		verifAssert("stop.undecodable_from_nonmember_is_dropped_not_fatal", verifStopped(c, d) && s.verifNothingChanged())
		return
	}
	verifReach("router2_decode_error")
	verifAssert("stop.decode_error.latched", c.fatal != nil && !errors.Is(c.fatal, verifErrStop) && verifFailedClosed(c))
	verifAssertGhost("stop.decode_error.is_the_decoder_error", errors.Is(c.fatal, verifErrDecode))
	verifAssert("stop.decode_error.reader_stopped", d.calls == 1)
	verifAssert("stop.decode_error.no_mailbox_changed", s.verifNothingChanged())
}

// H_router2_readloop_already_failed: a failure latched before (Close) is not overwritten by the
// reader's own failure.
func H_router2_readloop_already_failed() {
	var sh verifShape
	s := verifState(sh)
	c, d := s.c, s.d
	c.shutdown()
	d.failFirst = true
	verifReach("router2_already_failed")
	c.readLoop(context.Background())
	verifAssert("stop.first_failure_wins", c.fatal != nil && errors.Is(c.fatal, ErrRouterClosed) && !errors.Is(c.fatal, verifErrDelivery) && verifFailedClosed(c) && s.verifNothingChanged())
}

// ---------------------------------------------------------------------------------------------
// (iv) SendTo / Namespaced

// verifComp: the corpus of "/"-free namespace / correlation-ID components (the empty string and
// a component that is a prefix of another one included).
func verifComp(k int) string {
	switch k {
	case 0:
		return "a"
	case 1:
		return "b"
	case 2:
		return "ab"
	}
	return ""
}

const verifNComp = 4

// verifView: a router view for a namespace chain of length 0..2 over the corpus, and the chain.
func verifView(root *Router) (*Router, []string) {
	r := root
	var chain []string
	n := verifLen(0, 2)
	for k := 0; k < n; k++ {
		ns := verifComp(verifLen(0, verifNComp-1))
		chain = append(chain, ns)
		r = r.Namespaced(ns)
	}
	return r, chain
}

func verifSameChain(a, b []string) bool {
	if len(a) != len(b) {
		return false
	}
	for i := range a {
		if a[i] != b[i] {
			return false
		}
	}
	return true
}

func verifRoot() (*Router, *verifDelivery, *routerCore) {
	d := &verifDelivery{}
	r := NewRouter(d)
	return r, d, r.core
}

// H_router2_sendto_envelope: SendTo on Namespaced("x").Namespaced("y") with ID "id" sends, to
// each recipient, exactly one envelope with CorrelationID "x/y/id", that recipient's payload and
// From = 0; the router state is not touched and no reader is started.
func H_router2_sendto_envelope() {
	root, d, c := verifRoot()
	r := root.Namespaced("x").Namespaced("y")
	p2, p3 := verifBytes(verifLen(0, 2)), verifBytes(1)
	verifReach("router2_sendto")
	err := r.SendTo(context.Background(), "id", map[sharing.ID][]byte{2: p2, 3: p3})
	verifAssert("sendto.noerr", err == nil)
	verifAssert("sendto.one_envelope_per_recipient", len(d.sent) == 2 && d.sent[0].to != d.sent[1].to)
	for _, e := range d.sent {
		verifAssert("sendto.envelope_decodes", e.err == nil)
		verifAssert("sendto.documented_prefix", e.msg.CorrelationID == "x/y/id")
		verifAssert("sendto.from_field_left_zero", e.msg.From == 0)
		verifAssert("sendto.recipient_gets_its_payload", (e.to == 2 && bytes.Equal(e.msg.Payload, p2)) || (e.to == 3 && bytes.Equal(e.msg.Payload, p3)))
	}
	verifAssert("sendto.views_share_the_core", r.core == c && root.prefix == "" && r.prefix == "x/y/")
	verifAssert("sendto.router_state_untouched", len(c.boxes) == 0 && c.buffered == 0 && !c.started && c.fatal == nil)
	verifAssertGhost("sendto.marshalled_once_per_recipient", verifEncCalls == 2)
}

// H_router2_sendto_injective: two arbitrary (namespace chain, ID) pairs over the corpus (chains
// of length 0..2): the envelope correlation IDs are equal iff the pairs are equal, and each is the
// "/"-join of chain and ID.
func H_router2_sendto_injective() {
	root, d, _ := verifRoot()
	r1, ch1 := verifView(root)
	id1 := verifComp(verifLen(0, verifNComp-1))
	r2, ch2 := verifView(root)
	id2 := verifComp(verifLen(0, verifNComp-1))
	verifReach("router2_injective")
	e1 := r1.SendTo(context.Background(), id1, map[sharing.ID][]byte{2: {7}})
	e2 := r2.SendTo(context.Background(), id2, map[sharing.ID][]byte{2: {7}})
	verifAssert("inj.sent", e1 == nil && e2 == nil && len(d.sent) == 2 && d.sent[0].err == nil && d.sent[1].err == nil)
	if len(d.sent) != 2 {
		return
	}
	c1, c2 := d.sent[0].msg.CorrelationID, d.sent[1].msg.CorrelationID
	join := func(ch []string, id string) string {
		s := ""
		for _, x := range ch {
			s += x + "/"
		}
		return s + id
	}
	verifAssert("inj.envelope_id_is_slash_join_of_chain_and_id", c1 == join(ch1, id1) && c2 == join(ch2, id2))
	same := verifSameChain(ch1, ch2) && id1 == id2
	verifAssert("inj.equal_envelope_ids_iff_equal_chain_and_id", (c1 == c2) == same)
}

// H_router2_receive_uses_same_prefix: ReceiveFrom of a namespaced view reads the mailbox whose
// name is what SendTo of the same view writes into the envelope, and no other.
func H_router2_receive_uses_same_prefix() {
	root, d, c := verifRoot()
	c.started = true // no reader: the mailboxes are filled below
	r := root.Namespaced("ns")
	pa, pn := verifBytes(1), verifBytes(1)
	c.boxes["a"] = &mailbox{payloads: map[sharing.ID][]byte{2: pa}}
	c.boxes["ns/a"] = &mailbox{payloads: map[sharing.ID][]byte{2: pn}}
	c.buffered = 2
	verifReach("router2_receive_prefix")
	_ = r.SendTo(context.Background(), "a", map[sharing.ID][]byte{3: {1}})
	got, err := r.ReceiveFrom(context.Background(), "a", 2)
	verifAssert("prefix.receive_ok", err == nil && len(got) == 1 && bytes.Equal(got[2], pn))
	verifAssert("prefix.same_name_as_sent", len(d.sent) == 1 && d.sent[0].msg.CorrelationID == "ns/a")
	rest, ok := c.boxes["a"]
	verifAssert("prefix.plain_mailbox_untouched", ok && len(rest.payloads) == 1 && c.buffered == 1)
}

// ---------------------------------------------------------------------------------------------
// controls

// H_router2_from_field_MUSTFAIL: wrong twin (claims the message is filed under the envelope's
// From field). Transport sender 2, From = 3.
func H_router2_from_field_MUSTFAIL() {
	var sh verifShape
	s := verifState(sh)
	c, d := s.c, s.d
	pl := verifBytes(1)
	m := routerMessage{From: 3, CorrelationID: "a", Payload: pl}
	d.from, d.msg = 2, verifWire(m, false)
	verifReach("router2_from_field_mustfail")
	c.readLoop(context.Background())
	box := c.boxes["a"]
	if box == nil {
		return
	}
	_, have := box.payloads[3]
	verifAssert("readloop.wrong_filed_under_envelope_From", have)
}

// H_router2_nonmember_MUSTFAIL: wrong twin (claims a message whose transport sender is outside
// the quorum is deposited when the envelope names a member).
func H_router2_nonmember_MUSTFAIL() {
	var sh verifShape
	s := verifState(sh)
	c, d := s.c, s.d
	from := sharing.ID(verifU64())
	verifAssume(from != 1 && from != 2 && from != 3)
	m := routerMessage{From: 1, CorrelationID: "a", Payload: verifBytes(1)}
	d.from, d.msg = from, verifWire(m, false)
	verifReach("router2_nonmember_mustfail")
	c.readLoop(context.Background())
	verifAssert("readloop.wrong_nonmember_deposited", len(c.boxes) == 1)
}

// H_router2_decode_error_MUSTFAIL: wrong twin (claims the reader goes on after a decode error).
func H_router2_decode_error_MUSTFAIL() {
	var sh verifShape
	s := verifState(sh)
	c, d := s.c, s.d
	d.from, d.msg = 1, verifWire(routerMessage{}, true)
	verifReach("router2_decode_mustfail")
	c.readLoop(context.Background())
	verifAssert("stop.wrong_reader_continues_after_decode_error", d.calls == 2)
}

// H_router2_slash_MUSTFAIL: wrong twin (claims injectivity also for a component containing "/").
func H_router2_slash_MUSTFAIL() {
	root, d, _ := verifRoot()
	verifReach("router2_slash_mustfail")
	_ = root.Namespaced("x/y").SendTo(context.Background(), "a", map[sharing.ID][]byte{2: {7}})
	_ = root.Namespaced("x").Namespaced("y").SendTo(context.Background(), "a", map[sharing.ID][]byte{2: {7}})
	if len(d.sent) != 2 {
		return
	}
	verifAssert("inj.wrong_injective_with_slash_in_component", d.sent[0].msg.CorrelationID != d.sent[1].msg.CorrelationID)
}
