//go:build verif_e1

package expanders

import (
	"bytes"
	"crypto/sha256"
	"crypto/sha512"
	"hash"
)

// E1 harnesses for expand_message_xmd (property C19.d): the byte strings that are hashed for
// b_0, b_1, ..., b_ell are exactly the RFC 9380 section 5.3.1 layout, built here independently.
// The hash is a byte log; verifHashHistory(h) is the log at every Sum call, in order. Digests
// are uninterpreted but functional, so "b_0" in the specification is the digest of an
// independently built hash object with the same log.

func verifPanics(f func()) (p bool) {
	defer func() {
		if recover() != nil {
			p = true
		}
	}()
	f()
	return false
}

// verifH hashes a byte string with a fresh object of the same kind.
func verifH(newHash func() hash.Hash, data []byte) []byte {
	h := newHash()
	h.Write(data)
	return h.Sum(nil)
}

func verifCat(parts ...[]byte) []byte {
	var out []byte
	for _, p := range parts {
		out = append(out, p...)
	}
	return out
}

// verifXmdSpec returns the RFC 9380 section 5.3.1 hash inputs (in order, including the oversize-DST
// hash if any) and the uniform bytes.
func verifXmdSpec(newHash func() hash.Hash, bInBytes, sInBytes int, dst, msg []byte, lenInBytes int) (inputs [][]byte, uniform []byte) {
	if len(dst) > 255 {
		in := verifCat([]byte("H2C-OVERSIZE-DST-"), dst)
		inputs = append(inputs, in)
		dst = verifH(newHash, in)
	}
	ell := (lenInBytes + bInBytes - 1) / bInBytes
	dstPrime := verifCat(dst, []byte{byte(len(dst))})
	zPad := make([]byte, sInBytes)
	libStr := []byte{byte(lenInBytes >> 8), byte(lenInBytes)}
	msgPrime := verifCat(zPad, msg, libStr, []byte{0}, dstPrime)
	inputs = append(inputs, msgPrime)
	b0 := verifH(newHash, msgPrime)
	in1 := verifCat(b0, []byte{1}, dstPrime)
	inputs = append(inputs, in1)
	prev := verifH(newHash, in1)
	uniform = append(uniform, prev...)
	for i := 2; i <= ell; i++ {
		x := make([]byte, len(b0))
		for j := range x {
			x[j] = b0[j] ^ prev[j]
		}
		in := verifCat(x, []byte{byte(i)}, dstPrime)
		inputs = append(inputs, in)
		prev = verifH(newHash, in)
		uniform = append(uniform, prev...)
	}
	return inputs, uniform[:lenInBytes]
}

func verifCheckXmd(newHash func() hash.Hash, b, s int, dst, msg []byte, lenInBytes int) {
	var used hash.Hash
	x := &Xmd{HashFunc: func() hash.Hash { used = newHash(); return used }}
	dst0 := append([]byte{}, dst...)
	msg0 := append([]byte{}, msg...)
	out := x.ExpandMessage(dst, msg, uint(lenInBytes))
	hist := verifHashHistory(used)
	wantInputs, wantOut := verifXmdSpec(newHash, b, s, dst0, msg0, lenInBytes)
	verifAssert("xmd.hash_calls", len(hist) == len(wantInputs))
	for i := range wantInputs {
		if i < len(hist) {
			verifAssert("xmd.hash_input_layout", bytes.Equal(hist[i], wantInputs[i]))
		}
	}
	verifAssert("xmd.output_len", len(out) == lenInBytes)
	verifAssert("xmd.output", bytes.Equal(out, wantOut))
	verifAssert("xmd.inputs_untouched", bytes.Equal(dst, dst0) && bytes.Equal(msg, msg0))
}

// H_xmd_layout_sha256: SHA-256 (b = 32, s = 64), msg and DST lengths 0..3, all contents
// symbolic, len_in_bytes in {32, 48, 64, 96} (ell = 1, 2, 2, 3).
func H_xmd_layout_sha256() {
	dst := verifBytes(verifLen(0, 3))
	msg := verifBytes(verifLen(0, 3))
	lens := []int{32, 48, 64, 96}
	n := lens[verifLen(0, 3)]
	verifReach("xmd_layout_sha256")
	verifCheckXmd(sha256.New, 32, 64, dst, msg, n)
}

// H_xmd_layout_sha512: SHA-512 (b = 64, s = 128), lengths 0..2, len_in_bytes in {32, 96, 128}.
func H_xmd_layout_sha512() {
	dst := verifBytes(verifLen(0, 2))
	msg := verifBytes(verifLen(0, 2))
	lens := []int{32, 96, 128}
	n := lens[verifLen(0, 2)]
	verifReach("xmd_layout_sha512")
	verifCheckXmd(sha512.New, 64, 128, dst, msg, n)
}

// H_xmd_oversize_dst: a 255-byte DST is used as is (DST_prime ends with 0xff); a 256-byte DST is
// first replaced by H("H2C-OVERSIZE-DST-" || DST). Symbolic DST and message.
func H_xmd_oversize_dst() {
	n := 255 + verifLen(0, 1)
	dst := verifBytes(n)
	msg := verifBytes(2)
	verifReach("xmd_oversize_dst")
	verifCheckXmd(sha256.New, 32, 64, dst, msg, 48)
}

// H_xmd_bounds: ell > 255 or len_in_bytes > 65535 panics, ell = 255 does not (concrete inputs:
// the real SHA-256 is evaluated).
func H_xmd_bounds() {
	x := &Xmd{HashFunc: sha256.New}
	dst, msg := []byte("QUUX-V01-CS02-with-expander-SHA256-128"), []byte("abc")
	verifReach("xmd_bounds")
	verifAssert("xmd.ell255.ok", !verifPanics(func() { x.ExpandMessage(dst, msg, 255*32) }))
	verifAssert("xmd.ell256.panics", verifPanics(func() { x.ExpandMessage(dst, msg, 255*32+1) }))
	verifAssert("xmd.len65536.panics", verifPanics(func() { x.ExpandMessage(dst, msg, 65536) }))
	// RFC 9380 K.1 test vector (SHA-256, len 0x20, msg "abc")
	out := x.ExpandMessage(dst, msg, 32)
	want := []byte{0xd8, 0xcc, 0xab, 0x23, 0xb5, 0x98, 0x5c, 0xce, 0xa8, 0x65, 0xc6, 0xc9, 0x7b, 0x6e, 0x5b, 0x83,
		0x50, 0xe7, 0x94, 0xe6, 0x03, 0xb4, 0xb9, 0x79, 0x02, 0xf5, 0x3a, 0x8a, 0x0d, 0x60, 0x56, 0x15}
	verifAssert("xmd.rfc_vector", bytes.Equal(out, want))
}

// H_xmd_layout_MUSTFAIL: wrong twin (claims l_i_b_str is little-endian).
func H_xmd_layout_MUSTFAIL() {
	dst, msg := verifBytes(2), verifBytes(2)
	var used hash.Hash
	x := &Xmd{HashFunc: func() hash.Hash { used = sha256.New(); return used }}
	x.ExpandMessage(dst, msg, 48)
	hist := verifHashHistory(used)
	verifReach("xmd_layout_mustfail")
	wrong := verifCat(make([]byte, 64), msg, []byte{48, 0}, []byte{0}, dst, []byte{2})
	verifAssert("xmd.wrong_layout", bytes.Equal(hist[0], wrong))
}

// H_xmd_output_MUSTFAIL: wrong twin (claims the output is b_0 instead of b_1).
func H_xmd_output_MUSTFAIL() {
	dst, msg := []byte("dst"), []byte("msg")
	x := &Xmd{HashFunc: sha256.New}
	out := x.ExpandMessage(dst, msg, 32)
	verifReach("xmd_output_mustfail")
	msgPrime := verifCat(make([]byte, 64), msg, []byte{0, 32}, []byte{0}, dst, []byte{3})
	verifAssert("xmd.wrong_output", bytes.Equal(out, verifH(sha256.New, msgPrime)))
}
