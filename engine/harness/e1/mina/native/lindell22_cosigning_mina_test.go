//go:build verif_native

// NATIVE regression test (not an E1 harness: it runs the real lindell22 protocol, which the
// interpreter cannot encode). It guards the defect found with the mina group and repaired in /repo
// by "fix: lindell22 cosigning aggregator sums the parity-corrected nonce commitments": with the
// cosigning aggregator an HONEST Mina session failed ("verification failed") whenever the aggregate
// nonce commitment had odd y, because the aggregate signature carried the cosigner's UNCORRECTED R.
// The helper-level facts are E1 obligations of harness/e1/mina (th.aggregate_with_corrected_R_verifies,
// th.aggregate_with_uncorrected_R_verifies_iff_R_even, H_mina_threshold_uncorrected_R_MUSTFAIL).
//
// Run (never writes /repo): with OVERLAY = a JSON file
//   {"Replace": {"/repo/pkg/mpc/signatures/schnorr/lindell22/signing/zz_mina_cosign_test.go":
//                "/verif/engine/harness/e1/mina/native/lindell22_cosigning_mina_test.go"}}
//   cd /repo && GOPROXY=off GOSUMDB=off GOTOOLCHAIN=local CGO_ENABLED=0 go1.26.8 test \
//     -tags purego,verif_native -overlay $OVERLAY -count=1 -run TestMinaCosigningAggregatorHonest -v \
//     ./pkg/mpc/signatures/schnorr/lindell22/signing
// Expected: 16 honest sessions, both aggregators accept all (before the fix: the cosigning
// aggregator failed exactly the sessions with an odd-y aggregate R, 6 of 16 in the recorded run).

package signing_test

import (
	"maps"
	"slices"
	"testing"

	"github.com/stretchr/testify/require"

	"github.com/bronlabs/bron-crypto/pkg/base/curves/pasta"
	"github.com/bronlabs/bron-crypto/pkg/base/datastructures/hashmap"
	"github.com/bronlabs/bron-crypto/pkg/base/datastructures/hashset"
	"github.com/bronlabs/bron-crypto/pkg/base/prng/pcg"
	"github.com/bronlabs/bron-crypto/pkg/mpc/dkg/gennaro"
	dkgtu "github.com/bronlabs/bron-crypto/pkg/mpc/dkg/gennaro/testutils"
	session_testutils "github.com/bronlabs/bron-crypto/pkg/mpc/session/testutils"
	"github.com/bronlabs/bron-crypto/pkg/mpc/sharing"
	"github.com/bronlabs/bron-crypto/pkg/mpc/signatures/schnorr/lindell22"
	"github.com/bronlabs/bron-crypto/pkg/mpc/signatures/schnorr/lindell22/keygen"
	"github.com/bronlabs/bron-crypto/pkg/mpc/signatures/schnorr/lindell22/signing"
	"github.com/bronlabs/bron-crypto/pkg/network"
	ntu "github.com/bronlabs/bron-crypto/pkg/network/testutils"
	"github.com/bronlabs/bron-crypto/pkg/proofs/sigma/compiler/fiatshamir"
	"github.com/bronlabs/bron-crypto/pkg/signatures/schnorrlike/mina"
)

type (
	mP = *pasta.PallasPoint
	mS = *pasta.PallasScalar
	mM = *mina.Message
)

// Lindell22 threshold signing with the Mina variant, honest parties, aggregated (a) by the plain
// aggregator (sums the corrected partial commitments) and (b) by the cosigning aggregator (keeps the
// cosigner's uncorrected aggregate R).
func TestMinaCosigningAggregatorHonest(t *testing.T) {
	group := pasta.NewPallasCurve()
	prng := pcg.NewRandomised()
	fx := thresholdFixture(t)
	dkgCtxs := session_testutils.MakeRandomContexts(t, fx.ac.Shareholders(), prng)
	parts := make(map[sharing.ID]*gennaro.Participant[mP, mS])
	for id := range fx.ac.Shareholders().Iter() {
		p, err := gennaro.NewParticipant(dkgCtxs[id], group, fx.ac, fiatshamir.Name, pcg.NewRandomised())
		require.NoError(t, err)
		parts[id] = p
	}
	shards := make(map[sharing.ID]*lindell22.Shard[mP, mS])
	for id, out := range dkgtu.DoGennaroDKG(t, parts) {
		sh, err := keygen.NewShard(out)
		require.NoError(t, err)
		shards[id] = sh
	}
	quorum := fx.qualified[0]
	quorumSet := hashset.NewComparable(quorum...).Freeze()
	const sessions = 16
	plainFail, cosignFail, oddR := 0, 0, 0
	for n := 0; n < sessions; n++ {
		scheme, err := mina.NewRandomisedScheme(mina.TestNet, prng)
		require.NoError(t, err)
		variant := scheme.Variant()
		message := new(mina.ROInput).Init()
		message.AddString("session")
		message.AddBits(n&1 == 1, n&2 == 2, n&4 == 4, n&8 == 8)

		signingCtxs := session_testutils.MakeRandomContexts(t, quorumSet, prng)
		cosigners := make(map[sharing.ID]*signing.Cosigner[mP, mS, mM])
		for _, id := range quorum {
			c, err := signing.NewCosigner(signingCtxs[id], shards[id], fiatshamir.Name, variant, pcg.NewRandomised())
			require.NoError(t, err)
			cosigners[id] = c
		}
		r1bo := make(map[sharing.ID]*signing.Round1Broadcast[mP, mS, mM])
		r1uo := make(map[sharing.ID]network.RoundMessages[*signing.Round1P2P[mP, mS, mM], *signing.Cosigner[mP, mS, mM]])
		for id, c := range cosigners {
			bOut, uOut, err := c.Round1()
			require.NoError(t, err)
			r1bo[id], r1uo[id] = bOut, uOut
		}
		participants := slices.Collect(maps.Values(cosigners))
		r2bi, r2ui := ntu.MapO2I(t, participants, r1bo, r1uo)
		r2bo := make(map[sharing.ID]*signing.Round2Broadcast[mP, mS, mM])
		for id, c := range cosigners {
			out, err := c.Round2(r2bi[id], r2ui[id])
			require.NoError(t, err)
			r2bo[id] = out
		}
		r3bi := ntu.MapBroadcastO2I(t, participants, r2bo)
		psigs := hashmap.NewComparable[sharing.ID, *lindell22.PartialSignature[mP, mS]]()
		// uncorrected aggregate R = sum of the broadcast R_j
		aggR := group.OpIdentity()
		for id, c := range cosigners {
			psig, err := c.Round3(r3bi[id], message)
			require.NoError(t, err)
			psigs.Put(id, psig)
			aggR = aggR.Op(r2bo[id].BigR.X)
		}
		y, err := aggR.AffineY()
		require.NoError(t, err)
		if y.IsOdd() {
			oddR++
		}

		plain, err := signing.NewAggregator(shards[quorum[0]].PublicKeyMaterial(), scheme)
		require.NoError(t, err)
		_, errPlain := plain.Aggregate(psigs.Freeze(), message)
		cos, err := signing.NewCosigningAggregator(cosigners[quorum[0]], shards[quorum[0]].PublicKeyMaterial(), scheme)
		require.NoError(t, err)
		_, errCos := cos.Aggregate(psigs.Freeze(), message)
		t.Logf("session %2d: aggregate R odd=%v  plain aggregator err=%v  cosigning aggregator err=%v", n, y.IsOdd(), errPlain != nil, errCos != nil)
		if errPlain != nil {
			plainFail++
		}
		if errCos != nil {
			cosignFail++
			if n < 2 || cosignFail == 1 {
				t.Logf("   cosigning aggregator error: %v", errCos)
			}
		}
	}
	t.Logf("%d honest sessions: aggregate R odd in %d; plain aggregator failed %d; cosigning aggregator failed %d", sessions, oddR, plainFail, cosignFail)
	if plainFail+cosignFail > 0 {
		t.Fail()
	}
}
