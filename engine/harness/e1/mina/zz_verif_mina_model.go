//go:build verif_e1

package mina

import (
	"io"
	"math/bits"

	"github.com/bronlabs/bron-crypto/pkg/signatures"

	"github.com/bronlabs/bron-crypto/pkg/base/curves"
	"github.com/bronlabs/bron-crypto/pkg/base/curves/impl/traits"
	"github.com/bronlabs/bron-crypto/pkg/base/curves/pasta"
	pastaImpl "github.com/bronlabs/bron-crypto/pkg/base/curves/pasta/impl"
)

// The DISCRETE-LOG MODEL of the Pallas curve used by the mina harnesses (contracts). GENERATED from
// harness/e1/bip340/zz_verif_bip340_model.go by textual substitution (k256 -> pasta types), then
// adapted: moduli of Pallas (both 255 bits, so a 256-bit value is reduced by up to three
// subtractions), X != 0 because 5 is a non-square mod p, FromAffineX instead of FromCompressed, the
// base-field decoder, and two hash contracts (Poseidon: hashWithPrefix; BLAKE2b nonce derivation:
// deriveNonceLegacy). See the header of the bip340 model for the method.

const (
	verifK  = "github.com/bronlabs/bron-crypto/pkg/base/curves/pasta"
	verifIM = verifK + "/impl"
	verifT  = "github.com/bronlabs/bron-crypto/pkg/base/curves/impl/traits"
	verifAU = "github.com/bronlabs/bron-crypto/pkg/base/utils/algebrautils"
)

type (
	verifScT = traits.PrimeFieldElementTrait[*pastaImpl.Fq, pastaImpl.Fq, *pasta.FqFieldElement, pasta.FqFieldElement]
	verifBeT = traits.PrimeFieldElementTrait[*pastaImpl.Fp, pastaImpl.Fp, *pasta.FpFieldElement, pasta.FpFieldElement]
	verifSfT = traits.PrimeFieldTrait[*pastaImpl.Fq, *pasta.FqFieldElement, pasta.FqFieldElement]
	verifBfT = traits.PrimeFieldTrait[*pastaImpl.Fp, *pasta.FpFieldElement, pasta.FpFieldElement]
	verifPtT = traits.PointTrait[*pastaImpl.Fp, *pastaImpl.PallasPoint, pastaImpl.PallasPoint, *pasta.PallasPoint, pasta.PallasPoint]
	verifPpT = traits.PrimePointTrait[*pastaImpl.Fp, *pastaImpl.PallasPoint, pastaImpl.PallasPoint, *pasta.PallasPoint, pasta.PallasPoint]
	verifCvT = traits.CurveTrait[*pastaImpl.Fp, *pastaImpl.PallasPoint, *pasta.PallasPoint, pasta.PallasPoint]
	verifPcT = traits.PrimeCurveTrait[*pastaImpl.Fp, *pastaImpl.PallasPoint, *pasta.PallasPoint, pasta.PallasPoint]
)

// ---- constants (little-endian limbs)

func verifN() [4]uint64 { // order of Pallas = modulus of pastaImpl.Fq
	return [4]uint64{0x8c46eb2100000001, 0x224698fc0994a8dd, 0x0000000000000000, 0x4000000000000000}
}

func verifP() [4]uint64 { // base field of Pallas = modulus of pastaImpl.Fp
	return [4]uint64{0x992d30ed00000001, 0x224698fc094cf91b, 0x0000000000000000, 0x4000000000000000}
}

// ---- branch-free limb arithmetic (a Go && / || / if on a symbolic bool would fork)

func verifLimbsBE(b []byte) (l [4]uint64) {
	n := len(b)
	for i := 0; i < n; i++ {
		l[i/8] |= uint64(b[n-1-i]) << (8 * uint(i%8))
	}
	return l
}

func verifBytesBE(l [4]uint64) []byte {
	out := make([]byte, 32)
	for i := 0; i < 32; i++ {
		out[31-i] = byte(l[i/8] >> (8 * uint(i%8)))
	}
	return out
}

func verifIsZero4(l [4]uint64) bool { return l[0]|l[1]|l[2]|l[3] == 0 }

func verifEq4(a, b [4]uint64) bool {
	return (a[0]^b[0])|(a[1]^b[1])|(a[2]^b[2])|(a[3]^b[3]) == 0
}

func verifAdd4(a, b [4]uint64) (s [4]uint64, c uint64) {
	s[0], c = bits.Add64(a[0], b[0], 0)
	s[1], c = bits.Add64(a[1], b[1], c)
	s[2], c = bits.Add64(a[2], b[2], c)
	s[3], c = bits.Add64(a[3], b[3], c)
	return s, c
}

func verifSub4(a, b [4]uint64) (d [4]uint64, bo uint64) {
	d[0], bo = bits.Sub64(a[0], b[0], 0)
	d[1], bo = bits.Sub64(a[1], b[1], bo)
	d[2], bo = bits.Sub64(a[2], b[2], bo)
	d[3], bo = bits.Sub64(a[3], b[3], bo)
	return d, bo
}

func verifSel4(c bool, a, b [4]uint64) [4]uint64 {
	return [4]uint64{verifIteU64(c, a[0], b[0]), verifIteU64(c, a[1], b[1]), verifIteU64(c, a[2], b[2]), verifIteU64(c, a[3], b[3])}
}

// verifAddMod: (a + b) mod m for a, b < m.
func verifAddMod(a, b, m [4]uint64) [4]uint64 {
	s, c := verifAdd4(a, b)
	t, bo := verifSub4(s, m)
	return verifSel4(c|(bo^1) == 1, t, s)
}

// verifSubMod: (a - b) mod m for a, b < m.
func verifSubMod(a, b, m [4]uint64) [4]uint64 {
	d, bo := verifSub4(a, b)
	t, _ := verifAdd4(d, m)
	return verifSel4(bo == 1, t, d)
}

func verifNegMod(a, m [4]uint64) [4]uint64 { return verifSubMod([4]uint64{}, a, m) }

// verifNegY: p - y for 0 < y < p (which every Y of the model satisfies by assumption), written so
// that its lowest bit is SYNTACTICALLY the complement of the lowest bit of y (p is odd): the parity
// flip of a negated point then needs no 256-bit reasoning.
func verifNegY(y [4]uint64) [4]uint64 {
	r := verifNegMod(y, verifP())
	r[0] = (r[0] &^ 1) | ((y[0] & 1) ^ 1)
	return r
}

// verifRed: a mod m for a < 4m (true for every 256-bit a when m is n or p: both exceed 2^254).
func verifRed(a, m [4]uint64) [4]uint64 {
	for i := 0; i < 3; i++ {
		t, bo := verifSub4(a, m)
		a = verifSel4(bo == 0, t, a)
	}
	return a
}

// verifImp: a => b as an assumption, without forking.
func verifImp(a, b bool) { verifAssume(verifB2U(a) <= verifB2U(b)) }

// verifFresh4: four fresh ghost limbs.
func verifFresh4() [4]uint64 {
	u := verifU64s(4)
	return [4]uint64{u[0], u[1], u[2], u[3]}
}

// ---- ghost state (zero at the start of every path; unused natively)

// one term of a normal form: coefficient c (a small non-zero integer) times the product of the
// leaves f (node identifiers, ascending, with multiplicity; empty: the constant 1).
type verifTerm struct {
	f []int
	c int
}

type verifNode struct {
	v    [4]uint64   // the value, < n
	nf   []verifTerm // normal form, terms in ascending order of f
	leaf bool
}

type verifAtom struct {
	f []int     // monomial of degree >= 2
	v [4]uint64 // its uninterpreted value
}

type verifPoint struct {
	node int
}

type verifXY struct {
	node int // discrete logarithm (a node that is not the structural negation of an older entry)
	x, y [4]uint64
}

type verifChal struct {
	r, p int // |dlog| nodes of the nonce commitment and the key
	e    *pasta.FqFieldElement
}

type verifRnd struct {
	rd  *verifReader
	pos int
	s   *pasta.FqFieldElement
}

var (
	verifNodes  []verifNode // node id = index + 1; id 1 is the constant 0, id 2 the constant 1
	verifAtoms  []verifAtom
	verifScObjs []int // scalar object id - 1 -> node
	verifBes    [][4]uint64
	verifPts    []verifPoint
	verifXYs    []verifXY
	verifOffs   [][4]uint64 // abscissas that were declared not to be on the curve
	verifChals  []verifChal
	verifRnds   []verifRnd

	verifInternScalar *pasta.FqFieldElement // set by a harness: see verifSfFromBytes
	verifInternPoint  *pasta.PallasPoint    // set by a harness: see verifCurveFromAffineX
	verifPoss         []verifPos
	verifNonces       []verifNonce
)

const (
	verifZERO = 1
	verifONE  = 2
)

func verifInit() {
	if len(verifNodes) == 0 {
		verifNodes = append(verifNodes,
			verifNode{},
			verifNode{v: [4]uint64{1}, nf: []verifTerm{{c: 1}}})
	}
}

// ---- normal forms (all concrete)

func verifCmpF(a, b []int) int {
	for i := 0; i < len(a) && i < len(b); i++ {
		if a[i] != b[i] {
			if a[i] < b[i] {
				return -1
			}
			return 1
		}
	}
	if len(a) != len(b) {
		if len(a) < len(b) {
			return -1
		}
		return 1
	}
	return 0
}

func verifNFEqual(a, b []verifTerm) bool {
	if len(a) != len(b) {
		return false
	}
	for i := range a {
		if a[i].c != b[i].c || verifCmpF(a[i].f, b[i].f) != 0 {
			return false
		}
	}
	return true
}

// verifNFAddScaled: a + k*b.
func verifNFAddScaled(a, b []verifTerm, k int) []verifTerm {
	var out []verifTerm
	i, j := 0, 0
	for i < len(a) || j < len(b) {
		switch {
		case j == len(b) || (i < len(a) && verifCmpF(a[i].f, b[j].f) < 0):
			out = append(out, a[i])
			i++
		case i == len(a) || verifCmpF(a[i].f, b[j].f) > 0:
			out = append(out, verifTerm{f: b[j].f, c: k * b[j].c})
			j++
		default:
			if c := a[i].c + k*b[j].c; c != 0 {
				out = append(out, verifTerm{f: a[i].f, c: c})
			}
			i++
			j++
		}
	}
	return out
}

func verifMergeF(a, b []int) []int {
	out := make([]int, 0, len(a)+len(b))
	i, j := 0, 0
	for i < len(a) || j < len(b) {
		if j == len(b) || (i < len(a) && a[i] <= b[j]) {
			out = append(out, a[i])
			i++
		} else {
			out = append(out, b[j])
			j++
		}
	}
	return out
}

func verifNFMul(a, b []verifTerm) []verifTerm {
	var out []verifTerm
	for _, x := range a {
		for _, y := range b {
			out = verifNFAddScaled(out, []verifTerm{{f: verifMergeF(x.f, y.f), c: x.c * y.c}}, 1)
		}
	}
	return out
}

// ---- values

// verifMonoValue: the value of a product of leaves.
func verifMonoValue(f []int) [4]uint64 {
	switch len(f) {
	case 0:
		return [4]uint64{1}
	case 1:
		return verifNodes[f[0]-1].v
	}
	for i := range verifAtoms {
		if verifCmpF(verifAtoms[i].f, f) == 0 {
			return verifAtoms[i].v
		}
	}
	r := verifFresh4()
	ok := verifB2U(verifSpecLess4(r, verifN()))
	// a field has no zero divisors
	var anyZero uint64
	for _, id := range f {
		anyZero |= verifB2U(verifIsZero4(verifNodes[id-1].v))
	}
	ok &= verifB2U(verifB2U(verifIsZero4(r)) == anyZero)
	if len(f) == 2 {
		a, b := verifNodes[f[0]-1].v, verifNodes[f[1]-1].v
		for i := range verifAtoms {
			o := &verifAtoms[i]
			if len(o.f) != 2 {
				continue
			}
			oa, ob := verifNodes[o.f[0]-1].v, verifNodes[o.f[1]-1].v
			eqAA, eqBB := verifB2U(verifEq4(a, oa)), verifB2U(verifEq4(b, ob))
			eqAB, eqBA := verifB2U(verifEq4(a, ob)), verifB2U(verifEq4(b, oa))
			eqR := verifB2U(verifEq4(r, o.v))
			nzA, nzB := 1-verifB2U(verifIsZero4(a)), 1-verifB2U(verifIsZero4(b))
			// function of the unordered pair of values
			ok &= verifB2U((eqAA&eqBB)|(eqAB&eqBA) <= eqR)
			// cancellation: equal products with one equal non-zero factor have equal cofactors
			ok &= verifB2U(eqR&eqBB&nzB <= eqAA)
			ok &= verifB2U(eqR&eqAA&nzA <= eqBB)
			ok &= verifB2U(eqR&eqBA&nzB <= eqAB)
			ok &= verifB2U(eqR&eqAB&nzA <= eqBA)
		}
	}
	verifAssume(ok == 1)
	verifAtoms = append(verifAtoms, verifAtom{f: f, v: r})
	return r
}

// verifScale: k*v mod n for a small k >= 1.
func verifScale(v [4]uint64, k int) [4]uint64 {
	acc := v
	for i := 1; i < k; i++ {
		acc = verifAddMod(acc, v, verifN())
	}
	return acc
}

// verifEval: canonical evaluation of a normal form.
func verifEval(nf []verifTerm) [4]uint64 {
	var acc [4]uint64
	for i, t := range nf {
		tv := verifMonoValue(t.f)
		k := t.c
		if k < 0 {
			k = -k
		}
		tv = verifScale(tv, k)
		switch {
		case i == 0 && t.c > 0:
			acc = tv
		case i == 0:
			acc = verifNegMod(tv, verifN())
		case t.c > 0:
			acc = verifAddMod(acc, tv, verifN())
		default:
			acc = verifSubMod(acc, tv, verifN())
		}
	}
	return acc
}

// verifIntern: the node with this normal form.
func verifIntern(nf []verifTerm) int {
	verifInit()
	for i := range verifNodes {
		if verifNFEqual(verifNodes[i].nf, nf) {
			return i + 1
		}
	}
	v := verifEval(nf)
	verifNodes = append(verifNodes, verifNode{v: v, nf: nf})
	return len(verifNodes)
}

// verifLeaf: a new opaque scalar with value v (< n).
func verifLeaf(v [4]uint64) int {
	verifInit()
	id := len(verifNodes) + 1
	verifNodes = append(verifNodes, verifNode{v: v, nf: []verifTerm{{f: []int{id}, c: 1}}, leaf: true})
	return id
}

func verifNF(id int) []verifTerm { verifInit(); return verifNodes[id-1].nf }
func verifVal(id int) [4]uint64  { verifInit(); return verifNodes[id-1].v }

func verifNAdd(a, b int) int { return verifIntern(verifNFAddScaled(verifNF(a), verifNF(b), 1)) }
func verifNSub(a, b int) int { return verifIntern(verifNFAddScaled(verifNF(a), verifNF(b), -1)) }
func verifNNeg(a int) int    { return verifIntern(verifNFAddScaled(nil, verifNF(a), -1)) }
func verifNMul(a, b int) int { return verifIntern(verifNFMul(verifNF(a), verifNF(b))) }

// verifAbs: (node or its structural negation, whichever has a positive leading coefficient).
func verifAbs(id int) (abs int, negated bool) {
	nf := verifNF(id)
	if len(nf) > 0 && nf[0].c < 0 {
		return verifNNeg(id), true
	}
	return id, false
}

// ---- scalar objects

func verifNewScalar(node int) *pasta.FqFieldElement {
	verifScObjs = append(verifScObjs, node)
	s := new(pasta.FqFieldElement)
	s.V.SetUint64(uint64(len(verifScObjs)))
	return s
}

func verifScNode(v *pastaImpl.Fq) int {
	id := v.Limbs()[0]
	if id == 0 || id > uint64(len(verifScObjs)) {
		panic("harness: scalar that no contract produced")
	}
	return verifScObjs[id-1]
}

func verifScV(s *pasta.FqFieldElement) [4]uint64 { return verifVal(verifScNode(&s.V)) }

func verifNodeIsZero(id int) bool {
	if id == verifZERO {
		return true
	}
	nf := verifNF(id)
	if len(nf) == 1 {
		// c*m = 0 iff m = 0 (c a small non-zero integer, n a large prime)
		return verifIsZero4(verifMonoValue(nf[0].f))
	}
	// g*x = 0 iff x = 0 for the (small) gcd g of the coefficients; -x = 0 iff x = 0
	g := 0
	for _, t := range nf {
		c := t.c
		if c < 0 {
			c = -c
		}
		for c != 0 {
			g, c = c, g%c
		}
	}
	if nf[0].c < 0 {
		g = -g
	}
	if g != 1 {
		red := make([]verifTerm, len(nf))
		for i, t := range nf {
			red[i] = verifTerm{f: t.f, c: t.c / g}
		}
		id = verifIntern(red)
	}
	return verifIsZero4(verifVal(id))
}

// verifNodeEq: a = b, decided on the normal form of the difference (so that a + delta = a is
// literally "delta = 0", and there is ONE form of every equality test).
func verifNodeEq(a, b int) bool {
	return verifNodeIsZero(verifNSub(a, b))
}

func verifScIsZero(fe *verifScT) bool { return verifNodeIsZero(verifScNode(&fe.V)) }
func verifScIsOne(fe *verifScT) bool {
	id := verifScNode(&fe.V)
	return id == verifONE || verifEq4(verifVal(id), [4]uint64{1})
}
func verifScEqual(fe *verifScT, rhs *pasta.FqFieldElement) bool {
	return verifNodeEq(verifScNode(&fe.V), verifScNode(&rhs.V))
}
func verifScClone(fe *verifScT) *pasta.FqFieldElement { return verifNewScalar(verifScNode(&fe.V)) }
func verifScNeg(fe *verifScT) *pasta.FqFieldElement {
	return verifNewScalar(verifNNeg(verifScNode(&fe.V)))
}
func verifScAdd(fe *verifScT, e *pasta.FqFieldElement) *pasta.FqFieldElement {
	return verifNewScalar(verifNAdd(verifScNode(&fe.V), verifScNode(&e.V)))
}
func verifScSub(fe *verifScT, e *pasta.FqFieldElement) *pasta.FqFieldElement {
	return verifNewScalar(verifNSub(verifScNode(&fe.V), verifScNode(&e.V)))
}
func verifScMul(fe *verifScT, e *pasta.FqFieldElement) *pasta.FqFieldElement {
	return verifNewScalar(verifNMul(verifScNode(&fe.V), verifScNode(&e.V)))
}
func verifScBytes(fe *verifScT) []byte { return verifBytesBE(verifVal(verifScNode(&fe.V))) }

// (*ScalarField).FromBytes: exactly 32 bytes, reduced mod n (the real SetBytes reduces silently).
// The canonical and the non-canonical case are separate paths (as they are in the callers, which
// compare the re-encoding with the input). When the harness has named a scalar in verifInternScalar
// and the decoded value IS the value of that scalar, the result is that scalar's normal form (a
// scalar with the same value; what it saves is solver work on "decode(encode(s)) = s").
func verifSfFromBytes(f *verifSfT, b []byte) (*pasta.FqFieldElement, error) {
	if len(b) != 32 {
		return nil, curves.ErrFailed.WithMessage("cannot set bytes")
	}
	v := verifLimbsBE(b)
	if !verifSpecLess4(v, verifN()) {
		v = verifRed(v, verifN())
	}
	verifInit()
	if verifInternScalar != nil {
		if node := verifScNode(&verifInternScalar.V); verifEq4(verifVal(node), v) {
			return verifNewScalar(node), nil
		}
	}
	return verifNewScalar(verifLeaf(v)), nil
}

// (*ScalarField).FromWideBytes: at most 32 bytes are modelled (big-endian integer mod n).
func verifSfFromWideBytes(f *verifSfT, b []byte) (*pasta.FqFieldElement, error) {
	if len(b) > 64 {
		return nil, curves.ErrFailed.WithMessage("cannot set bytes")
	}
	if len(b) > 32 {
		panic("harness: FromWideBytes with more than 32 bytes is not modelled")
	}
	return verifNewScalar(verifLeaf(verifRed(verifLimbsBE(b), verifN()))), nil
}

func verifSfOne(f *verifSfT) *pasta.FqFieldElement  { verifInit(); return verifNewScalar(verifONE) }
func verifSfZero(f *verifSfT) *pasta.FqFieldElement { verifInit(); return verifNewScalar(verifZERO) }
func verifSfFromUint64(f *verifSfT, v uint64) *pasta.FqFieldElement {
	verifInit()
	switch v {
	case 0:
		return verifNewScalar(verifZERO)
	case 1:
		return verifNewScalar(verifONE)
	}
	return verifNewScalar(verifLeaf([4]uint64{v}))
}

// algebrautils.RandomNonIdentity(scalar field, prng): an arbitrary non-zero scalar. When the prng
// is the harness's verifReader the result is a function of the reader's position (two readers at
// the same position yield the same scalar, as two equal real streams do), and the position advances.
func verifRandomNonIdentity(m *pasta.FqField, prng io.Reader) (*pasta.FqFieldElement, error) {
	rd, ok := prng.(*verifReader)
	if ok {
		for i := range verifRnds {
			if verifRnds[i].pos == rd.pos {
				rd.pos++
				return verifRnds[i].s, nil
			}
		}
	}
	r := verifFresh4()
	verifAssume(verifB2U(verifSpecLess4(r, verifN()))&(1-verifB2U(verifIsZero4(r))) == 1)
	s := verifNewScalar(verifLeaf(r))
	if ok {
		verifRnds = append(verifRnds, verifRnd{pos: rd.pos, s: s})
		rd.pos++
	}
	return s, nil
}

// ---- base-field elements: exact values < p

func verifNewBase(l [4]uint64) *pasta.FpFieldElement {
	verifBes = append(verifBes, l)
	e := new(pasta.FpFieldElement)
	e.V.SetUint64(uint64(len(verifBes)))
	return e
}

func verifBeVal(v *pastaImpl.Fp) [4]uint64 {
	id := v.Limbs()[0]
	if id == 0 || id > uint64(len(verifBes)) {
		panic("harness: base-field element that no contract produced")
	}
	return verifBes[id-1]
}

func verifBeIsOdd(fe *verifBeT) bool  { return verifBeVal(&fe.V)[0]&1 == 1 }
func verifBeIsEven(fe *verifBeT) bool { return verifBeVal(&fe.V)[0]&1 == 0 }
func verifBeEqual(fe *verifBeT, rhs *pasta.FpFieldElement) bool {
	return verifEq4(verifBeVal(&fe.V), verifBeVal(&rhs.V))
}
func verifBeBytes(fe *verifBeT) []byte { return verifBytesBE(verifBeVal(&fe.V)) }
func verifBeIsZero(fe *verifBeT) bool  { return verifIsZero4(verifBeVal(&fe.V)) }

// ---- structures

func verifNewCurve() *pasta.PallasCurve   { return &pasta.PallasCurve{} }
func verifNewScalarField() *pasta.FqField { return &pasta.FqField{} }
func verifNewBaseField() *pasta.FpField   { return &pasta.FpField{} }

// ---- points: discrete logarithms

func verifNewPoint(node int) *pasta.PallasPoint {
	verifPts = append(verifPts, verifPoint{node: node})
	p := new(pasta.PallasPoint)
	p.V.X.SetUint64(uint64(len(verifPts)))
	return p
}

func verifPtNode(v *pastaImpl.PallasPoint) int {
	id := v.X.Limbs()[0]
	if id == 0 || id > uint64(len(verifPts)) {
		panic("harness: point that no contract produced")
	}
	return verifPts[id-1].node
}

func verifCvZero(c *verifCvT) *pasta.PallasPoint      { verifInit(); return verifNewPoint(verifZERO) }
func verifCvGenerator(c *verifCvT) *pasta.PallasPoint { verifInit(); return verifNewPoint(verifONE) }
func verifPcGenerator(c *verifPcT) *pasta.PallasPoint { verifInit(); return verifNewPoint(verifONE) }

func verifPtClone(p *verifPtT) *pasta.PallasPoint { return verifNewPoint(verifPtNode(&p.V)) }
func verifPtAdd(p *verifPtT, q *pasta.PallasPoint) *pasta.PallasPoint {
	return verifNewPoint(verifNAdd(verifPtNode(&p.V), verifPtNode(&q.V)))
}
func verifPtSub(p *verifPtT, q *pasta.PallasPoint) *pasta.PallasPoint {
	return verifNewPoint(verifNSub(verifPtNode(&p.V), verifPtNode(&q.V)))
}
func verifPtDouble(p *verifPtT) *pasta.PallasPoint {
	return verifNewPoint(verifNAdd(verifPtNode(&p.V), verifPtNode(&p.V)))
}
func verifPtNeg(p *verifPtT) *pasta.PallasPoint { return verifNewPoint(verifNNeg(verifPtNode(&p.V))) }
func verifPtIsZero(p *verifPtT) bool            { return verifNodeIsZero(verifPtNode(&p.V)) }
func verifPtEqual(p *verifPtT, q *pasta.PallasPoint) bool {
	return verifNodeEq(verifPtNode(&p.V), verifPtNode(&q.V))
}

// (*Point).ScalarMul(s): dlog(p) * s.
func verifPtScalarMul(p *pasta.PallasPoint, s *pasta.FqFieldElement) *pasta.PallasPoint {
	return verifNewPoint(verifNMul(verifPtNode(&p.V), verifScNode(&s.V)))
}

// the following four run the REAL wrapper (which only dispatches to contracted routines)
func verifPtScalarOp(p *pasta.PallasPoint, s *pasta.FqFieldElement) *pasta.PallasPoint {
	return p.ScalarOp(s)
}
func verifCurveScalarBaseMul(c *pasta.PallasCurve, s *pasta.FqFieldElement) *pasta.PallasPoint {
	return c.ScalarBaseMul(s)
}
func verifCurveScalarBaseOp(c *pasta.PallasCurve, s *pasta.FqFieldElement) *pasta.PallasPoint {
	return c.ScalarBaseOp(s)
}
func verifPtIsTorsionFree(p *pasta.PallasPoint) bool { return p.IsTorsionFree() }

// (*Curve).MultiScalarMul: sum of s_i * dlog(P_i); length check as in the real code.
func verifCurveMultiScalarMul(c *pasta.PallasCurve, scalars []*pasta.FqFieldElement, points []*pasta.PallasPoint) (*pasta.PallasPoint, error) {
	if len(scalars) != len(points) {
		return nil, curves.ErrInvalidLength.WithMessage("mismatched lengths of scalars and points")
	}
	verifInit()
	acc := verifZERO
	for i := range points {
		acc = verifNAdd(acc, verifNMul(verifScNode(&scalars[i].V), verifPtNode(&points[i].V)))
	}
	return verifNewPoint(acc), nil
}

func verifCurveMultiScalarOp(c *pasta.PallasCurve, scalars []*pasta.FqFieldElement, points []*pasta.PallasPoint) (*pasta.PallasPoint, error) {
	return c.MultiScalarOp(scalars, points)
}

// verifXYOf: the affine coordinates of the point with discrete logarithm node (non-zero on this path).
func verifXYOf(node int) (x, y [4]uint64) {
	abs, negated := verifAbs(node)
	found := -1
	for i := range verifXYs {
		if verifXYs[i].node == abs {
			found = i
			break
		}
	}
	if found < 0 {
		nx, ny := verifFresh4(), verifFresh4()
		// Y != 0: no point of order two; X != 0: 5 is not a square mod p
		ok := verifB2U(verifSpecLess4(nx, verifP())) & verifB2U(verifSpecLess4(ny, verifP())) & (1 - verifB2U(verifIsZero4(ny))) & (1 - verifB2U(verifIsZero4(nx)))
		found = verifAddXY(abs, nx, ny, ok)
	}
	x, y = verifXYs[found].x, verifXYs[found].y
	if negated {
		y = verifNegY(y)
	}
	return x, y
}

// verifAddXY: records X(node) = x, Y(node) = y with the pairwise facts against every older entry
// (one assumption: ok and those facts).
func verifAddXY(node int, x, y [4]uint64, ok uint64) int {
	for i := range verifXYs {
		o := &verifXYs[i]
		eqd := verifB2U(verifNodeIsZero(verifNSub(node, o.node)))
		eqn := verifB2U(verifNodeIsZero(verifNAdd(node, o.node)))
		eqx := verifB2U(verifEq4(x, o.x))
		ok &= verifB2U(eqx == eqd|eqn)
		ok &= verifB2U(eqd <= verifB2U(verifEq4(y, o.y)))
		ok &= verifB2U(eqn <= verifB2U(verifEq4(y, verifNegY(o.y))))
	}
	verifAssume(ok == 1)
	verifXYs = append(verifXYs, verifXY{node: node, x: x, y: y})
	return len(verifXYs) - 1
}

// (*Point).AffineX / AffineY: error for the identity (as real).
func verifPtAffineX(p *pasta.PallasPoint) (*pasta.FpFieldElement, error) {
	node := verifPtNode(&p.V)
	if verifNodeIsZero(node) {
		return nil, curves.ErrFailed.WithMessage("point is identity")
	}
	x, _ := verifXYOf(node)
	return verifNewBase(x), nil
}

func verifPtAffineY(p *pasta.PallasPoint) (*pasta.FpFieldElement, error) {
	node := verifPtNode(&p.V)
	if verifNodeIsZero(node) {
		return nil, curves.ErrFailed.WithMessage("point is identity")
	}
	_, y := verifXYOf(node)
	return verifNewBase(y), nil
}

// (*PallasCurve).FromAffineX(x, odd): "x is the abscissa of a point" is an uninterpreted predicate of
// the value of x (true for every X(d) handed out before); the point is the known one, or a fresh
// discrete logarithm with X = x, and has the requested parity of Y. Error value as in the real code.
func verifCurveFromAffineX(c *pasta.PallasCurve, xe *pasta.FpFieldElement, odd bool) (*pasta.PallasPoint, error) {
	verifInit()
	x := verifBeVal(&xe.V)
	first := -1
	if verifInternPoint != nil { // the entry the harness expects to match is compared first
		abs, _ := verifAbs(verifPtNode(&verifInternPoint.V))
		for i := range verifXYs {
			if verifXYs[i].node == abs {
				first = i
			}
		}
	}
	for j := -1; j < len(verifXYs); j++ {
		i := j
		if j < 0 {
			i = first
		}
		if i < 0 || (j >= 0 && i == first) {
			continue
		}
		if verifEq4(verifXYs[i].x, x) {
			if (verifXYs[i].y[0]&1 == 1) == odd {
				return verifNewPoint(verifXYs[i].node), nil
			}
			return verifNewPoint(verifNNeg(verifXYs[i].node)), nil
		}
	}
	for i := range verifOffs {
		if verifEq4(verifOffs[i], x) {
			return nil, curves.ErrInvalidCoordinates.WithMessage("x")
		}
	}
	if verifU8()&1 == 0 {
		verifOffs = append(verifOffs, x)
		return nil, curves.ErrInvalidCoordinates.WithMessage("x")
	}
	d, y := verifFresh4(), verifFresh4()
	ok := verifB2U(verifSpecLess4(d, verifN())) & (1 - verifB2U(verifIsZero4(d))) &
		verifB2U(verifSpecLess4(y, verifP())) & (1 - verifB2U(verifIsZero4(y))) & verifB2U((y[0]&1 == 1) == odd) &
		(1 - verifB2U(verifIsZero4(x)))
	node := verifLeaf(d)
	verifAddXY(node, x, y, ok)
	return verifNewPoint(node), nil
}

// (*FpField).FromBytes: exactly 32 big-endian bytes, reduced mod p (canonical / non-canonical on
// separate paths, as in the scalar decoder).
func verifBfFromBytes(f *verifBfT, b []byte) (*pasta.FpFieldElement, error) {
	if len(b) != 32 {
		return nil, curves.ErrFailed.WithMessage("cannot set bytes")
	}
	v := verifLimbsBE(b)
	if !verifSpecLess4(v, verifP()) {
		v = verifRed(v, verifP())
	}
	return verifNewBase(v), nil
}

func verifBfZero(f *verifBfT) *pasta.FpFieldElement   { return verifNewBase([4]uint64{}) }
func verifBeClone(fe *verifBeT) *pasta.FpFieldElement { return verifNewBase(verifBeVal(&fe.V)) }

// hashWithPrefix(prefix, inputs...): Poseidon (legacy) over base-field elements, reduced to a scalar:
// an UNINTERPRETED FUNCTION of (prefix bytes, values of the inputs) with values < n; equal arguments
// give equal results (pairwise, for calls with the same prefix and number of inputs). No
// collision-freeness. When the arguments are the same TERMS as in an earlier call the earlier object
// is returned (same leaf of the normal forms).
type verifPos struct {
	prefix string
	in     [][4]uint64
	out    [4]uint64
	s      *pasta.FqFieldElement
}

func verifHashWithPrefix(prefix Prefix, inputs ...*pasta.FpFieldElement) (*Scalar, error) {
	verifInit()
	in := make([][4]uint64, len(inputs))
	for i, e := range inputs {
		in[i] = verifBeVal(&e.V)
	}
	out := verifFresh4()
	ok := verifB2U(verifSpecLess4(out, verifN()))
	for i := range verifPoss {
		o := &verifPoss[i]
		if o.prefix != string(prefix) || len(o.in) != len(in) {
			continue
		}
		var diff uint64
		for j := range in {
			diff |= (in[j][0] ^ o.in[j][0]) | (in[j][1] ^ o.in[j][1]) | (in[j][2] ^ o.in[j][2]) | (in[j][3] ^ o.in[j][3])
		}
		if diff == 0 { // folds when the arguments are the same terms; otherwise a fork (equal / different)
			return o.s, nil
		}
		_ = ok
	}
	verifAssume(ok == 1)
	s := verifNewScalar(verifLeaf(out))
	verifPoss = append(verifPoss, verifPos{prefix: string(prefix), in: in, out: out, s: s})
	return s, nil
}

// (*Variant).deriveNonceLegacy: BLAKE2b over a bit string built from the message, the public key
// coordinates, the secret scalar and the network id, top two bits cleared: an UNINTERPRETED FUNCTION
// (values < 2^254 < n) of the variant's key object and message object: the same (key, message)
// objects give the same scalar object. The bit-level packing is NOT checked.
type verifNonce struct {
	sk  *PrivateKey
	msg *Message
	k   *pasta.FqFieldElement
}

func verifDeriveNonceLegacy(v *Variant) (*Scalar, error) {
	if v.msg == nil {
		return nil, signatures.ErrInvalidArgument.WithMessage("message is nil for deterministic nonce derivation")
	}
	for i := range verifNonces {
		if verifNonces[i].sk == v.sk && verifNonces[i].msg == v.msg {
			return verifNonces[i].k, nil
		}
	}
	r := verifFresh4()
	verifAssume(r[3]>>62 == 0)
	k := verifNewScalar(verifLeaf(r))
	verifNonces = append(verifNonces, verifNonce{sk: v.sk, msg: v.msg, k: k})
	return k, nil
}

// verifUnmodelled: any other method of the wrapper types is refused (the signature cannot match, so
// the call is not-encodable) instead of silently computing on object identifiers.
func verifUnmodelled(verifUnmodelledMarker) {}

type verifUnmodelledMarker struct{}

func verifReplacements() map[string]any {
	const sc = "(*" + verifT + ".PrimeFieldElementTrait[*" + verifIM + ".Fq, " + verifIM + ".Fq, *" + verifK + ".FqFieldElement, " + verifK + ".FqFieldElement])."
	const be = "(*" + verifT + ".PrimeFieldElementTrait[*" + verifIM + ".Fp, " + verifIM + ".Fp, *" + verifK + ".FpFieldElement, " + verifK + ".FpFieldElement])."
	const sf = "(*" + verifT + ".PrimeFieldTrait[*" + verifIM + ".Fq, *" + verifK + ".FqFieldElement, " + verifK + ".FqFieldElement])."
	const bf = "(*" + verifT + ".PrimeFieldTrait[*" + verifIM + ".Fp, *" + verifK + ".FpFieldElement, " + verifK + ".FpFieldElement])."
	const pt = "(*" + verifT + ".PointTrait)."
	const pp = "(*" + verifT + ".PrimePointTrait)."
	const cv = "(*" + verifT + ".CurveTrait)."
	const pc = "(*" + verifT + ".PrimeCurveTrait)."
	return map[string]any{
		sc + "IsZero":       verifScIsZero,
		sc + "IsOpIdentity": verifScIsZero,
		sc + "IsOne":        verifScIsOne,
		sc + "Equal":        verifScEqual,
		sc + "Clone":        verifScClone,
		sc + "Neg":          verifScNeg,
		sc + "OpInv":        verifScNeg,
		sc + "Add":          verifScAdd,
		sc + "Op":           verifScAdd,
		sc + "Sub":          verifScSub,
		sc + "Mul":          verifScMul,
		sc + "OtherOp":      verifScMul,
		sc + "Bytes":        verifScBytes,
		sc + "BytesBE":      verifScBytes,
		sc + "*":            verifUnmodelled,

		sf + "FromBytes":     verifSfFromBytes,
		sf + "FromBytesBE":   verifSfFromBytes,
		sf + "FromWideBytes": verifSfFromWideBytes,
		sf + "One":           verifSfOne,
		sf + "Zero":          verifSfZero,
		sf + "OpIdentity":    verifSfZero,
		sf + "FromUint64":    verifSfFromUint64,
		sf + "*":             verifUnmodelled,
		bf + "FromBytes":     verifBfFromBytes,
		bf + "FromBytesBE":   verifBfFromBytes,
		bf + "Zero":          verifBfZero,
		bf + "*":             verifUnmodelled,

		verifAU + ".RandomNonIdentity[...]": verifRandomNonIdentity,

		be + "IsOdd":  verifBeIsOdd,
		be + "IsEven": verifBeIsEven,
		be + "Equal":  verifBeEqual,
		be + "Bytes":  verifBeBytes,
		be + "IsZero": verifBeIsZero,
		be + "Clone":  verifBeClone,
		be + "*":      verifUnmodelled,

		verifK + ".NewPallasCurve": verifNewCurve,
		verifK + ".newFqField":     verifNewScalarField,
		verifK + ".newFpField":     verifNewBaseField,

		cv + "Zero":                   verifCvZero,
		cv + "OpIdentity":             verifCvZero,
		cv + "PrimeSubGroupGenerator": verifCvGenerator,
		cv + "*":                      verifUnmodelled,
		pc + "Generator":              verifPcGenerator,
		pc + "*":                      verifUnmodelled,

		pt + "Clone":        verifPtClone,
		pt + "Add":          verifPtAdd,
		pt + "Op":           verifPtAdd,
		pt + "Sub":          verifPtSub,
		pt + "Double":       verifPtDouble,
		pt + "Neg":          verifPtNeg,
		pt + "OpInv":        verifPtNeg,
		pt + "IsZero":       verifPtIsZero,
		pt + "IsOpIdentity": verifPtIsZero,
		pt + "Equal":        verifPtEqual,
		pt + "*":            verifUnmodelled,
		pp + "*":            verifUnmodelled,

		"(*" + verifK + ".PallasPoint).ScalarMul":       verifPtScalarMul,
		"(*" + verifK + ".PallasPoint).ScalarOp":        verifPtScalarOp,
		"(*" + verifK + ".PallasPoint).AffineX":         verifPtAffineX,
		"(*" + verifK + ".PallasPoint).AffineY":         verifPtAffineY,
		"(*" + verifK + ".PallasPoint).ToCompressed":    verifUnmodelled,
		"(*" + verifK + ".PallasPoint).Bytes":           verifUnmodelled,
		"(*" + verifK + ".PallasPoint).IsTorsionFree":   verifPtIsTorsionFree,
		"(*" + verifK + ".PallasPoint).ToUncompressed":  verifUnmodelled,
		"(*" + verifK + ".PallasPoint).HashCode":        verifUnmodelled,
		"(*" + verifK + ".PallasPoint).String":          verifUnmodelled,
		"(*" + verifK + ".PallasPoint).MarshalBinary":   verifUnmodelled,
		"(*" + verifK + ".PallasPoint).UnmarshalBinary": verifUnmodelled,

		"(*" + verifK + ".PallasCurve).ScalarBaseMul":    verifCurveScalarBaseMul,
		"(*" + verifK + ".PallasCurve).ScalarBaseOp":     verifCurveScalarBaseOp,
		"(*" + verifK + ".PallasCurve).MultiScalarMul":   verifCurveMultiScalarMul,
		"(*" + verifK + ".PallasCurve).MultiScalarOp":    verifCurveMultiScalarOp,
		"(*" + verifK + ".PallasCurve).FromCompressed":   verifUnmodelled,
		"(*" + verifK + ".PallasCurve).FromBytes":        verifUnmodelled,
		"(*" + verifK + ".PallasCurve).FromUncompressed": verifUnmodelled,
		"(*" + verifK + ".PallasCurve).FromAffine":       verifUnmodelled,
		"(*" + verifK + ".PallasCurve).FromAffineX":      verifCurveFromAffineX,
		"(*" + verifK + ".PallasCurve).FromWideBytes":    verifUnmodelled,
		"(*" + verifK + ".PallasCurve).Hash":             verifUnmodelled,
		"(*" + verifK + ".PallasCurve).HashWithDst":      verifUnmodelled,

		"github.com/bronlabs/bron-crypto/pkg/signatures/schnorrlike/mina.hashWithPrefix":               verifHashWithPrefix,
		"(*github.com/bronlabs/bron-crypto/pkg/signatures/schnorrlike/mina.Variant).deriveNonceLegacy": verifDeriveNonceLegacy,
	}
}
