//go:build verif_e1

package mina

import (
	"bytes"
	"errors"

	"github.com/bronlabs/bron-crypto/pkg/base/curves/pasta"
	"github.com/bronlabs/bron-crypto/pkg/mpc/sharing"
	"github.com/bronlabs/bron-crypto/pkg/mpc/sharing/scheme/additive"
	"github.com/bronlabs/bron-crypto/pkg/signatures"
)

// E1 harnesses for property C15 (Schnorr part: Mina) and C01 (parity corrections of the threshold
// helpers for Mina): pkg/signatures/schnorrlike/mina (mina.go, variant.go, roinput.go, prefix.go)
// with the generic SignerTrait.Sign / VerifierTrait.Verify of pkg/signatures/schnorrlike, INTERPRETED.
// Same method as harness/e1/bip340 (read its headers): the Pallas wrapper layer is replaced by the
// discrete-log model (zz_verif_mina_model.go, generated from the bip340 model). Two hash routines are
// replaced by uninterpreted functions as well: hashWithPrefix (Poseidon over the packed field
// elements: a function of the prefix and the VALUES of the inputs) and (*Variant).deriveNonceLegacy
// (BLAKE2b over a bit string: a function of the key and message OBJECTS; its bit packing is not
// checked). What stays real: ROInput (Clone, AddFields, AddBits, PackToFields), the order and choice
// of the challenge inputs (message fields, pk.x, pk.y, R.x, packed bits), the prefix selection, the
// nonce negation, the response, the generic verification equation s*G = R + e*P with a FULL point
// comparison (Mina has no x-only key: only the nonce commitment is normalised to even y), the
// little-endian signature codec.
//
// Parity rules read off the code: the public key is NOT normalised (s = k + e*d with d as given, the
// challenge absorbs pk.x AND pk.y); the nonce is negated iff k'G has odd y; Verify compares points,
// so a signature carrying -R (odd y) is refused by the equation itself; the threshold helpers leave
// the share alone and negate partial nonces / commitments iff the AGGREGATE commitment is odd.
//
// The native twin runs the real functions; the parity of k'G is a boolean input (assumed of the
// uninterpreted parity under the interpreter; natively the message is extended by one bit at a time
// until the real derived nonce has it).
//
// Not checked: Poseidon, BLAKE2b and the legacy bit packing, base58 key / signature encodings
// (big-integer base conversion), the transaction builders of tx.go.

type verifReader struct {
	pos int
}

func (r *verifReader) Read(b []byte) (int, error) {
	for i := range b {
		x := uint64(r.pos)*0x9E3779B97F4A7C15 + 0xD1B54A32D192ED03
		x ^= x >> 29
		x *= 0xBF58476D1CE4E5B9
		x ^= x >> 32
		b[i] = byte(x)
		r.pos++
	}
	return len(b), nil
}

func verifAny(c ...bool) bool {
	var acc uint64
	for _, x := range c {
		acc |= verifB2U(x)
	}
	return acc != 0
}

func verifInScalar(b []byte) *pasta.PallasScalar {
	verifAssume(verifSpecLess4(verifLimbsBE(b), verifN()))
	s, err := pasta.NewPallasScalarField().FromBytes(b)
	if err != nil {
		panic(err)
	}
	verifAssume(!s.IsZero())
	return s
}

func verifInField(b []byte) *pasta.PallasBaseFieldElement {
	verifAssume(verifSpecLess4(verifLimbsBE(b), verifP()))
	f, err := pasta.NewPallasBaseField().FromBytes(b)
	if err != nil {
		panic(err)
	}
	return f
}

func verifIsOddY(p *pasta.PallasPoint) bool {
	y, err := p.AffineY()
	if err != nil {
		panic(err)
	}
	return y.IsOdd()
}

func verifRejected(err error) bool {
	return err != nil && errors.Is(err, signatures.ErrVerificationFailed)
}

func verifMessage(fB []byte, extraBits int) *Message {
	msg := new(ROInput).Init()
	msg.AddFields(verifInField(fB))
	msg.AddBits(true, false, true)
	for i := 0; i < extraBits; i++ {
		msg.AddBits(i%3 == 0)
	}
	return msg
}

type verifCase struct {
	d, kPrime, kEff *pasta.PallasScalar
	bigP            *pasta.PallasPoint
	sk              *PrivateKey
	scheme          *Scheme
	msg             *Message
}

// verifMakeCase: key d, message (one symbolic field element and some fixed bits), and the parity of
// the derived nonce's point as requested.
func verifMakeCase(dB, fB []byte, wantROdd bool) *verifCase {
	c := &verifCase{}
	c.d = verifInScalar(dB)
	var err error
	c.sk, err = NewPrivateKey(c.d)
	if err != nil {
		panic(err)
	}
	c.bigP = c.sk.PublicKey().Value()
	c.scheme, err = NewScheme(TestNet, c.sk)
	if err != nil {
		panic(err)
	}
	v := c.scheme.Variant()
	for try := 0; ; try++ {
		c.msg = verifMessage(fB, try)
		v.msg = c.msg
		c.kPrime, err = v.deriveNonceLegacy()
		if err != nil {
			panic(err)
		}
		verifAssume(!c.kPrime.IsZero())
		rOdd := verifIsOddY(group.ScalarBaseMul(c.kPrime))
		if verifNative() && rOdd != wantROdd && try < 200 {
			continue
		}
		verifAssume(rOdd == wantROdd)
		c.kEff = c.kPrime
		if rOdd {
			c.kEff = c.kPrime.Neg()
		}
		break
	}
	return c
}

func (c *verifCase) sign() (*Signature, error) {
	signer, err := c.scheme.Signer(c.sk)
	if err != nil {
		panic(err)
	}
	return signer.Sign(c.msg)
}

func (c *verifCase) verifier() *Verifier {
	v, err := c.scheme.Verifier()
	if err != nil {
		panic(err)
	}
	return v
}

// ---- (a) Sign then Verify, both parities of the nonce point

func H_mina_sign_verify() {
	dB, fB := verifBytes(32), verifBytes(32)
	wantROdd := verifBool()
	c := verifMakeCase(dB, fB, wantROdd)
	if wantROdd {
		verifReach("sv_R_odd")
	} else {
		verifReach("sv_R_even")
	}
	sig, err := c.sign()
	wantR := group.ScalarBaseMul(c.kEff)
	atR := wantR
	if sig != nil && sig.R != nil {
		atR = sig.R
	}
	e, cerr := c.scheme.Variant().ComputeChallenge(atR, c.bigP, c.msg)
	if cerr != nil {
		panic(cerr)
	}
	wantS := c.kEff.Add(e.Mul(c.d))
	// (the signer verifies its own output and Verify refuses s = 0)
	verifAssert("sv.sign_succeeds_unless_s_is_zero", (err == nil && sig != nil) == !wantS.IsZero())
	if err != nil || sig == nil {
		return
	}
	verifReach("sv_signed")
	verifAssert("sv.verify_accepts", c.verifier().Verify(sig, c.sk.PublicKey(), c.msg) == nil)
	verifAssert("sv.R_is_effective_nonce_times_G", sig.R.Equal(wantR))
	verifAssert("sv.R_nonzero_with_even_y", !sig.R.IsZero() && !verifIsOddY(sig.R))
	verifAssert("sv.E_is_challenge", sig.E != nil && sig.E.Equal(e))
	verifAssert("sv.s_is_k_plus_e_times_key_as_given", sig.S.Equal(wantS))
	verifAssert("sv.sG_equals_R_plus_eP", group.ScalarBaseMul(sig.S).Equal(sig.R.Add(c.bigP.ScalarMul(e))))
	verifAssert("sv.nonce_negated_iff_R_odd", c.kEff.Equal(c.kPrime) == !wantROdd)
	verifAssert("sv.key_not_modified", c.sk.Value().Equal(c.d) && c.sk.PublicKey().Value().Equal(c.bigP))
}

// ---- a well-formed signature from the specification, arbitrary nonce with an even-y point

type verifSigCase struct {
	d, k, e    *pasta.PallasScalar
	bigP, bigR *pasta.PallasPoint
	pk         *PublicKey
	msg        *Message
	sig        *Signature
	scheme     *Scheme
}

func verifMakeSig(dB, kB, fB []byte) *verifSigCase {
	c := &verifSigCase{}
	c.d = verifInScalar(dB)
	sk, err := NewPrivateKey(c.d)
	if err != nil {
		panic(err)
	}
	c.pk, c.bigP = sk.PublicKey(), sk.PublicKey().Value()
	c.k = verifInScalar(kB)
	if verifNative() && verifIsOddY(group.ScalarBaseMul(c.k)) {
		c.k = c.k.Neg()
	}
	c.bigR = group.ScalarBaseMul(c.k)
	verifAssume(!verifIsOddY(c.bigR))
	c.scheme, err = NewRandomisedScheme(TestNet, &verifReader{})
	if err != nil {
		panic(err)
	}
	c.msg = verifMessage(fB, 0)
	c.e, err = c.scheme.Variant().ComputeChallenge(c.bigR, c.bigP, c.msg)
	if err != nil {
		panic(err)
	}
	s := c.k.Add(c.e.Mul(c.d))
	verifAssume(!s.IsZero())
	c.sig = &Signature{E: c.e, R: c.bigR, S: s}
	return c
}

func (c *verifSigCase) verifier() *Verifier {
	v, err := c.scheme.Verifier()
	if err != nil {
		panic(err)
	}
	return v
}

// ---- (b) Verify rejects changed components

func H_mina_verify_changed() {
	dB, kB, fB, deltaB := verifBytes(32), verifBytes(32), verifBytes(32), verifBytes(32)
	c := verifMakeSig(dB, kB, fB)
	delta := verifInScalar(deltaB)
	v := c.verifier()
	verifReach("changed")
	verifAssert("ch.unmodified_accepted", v.Verify(c.sig, c.pk, c.msg) == nil)
	sh := c.sig.S.Add(delta)
	verifAssume(!sh.IsZero())
	verifAssert("ch.s_plus_delta_rejected", verifRejected(v.Verify(&Signature{E: c.e, R: c.bigR, S: sh}, c.pk, c.msg)))
	// -R has the abscissa of R (same challenge) but the equation compares points
	verifAssert("ch.minus_R_rejected", verifRejected(v.Verify(&Signature{E: c.e, R: c.bigR.Neg(), S: c.sig.S}, c.pk, c.msg)))
	// the signature (R, s - 2k) satisfies s'G = -R + eP: refused as well
	s2 := c.sig.S.Sub(c.k).Sub(c.k)
	verifAssume(!s2.IsZero())
	verifAssert("ch.s_minus_2k_rejected", verifRejected(v.Verify(&Signature{E: c.e, R: c.bigR, S: s2}, c.pk, c.msg)))
	// the stored challenge is ignored by the plain verifier
	verifAssert("ch.E_field_is_ignored", v.Verify(&Signature{E: nil, R: c.bigR, S: c.sig.S}, c.pk, c.msg) == nil)
	verifAssert("ch.infinite_R_rejected", verifRejected(v.Verify(&Signature{E: c.e, R: group.OpIdentity(), S: c.sig.S}, c.pk, c.msg)))
	verifAssert("ch.zero_s_rejected", verifRejected(v.Verify(&Signature{E: c.e, R: c.bigR, S: sf.Zero()}, c.pk, c.msg)))
	err := v.Verify(c.sig, nil, c.msg)
	verifAssert("ch.nil_key_is_invalid_argument", err != nil && errors.Is(err, signatures.ErrInvalidArgument))
}

// the negated key is a DIFFERENT key for Mina (the challenge absorbs pk.y): accepted only under the
// relation e2*(-d) = e*d between hash outputs.
func H_mina_verify_negated_key() {
	dB, kB, fB := verifBytes(32), verifBytes(32), verifBytes(32)
	c := verifMakeSig(dB, kB, fB)
	negPk, err := NewPublicKey(c.bigP.Neg())
	if err != nil {
		panic(err)
	}
	verifReach("negkey")
	err = c.verifier().Verify(c.sig, negPk, c.msg)
	e2, cerr := c.scheme.Variant().ComputeChallenge(c.bigR, c.bigP.Neg(), c.msg)
	if cerr != nil {
		panic(cerr)
	}
	verifAssert("negkey.accepted_only_under_the_relation", verifRejected(err) || (err == nil && e2.Mul(c.d.Neg()).Equal(c.e.Mul(c.d))))
}

// ---- (c) threshold helpers

func verifThreshold(n int) {
	fB := verifBytes(32)
	wantROdd := verifBool()
	ds, ks := make([]*pasta.PallasScalar, n), make([]*pasta.PallasScalar, n)
	d, k := sf.Zero(), sf.Zero()
	for i := 0; i < n; i++ {
		ds[i], ks[i] = verifInScalar(verifBytes(32)), verifInScalar(verifBytes(32))
		d, k = d.Add(ds[i]), k.Add(ks[i])
	}
	verifAssume(!d.IsZero() && !k.IsZero())
	if verifNative() && verifIsOddY(group.ScalarBaseMul(k)) != wantROdd {
		k = k.Neg()
		for i := range ks {
			ks[i] = ks[i].Neg()
		}
	}
	bigP, bigR := group.ScalarBaseMul(d), group.ScalarBaseMul(k)
	verifAssume(verifIsOddY(bigR) == wantROdd)
	if wantROdd {
		verifReach("th_R_odd")
	} else {
		verifReach("th_R_even")
	}
	kEff := k
	if wantROdd {
		kEff = k.Neg()
	}
	pk, err := NewPublicKey(bigP)
	if err != nil {
		panic(err)
	}
	scheme, err := NewRandomisedScheme(TestNet, &verifReader{})
	if err != nil {
		panic(err)
	}
	variant := scheme.Variant()
	msg := verifMessage(fB, 0)
	e, err := variant.ComputeChallenge(bigR, bigP, msg)
	if err != nil {
		panic(err)
	}
	psv, err := scheme.PartialSignatureVerifier(pk)
	if err != nil {
		panic(err)
	}
	sumD, sumK, sumS, sumR := sf.Zero(), sf.Zero(), sf.Zero(), group.OpIdentity()
	for i := 0; i < n; i++ {
		share, err := additive.NewShare(sharing.ID(i+1), ds[i], nil)
		if err != nil {
			panic(err)
		}
		cs, err := variant.CorrectAdditiveSecretShareParity(pk, share)
		cR, cK, err2 := variant.CorrectPartialNonceParity(bigR, ks[i])
		bigRi, bigPi := group.ScalarBaseMul(ks[i]), group.ScalarBaseMul(ds[i])
		cRc, err3 := variant.CorrectPartialNonceCommitmentParity(bigR, bigRi)
		verifAssert("th.corrections_succeed", err == nil && err2 == nil && err3 == nil && cs != nil && cR != nil && cK != nil && cRc != nil)
		if err != nil || err2 != nil || err3 != nil || cs == nil || cR == nil || cK == nil || cRc == nil {
			return
		}
		verifAssert("th.share_is_left_alone", cs.Value().Equal(ds[i]) && cs.ID() == share.ID() && cs != share)
		verifAssert("th.nonce_negated_iff_R_odd", cK.Equal(ks[i]) == !wantROdd && verifAny(cK.Equal(ks[i]), cK.Equal(ks[i].Neg())))
		verifAssert("th.corrected_commitment_is_corrected_nonce_times_G", cR.Equal(group.ScalarBaseMul(cK)))
		verifAssert("th.commitment_correction_agrees_with_nonce_correction", cRc.Equal(cR))
		si, err := variant.ComputeResponse(cs.Value(), cK, e)
		verifAssert("th.response_is_k_plus_e_times_share", err == nil && si != nil && si.Equal(cK.Add(e.Mul(ds[i]))))
		if err != nil || si == nil {
			return
		}
		pki, err := NewPublicKey(bigPi)
		if err != nil {
			panic(err)
		}
		verifAssume(!si.IsZero())
		verifAssert("th.partial_signature_verifies", psv.Verify(&Signature{E: e, R: cR, S: si}, pki, msg) == nil)
		if i == 0 {
			bad := psv.Verify(&Signature{E: e, R: bigRi, S: si}, pki, msg)
			verifAssert("th.uncorrected_commitment_accepted_iff_no_correction", (bad == nil) == !wantROdd)
		}
		sumD, sumK, sumS, sumR = sumD.Add(cs.Value()), sumK.Add(cK), sumS.Add(si), sumR.Add(cR)
	}
	verifAssert("th.shares_sum_to_key", sumD.Equal(d))
	verifAssert("th.corrected_nonces_sum_to_effective_nonce", sumK.Equal(kEff))
	verifAssert("th.corrected_commitments_sum_to_even_y_R", sumR.Equal(group.ScalarBaseMul(kEff)) && !verifIsOddY(sumR))
	v, err := scheme.Verifier()
	if err != nil {
		panic(err)
	}
	verifAssume(!sumS.IsZero())
	verifAssert("th.aggregate_with_corrected_R_verifies", v.Verify(&Signature{E: e, R: sumR, S: sumS}, pk, msg) == nil)
	// the UNCORRECTED aggregate commitment (what lindell22's cosigning aggregator puts into the
	// signature) is the right R only when no correction took place
	agg := v.Verify(&Signature{E: e, R: bigR, S: sumS}, pk, msg)
	verifAssert("th.aggregate_with_uncorrected_R_verifies_iff_R_even", (agg == nil) == !wantROdd)
}

func H_mina_threshold_2() { verifThreshold(2) }
func H_mina_threshold_3() { verifThreshold(3) }

// ---- (e) serialisation

func H_mina_serialise_roundtrip() {
	dB, kB, fB := verifBytes(32), verifBytes(32), verifBytes(32)
	c := verifMakeSig(dB, kB, fB)
	verifReach("ser")
	verifInternScalar, verifInternPoint = c.sig.S, c.bigR // (model only) hints: see the decoding contracts
	sb, err := SerializeSignature(c.sig)
	rx, xerr := c.bigR.AffineX()
	if xerr != nil {
		panic(xerr)
	}
	verifAssert("ser.signature_is_64_bytes_xR_then_s_little_endian", err == nil && len(sb) == 64 &&
		bytes.Equal(reversedBytes(sb[:32]), rx.Bytes()) && bytes.Equal(reversedBytes(sb[32:]), c.sig.S.Bytes()))
	if err != nil || len(sb) != 64 {
		return
	}
	sig2, err := DeserializeSignature(sb)
	verifAssert("ser.signature_decodes", err == nil && sig2 != nil)
	if err != nil || sig2 == nil {
		return
	}
	verifAssert("ser.signature_roundtrip", sig2.R.Equal(c.bigR) && sig2.S.Equal(c.sig.S) && sig2.E == nil)
	verifAssert("ser.decoded_signature_verifies", c.verifier().Verify(sig2, c.pk, c.msg) == nil)
	// a signature object carrying -R serialises to the same bytes (and decodes to +R)
	sb2, err := SerializeSignature(&Signature{E: c.e, R: c.bigR.Neg(), S: c.sig.S})
	verifAssert("ser.minus_R_serialises_identically", err == nil && bytes.Equal(sb, sb2))
	_, err = SerializeSignature(nil)
	verifAssert("ser.nil_signature_refused", err != nil)
}

func H_mina_decode_signature_bytes() {
	n := verifLen(63, 65)
	in := verifBytes(n)
	verifReach("decsig")
	sig, err := DeserializeSignature(in)
	verifAssert("decsig.signature_xor_error", (sig == nil) != (err == nil))
	if n != 64 {
		verifAssert("decsig.length_must_be_64", err != nil && errors.Is(err, signatures.ErrSerialization))
		return
	}
	if err != nil || sig == nil {
		verifReach("decsig_rejected")
		return
	}
	verifReach("decsig_accepted")
	verifAssert("decsig.accepted_only_with_x_below_p_and_s_below_n",
		verifSpecLess4(verifLimbsBE(reversedBytes(in[:32])), verifP()) && verifSpecLess4(verifLimbsBE(reversedBytes(in[32:])), verifN()))
	out, err := SerializeSignature(sig)
	verifAssert("decsig.reserialises_to_the_input", err == nil && bytes.Equal(out, in))
	verifAssert("decsig.R_has_even_y", !sig.R.IsZero() && !verifIsOddY(sig.R))
	verifAssert("decsig.no_challenge_taken_from_the_wire", sig.E == nil)
}

// ---- controls

// wrong: the signer never negates the nonce.
func H_mina_sign_nonce_MUSTFAIL() {
	dB, fB := verifBytes(32), verifBytes(32)
	c := verifMakeCase(dB, fB, verifBool())
	verifReach("nonce_mustfail")
	sig, err := c.sign()
	if err != nil || sig == nil {
		return
	}
	verifAssert("sv.wrong_R_is_unadjusted_nonce_times_G", sig.R.Equal(group.ScalarBaseMul(c.kPrime)))
}

// wrong: the aggregate signature may carry the uncorrected aggregate commitment (it may for BIP-340,
// whose verifier compares abscissas; this is what lindell22's cosigning aggregator does).
func H_mina_threshold_uncorrected_R_MUSTFAIL() {
	fB := verifBytes(32)
	k1, k2 := verifInScalar(verifBytes(32)), verifInScalar(verifBytes(32))
	d := verifInScalar(verifBytes(32))
	k := k1.Add(k2)
	verifAssume(!k.IsZero())
	if verifNative() && !verifIsOddY(group.ScalarBaseMul(k)) {
		k, k1, k2 = k.Neg(), k1.Neg(), k2.Neg()
	}
	bigR, bigP := group.ScalarBaseMul(k), group.ScalarBaseMul(d)
	verifAssume(verifIsOddY(bigR))
	pk, err := NewPublicKey(bigP)
	if err != nil {
		panic(err)
	}
	scheme, err := NewRandomisedScheme(TestNet, &verifReader{})
	if err != nil {
		panic(err)
	}
	variant := scheme.Variant()
	msg := verifMessage(fB, 0)
	e, err := variant.ComputeChallenge(bigR, bigP, msg)
	if err != nil {
		panic(err)
	}
	_, c1, err1 := variant.CorrectPartialNonceParity(bigR, k1)
	_, c2, err2 := variant.CorrectPartialNonceParity(bigR, k2)
	if err1 != nil || err2 != nil {
		return
	}
	s := c1.Add(c2).Add(e.Mul(d))
	verifAssume(!s.IsZero())
	v, err := scheme.Verifier()
	if err != nil {
		panic(err)
	}
	verifReach("uncorrected_mustfail")
	verifAssert("th.wrong_uncorrected_aggregate_R_verifies", v.Verify(&Signature{E: e, R: bigR, S: s}, pk, msg) == nil)
}
