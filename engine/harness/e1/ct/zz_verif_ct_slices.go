//go:build verif_e1

package ct

import "bytes"

// E1 harnesses for pkg/base/ct, byte and slice part, lengths 0..4 (unequal lengths included),
// all contents.

// verifPanics reports whether f panics.
func verifPanics(f func()) (p bool) {
	defer func() {
		if recover() != nil {
			p = true
		}
	}()
	f()
	return false
}

// H_ct_compare_bytes: CompareBytes against bytes.Compare (lexicographic, a proper prefix is
// smaller), for all length pairs in 0..4 x 0..4.
func H_ct_compare_bytes() {
	n, m := verifLen(0, 4), verifLen(0, 4)
	x, y := verifBytes(n), verifBytes(m)
	verifReach("ct_compare_bytes")
	lt, eq, gt := CompareBytes(x, y)
	c := bytes.Compare(x, y)
	verifAssert("CompareBytes.lt", uint64(lt) == verifB2U(c < 0))
	verifAssert("CompareBytes.eq", uint64(eq) == verifB2U(c == 0))
	verifAssert("CompareBytes.gt", uint64(gt) == verifB2U(c > 0))
}

// H_ct_compare_bytes_MUSTFAIL: wrong twin (claims a proper prefix compares equal).
func H_ct_compare_bytes_MUSTFAIL() {
	x, y := verifBytes(2), verifBytes(3)
	verifReach("ct_compare_bytes_mustfail")
	lt, _, _ := CompareBytes(x, y)
	verifAssert("CompareBytes.wrong", uint64(lt) == verifB2U(bytes.Compare(x, y[:2]) < 0))
}

// H_ct_slice_preds: SliceEqual, SliceEachEqual, SliceIsZero on []uint64 and []byte.
func H_ct_slice_preds() {
	n, m := verifLen(0, 4), verifLen(0, 4)
	x, y := verifU64s(n), verifU64s(m)
	e := verifU64()
	verifReach("ct_slice_preds")

	var diff, neqE, nz uint64
	if n == m {
		for i := range x {
			diff += verifB2U(x[i] != y[i])
		}
	}
	for i := range x {
		neqE += verifB2U(x[i] != e)
		nz += verifB2U(x[i] != 0)
	}
	verifAssert("SliceEqual.u64", uint64(SliceEqual(x, y)) == verifB2U(n == m && diff == 0))
	verifAssert("SliceEachEqual.u64", uint64(SliceEachEqual(x, e)) == verifB2U(neqE == 0))
	verifAssert("SliceIsZero.u64", uint64(SliceIsZero(x)) == verifB2U(nz == 0))

	bx, by := verifBytes(n), verifBytes(m)
	verifAssert("SliceEqual.bytes", uint64(SliceEqual(bx, by)) == verifB2U(bytes.Equal(bx, by)))
}

// H_ct_slice_select: CSelectInts, CMOVInts, CSwapInts element-wise; unequal lengths panic.
func H_ct_slice_select() {
	n, m := verifLen(0, 4), verifLen(0, 4)
	x, y := verifU64s(n), verifU64s(m)
	c := Choice(verifU64())
	bit := uint64(c & 1)
	verifReach("ct_slice_select")

	if n != m {
		verifAssert("CSelectInts.panics", verifPanics(func() { CSelectInts(c, x, y) }))
		verifAssert("CMOVInts.panics", verifPanics(func() { CMOVInts(x, y, c) }))
		verifAssert("CSwapInts.panics", verifPanics(func() { CSwapInts(x, y, c) }))
		return
	}
	x0 := append([]uint64{}, x...)
	y0 := append([]uint64{}, y...)

	out := CSelectInts(c, x, y)
	verifAssert("CSelectInts.len", len(out) == n)
	var bad uint64
	for i := range out {
		bad += verifB2U(out[i] != verifIteU64(bit == 1, y0[i], x0[i]))
		bad += verifB2U(x[i] != x0[i]) + verifB2U(y[i] != y0[i])
	}
	verifAssert("CSelectInts.elems", bad == 0)

	d := append([]uint64{}, x...)
	CMOVInts(d, y, c)
	bad = 0
	for i := range d {
		bad += verifB2U(d[i] != verifIteU64(bit == 1, y0[i], x0[i])) + verifB2U(y[i] != y0[i])
	}
	verifAssert("CMOVInts.elems", bad == 0)

	CSwapInts(x, y, c)
	bad = 0
	for i := range x {
		bad += verifB2U(x[i] != verifIteU64(bit == 1, y0[i], x0[i]))
		bad += verifB2U(y[i] != verifIteU64(bit == 1, x0[i], y0[i]))
	}
	verifAssert("CSwapInts.elems", bad == 0)
}

// H_ct_slice_select_MUSTFAIL: wrong twin (CSwapInts claimed to leave y unchanged).
func H_ct_slice_select_MUSTFAIL() {
	x, y := verifU64s(2), verifU64s(2)
	c := Choice(verifU64())
	y0 := append([]uint64{}, y...)
	verifReach("ct_slice_select_mustfail")
	CSwapInts(x, y, c)
	verifAssert("CSwapInts.wrong", y[1] == y0[1])
}

// H_ct_bytes_ops: AndBytes, OrBytes, NotBytes, XorBytes element-wise, return values, untouched
// tail of dst, and the documented panics, for len(x), len(y), len(dst) in 0..4.
func H_ct_bytes_ops() {
	nx, ny, nd := verifLen(0, 4), verifLen(0, 4), verifLen(0, 4)
	x, y, dst0 := verifBytes(nx), verifBytes(ny), verifBytes(nd)
	verifReach("ct_bytes_ops")
	fresh := func() []byte { return append([]byte{}, dst0...) }

	// AndBytes / OrBytes: panic iff lengths differ, or (n > 0 and n > len(dst)); n == 0 returns 0.
	wantPanic := nx != ny || (nx > 0 && nx > nd)
	{
		dst := fresh()
		var r int
		p := verifPanics(func() { r = AndBytes(dst, x, y) })
		verifAssert("AndBytes.panic", p == wantPanic)
		if !p {
			var bad uint64
			for i := range dst {
				if i < nx {
					bad += verifB2U(dst[i] != x[i]&y[i])
				} else {
					bad += verifB2U(dst[i] != dst0[i])
				}
			}
			verifAssert("AndBytes.elems", bad == 0)
			verifAssert("AndBytes.ret", r == nx)
		}
	}
	{
		dst := fresh()
		var r int
		p := verifPanics(func() { r = OrBytes(dst, x, y) })
		verifAssert("OrBytes.panic", p == wantPanic)
		if !p {
			var bad uint64
			for i := range dst {
				if i < nx {
					bad += verifB2U(dst[i] != x[i]|y[i])
				} else {
					bad += verifB2U(dst[i] != dst0[i])
				}
			}
			verifAssert("OrBytes.elems", bad == 0)
			verifAssert("OrBytes.ret", r == nx)
		}
	}
	{
		dst := fresh()
		var r int
		p := verifPanics(func() { r = NotBytes(dst, x) })
		verifAssert("NotBytes.panic", p == (nx > 0 && nx > nd))
		if !p {
			var bad uint64
			for i := range dst {
				if i < nx {
					bad += verifB2U(dst[i] != ^x[i])
				} else {
					bad += verifB2U(dst[i] != dst0[i])
				}
			}
			verifAssert("NotBytes.elems", bad == 0)
			verifAssert("NotBytes.ret", r == nx)
		}
	}
	{
		// XorBytes = subtle.XORBytes: n = min(len(x), len(y)); panics iff n > len(dst) (n > 0).
		n := min(nx, ny)
		dst := fresh()
		var r int
		p := verifPanics(func() { r = XorBytes(dst, x, y) })
		verifAssert("XorBytes.panic", p == (n > 0 && n > nd))
		if !p {
			var bad uint64
			for i := range dst {
				if i < n {
					bad += verifB2U(dst[i] != x[i]^y[i])
				} else {
					bad += verifB2U(dst[i] != dst0[i])
				}
			}
			verifAssert("XorBytes.elems", bad == 0)
			verifAssert("XorBytes.ret", r == n)
		}
	}
}

// H_ct_bytes_ops_MUSTFAIL: wrong twin (NotBytes claimed to be the identity).
func H_ct_bytes_ops_MUSTFAIL() {
	x := verifBytes(3)
	dst := make([]byte, 3)
	verifReach("ct_bytes_ops_mustfail")
	NotBytes(dst, x)
	verifAssert("NotBytes.wrong", dst[2] == x[2])
}
