//go:build verif_e1

package ct

// E1 harnesses for pkg/base/ct, integer part: 64-bit instances of the generic functions
// against the Go operators, for all inputs.

func b2c(b bool) Choice {
	if b {
		return 1
	}
	return 0
}

// H_ct_less: LessU64, LessI64, Less, Greater, LessOrEqual, GreaterOrEqual, Equal on uint64/int64.
func H_ct_less() {
	a, b := verifU64(), verifU64()
	sa, sb := int64(a), int64(b)
	verifReach("ct_less")
	verifObserve("LessU64", uint64(LessU64(a, b))) // compared by -selftest (interpreter vs native)
	verifObserve("LessI64", uint64(LessI64(sa, sb)))
	verifAssert("LessU64", (LessU64(a, b) == 1) == (a < b))
	verifAssert("LessU64.range", LessU64(a, b) <= 1)
	verifAssert("LessI64", (LessI64(sa, sb) == 1) == (sa < sb))
	verifAssert("LessI64.range", LessI64(sa, sb) <= 1)
	verifAssert("Less.u64", (Less(a, b) == 1) == (a < b) && Less(a, b) <= 1)
	verifAssert("Less.i64", (Less(sa, sb) == 1) == (sa < sb) && Less(sa, sb) <= 1)
	verifAssert("Greater.u64", (Greater(a, b) == 1) == (a > b) && Greater(a, b) <= 1)
	verifAssert("Greater.i64", (Greater(sa, sb) == 1) == (sa > sb) && Greater(sa, sb) <= 1)
	verifAssert("LessOrEqual.u64", (LessOrEqual(a, b) == 1) == (a <= b) && LessOrEqual(a, b) <= 1)
	verifAssert("LessOrEqual.i64", (LessOrEqual(sa, sb) == 1) == (sa <= sb) && LessOrEqual(sa, sb) <= 1)
	verifAssert("GreaterOrEqual.u64", (GreaterOrEqual(a, b) == 1) == (a >= b) && GreaterOrEqual(a, b) <= 1)
	verifAssert("GreaterOrEqual.i64", (GreaterOrEqual(sa, sb) == 1) == (sa >= sb) && GreaterOrEqual(sa, sb) <= 1)
	verifAssert("Equal.u64", (Equal(a, b) == 1) == (a == b) && Equal(a, b) <= 1)
	verifAssert("Equal.i64", (Equal(sa, sb) == 1) == (sa == sb) && Equal(sa, sb) <= 1)
}

// H_ct_less_MUSTFAIL: deliberately wrong twin (claims LessU64 is <=).
func H_ct_less_MUSTFAIL() {
	a, b := verifU64(), verifU64()
	verifReach("ct_less_mustfail")
	verifAssert("LessU64.wrong", (LessU64(a, b) == 1) == (a <= b))
}

// H_ct_select: IsZero, IsNegative, CompareInt, CSelectInt, CMOVInt, CSwapInt, Min, Max.
// The Choice argument is arbitrary (not only 0/1): the functions document "choice&1".
func H_ct_select() {
	a, b := verifU64(), verifU64()
	c := Choice(verifU64())
	sa, sb := int64(a), int64(b)
	bit := uint64(c & 1)
	verifReach("ct_select")

	verifAssert("IsZero.u64", (IsZero(a) == 1) == (a == 0))
	verifAssert("IsZero.u64.range", IsZero(a) <= 1)
	verifAssert("IsZero.i64", (IsZero(sa) == 1) == (sa == 0))
	verifAssert("IsNegative.i64", (IsNegative(sa) == 1) == (sa < 0))
	verifAssert("IsNegative.range", IsNegative(sa) <= 1)

	gt, eq, lt := CompareInt(a, b)
	verifAssert("CompareInt.u64.gt", uint64(gt) == verifB2U(a > b))
	verifAssert("CompareInt.u64.eq", uint64(eq) == verifB2U(a == b))
	verifAssert("CompareInt.u64.lt", uint64(lt) == verifB2U(a < b))
	sgt, seq, slt := CompareInt(sa, sb)
	verifAssert("CompareInt.i64.gt", uint64(sgt) == verifB2U(sa > sb))
	verifAssert("CompareInt.i64.eq", uint64(seq) == verifB2U(sa == sb))
	verifAssert("CompareInt.i64.lt", uint64(slt) == verifB2U(sa < sb))

	verifAssert("CSelectInt.u64", CSelectInt(c, a, b) == verifIteU64(bit == 1, b, a))
	verifAssert("CSelectInt.i64", uint64(CSelectInt(c, sa, sb)) == verifIteU64(bit == 1, b, a))

	d, s := a, b
	CMOVInt(&d, c, &s)
	verifAssert("CMOVInt.dst", d == verifIteU64(bit == 1, b, a))
	verifAssert("CMOVInt.src", s == b)

	x, y := a, b
	CSwapInt(&x, &y, c)
	verifAssert("CSwapInt.x", x == verifIteU64(bit == 1, b, a))
	verifAssert("CSwapInt.y", y == verifIteU64(bit == 1, a, b))

	verifAssert("Min.u64", Min(a, b) == verifIteU64(a < b, a, b))
	verifAssert("Max.u64", Max(a, b) == verifIteU64(a > b, a, b))
	verifAssert("Min.i64", uint64(Min(sa, sb)) == verifIteU64(sa < sb, a, b))
	verifAssert("Max.i64", uint64(Max(sa, sb)) == verifIteU64(sa > sb, a, b))
}

// H_ct_select_MUSTFAIL: wrong twin (CSelectInt with the operands the wrong way round).
func H_ct_select_MUSTFAIL() {
	a, b := verifU64(), verifU64()
	c := Choice(verifU64())
	verifReach("ct_select_mustfail")
	verifAssert("CSelectInt.wrong", CSelectInt(c, a, b) == verifIteU64(c&1 == 1, a, b))
}
