//go:build verif_e1

package expanders

import (
	"bytes"
	"crypto/sha256"
	"crypto/sha512"
	"hash"
)

// E1 harnesses for expand_message_xmd around the oversize-DST boundary (property C19.d,
// RFC 9380 sections 5.3.1 and 5.3.3): DST lengths 254, 255, 256, 257 with symbolic contents,
// message length 0..1, two output lengths per hash.
//
//   len(DST) <= 255:  DST_prime = DST || I2OSP(len(DST), 1)
//   len(DST) >  255:  DST = H("H2C-OVERSIZE-DST-" || DST), then as above (so DST_prime ends
//                     with I2OSP(b_in_bytes, 1))
//
// The hash is a byte log; verifHashHistory(h) is the log at every Sum call, in order. Digests are
// uninterpreted but functional, so H(x) in the specification is the digest of an independently
// built hash object of the same kind with log x. Helpers are copies of those in harness/e1/xmd
// (the two directories are never overlaid together).

// verifH hashes a byte string with a fresh object of the same kind.
func verifH(newHash func() hash.Hash, data []byte) []byte {
	h := newHash()
	h.Write(data)
	return h.Sum(nil)
}

func verifCat(parts ...[]byte) []byte {
	var out []byte
	for _, p := range parts {
		out = append(out, p...)
	}
	return out
}

func verifHasSuffix(s, suffix []byte) bool {
	return len(s) >= len(suffix) && bytes.Equal(s[len(s)-len(suffix):], suffix)
}

// verifDstPrime is RFC 9380 section 5.3.3 + step 3 of 5.3.1, written without reference to the
// library: the effective DST, DST_prime, and the extra hash input (nil if none).
func verifDstPrime(newHash func() hash.Hash, dst []byte) (dstPrime, oversizeInput []byte) {
	if len(dst) > 255 {
		oversizeInput = verifCat([]byte("H2C-OVERSIZE-DST-"), dst)
		dst = verifH(newHash, oversizeInput)
	}
	return verifCat(dst, []byte{byte(len(dst))}), oversizeInput
}

// verifCheckXmd2 runs ExpandMessage and compares every hashed string and the output with the
// RFC layout. b = digest size, s = block size of the hash.
func verifCheckXmd2(newHash func() hash.Hash, b, s int, dst, msg []byte, lenInBytes int) {
	var used hash.Hash
	x := &Xmd{HashFunc: func() hash.Hash { used = newHash(); return used }}
	dst0 := append([]byte{}, dst...)
	msg0 := append([]byte{}, msg...)
	out := x.ExpandMessage(dst, msg, uint(lenInBytes))
	hist := verifHashHistory(used)

	dstPrime, oversizeInput := verifDstPrime(newHash, dst0)
	ell := (lenInBytes + b - 1) / b
	skip := 0
	if len(dst0) > 255 {
		skip = 1
		verifAssert("xmd2.oversize.hash_calls", len(hist) == ell+2)
		verifAssert("xmd2.oversize.first_hash_is_prefix_then_dst", bytes.Equal(hist[0], oversizeInput))
		verifAssert("xmd2.oversize.first_hash_len", len(hist[0]) == 17+len(dst0))
		verifAssert("xmd2.oversize.dst_prime_len", len(dstPrime) == b+1 && dstPrime[b] == byte(b))
	} else {
		verifAssert("xmd2.asis.hash_calls", len(hist) == ell+1)
		verifAssert("xmd2.asis.dst_prime_is_dst_then_len", len(dstPrime) == len(dst0)+1 &&
			bytes.Equal(dstPrime[:len(dst0)], dst0) && dstPrime[len(dst0)] == byte(len(dst0)))
	}
	if len(hist) != ell+1+skip {
		return
	}
	// every b_i input ends with DST_prime
	for i := skip; i < len(hist); i++ {
		verifAssert("xmd2.every_input_ends_with_dst_prime", verifHasSuffix(hist[i], dstPrime))
	}
	// msg_prime = Z_pad || msg || I2OSP(len_in_bytes, 2) || 0 || DST_prime
	msgPrime := verifCat(make([]byte, s), msg0, []byte{byte(lenInBytes >> 8), byte(lenInBytes)}, []byte{0}, dstPrime)
	verifAssert("xmd2.msg_prime", bytes.Equal(hist[skip], msgPrime))
	b0 := verifH(newHash, msgPrime)
	in1 := verifCat(b0, []byte{1}, dstPrime)
	verifAssert("xmd2.b1_input", bytes.Equal(hist[skip+1], in1))
	prev := verifH(newHash, in1)
	uniform := append([]byte{}, prev...)
	for i := 2; i <= ell; i++ {
		xr := make([]byte, b)
		for j := range xr {
			xr[j] = b0[j] ^ prev[j]
		}
		in := verifCat(xr, []byte{byte(i)}, dstPrime)
		verifAssert("xmd2.bi_input", bytes.Equal(hist[skip+i], in))
		prev = verifH(newHash, in)
		uniform = append(uniform, prev...)
	}
	verifAssert("xmd2.output_len", len(out) == lenInBytes)
	verifAssert("xmd2.output", bytes.Equal(out, uniform[:lenInBytes]))
	verifAssert("xmd2.inputs_untouched", bytes.Equal(dst, dst0) && bytes.Equal(msg, msg0) &&
		len(dst) == len(dst0))
}

// H_xmd2_dst_boundary_sha256: SHA-256 (b = 32, s = 64), DST length 254..257, message length 0..1,
// len_in_bytes in {32, 80} (ell = 1, 3). 16 paths.
func H_xmd2_dst_boundary_sha256() {
	dst := verifBytes(254 + verifLen(0, 3))
	msg := verifBytes(verifLen(0, 1))
	lens := []int{32, 80}
	n := lens[verifLen(0, 1)]
	verifReach("xmd2_dst_boundary_sha256")
	verifCheckXmd2(sha256.New, 32, 64, dst, msg, n)
}

// H_xmd2_dst_boundary_sha512: SHA-512 (b = 64, s = 128), DST length 254..257, message length 0..1,
// len_in_bytes in {48, 128} (ell = 1, 2). 16 paths.
func H_xmd2_dst_boundary_sha512() {
	dst := verifBytes(254 + verifLen(0, 3))
	msg := verifBytes(verifLen(0, 1))
	lens := []int{48, 128}
	n := lens[verifLen(0, 1)]
	verifReach("xmd2_dst_boundary_sha512")
	verifCheckXmd2(sha512.New, 64, 128, dst, msg, n)
}

// H_xmd2_dst_spare_capacity: the caller's DST slice has spare capacity (the library appends to
// it to build DST_prime): the bytes beyond len(dst) may be overwritten, the DST itself is not,
// and the layout is unchanged. DST length 254..257, len_in_bytes 48 (ell = 2).
func H_xmd2_dst_spare_capacity() {
	n := 254 + verifLen(0, 3)
	backing := verifBytes(300)
	dst := backing[:n]
	verifReach("xmd2_dst_spare_capacity")
	verifCheckXmd2(sha256.New, 32, 64, dst, verifBytes(1), 48)
}

// H_xmd2_asis_256_MUSTFAIL: wrong twin (claims a 256-byte DST is used as is, with the length
// byte wrapping to 0).
func H_xmd2_asis_256_MUSTFAIL() {
	dst, msg := verifBytes(256), verifBytes(1)
	var used hash.Hash
	x := &Xmd{HashFunc: func() hash.Hash { used = sha256.New(); return used }}
	x.ExpandMessage(dst, msg, 32)
	hist := verifHashHistory(used)
	verifReach("xmd2_asis_256_mustfail")
	wrong := verifCat(make([]byte, 64), msg, []byte{0, 32}, []byte{0}, dst, []byte{0})
	verifAssert("xmd2.wrong_256_as_is", bytes.Equal(hist[len(hist)-2], wrong))
}

// H_xmd2_oversize_255_MUSTFAIL: wrong twin (claims a 255-byte DST is already replaced by its
// hash).
func H_xmd2_oversize_255_MUSTFAIL() {
	dst, msg := verifBytes(255), verifBytes(1)
	var used hash.Hash
	x := &Xmd{HashFunc: func() hash.Hash { used = sha256.New(); return used }}
	x.ExpandMessage(dst, msg, 32)
	hist := verifHashHistory(used)
	verifReach("xmd2_oversize_255_mustfail")
	verifAssert("xmd2.wrong_255_hashed", bytes.Equal(hist[0], verifCat([]byte("H2C-OVERSIZE-DST-"), dst)))
}
