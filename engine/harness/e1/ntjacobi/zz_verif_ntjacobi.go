//go:build verif_e1

package nt

import (
	"errors"

	"github.com/bronlabs/bron-crypto/pkg/base/nt/num"
)

// E1 harnesses for nt.Jacobi (purego build), property C17.a: for every x with |x| < 2^B and every
// odd y with 0 < y < 2^B the result is the Jacobi symbol (x/y).
//
// The num types are an abstract big-integer model in the engine (one 32-bit bit-vector per
// value, see internal/ssasym/bigmodel.go); natively they are the real types. The reference is
// the table jacobiRefRow (generated from math/big.Jacobi by gen_table.go, re-validated natively
// in zz_verif_ntjacobi_native.go), indexed by the mathematical non-negative residue x mod y,
// which is legitimate because (x/y) depends only on x mod y.
//
// y is case-split (verifLen picks the odd y, concrete on each path), x is symbolic. Jacobi's
// loops branch on the data, so each path covers the set of x that follow the same quotient /
// trailing-zero pattern.

func jacobiDecode(b byte) int { return int(b) - 3*int(b>>1) } // 0,1,2 -> 0,+1,-1

// jacobiCheck runs Jacobi on symbolic x in the given sign range and concrete odd y < 2^bits.
func jacobiCheck(id string, bits uint, negative bool) {
	y := 2*uint64(verifLen(0, (1<<(bits-1))-1)) + 1
	x := int64(verifInt())
	lim := int64(1) << bits
	if negative {
		verifAssume(x < 0 && x > -lim)
	} else {
		verifAssume(x >= 0 && x < lim)
	}
	ny, err := num.NPlus().FromUint64(y)
	if err != nil {
		panic("odd y is never zero")
	}
	got, jerr := Jacobi(num.Z().FromInt64(x), ny)
	verifReach(id + ".reach")
	verifAssert(id+".noerr", jerr == nil)
	yy := int64(y)
	r := ((x % yy) + yy) % yy // the non-negative residue, on machine integers
	want := jacobiDecode(jacobiRefRow(y)[r])
	verifAssert(id+".symbol", got == want)
}

// H_nt_jacobi_pos: 0 <= x < 2^5, odd y < 2^5.
func H_nt_jacobi_pos() { jacobiCheck("jacobi_pos", 5, false) }

// H_nt_jacobi_neg: -2^5 < x < 0, odd y < 2^5.
func H_nt_jacobi_neg() { jacobiCheck("jacobi_neg", 5, true) }

// Thorough variants.
func H_nt_jacobi_pos_B6() { jacobiCheck("jacobi_pos_b6", 6, false) }
func H_nt_jacobi_neg_B6() { jacobiCheck("jacobi_neg_b6", 6, true) }
func H_nt_jacobi_pos_B7() { jacobiCheck("jacobi_pos_b7", 7, false) }
func H_nt_jacobi_neg_B7() { jacobiCheck("jacobi_neg_b7", 7, true) }

// H_nt_jacobi_even_y_rejected: for every even y with 0 < y < 2^7 and every |x| < 2^7 Jacobi
// refuses with ErrInvalidArgument and returns -2 (x and y both symbolic).
func H_nt_jacobi_even_y_rejected() {
	x := int64(verifInt())
	y := verifU64()
	verifAssume(x > -128 && x < 128)
	verifAssume(y > 0 && y < 128 && y&1 == 0)
	ny, err := num.NPlus().FromUint64(y)
	verifAssert("jacobi_even.ctor", err == nil)
	got, jerr := Jacobi(num.Z().FromInt64(x), ny)
	verifReach("jacobi_even.reach")
	verifAssert("jacobi_even.error", jerr != nil && errors.Is(jerr, ErrInvalidArgument))
	verifAssert("jacobi_even.value", got == -2)
}

// H_nt_jacobi_MUSTFAIL: control with a deliberately wrong table entry: claims (x/3) = +1 for
// every 0 <= x < 32 (wrong for x = 0 mod 3 and x = 2 mod 3).
func H_nt_jacobi_MUSTFAIL() {
	x := int64(verifInt())
	verifAssume(x >= 0 && x < 32)
	ny, _ := num.NPlus().FromUint64(3)
	got, jerr := Jacobi(num.Z().FromInt64(x), ny)
	verifReach("jacobi_mustfail.reach")
	verifAssert("jacobi_mustfail.wrong_entry", jerr == nil && got == 1)
}
