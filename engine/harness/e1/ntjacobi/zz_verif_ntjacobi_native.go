//go:build verif_e1

package nt

import "math/big"

// Native-only (replay / self-test build): the checked-in reference table is validated against
// math/big.Jacobi before any harness runs. A wrong table aborts the native run, so a replay can
// only confirm a violation if the real Jacobi disagrees with math/big.Jacobi.
func init() {
	for y := int64(1); y < jacobiRefMaxY; y += 2 {
		row := jacobiRefRow(uint64(y))
		if int64(len(row)) != y {
			panic("jacobi reference table: wrong row length")
		}
		for r := int64(0); r < y; r++ {
			want := big.Jacobi(big.NewInt(r), big.NewInt(y))
			got := int(row[r]) - 3*int(row[r]>>1)
			if got != want {
				panic("jacobi reference table disagrees with math/big.Jacobi")
			}
		}
	}
}
