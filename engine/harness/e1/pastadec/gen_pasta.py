#!/usr/bin/env python3
# generates zz_verif_pastadec_{pallas,vesta}.go (in this directory) from one template; run gofmt -w afterwards
import sys, os
P=0x40000000000000000000000000000000224698fc094cf91b992d30ed00000001
Q=0x40000000000000000000000000000000224698fc0994a8dd8c46eb2100000001
def le(v):
    return ", ".join("0x%02x"%b for b in v.to_bytes(32,'little'))
TEMPLATE = r'''//go:build verif_e1

package pasta

// GENERATED from gen_pasta.py in this directory (one template, instantiated for Pallas and Vesta; the two
// decoders in @lc@.go are textually the same up to the field type). Edit the generator's template,
// or both files alike.

import (
	"bytes"
	"errors"

	"github.com/bronlabs/bron-crypto/pkg/base/ct"
	"github.com/bronlabs/bron-crypto/pkg/base/curves"
	pastaImpl "github.com/bronlabs/bron-crypto/pkg/base/curves/pasta/impl"
)

// E1 harnesses for (*@C@Curve).FromCompressed / FromUncompressed (property C13), @lc@.go.
//
// Wire formats (ZCash style, read off the code): compressed = 32 bytes, little-endian x, bit 7 of
// byte 31 = parity of y, identity = 0^32 (y^2 = x^3 + 5 has no point with x = 0: 5 is a non-square
// in both base fields, so "x = 0, sign 0" is a free encoding); uncompressed = 64 bytes, x || y
// little-endian, no tag, identity = 0^64. Lengths tried: 0, 31, 32, 33, 63, 64, 65.
//
// Method as in harness/e1/k256dec / p256dec. Replaced by contracts (base field of @C@ is
// pastaImpl.@F@; receiver first):
//
//	(*pastaImpl.@F@).SetBytes   len != 32 -> 0, receiver untouched; else 1, receiver := SOME element
//	                            (verif@C@SomeFp) whose zero flag is 1 exactly when the 256-bit
//	                            little-endian value is 0, p, 2p or 3p (the real SetBytes does not
//	                            range-check, it reduces; 4p > 2^256)
//	(*pastaImpl.@F@).IsZero     the zero flag of an element produced by the SetBytes contract and not
//	                            modified since; otherwise the REAL IsZero
//	(*pastaImpl.@F@).Bytes      32 arbitrary bytes (only the parity bit is used)
//	(*pastaImpl.@C@Point).SetFromAffineX(x)  arbitrary ok (0 when the ghost switch forceNo is set);
//	                            ok=1: X := x, Y := some element, Z := 1; ok=0: receiver untouched
//	(*pastaImpl.@C@Point).SetAffine(x, y)    arbitrary ok (0 under forceNo); ok=1: X := x, Y := y,
//	                            Z := 1; ok=0: untouched
//	(*pastaImpl.@C@Point).ToAffine(xOut, yOut)  ok = [Z != 0] (real IsNonZero on Z); ok=1: outputs :=
//	                            some elements
//	(*pastaImpl.@C@Point).Neg(v)  X := v.X, Y := some element, Z := v.Z
//
// NOT checked here (facts about the replaced functions): SetFromAffineX / SetAffine accept exactly
// the curve points; y -> p - y flips the parity of a non-zero y; no curve point has x = 0.

type verif@C@FpCall struct {
	recv *pastaImpl.@F@
	n    int
	data [32]byte
	val  pastaImpl.@F@
	zero ct.Bool
	ok   ct.Bool
}

type verif@C@Ghost struct {
	forceNo bool // the curve-equation contracts answer 0 on this path

	nElems int

	setBytes                [2]verif@C@FpCall
	nSetBytes               int
	isZeroGhost, isZeroReal int

	sfaxCalls int
	sfaxRecv  *pastaImpl.@C@Point
	sfaxX     *pastaImpl.@F@
	sfaxXVal  pastaImpl.@F@
	sfaxOK    ct.Bool

	saCalls        int
	saRecv         *pastaImpl.@C@Point
	saX, saY       *pastaImpl.@F@
	saXVal, saYVal pastaImpl.@F@
	saOK           ct.Bool

	taCalls    int
	taRecv     *pastaImpl.@C@Point
	taX, taY   *pastaImpl.@F@
	taOK       ct.Bool

	bytesCalls  int
	bytesRecv   *pastaImpl.@F@
	bytesParity byte

	negCalls        int
	negRecv, negArg *pastaImpl.@C@Point
}

var verifG@C@ verif@C@Ghost

// verif@C@SomeFp: see verifSomeFp in harness/e1/k256dec (the k-th abstract element of a path is one
// of the constants 2k+2, 2k+3, chosen by a fresh bit; nothing un-replaced looks inside an element).
func verif@C@SomeFp(f *pastaImpl.@F@) {
	k := uint64(verifG@C@.nElems)
	verifG@C@.nElems++
	var c0, c1 pastaImpl.@F@
	c0.SetUint64(2*k + 2)
	c1.SetUint64(2*k + 3)
	f.Select(ct.Choice(verifU8()&1), &c0, &c1)
}

// verif@C@Multiples: 0, p, 2p, 3p as 32 little-endian bytes (p = the base-field modulus of @C@).
func verif@C@Multiples() [4][32]byte {
	return [4][32]byte{
		{@M0@},
		{@M1@},
		{@M2@},
		{@M3@},
	}
}

// verif@C@IsZeroModP: the 32 little-endian bytes b denote 0, p, 2p or 3p (branch-free).
func verif@C@IsZeroModP(b []byte) bool {
	ms := verif@C@Multiples()
	var hit uint64
	for k := 0; k < 4; k++ {
		var acc byte
		for i := 0; i < 32; i++ {
			acc |= b[i] ^ ms[k][i]
		}
		hit |= verifB2U(acc == 0)
	}
	return hit != 0
}

func verif@C@FpSetBytes(f *pastaImpl.@F@, data []byte) ct.Bool {
	k := verifG@C@.nSetBytes
	verifG@C@.nSetBytes++
	if k >= len(verifG@C@.setBytes) {
		panic("harness: more SetBytes calls than a decoder can make")
	}
	c := &verifG@C@.setBytes[k]
	c.recv, c.n = f, len(data)
	if len(data) != 32 {
		return 0
	}
	copy(c.data[:], data)
	verif@C@SomeFp(f)
	c.val.Set(f)
	c.zero = ct.Bool(verifB2U(verif@C@IsZeroModP(data)))
	c.ok = 1
	return 1
}

func verif@C@FpIsZero(f *pastaImpl.@F@) ct.Bool {
	for k := 0; k < verifG@C@.nSetBytes && k < len(verifG@C@.setBytes); k++ {
		c := &verifG@C@.setBytes[k]
		if c.recv == f && c.ok == 1 && verifSameValue(c.val, *f) {
			verifG@C@.isZeroGhost++
			return c.zero
		}
	}
	verifG@C@.isZeroReal++
	return f.IsZero()
}

func verif@C@FpBytes(f *pastaImpl.@F@) []byte {
	out := verifBytes(32)
	verifG@C@.bytesCalls++
	verifG@C@.bytesRecv = f
	verifG@C@.bytesParity = out[0] & 1
	return out
}

func verif@C@PtSetFromAffineX(p *pastaImpl.@C@Point, x *pastaImpl.@F@) ct.Bool {
	g := &verifG@C@
	g.sfaxCalls++
	g.sfaxRecv, g.sfaxX = p, x
	g.sfaxXVal.Set(x)
	ok := ct.Bool(verifU8() & 1)
	if g.forceNo {
		ok = 0
	}
	g.sfaxOK = ok
	if ok == 1 {
		p.X.Set(x)
		verif@C@SomeFp(&p.Y)
		p.Z.SetOne()
	}
	return ok
}

func verif@C@PtSetAffine(p *pastaImpl.@C@Point, x, y *pastaImpl.@F@) ct.Bool {
	g := &verifG@C@
	g.saCalls++
	g.saRecv, g.saX, g.saY = p, x, y
	g.saXVal.Set(x)
	g.saYVal.Set(y)
	ok := ct.Bool(verifU8() & 1)
	if g.forceNo {
		ok = 0
	}
	g.saOK = ok
	if ok == 1 {
		p.X.Set(x)
		p.Y.Set(y)
		p.Z.SetOne()
	}
	return ok
}

func verif@C@PtToAffine(p *pastaImpl.@C@Point, xOut, yOut *pastaImpl.@F@) ct.Bool {
	g := &verifG@C@
	g.taCalls++
	g.taRecv, g.taX, g.taY = p, xOut, yOut
	ok := p.Z.IsNonZero()
	g.taOK = ok
	if ok == 1 {
		verif@C@SomeFp(xOut)
		verif@C@SomeFp(yOut)
	}
	return ok
}

func verif@C@PtNeg(p, v *pastaImpl.@C@Point) {
	g := &verifG@C@
	g.negCalls++
	g.negRecv, g.negArg = p, v
	var x, z pastaImpl.@F@
	x.Set(&v.X)
	z.Set(&v.Z)
	p.X.Set(&x)
	verif@C@SomeFp(&p.Y)
	p.Z.Set(&z)
}

func verifReplacements@C@() map[string]any {
	const im = "github.com/bronlabs/bron-crypto/pkg/base/curves/pasta/impl."
	const fp = "(*" + im + "@F@)."
	// exact instantiation (the bracket-free form would also address the other curve's points, whose
	// contracts have a different signature)
	const pt = "(*github.com/bronlabs/bron-crypto/pkg/base/curves/impl/points.ShortWeierstrassPointImpl[*" + im + "@F@, " +
		im + "@lc@CurveParams, " + im + "@C@CurveHasherParams, " + im + "@lc@CurveMapper, " + im + "@F@])."
	return map[string]any{
		fp + "SetBytes":       verif@C@FpSetBytes,
		fp + "IsZero":         verif@C@FpIsZero,
		fp + "Bytes":          verif@C@FpBytes,
		pt + "SetFromAffineX": verif@C@PtSetFromAffineX,
		pt + "SetAffine":      verif@C@PtSetAffine,
		pt + "ToAffine":       verif@C@PtToAffine,
		pt + "Neg":            verif@C@PtNeg,
	}
}

// ---- helpers

func verif@C@Decode(compressed bool, in []byte) (p *@C@Point, err error, panicked bool) {
	defer func() {
		if r := recover(); r != nil {
			panicked = true
		}
	}()
	c := &@C@Curve{}
	if compressed {
		p, err = c.FromCompressed(in)
	} else {
		p, err = c.FromUncompressed(in)
	}
	return p, err, false
}

func verif@C@NoContractCalled() bool {
	g := &verifG@C@
	return g.nSetBytes == 0 && g.isZeroGhost+g.isZeroReal == 0 && g.sfaxCalls == 0 && g.saCalls == 0 &&
		g.taCalls == 0 && g.bytesCalls == 0 && g.negCalls == 0
}

func verif@C@IsIdentity(p *@C@Point) bool {
	var id @C@Point
	id.V.SetZero()
	return p != nil && verifSameValue(p.V, id.V)
}
@COMMON@
// ---- FromCompressed

// H_@lc@dec_compressed: control-flow obligations for FromCompressed on arbitrary bytes.
func H_@lc@dec_compressed() {
	n := verifPastaWireLen()
	in := verifBytes(n)
	inCopy := append([]byte{}, in...)
	verifReach("@lc@dec_compressed")
	p, err, panicked := verif@C@Decode(true, in)
	g := &verifG@C@

	verifAssert("@lc@.comp.no_panic", !panicked)
	verifAssert("@lc@.comp.input_not_modified", bytes.Equal(in, inCopy))
	verifAssert("@lc@.comp.point_xor_error", (p == nil) != (err == nil))
	if n != 32 {
		verifAssert("@lc@.comp.wrong_length_rejected", p == nil && err != nil && errors.Is(err, curves.ErrInvalidLength))
		verifAssertGhost("@lc@.comp.wrong_length_touches_nothing", verif@C@NoContractCalled())
		return
	}
	verifReach("@lc@dec_compressed_wellformed")
	sign := inCopy[31] >> 7
	var xb [32]byte
	copy(xb[:], inCopy)
	xb[31] &= 0x7f
	sb := &g.setBytes[0]
	verifAssertGhost("@lc@.comp.x_decoded_once_from_input_with_bit255_cleared", g.nSetBytes == 1 && sb.n == 32 && sb.data == xb)
	verifAssertGhost("@lc@.comp.zero_test_on_decoded_x", g.isZeroGhost == 1 && g.isZeroReal == 0)
	if verifPastaAllZero(inCopy) {
		verifReach("@lc@dec_compressed_all_zero")
		verifAssert("@lc@.comp.all_zero_is_identity", err == nil && verif@C@IsIdentity(p))
	}
	if err != nil {
		verifReach("@lc@dec_compressed_rejected")
		verifAssert("@lc@.comp.rejected_returns_no_point", p == nil)
		verifAssertGhost("@lc@.comp.rejected_iff_membership_test_on_decoded_x_said_no",
			!(sb.zero == 1 && sign == 0) && g.sfaxCalls == 1 && g.sfaxOK != 1 && g.sfaxX == sb.recv && verifSameValue(g.sfaxXVal, sb.val))
		verifAssertGhost("@lc@.comp.rejected_no_further_calls", g.saCalls == 0 && g.taCalls == 0 && g.bytesCalls == 0 && g.negCalls == 0)
		return
	}
	if p == nil {
		return
	}
	if verif@C@IsIdentity(p) {
		verifReach("@lc@dec_compressed_identity")
		verifAssert("@lc@.comp.identity_only_with_sign_bit_clear", sign == 0)
		verifAssertGhost("@lc@.comp.identity_only_for_zero_x_sign_0_without_membership_test",
			sb.zero == 1 && sign == 0 && g.sfaxCalls == 0 && g.saCalls == 0 && g.taCalls == 0 && g.negCalls == 0)
		return
	}
	verifReach("@lc@dec_compressed_accepted")
	// note: x = 0 with the sign bit SET is not the identity form and must be (and is) tested
	verifAssertGhost("@lc@.comp.accepted_iff_membership_test_on_decoded_x_said_yes",
		!(sb.zero == 1 && sign == 0) && g.sfaxCalls == 1 && g.saCalls == 0 && g.sfaxOK == 1 && g.sfaxX == sb.recv && verifSameValue(g.sfaxXVal, sb.val))
	verifAssertGhost("@lc@.comp.returned_point_is_the_tested_one", g.sfaxRecv == &p.V)
	verifAssertGhost("@lc@.comp.returned_x_is_decoded_x", verifSameValue(p.V.X, sb.val))
	verifAssert("@lc@.comp.returned_point_is_affine", p.V.Z.IsOne() == 1)
	verifAssertGhost("@lc@.comp.to_affine_succeeds", g.taCalls == 1 && g.taRecv == &p.V && g.taOK == 1)
	verifAssertGhost("@lc@.comp.parity_read_from_affine_y_of_returned_point", g.bytesCalls == 1 && g.bytesRecv == g.taY && g.taY != g.taX)
	verifAssertGhost("@lc@.comp.negated_exactly_when_parity_differs",
		(g.bytesParity != sign && g.negCalls == 1 && g.negRecv == &p.V && g.negArg == &p.V) ||
			(g.bytesParity == sign && g.negCalls == 0))
	verifAssertGhost("@lc@.comp.returned_y_parity_is_sign_bit", (g.bytesParity^byte(g.negCalls&1)) == sign)
}

// ---- FromUncompressed

// H_@lc@dec_uncompressed: control-flow obligations for FromUncompressed on arbitrary bytes.
func H_@lc@dec_uncompressed() {
	n := verifPastaWireLen()
	in := verifBytes(n)
	inCopy := append([]byte{}, in...)
	verifReach("@lc@dec_uncompressed")
	p, err, panicked := verif@C@Decode(false, in)
	g := &verifG@C@

	verifAssert("@lc@.unc.no_panic", !panicked)
	verifAssert("@lc@.unc.input_not_modified", bytes.Equal(in, inCopy))
	verifAssert("@lc@.unc.point_xor_error", (p == nil) != (err == nil))
	if n != 64 {
		verifAssert("@lc@.unc.wrong_length_rejected", p == nil && err != nil && errors.Is(err, curves.ErrInvalidLength))
		verifAssertGhost("@lc@.unc.wrong_length_touches_nothing", verif@C@NoContractCalled())
		return
	}
	verifReach("@lc@dec_uncompressed_wellformed")
	sx, sy := &g.setBytes[0], &g.setBytes[1]
	var xb, yb [32]byte
	copy(xb[:], inCopy[:32])
	copy(yb[:], inCopy[32:])
	verifAssertGhost("@lc@.unc.x_then_y_decoded_from_bytes_0_to_32_and_32_to_64",
		g.nSetBytes == 2 && sx.n == 32 && sy.n == 32 && sx.recv != sy.recv && sx.data == xb && sy.data == yb)
	verifAssertGhost("@lc@.unc.never_uses_compressed_route", g.sfaxCalls == 0 && g.taCalls == 0 && g.bytesCalls == 0 && g.negCalls == 0)
	if verifPastaAllZero(inCopy) {
		verifReach("@lc@dec_uncompressed_00")
		verifAssert("@lc@.unc.all_zero_is_identity", err == nil && verif@C@IsIdentity(p))
	}
	if err != nil {
		verifReach("@lc@dec_uncompressed_rejected")
		verifAssert("@lc@.unc.wellformed_rejected_as_failed", p == nil && errors.Is(err, curves.ErrFailed))
		verifAssertGhost("@lc@.unc.rejected_iff_membership_test_on_decoded_x_y_said_no",
			!(sx.zero == 1 && sy.zero == 1) && g.saCalls == 1 && g.saOK != 1 &&
				g.saX == sx.recv && g.saY == sy.recv && verifSameValue(g.saXVal, sx.val) && verifSameValue(g.saYVal, sy.val))
		return
	}
	if p == nil {
		return
	}
	if verif@C@IsIdentity(p) {
		verifReach("@lc@dec_uncompressed_identity")
		verifAssertGhost("@lc@.unc.identity_only_for_zero_zero_without_membership_test", sx.zero == 1 && sy.zero == 1 && g.saCalls == 0)
		return
	}
	verifReach("@lc@dec_uncompressed_accepted")
	verifAssertGhost("@lc@.unc.accepted_iff_membership_test_on_decoded_x_y_said_yes",
		!(sx.zero == 1 && sy.zero == 1) && g.saCalls == 1 && g.saOK == 1 &&
			g.saX == sx.recv && g.saY == sy.recv && verifSameValue(g.saXVal, sx.val) && verifSameValue(g.saYVal, sy.val))
	verifAssertGhost("@lc@.unc.returned_point_is_the_tested_one", g.saRecv == &p.V)
	verifAssertGhost("@lc@.unc.returned_coordinates_are_the_decoded_ones", verifSameValue(p.V.X, sx.val) && verifSameValue(p.V.Y, sy.val))
	verifAssert("@lc@.unc.returned_point_is_affine", p.V.Z.IsOne() == 1)
}

// ---- identity forms / acceptance without the curve-equation routine (result-level, native)

// H_@lc@dec_identity_form: the identity is returned only for the documented all-zero strings.
// Expected on the current tree: the strict obligations are VIOLATED by non-canonical zeros
// (x = p with sign 0; coordinates in {p, 2p, 3p}); the "_0_mod_p" obligations hold.
func H_@lc@dec_identity_form() {
	comp := verifBool()
	n := 64
	if comp {
		n = 32
	}
	in := verifBytes(n)
	verifReach("@lc@dec_idform")
	p, err, panicked := verif@C@Decode(comp, in)
	verifAssert("@lc@.id.no_panic", !panicked)
	if err == nil && p != nil && verif@C@IsIdentity(p) {
		if comp {
			verifReach("@lc@dec_idform_comp_identity")
			var xb [32]byte
			copy(xb[:], in)
			xb[31] &= 0x7f
			verifAssert("@lc@.id.comp_identity_only_with_sign_bit_clear", in[31]>>7 == 0)
			verifAssert("@lc@.id.comp_identity_only_x_0_mod_p", verif@C@IsZeroModP(xb[:]))
		} else {
			verifReach("@lc@dec_idform_unc_identity")
			verifAssert("@lc@.id.unc_identity_only_x_and_y_0_mod_p", verif@C@IsZeroModP(in[:32]) && verif@C@IsZeroModP(in[32:]))
		}
	}
}

// H_@lc@dec_membership_no: the curve-equation contracts answer "no" on the whole path; whatever is
// still accepted was accepted without them. Stated on (input, error) only, so a counterexample is
// confirmed natively (the real decoder takes the same shortcut on the same bytes).
func H_@lc@dec_membership_no() {
	comp := verifBool()
	n := verifPastaWireLen()
	in := verifBytes(n)
	verifG@C@.forceNo = true
	verifReach("@lc@dec_no")
	_, err, panicked := verif@C@Decode(comp, in)
	verifAssert("@lc@.no.no_panic", !panicked)
	if err == nil {
		verifReach("@lc@dec_no_accepted")
		if comp {
			verifAssert("@lc@.no.comp_accepted_only_length_32", n == 32)
			if n == 32 {
				var xb [32]byte
				copy(xb[:], in)
				xb[31] &= 0x7f
				// in particular x = 0 with the sign bit set is NOT accepted on the shortcut
				verifAssert("@lc@.no.comp_accepted_without_membership_only_x_0_mod_p_sign_0", in[31]>>7 == 0 && verif@C@IsZeroModP(xb[:]))
			}
		} else {
			verifAssert("@lc@.no.unc_accepted_only_length_64", n == 64)
			if n == 64 {
				// exactly one zero coordinate is not enough
				verifAssert("@lc@.no.unc_accepted_without_membership_only_both_0_mod_p", verif@C@IsZeroModP(in[:32]) && verif@C@IsZeroModP(in[32:]))
			}
		}
	}
}

// ---- controls

// H_@lc@dec_compressed_MUSTFAIL: wrong twin (claims the sign bit never matters for x = 0): 0^31 || 80
// is rejected (x = 0 is not on the curve), 0^32 is the identity.
func H_@lc@dec_compressed_MUSTFAIL() {
	in := make([]byte, 32)
	in[31] = verifU8() & 0x80
	verifReach("@lc@dec_compressed_mustfail")
	_, err, _ := verif@C@Decode(true, in)
	verifAssert("@lc@.comp.wrong_zero_x_rejected_for_either_sign", err != nil)
}

// H_@lc@dec_uncompressed_MUSTFAIL: wrong twin (claims a 65-byte input is handled like a 64-byte one).
func H_@lc@dec_uncompressed_MUSTFAIL() {
	in := make([]byte, verifLen(64, 65))
	verifReach("@lc@dec_uncompressed_mustfail")
	_, err, _ := verif@C@Decode(false, in)
	verifAssert("@lc@.unc.wrong_all_zero_of_length_64_or_65_accepted", err == nil)
}
'''
COMMON = r'''
// ---- shared by the Pallas and Vesta files

func verifPastaAllZero(b []byte) bool {
	var acc byte
	for _, x := range b {
		acc |= x
	}
	return acc == 0
}

func verifPastaWireLen() int {
	switch verifLen(0, 6) {
	case 0:
		return 0
	case 1:
		return 31
	case 2:
		return 32
	case 3:
		return 33
	case 4:
		return 63
	case 5:
		return 64
	}
	return 65
}
'''
for C,lc,F,m in (("Pallas","pallas","Fp",P),("Vesta","vesta","Fq",Q)):
    s=TEMPLATE
    s=s.replace("@COMMON@", COMMON if C=="Pallas" else "")
    for k in range(4):
        s=s.replace("@M%d@"%k, le(k*m))
    s=s.replace("@C@",C).replace("@lc@",lc).replace("@F@",F)
    open(os.path.join(os.path.dirname(os.path.abspath(__file__)),"zz_verif_pastadec_%s.go"%lc),"w").write(s)
