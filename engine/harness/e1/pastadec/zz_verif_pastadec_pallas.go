//go:build verif_e1

package pasta

// GENERATED from gen_pasta.py in this directory (one template, instantiated for Pallas and Vesta; the two
// decoders in pallas.go are textually the same up to the field type). Edit the generator's template,
// or both files alike.

import (
	"bytes"
	"errors"

	"github.com/bronlabs/bron-crypto/pkg/base/ct"
	"github.com/bronlabs/bron-crypto/pkg/base/curves"
	pastaImpl "github.com/bronlabs/bron-crypto/pkg/base/curves/pasta/impl"
)

// E1 harnesses for (*PallasCurve).FromCompressed / FromUncompressed (property C13), pallas.go.
//
// Wire formats (ZCash style, read off the code): compressed = 32 bytes, little-endian x, bit 7 of
// byte 31 = parity of y, identity = 0^32 (y^2 = x^3 + 5 has no point with x = 0: 5 is a non-square
// in both base fields, so "x = 0, sign 0" is a free encoding); uncompressed = 64 bytes, x || y
// little-endian, no tag, identity = 0^64. Lengths tried: 0, 31, 32, 33, 63, 64, 65.
//
// Method as in harness/e1/k256dec / p256dec. Replaced by contracts (base field of Pallas is
// pastaImpl.Fp; receiver first):
//
//	(*pastaImpl.Fp).SetBytes   len != 32 -> 0, receiver untouched; else 1, receiver := SOME element
//	                            (verifPallasSomeFp) whose zero flag is 1 exactly when the 256-bit
//	                            little-endian value is 0, p, 2p or 3p (the real SetBytes does not
//	                            range-check, it reduces; 4p > 2^256)
//	(*pastaImpl.Fp).IsZero     the zero flag of an element produced by the SetBytes contract and not
//	                            modified since; otherwise the REAL IsZero
//	(*pastaImpl.Fp).Bytes      32 arbitrary bytes (only the parity bit is used)
//	(*pastaImpl.PallasPoint).SetFromAffineX(x)  arbitrary ok (0 when the ghost switch forceNo is set);
//	                            ok=1: X := x, Y := some element, Z := 1; ok=0: receiver untouched
//	(*pastaImpl.PallasPoint).SetAffine(x, y)    arbitrary ok (0 under forceNo); ok=1: X := x, Y := y,
//	                            Z := 1; ok=0: untouched
//	(*pastaImpl.PallasPoint).ToAffine(xOut, yOut)  ok = [Z != 0] (real IsNonZero on Z); ok=1: outputs :=
//	                            some elements
//	(*pastaImpl.PallasPoint).Neg(v)  X := v.X, Y := some element, Z := v.Z
//
// NOT checked here (facts about the replaced functions): SetFromAffineX / SetAffine accept exactly
// the curve points; y -> p - y flips the parity of a non-zero y; no curve point has x = 0.

type verifPallasFpCall struct {
	recv *pastaImpl.Fp
	n    int
	data [32]byte
	val  pastaImpl.Fp
	zero ct.Bool
	ok   ct.Bool
}

type verifPallasGhost struct {
	forceNo bool // the curve-equation contracts answer 0 on this path

	nElems int

	setBytes                [2]verifPallasFpCall
	nSetBytes               int
	isZeroGhost, isZeroReal int

	sfaxCalls int
	sfaxRecv  *pastaImpl.PallasPoint
	sfaxX     *pastaImpl.Fp
	sfaxXVal  pastaImpl.Fp
	sfaxOK    ct.Bool

	saCalls        int
	saRecv         *pastaImpl.PallasPoint
	saX, saY       *pastaImpl.Fp
	saXVal, saYVal pastaImpl.Fp
	saOK           ct.Bool

	taCalls  int
	taRecv   *pastaImpl.PallasPoint
	taX, taY *pastaImpl.Fp
	taOK     ct.Bool

	bytesCalls  int
	bytesRecv   *pastaImpl.Fp
	bytesParity byte

	negCalls        int
	negRecv, negArg *pastaImpl.PallasPoint
}

var verifGPallas verifPallasGhost

// verifPallasSomeFp: see verifSomeFp in harness/e1/k256dec (the k-th abstract element of a path is one
// of the constants 2k+2, 2k+3, chosen by a fresh bit; nothing un-replaced looks inside an element).
func verifPallasSomeFp(f *pastaImpl.Fp) {
	k := uint64(verifGPallas.nElems)
	verifGPallas.nElems++
	var c0, c1 pastaImpl.Fp
	c0.SetUint64(2*k + 2)
	c1.SetUint64(2*k + 3)
	f.Select(ct.Choice(verifU8()&1), &c0, &c1)
}

// verifPallasMultiples: 0, p, 2p, 3p as 32 little-endian bytes (p = the base-field modulus of Pallas).
func verifPallasMultiples() [4][32]byte {
	return [4][32]byte{
		{0x00, 0x00, 0x00, 0x00, 0x00, 0x00, 0x00, 0x00, 0x00, 0x00, 0x00, 0x00, 0x00, 0x00, 0x00, 0x00, 0x00, 0x00, 0x00, 0x00, 0x00, 0x00, 0x00, 0x00, 0x00, 0x00, 0x00, 0x00, 0x00, 0x00, 0x00, 0x00},
		{0x01, 0x00, 0x00, 0x00, 0xed, 0x30, 0x2d, 0x99, 0x1b, 0xf9, 0x4c, 0x09, 0xfc, 0x98, 0x46, 0x22, 0x00, 0x00, 0x00, 0x00, 0x00, 0x00, 0x00, 0x00, 0x00, 0x00, 0x00, 0x00, 0x00, 0x00, 0x00, 0x40},
		{0x02, 0x00, 0x00, 0x00, 0xda, 0x61, 0x5a, 0x32, 0x37, 0xf2, 0x99, 0x12, 0xf8, 0x31, 0x8d, 0x44, 0x00, 0x00, 0x00, 0x00, 0x00, 0x00, 0x00, 0x00, 0x00, 0x00, 0x00, 0x00, 0x00, 0x00, 0x00, 0x80},
		{0x03, 0x00, 0x00, 0x00, 0xc7, 0x92, 0x87, 0xcb, 0x52, 0xeb, 0xe6, 0x1b, 0xf4, 0xca, 0xd3, 0x66, 0x00, 0x00, 0x00, 0x00, 0x00, 0x00, 0x00, 0x00, 0x00, 0x00, 0x00, 0x00, 0x00, 0x00, 0x00, 0xc0},
	}
}

// verifPallasIsZeroModP: the 32 little-endian bytes b denote 0, p, 2p or 3p (branch-free).
func verifPallasIsZeroModP(b []byte) bool {
	ms := verifPallasMultiples()
	var hit uint64
	for k := 0; k < 4; k++ {
		var acc byte
		for i := 0; i < 32; i++ {
			acc |= b[i] ^ ms[k][i]
		}
		hit |= verifB2U(acc == 0)
	}
	return hit != 0
}

func verifPallasFpSetBytes(f *pastaImpl.Fp, data []byte) ct.Bool {
	k := verifGPallas.nSetBytes
	verifGPallas.nSetBytes++
	if k >= len(verifGPallas.setBytes) {
		panic("harness: more SetBytes calls than a decoder can make")
	}
	c := &verifGPallas.setBytes[k]
	c.recv, c.n = f, len(data)
	if len(data) != 32 {
		return 0
	}
	copy(c.data[:], data)
	verifPallasSomeFp(f)
	c.val.Set(f)
	c.zero = ct.Bool(verifB2U(verifPallasIsZeroModP(data)))
	c.ok = 1
	return 1
}

func verifPallasFpIsZero(f *pastaImpl.Fp) ct.Bool {
	for k := 0; k < verifGPallas.nSetBytes && k < len(verifGPallas.setBytes); k++ {
		c := &verifGPallas.setBytes[k]
		if c.recv == f && c.ok == 1 && verifSameValue(c.val, *f) {
			verifGPallas.isZeroGhost++
			return c.zero
		}
	}
	verifGPallas.isZeroReal++
	return f.IsZero()
}

func verifPallasFpBytes(f *pastaImpl.Fp) []byte {
	out := verifBytes(32)
	verifGPallas.bytesCalls++
	verifGPallas.bytesRecv = f
	verifGPallas.bytesParity = out[0] & 1
	return out
}

func verifPallasPtSetFromAffineX(p *pastaImpl.PallasPoint, x *pastaImpl.Fp) ct.Bool {
	g := &verifGPallas
	g.sfaxCalls++
	g.sfaxRecv, g.sfaxX = p, x
	g.sfaxXVal.Set(x)
	ok := ct.Bool(verifU8() & 1)
	if g.forceNo {
		ok = 0
	}
	g.sfaxOK = ok
	if ok == 1 {
		p.X.Set(x)
		verifPallasSomeFp(&p.Y)
		p.Z.SetOne()
	}
	return ok
}

func verifPallasPtSetAffine(p *pastaImpl.PallasPoint, x, y *pastaImpl.Fp) ct.Bool {
	g := &verifGPallas
	g.saCalls++
	g.saRecv, g.saX, g.saY = p, x, y
	g.saXVal.Set(x)
	g.saYVal.Set(y)
	ok := ct.Bool(verifU8() & 1)
	if g.forceNo {
		ok = 0
	}
	g.saOK = ok
	if ok == 1 {
		p.X.Set(x)
		p.Y.Set(y)
		p.Z.SetOne()
	}
	return ok
}

func verifPallasPtToAffine(p *pastaImpl.PallasPoint, xOut, yOut *pastaImpl.Fp) ct.Bool {
	g := &verifGPallas
	g.taCalls++
	g.taRecv, g.taX, g.taY = p, xOut, yOut
	ok := p.Z.IsNonZero()
	g.taOK = ok
	if ok == 1 {
		verifPallasSomeFp(xOut)
		verifPallasSomeFp(yOut)
	}
	return ok
}

func verifPallasPtNeg(p, v *pastaImpl.PallasPoint) {
	g := &verifGPallas
	g.negCalls++
	g.negRecv, g.negArg = p, v
	var x, z pastaImpl.Fp
	x.Set(&v.X)
	z.Set(&v.Z)
	p.X.Set(&x)
	verifPallasSomeFp(&p.Y)
	p.Z.Set(&z)
}

func verifReplacementsPallas() map[string]any {
	const im = "github.com/bronlabs/bron-crypto/pkg/base/curves/pasta/impl."
	const fp = "(*" + im + "Fp)."
	// exact instantiation (the bracket-free form would also address the other curve's points, whose
	// contracts have a different signature)
	const pt = "(*github.com/bronlabs/bron-crypto/pkg/base/curves/impl/points.ShortWeierstrassPointImpl[*" + im + "Fp, " +
		im + "pallasCurveParams, " + im + "PallasCurveHasherParams, " + im + "pallasCurveMapper, " + im + "Fp])."
	return map[string]any{
		fp + "SetBytes":       verifPallasFpSetBytes,
		fp + "IsZero":         verifPallasFpIsZero,
		fp + "Bytes":          verifPallasFpBytes,
		pt + "SetFromAffineX": verifPallasPtSetFromAffineX,
		pt + "SetAffine":      verifPallasPtSetAffine,
		pt + "ToAffine":       verifPallasPtToAffine,
		pt + "Neg":            verifPallasPtNeg,
	}
}

// ---- helpers

func verifPallasDecode(compressed bool, in []byte) (p *PallasPoint, err error, panicked bool) {
	defer func() {
		if r := recover(); r != nil {
			panicked = true
		}
	}()
	c := &PallasCurve{}
	if compressed {
		p, err = c.FromCompressed(in)
	} else {
		p, err = c.FromUncompressed(in)
	}
	return p, err, false
}

func verifPallasNoContractCalled() bool {
	g := &verifGPallas
	return g.nSetBytes == 0 && g.isZeroGhost+g.isZeroReal == 0 && g.sfaxCalls == 0 && g.saCalls == 0 &&
		g.taCalls == 0 && g.bytesCalls == 0 && g.negCalls == 0
}

func verifPallasIsIdentity(p *PallasPoint) bool {
	var id PallasPoint
	id.V.SetZero()
	return p != nil && verifSameValue(p.V, id.V)
}

// ---- shared by the Pallas and Vesta files

func verifPastaAllZero(b []byte) bool {
	var acc byte
	for _, x := range b {
		acc |= x
	}
	return acc == 0
}

func verifPastaWireLen() int {
	switch verifLen(0, 6) {
	case 0:
		return 0
	case 1:
		return 31
	case 2:
		return 32
	case 3:
		return 33
	case 4:
		return 63
	case 5:
		return 64
	}
	return 65
}

// ---- FromCompressed

// H_pallasdec_compressed: control-flow obligations for FromCompressed on arbitrary bytes.
func H_pallasdec_compressed() {
	n := verifPastaWireLen()
	in := verifBytes(n)
	inCopy := append([]byte{}, in...)
	verifReach("pallasdec_compressed")
	p, err, panicked := verifPallasDecode(true, in)
	g := &verifGPallas

	verifAssert("pallas.comp.no_panic", !panicked)
	verifAssert("pallas.comp.input_not_modified", bytes.Equal(in, inCopy))
	verifAssert("pallas.comp.point_xor_error", (p == nil) != (err == nil))
	if n != 32 {
		verifAssert("pallas.comp.wrong_length_rejected", p == nil && err != nil && errors.Is(err, curves.ErrInvalidLength))
		verifAssertGhost("pallas.comp.wrong_length_touches_nothing", verifPallasNoContractCalled())
		return
	}
	verifReach("pallasdec_compressed_wellformed")
	sign := inCopy[31] >> 7
	var xb [32]byte
	copy(xb[:], inCopy)
	xb[31] &= 0x7f
	sb := &g.setBytes[0]
	verifAssertGhost("pallas.comp.x_decoded_once_from_input_with_bit255_cleared", g.nSetBytes == 1 && sb.n == 32 && sb.data == xb)
	verifAssertGhost("pallas.comp.zero_test_on_decoded_x", g.isZeroGhost == 1 && g.isZeroReal == 0)
	if verifPastaAllZero(inCopy) {
		verifReach("pallasdec_compressed_all_zero")
		verifAssert("pallas.comp.all_zero_is_identity", err == nil && verifPallasIsIdentity(p))
	}
	if err != nil {
		verifReach("pallasdec_compressed_rejected")
		verifAssert("pallas.comp.rejected_returns_no_point", p == nil)
		verifAssertGhost("pallas.comp.rejected_iff_membership_test_on_decoded_x_said_no",
			!(sb.zero == 1 && sign == 0) && g.sfaxCalls == 1 && g.sfaxOK != 1 && g.sfaxX == sb.recv && verifSameValue(g.sfaxXVal, sb.val))
		verifAssertGhost("pallas.comp.rejected_no_further_calls", g.saCalls == 0 && g.taCalls == 0 && g.bytesCalls == 0 && g.negCalls == 0)
		return
	}
	if p == nil {
		return
	}
	if verifPallasIsIdentity(p) {
		verifReach("pallasdec_compressed_identity")
		verifAssert("pallas.comp.identity_only_with_sign_bit_clear", sign == 0)
		verifAssertGhost("pallas.comp.identity_only_for_zero_x_sign_0_without_membership_test",
			sb.zero == 1 && sign == 0 && g.sfaxCalls == 0 && g.saCalls == 0 && g.taCalls == 0 && g.negCalls == 0)
		return
	}
	verifReach("pallasdec_compressed_accepted")
	// note: x = 0 with the sign bit SET is not the identity form and must be (and is) tested
	verifAssertGhost("pallas.comp.accepted_iff_membership_test_on_decoded_x_said_yes",
		!(sb.zero == 1 && sign == 0) && g.sfaxCalls == 1 && g.saCalls == 0 && g.sfaxOK == 1 && g.sfaxX == sb.recv && verifSameValue(g.sfaxXVal, sb.val))
	verifAssertGhost("pallas.comp.returned_point_is_the_tested_one", g.sfaxRecv == &p.V)
	verifAssertGhost("pallas.comp.returned_x_is_decoded_x", verifSameValue(p.V.X, sb.val))
	verifAssert("pallas.comp.returned_point_is_affine", p.V.Z.IsOne() == 1)
	verifAssertGhost("pallas.comp.to_affine_succeeds", g.taCalls == 1 && g.taRecv == &p.V && g.taOK == 1)
	verifAssertGhost("pallas.comp.parity_read_from_affine_y_of_returned_point", g.bytesCalls == 1 && g.bytesRecv == g.taY && g.taY != g.taX)
	verifAssertGhost("pallas.comp.negated_exactly_when_parity_differs",
		(g.bytesParity != sign && g.negCalls == 1 && g.negRecv == &p.V && g.negArg == &p.V) ||
			(g.bytesParity == sign && g.negCalls == 0))
	verifAssertGhost("pallas.comp.returned_y_parity_is_sign_bit", (g.bytesParity^byte(g.negCalls&1)) == sign)
}

// ---- FromUncompressed

// H_pallasdec_uncompressed: control-flow obligations for FromUncompressed on arbitrary bytes.
func H_pallasdec_uncompressed() {
	n := verifPastaWireLen()
	in := verifBytes(n)
	inCopy := append([]byte{}, in...)
	verifReach("pallasdec_uncompressed")
	p, err, panicked := verifPallasDecode(false, in)
	g := &verifGPallas

	verifAssert("pallas.unc.no_panic", !panicked)
	verifAssert("pallas.unc.input_not_modified", bytes.Equal(in, inCopy))
	verifAssert("pallas.unc.point_xor_error", (p == nil) != (err == nil))
	if n != 64 {
		verifAssert("pallas.unc.wrong_length_rejected", p == nil && err != nil && errors.Is(err, curves.ErrInvalidLength))
		verifAssertGhost("pallas.unc.wrong_length_touches_nothing", verifPallasNoContractCalled())
		return
	}
	verifReach("pallasdec_uncompressed_wellformed")
	sx, sy := &g.setBytes[0], &g.setBytes[1]
	var xb, yb [32]byte
	copy(xb[:], inCopy[:32])
	copy(yb[:], inCopy[32:])
	verifAssertGhost("pallas.unc.x_then_y_decoded_from_bytes_0_to_32_and_32_to_64",
		g.nSetBytes == 2 && sx.n == 32 && sy.n == 32 && sx.recv != sy.recv && sx.data == xb && sy.data == yb)
	verifAssertGhost("pallas.unc.never_uses_compressed_route", g.sfaxCalls == 0 && g.taCalls == 0 && g.bytesCalls == 0 && g.negCalls == 0)
	if verifPastaAllZero(inCopy) {
		verifReach("pallasdec_uncompressed_00")
		verifAssert("pallas.unc.all_zero_is_identity", err == nil && verifPallasIsIdentity(p))
	}
	if err != nil {
		verifReach("pallasdec_uncompressed_rejected")
		verifAssert("pallas.unc.wellformed_rejected_as_failed", p == nil && errors.Is(err, curves.ErrFailed))
		verifAssertGhost("pallas.unc.rejected_iff_membership_test_on_decoded_x_y_said_no",
			!(sx.zero == 1 && sy.zero == 1) && g.saCalls == 1 && g.saOK != 1 &&
				g.saX == sx.recv && g.saY == sy.recv && verifSameValue(g.saXVal, sx.val) && verifSameValue(g.saYVal, sy.val))
		return
	}
	if p == nil {
		return
	}
	if verifPallasIsIdentity(p) {
		verifReach("pallasdec_uncompressed_identity")
		verifAssertGhost("pallas.unc.identity_only_for_zero_zero_without_membership_test", sx.zero == 1 && sy.zero == 1 && g.saCalls == 0)
		return
	}
	verifReach("pallasdec_uncompressed_accepted")
	verifAssertGhost("pallas.unc.accepted_iff_membership_test_on_decoded_x_y_said_yes",
		!(sx.zero == 1 && sy.zero == 1) && g.saCalls == 1 && g.saOK == 1 &&
			g.saX == sx.recv && g.saY == sy.recv && verifSameValue(g.saXVal, sx.val) && verifSameValue(g.saYVal, sy.val))
	verifAssertGhost("pallas.unc.returned_point_is_the_tested_one", g.saRecv == &p.V)
	verifAssertGhost("pallas.unc.returned_coordinates_are_the_decoded_ones", verifSameValue(p.V.X, sx.val) && verifSameValue(p.V.Y, sy.val))
	verifAssert("pallas.unc.returned_point_is_affine", p.V.Z.IsOne() == 1)
}

// ---- identity forms / acceptance without the curve-equation routine (result-level, native)

// H_pallasdec_identity_form: the identity is returned only for the documented all-zero strings.
// Expected on the current tree: the strict obligations are VIOLATED by non-canonical zeros
// (x = p with sign 0; coordinates in {p, 2p, 3p}); the "_0_mod_p" obligations hold.
func H_pallasdec_identity_form() {
	comp := verifBool()
	n := 64
	if comp {
		n = 32
	}
	in := verifBytes(n)
	verifReach("pallasdec_idform")
	p, err, panicked := verifPallasDecode(comp, in)
	verifAssert("pallas.id.no_panic", !panicked)
	if err == nil && p != nil && verifPallasIsIdentity(p) {
		if comp {
			verifReach("pallasdec_idform_comp_identity")
			var xb [32]byte
			copy(xb[:], in)
			xb[31] &= 0x7f
			verifAssert("pallas.id.comp_identity_only_with_sign_bit_clear", in[31]>>7 == 0)
			verifAssert("pallas.id.comp_identity_only_x_0_mod_p", verifPallasIsZeroModP(xb[:]))
		} else {
			verifReach("pallasdec_idform_unc_identity")
			verifAssert("pallas.id.unc_identity_only_x_and_y_0_mod_p", verifPallasIsZeroModP(in[:32]) && verifPallasIsZeroModP(in[32:]))
		}
	}
}

// H_pallasdec_membership_no: the curve-equation contracts answer "no" on the whole path; whatever is
// still accepted was accepted without them. Stated on (input, error) only, so a counterexample is
// confirmed natively (the real decoder takes the same shortcut on the same bytes).
func H_pallasdec_membership_no() {
	comp := verifBool()
	n := verifPastaWireLen()
	in := verifBytes(n)
	verifGPallas.forceNo = true
	verifReach("pallasdec_no")
	_, err, panicked := verifPallasDecode(comp, in)
	verifAssert("pallas.no.no_panic", !panicked)
	if err == nil {
		verifReach("pallasdec_no_accepted")
		if comp {
			verifAssert("pallas.no.comp_accepted_only_length_32", n == 32)
			if n == 32 {
				var xb [32]byte
				copy(xb[:], in)
				xb[31] &= 0x7f
				// in particular x = 0 with the sign bit set is NOT accepted on the shortcut
				verifAssert("pallas.no.comp_accepted_without_membership_only_x_0_mod_p_sign_0", in[31]>>7 == 0 && verifPallasIsZeroModP(xb[:]))
			}
		} else {
			verifAssert("pallas.no.unc_accepted_only_length_64", n == 64)
			if n == 64 {
				// exactly one zero coordinate is not enough
				verifAssert("pallas.no.unc_accepted_without_membership_only_both_0_mod_p", verifPallasIsZeroModP(in[:32]) && verifPallasIsZeroModP(in[32:]))
			}
		}
	}
}

// ---- controls

// H_pallasdec_compressed_MUSTFAIL: wrong twin (claims the sign bit never matters for x = 0): 0^31 || 80
// is rejected (x = 0 is not on the curve), 0^32 is the identity.
func H_pallasdec_compressed_MUSTFAIL() {
	in := make([]byte, 32)
	in[31] = verifU8() & 0x80
	verifReach("pallasdec_compressed_mustfail")
	_, err, _ := verifPallasDecode(true, in)
	verifAssert("pallas.comp.wrong_zero_x_rejected_for_either_sign", err != nil)
}

// H_pallasdec_uncompressed_MUSTFAIL: wrong twin (claims a 65-byte input is handled like a 64-byte one).
func H_pallasdec_uncompressed_MUSTFAIL() {
	in := make([]byte, verifLen(64, 65))
	verifReach("pallasdec_uncompressed_mustfail")
	_, err, _ := verifPallasDecode(false, in)
	verifAssert("pallas.unc.wrong_all_zero_of_length_64_or_65_accepted", err == nil)
}
