//go:build verif_e1

package paillier

import (
	"math/bits"
	"sync"

	"github.com/cronokirby/saferith"
	"golang.org/x/sync/errgroup"

	"github.com/bronlabs/bron-crypto/pkg/base/nt/num"
	"github.com/bronlabs/bron-crypto/pkg/base/nt/numct"
	"github.com/bronlabs/bron-crypto/pkg/base/nt/znstar"
)

// E1 harnesses for pkg/encryption/paillier (property C16): the REAL paillier.go / public.go /
// secret.go, internal/gift, pkg/base/nt/znstar (unit groups, Paillier and RSA, known and unknown
// order), pkg/base/nt/modular (SimpleModulus, OddPrimeFactors, OddPrimeSquareFactors: the CRT
// exponentiation with the exponent reduced mod phi(p^2), ExpToN, FermatQuotient, CRT inversion),
// pkg/base/nt/crt (Recombine), pkg/base/nt/num (Nat, NatPlus, Int, Uint, ZMod) and
// pkg/base/nt/numct are interpreted for a TINY REAL KEY, with plaintexts, nonces, ciphertexts and
// scalars symbolic, so that the solver decides every obligation for all values at once.
//
// Keys: p, q of equal bit length (NewPaillierGroup insists), N^2 < 2^16: (5,7) N = 35 (both safe
// primes; quick group), (7,5), (11,13), (13,11) (thorough; the order of the factors matters to the
// CRT code). There is no Blum pair with N^2 < 2^16 (the smallest, 19*23, has N^2 = 190969). The key
// flavours differ only in how the primes are SAMPLED; every constructor ends in
// NewPaillierGroup(p, q) + NewSecretKey, which is what runs here. The key-size floor of
// newPublicKey / newSecretKey is switched off by the library itself in test binaries
// (`!testing.Testing() && ...`): testing.Testing() is a contract returning true, which is also what
// the native twin (a test binary) sees. The key is built by the real constructors (primality test =
// contract, see below), the secret key's CRT constants by the real precompute().
//
// WHAT IS REPLACED BY CONTRACTS (everything else above is real code):
//
//   - github.com/cronokirby/saferith (assembly-backed limb arithmetic) by the value-level model of
//     zz_verif_sfmodel.go (36 contracts, copied from harness/e1/numctdiv) + zz_verif_sfmodel_ext.go
//     (11 contracts: ModAdd, ModSub, ModNeg, Exp, ExpI, ModInverse, Coprime, IsUnit, CmpMod, Int.Mod,
//     Int.SetModSymmetric). Exp is square-and-multiply over the announced length of the exponent on
//     the model value, ModInverse a fresh value w with w*x = 1 (mod m) (extended Euclid while the key
//     is being built). Any other saferith method is not-encodable. Every harness asserts
//     (verifAssertGhost) that the model stayed inside its domain of exactness (verifEscaped|verifEscapedInv == 0).
//   - four numct functions that go through math/big or copy saferith structs by value:
//     (*Nat).IsProbablyPrime (trial division), (*ModulusBasic).modInvEven (inverse modulo p-1, q-1 in
//     precompute()), (*ModulusBasic).ModI, (*ModulusBasic).Set.
//   - testing.Testing() = true; num.Z / num.N / num.NPlus = a fresh empty structure value (the real
//     ones are sync.Once singletons of empty structs).
//   - concurrency: `go` statements of pkg/base/nt/modular and pkg/base/nt/crt are executed
//     synchronously at the spawn point (engine directive "verif:go-inline"; the sections are
//     fork-join over disjoint variables), (*sync.WaitGroup).Add/Done/Wait are no-ops,
//     (*errgroup.Group).Go runs its function synchronously and Wait returns the first error.
//   - engine directive "verif:real-body" for pkg/base/nt/num: the engine's abstract big-integer
//     stubs are switched off, the real num code runs on the saferith model.
//
// The model is validated natively against the real saferith / numct by TestVerifSaferithModel
// (zz_verif_sfmodel_test.go). The native replay twin runs the real library on the same tiny key.
//
// INPUTS. m in [0,N) (and the signed form in [-N/2, N/2)), r in Z_N^*, c in Z_{N^2}^* (every unit
// is a ciphertext: Enc is a bijection Z_N x Z_N^* -> Z_{N^2}^*), delta in [0,N), scalars k with
// |k| < 2^20 - wider than N^2 (11 bits for N = 35, 15 bits for N = 143); the sign of k is a fork.
//
// OBLIGATIONS (on results, both twins; "spec" = arithmetic on uint64 in this file):
//
//	decenc   PK.Enc(m,r) = (1+mN) r^N mod N^2; SK.Enc = PK.Enc (Representative and IdentityNoise
//	         compared separately: the secret-key IdentityNoise is the CRT ExpToN); Dec(Enc(m,r)) = m;
//	         NewPlaintextSymmetric / Normalise round trip through Enc/Dec for every signed m.
//	open     Open(Enc(m,r)) = (m, r).
//	op       CiphertextOp(c1,c2) = c1 c2 mod N^2, NonceOp = r1 r2 mod N, PlaintextOp = m1+m2 mod N,
//	         SK flavour = PK flavour (the SK NonceOp is CRT multiplication), all operands symbolic;
//	         Enc(m1,r1) * Enc(m2,r2) = Enc(m1+m2, r1 r2) with (m2,r2) from a list, (m1,r1) symbolic.
//	scalar   PK.CiphertextScalarOp(c,k) = c^k mod N^2 for all c, all |k| < 2^20 (negative: times c^|k| = 1);
//	         SK = PK for (A) all c x k from a list that straddles the bit width of N^2 and of N,
//	         (B) c from a list x all |k| < 2^20, (C) all c x all |k| < 2^3; ghost: on the SK path the
//	         exponent handed to saferith.Exp modulo p^2 (q^2) is the WHOLE |k| (or |k| mod phi) with the
//	         base c mod p^2 (q^2), for all c and all k; Enc(m,r)^k = Enc(k m, r^k) and decrypts to k m mod N for k from
//	         the list; NonceScalarOp, PlaintextScalarOp, both flavours.
//	shift    Shift(c,delta) = c (1+delta N) mod N^2 both flavours, all c, all delta;
//	         Shift(Enc(m,r),delta) = Enc(m+delta, r) and decrypts to m+delta, delta from a list.
//	rerand   ReRandomise(c,r') = c r'^N mod N^2 both flavours; ReRandomise(Enc(m,r),r') = Enc(m, r r').
//	opinv    CiphertextOpInv(c) c = 1, SK = PK (CRT inversion); = Enc(-m, r^-1); NonceOpInv,
//	         PlaintextOpInv.
//	         ("X = Enc(m',r')" is stated on the ciphertext value; together with open - Open(Enc(m,r)) =
//	         (m,r) for all m, r - it says that X opens to (m', r'). Open itself is called in open and seq
//	         only: its two internal checks on the recovered nonce are expensive for the engine's
//	         incremental solver, see openNonceValue.)
//	seq      sequences of operations (Shift, ScalarOp, ReRandomise, CiphertextOp, CiphertextOpInv with
//	         constants from lists, flavours mixed) applied to Enc(m,r), m, r symbolic; Open of the result
//	         = the plaintext / nonce computed alongside. Quick: one sequence of four; thorough: one of
//	         five and every sequence of two.
//
// BOUNDS. "All" means: decided by the solver for every value of the stated range for the stated key.
// SK = PK for scalars is NOT decided for all c and all k at once (the solver times out on the
// 840 x 2^12 product space): the three slices (A), (B), (C) replace it, together with the ghost
// obligation on the exponents that IS for all c and k. Slice (B) is limited to 0 <= k < 2^12 and
// -2^6 < k < 0 (2^20 times out for the two list elements of large order).
//
// GROUPS (run with -func; wall times in the README of the delivery report):
//
//	quick     H_paillier_decenc, _encflavours, _symmetric, _open, _op, _op_nonce, _scalar_pk,
//	          _scalar_pkneg, _scalar_c, _shift, _rerand, _opinv (N = 35; about 85 s of solver time, 1.5 min
//	          wall) and, heavier, _scalar_a (140 s) and _seq (120 s)
//	controls  H_paillier_decenc_MUSTFAIL, H_paillier_scalar_MUSTFAIL
//	thorough  N = 35, longer lists / wider ranges: H_paillier_op_hom, _scalar_hom, _scalar_a_M,
//	          _scalar_b_M, _scalar_c_M, _scalar_hom_M, _shift_hom, _rerand_hom, _opinv_hom, _seq_M, _seq_T;
//	          keys (7,5), (11,13), (13,11) (a fork): every H_paillier_*_T.
//
// SENSITIVITY (scratch copies of /repo, SSASYM_REPO): the seeded patch C16-paillier-sk-scalarop-
// truncates-wide-scalars => scalara.sk_eq_pk VIOLATED, confirmed natively (k = 2^11+3, c = 201) and
// the ghost exponent obligations inconclusive; Decrypt with the wrong CRT constant for q =>
// decenc.dec_of_enc_is_m VIOLATED; Normalise without the half-range mapping => sym.roundtrip_*
// VIOLATED; PublicKey.Shift with the representative of -delta => shift.pk_is_c_times_rep_delta and
// shift.sk_eq_pk VIOLATED; Open with p's exponent replaced by q's => open.nonce VIOLATED (all
// confirmed natively).
//
// OBSERVATION (not a violation of C16): modular.OddPrimeSquareFactors.ModExp and
// OddPrimeFactors.ModExp reduce the exponent modulo phi(p^2) resp. p-1 and then call
// ep.Select(coprime, exp, &ep); numct's Nat.Select starts with n.Set(x0), and the receiver aliases
// x1, so the reduced exponent is overwritten and the FULL exponent is always used (confirmed
// natively: after phi.Mod(&ep, 1000) with phi = 20, ep.Select(True, exp, &ep) leaves 1000). The
// value is unaffected; the CRT exponent reduction simply never takes effect. The ghost obligations
// scalarpk.sk_exponent_* therefore accept |k| or |k| mod phi.

// ---------------------------------------------------------------------------------------------
// environment contracts
// ---------------------------------------------------------------------------------------------

var verifEgErr map[*errgroup.Group]error

func verifCTesting() bool { return true }

func verifCNumZ() *num.Integers                   { return &num.Integers{} }
func verifCNumN() *num.NaturalNumbers             { return &num.NaturalNumbers{} }
func verifCNumNPlus() *num.PositiveNaturalNumbers { return &num.PositiveNaturalNumbers{} }

func verifCWgAdd(_ *sync.WaitGroup, _ int) {}
func verifCWgDone(_ *sync.WaitGroup)       {}
func verifCWgWait(_ *sync.WaitGroup)       {}

func verifCEgGo(g *errgroup.Group, f func() error) {
	err := f()
	if err == nil {
		return
	}
	if verifEgErr == nil {
		verifEgErr = map[*errgroup.Group]error{}
	}
	if _, ok := verifEgErr[g]; !ok {
		verifEgErr[g] = err
	}
}

func verifCEgWait(g *errgroup.Group) error {
	if verifEgErr == nil {
		return nil
	}
	return verifEgErr[g]
}

func verifReplacements() map[string]any {
	m := verifSaferithExtReplacements(verifSaferithReplacements())
	const nt = "github.com/bronlabs/bron-crypto/pkg/base/nt/"
	m["testing.Testing"] = verifCTesting
	m[nt+"num.*"] = "verif:real-body"
	m["(*"+nt+"num.*"] = "verif:real-body"
	m[nt+"num.Z"] = verifCNumZ
	m[nt+"num.N"] = verifCNumN
	m[nt+"num.NPlus"] = verifCNumNPlus
	m["(*"+nt+"modular.*"] = "verif:go-inline"
	m["(*"+nt+"crt.*"] = "verif:go-inline"
	m["(*sync.WaitGroup).Add"] = verifCWgAdd
	m["(*sync.WaitGroup).Done"] = verifCWgDone
	m["(*sync.WaitGroup).Wait"] = verifCWgWait
	m["(*golang.org/x/sync/errgroup.Group).Go"] = verifCEgGo
	m["(*golang.org/x/sync/errgroup.Group).Wait"] = verifCEgWait
	return m
}

// ---------------------------------------------------------------------------------------------
// environment: key, symbolic inputs, read-back, reference arithmetic
// ---------------------------------------------------------------------------------------------

// verifLemma: an obligation that later obligations of the same path may use (assert, then assume).
func verifLemma(id string, cond bool) {
	verifAssert(id, cond)
	verifAssume(cond)
}

func verifMust(err error) {
	if err != nil {
		panic(err)
	}
}

type verifEnv struct {
	p, q, n, nn, phi uint64
	nbits            int
	sk               *SecretKey
	pk               *PublicKey
}

func verifSetup(p, q uint64) *verifEnv {
	e := &verifEnv{p: p, q: q, n: p * q, nn: p * q * p * q, phi: (p - 1) * (q - 1)}
	e.nbits = bits.Len64(e.n)
	pp, err := num.NPlus().FromUint64(p)
	verifMust(err)
	qq, err := num.NPlus().FromUint64(q)
	verifMust(err)
	g, err := znstar.NewPaillierGroup(pp, qq)
	verifMust(err)
	e.sk, err = NewSecretKey(g)
	verifMust(err)
	e.pk = e.sk.Public()
	return e
}

func verifKeysThorough() [][2]uint64 { return [][2]uint64{{7, 5}, {11, 13}, {13, 11}} }

func verifSetupThorough() *verifEnv {
	ks := verifKeysThorough()
	k := ks[verifLen(0, len(ks)-1)]
	return verifSetup(k[0], k[1])
}

func (e *verifEnv) plain(m uint64) *Plaintext {
	pt, err := NewPlaintextFromNat(num.N().FromUint64(m), e.pk.Group().N())
	verifMust(err)
	return pt
}

func (e *verifEnv) nonce(r uint64) *Nonce {
	v, err := num.NPlus().FromUint64(r)
	verifMust(err)
	n, err := NewNonce(e.pk.Group(), v)
	verifMust(err)
	return n
}

func (e *verifEnv) ct(c uint64) *Ciphertext {
	v, err := num.NPlus().FromUint64(c)
	verifMust(err)
	x, err := NewCiphertext(e.pk.Group(), v)
	verifMust(err)
	return x
}

// isUnitBelow: v < m and v is a unit modulo p*q (branch-free; the reductions are written like those
// of the model so that the terms coincide).
func (e *verifEnv) isUnitBelow(v, m uint64) uint64 {
	return verifB2U(v < m) & verifB2U(uint32(v)%uint32(e.p) != 0) & verifB2U(uint32(v)%uint32(e.q) != 0)
}

// The three symbolic inputs return the value READ BACK from the library object (mathematically the
// drawn value: the constructors reduce modulo N resp. N^2 and the drawn value is assumed below
// that; the obligations input.* of H_paillier_decenc state it). The reference arithmetic then
// works on the very terms the library works on, so obligations of the form "the result is the
// product of the operands" are decided without re-proving that the reduction was the identity.
func (e *verifEnv) symPlain() (uint64, *Plaintext) {
	mv := verifU64() & 0xffff
	verifAssume(mv < e.n)
	m := e.plain(mv)
	return verifPtVal(m), m
}

func (e *verifEnv) symNonce() (uint64, *Nonce) {
	rv := verifU64() & 0xffff
	verifAssume(e.isUnitBelow(rv, e.n) == 1)
	r := e.nonce(rv)
	// (implied by the construction; stated on the read-back value so that the model's unit tests on
	// it are decided syntactically)
	verifAssume(e.isUnitBelow(verifNcVal(r), e.n) == 1)
	verifMarkUnit(r.Value().Value().Value(), e.nn)
	return verifNcVal(r), r
}

func (e *verifEnv) symCt() (uint64, *Ciphertext) {
	cv := verifU64() & 0xffff
	verifAssume(e.isUnitBelow(cv, e.nn) == 1)
	c := e.ct(cv)
	verifAssume(e.isUnitBelow(verifCtVal(c), e.nn) == 1)
	verifMarkUnit(c.Value().Value().Value(), e.nn)
	return verifCtVal(c), c
}

// verifMarkUnit tells the saferith model (ghost state; a no-op for the native twin) that the number
// is coprime to m - justified by the assumption made on it just before. The model propagates the
// mark through modular products, powers, inverses and reductions, and ModInverse / ExpI / Coprime
// then skip a coprimality test the solver would have to re-derive multiplication by multiplication.
func verifMarkUnit(n *numct.Nat, m uint64) {
	verifNatRec((*saferith.Nat)(n)).um = m
}

// verifMkScalar: the scalar (-1)^neg * mag.
func verifMkScalar(neg bool, mag uint64) *num.Int {
	k := num.Z().FromUint64(mag)
	if neg {
		k = k.Neg()
	}
	return k
}

// verifSymScalar: a symbolic scalar with |k| < 2^kbits; the sign is a fork, so the magnitude keeps its
// high bits syntactically zero.
func verifSymScalar(kbits uint) (bool, uint64, *num.Int) {
	mag := verifU64() & (uint64(1)<<kbits - 1)
	neg := false
	if verifBool() {
		neg = true
	}
	return neg, mag, verifMkScalar(neg, mag)
}

func verifPtVal(p *Plaintext) uint64  { return p.Value().Value().Uint64() }
func verifCtVal(c *Ciphertext) uint64 { return c.Value().Value().Value().Uint64() }
func verifNcVal(n *Nonce) uint64      { return n.Value().Value().Value().Uint64() }

// reference arithmetic

func (e *verifEnv) mulNN(a, b uint64) uint64 { return verifMMulMod(a, b, e.nn) }
func (e *verifEnv) mulN(a, b uint64) uint64  { return verifMMulMod(a, b, e.n) }
func (e *verifEnv) addN(a, b uint64) uint64 {
	s := a + b
	return verifIteU64(s >= e.n, s-e.n, s)
}
func (e *verifEnv) negN(a uint64) uint64 { return verifIteU64(a == 0, 0, e.n-a) }

// verifPow: b^x mod m over the low nb bits of x (right to left).
func verifPow(b, x, m uint64, nb int) uint64 {
	acc, sq := 1%m, b
	for i := 0; i < nb; i++ {
		acc = verifIteU64((x>>uint(i))&1 == 1, verifMMulMod(acc, sq, m), acc)
		if i+1 < nb {
			sq = verifMMulMod(sq, sq, m)
		}
	}
	return acc
}

func (e *verifEnv) invN(r uint64) uint64 { return verifPow(r, e.phi-1, e.n, bits.Len64(e.phi-1)) }

// rep: (1 + mN) mod N^2; noise: r^N mod N^2; enc: their product.
func (e *verifEnv) rep(m uint64) uint64    { return 1 + m*e.n }
func (e *verifEnv) noise(r uint64) uint64  { return verifPow(r, e.n, e.nn, e.nbits) }
func (e *verifEnv) enc(m, r uint64) uint64 { return e.mulNN(e.rep(m), e.noise(r)) }

func (e *verifEnv) encrypt(sk bool, m *Plaintext, r *Nonce) *Ciphertext {
	var c *Ciphertext
	var err error
	if sk {
		c, err = e.sk.EncryptWithNonce(m, r)
	} else {
		c, err = e.pk.EncryptWithNonce(m, r)
	}
	verifMust(err)
	return c
}

func (e *verifEnv) open(c *Ciphertext) (uint64, uint64) {
	m, r, err := e.sk.Open(c)
	verifMust(err)
	return verifPtVal(m), verifNcVal(r)
}

// openNonceValue recomputes, with the same library calls as SecretKey.Open, the number that Open
// hands to NewNonce. It is used ONLY to state a lemma (assert, then assume) in front of the call of
// the real Open: Open's own checks on that number (non-zero, unit) are branches whose error side
// the engine has to refute with its incremental solver, which needs minutes for a fact the one-shot
// solver proves in seconds; with the lemma in the path condition the refutation is immediate (the
// terms coincide because the interpreter is deterministic and terms are hash-consed). If this
// transcription ever differs from Open, the lemma simply does not help; nothing is assumed that has
// not been asserted first.
func (e *verifEnv) openNonceValue(c *Ciphertext) uint64 {
	sk := e.sk
	m, err := sk.Decrypt(c)
	verifMust(err)
	ar := sk.group.Arithmetic()
	var gMInv, y, rp, rq numct.Nat
	ar.ModMul(&gMInv, m.p.Value(), sk.group.N().Value())
	ar.Modulus().ModSub(&gMInv, numct.NatOne(), &gMInv)
	ar.ModMul(&y, c.Value().Value().Value(), &gMInv)
	ar.P.Factor.Mod(&rp, &y)
	ar.P.Factor.ModExp(&rp, &rp, &sk.qInvModPhiP)
	ar.Q.Factor.Mod(&rq, &y)
	ar.Q.Factor.ModExp(&rq, &rq, &sk.pInvModPhiQ)
	return ar.CrtModN.Params.Recombine(&rp, &rq).Uint64()
}

func (e *verifEnv) dec(c *Ciphertext) uint64 {
	m, err := e.sk.Decrypt(c)
	verifMust(err)
	return verifPtVal(m)
}

// ---------------------------------------------------------------------------------------------
// decenc / open
// ---------------------------------------------------------------------------------------------

func verifDecEnc(e *verifEnv) {
	// the constructors keep the values they are given
	m0, r0, c0 := verifU64()&0xffff, verifU64()&0xffff, verifU64()&0xffff
	verifAssume(verifB2U(m0 < e.n)&e.isUnitBelow(r0, e.n)&e.isUnitBelow(c0, e.nn) == 1)
	verifAssert("input.plaintext_value_kept", verifPtVal(e.plain(m0)) == m0)
	verifAssert("input.nonce_value_kept", verifNcVal(e.nonce(r0)) == r0)
	verifAssert("input.ciphertext_value_kept", verifCtVal(e.ct(c0)) == c0)
	mv, m := e.symPlain()
	rv, r := e.symNonce()
	verifReach("decenc.inputs")
	c := e.encrypt(false, m, r)
	_ = rv
	verifAssert("decenc.dec_of_enc_is_m", e.dec(c) == mv)
	verifAssertGhost("decenc.model_exact", verifEscaped|verifEscapedInv == 0)
}

func verifEncFlavours(e *verifEnv) {
	mv, m := e.symPlain()
	rv, r := e.symNonce()
	verifReach("encsk.inputs")
	a, err := e.pk.Representative(m)
	verifMust(err)
	b, err := e.sk.Representative(m)
	verifMust(err)
	verifAssert("encsk.pk_representative", verifCtVal(a) == e.rep(mv))
	verifAssert("encsk.sk_representative", verifCtVal(b) == e.rep(mv))
	x, err := e.pk.IdentityNoise(r)
	verifMust(err)
	y, err := e.sk.IdentityNoise(r)
	verifMust(err)
	verifAssert("encsk.pk_noise", verifCtVal(x) == e.noise(rv))
	verifLemma("encsk.sk_noise_crt_eq_pk", verifCtVal(y) == verifCtVal(x))
	c := e.encrypt(true, m, r)
	verifAssert("encsk.sk_enc_is_product", verifCtVal(c) == e.mulNN(verifCtVal(b), verifCtVal(y)))
	cp := e.encrypt(false, m, r)
	verifAssert("encsk.pk_enc_is_product", verifCtVal(cp) == e.mulNN(verifCtVal(a), verifCtVal(x)))
	verifAssertGhost("encsk.model_exact", verifEscaped|verifEscapedInv == 0)
}

func verifSymmetric(e *verifEnv) {
	// signed plaintext in [-(N-1)/2, (N-1)/2] (N is odd, so this is [-N/2, N/2) of NewPlaintextSymmetric)
	h := (e.n - 1) / 2
	mag := verifU64() & 0xff
	verifAssume(mag <= h)
	neg := false
	if verifBool() {
		neg = true
	}
	_, r := e.symNonce()
	verifReach("sym.inputs")
	m, err := NewPlaintextSymmetric(verifMkScalar(neg, mag), e.pk.Group().N())
	verifMust(err)
	want := mag
	if neg {
		want = e.negN(mag)
	}
	verifAssert("sym.residue", verifPtVal(m) == want)
	d, err := e.sk.Decrypt(e.encrypt(false, m, r))
	verifMust(err)
	out := d.Normalise()
	gotMag := out.Abs().Value().Uint64()
	gotNeg := out.IsNegative()
	verifAssert("sym.roundtrip_magnitude", gotMag == mag)
	verifAssert("sym.roundtrip_sign", verifB2U(mag == 0)|verifB2U(gotNeg == neg) == 1)
	// outside the range the constructor refuses
	_, err = NewPlaintextSymmetric(verifMkScalar(neg, mag+h+1), e.pk.Group().N())
	verifAssert("sym.out_of_range_refused", err != nil)
	verifAssertGhost("sym.model_exact", verifEscaped|verifEscapedInv == 0)
}

func verifOpen(e *verifEnv) {
	mv, m := e.symPlain()
	rv, r := e.symNonce()
	verifReach("open.inputs")
	c := e.encrypt(false, m, r)
	verifLemma("open.lemma_plaintext", e.dec(c) == mv)
	verifLemma("open.lemma_nonce_value", e.openNonceValue(c) == rv)
	om, or := e.open(c)
	verifAssert("open.plaintext", om == mv)
	verifAssert("open.nonce", or == rv)
	verifAssertGhost("open.model_exact", verifEscaped|verifEscapedInv == 0)
}

func H_paillier_decenc()        { verifDecEnc(verifSetup(5, 7)) }
func H_paillier_encflavours()   { verifEncFlavours(verifSetup(5, 7)) }
func H_paillier_symmetric()     { verifSymmetric(verifSetup(5, 7)) }
func H_paillier_open()          { verifOpen(verifSetup(5, 7)) }
func H_paillier_decenc_T()      { verifDecEnc(verifSetupThorough()) }
func H_paillier_encflavours_T() { verifEncFlavours(verifSetupThorough()) }
func H_paillier_symmetric_T()   { verifSymmetric(verifSetupThorough()) }
func H_paillier_open_T()        { verifOpen(verifSetupThorough()) }

// control: a ciphertext shifted by one does not decrypt to m
func H_paillier_decenc_MUSTFAIL() {
	e := verifSetup(5, 7)
	mv, m := e.symPlain()
	_, r := e.symNonce()
	verifReach("decenc_mf.inputs")
	c := e.encrypt(false, m, r)
	c2, err := e.pk.Shift(c, e.plain(1))
	verifMust(err)
	verifAssert("decenc_mf.dec_of_shifted_is_m", e.dec(c2) == mv)
}

// ---------------------------------------------------------------------------------------------
// op
// ---------------------------------------------------------------------------------------------

func verifOp(e *verifEnv) {
	c1v, c1 := e.symCt()
	c2v, c2 := e.symCt()
	verifReach("op.inputs")
	a, err := e.pk.CiphertextOp(c1, c2)
	verifMust(err)
	b, err := e.sk.CiphertextOp(c1, c2)
	verifMust(err)
	verifAssert("op.pk_ct_is_product", verifCtVal(a) == e.mulNN(c1v, c2v))
	verifAssert("op.sk_ct_eq_pk", verifCtVal(b) == verifCtVal(a))
	// three operands (the variadic tail)
	a3, err := e.pk.CiphertextOp(c1, c2, c1)
	verifMust(err)
	b3, err := e.sk.CiphertextOp(c1, c2, c1)
	verifMust(err)
	verifAssert("op.pk_ct3_is_product", verifCtVal(a3) == e.mulNN(e.mulNN(c1v, c2v), c1v))
	verifAssert("op.sk_ct3_eq_pk", verifCtVal(b3) == verifCtVal(a3))
	verifAssertGhost("op.model_exact", verifEscaped|verifEscapedInv == 0)
}

func verifOpNoncePlain(e *verifEnv) {
	r1v, r1 := e.symNonce()
	r2v, r2 := e.symNonce()
	m1v, m1 := e.symPlain()
	m2v, m2 := e.symPlain()
	verifReach("opnp.inputs")
	x, err := e.pk.NonceOp(r1, r2)
	verifMust(err)
	y, err := e.sk.NonceOp(r1, r2)
	verifMust(err)
	verifAssert("opnp.pk_nonce_is_product", verifNcVal(x) == e.mulN(r1v, r2v))
	verifAssert("opnp.sk_nonce_crt_eq_pk", verifNcVal(y) == verifNcVal(x))
	s, err := e.pk.PlaintextOp(m1, m2)
	verifMust(err)
	verifAssert("opnp.plaintext_is_sum", verifPtVal(s) == e.addN(m1v, m2v))
	verifAssertGhost("opnp.model_exact", verifEscaped|verifEscapedInv == 0)
}

func verifSamplePairs(e *verifEnv) [][2]uint64 {
	return [][2]uint64{{0, 1}, {1, 2}, {e.n - 1, e.n - 1}, {(e.n + 1) / 2, 3}}
}

// verifOpHom: Enc(m1,r1) * Enc(m2,r2) = Enc(m1+m2, r1 r2), (m2,r2) from the list.
func verifOpHom(e *verifEnv) {
	ps := verifSamplePairs(e)
	s := ps[verifLen(0, len(ps)-1)]
	m1v, m1 := e.symPlain()
	r1v, r1 := e.symNonce()
	verifReach("ophom.inputs")
	c1 := e.encrypt(false, m1, r1)
	c2 := e.encrypt(true, e.plain(s[0]), e.nonce(s[1]))
	c, err := e.pk.CiphertextOp(c1, c2)
	verifMust(err)
	verifAssert("ophom.product_is_enc_of_sum_and_product", verifCtVal(c) == e.enc(e.addN(m1v, s[0]), e.mulN(r1v, s[1])))
	verifAssert("ophom.decrypts_to_sum", e.dec(c) == e.addN(m1v, s[0]))
	verifAssertGhost("ophom.model_exact", verifEscaped|verifEscapedInv == 0)
}

func H_paillier_op()         { verifOp(verifSetup(5, 7)) }
func H_paillier_op_nonce()   { verifOpNoncePlain(verifSetup(5, 7)) }
func H_paillier_op_hom()     { verifOpHom(verifSetup(5, 7)) }
func H_paillier_op_T()       { verifOp(verifSetupThorough()) }
func H_paillier_op_nonce_T() { verifOpNoncePlain(verifSetupThorough()) }
func H_paillier_op_hom_T()   { verifOpHom(verifSetupThorough()) }

// ---------------------------------------------------------------------------------------------
// scalar
// ---------------------------------------------------------------------------------------------

const verifKBits = 20

// verifScalarPK: PK.CiphertextScalarOp(c,k) = c^k for all c and all 0 <= k < 2^20, and the exponents
// that the SK path hands to saferith (ghost).
func verifScalarPK(e *verifEnv) {
	cv, c := e.symCt()
	mag := verifU64() & (uint64(1)<<verifKBits - 1)
	k := verifMkScalar(false, mag)
	verifReach("scalarpk.inputs")
	a, err := e.pk.CiphertextScalarOp(c, k)
	verifMust(err)
	verifAssert("scalarpk.is_power", verifCtVal(a) == verifPow(cv, mag, e.nn, verifKBits))
	verifAssertGhost("scalarpk.model_exact_pk", verifEscaped|verifEscapedInv == 0)
	// ghost: what the secret-key route exponentiates with
	verifExpLog = nil
	verifExpLogOn = true
	_, err = e.sk.CiphertextScalarOp(c, k)
	verifMust(err)
	verifExpLogOn = false
	pp, qq := e.p*e.p, e.q*e.q
	okP, okQ, cnt := uint64(0), uint64(0), 0
	for _, x := range verifExpLog {
		// (the code reduces |k| modulo phi(p^2) and then selects between the reduced and the full
		// exponent with ep.Select(coprime, exp, &ep); because the receiver aliases the second
		// alternative, Select always yields the FULL exponent - harmless for the value, see report -
		// so both are accepted here: what matters is that no bit of |k| is dropped)
		if x.m == pp {
			okP |= (verifB2U(x.e == mag) | verifB2U(x.e == mag%(e.p*(e.p-1)))) & verifB2U(x.b == verifMRed(&verifMNat{v: cv, ann: 64, ub: verifMaxU}, &verifMMod{v: pp, bits: bits.Len64(pp)}))
			cnt++
		}
		if x.m == qq {
			okQ |= (verifB2U(x.e == mag) | verifB2U(x.e == mag%(e.q*(e.q-1)))) & verifB2U(x.b == verifMRed(&verifMNat{v: cv, ann: 64, ub: verifMaxU}, &verifMMod{v: qq, bits: bits.Len64(qq)}))
			cnt++
		}
	}
	verifAssertGhost("scalarpk.sk_exponent_mod_p2_is_whole_k", okP == 1)
	verifAssertGhost("scalarpk.sk_exponent_mod_q2_is_whole_k", okQ == 1)
	verifAssertGhost("scalarpk.sk_two_exponentiations", cnt == 2)
	// (verifEscapedInv is left out: OddPrimeSquareFactors.ModExpI inverts the recombined power and
	// discards the inverse for k >= 0; that the power is a unit is not decided for symbolic c and k)
	verifAssertGhost("scalarpk.model_exact", verifEscaped == 0)
}

// verifScalarPKNeg: PK.CiphertextScalarOp(c,-k) = (c^k)^-1 for all c and all k < 2^20, the inverse
// written as x^(lambda(N^2)-1) like the model's ModInverse (that this IS the inverse of every unit x
// is obligation opinv.pk_times_c_is_one of H_paillier_opinv, for all x). CiphertextOpInv is not
// called here: it checks "inverse times x = 1" at run time, a branch the engine cannot refute for a
// power with a symbolic 20-bit exponent.
func verifScalarPKNeg(e *verifEnv) {
	cv, c := e.symCt()
	mag := verifU64() & (uint64(1)<<verifKBits - 1)
	verifReach("scalarpkneg.inputs")
	a, err := e.pk.CiphertextScalarOp(c, verifMkScalar(true, mag))
	verifMust(err)
	verifAssert("scalarpkneg.is_inverse_of_power", verifCtVal(a) == verifMInverse(verifPow(cv, mag, e.nn, verifKBits), e.nn))
	verifAssertGhost("scalarpkneg.model_exact", verifEscaped|verifEscapedInv == 0)
}

// verifKList: scalar magnitudes around the bit widths of N and N^2 and far beyond. level 0: three
// (quick), 1: nine, 2: twenty-two.
func verifKList(e *verifEnv, level int) []uint64 {
	w := uint(bits.Len64(e.nn))
	ks := []uint64{e.n, 1<<w + 3, 1<<verifKBits - 1}
	if level >= 1 {
		ks = append(ks, 0, 1, 2, e.nn-1, 1<<w, 1<<16+1)
	}
	if level >= 2 {
		ks = append(ks, 3, e.n-1, e.n+1, e.phi, e.n*e.phi, e.nn, e.nn+1, 1<<(w-1), 1<<(w+1), 1<<(w+1)+1<<(w-2), 3<<w, 1<<18+5, 1<<19)
	}
	return ks
}

// verifScalarA: SK = PK for all c, k from the list, both signs.
func verifScalarA(e *verifEnv, level int) {
	ks := verifKList(e, level)
	mag := ks[verifLen(0, len(ks)-1)]
	neg := verifLen(0, 1) == 1
	_, c := e.symCt()
	verifReach("scalara.inputs")
	k := verifMkScalar(neg, mag)
	a, err := e.pk.CiphertextScalarOp(c, k)
	verifMust(err)
	b, err := e.sk.CiphertextScalarOp(c, k)
	verifMust(err)
	verifAssert("scalara.sk_eq_pk", verifCtVal(b) == verifCtVal(a))
	verifAssertGhost("scalara.model_exact", verifEscaped|verifEscapedInv == 0)
}

func verifCList(e *verifEnv) []uint64 { return []uint64{2, e.n + 1, e.nn - 1, e.n + 2} }

// verifScalarB: SK = PK for c from the list and all scalars 0 <= k < 2^pbits, and all -2^nbits < k < 0
// (2^20 is beyond the solver for the two elements of large order in the list).
func verifScalarB(e *verifEnv, pbits, nbits uint) {
	cs := verifCList(e)
	cv := cs[verifLen(0, len(cs)-1)]
	c := e.ct(cv)
	neg := verifLen(0, 1) == 1
	kb := pbits
	if neg {
		kb = nbits
	}
	k := verifMkScalar(neg, verifU64()&(uint64(1)<<kb-1))
	verifReach("scalarb.inputs")
	a, err := e.pk.CiphertextScalarOp(c, k)
	verifMust(err)
	b, err := e.sk.CiphertextScalarOp(c, k)
	verifMust(err)
	verifAssert("scalarb.sk_eq_pk", verifCtVal(b) == verifCtVal(a))
	verifAssertGhost("scalarb.model_exact", verifEscaped|verifEscapedInv == 0)
}

// verifScalarC: SK = PK for all c, all |k| < 2^kbits.
func verifScalarC(e *verifEnv, kbits uint) {
	_, c := e.symCt()
	_, _, k := verifSymScalar(kbits)
	verifReach("scalarc.inputs")
	a, err := e.pk.CiphertextScalarOp(c, k)
	verifMust(err)
	b, err := e.sk.CiphertextScalarOp(c, k)
	verifMust(err)
	verifAssert("scalarc.sk_eq_pk", verifCtVal(b) == verifCtVal(a))
	verifAssertGhost("scalarc.model_exact", verifEscaped|verifEscapedInv == 0)
}

// verifScalarHom: Open(Enc(m,r)^k) = (k m, r^k), k from the list, flavours alternating.
func verifScalarHom(e *verifEnv, level int) {
	ks := verifKList(e, level)
	ki := verifLen(0, len(ks)-1)
	mag := ks[ki]
	neg := verifLen(0, 1) == 1
	mv, m := e.symPlain()
	rv, r := e.symNonce()
	verifReach("scalarhom.inputs")
	k := verifMkScalar(neg, mag)
	c := e.encrypt(false, m, r)
	var ck *Ciphertext
	var err error
	if ki%2 == 0 {
		ck, err = e.sk.CiphertextScalarOp(c, k)
	} else {
		ck, err = e.pk.CiphertextScalarOp(c, k)
	}
	verifMust(err)
	wantM := e.mulN(mv, mag%e.n)
	wantR := verifPow(rv, mag, e.n, verifKBits)
	if neg {
		wantM = e.negN(wantM)
		wantR = e.invN(wantR)
	}
	verifAssert("scalarhom.power_is_enc_of_km_and_r_to_k", verifCtVal(ck) == e.enc(wantM, wantR))
	verifAssert("scalarhom.decrypts_to_k_times_m", e.dec(ck) == wantM)
	// the plaintext- and nonce-level operations agree with that
	pm, err := e.pk.PlaintextScalarOp(m, k)
	verifMust(err)
	verifAssert("scalarhom.plaintext_scalar_op", verifPtVal(pm) == wantM)
	nr, err := e.pk.NonceScalarOp(r, k)
	verifMust(err)
	nr2, err := e.sk.NonceScalarOp(r, k)
	verifMust(err)
	verifAssert("scalarhom.pk_nonce_scalar_op", verifNcVal(nr) == wantR)
	verifAssert("scalarhom.sk_nonce_scalar_op_crt", verifNcVal(nr2) == wantR)
	verifAssertGhost("scalarhom.model_exact", verifEscaped|verifEscapedInv == 0)
}

func H_paillier_scalar_pk()      { verifScalarPK(verifSetup(5, 7)) }
func H_paillier_scalar_pkneg()   { verifScalarPKNeg(verifSetup(5, 7)) }
func H_paillier_scalar_a()       { verifScalarA(verifSetup(5, 7), 0) }
func H_paillier_scalar_c()       { verifScalarC(verifSetup(5, 7), 2) }
func H_paillier_scalar_hom()     { verifScalarHom(verifSetup(5, 7), 0) }
func H_paillier_scalar_a_M()     { verifScalarA(verifSetup(5, 7), 2) }
func H_paillier_scalar_b_M()     { verifScalarB(verifSetup(5, 7), 12, 6) }
func H_paillier_scalar_c_M()     { verifScalarC(verifSetup(5, 7), 3) }
func H_paillier_scalar_hom_M()   { verifScalarHom(verifSetup(5, 7), 1) }
func H_paillier_scalar_pk_T()    { verifScalarPK(verifSetupThorough()) }
func H_paillier_scalar_pkneg_T() { verifScalarPKNeg(verifSetupThorough()) }
func H_paillier_scalar_a_T()     { verifScalarA(verifSetupThorough(), 1) }
func H_paillier_scalar_c_T()     { verifScalarC(verifSetupThorough(), 2) }
func H_paillier_scalar_hom_T()   { verifScalarHom(verifSetupThorough(), 0) }

// control: the secret-key scalar operation does NOT agree with the public-key one on the scalar
// reduced to the bit width of N^2
func H_paillier_scalar_MUSTFAIL() {
	e := verifSetup(5, 7)
	w := uint(bits.Len64(e.nn))
	_, c := e.symCt()
	verifReach("scalar_mf.inputs")
	mag := uint64(1)<<w + 1
	a, err := e.pk.CiphertextScalarOp(c, verifMkScalar(false, mag&(1<<w-1)))
	verifMust(err)
	b, err := e.sk.CiphertextScalarOp(c, verifMkScalar(false, mag))
	verifMust(err)
	verifAssert("scalar_mf.sk_is_pk_on_truncated_scalar", verifCtVal(b) == verifCtVal(a))
}

// ---------------------------------------------------------------------------------------------
// shift / rerandomise / opinv
// ---------------------------------------------------------------------------------------------

func verifShift(e *verifEnv) {
	cv, c := e.symCt()
	dv, d := e.symPlain()
	verifReach("shift.inputs")
	a, err := e.pk.Shift(c, d)
	verifMust(err)
	b, err := e.sk.Shift(c, d)
	verifMust(err)
	verifAssert("shift.pk_is_c_times_rep_delta", verifCtVal(a) == e.mulNN(cv, e.rep(dv)))
	verifAssert("shift.sk_eq_pk", verifCtVal(b) == verifCtVal(a))
	verifAssertGhost("shift.model_exact", verifEscaped|verifEscapedInv == 0)
}

func verifDeltaList(e *verifEnv) []uint64 { return []uint64{0, 1, (e.n - 1) / 2, e.n - 1} }

func verifShiftHom(e *verifEnv) {
	ds := verifDeltaList(e)
	di := verifLen(0, len(ds)-1)
	mv, m := e.symPlain()
	rv, r := e.symNonce()
	verifReach("shifthom.inputs")
	c := e.encrypt(false, m, r)
	var s *Ciphertext
	var err error
	if di%2 == 0 {
		s, err = e.pk.Shift(c, e.plain(ds[di]))
	} else {
		s, err = e.sk.Shift(c, e.plain(ds[di]))
	}
	verifMust(err)
	verifAssert("shifthom.is_enc_of_m_plus_delta_same_nonce", verifCtVal(s) == e.enc(e.addN(mv, ds[di]), rv))
	verifAssert("shifthom.decrypts_to_m_plus_delta", e.dec(s) == e.addN(mv, ds[di]))
	verifAssertGhost("shifthom.model_exact", verifEscaped|verifEscapedInv == 0)
}

func verifReRand(e *verifEnv) {
	cv, c := e.symCt()
	rv, r := e.symNonce()
	verifReach("rerand.inputs")
	a, err := e.pk.ReRandomise(c, r)
	verifMust(err)
	b, err := e.sk.ReRandomise(c, r)
	verifMust(err)
	verifAssert("rerand.pk_is_c_times_noise", verifCtVal(a) == e.mulNN(cv, e.noise(rv)))
	x, err := e.sk.IdentityNoise(r)
	verifMust(err)
	verifAssert("rerand.sk_is_c_times_sk_noise", verifCtVal(b) == e.mulNN(cv, verifCtVal(x)))
	verifAssertGhost("rerand.model_exact", verifEscaped|verifEscapedInv == 0)
}

func verifNonceList(e *verifEnv) []uint64 { return []uint64{1, 2, e.n - 1, e.n - 2} }

func verifReRandHom(e *verifEnv) {
	rs := verifNonceList(e)
	ri := verifLen(0, len(rs)-1)
	mv, m := e.symPlain()
	rv, r := e.symNonce()
	verifReach("rerandhom.inputs")
	c := e.encrypt(false, m, r)
	var s *Ciphertext
	var err error
	if ri%2 == 0 {
		s, err = e.sk.ReRandomise(c, e.nonce(rs[ri]))
	} else {
		s, err = e.pk.ReRandomise(c, e.nonce(rs[ri]))
	}
	verifMust(err)
	verifAssert("rerandhom.is_enc_of_m_with_nonce_product", verifCtVal(s) == e.enc(mv, e.mulN(rv, rs[ri])))
	verifAssert("rerandhom.decrypts_to_m", e.dec(s) == mv)
	verifAssertGhost("rerandhom.model_exact", verifEscaped|verifEscapedInv == 0)
}

func verifOpInv(e *verifEnv) {
	cv, c := e.symCt()
	verifReach("opinv.inputs")
	a, err := e.pk.CiphertextOpInv(c)
	verifMust(err)
	b, err := e.sk.CiphertextOpInv(c)
	verifMust(err)
	verifAssert("opinv.pk_times_c_is_one", e.mulNN(verifCtVal(a), cv) == 1)
	verifAssert("opinv.sk_crt_eq_pk", verifCtVal(b) == verifCtVal(a))
	verifAssertGhost("opinv.model_exact", verifEscaped|verifEscapedInv == 0)
}

func verifOpInvHom(e *verifEnv) {
	mv, m := e.symPlain()
	rv, r := e.symNonce()
	verifReach("opinvhom.inputs")
	c := e.encrypt(false, m, r)
	ci, err := e.sk.CiphertextOpInv(c)
	verifMust(err)
	x, err := e.pk.NonceOpInv(r)
	verifMust(err)
	y, err := e.sk.NonceOpInv(r)
	verifMust(err)
	verifAssert("opinvhom.pk_nonce_op_inv", e.mulN(verifNcVal(x), rv) == 1)
	verifAssert("opinvhom.sk_nonce_op_inv_crt", verifNcVal(y) == verifNcVal(x))
	verifAssert("opinvhom.is_enc_of_minus_m_and_inverse_nonce", verifCtVal(ci) == e.enc(e.negN(mv), verifNcVal(x)))
	verifAssert("opinvhom.decrypts_to_minus_m", e.dec(ci) == e.negN(mv))
	z, err := e.pk.PlaintextOpInv(m)
	verifMust(err)
	verifAssert("opinvhom.plaintext_op_inv", verifPtVal(z) == e.negN(mv))
	verifAssertGhost("opinvhom.model_exact", verifEscaped|verifEscapedInv == 0)
}

func H_paillier_shift()        { verifShift(verifSetup(5, 7)) }
func H_paillier_shift_hom()    { verifShiftHom(verifSetup(5, 7)) }
func H_paillier_rerand()       { verifReRand(verifSetup(5, 7)) }
func H_paillier_rerand_hom()   { verifReRandHom(verifSetup(5, 7)) }
func H_paillier_opinv()        { verifOpInv(verifSetup(5, 7)) }
func H_paillier_opinv_hom()    { verifOpInvHom(verifSetup(5, 7)) }
func H_paillier_shift_T()      { verifShift(verifSetupThorough()) }
func H_paillier_shift_hom_T()  { verifShiftHom(verifSetupThorough()) }
func H_paillier_rerand_T()     { verifReRand(verifSetupThorough()) }
func H_paillier_rerand_hom_T() { verifReRandHom(verifSetupThorough()) }
func H_paillier_opinv_T()      { verifOpInv(verifSetupThorough()) }
func H_paillier_opinv_hom_T()  { verifOpInvHom(verifSetupThorough()) }

// ---------------------------------------------------------------------------------------------
// sequences
// ---------------------------------------------------------------------------------------------

type verifSeqState struct {
	c    *Ciphertext
	m, r uint64 // the plaintext and nonce that c must open to
}

// verifStep applies operation op (0 Shift by N-1, 1 ScalarOp by 3, 2 ReRandomise with 2,
// 3 CiphertextOp with Enc(5,3), 4 CiphertextOpInv, 5 ScalarOp by -2) with the secret-key (sk) or
// public-key flavour and tracks the expected opening.
func verifStep(e *verifEnv, s *verifSeqState, op int, sk bool) {
	var c *Ciphertext
	var err error
	switch op {
	case 0:
		d := e.plain(e.n - 1)
		if sk {
			c, err = e.sk.Shift(s.c, d)
		} else {
			c, err = e.pk.Shift(s.c, d)
		}
		s.m = e.addN(s.m, e.n-1)
	case 1, 5:
		k, neg, mag := verifMkScalar(false, 3), false, uint64(3)
		if op == 5 {
			k, neg, mag = verifMkScalar(true, 2), true, 2
		}
		if sk {
			c, err = e.sk.CiphertextScalarOp(s.c, k)
		} else {
			c, err = e.pk.CiphertextScalarOp(s.c, k)
		}
		s.m = e.mulN(s.m, mag)
		s.r = verifPow(s.r, mag, e.n, 2)
		if neg {
			s.m = e.negN(s.m)
			s.r = e.invN(s.r)
		}
	case 2:
		n := e.nonce(2)
		if sk {
			c, err = e.sk.ReRandomise(s.c, n)
		} else {
			c, err = e.pk.ReRandomise(s.c, n)
		}
		s.r = e.mulN(s.r, 2)
	case 3:
		o := e.encrypt(!sk, e.plain(5), e.nonce(3))
		if sk {
			c, err = e.sk.CiphertextOp(s.c, o)
		} else {
			c, err = e.pk.CiphertextOp(o, s.c)
		}
		s.m = e.addN(s.m, 5)
		s.r = e.mulN(s.r, 3)
	default:
		if sk {
			c, err = e.sk.CiphertextOpInv(s.c)
		} else {
			c, err = e.pk.CiphertextOpInv(s.c)
		}
		s.m = e.negN(s.m)
		s.r = e.invN(s.r)
	}
	verifMust(err)
	s.c = c
}

func verifSeqStart(e *verifEnv) *verifSeqState {
	mv, m := e.symPlain()
	rv, r := e.symNonce()
	return &verifSeqState{c: e.encrypt(false, m, r), m: mv, r: rv}
}

func verifSeqEnd(e *verifEnv, s *verifSeqState) {
	verifAssert("seq.is_enc_of_tracked_plaintext_and_nonce", verifCtVal(s.c) == e.enc(s.m, s.r))
	verifLemma("seq.lemma_plaintext", e.dec(s.c) == s.m)
	verifLemma("seq.lemma_nonce_value", e.openNonceValue(s.c) == s.r)
	om, or := e.open(s.c)
	verifAssert("seq.open_plaintext", om == s.m)
	verifAssert("seq.open_nonce", or == s.r)
	verifAssertGhost("seq.model_exact", verifEscaped|verifEscapedInv == 0)
}

// one sequence of four operations (Shift, ScalarOp by 3, ReRandomise, CiphertextOp), flavours alternating
func H_paillier_seq() {
	e := verifSetup(5, 7)
	s := verifSeqStart(e)
	verifReach("seq.inputs")
	for i, op := range []int{0, 1, 2, 3} {
		verifStep(e, s, op, i%2 == 0)
	}
	verifSeqEnd(e, s)
}

// one sequence of five operations, flavours alternating
func H_paillier_seq_M() {
	e := verifSetup(5, 7)
	s := verifSeqStart(e)
	verifReach("seq.inputs")
	for i, op := range []int{0, 1, 2, 3, 4} {
		verifStep(e, s, op, i%2 == 0)
	}
	verifSeqEnd(e, s)
}

// every sequence of two operations (six kinds), both flavour patterns
func H_paillier_seq_T() {
	e := verifSetup(5, 7)
	op1, op2 := verifLen(0, 5), verifLen(0, 5)
	fl := verifLen(0, 1) == 1
	s := verifSeqStart(e)
	verifReach("seq.inputs")
	verifStep(e, s, op1, fl)
	verifStep(e, s, op2, !fl)
	verifSeqEnd(e, s)
}
