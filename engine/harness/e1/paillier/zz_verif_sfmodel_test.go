//go:build verif_e1

package paillier

import (
	"fmt"
	"math/bits"
	"math/rand"
	"os"
	"strconv"
	"testing"

	"github.com/cronokirby/saferith"

	"github.com/bronlabs/bron-crypto/pkg/base/ct"
	"github.com/bronlabs/bron-crypto/pkg/base/nt/numct"
)

// TestVerifSaferithModel is the NATIVE differential validation of the saferith model in
// zz_verif_sfmodel.go (this file is part of the native replay build only). Random operation
// sequences are applied, step by step, to a pool of real saferith objects and to the model records
// that stand for them (same aliasing pattern on both sides); after every step EVERY object of the
// pool is compared (announced length, value, true length, sign), results of observers are
// compared, and a panic on one side must be a panic on the other. A step on which the model
// reports that it left its domain (verifEscaped) ends the sequence without comparison - and is
// counted, so that the test shows how much was really compared.
//
// Run (the overlay file is written by any engine run with a replay, e.g. the MUSTFAIL control):
//
//	cd /repo && GOFLAGS= go1.26.8 test -tags purego,verif_e1 -vet=off -count=1 \
//	    -overlay <replay-dir>/overlay_paillier.json -run '^TestVerifSaferithModel' -v ./pkg/encryption/paillier
//
// This copy (package paillier) extends harness/e1/numctdiv's by the modular operations of
// zz_verif_sfmodel_ext.go (ModAdd, ModSub, ModNeg, Exp, ExpI, ModInverse, Coprime, IsUnit, CmpMod,
// Bytes, Int.Mod, Int.SetModSymmetric), by the check lb <= real value <= ub of the model's bounds
// after every step, and by TestVerifSaferithModelNumct for the four numct-level contracts.
//
// VERIF_SFMODEL_SEQS / VERIF_SFMODEL_SEED override the number of sequences / the seed;
// VERIF_SFMODEL_BREAK=1 breaks the model of Resize on purpose (the test must then fail).

type verifDiffPool struct {
	rn []*saferith.Nat
	mn []*verifMNat
	ri []*saferith.Int
	mi []*verifMInt
	rm []*saferith.Modulus
	mm []*verifMMod
}

func verifDiffValue(rng *rand.Rand) uint64 {
	switch k := rng.Intn(20); {
	case k < 2:
		return uint64(rng.Intn(3))
	case k < 14:
		return rng.Uint64() >> uint(64-1-rng.Intn(12))
	case k < 18:
		return rng.Uint64() >> uint(64-1-rng.Intn(31))
	default:
		return rng.Uint64() >> uint(rng.Intn(64))
	}
}

func verifDiffCap(rng *rand.Rand) int {
	switch k := rng.Intn(10); {
	case k < 4:
		return -1
	case k < 8:
		return rng.Intn(15)
	default:
		special := []int{-130, -70, -64, -63, -5, -2, 0, 1, 31, 32, 33, 63, 64, 65, 70, 128, 130}
		return special[rng.Intn(len(special))]
	}
}

func verifDiffShift(rng *rand.Rand) uint {
	if rng.Intn(10) == 0 {
		return []uint{63, 64, 65, 70, 128}[rng.Intn(5)]
	}
	return uint(rng.Intn(13))
}

// verifDiffCall runs f and reports its panic, if any.
func verifDiffCall(f func()) (p any) {
	defer func() { p = recover() }()
	f()
	return nil
}

func (pl *verifDiffPool) compare(where string) error {
	for i, r := range pl.rn {
		m := pl.mn[i]
		if r.AnnouncedLen() != m.ann {
			return fmt.Errorf("%s: nat %d announced: real %d, model %d", where, i, r.AnnouncedLen(), m.ann)
		}
		if r.TrueLen() > 64 {
			return fmt.Errorf("%s: nat %d: real value has %d bits but the model did not report leaving its domain", where, i, r.TrueLen())
		}
		if r.Uint64() != m.v {
			return fmt.Errorf("%s: nat %d value: real %#x, model %#x (announced %d)", where, i, r.Uint64(), m.v, m.ann)
		}
		if r.TrueLen() != bits.Len64(m.v) {
			return fmt.Errorf("%s: nat %d truelen: real %d, model %d", where, i, r.TrueLen(), bits.Len64(m.v))
		}
		if m.v < m.lb || m.v > m.ub {
			return fmt.Errorf("%s: nat %d: value %#x outside the model's bounds [%#x, %#x]", where, i, m.v, m.lb, m.ub)
		}
		if m.um > 1 && verifDiffGCD(m.v, m.um) != 1 {
			return fmt.Errorf("%s: nat %d: value %#x is marked coprime to %d but is not", where, i, m.v, m.um)
		}
	}
	for i, r := range pl.ri {
		m := pl.mi[i]
		if r.AnnouncedLen() != m.abs.ann {
			return fmt.Errorf("%s: int %d announced: real %d, model %d", where, i, r.AnnouncedLen(), m.abs.ann)
		}
		if r.IsNegative() != m.neg {
			return fmt.Errorf("%s: int %d sign: real %d, model %d", where, i, r.IsNegative(), m.neg)
		}
		a := r.Abs()
		if a.TrueLen() > 64 {
			return fmt.Errorf("%s: int %d: real magnitude has %d bits but the model did not report leaving its domain", where, i, a.TrueLen())
		}
		if a.Uint64() != m.abs.v {
			return fmt.Errorf("%s: int %d magnitude: real %#x, model %#x (announced %d)", where, i, a.Uint64(), m.abs.v, m.abs.ann)
		}
		if m.abs.um > 1 && verifDiffGCD(m.abs.v, m.abs.um) != 1 {
			return fmt.Errorf("%s: int %d: magnitude %#x is marked coprime to %d but is not", where, i, m.abs.v, m.abs.um)
		}
		if m.abs.v < m.abs.lb || m.abs.v > m.abs.ub {
			return fmt.Errorf("%s: int %d: magnitude %#x outside the model's bounds [%#x, %#x]", where, i, m.abs.v, m.abs.lb, m.abs.ub)
		}
	}
	for i, r := range pl.rm {
		m := pl.mm[i]
		if r.BitLen() != m.bits || r.Nat().Uint64() != m.v {
			return fmt.Errorf("%s: modulus %d: real (%#x, %d bits), model (%#x, %d bits)", where, i, r.Nat().Uint64(), r.BitLen(), m.v, m.bits)
		}
	}
	return nil
}

func verifDiffGCD(a, b uint64) uint64 {
	for b != 0 {
		a, b = b, a%b
	}
	return a
}

func (pl *verifDiffPool) dump() string {
	s := "nats"
	for _, m := range pl.mn {
		s += fmt.Sprintf(" (%#x,%d)", m.v, m.ann)
	}
	s += " ints"
	for _, m := range pl.mi {
		s += fmt.Sprintf(" (%d,%#x,%d)", m.neg, m.abs.v, m.abs.ann)
	}
	s += " moduli"
	for _, m := range pl.mm {
		s += fmt.Sprintf(" (%#x,%d)", m.v, m.bits)
	}
	return s
}

func TestVerifSaferithModel(t *testing.T) {
	seqs, seed := 60000, int64(20260923)
	if s := os.Getenv("VERIF_SFMODEL_SEQS"); s != "" {
		seqs, _ = strconv.Atoi(s)
	}
	if s := os.Getenv("VERIF_SFMODEL_SEED"); s != "" {
		seed, _ = strconv.ParseInt(s, 10, 64)
	}
	broken := os.Getenv("VERIF_SFMODEL_BREAK") == "1"
	rng := rand.New(rand.NewSource(seed))
	const KN, KI, KM = 4, 3, 2
	opNames := []string{
		"Nat.SetUint64", "Nat.SetNat", "Nat.Clone", "Nat.Resize", "Nat.Byte", "Nat.Cmp", "Nat.Eq", "Nat.EqZero",
		"Nat.CondAssign", "Nat.Add", "Nat.Sub", "Nat.Mul", "Nat.Lsh", "Nat.Div", "Nat.Mod", "Nat.ModMul",
		"ModulusFromNat", "Modulus.Nat", "Int.SetNat", "Int.SetInt", "Int.SetUint64", "Int.Clone", "Int.Resize",
		"Int.Abs", "Int.Neg", "Int.Add", "Int.Mul", "Int.Eq", "Nat.Uint64/TrueLen/AnnouncedLen",
		"Nat.ModAdd", "Nat.ModSub", "Nat.ModNeg", "Nat.Exp", "Nat.ExpI", "Nat.ModInverse", "Nat.Coprime", "Nat.IsUnit",
		"Nat.CmpMod", "Nat.Bytes", "Modulus.Bytes", "Int.Mod", "Int.SetModSymmetric",
		"Nat.ModAdd", "Nat.ModSub", "Nat.Exp", "Nat.ExpI", "Nat.ModInverse", "Nat.Mod", "Nat.ModMul", "Nat.Coprime", "Int.Mod", // weight
	}
	steps := make([]int, len(opNames))
	panics := make([]int, len(opNames))
	escapes := make([]int, len(opNames))
	compared := 0
	for seq := 0; seq < seqs; seq++ {
		pl := &verifDiffPool{}
		for i := 0; i < KN; i++ {
			v, c := verifDiffValue(rng), rng.Intn(14)
			if rng.Intn(4) == 0 {
				c = 64
			}
			r := new(saferith.Nat).SetUint64(v).Resize(c)
			m := &verifMNat{}
			verifMNatSetUint64(m, v)
			verifMNatResize(m, c)
			pl.rn, pl.mn = append(pl.rn, r), append(pl.mn, m)
		}
		if rng.Intn(3) == 0 { // a zero-value object
			pl.rn[0], pl.mn[0] = new(saferith.Nat), &verifMNat{}
		}
		for i := 0; i < KI; i++ {
			v, c, s := verifDiffValue(rng), rng.Intn(14), saferith.Choice(rng.Intn(2))
			if rng.Intn(4) == 0 {
				c = 64
			}
			r := new(saferith.Int).SetUint64(v).Neg(s).Resize(c)
			m := &verifMInt{}
			verifMNatSetUint64(&m.abs, v)
			m.neg ^= s
			verifMNatResize(&m.abs, c)
			pl.ri, pl.mi = append(pl.ri, r), append(pl.mi, m)
		}
		for i := 0; i < KM; i++ {
			v := verifDiffValue(rng) | 1
			if rng.Intn(8) != 0 {
				v = v&0xffff | 1 // mostly small: the modular operations multiply residues in 32 / 64 bits
				if rng.Intn(3) == 0 {
					v = []uint64{3, 5, 7, 9, 25, 35, 49, 121, 143, 169, 1225, 20449}[rng.Intn(12)]
				}
			}
			src := new(saferith.Nat).SetUint64(v).Resize(64)
			ms := &verifMNat{}
			verifMNatSetUint64(ms, v)
			m := &verifMMod{}
			verifMModFromNat(m, ms)
			pl.rm, pl.mm = append(pl.rm, saferith.ModulusFromNat(src)), append(pl.mm, m)
		}
		// unit marks, as a harness would put them: on values that really are coprime to a modulus of the
		// pool (or to the product of the two)
		for i := range pl.mn {
			um := pl.mm[rng.Intn(KM)].v
			if p := pl.mm[0].v * pl.mm[1].v; rng.Intn(2) == 0 && pl.mm[0].v>>16 == 0 && pl.mm[1].v>>16 == 0 {
				um = p
			}
			if rng.Intn(2) == 0 && um > 1 && pl.mn[i].ann > 0 && verifDiffGCD(pl.mn[i].v, um) == 1 {
				pl.mn[i].um = um
			}
		}
		for i := range pl.mi {
			um := pl.mm[rng.Intn(KM)].v
			if rng.Intn(2) == 0 && um > 1 && pl.mi[i].abs.ann > 0 && verifDiffGCD(pl.mi[i].abs.v, um) == 1 {
				pl.mi[i].abs.um = um
			}
		}
		verifEscaped, verifEscapedInv = 0, 0
		if err := pl.compare(fmt.Sprintf("seq %d init", seq)); err != nil {
			t.Fatal(err)
		}
		for step := 0; step < 24; step++ {
			op := rng.Intn(len(opNames))
			z, x, y := rng.Intn(KN), rng.Intn(KN), rng.Intn(KN)
			iz, ix, iy := rng.Intn(KI), rng.Intn(KI), rng.Intn(KI)
			mz := rng.Intn(KM)
			c, sh, v := verifDiffCap(rng), verifDiffShift(rng), verifDiffValue(rng)
			yes := saferith.Choice(rng.Intn(2))
			bi := rng.Intn(12) - 1
			var realOut, modelOut []uint64
			var realF, modelF func()
			N, M, I, J, Q, W := pl.rn, pl.mn, pl.ri, pl.mi, pl.rm, pl.mm
			switch opNames[op] {
			case "Nat.SetUint64":
				realF = func() { N[z].SetUint64(v) }
				modelF = func() { verifMNatSetUint64(M[z], v) }
			case "Nat.SetNat":
				realF = func() { N[z].SetNat(N[x]) }
				modelF = func() { verifMNatSetNat(M[z], M[x]) }
			case "Nat.Clone":
				realF = func() { N[z] = N[x].Clone() }
				modelF = func() { n := &verifMNat{}; verifMNatSetNat(n, M[x]); M[z] = n }
			case "Nat.Resize":
				realF = func() { N[z].Resize(c) }
				modelF = func() {
					verifMNatResize(M[z], c)
					if broken && c == 3 {
						M[z].v |= 8
					}
				}
			case "Nat.Byte":
				realF = func() { realOut = []uint64{uint64(N[z].Byte(bi))} }
				modelF = func() { modelOut = []uint64{uint64(verifMNatByte(M[z], bi))} }
			case "Nat.Cmp":
				realF = func() { a, b, c := N[z].Cmp(N[x]); realOut = []uint64{uint64(a), uint64(b), uint64(c)} }
				modelF = func() { a, b, c := verifMNatCmp(M[z], M[x]); modelOut = []uint64{uint64(a), uint64(b), uint64(c)} }
			case "Nat.Eq":
				realF = func() { realOut = []uint64{uint64(N[z].Eq(N[x]))} }
				modelF = func() { _, e, _ := verifMNatCmp(M[z], M[x]); modelOut = []uint64{uint64(e)} }
			case "Nat.EqZero":
				realF = func() { realOut = []uint64{uint64(N[z].EqZero())} }
				modelF = func() { modelOut = []uint64{verifB2U(M[z].v == 0)} }
			case "Nat.CondAssign":
				realF = func() { N[z].CondAssign(yes, N[x]) }
				modelF = func() { verifMNatCondAssign(M[z], yes, M[x]) }
			case "Nat.Add":
				realF = func() { N[z].Add(N[x], N[y], c) }
				modelF = func() { verifMNatAdd(M[z], M[x], M[y], c) }
			case "Nat.Sub":
				realF = func() { N[z].Sub(N[x], N[y], c) }
				modelF = func() { verifMNatSub(M[z], M[x], M[y], c) }
			case "Nat.Mul":
				realF = func() { N[z].Mul(N[x], N[y], c) }
				modelF = func() { verifMNatMul(M[z], M[x], M[y], c) }
			case "Nat.Lsh":
				realF = func() { N[z].Lsh(N[x], sh, c) }
				modelF = func() { verifMNatLsh(M[z], M[x], sh, c) }
			case "Nat.Div":
				realF = func() { N[z].Div(N[x], Q[mz], c) }
				modelF = func() { verifMNatDiv(M[z], M[x], W[mz], c) }
			case "Nat.Mod":
				realF = func() { N[z].Mod(N[x], Q[mz]) }
				modelF = func() { verifMNatMod(M[z], M[x], W[mz]) }
			case "Nat.ModMul":
				realF = func() { N[z].ModMul(N[x], N[y], Q[mz]) }
				modelF = func() { verifMNatModMul(M[z], M[x], M[y], W[mz]) }
			case "ModulusFromNat":
				realF = func() { Q[mz] = saferith.ModulusFromNat(N[x]) }
				modelF = func() { m := &verifMMod{}; verifMModFromNat(m, M[x]); W[mz] = m }
			case "Modulus.Nat":
				realF = func() { N[z] = Q[mz].Nat() }
				modelF = func() { M[z] = &verifMNat{v: W[mz].v, ann: W[mz].bits, red: W[mz].natRed, lb: W[mz].v, ub: W[mz].v} }
			case "Int.SetNat":
				realF = func() { I[iz].SetNat(N[x]) }
				modelF = func() { J[iz].neg = 0; verifMNatSetNat(&J[iz].abs, M[x]) }
			case "Int.SetInt":
				realF = func() { I[iz].SetInt(I[ix]) }
				modelF = func() { s := J[ix].neg; verifMNatSetNat(&J[iz].abs, &J[ix].abs); J[iz].neg = s }
			case "Int.SetUint64":
				realF = func() { I[iz].SetUint64(v) }
				modelF = func() { J[iz].neg = 0; verifMNatSetUint64(&J[iz].abs, v) }
			case "Int.Clone":
				realF = func() { I[iz] = I[ix].Clone() }
				modelF = func() { n := &verifMInt{neg: J[ix].neg}; verifMNatSetNat(&n.abs, &J[ix].abs); J[iz] = n }
			case "Int.Resize":
				realF = func() { I[iz].Resize(c) }
				modelF = func() { verifMNatResize(&J[iz].abs, c) }
			case "Int.Abs":
				realF = func() { N[z] = I[ix].Abs() }
				modelF = func() { n := &verifMNat{}; verifMNatSetNat(n, &J[ix].abs); M[z] = n }
			case "Int.Neg":
				realF = func() { I[iz].Neg(yes) }
				modelF = func() { J[iz].neg ^= yes }
			case "Int.Add":
				realF = func() { I[iz].Add(I[ix], I[iy], c) }
				modelF = func() { verifMIntAdd(J[iz], J[ix], J[iy], c) }
			case "Int.Mul":
				realF = func() { I[iz].Mul(I[ix], I[iy], c) }
				modelF = func() { verifMIntMul(J[iz], J[ix], J[iy], c) }
			case "Int.Eq":
				realF = func() { realOut = []uint64{uint64(I[iz].Eq(I[ix]))} }
				modelF = func() { modelOut = []uint64{uint64(verifMIntEq(J[iz], J[ix]))} }
			case "Nat.ModAdd":
				realF = func() { N[z].ModAdd(N[x], N[y], Q[mz]) }
				modelF = func() { verifMNatModAdd(M[z], M[x], M[y], W[mz]) }
			case "Nat.ModSub":
				realF = func() { N[z].ModSub(N[x], N[y], Q[mz]) }
				modelF = func() { verifMNatModSub(M[z], M[x], M[y], W[mz]) }
			case "Nat.ModNeg":
				realF = func() { N[z].ModNeg(N[x], Q[mz]) }
				modelF = func() { verifMNatModNeg(M[z], M[x], W[mz]) }
			case "Nat.Exp":
				realF = func() { N[z].Exp(N[x], N[y], Q[mz]) }
				modelF = func() { verifMNatExp(M[z], M[x], M[y], W[mz]) }
			case "Nat.ExpI":
				realF = func() { N[z].ExpI(N[x], I[ix], Q[mz]) }
				modelF = func() { verifMNatExpI(M[z], M[x], J[ix], W[mz]) }
			case "Nat.ModInverse":
				realF = func() { N[z].ModInverse(N[x], Q[mz]) }
				modelF = func() { verifMNatModInverse(M[z], M[x], W[mz]) }
			case "Nat.Coprime":
				realF = func() { realOut = []uint64{uint64(N[z].Coprime(N[x]))} }
				modelF = func() {
					if M[x].v>>32 != 0 { // the model factors the second operand by trial division
						verifMEscapeIf(true)
						return
					}
					modelOut = []uint64{uint64(verifMNatCoprime(M[z], M[x]))}
				}
			case "Nat.IsUnit":
				realF = func() { realOut = []uint64{uint64(N[z].IsUnit(Q[mz]))} }
				modelF = func() {
					if W[mz].v>>32 != 0 {
						verifMEscapeIf(true)
						return
					}
					modelOut = []uint64{uint64(verifMNatCoprime(M[z], &verifMNat{v: W[mz].v, ann: W[mz].bits, lb: W[mz].v, ub: W[mz].v}))}
				}
			case "Nat.CmpMod":
				realF = func() { a, b, c := N[z].CmpMod(Q[mz]); realOut = []uint64{uint64(a), uint64(b), uint64(c)} }
				modelF = func() {
					a, b, c := verifMNatCmp(M[z], &verifMNat{v: W[mz].v, ann: W[mz].bits, lb: W[mz].v, ub: W[mz].v})
					modelOut = []uint64{uint64(a), uint64(b), uint64(c)}
				}
			case "Nat.Bytes":
				realF = func() {
					for _, b := range N[z].Bytes() {
						realOut = append(realOut, uint64(b))
					}
				}
				modelF = func() {
					for _, b := range verifMBytes(M[z].v, M[z].ann) {
						modelOut = append(modelOut, uint64(b))
					}
				}
			case "Modulus.Bytes":
				realF = func() {
					for _, b := range Q[mz].Bytes() {
						realOut = append(realOut, uint64(b))
					}
				}
				modelF = func() {
					for _, b := range verifMBytes(W[mz].v, W[mz].bits) {
						modelOut = append(modelOut, uint64(b))
					}
				}
			case "Int.Mod":
				realF = func() { N[z] = I[ix].Mod(Q[mz]) }
				modelF = func() { n := &verifMNat{}; verifMIntMod(n, J[ix], W[mz]); M[z] = n }
			case "Int.SetModSymmetric":
				realF = func() { I[iz].SetModSymmetric(N[x], Q[mz]) }
				modelF = func() { verifMIntSetModSymmetric(J[iz], M[x], W[mz]) }
			case "Nat.Uint64/TrueLen/AnnouncedLen":
				realF = func() { realOut = []uint64{N[z].Uint64(), uint64(N[z].TrueLen()), uint64(N[z].AnnouncedLen())} }
				modelF = func() { modelOut = []uint64{M[z].v, uint64(verifMNatTrueLen(M[z])), uint64(M[z].ann)} }
			}
			where := fmt.Sprintf("seed %d seq %d step %d %s(z=%d x=%d y=%d iz=%d ix=%d iy=%d m=%d cap=%d shift=%d v=%#x yes=%d byte=%d)",
				seed, seq, step, opNames[op], z, x, y, iz, ix, iy, mz, c, sh, v, yes, bi)
			where += " before: " + pl.dump()
			mp := verifDiffCall(modelF)
			steps[op]++
			if verifEscaped != 0 || verifEscapedInv != 0 {
				// outside the model's domain: the real operation is not run, nothing is compared
				escapes[op]++
				break
			}
			rp := verifDiffCall(realF)
			if (rp != nil) != (mp != nil) {
				t.Fatalf("%s: panic mismatch: real %v, model %v", where, rp, mp)
			}
			if rp != nil {
				panics[op]++
				break // objects may be half-updated on both sides
			}
			if fmt.Sprint(realOut) != fmt.Sprint(modelOut) {
				t.Fatalf("%s: result: real %v, model %v", where, realOut, modelOut)
			}
			if err := pl.compare(where); err != nil {
				t.Fatal(err)
			}
			compared++
		}
	}
	for i, n := range opNames {
		t.Logf("%-34s steps %7d  both-panicked %6d  model-left-domain %6d", n, steps[i], panics[i], escapes[i])
	}
	t.Logf("sequences %d, steps fully compared %d, seed %d", seqs, compared, seed)
}

// TestVerifSaferithModelNumct validates the four numct-level contracts of zz_verif_sfmodel_ext.go
// against the real numct functions: the contracts are run natively on ghost records registered for
// the real objects, the real functions on the objects themselves.
func TestVerifSaferithModelNumct(t *testing.T) {
	rng := rand.New(rand.NewSource(20260923))
	reg := func(n *numct.Nat, v uint64, ann int) {
		if verifNatTab == nil {
			verifNatTab = map[*saferith.Nat]*verifMNat{}
		}
		r := &verifMNat{}
		verifMNatSetUint64(r, v)
		verifMNatResize(r, ann)
		verifNatTab[(*saferith.Nat)(n)] = r
	}
	mk := func(v uint64, ann int) *numct.Nat {
		n := (*numct.Nat)(new(saferith.Nat).SetUint64(v).Resize(ann))
		reg(n, v, ann)
		return n
	}
	mkMod := func(v uint64) *numct.Modulus {
		src := new(saferith.Nat).SetUint64(v).Resize(64)
		m := saferith.ModulusFromNat(src)
		if verifModTab == nil {
			verifModTab = map[*saferith.Modulus]*verifMMod{}
		}
		r := &verifMMod{}
		ms := &verifMNat{}
		verifMNatSetUint64(ms, v)
		verifMModFromNat(r, ms)
		verifModTab[m] = r
		return (*numct.ModulusBasic)(m)
	}
	// IsProbablyPrime: every value below 2^12 and random ones below 2^31
	for i := 0; i < 6000; i++ {
		v := uint64(i)
		if i >= 4096 {
			v = uint64(rng.Int31())
		}
		n := mk(v, 32)
		if got, want := verifCNumctIsProbablyPrime(n), n.IsProbablyPrime(); got != want {
			t.Fatalf("IsProbablyPrime(%d): model %d, real %d", v, got, want)
		}
	}
	// modInvEven (through ModInv on an even modulus), ModI, Set
	n1, n2, n3 := 0, 0, 0
	for i := 0; i < 20000; i++ {
		verifEscaped, verifEscapedInv = 0, 0
		mv := uint64(rng.Intn(1<<uint(1+rng.Intn(15)))+1) * 2
		xv := uint64(rng.Intn(1 << uint(1+rng.Intn(17))))
		m := mkMod(mv)
		x := mk(xv, 1+rng.Intn(40))
		outR, outM := mk(77, 64), mk(77, 64)
		okR := m.ModInv(outR, x)
		okM := verifCNumctModInvEven(m, outM, x)
		if verifEscaped == 0 && verifEscapedInv == 0 {
			n1++
			rec := verifNatTab[(*saferith.Nat)(outM)]
			if okR != okM || (okR == ct.True && ((*saferith.Nat)(outR).Uint64() != rec.v || (*saferith.Nat)(outR).AnnouncedLen() != rec.ann)) {
				t.Fatalf("modInvEven(x=%d, m=%d): real ok=%d out=%d/%d, model ok=%d out=%d/%d", xv, mv, okR, (*saferith.Nat)(outR).Uint64(), (*saferith.Nat)(outR).AnnouncedLen(), okM, rec.v, rec.ann)
			}
		}
		// ModI on any modulus
		verifEscaped, verifEscapedInv = 0, 0
		mv2 := uint64(rng.Intn(1<<uint(1+rng.Intn(16)))) + 1
		m2 := mkMod(mv2)
		iv, neg := uint64(rng.Intn(1<<uint(1+rng.Intn(30)))), saferith.Choice(rng.Intn(2))
		ri := new(saferith.Int).SetUint64(iv).Neg(neg)
		if verifIntTab == nil {
			verifIntTab = map[*saferith.Int]*verifMInt{}
		}
		mi := &verifMInt{neg: neg}
		verifMNatSetUint64(&mi.abs, iv)
		verifIntTab[ri] = mi
		oR, oM := mk(5, 64), mk(5, 64)
		m2.ModI(oR, (*numct.Int)(ri))
		verifCNumctModI(m2, oM, (*numct.Int)(ri))
		if verifEscaped == 0 && verifEscapedInv == 0 {
			n2++
			rec := verifNatTab[(*saferith.Nat)(oM)]
			if (*saferith.Nat)(oR).Uint64() != rec.v || (*saferith.Nat)(oR).AnnouncedLen() != rec.ann {
				t.Fatalf("ModI(%d*(-1)^%d mod %d): real %d/%d, model %d/%d", iv, neg, mv2, (*saferith.Nat)(oR).Uint64(), (*saferith.Nat)(oR).AnnouncedLen(), rec.v, rec.ann)
			}
		}
		// Set
		var dst numct.ModulusBasic
		dst.Set(m2)
		verifCNumctModulusSet(&dst, m2)
		rec := verifModTab[(*saferith.Modulus)(&dst)]
		if dst.BitLen() != rec.bits || dst.Nat().Uint64() != rec.v {
			t.Fatalf("Modulus.Set(%d): real %d/%d, model %d/%d", mv2, dst.Nat().Uint64(), dst.BitLen(), rec.v, rec.bits)
		}
		n3++
		if i%512 == 0 { // keep the ghost tables small
			verifNatTab, verifIntTab, verifModTab = nil, nil, nil
		}
	}
	t.Logf("compared: modInvEven %d, ModI %d, Set %d", n1, n2, n3)
}
