//go:build verif_e1

package paillier

import (
	"math/bits"

	"github.com/cronokirby/saferith"

	"github.com/bronlabs/bron-crypto/pkg/base/ct"
	"github.com/bronlabs/bron-crypto/pkg/base/nt/numct"
)

// Extension of the saferith model of zz_verif_sfmodel.go (a copy of harness/e1/numctdiv's, package
// name changed, ModMul widened) by the MODULAR operations Paillier needs:
//
//	Nat.ModAdd / ModSub / ModNeg      (x mod m) +- (y mod m) mod m; announced = bit length of m; reduced by m
//	Nat.Exp(x, y, m)                  x^y mod m, m odd (an even modulus leaves the model: saferith's
//	                                  expEven is only reached through numct for m even, which numct
//	                                  routes to math/big); square-and-multiply (right to left) over
//	                                  the 64 bits of the exponent's limb (a concrete loop bound, a
//	                                  branch-free body; bits that are syntactically zero cost nothing); an exponent without limbs
//	                                  (announced <= 0) gives 1 mod m
//	Nat.ModInverse(x, m)              the inverse of x mod m for a unit x (m odd): x^(lambda(m)-1) mod m,
//	                                  lambda computed from the concrete m; x not a unit: the model is
//	                                  left (saferith returns garbage) - recorded in verifEscapedInv
//	Nat.ExpI(x, i, m)                 the literal composition Exp(|i|), ModInverse, CondAssign(sign)
//	Nat.Coprime(y) / IsUnit(m)        gcd = 1, the SECOND operand factored by trial division (it is a
//	                                  concrete modulus / prime on every route here); both without limbs: 0
//	Int.Mod(m), Int.SetModSymmetric   as saferith (SetModSymmetric(0) is MINUS zero, as in saferith)
//	Nat.CmpMod, Nat.Bytes, Modulus.Bytes
//
// and, one level up (numct routes that go through math/big or copy saferith structs by value):
//
//	(*numct.Nat).IsProbablyPrime      trial division on the model value
//	(*numct.ModulusBasic).modInvEven  x != 0 and gcd(x, m) = 1, then the inverse, announced with BitLen(m)
//	(*numct.ModulusBasic).ModI        value of saferith Int.Mod, model record copied (the real one
//	                                  assigns a saferith.Nat struct by value)
//	(*numct.ModulusBasic).Set         model record copied (`*m = *v` in the real code)
//
// Multiplication of residues: 32-bit arithmetic for m < 2^16, 64-bit for m < 2^32; anything larger
// leaves the model (verifEscaped). All of this is validated natively against the real saferith / numct
// by TestVerifSaferithModel (zz_verif_sfmodel_test.go).

// verifMMulMod: a * b mod m for a, b < m.
func verifMMulMod(a, b, m uint64) uint64 {
	if m>>16 == 0 {
		// the mask keeps the high bits of the residue SYNTACTICALLY zero, so that the next multiplier
		// and divider are bit-blasted at the width of the modulus rather than at 32 bits
		mask := uint64(1)<<uint(bits.Len64(m)) - 1
		return uint64(uint32(a&mask)*uint32(b&mask)%uint32(m)) & mask
	}
	verifMEscapeIf(m>>32 != 0)
	return a * b % m
}

// verifMRed: the residue of a Nat record modulo m (the value seen by saferith's Mod).
func verifMRed(x *verifMNat, m *verifMMod) uint64 {
	v, _, _ := verifMRedB(x, m)
	return v
}

// verifMRedB: the same with the bounds of the result.
func verifMRedB(x *verifMNat, m *verifMMod) (v, lb, ub uint64) {
	if x.ann <= 0 {
		if x.ann < 0 { // a negative announced length: saferith's modular operations misbehave, not modelled
			verifMEscapeIf(true)
		}
		return 0, 0, 0
	}
	if x.ub < m.v { // bounded below the modulus: the division cannot change the value
		return x.v, x.lb, x.ub
	}
	if x.red != nil && x.red.v == m.v { // marked reduced by (a modulus equal to) m: already < m
		return x.v, 0, m.v - 1
	}
	if (x.ub|m.v)>>32 != 0 {
		verifMEscapeIf(x.v>>32 != 0)
		verifMEscapeIf(m.v>>32 != 0)
	}
	return uint64(uint32(x.v)%uint32(m.v)) & (uint64(1)<<uint(bits.Len64(m.v)) - 1), 0, m.v - 1
}

func verifMNatModAdd(z, x, y *verifMNat, m *verifMMod) {
	if x.ann <= 0 || y.ann <= 0 { // saferith's ModAdd / ModSub dereference nil on an operand without limbs
		verifMEscapeIf(true)
	}
	a, b := verifMRed(x, m), verifMRed(y, m)
	s := a + b
	z.v, z.ann, z.red, z.lb, z.ub, z.um = verifIteU64(s >= m.v, s-m.v, s), m.bits, m, 0, m.v-1, 0
}

func verifMNatModSub(z, x, y *verifMNat, m *verifMMod) {
	if x.ann <= 0 || y.ann <= 0 {
		verifMEscapeIf(true)
	}
	a, b := verifMRed(x, m), verifMRed(y, m)
	z.v, z.ann, z.red, z.lb, z.ub, z.um = verifIteU64(a >= b, a-b, a+m.v-b), m.bits, m, 0, m.v-1, 0
}

func verifMNatModNeg(z, x *verifMNat, m *verifMMod) {
	um := uint64(0)
	if verifMUnitFor(x, m.v) && x.ann > 0 {
		um = m.v
	}
	a := verifMRed(x, m)
	z.v, z.ann, z.red, z.lb, z.ub, z.um = verifIteU64(a == 0, 0, m.v-a), m.bits, m, 0, m.v-1, um
}

func verifMNatExp(z, x, y *verifMNat, m *verifMMod) {
	if m.v&1 == 0 || m.v>>32 != 0 {
		verifMEscapeIf(true) // saferith's expEven: not modelled; residues are multiplied in 64 bits
		return
	}
	um := uint64(0)
	if verifMUnitFor(x, m.v) && x.ann > 0 {
		um = m.v
	}
	b := verifMRed(x, m)
	// saferith walks over every LIMB of the exponent: for a value below 2^64 that is all 64 bits of
	// the low limb when the exponent has a limb at all (bits above the announced length, which Lsh can
	// leave behind, count), and nothing otherwise
	e, n := y.v, 0
	if y.ann > 0 {
		n = 64
	}
	// right-to-left binary method: for a concrete base the squares are concrete, and bit positions of
	// the exponent that are syntactically zero cost nothing
	acc, sq := uint64(1)%m.v, b
	for i := 0; i < n; i++ {
		acc = verifIteU64((e>>uint(i))&1 == 1, verifMMulMod(acc, sq, m.v), acc)
		if i+1 < n {
			sq = verifMMulMod(sq, sq, m.v)
		}
	}
	z.v, z.ann, z.red, z.lb, z.ub, z.um = acc, m.bits, m, 0, m.v-1, um
}

// verifMPrimeFactors: the distinct prime factors of a CONCRETE v >= 2 (a symbolic v would fork
// without bound and end the harness `inconclusive`).
func verifMPrimeFactors(v uint64) []uint64 {
	var fs []uint64
	for d := uint64(2); d*d <= v; d++ {
		if v%d == 0 {
			fs = append(fs, d)
			for v%d == 0 {
				v /= d
			}
		}
	}
	if v > 1 {
		fs = append(fs, v)
	}
	return fs
}

// verifMCoprimeTo: gcd(x, c) == 1 for a concrete c (branch-free in x).
func verifMCoprimeTo(x, c uint64) bool {
	if c == 0 {
		return x == 1
	}
	if c>>32 != 0 { // not factored by trial division
		verifMEscapeIf(true)
		return false
	}
	verifMEscapeIf(x>>32 != 0)
	ok := uint64(1)
	for _, f := range verifMPrimeFactors(c) {
		verifMEscapeIf(f>>32 != 0)
		ok &= verifB2U(uint32(x)%uint32(f) != 0)
	}
	return ok == 1
}

// verifMInverse: the inverse of the unit x (reduced) modulo an odd m: x^(lambda(m)-1) mod m, a
// FUNCTION of x (no solver value, no assumption), so that two routes which invert the same number
// get the same term and "inverse times x = 1" is a statement the solver checks (H_paillier_opinv)
// instead of one it is given. lambda is computed from the concrete m.
func verifMInverse(x, m uint64) uint64 {
	if m == 1 {
		return 0
	}
	return verifMPowMod(x, verifMCarmichael(m)-1, m)
}

// verifMInverseEuclid: extended Euclid on CONCRETE operands (modInvEven: inverses modulo p-1, q-1
// while the key is built).
func verifMInverseEuclid(x, m uint64) uint64 {
	if m == 1 {
		return 0
	}
	a, b := int64(x%m), int64(m)
	u, v := int64(1), int64(0)
	for b != 0 {
		q := a / b
		a, b = b, a-q*b
		u, v = v, u-q*v
	}
	if u < 0 {
		u += int64(m)
	}
	return uint64(u)
}

// verifMCarmichael: lambda(m) for a concrete odd m > 1 (lcm of p^(e-1) (p-1) over the prime powers).
func verifMCarmichael(m uint64) uint64 {
	l := uint64(1)
	for _, p := range verifMPrimeFactors(m) {
		t := p - 1
		for q := m / p; q%p == 0; q /= p {
			t *= p
		}
		g, a, b := uint64(0), l, t
		for b != 0 {
			a, b = b, a%b
		}
		g = a
		l = l / g * t
	}
	return l
}

// verifMPowMod: x^e mod m for a concrete exponent e (right to left, branch-free in x).
func verifMPowMod(x, e, m uint64) uint64 {
	acc, sq := uint64(1)%m, x
	for ; e != 0; e >>= 1 {
		if e&1 == 1 {
			acc = verifMMulMod(acc, sq, m)
		}
		if e>>1 != 0 {
			sq = verifMMulMod(sq, sq, m)
		}
	}
	return acc
}

func verifMNatModInverse(z, x *verifMNat, m *verifMMod) {
	if m.v&1 == 0 {
		verifMEscapeIf(true) // modInverseEven: not modelled (numct never calls it)
		return
	}
	if x.ann <= 0 { // saferith panics ("invert: mismatched arguments") on an operand without limbs
		verifMEscapeIf(true)
	}
	if m.v>>32 != 0 {
		verifMEscapeIf(true)
		return
	}
	if x.red == m && (x.ann+63)>>6 != (m.bits+63)>>6 {
		// Mod copies an operand already marked reduced by m, limbs and all; invert then refuses
		panic("invert: mismatched arguments")
	}
	known := verifMUnitFor(x, m.v)
	a := verifMRed(x, m)
	unit := true
	if !known {
		unit = verifMCoprimeTo(a, m.v)
		verifEscapedInv |= verifB2U(!unit) // for a non-unit the value is irrelevant: the model has been left
	}
	um := uint64(0)
	if known {
		um = m.v
	}
	z.v, z.ann, z.red, z.lb, z.ub, z.um = verifMInverse(a, m.v), m.bits, m, 0, m.v-1, um
}

func verifMNatExpI(z, x *verifMNat, i *verifMInt, m *verifMMod) {
	if m.v&1 == 0 || m.v>>32 != 0 {
		verifMEscapeIf(true)
		return
	}
	verifMEscapeIf(i.neg > 1)
	// saferith computes the inverse of the power unconditionally and selects; a power that is not a
	// unit matters only for a negative exponent. The power of a unit is a unit and the power of a
	// non-unit is not (except the zeroth), so the test is made on the BASE, where a harness that
	// assumed "the base is a unit" finds it decided.
	unit := true
	if !(verifMUnitFor(x, m.v) && x.ann > 0) {
		unit = verifMCoprimeTo(verifMRed(x, m), m.v)
	}
	verifMNatExp(z, x, &i.abs, m)
	verifEscapedInv |= (1 ^ verifB2U(unit)) & verifB2U(i.neg == 1)
	if i.neg == 0 { // (concrete in every harness: the sign of a scalar is a fork) the inverse is discarded
		return
	}
	inv := verifMInverse(z.v, m.v)
	z.v = verifIteU64(i.neg == 1, inv, z.v)
}

func verifMNatCoprime(x, y *verifMNat) saferith.Choice {
	if verifMMaxAnn(x, y) <= 0 {
		return 0
	}
	if x.ann > 0 && y.ann > 0 && y.lb == y.ub && y.lb > 1 && verifMUnitFor(x, y.lb) {
		return 1 // decided by the mark (y is a known constant)
	}
	xv, yv := x.v, y.v
	if x.ann <= 0 {
		xv = 0
	}
	if y.ann <= 0 {
		yv = 0
	}
	return verifMChoice(verifMCoprimeTo(xv, yv))
}

// verifMIntMod, verifMIntSetModSymmetric: the literal compositions of saferith (Mod keeps the announced
// length of an operand that is already marked reduced by the same Modulus object, so the announced
// length of the result is a maximum).
func verifMIntMod(out *verifMNat, z *verifMInt, m *verifMMod) {
	verifMNatMod(out, &z.abs, m)
	neg := &verifMNat{}
	verifMNatModNeg(neg, out, m)
	verifMNatCondAssign(out, z.neg, neg)
}

func verifMIntSetModSymmetric(z *verifMInt, x *verifMNat, m *verifMMod) {
	verifMNatMod(&z.abs, x, m)
	neg := &verifMNat{}
	verifMNatModNeg(neg, &z.abs, m)
	gt, _, _ := verifMNatCmp(neg, &z.abs)
	negLeq := 1 ^ gt
	verifMNatCondAssign(&z.abs, negLeq, neg)
	z.neg = negLeq
}

// ---------------------------------------------------------------------------------------------
// contracts
// ---------------------------------------------------------------------------------------------

func verifCNatModAdd(z, x, y *saferith.Nat, m *saferith.Modulus) *saferith.Nat {
	verifMNatModAdd(verifNatRec(z), verifNatRec(x), verifNatRec(y), verifModRec(m))
	return z
}
func verifCNatModSub(z, x, y *saferith.Nat, m *saferith.Modulus) *saferith.Nat {
	verifMNatModSub(verifNatRec(z), verifNatRec(x), verifNatRec(y), verifModRec(m))
	return z
}
func verifCNatModNeg(z, x *saferith.Nat, m *saferith.Modulus) *saferith.Nat {
	verifMNatModNeg(verifNatRec(z), verifNatRec(x), verifModRec(m))
	return z
}

// verifEscapedInv (ghost): like verifEscaped, for one cause only - ModInverse / ExpI with a negative
// exponent was handed a number that is not (known or provably) a unit. Kept apart because
// OddPrimeSquareFactors.ModExpI inverts the power unconditionally and discards the inverse for a
// non-negative exponent: a harness with a non-negative symbolic scalar may leave this flag out of
// its exactness obligation (and says so); every other harness asserts both flags.
var verifEscapedInv uint64

// ghost log of the exponentiations (modulus, reduced base, exponent), switched on by a harness
type verifExpRec struct{ m, b, e uint64 }

var (
	verifExpLog   []verifExpRec
	verifExpLogOn bool
)

func verifCNatExp(z, x, y *saferith.Nat, m *saferith.Modulus) *saferith.Nat {
	if verifExpLogOn {
		mr, yr := verifModRec(m), verifNatRec(y)
		ev := yr.v
		if yr.ann <= 0 {
			ev = 0
		}
		verifExpLog = append(verifExpLog, verifExpRec{m: mr.v, b: verifMRed(verifNatRec(x), mr), e: ev})
	}
	verifMNatExp(verifNatRec(z), verifNatRec(x), verifNatRec(y), verifModRec(m))
	return z
}
func verifCNatExpI(z, x *saferith.Nat, i *saferith.Int, m *saferith.Modulus) *saferith.Nat {
	verifMNatExpI(verifNatRec(z), verifNatRec(x), verifIntRec(i), verifModRec(m))
	return z
}
func verifCNatModInverse(z, x *saferith.Nat, m *saferith.Modulus) *saferith.Nat {
	verifMNatModInverse(verifNatRec(z), verifNatRec(x), verifModRec(m))
	return z
}
func verifCNatCoprime(x, y *saferith.Nat) saferith.Choice {
	return verifMNatCoprime(verifNatRec(x), verifNatRec(y))
}
func verifCNatIsUnit(x *saferith.Nat, m *saferith.Modulus) saferith.Choice {
	r := verifModRec(m)
	return verifMNatCoprime(verifNatRec(x), &verifMNat{v: r.v, ann: r.bits, lb: r.v, ub: r.v})
}
func verifCNatCmpMod(z *saferith.Nat, m *saferith.Modulus) (saferith.Choice, saferith.Choice, saferith.Choice) {
	r := verifModRec(m)
	return verifMNatCmp(verifNatRec(z), &verifMNat{v: r.v, ann: r.bits, lb: r.v, ub: r.v})
}
func verifCIntMod(z *saferith.Int, m *saferith.Modulus) *saferith.Nat {
	out := new(saferith.Nat)
	verifMIntMod(verifNatRec(out), verifIntRec(z), verifModRec(m))
	return out
}
func verifCIntSetModSymmetric(z *saferith.Int, x *saferith.Nat, m *saferith.Modulus) *saferith.Int {
	verifMIntSetModSymmetric(verifIntRec(z), verifNatRec(x), verifModRec(m))
	return z
}

// verifMBytes: saferith's Nat.Bytes - (announced+7)/8 bytes, big endian.
func verifMBytes(v uint64, ann int) []byte {
	if ann < 0 {
		verifMEscapeIf(true) // a negative length reaches makeslice: not modelled
		ann = 0
	}
	out := make([]byte, (ann+7)/8)
	for i := 0; i < len(out) && i < 8; i++ {
		out[len(out)-1-i] = byte(v >> (8 * uint(i)))
	}
	return out
}

func verifCNatBytes(z *saferith.Nat) []byte {
	r := verifNatRec(z)
	return verifMBytes(r.v, r.ann)
}
func verifCModBytes(m *saferith.Modulus) []byte {
	r := verifModRec(m)
	return verifMBytes(r.v, r.bits)
}

// numct level

func verifCNumctIsProbablyPrime(n *numct.Nat) ct.Bool {
	r := verifNatRec((*saferith.Nat)(n))
	v := r.v
	if r.ann <= 0 {
		v = 0
	}
	if v < 2 {
		return ct.False
	}
	for k := uint64(2); k*k <= v; k++ {
		if v%k == 0 {
			return ct.False
		}
	}
	return ct.True
}

func verifCNumctModInvEven(m *numct.ModulusBasic, out, x *numct.Nat) ct.Bool {
	mr := verifModRec((*saferith.Modulus)(m))
	xr := verifNatRec((*saferith.Nat)(x))
	xv := xr.v
	if xr.ann <= 0 {
		xv = 0
	}
	okc := verifMNatCoprime(xr, &verifMNat{v: mr.v, ann: mr.bits, lb: mr.v, ub: mr.v})
	if xv == 0 || okc != 1 { // the real function branches here too (`if ok == ct.True`)
		return ct.False
	}
	verifMEscapeIf(xv>>32 != 0)
	o := verifNatRec((*saferith.Nat)(out))
	o.v, o.ann, o.red, o.lb, o.ub = verifMInverseEuclid(uint64(uint32(xv)%uint32(mr.v)), mr.v), mr.bits, nil, 0, mr.v-1
	return ct.True
}

func verifCNumctModI(m *numct.ModulusBasic, out *numct.Nat, x *numct.Int) {
	verifMIntMod(verifNatRec((*saferith.Nat)(out)), verifIntRec((*saferith.Int)(x)), verifModRec((*saferith.Modulus)(m)))
}

func verifCNumctModulusSet(m, v *numct.ModulusBasic) {
	src := verifModRec((*saferith.Modulus)(v))
	if verifModTab == nil {
		verifModTab = map[*saferith.Modulus]*verifMMod{}
	}
	verifModTab[(*saferith.Modulus)(m)] = &verifMMod{v: src.v, bits: src.bits, natRed: src.natRed}
}

func verifSaferithExtReplacements(m map[string]any) map[string]any {
	const nat = "(*github.com/cronokirby/saferith.Nat)."
	const in = "(*github.com/cronokirby/saferith.Int)."
	const nc = "(*github.com/bronlabs/bron-crypto/pkg/base/nt/numct."
	m[nat+"ModAdd"] = verifCNatModAdd
	m[nat+"ModSub"] = verifCNatModSub
	m[nat+"ModNeg"] = verifCNatModNeg
	m[nat+"Exp"] = verifCNatExp
	m[nat+"ExpI"] = verifCNatExpI
	m[nat+"ModInverse"] = verifCNatModInverse
	m[nat+"Coprime"] = verifCNatCoprime
	m[nat+"IsUnit"] = verifCNatIsUnit
	m[nat+"CmpMod"] = verifCNatCmpMod
	m[nat+"Bytes"] = verifCNatBytes
	m["(*github.com/cronokirby/saferith.Modulus).Bytes"] = verifCModBytes
	m[in+"Mod"] = verifCIntMod
	m[in+"SetModSymmetric"] = verifCIntSetModSymmetric
	m[nc+"Nat).IsProbablyPrime"] = verifCNumctIsProbablyPrime
	m[nc+"ModulusBasic).modInvEven"] = verifCNumctModInvEven
	m[nc+"ModulusBasic).ModI"] = verifCNumctModI
	m[nc+"ModulusBasic).Set"] = verifCNumctModulusSet
	return m
}
