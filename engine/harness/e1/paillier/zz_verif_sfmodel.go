//go:build verif_e1

package paillier

import (
	"math/bits"

	"github.com/cronokirby/saferith"
)

// (Copy of harness/e1/numctdiv/zz_verif_sfmodel.go for package paillier, with three additions that
// never change a value: concrete bounds lb <= v <= ub and "known unit" marks on the Nat records, which
// let the model leave out redundant masks / reductions / coprimality tests and decide comparisons
// that the bounds fix, and a bit-wise select in CondAssign. ModMul and Mod go through verifMRed /
// verifMMulMod of zz_verif_sfmodel_ext.go. Validated natively by zz_verif_sfmodel_test.go.)
//
// A value-level model of github.com/cronokirby/saferith v0.33.0 (Nat, Int, Modulus), installed as
// CONTRACTS (engine feature "replacements") for the saferith methods listed in
// verifSaferithReplacements. saferith is limb loops over assembly kernels (addVV, mulWW, ...; the
// pure-Go variants need the build tag math_big_pure_go, which the library is not built with), so
// it is not interpretable; numct, the package under test, is a thin layer on top of it whose own
// logic is the choice of CAPACITIES (announced lengths) and signs. That logic is what the
// harnesses check, with saferith replaced by this model.
//
// Representation. A saferith object is identified by its address; the model state is kept in
// ghost maps address -> record:
//
//	Nat      (v uint64, ann int)      value and announced length in bits
//	Int      (neg Choice, abs Nat)    sign-magnitude as in saferith (so -0 exists)
//	Modulus  (v uint64, bits int)     value and exact bit length
//
// An address that is not in the table is a zero-value object (value 0, announced length 0) - that
// is what `var x saferith.Nat` is. The model is exact for values < 2^64 ("single significant
// limb"; announced lengths may be anything, also > 64 or <= 0); whenever an operation could leave
// that domain, or is used in a way the model does not cover, the ghost flag verifEscaped is set
// and every harness asserts (verifAssertGhost) that it stayed clear. Struct copies of saferith
// objects (`*a = *b`) are invisible to the model; the routes checked here contain none
// (EuclideanDiv*, Div*, modSqrtPrime were read for that).
//
// What the model reproduces, operation by operation (validated natively against the real saferith
// by TestVerifSaferithModel in zz_verif_sfmodel_test.go: random operation sequences over a pool of
// aliased objects, every object compared after every step, panics compared too):
//
//   - resizedLimbs(bits), the primitive under everything: limbCount(bits) = (bits+63)>>6 limbs,
//     so bits <= 0 gives an empty number (value 0), bits <= -64 PANICS (negative slice bound), and
//     for 1 <= bits <= 64 the top limb of the receiver is masked IN PLACE - also when the receiver
//     is merely an operand (Add/Sub/Mul/Lsh with a capacity below an operand's announced length
//     truncate that operand; verifMResized).
//   - Nat: SetUint64 (ann 64), SetNat, Clone, Resize (truncates modulo 2^cap), AnnouncedLen,
//     TrueLen, Uint64, Byte, EqZero, Cmp, Eq, CondAssign (ann = max), Add/Sub/Mul (result modulo
//     2^cap, default capacities max+1 / max / sum), Lsh (NOT masked to cap inside the top limb, as
//     in saferith), Div (floor(x/m) modulo 2^cap, default capacity x.ann - m.BitLen + 2), Mod,
//     ModMul.
//   - Modulus: ModulusFromNat (bit length = TrueLen, panics for 0), BitLen, Nat.
//   - Int: SetNat, SetInt, SetUint64, Clone, Resize, Abs, IsNegative, AnnouncedLen, TrueLen,
//     Neg (sign ^= choice), Add (two's complement sum, |sum| modulo 2^cap, default capacity
//     max+1), Mul, Eq.
//
// Every other method of saferith.Nat / Int / Modulus is caught by a catch-all key whose contract
// has a deliberately wrong signature, so reaching it is `not-encodable`, never a silent fall-through
// to the real body (which would read the untouched real struct fields).

type verifMNat struct {
	v   uint64
	ann int
	red *verifMMod // saferith's `reduced`: set by Mod/ModMul, copied by SetNat, kept by Resize
	// lb <= v <= ub: bounds the model derives from CONCRETE data only (moduli, capacities, constants;
	// a value that enters through SetUint64 is unbounded: [0, 2^64-1]). They never change a value; they
	// let the model leave out an operation that cannot change it (a reduction of a value already
	// below the modulus, a mask above the value's bound) and decide a comparison whose outcome the
	// bounds fix, which keeps the terms small and removes forks. The zero record is [0,0]. Checked
	// natively (TestVerifSaferithModel compares lb <= real value <= ub after every step).
	lb, ub uint64
	// um > 1: v is known to be coprime to um (a CONCRETE number: a modulus of the key). The mark is put
	// on an input by a harness that assumed the input to be a unit (verifMarkUnit) and is propagated
	// by the operations that preserve it (copy, reduction modulo a divisor of um, modular product /
	// power / inverse / negation of marked operands); every other operation clears it. Like the
	// bounds it never changes a value: it lets ModInverse, ExpI and Coprime skip a coprimality test
	// whose outcome is known - which the solver would otherwise have to re-derive through every
	// multiplication ("a product of units is a unit"). Checked natively (gcd(value, um) = 1 after
	// every step of TestVerifSaferithModel).
	um uint64
}

// verifMUnitFor: x is known to be coprime to m (m divides the mark).
func verifMUnitFor(x *verifMNat, m uint64) bool { return x.um > 1 && m > 0 && x.um%m == 0 }

const verifMaxU = ^uint64(0)

// verifMCapMask: 2^c - 1, the largest value of c bits (c <= 0: 0, c >= 64: 2^64-1).
func verifMCapMask(c int) uint64 {
	if c <= 0 {
		return 0
	}
	if c >= 64 {
		return verifMaxU
	}
	return uint64(1)<<uint(c) - 1
}

type verifMInt struct {
	neg saferith.Choice
	abs verifMNat
}

type verifMMod struct {
	v      uint64
	bits   int
	natRed *verifMMod // the `reduced` mark that ModulusFromNat copied from its argument
}

// ghost state (no initialisers: zero at the start of every path)
var (
	verifNatTab  map[*saferith.Nat]*verifMNat
	verifIntTab  map[*saferith.Int]*verifMInt
	verifModTab  map[*saferith.Modulus]*verifMMod
	verifEscaped uint64 // != 0: the model left its domain of exactness
	verifLenHint int    // see verifConcreteLen
)

// ---------------------------------------------------------------------------------------------
// the mathematics: pure functions on records (shared by the contracts and the native test)
// ---------------------------------------------------------------------------------------------

const verifMNegLimbs = "runtime error: slice bounds out of range (saferith: negative limb count)"

// verifMTrunc: the value of a number whose limbs were cut to `bits` bits.
func verifMTrunc(v uint64, nbits int) uint64 {
	if nbits <= -64 {
		panic(verifMNegLimbs)
	}
	if nbits <= 0 {
		return 0
	}
	if nbits >= 64 {
		return v
	}
	return v & (uint64(1)<<uint(nbits) - 1)
}

// verifMResized: x.resizedLimbs(bits) - returns the value seen through the returned slice and
// applies the in-place masking to x.
func verifMResized(x *verifMNat, nbits int) uint64 {
	if nbits <= -64 {
		panic(verifMNegLimbs)
	}
	if nbits <= 0 {
		return 0
	}
	if x.ann <= 0 { // x has no limbs: the view is fresh zero limbs
		return 0
	}
	if nbits <= 64 {
		if mk := verifMCapMask(nbits); x.ub > mk { // otherwise the mask cannot change the value
			x.v, x.lb, x.ub, x.um = verifMTrunc(x.v, nbits), 0, mk, 0
		}
	}
	return x.v
}

// verifMView: value and bounds of x as seen through resizedLimbs(nbits) (in-place masking applied).
func verifMView(x *verifMNat, nbits int) (v, lb, ub uint64) {
	v = verifMResized(x, nbits)
	if nbits <= 0 || x.ann <= 0 {
		return 0, 0, 0
	}
	return v, x.lb, x.ub
}

// verifMSetTrunc: z = v truncated to c bits, v in [lb, ub].
func verifMSetTrunc(z *verifMNat, v, lb, ub uint64, c int) {
	verifMTrunc(0, c) // the panic for c <= -64
	mk := verifMCapMask(c)
	if ub > mk {
		v, lb, ub = verifMTrunc(v, c), 0, mk
	}
	z.v, z.ann, z.red, z.lb, z.ub, z.um = v, c, nil, lb, ub, 0
}

func verifMMaxAnn(x, y *verifMNat) int {
	if y.ann > x.ann {
		return y.ann
	}
	return x.ann
}

func verifMChoice(c bool) saferith.Choice { return saferith.Choice(verifB2U(c)) }

// verifMEscapeIf records that the model left its domain (branch-free: cond may be symbolic).
func verifMEscapeIf(cond bool) { verifEscaped |= verifB2U(cond) }

func verifMNatSetUint64(z *verifMNat, x uint64) {
	z.v, z.ann, z.red, z.lb, z.ub, z.um = x, 64, nil, 0, verifMaxU, 0
}

func verifMNatSetNat(z, x *verifMNat) {
	if z == x { // z.resizedLimbs(z.announced) masks a value that Lsh left above its announced length
		z.v = verifMResized(z, z.ann)
		return
	}
	v, a, r, lb, ub, um := x.v, x.ann, x.red, x.lb, x.ub, x.um
	verifMTrunc(0, a) // z.resizedLimbs(x.announced): panics for a <= -64
	z.v, z.ann, z.red, z.lb, z.ub, z.um = v, a, r, lb, ub, um
}

func verifMNatResize(z *verifMNat, c int) {
	v, lb, ub := verifMView(z, c) // (clears the mark if the value is cut)
	if c <= 0 {
		z.um = 0
	}
	z.v, z.ann, z.lb, z.ub = v, c, lb, ub
}

func verifMNatTrueLen(z *verifMNat) int { return bits.Len64(z.v) }

func verifMNatByte(z *verifMNat, i int) byte {
	if i < 0 {
		panic("negative byte")
	}
	if z.ann <= 0 || i >= 8 { // no such limb, or an upper limb of a value < 2^64
		return 0
	}
	return byte(z.v >> (8 * uint(i)))
}

func verifMNatCmp(z, x *verifMNat) (gt, eq, lt saferith.Choice) {
	m := verifMMaxAnn(z, x)
	zv, zl, zu := verifMView(z, m)
	xv, xl, xu := verifMView(x, m)
	switch { // decided by the bounds
	case zu < xl:
		return 0, 0, 1
	case zl > xu:
		return 1, 0, 0
	case zl == zu && xl == xu && zl == xl:
		return 0, 1, 0
	}
	return verifMChoice(zv > xv), verifMChoice(zv == xv), verifMChoice(zv < xv)
}

func verifMNatCondAssign(z *verifMNat, yes saferith.Choice, x *verifMNat) {
	verifMEscapeIf(yes > 1)
	m := verifMMaxAnn(z, x)
	xv, xl, xu := verifMView(x, m)
	zv, zl, zu := verifMView(z, m)
	um := z.um
	if x.um != um || x.ann <= 0 || z.ann <= 0 || m <= 0 {
		um = 0
	}
	z.v, z.ann, z.lb, z.ub, z.um = verifMSelectBits(yes == 1, xv, zv), m, min(xl, zl), max(xu, zu), um
	if z.red != x.red {
		z.red = nil
	}
}

// verifMSelectBits: ite(c, a, b), built bit by bit so that a bit position which is syntactically zero
// in both operands stays syntactically zero in the result (the exponentiation loop of
// verifMNatExp folds over leading zero bits of the exponent; numct selects exponents with
// Nat.Select, i.e. CondAssign). Same value as verifIteU64(c, a, b).
func verifMSelectBits(c bool, a, b uint64) uint64 {
	var r uint64
	for i := uint(0); i < 64; i++ {
		r |= verifIteU64(c, (a>>i)&1, (b>>i)&1) << i
	}
	return r
}

func verifMNatAdd(z, x, y *verifMNat, c int) {
	if c < 0 {
		c = verifMMaxAnn(x, y) + 1
	}
	xv, xl, xu := verifMView(x, c)
	yv, yl, yu := verifMView(y, c)
	verifMResized(z, c)
	s, carry := bits.Add64(xv, yv, 0)
	lb, ub := uint64(0), verifMaxU
	if u, over := bits.Add64(xu, yu, 0); over == 0 { // the sum cannot wrap
		lb, ub = xl+yl, u
	} else if c > 64 {
		verifMEscapeIf(carry != 0)
	}
	verifMSetTrunc(z, s, lb, ub, c)
}

func verifMNatSub(z, x, y *verifMNat, c int) {
	if c < 0 {
		c = verifMMaxAnn(x, y)
	}
	xv, xl, xu := verifMView(x, c)
	yv, yl, yu := verifMView(y, c)
	verifMResized(z, c)
	d, borrow := bits.Sub64(xv, yv, 0)
	lb, ub := uint64(0), verifMaxU
	if xl >= yu { // the difference cannot wrap
		lb, ub = xl-yu, xu-yl
	} else if c > 64 {
		verifMEscapeIf(borrow != 0)
	}
	verifMSetTrunc(z, d, lb, ub, c)
}

func verifMNatMul(z, x, y *verifMNat, c int) {
	if c < 0 {
		c = x.ann + y.ann
	}
	if c <= -64 {
		panic("runtime error: makeslice: len out of range")
	}
	xv, xl, xu := verifMView(x, c)
	yv, yl, yu := verifMView(y, c)
	if (xu|yu)>>32 == 0 { // the model multiplies 32-bit operands exactly
		verifMSetTrunc(z, xv*yv, xl*yl, xu*yu, c)
		return
	}
	verifMEscapeIf((xv|yv)>>32 != 0)
	verifMSetTrunc(z, uint64(uint32(xv))*uint64(uint32(yv)), 0, verifMaxU, c)
}

func verifMNatLsh(z, x *verifMNat, shift uint, c int) {
	if c < 0 {
		c = x.ann + int(shift)
	}
	verifMResized(z, c)
	xv, xl, xu := verifMView(x, c)
	var r uint64
	lb, ub := uint64(0), verifMaxU
	if c > 0 && shift < 64 {
		r = xv << shift
		if (xu<<shift)>>shift == xu {
			lb, ub = xl<<shift, xu<<shift
		}
	} else {
		ub = 0
	}
	if c > 64 { // bits that move into the second limb are outside the model
		if shift < 64 {
			verifMEscapeIf(r>>shift != xv)
		} else {
			verifMEscapeIf(xv != 0)
		}
	}
	z.v, z.ann, z.red, z.lb, z.ub, z.um = r, c, nil, lb, ub, 0 // no masking to c inside the top limb (as saferith)
}

func verifMNatDiv(z, x *verifMNat, m *verifMMod, c int) {
	if c < 0 {
		c = x.ann - m.bits + 2
	}
	var q, lb, ub uint64
	if x.ann > 0 {
		if (x.ub|m.v)>>32 != 0 {
			verifMEscapeIf((x.v|m.v)>>32 != 0) // the model divides 32-bit operands
		}
		q = uint64(uint32(x.v) / uint32(m.v))
		lb, ub = x.lb/m.v, x.ub/m.v
	}
	verifMSetTrunc(z, q, lb, ub, c)
}

func verifMNatMod(z, x *verifMNat, m *verifMMod) {
	if x.red == m { // already reduced by this very modulus: saferith copies x (announced length too)
		verifMNatSetNat(z, x)
		return
	}
	// (x marked reduced by another Modulus object of the same value: saferith reduces again, which
	// changes nothing but the announced length; verifMRed skips the division)
	um := uint64(0)
	if verifMUnitFor(x, m.v) && x.ann > 0 { // gcd(x mod m, m) = gcd(x, m)
		um = m.v
	}
	v, lb, ub := verifMRedB(x, m)
	z.v, z.ann, z.red, z.lb, z.ub, z.um = v, m.bits, m, lb, ub, um
}

func verifMNatModMul(z, x, y *verifMNat, m *verifMMod) {
	// widened with respect to harness/e1/numctdiv: see verifMMulMod (zz_verif_sfmodel_ext.go)
	um := uint64(0)
	if verifMUnitFor(x, m.v) && verifMUnitFor(y, m.v) && x.ann > 0 && y.ann > 0 {
		um = m.v
	}
	a, b := verifMRed(x, m), verifMRed(y, m)
	z.v, z.ann, z.red, z.lb, z.ub, z.um = verifMMulMod(a, b, m.v), m.bits, m, 0, m.v-1, um
}

func verifMModFromNat(m *verifMMod, n *verifMNat) {
	m.v, m.bits, m.natRed = n.v, bits.Len64(n.v), n.red
	if m.bits == 0 {
		panic("Modulus is empty")
	}
}

func verifMIntAdd(z, x, y *verifMInt, c int) {
	if c < 0 {
		c = verifMMaxAnn(&x.abs, &y.abs) + 1
	} else if c < x.abs.ann || c < y.abs.ann {
		verifMEscapeIf(true) // explicit capacity below an operand: limb truncation not modelled
	}
	verifMEscapeIf(x.neg > 1)
	verifMEscapeIf(y.neg > 1)
	verifMEscapeIf(x.abs.v>>62 != 0)
	verifMEscapeIf(y.abs.v>>62 != 0)
	if c+1 <= 0 { // no limbs at all
		z.neg = 0
		verifMSetTrunc(&z.abs, 0, 0, 0, c)
		return
	}
	// saferith quirk (int.go, Add): the two's-complement scratch buffers are carved out of the
	// RECEIVER's limbs and an operand with fewer limbs than the buffer is copied without clearing
	// the rest. Inside the model's domain this bites in one case: x has no limbs (announced <= 0)
	// while z has: then z's old low limb is read as |x|.
	xmag := x.abs.v
	if x.abs.ann <= 0 && z.abs.ann >= 1 {
		xmag = z.abs.v
		verifMEscapeIf(xmag>>62 != 0)
	}
	xs := int64(verifIteU64(x.neg == 1, -xmag, xmag))
	ys := int64(verifIteU64(y.neg == 1, -y.abs.v, y.abs.v))
	s := xs + ys
	z.neg = verifMChoice(s < 0)
	verifMSetTrunc(&z.abs, verifIteU64(s < 0, uint64(-s), uint64(s)), 0, verifMaxU, c)
}

func verifMIntMul(z, x, y *verifMInt, c int) {
	z.neg = x.neg ^ y.neg
	verifMNatMul(&z.abs, &x.abs, &y.abs, c)
}

func verifMIntEq(z, x *verifMInt) saferith.Choice {
	zero := verifMChoice(z.abs.v == 0)
	sameSign := zero | (1 ^ z.neg ^ x.neg)
	_, eq, _ := verifMNatCmp(&z.abs, &x.abs)
	return sameSign & eq
}

// ---------------------------------------------------------------------------------------------
// the contracts
// ---------------------------------------------------------------------------------------------

func verifNatRec(p *saferith.Nat) *verifMNat {
	if p == nil {
		panic("runtime error: invalid memory address or nil pointer dereference (*saferith.Nat)")
	}
	if verifNatTab == nil {
		verifNatTab = map[*saferith.Nat]*verifMNat{}
	}
	r, ok := verifNatTab[p]
	if !ok {
		r = &verifMNat{}
		verifNatTab[p] = r
	}
	return r
}

func verifIntRec(p *saferith.Int) *verifMInt {
	if p == nil {
		panic("runtime error: invalid memory address or nil pointer dereference (*saferith.Int)")
	}
	if verifIntTab == nil {
		verifIntTab = map[*saferith.Int]*verifMInt{}
	}
	r, ok := verifIntTab[p]
	if !ok {
		r = &verifMInt{}
		verifIntTab[p] = r
	}
	return r
}

func verifModRec(p *saferith.Modulus) *verifMMod {
	if p == nil {
		panic("runtime error: invalid memory address or nil pointer dereference (*saferith.Modulus)")
	}
	if verifModTab == nil {
		verifModTab = map[*saferith.Modulus]*verifMMod{}
	}
	r, ok := verifModTab[p]
	if !ok {
		// a zero-value Modulus has no limbs; every use of it is outside the model
		verifMEscapeIf(true)
		r = &verifMMod{v: 1, bits: 1}
		verifModTab[p] = r
	}
	return r
}

func verifCNatSetUint64(z *saferith.Nat, x uint64) *saferith.Nat {
	verifMNatSetUint64(verifNatRec(z), x)
	return z
}
func verifCNatUint64(z *saferith.Nat) uint64 { return verifNatRec(z).v }
func verifCNatSetNat(z, x *saferith.Nat) *saferith.Nat {
	verifMNatSetNat(verifNatRec(z), verifNatRec(x))
	return z
}
func verifCNatClone(z *saferith.Nat) *saferith.Nat {
	out := new(saferith.Nat)
	verifMNatSetNat(verifNatRec(out), verifNatRec(z))
	return out
}
func verifCNatResize(z *saferith.Nat, c int) *saferith.Nat {
	verifMNatResize(verifNatRec(z), c)
	return z
}
func verifCNatAnnouncedLen(z *saferith.Nat) int       { return verifNatRec(z).ann }
func verifCNatTrueLen(z *saferith.Nat) int            { return verifConcreteLen(verifMNatTrueLen(verifNatRec(z))) }
func verifCNatByte(z *saferith.Nat, i int) byte       { return verifMNatByte(verifNatRec(z), i) }
func verifCNatEqZero(z *saferith.Nat) saferith.Choice { return verifMChoice(verifNatRec(z).v == 0) }
func verifCNatCmp(z, x *saferith.Nat) (saferith.Choice, saferith.Choice, saferith.Choice) {
	return verifMNatCmp(verifNatRec(z), verifNatRec(x))
}
func verifCNatEq(z, x *saferith.Nat) saferith.Choice {
	_, eq, _ := verifCNatCmp(z, x)
	return eq
}
func verifCNatCondAssign(z *saferith.Nat, yes saferith.Choice, x *saferith.Nat) *saferith.Nat {
	verifMNatCondAssign(verifNatRec(z), yes, verifNatRec(x))
	return z
}
func verifCNatAdd(z, x, y *saferith.Nat, c int) *saferith.Nat {
	verifMNatAdd(verifNatRec(z), verifNatRec(x), verifNatRec(y), c)
	return z
}
func verifCNatSub(z, x, y *saferith.Nat, c int) *saferith.Nat {
	verifMNatSub(verifNatRec(z), verifNatRec(x), verifNatRec(y), c)
	return z
}
func verifCNatMul(z, x, y *saferith.Nat, c int) *saferith.Nat {
	verifMNatMul(verifNatRec(z), verifNatRec(x), verifNatRec(y), c)
	return z
}
func verifCNatLsh(z, x *saferith.Nat, shift uint, c int) *saferith.Nat {
	verifMNatLsh(verifNatRec(z), verifNatRec(x), shift, c)
	return z
}
func verifCNatDiv(z, x *saferith.Nat, m *saferith.Modulus, c int) *saferith.Nat {
	verifMNatDiv(verifNatRec(z), verifNatRec(x), verifModRec(m), c)
	return z
}
func verifCNatMod(z, x *saferith.Nat, m *saferith.Modulus) *saferith.Nat {
	verifMNatMod(verifNatRec(z), verifNatRec(x), verifModRec(m))
	return z
}
func verifCNatModMul(z, x, y *saferith.Nat, m *saferith.Modulus) *saferith.Nat {
	verifMNatModMul(verifNatRec(z), verifNatRec(x), verifNatRec(y), verifModRec(m))
	return z
}

func verifCModulusFromNat(n *saferith.Nat) *saferith.Modulus {
	m := new(saferith.Modulus)
	if verifModTab == nil {
		verifModTab = map[*saferith.Modulus]*verifMMod{}
	}
	r := &verifMMod{}
	verifMModFromNat(r, verifNatRec(n))
	r.bits = verifConcreteLen(r.bits)
	verifModTab[m] = r
	return m
}
func verifCModBitLen(m *saferith.Modulus) int { return verifModRec(m).bits }
func verifCModNat(m *saferith.Modulus) *saferith.Nat {
	out := new(saferith.Nat)
	r := verifModRec(m)
	o := verifNatRec(out)
	o.v, o.ann, o.red, o.lb, o.ub, o.um = r.v, r.bits, r.natRed, r.v, r.v, 0
	return out
}

func verifCIntSetNat(z *saferith.Int, x *saferith.Nat) *saferith.Int {
	r := verifIntRec(z)
	r.neg = 0
	verifMNatSetNat(&r.abs, verifNatRec(x))
	return z
}
func verifCIntSetInt(z, x *saferith.Int) *saferith.Int {
	r, s := verifIntRec(z), verifIntRec(x)
	r.neg = s.neg
	verifMNatSetNat(&r.abs, &s.abs)
	return z
}
func verifCIntSetUint64(z *saferith.Int, x uint64) *saferith.Int {
	r := verifIntRec(z)
	r.neg = 0
	verifMNatSetUint64(&r.abs, x)
	return z
}
func verifCIntClone(z *saferith.Int) *saferith.Int {
	out := new(saferith.Int)
	r, s := verifIntRec(out), verifIntRec(z)
	r.neg = s.neg
	verifMNatSetNat(&r.abs, &s.abs)
	return out
}
func verifCIntResize(z *saferith.Int, c int) *saferith.Int {
	verifMNatResize(&verifIntRec(z).abs, c)
	return z
}
func verifCIntAbs(z *saferith.Int) *saferith.Nat {
	out := new(saferith.Nat)
	verifMNatSetNat(verifNatRec(out), &verifIntRec(z).abs)
	return out
}
func verifCIntIsNegative(z *saferith.Int) saferith.Choice { return verifIntRec(z).neg }
func verifCIntAnnouncedLen(z *saferith.Int) int           { return verifIntRec(z).abs.ann }
func verifCIntTrueLen(z *saferith.Int) int {
	return verifConcreteLen(verifMNatTrueLen(&verifIntRec(z).abs))
}
func verifCIntNeg(z *saferith.Int, doit saferith.Choice) *saferith.Int {
	r := verifIntRec(z)
	r.neg ^= doit
	return z
}
func verifCIntAdd(z, x, y *saferith.Int, c int) *saferith.Int {
	a, b := verifIntRec(x), verifIntRec(y)
	verifMIntAdd(verifIntRec(z), a, b, c)
	return z
}
func verifCIntMul(z, x, y *saferith.Int, c int) *saferith.Int {
	a, b := verifIntRec(x), verifIntRec(y)
	verifMIntMul(verifIntRec(z), a, b, c)
	return z
}
func verifCIntEq(z, x *saferith.Int) saferith.Choice {
	return verifMIntEq(verifIntRec(z), verifIntRec(x))
}

// verifConcreteLen turns a bit length that the path condition determines into a Go constant, so
// that announced lengths stay concrete in the model (capacity arithmetic then costs no forks). The
// harnesses fix the bit lengths they need by assumption; any other feasible value is a fork.
func verifConcreteLen(l int) int {
	if h := verifLenHint; h > 0 && l == h { // set by the harness: the length it fixed by assumption
		return h
	}
	for k := 0; k < 64; k++ {
		if l == k {
			return k
		}
	}
	return 64
}

// verifCUnmodelled has a signature no saferith method has: reaching it is `not-encodable`.
func verifCUnmodelled(_ struct{ unmodelledSaferithFunction int }) {}

func verifSaferithReplacements() map[string]any {
	const nat = "(*github.com/cronokirby/saferith.Nat)."
	const in = "(*github.com/cronokirby/saferith.Int)."
	const mod = "(*github.com/cronokirby/saferith.Modulus)."
	return map[string]any{
		"(*github.com/cronokirby/saferith.*": verifCUnmodelled,
		"github.com/cronokirby/saferith.*":   verifCUnmodelled,

		nat + "SetUint64":    verifCNatSetUint64,
		nat + "Uint64":       verifCNatUint64,
		nat + "SetNat":       verifCNatSetNat,
		nat + "Clone":        verifCNatClone,
		nat + "Resize":       verifCNatResize,
		nat + "AnnouncedLen": verifCNatAnnouncedLen,
		nat + "TrueLen":      verifCNatTrueLen,
		nat + "Byte":         verifCNatByte,
		nat + "EqZero":       verifCNatEqZero,
		nat + "Cmp":          verifCNatCmp,
		nat + "Eq":           verifCNatEq,
		nat + "CondAssign":   verifCNatCondAssign,
		nat + "Add":          verifCNatAdd,
		nat + "Sub":          verifCNatSub,
		nat + "Mul":          verifCNatMul,
		nat + "Lsh":          verifCNatLsh,
		nat + "Div":          verifCNatDiv,
		nat + "Mod":          verifCNatMod,
		nat + "ModMul":       verifCNatModMul,

		"github.com/cronokirby/saferith.ModulusFromNat": verifCModulusFromNat,
		mod + "BitLen": verifCModBitLen,
		mod + "Nat":    verifCModNat,

		in + "SetNat":       verifCIntSetNat,
		in + "SetInt":       verifCIntSetInt,
		in + "SetUint64":    verifCIntSetUint64,
		in + "Clone":        verifCIntClone,
		in + "Resize":       verifCIntResize,
		in + "Abs":          verifCIntAbs,
		in + "IsNegative":   verifCIntIsNegative,
		in + "AnnouncedLen": verifCIntAnnouncedLen,
		in + "TrueLen":      verifCIntTrueLen,
		in + "Neg":          verifCIntNeg,
		in + "Add":          verifCIntAdd,
		in + "Mul":          verifCIntMul,
		in + "Eq":           verifCIntEq,
	}
}
