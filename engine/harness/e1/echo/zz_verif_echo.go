//go:build verif_e1

package echo

import (
	"bytes"
	"errors"

	"github.com/bronlabs/errs-go/errs"

	"github.com/bronlabs/bron-crypto/pkg/base/datastructures/hashmap"
	"github.com/bronlabs/bron-crypto/pkg/base/datastructures/hashset"
	"github.com/bronlabs/bron-crypto/pkg/mpc/sharing"
	"github.com/bronlabs/bron-crypto/pkg/network"
)

// E1 harnesses for pkg/network/echo/rounds.go (property C11 "echo broadcast is consistent").
//
// Three parties: S = 1 (the possibly equivocating broadcaster), A = 2 and B = 3 (honest). The REAL
// Round2 and Round3 of A and B are run on
//
//   - round-1 payloads p_A, p_B (symbolic, lengths 0..2 each) that S claims to broadcast,
//   - the honest round-1 payloads m_A, m_B (1 symbolic byte each) of A and B,
//   - the honest echoes that A and B produce in Round2 for each other,
//   - an ARBITRARY echo from S to A and to B (any digest, or none, for the other honest party).
//
// Contracts used (listed in result.json): serde.UnmarshalCBOR[verifMsg] is reflection-based CBOR;
// it is replaced by verifUnmarshal, which returns an arbitrary (value, error) and counts its calls
// in ghost variables. MarshalCBOR is not reached (Round1 is not run: the round-1 payloads are
// injected directly). SHA3-256 is the engine's byte-log model (functional, NOT injective); the
// one place where collision-freeness is needed states it as an explicit premise.

type verifRcv struct{}

type verifMsg uint8

func (verifMsg) Validate(*verifRcv, sharing.ID) error { return nil }

type verifP = Participant[verifMsg, *verifRcv]
type verifR1 = Round1P2P[verifMsg, *verifRcv]
type verifR2 = Round2P2P[verifMsg, *verifRcv]

const (
	verifS sharing.ID = 1
	verifA sharing.ID = 2
	verifB sharing.ID = 3
)

// ---- contract for serde.UnmarshalCBOR[verifMsg]

var verifErrUnmarshal = errs.New("harness: unmarshal failed")

// ghost state written by the contract
var (
	verifWho        int          // set by the harness: whose Round3 is running (1 = A, 2 = B)
	verifUnmCalls   [3]int       // calls of UnmarshalCBOR per party
	verifUnmData    [3][2][]byte // the first two arguments seen per party
	verifUnmFailAll bool         // set by the harness: make the contract fail (control)
)

func verifUnmarshal(data []byte) (verifMsg, error) {
	if n := verifUnmCalls[verifWho]; n < 2 {
		verifUnmData[verifWho][n] = data
	}
	verifUnmCalls[verifWho]++
	if verifUnmFailAll || verifLen(0, 1) == 1 {
		return 0, verifErrUnmarshal.WithMessage("no")
	}
	return verifMsg(verifU8()), nil
}

func verifReplacements() map[string]any {
	return map[string]any{
		"github.com/bronlabs/bron-crypto/pkg/base/serde.UnmarshalCBOR[...]": verifUnmarshal,
	}
}

// ---- scenario

type verifScenario struct {
	pA, pB, mA, mB []byte
	a, b           *verifP
	echoAtoB       *verifR2 // what A's Round2 produced for B
	echoBtoA       *verifR2
	okR2           bool
}

func verifQuorum() network.Quorum {
	return hashset.NewComparable[sharing.ID](verifS, verifA, verifB).Freeze()
}

func verifR1In(fromS, fromPeer []byte, peer sharing.ID) network.RoundMessages[*verifR1, *verifP] {
	m := hashmap.NewComparable[sharing.ID, *verifR1]()
	m.Put(verifS, &verifR1{Payload: fromS})
	m.Put(peer, &verifR1{Payload: fromPeer})
	return m.Freeze()
}

// verifRun drives A and B through Round2 on the given round-1 payloads.
func verifRun(pA, pB []byte) *verifScenario {
	sc := &verifScenario{pA: pA, pB: pB, mA: verifBytes(1), mB: verifBytes(1)}
	q := verifQuorum()
	var errA, errB error
	sc.a, errA = NewParticipant[verifMsg, *verifRcv](verifA, q)
	sc.b, errB = NewParticipant[verifMsg, *verifRcv](verifB, q)
	if errA != nil || errB != nil {
		return sc
	}
	outA, e1 := sc.a.Round2(verifR1In(pA, sc.mB, verifB))
	outB, e2 := sc.b.Round2(verifR1In(pB, sc.mA, verifA))
	if e1 != nil || e2 != nil {
		return sc
	}
	var ok1, ok2 bool
	sc.echoAtoB, ok1 = outA.Get(verifB)
	sc.echoBtoA, ok2 = outB.Get(verifA)
	sc.okR2 = ok1 && ok2 && sc.echoAtoB != nil && sc.echoBtoA != nil
	return sc
}

// verifArbitraryEcho: what a malicious S may send as its round-2 message: any digest for the
// given honest party, or none.
func verifArbitraryEcho(about sharing.ID) *verifR2 {
	h := map[sharing.ID][32]byte{}
	if verifLen(0, 1) == 1 {
		var d [32]byte
		copy(d[:], verifBytes(32))
		h[about] = d
	}
	return &verifR2{EchoHashes: h}
}

func verifR2In(fromS, fromPeer *verifR2, peer sharing.ID) network.RoundMessages[*verifR2, *verifP] {
	m := hashmap.NewComparable[sharing.ID, *verifR2]()
	m.Put(verifS, fromS)
	m.Put(peer, fromPeer)
	return m.Freeze()
}

// verifRound3 runs Round3 of A (who = 1) or B (who = 2) and classifies the outcome: `passed` =
// the echo comparison loop was passed for every sender, i.e. the unmarshal step was reached. It is
// defined on the result so that it means the same in the native twin (which runs the real
// UnmarshalCBOR): every failure before the unmarshal step is echo.ErrFailed here (the messages are
// non-nil), a failure of the unmarshal step is not.
func verifRound3(p *verifP, who int, in network.RoundMessages[*verifR2, *verifP]) (out network.RoundMessages[verifMsg, *verifRcv], err error, passed bool) {
	verifWho = who
	out, err = p.Round3(in)
	passed = err == nil || !errors.Is(err, ErrFailed)
	return out, err, passed
}

// H_echo_consistency: the obligation. If A and B both get past the echo comparison for sender S
// then S's payloads were the same, under the premise that SHA3-256 does not collide on (p_A, p_B).
// Also: the ghost counter of the unmarshal contract agrees with the result classification
// (verifAssertGhost: not confirmable natively), and each honest party on its own detects the
// equivocation.
func H_echo_consistency() {
	pA := verifBytes(verifLen(0, 2))
	pB := verifBytes(verifLen(0, 2))
	sc := verifRun(pA, pB)
	verifAssert("echo.round2_ok", sc.okR2)
	if !sc.okR2 {
		return
	}
	// premise: equal digests => equal logs, for the two evaluations compared by the protocol
	hA, hB := echoHash(pA), echoHash(pB)
	verifAssume(hA != hB || bytes.Equal(pA, pB))
	verifReach("echo_consistency")

	_, errA, passA := verifRound3(sc.a, 1, verifR2In(verifArbitraryEcho(verifB), sc.echoBtoA, verifB))
	_, errB, passB := verifRound3(sc.b, 2, verifR2In(verifArbitraryEcho(verifA), sc.echoAtoB, verifA))
	_, _ = errA, errB

	verifAssertGhost("echo.passed_iff_unmarshal_reached.A", passA == (verifUnmCalls[1] > 0))
	verifAssertGhost("echo.passed_iff_unmarshal_reached.B", passB == (verifUnmCalls[2] > 0))
	if passA && passB {
		verifReach("echo_both_pass")
		verifAssert("echo.consistent_under_sha3_256_collision_freeness", bytes.Equal(pA, pB))
	}
	if !bytes.Equal(pA, pB) {
		verifReach("echo_equivocation")
		verifAssert("echo.equivocation_detected_by_A_under_collision_freeness", !passA)
		verifAssert("echo.equivocation_detected_by_B_under_collision_freeness", !passB)
	}
}

// H_echo_round2_content: what an honest party echoes: exactly one digest per other party, the
// SHA3-256 digest of the payload received from that party in round 1, the same map to everybody,
// and the payloads are remembered for Round3.
func H_echo_round2_content() {
	pA := verifBytes(verifLen(0, 2))
	mB := verifBytes(1)
	a, err := NewParticipant[verifMsg, *verifRcv](verifA, verifQuorum())
	verifAssert("r2.participant", err == nil && a != nil)
	if err != nil {
		return
	}
	out, err := a.Round2(verifR1In(pA, mB, verifB))
	verifReach("echo_round2")
	verifAssert("r2.noerr", err == nil && out != nil)
	if err != nil {
		return
	}
	verifAssert("r2.recipients", out.Size() == 2 && out.ContainsKey(verifS) && out.ContainsKey(verifB))
	toS, _ := out.Get(verifS)
	toB, _ := out.Get(verifB)
	verifAssert("r2.nonnil", toS != nil && toB != nil)
	if toS == nil || toB == nil {
		return
	}
	for _, m := range []*verifR2{toS, toB} {
		hS, okS := m.EchoHashes[verifS]
		hB, okB := m.EchoHashes[verifB]
		_, okA := m.EchoHashes[verifA]
		verifAssert("r2.digest_per_other_party", len(m.EchoHashes) == 2 && okS && okB && !okA)
		verifAssert("r2.digest_is_sha3_256_of_received_payload", hS == echoHash(pA) && hB == echoHash(mB))
	}
	verifAssert("r2.payloads_remembered", bytes.Equal(a.state.messages[verifS], pA) && bytes.Equal(a.state.messages[verifB], mB))
}

// H_echo_honest_accepts: completeness. With an honest S (same payload to both, true digests
// echoed) both parties pass the comparison, the unmarshal step gets exactly the round-1 payload of
// each sender, and when the unmarshal contract succeeds Round3 returns a message for S and for
// the peer. No premise on the hash.
func H_echo_honest_accepts() {
	p := verifBytes(verifLen(0, 2))
	sc := verifRun(p, p)
	verifAssert("honest.round2_ok", sc.okR2)
	if !sc.okR2 {
		return
	}
	echoS := func(about sharing.ID, m []byte) *verifR2 {
		return &verifR2{EchoHashes: map[sharing.ID][32]byte{about: echoHash(m)}}
	}
	verifReach("echo_honest")
	outA, errA, passA := verifRound3(sc.a, 1, verifR2In(echoS(verifB, sc.mB), sc.echoBtoA, verifB))
	outB, errB, passB := verifRound3(sc.b, 2, verifR2In(echoS(verifA, sc.mA), sc.echoAtoB, verifA))
	verifAssert("honest.both_pass", passA && passB)
	verifAssertGhost("honest.unmarshal_reached", verifUnmCalls[1] > 0 && verifUnmCalls[2] > 0)
	if errA == nil {
		verifReach("echo_honest_A_output")
		verifAssert("honest.A_outputs_S_and_B", outA != nil && outA.Size() == 2 && outA.ContainsKey(verifS) && outA.ContainsKey(verifB))
		verifAssertGhost("honest.A_two_unmarshals", verifUnmCalls[1] == 2)
		d0, d1 := verifUnmData[1][0], verifUnmData[1][1]
		verifAssertGhost("honest.A_unmarshals_exactly_the_round1_payloads",
			(bytes.Equal(d0, p) && bytes.Equal(d1, sc.mB)) || (bytes.Equal(d1, p) && bytes.Equal(d0, sc.mB)))
	} else {
		verifAssertGhost("honest.A_error_is_the_unmarshal_error", errors.Is(errA, verifErrUnmarshal))
	}
	if errB == nil {
		verifAssert("honest.B_outputs_S_and_A", outB != nil && outB.Size() == 2 && outB.ContainsKey(verifS) && outB.ContainsKey(verifA))
	}
}

// H_echo_unmarshal_failure_is_reported: when the unmarshal step fails Round3 fails (control for
// the contract plumbing: the contract is forced to fail).
func H_echo_unmarshal_failure_is_reported() {
	p := verifBytes(1)
	sc := verifRun(p, p)
	if !sc.okR2 {
		return
	}
	verifUnmFailAll = true
	verifReach("echo_unmarshal_failure")
	_, errA, passA := verifRound3(sc.a, 1, verifR2In(&verifR2{EchoHashes: map[sharing.ID][32]byte{verifB: echoHash(sc.mB)}}, sc.echoBtoA, verifB))
	// (natively the real UnmarshalCBOR rejects or accepts the symbolic byte on its own terms;
	// what the contract was told to do is ghost state)
	verifAssertGhost("unmfail.error", errA != nil && passA && errors.Is(errA, verifErrUnmarshal) && verifUnmCalls[1] == 1)
}

// H_echo_consistency_nopremise_INCONCLUSIVE: the same obligation WITHOUT the collision-freeness
// premise. Expected outcome: not valid (the byte-log hash model is functional, not injective);
// the counterexample needs a SHA3-256 collision and does not replay => inconclusive.
func H_echo_consistency_nopremise_INCONCLUSIVE() {
	pA := verifBytes(1)
	pB := verifBytes(1)
	sc := verifRun(pA, pB)
	if !sc.okR2 {
		return
	}
	verifReach("echo_nopremise")
	_, _, passA := verifRound3(sc.a, 1, verifR2In(verifArbitraryEcho(verifB), sc.echoBtoA, verifB))
	_, _, passB := verifRound3(sc.b, 2, verifR2In(verifArbitraryEcho(verifA), sc.echoAtoB, verifA))
	if passA && passB {
		verifAssert("echo.consistent_without_premise", bytes.Equal(pA, pB))
	}
}

// H_echo_MUSTFAIL: wrong twin (claims that an honest broadcast always gets A past the echo
// comparison, whatever S echoes about B). The counterexample (S echoes a wrong digest for B's
// payload) replays natively with the real SHA3-256 and the real UnmarshalCBOR.
func H_echo_MUSTFAIL() {
	p := verifBytes(1)
	sc := verifRun(p, p)
	if !sc.okR2 {
		return
	}
	var d [32]byte
	copy(d[:], verifBytes(32))
	verifReach("echo_mustfail")
	_, _, passA := verifRound3(sc.a, 1, verifR2In(&verifR2{EchoHashes: map[sharing.ID][32]byte{verifB: d}}, sc.echoBtoA, verifB))
	verifAssert("echo.wrong_any_echo_accepted", passA)
}

// H_echo_round2_MUSTFAIL: wrong twin on Round2 (claims a party also echoes a digest of its own
// message).
func H_echo_round2_MUSTFAIL() {
	sc := verifRun(verifBytes(1), verifBytes(1))
	if !sc.okR2 {
		return
	}
	verifReach("echo_round2_mustfail")
	_, own := sc.echoAtoB.EchoHashes[verifA]
	verifAssert("r2.wrong_own_digest", own)
}
