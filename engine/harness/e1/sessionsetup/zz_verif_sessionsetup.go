//go:build verif_e1

package session

import (
	"bytes"
	"crypto/sha3"
	"encoding/binary"

	"github.com/bronlabs/bron-crypto/pkg/base"
	"github.com/bronlabs/bron-crypto/pkg/base/datastructures/hashmap"
	"github.com/bronlabs/bron-crypto/pkg/base/datastructures/hashset"
	"github.com/bronlabs/bron-crypto/pkg/commitments/hashcom"
	"github.com/bronlabs/bron-crypto/pkg/mpc/sharing"
	"github.com/bronlabs/bron-crypto/pkg/network"
)

// E1 harnesses for pkg/mpc/session/participant.go (properties C07 / C10 / C04 about session
// setup): Participant.Round1..Round4 run for three parties inside the harness, messages passed
// in memory (deep copies, so the harness introduces no aliasing between parties). Party
// identifiers are concrete ({1,2,3} and {2,5,9}); every byte a party draws from its prng is a
// fresh symbolic byte (verifReader). Hashes are byte logs (see internal/ssasym/README.md):
// digests are uninterpreted but functional; collision resistance is used only where an
// obligation id says so (suffix "__premise_CR").
//
// Premise of every run ("nonzero"): every 32-byte value a party samples or derives and that the
// message validators test against the all-zero string (commitment keys, contributions,
// witnesses, commitments) is non-zero. The library treats an all-zero field as "missing" and
// blames the sender, so an honest party that samples 32 zero bytes (probability 2^-256 each)
// makes the run abort; this is excluded with verifAssume, not proved.

// ---- symbolic prng ----

// verifReader is an io.Reader whose every byte is a fresh symbolic byte. party and off only
// name the bytes (draw order is deterministic, so byte #off of party #party is the same symbol
// in the engine and in a native replay); log keeps what was handed out.
type verifReader struct {
	party int
	off   int
	log   []byte
}

func (r *verifReader) Read(p []byte) (int, error) {
	for i := range p {
		p[i] = verifU8()
	}
	r.off += len(p)
	r.log = append(r.log, p...)
	return len(p), nil
}

// ---- helpers ----

func verifQuorumOf(ids []sharing.ID) network.Quorum {
	return hashset.NewComparable(ids...).Freeze()
}

func verifNonZero32(b [32]byte) {
	verifAssume(b != [32]byte{})
}

func le64(x uint64) []byte { return binary.LittleEndian.AppendUint64(nil, x) }

func verifCat(parts ...[]byte) []byte {
	var out []byte
	for _, p := range parts {
		out = append(out, p...)
	}
	return out
}

// verifRun is the state of one in-harness execution.
type verifRun struct {
	ids  []sharing.ID
	rd   []*verifReader
	p    []*Participant
	r1   []*Round1Broadcast
	r2b  []*Round2Broadcast
	r2u  [][]*Round2P2P // [from][to]
	r3u  [][]*Round3P2P // [from][to]
	ctx  []*Context
	errs []error
}

func verifNewRun(ids []sharing.ID) *verifRun {
	n := len(ids)
	r := &verifRun{ids: ids, rd: make([]*verifReader, n), p: make([]*Participant, n), r1: make([]*Round1Broadcast, n),
		r2b: make([]*Round2Broadcast, n), r2u: make([][]*Round2P2P, n), r3u: make([][]*Round3P2P, n),
		ctx: make([]*Context, n), errs: make([]error, n)}
	for i := range ids {
		r.rd[i] = &verifReader{party: i}
		p, err := NewParticipant(ids[i], verifQuorumOf(ids), r.rd[i])
		verifAssert("setup.newparticipant", err == nil)
		r.p[i] = p
		r.r2u[i] = make([]*Round2P2P, n)
		r.r3u[i] = make([]*Round3P2P, n)
	}
	return r
}

// round1 runs Round1 for every party. Premise nonzero on ck, common contribution, witness,
// commitment.
func (r *verifRun) round1() {
	for i := range r.ids {
		b, err := r.p[i].Round1()
		verifAssert("r1.noerr", err == nil)
		verifNonZero32([32]byte(*b.Ck))
		verifNonZero32([32]byte(b.CommonCommitment))
		verifNonZero32(r.p[i].commonContributions[r.ids[i]])
		verifNonZero32([32]byte(r.p[i].commonContributionWitnesses[r.ids[i]]))
		r.r1[i] = b
	}
}

// inboxR1 builds party to's view of the Round1 broadcasts (deep copies).
func (r *verifRun) inboxR1(to int) network.RoundMessages[*Round1Broadcast, *Participant] {
	m := hashmap.NewComparable[sharing.ID, *Round1Broadcast]()
	for from := range r.ids {
		if from == to {
			continue
		}
		ck := *r.r1[from].Ck
		m.Put(r.ids[from], &Round1Broadcast{CommonCommitment: r.r1[from].CommonCommitment, Ck: &ck})
	}
	return m.Freeze()
}

// round2 runs Round2 for every party; returns false if some party failed.
func (r *verifRun) round2() {
	for i := range r.ids {
		b, u, err := r.p[i].Round2(r.inboxR1(i))
		verifAssert("r2.noerr", err == nil)
		r.r2b[i] = b
		for j := range r.ids {
			if j == i {
				continue
			}
			m, ok := u.Get(r.ids[j])
			verifAssert("r2.unicast_for_every_peer", ok)
			verifNonZero32([32]byte(m.PairwiseContributionCommitment))
			verifNonZero32(r.p[i].pairwiseContributions[r.ids[j]])
			verifNonZero32([32]byte(r.p[i].pairwiseContributionWitnesses[r.ids[j]]))
			r.r2u[i][j] = m
		}
		verifAssert("r2.no_unicast_to_self", !u.ContainsKey(r.ids[i]) && u.Size() == len(r.ids)-1)
	}
}

func (r *verifRun) inboxR2(to int) (network.RoundMessages[*Round2Broadcast, *Participant], network.RoundMessages[*Round2P2P, *Participant]) {
	mb := hashmap.NewComparable[sharing.ID, *Round2Broadcast]()
	mu := hashmap.NewComparable[sharing.ID, *Round2P2P]()
	for from := range r.ids {
		if from == to {
			continue
		}
		b := *r.r2b[from]
		u := *r.r2u[from][to]
		mb.Put(r.ids[from], &b)
		mu.Put(r.ids[from], &u)
	}
	return mb.Freeze(), mu.Freeze()
}

// round3 runs Round3 for party i (an error is returned, not asserted) and files the unicasts;
// complete reports that there is one for every peer.
func (r *verifRun) round3(i int) (err error, complete bool) {
	mb, mu := r.inboxR2(i)
	u, err := r.p[i].Round3(mb, mu)
	if err != nil {
		return err, false
	}
	complete = u.Size() == len(r.ids)-1
	for j := range r.ids {
		if j == i {
			continue
		}
		m, ok := u.Get(r.ids[j])
		complete = complete && ok
		r.r3u[i][j] = m
	}
	return nil, complete
}

func (r *verifRun) inboxR3(to int) network.RoundMessages[*Round3P2P, *Participant] {
	m := hashmap.NewComparable[sharing.ID, *Round3P2P]()
	for from := range r.ids {
		if from == to {
			continue
		}
		u := *r.r3u[from][to]
		m.Put(r.ids[from], &u)
	}
	return m.Freeze()
}

func (r *verifRun) round4(i int) {
	r.ctx[i], r.errs[i] = r.p[i].Round4(r.inboxR3(i))
}

// honest runs all four rounds for everybody and asserts that nobody fails.
func (r *verifRun) honest() {
	r.round1()
	r.round2()
	for i := range r.ids {
		err, complete := r.round3(i)
		verifAssert("r3.noerr", err == nil)
		verifAssert("r3.unicast_for_every_peer", complete)
	}
	for i := range r.ids {
		r.round4(i)
		verifAssert("r4.noerr", r.errs[i] == nil && r.ctx[i] != nil)
	}
}

// expectedCommonSeed is the specification of the byte string every party must derive the session
// from, built ONLY from what went over the wire (Round1 / Round2 broadcasts of every party, in
// increasing identifier order):
//
//	"BRON_CRYPTO_SESSION-SESSION" || le64(n) || for each id ascending:
//	    le64(id) || ck_id || commonCommitment_id || commonContribution_id || commonWitness_id
func (r *verifRun) expectedCommonSeed() (seed []byte, contributionAt []int) {
	seed = []byte("BRON_CRYPTO_SESSION-SESSION")
	seed = append(seed, le64(uint64(len(r.ids)))...)
	for k := range r.ids { // ids are given in increasing order
		seed = append(seed, le64(uint64(r.ids[k]))...)
		seed = append(seed, r.r1[k].Ck[:]...)
		seed = append(seed, r.r1[k].CommonCommitment[:]...)
		contributionAt = append(contributionAt, len(seed))
		seed = append(seed, r.r2b[k].CommonContribution[:]...)
		seed = append(seed, r.r2b[k].CommonContributionWitness[:]...)
	}
	return seed, contributionAt
}

// pairSeedLog splits the cSHAKE log absorbed by party i for peer j:
// be64(0) || be64(len S) || S || le64(min) || le64(max) || "BRON_CRYPTO_SESSION-SEED" || commonSeed || c_lo || c_hi
// and returns (whole log, commonSeed as absorbed, c_lo, c_hi); ok=false if the framing differs.
func (r *verifRun) pairSeedLog(i, j int) (log, common, clo, chi []byte, ok bool) {
	log = verifHashLog(r.ctx[i].seeds[r.ids[j]])
	lo, hi := r.ids[i], r.ids[j]
	if lo > hi {
		lo, hi = hi, lo
	}
	s := []byte(seedDomainSeparatorLabel)
	head := verifCat(binary.BigEndian.AppendUint64(nil, 0), binary.BigEndian.AppendUint64(nil, uint64(len(s))), s,
		le64(uint64(lo)), le64(uint64(hi)), []byte("BRON_CRYPTO_SESSION-SEED"))
	if len(log) < len(head)+64 || !bytes.Equal(log[:len(head)], head) {
		return log, nil, nil, nil, false
	}
	body := log[len(head):]
	return log, body[:len(body)-64], body[len(body)-64 : len(body)-32], body[len(body)-32:], true
}

// verifCheckHonest states obligations (i) and (ii) on a finished honest run.
func verifCheckHonest(r *verifRun) {
	n := len(r.ids)
	want, at := r.expectedCommonSeed()
	wantImage := sha3.Sum512(want)

	for i := 0; i < n; i++ {
		// (ii) what party i absorbed as common seed, read back from each of its pairwise streams
		for j := 0; j < n; j++ {
			if j == i {
				continue
			}
			_, common, _, _, ok := r.pairSeedLog(i, j)
			verifAssert("seed.pair_stream_framing", ok)
			if !ok {
				continue
			}
			verifAssert("common.absorbed_log_is_wire_layout", bytes.Equal(common, want))
			verifAssert("common.absorbed_log_len", len(common) == 27+8+n*(8+4*32))
			for k := 0; k < n; k++ {
				// every party k, including the one with the largest identifier: its identifier, key,
				// commitment, contribution and witness sit at the honest position
				off := at[k]
				if off+64 > len(common) {
					verifAssert("common.contains_every_party_contribution", false)
					continue
				}
				verifAssert("common.contains_every_party_id", bytes.Equal(common[off-72:off-64], le64(uint64(r.ids[k]))))
				verifAssert("common.contains_every_party_ck", bytes.Equal(common[off-64:off-32], r.r1[k].Ck[:]))
				verifAssert("common.contains_every_party_commitment", bytes.Equal(common[off-32:off], r.r1[k].CommonCommitment[:]))
				verifAssert("common.contains_every_party_contribution", bytes.Equal(common[off:off+32], r.r2b[k].CommonContribution[:]))
				verifAssert("common.contains_every_party_witness", bytes.Equal(common[off+32:off+64], r.r2b[k].CommonContributionWitness[:]))
				// and the contribution is the party's own fresh randomness (bytes 32..63 of its prng)
				verifAssert("common.contribution_is_fresh_prng_output", bytes.Equal(common[off:off+32], r.rd[k].log[32:64]))
			}
		}
		// the session identifier is SHA3-512(that log)[:32] and the transcript is seeded with the rest
		verifAssert("sid.is_hash_of_wire_layout", r.ctx[i].sid == network.SID(wantImage[:32]))
		verifAssert("ctx.holder_and_quorum", r.ctx[i].holderID == r.ids[i] && len(r.ctx[i].sortedQuorum) == n)
	}

	// (i) agreement
	for i := 1; i < n; i++ {
		verifAssert("agree.session_id", r.ctx[i].sid == r.ctx[0].sid)
		verifAssert("agree.transcript_state", bytes.Equal(verifHashLog(r.ctx[i].tape), verifHashLog(r.ctx[0].tape)))
	}
	for i := 0; i < n; i++ {
		for j := i + 1; j < n; j++ {
			li, _, ilo, ihi, ok1 := r.pairSeedLog(i, j)
			lj, _, jlo, jhi, ok2 := r.pairSeedLog(j, i)
			if !ok1 || !ok2 {
				continue
			}
			verifAssert("agree.pairwise_seed_symmetric", bytes.Equal(li, lj))
			// smaller identifier's contribution first, each is the sender's fresh randomness as sent in Round3
			verifAssert("pair.contributions_ordered_by_id", bytes.Equal(ilo, r.r3u[i][j].PairwiseContribution[:]) &&
				bytes.Equal(ihi, r.r3u[j][i].PairwiseContribution[:]) && bytes.Equal(jlo, ilo) && bytes.Equal(jhi, ihi))
		}
	}
	// distinct pairs absorb distinct streams
	l01, _, _, _, _ := r.pairSeedLog(0, 1)
	l02, _, _, _, _ := r.pairSeedLog(0, 2)
	l12, _, _, _, _ := r.pairSeedLog(1, 2)
	verifAssert("pair.distinct_pairs_differ", !bytes.Equal(l01, l02) && !bytes.Equal(l01, l12) && !bytes.Equal(l02, l12))
	for i := 0; i < n; i++ {
		verifAssert("prng.bytes_drawn", r.rd[i].off == 96+(n-1)*64)
	}
}

func verifIDs123() []sharing.ID { return []sharing.ID{1, 2, 3} }
func verifIDs259() []sharing.ID { return []sharing.ID{2, 5, 9} }

// H_sessionsetup_honest_123 / _259: obligations (i) and (ii) for the two quorums.
func H_sessionsetup_honest_123() {
	r := verifNewRun(verifIDs123())
	r.honest()
	verifReach("sessionsetup_honest_123")
	verifCheckHonest(r)
}

func H_sessionsetup_honest_259() {
	r := verifNewRun(verifIDs259())
	r.honest()
	verifReach("sessionsetup_honest_259")
	verifCheckHonest(r)
}

// ---- (iii) fault injection ----

// verifMask32 is an arbitrary non-zero 32-byte difference: "altered in any way".
func verifMask32() [32]byte {
	var m [32]byte
	copy(m[:], verifBytes(32))
	verifAssume(m != [32]byte{})
	return m
}

// verifMaskByte is the difference the task names: one symbolic non-zero byte at a symbolic
// position (a special case of verifMask32; the position is a symbolic index, no fork).
func verifMaskByte() [32]byte {
	var m [32]byte
	d := verifU8()
	verifAssume(d != 0)
	pos := verifU8()
	verifAssume(pos < 32)
	for i := range m {
		m[i] = uint8(verifIteU64(uint8(i) == pos, uint64(d), 0))
	}
	return m
}

func xor32(a, m [32]byte) (out [32]byte) {
	for i := range a {
		out[i] = a[i] ^ m[i]
	}
	return out
}

// verifBlamed: err is an identifiable abort that names exactly the party culprit.
func verifBlamed(err error, culprit sharing.ID) bool {
	if err == nil || !base.IsIdentifiableAbortError(err) {
		return false
	}
	ids := base.GetMaliciousIdentities[sharing.ID](err)
	return len(ids) == 1 && ids[0] == culprit
}

// verifCRPremise states "equal digests => equal logs" for the keyed BLAKE2b evaluation
// H_key(m' || w') against the honest one H_key(m || w).
func verifCRPremise(key *hashcom.CommitmentKey, m, w, m2, w2 [32]byte) {
	c, _ := key.CommitWithWitness(m[:], hashcom.Witness(w))
	c2, _ := key.CommitWithWitness(m2[:], hashcom.Witness(w2))
	verifAssume(verifB2U(c2 == c) <= verifB2U(m2 == m && w2 == w))
}

// verifFaultRound3: party dev sends an altered pairwise contribution (what = 0) or witness
// (what = 1) to party vic in Round3. vic's Round4 must fail with an identifiable abort naming
// exactly dev; the third party finishes normally.
func verifFaultRound3(ids []sharing.ID, dev, vic, what int, mask [32]byte) {
	r := verifNewRun(ids)
	r.round1()
	r.round2()
	for i := range ids {
		err, complete := r.round3(i)
		verifAssert("fault.r3.honest_rounds_noerr", err == nil && complete)
	}
	honest := *r.r3u[dev][vic]
	bad := honest
	if what == 0 {
		bad.PairwiseContribution = xor32(honest.PairwiseContribution, mask)
	} else {
		bad.PairwiseContributionWitness = hashcom.Witness(xor32([32]byte(honest.PairwiseContributionWitness), mask))
	}
	// the commitment dev sent to vic in Round2 is under vic's key
	verifCRPremise(r.r1[vic].Ck, honest.PairwiseContribution, [32]byte(honest.PairwiseContributionWitness),
		bad.PairwiseContribution, [32]byte(bad.PairwiseContributionWitness))
	r.r3u[dev][vic] = &bad
	verifReach("sessionsetup_fault_round3")
	r.round4(vic)
	verifAssert("fault.r3.victim_round4_errors", r.errs[vic] != nil && r.ctx[vic] == nil)
	verifAssert("fault.r3.identifiable_abort_names_exactly_deviator__premise_CR", verifBlamed(r.errs[vic], ids[dev]))
	other := 3 - dev - vic
	r.round4(other)
	verifAssert("fault.r3.bystander_finishes", r.errs[other] == nil && r.ctx[other] != nil)
}

// verifFaultRound2: party dev broadcasts an altered common contribution (what = 0) or witness
// (what = 1) in Round2. Every recipient's Round3 must fail with an identifiable abort naming
// exactly dev.
func verifFaultRound2(ids []sharing.ID, dev, what int, mask [32]byte) {
	r := verifNewRun(ids)
	r.round1()
	r.round2()
	honest := *r.r2b[dev]
	bad := honest
	if what == 0 {
		bad.CommonContribution = xor32(honest.CommonContribution, mask)
	} else {
		bad.CommonContributionWitness = hashcom.Witness(xor32([32]byte(honest.CommonContributionWitness), mask))
	}
	verifCRPremise(commonCommitmentKey, honest.CommonContribution, [32]byte(honest.CommonContributionWitness),
		bad.CommonContribution, [32]byte(bad.CommonContributionWitness))
	r.r2b[dev] = &bad
	verifReach("sessionsetup_fault_round2")
	for i := range ids {
		if i == dev {
			continue
		}
		err, _ := r.round3(i)
		verifAssert("fault.r2.recipient_round3_errors", err != nil)
		verifAssert("fault.r2.identifiable_abort_names_exactly_deviator__premise_CR", verifBlamed(err, ids[dev]))
	}
}

// H_sessionsetup_fault_r3_p3_to_p1: party 3 deviates towards party 1, quorum {1,2,3};
// contribution or witness, arbitrary non-zero 32-byte difference.
func H_sessionsetup_fault_r3_p3_to_p1() {
	verifFaultRound3(verifIDs123(), 2, 0, verifLen(0, 1), verifMask32())
}

// H_sessionsetup_fault_r3_p1_to_p2: party 1 deviates towards party 2, quorum {1,2,3}.
func H_sessionsetup_fault_r3_p1_to_p2() {
	verifFaultRound3(verifIDs123(), 0, 1, verifLen(0, 1), verifMask32())
}

// H_sessionsetup_fault_r3_259: quorum {2,5,9}, party 9 towards party 2 and party 2 towards 5.
func H_sessionsetup_fault_r3_259() {
	if verifLen(0, 1) == 0 {
		verifFaultRound3(verifIDs259(), 2, 0, verifLen(0, 1), verifMask32())
	} else {
		verifFaultRound3(verifIDs259(), 0, 1, verifLen(0, 1), verifMask32())
	}
}

// H_sessionsetup_fault_r3_single_byte: the literal form of the task: XOR of one byte at
// position 0..31 with a symbolic non-zero byte (party 3 towards party 1).
func H_sessionsetup_fault_r3_single_byte() {
	verifFaultRound3(verifIDs123(), 2, 0, verifLen(0, 1), verifMaskByte())
}

// H_sessionsetup_fault_r2_p3 / _p1: altered Round2 broadcast, detected in Round3.
func H_sessionsetup_fault_r2_p3() {
	verifFaultRound2(verifIDs123(), 2, verifLen(0, 1), verifMask32())
}

func H_sessionsetup_fault_r2_p1() {
	verifFaultRound2(verifIDs123(), 0, verifLen(0, 1), verifMask32())
}

func H_sessionsetup_fault_r2_259() {
	verifFaultRound2(verifIDs259(), verifLen(0, 2), verifLen(0, 1), verifMask32())
}

// H_sessionsetup_fault_nopremise_EXPECT_INCONCLUSIVE (control, expected status: inconclusive): without
// the collision-resistance premise the detection is not provable in the hash model (the solver
// picks a "collision" of the uninterpreted hash, which the real BLAKE2b does not reproduce).
func H_sessionsetup_fault_nopremise_EXPECT_INCONCLUSIVE() {
	ids := verifIDs123()
	r := verifNewRun(ids)
	r.round1()
	r.round2()
	for i := range ids {
		err, complete := r.round3(i)
		verifAssert("nopremise.honest_rounds_noerr", err == nil && complete)
	}
	bad := *r.r3u[2][0]
	bad.PairwiseContribution = xor32(bad.PairwiseContribution, verifMask32())
	r.r3u[2][0] = &bad
	verifReach("sessionsetup_fault_nopremise")
	r.round4(0)
	verifAssert("fault.r3.detected_without_premise", r.errs[0] != nil)
}

// ---- controls ----

// H_sessionsetup_last_party_MUSTFAIL: wrong twin (claims the common seed stops before the party
// with the largest identifier: 27 + 8 + 2*136 bytes).
func H_sessionsetup_last_party_MUSTFAIL() {
	r := verifNewRun(verifIDs123())
	r.honest()
	verifReach("sessionsetup_last_party_mustfail")
	_, common, _, _, ok := r.pairSeedLog(0, 1)
	verifAssert("mustfail.framing", ok)
	verifAssert("common.wrong_excludes_largest_id", len(common) == 27+8+2*136)
}

// H_sessionsetup_blame_MUSTFAIL: wrong twin (claims the victim blames the bystander).
func H_sessionsetup_blame_MUSTFAIL() {
	ids := verifIDs123()
	r := verifNewRun(ids)
	r.round1()
	r.round2()
	for i := range ids {
		if err, _ := r.round3(i); err != nil {
			return
		}
	}
	bad := *r.r3u[2][0]
	bad.PairwiseContribution[0] ^= 1
	verifCRPremise(r.r1[0].Ck, r.r3u[2][0].PairwiseContribution, [32]byte(r.r3u[2][0].PairwiseContributionWitness),
		bad.PairwiseContribution, [32]byte(bad.PairwiseContributionWitness))
	r.r3u[2][0] = &bad
	verifReach("sessionsetup_blame_mustfail")
	r.round4(0)
	verifAssert("fault.wrong_blames_bystander", verifBlamed(r.errs[0], ids[1]))
}

// H_sessionsetup_sid_MUSTFAIL: wrong twin (claims the session identifier does not depend on
// party 3's contribution: it would equal the hash of the layout with that contribution zeroed).
func H_sessionsetup_sid_MUSTFAIL() {
	r := verifNewRun(verifIDs123())
	r.honest()
	verifReach("sessionsetup_sid_mustfail")
	want, at := r.expectedCommonSeed()
	for i := 0; i < 32; i++ {
		want[at[2]+i] = 0
	}
	img := sha3.Sum512(want)
	verifAssert("sid.wrong_ignores_party3", r.ctx[0].sid == network.SID(img[:32]))
}
