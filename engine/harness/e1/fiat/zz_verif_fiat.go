//go:build verif_e1

package impl

// E1 harnesses for the generated k256 fields (fiat_fp.gen.go, fiat_fq.gen.go), linear part at
// full 256-bit width. Add/Sub/Opp act on Montgomery representatives, on which they are the
// plain modular operations, so the specification is (a op b) mod m on the raw limb vectors
// for ALL a, b < m (verifSpec*Mod4 is exact wide arithmetic implemented in the engine and,
// natively, with math/big).

// p = 2^256 - 2^32 - 977 (secp256k1 base field), little-endian limbs.
func fpModulus() [4]uint64 {
	return [4]uint64{0xfffffffefffffc2f, 0xffffffffffffffff, 0xffffffffffffffff, 0xffffffffffffffff}
}

// n = secp256k1 group order, little-endian limbs.
func fqModulus() [4]uint64 {
	return [4]uint64{0xbfd25e8cd0364141, 0xbaaedce6af48a03b, 0xfffffffffffffffe, 0xffffffffffffffff}
}

func verif4() [4]uint64 { return [4]uint64{verifU64(), verifU64(), verifU64(), verifU64()} }

func verifBelow(m [4]uint64) [4]uint64 {
	a := verif4()
	verifAssume(verifSpecLess4(a, m))
	return a
}

// H_fiat_moduli: the harness constants are the moduli the generated code reports.
func H_fiat_moduli() {
	verifReach("fiat_moduli")
	var mp, mq [5]uint64
	fiatFpMsat(&mp)
	fiatFqMsat(&mq)
	p, q := fpModulus(), fqModulus()
	verifAssert("Fp.msat", [4]uint64{mp[0], mp[1], mp[2], mp[3]} == p && mp[4] == 0)
	verifAssert("Fq.msat", [4]uint64{mq[0], mq[1], mq[2], mq[3]} == q && mq[4] == 0)
}

// ---- Fp ----

func H_fiat_fp_add() {
	p := fpModulus()
	a, b := verifBelow(p), verifBelow(p)
	verifReach("fiat_fp_add")
	x, y := fiatFpMontgomeryDomainFieldElement(a), fiatFpMontgomeryDomainFieldElement(b)
	var out fiatFpMontgomeryDomainFieldElement
	fiatFpAdd(&out, &x, &y)
	verifAssert("fiatFpAdd", [4]uint64(out) == verifSpecAddMod4(a, b, p))
	verifAssert("fiatFpAdd.inputs_untouched", [4]uint64(x) == a && [4]uint64(y) == b)
}

func H_fiat_fp_sub() {
	p := fpModulus()
	a, b := verifBelow(p), verifBelow(p)
	verifReach("fiat_fp_sub")
	x, y := fiatFpMontgomeryDomainFieldElement(a), fiatFpMontgomeryDomainFieldElement(b)
	var out fiatFpMontgomeryDomainFieldElement
	fiatFpSub(&out, &x, &y)
	verifAssert("fiatFpSub", [4]uint64(out) == verifSpecSubMod4(a, b, p))
}

func H_fiat_fp_opp() {
	p := fpModulus()
	a := verifBelow(p)
	verifReach("fiat_fp_opp")
	x := fiatFpMontgomeryDomainFieldElement(a)
	var out fiatFpMontgomeryDomainFieldElement
	fiatFpOpp(&out, &x)
	verifAssert("fiatFpOpp", [4]uint64(out) == verifSpecNegMod4(a, p))
}

// H_fiat_fp_add_MUSTFAIL: wrong twin (plain addition mod 2^256, no reduction).
func H_fiat_fp_add_MUSTFAIL() {
	p := fpModulus()
	a, b := verifBelow(p), verifBelow(p)
	verifReach("fiat_fp_add_mustfail")
	x, y := fiatFpMontgomeryDomainFieldElement(a), fiatFpMontgomeryDomainFieldElement(b)
	var out fiatFpMontgomeryDomainFieldElement
	fiatFpAdd(&out, &x, &y)
	var zero [4]uint64
	two256minus1 := [4]uint64{^uint64(0), ^uint64(0), ^uint64(0), ^uint64(0)}
	_ = zero
	// (a + b) mod (2^256 - 1) is not (a + b) mod p
	verifAssert("fiatFpAdd.wrong", [4]uint64(out) == verifSpecAddMod4(a, b, two256minus1))
}

func H_fiat_fp_misc() {
	a, b := verif4(), verif4()
	c := fiatFpUint1(verifU64())
	verifAssume(c <= 1)
	verifReach("fiat_fp_misc")

	var sel [4]uint64
	fiatFpSelectznz(&sel, c, &a, &b)
	for i := range sel {
		verifAssert("fiatFpSelectznz", sel[i] == verifIteU64(c == 0, a[i], b[i]))
	}
	var w uint64
	fiatFpCmovznzU64(&w, c, a[0], b[0])
	verifAssert("fiatFpCmovznzU64", w == verifIteU64(c == 0, a[0], b[0]))

	var nz uint64
	fiatFpNonzero(&nz, &a)
	verifAssert("fiatFpNonzero", (nz == 0) == (a == [4]uint64{}))

	// ToBytes is little-endian and FromBytes is its inverse (for every limb vector, reduced or not)
	var bs [32]uint8
	fiatFpToBytes(&bs, &a)
	var bad uint64
	for i := 0; i < 32; i++ {
		bad += verifB2U(bs[i] != uint8(a[i/8]>>(8*uint(i%8))))
	}
	verifAssert("fiatFpToBytes.littleendian", bad == 0)
	var back [4]uint64
	fiatFpFromBytes(&back, &bs)
	verifAssert("fiatFpFromBytes.ToBytes", back == a)

	var raw [32]uint8
	copy(raw[:], verifBytes(32))
	var el [4]uint64
	fiatFpFromBytes(&el, &raw)
	var out [32]uint8
	fiatFpToBytes(&out, &el)
	verifAssert("fiatFpToBytes.FromBytes", out == raw)
}

// H_fiat_fp_misc_MUSTFAIL: wrong twin (Selectznz operands the wrong way round).
func H_fiat_fp_misc_MUSTFAIL() {
	a, b := verif4(), verif4()
	c := fiatFpUint1(verifU64())
	verifAssume(c <= 1)
	verifReach("fiat_fp_misc_mustfail")
	var sel [4]uint64
	fiatFpSelectznz(&sel, c, &a, &b)
	verifAssert("fiatFpSelectznz.wrong", sel[2] == verifIteU64(c == 0, b[2], a[2]))
}

// ---- Fq ----

func H_fiat_fq_add() {
	q := fqModulus()
	a, b := verifBelow(q), verifBelow(q)
	verifReach("fiat_fq_add")
	x, y := fiatFqMontgomeryDomainFieldElement(a), fiatFqMontgomeryDomainFieldElement(b)
	var out fiatFqMontgomeryDomainFieldElement
	fiatFqAdd(&out, &x, &y)
	verifAssert("fiatFqAdd", [4]uint64(out) == verifSpecAddMod4(a, b, q))
}

func H_fiat_fq_sub() {
	q := fqModulus()
	a, b := verifBelow(q), verifBelow(q)
	verifReach("fiat_fq_sub")
	x, y := fiatFqMontgomeryDomainFieldElement(a), fiatFqMontgomeryDomainFieldElement(b)
	var out fiatFqMontgomeryDomainFieldElement
	fiatFqSub(&out, &x, &y)
	verifAssert("fiatFqSub", [4]uint64(out) == verifSpecSubMod4(a, b, q))
}

func H_fiat_fq_opp() {
	q := fqModulus()
	a := verifBelow(q)
	verifReach("fiat_fq_opp")
	x := fiatFqMontgomeryDomainFieldElement(a)
	var out fiatFqMontgomeryDomainFieldElement
	fiatFqOpp(&out, &x)
	verifAssert("fiatFqOpp", [4]uint64(out) == verifSpecNegMod4(a, q))
}

// H_fiat_fq_sub_MUSTFAIL: wrong twin (operands swapped).
func H_fiat_fq_sub_MUSTFAIL() {
	q := fqModulus()
	a, b := verifBelow(q), verifBelow(q)
	verifReach("fiat_fq_sub_mustfail")
	x, y := fiatFqMontgomeryDomainFieldElement(a), fiatFqMontgomeryDomainFieldElement(b)
	var out fiatFqMontgomeryDomainFieldElement
	fiatFqSub(&out, &x, &y)
	verifAssert("fiatFqSub.wrong", [4]uint64(out) == verifSpecSubMod4(b, a, q))
}

func H_fiat_fq_misc() {
	a, b := verif4(), verif4()
	c := fiatFqUint1(verifU64())
	verifAssume(c <= 1)
	verifReach("fiat_fq_misc")
	var sel [4]uint64
	fiatFqSelectznz(&sel, c, &a, &b)
	for i := range sel {
		verifAssert("fiatFqSelectznz", sel[i] == verifIteU64(c == 0, a[i], b[i]))
	}
	var w uint64
	fiatFqCmovznzU64(&w, c, a[0], b[0])
	verifAssert("fiatFqCmovznzU64", w == verifIteU64(c == 0, a[0], b[0]))
	var nz uint64
	fiatFqNonzero(&nz, &a)
	verifAssert("fiatFqNonzero", (nz == 0) == (a == [4]uint64{}))
	var bs [32]uint8
	fiatFqToBytes(&bs, &a)
	var bad uint64
	for i := 0; i < 32; i++ {
		bad += verifB2U(bs[i] != uint8(a[i/8]>>(8*uint(i%8))))
	}
	verifAssert("fiatFqToBytes.littleendian", bad == 0)
	var back [4]uint64
	fiatFqFromBytes(&back, &bs)
	verifAssert("fiatFqFromBytes.ToBytes", back == a)
	var raw [32]uint8
	copy(raw[:], verifBytes(32))
	var el [4]uint64
	fiatFqFromBytes(&el, &raw)
	var out [32]uint8
	fiatFqToBytes(&out, &el)
	verifAssert("fiatFqToBytes.FromBytes", out == raw)
}
