//go:build verif_e1

package unanimity

import (
	"github.com/bronlabs/errs-go/errs"

	"github.com/bronlabs/bron-crypto/pkg/base/serde"
)

// E1 harness for (*Unanimity).UnmarshalCBOR (property C12), the path
// UnmarshalCBOR -> unanimityDTO -> NewUnanimityAccessStructure.
//
// serde.UnmarshalCBOR[unanimityDTO] (reflection-based CBOR) is replaced by a CONTRACT returning an
// ARBITRARY DTO - any subset of the pool {0, 1, 2, 9} as keys with arbitrary bool values, or a nil
// map - or an error. The DTO is a struct value here, so there is no nil-pointer case. In the native
// twin the same DTO is really encoded (serde.MarshalCBORTagged, as MarshalCBOR does) and decoded by
// the real decoder.
//
// Validity predicate, as documented on NewUnanimityAccessStructure: at least 2 shareholders, 0 is
// not a shareholder.

var (
	verifDTO      unanimityDTO // ghost: what the contract returns
	verifDTOFail  bool         // ghost: the contract reports a decoding error
	verifUnmCalls int          // ghost: calls of the contract
)

func verifUnmarshal(data []byte) (unanimityDTO, error) {
	verifUnmCalls++
	if verifDTOFail {
		return unanimityDTO{}, errs.New("harness: cbor decoding failed")
	}
	return verifDTO, nil
}

// verifRegister replaces serde.Register (reflection, the cbor tag registry), which the package
// initialiser calls; the package's error sentinels live in the same initialiser.
func verifRegister(tag uint64) {}

func verifReplacements() map[string]any {
	return map[string]any{
		"github.com/bronlabs/bron-crypto/pkg/base/serde.UnmarshalCBOR[...]": verifUnmarshal,
		"github.com/bronlabs/bron-crypto/pkg/base/serde.Register[...]":      verifRegister,
	}
}

func verifPool() [4]ID { return [4]ID{0, 1, 2, 9} }

func verifDrawDTO() (dto unanimityDTO, in [4]bool, n int) {
	if verifBool() {
		dto.Ps = map[ID]bool{}
	}
	pool := verifPool()
	for i, id := range pool {
		if dto.Ps != nil && verifBool() {
			dto.Ps[id] = verifU8()&1 == 1 // only keys count
			in[i] = true
			n++
		}
	}
	return dto, in, n
}

func verifWire(dto unanimityDTO, garbage bool) []byte {
	if !verifNative() {
		return nil
	}
	if garbage {
		return []byte{0xff}
	}
	data, err := serde.MarshalCBORTagged(dto, UnanimityAccessStructureTag)
	if err != nil {
		panic(err)
	}
	return data
}

func verifDecode(u *Unanimity, data []byte) (err error, panicked bool) {
	defer func() {
		if r := recover(); r != nil {
			panicked = true
		}
	}()
	return u.UnmarshalCBOR(data), false
}

func H_unanimitydto_decode() {
	dto, in, n := verifDrawDTO()
	verifDTO = dto
	var u Unanimity
	err, panicked := verifDecode(&u, verifWire(dto, false))
	verifReach("una.reach")
	verifAssert("una.no_panic", !panicked)
	if panicked {
		return
	}
	valid := !in[0] && n >= 2
	verifAssert("una.accepted_iff_valid", (err == nil) == valid)
	if err == nil {
		verifAssert("una.accepted.at_least_two", u.Shareholders().Size() >= 2)
		verifAssert("una.accepted.zero_not_a_shareholder", !u.Shareholders().Contains(0))
		verifAssert("una.accepted.size", u.Shareholders().Size() == n)
		pool := verifPool()
		same := true
		for i, id := range pool {
			same = same && u.Shareholders().Contains(id) == in[i]
		}
		verifAssert("una.accepted.shareholders_are_dto_keys", same)
	} else {
		verifAssert("una.rejected.receiver_untouched", u.ps == nil)
	}
	verifAssertGhost("una.decoder_called_once", verifUnmCalls == 1)
}

func H_unanimitydto_decoder_error() {
	verifDTOFail = true
	var u Unanimity
	err, panicked := verifDecode(&u, verifWire(unanimityDTO{}, true))
	verifReach("una_err.reach")
	verifAssert("una_err.no_panic", !panicked)
	verifAssert("una_err.rejected", err != nil)
	verifAssert("una_err.receiver_untouched", u.ps == nil)
}

// H_unanimitydto_MUSTFAIL: control - claims that one shareholder is enough.
func H_unanimitydto_MUSTFAIL() {
	dto, in, n := verifDrawDTO()
	verifDTO = dto
	var u Unanimity
	err, panicked := verifDecode(&u, verifWire(dto, false))
	verifReach("una_mustfail.reach")
	wrong := !in[0] && n >= 1
	verifAssert("una_mustfail.wrong_minimum", !panicked && (err == nil) == wrong)
}
