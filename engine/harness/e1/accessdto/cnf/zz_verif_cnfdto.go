//go:build verif_e1

package cnf

import (
	"github.com/bronlabs/errs-go/errs"

	"github.com/bronlabs/bron-crypto/pkg/base/serde"
)

// E1 harness for (*CNF).UnmarshalCBOR (property C12), the path
// UnmarshalCBOR -> cnfDTO -> NewCNFAccessStructure (normaliseCNF).
//
// serde.UnmarshalCBOR[*cnfDTO] (reflection-based CBOR) is replaced by a CONTRACT returning an
// ARBITRARY DTO built by the harness: 0, 1 or 2 "maximal unqualified sets", each any subset of the
// pool {0, 1, 2, 3} (so: empty sets, sets containing the ID 0, duplicates of one another, subsets of
// one another) or a nil map (CBOR null inside the array); the DTO's own "shareholders" field is
// arbitrary too (the decoder ignores it); or the nil DTO pointer (CBOR null at top level); or an
// error. In the native twin the same DTO is really encoded and decoded by the real decoder.
//
// Validity predicate, read off NewCNFAccessStructure / normaliseCNF: at least one set; no set is
// nil or empty; no set contains the ID 0; the union of the sets has at least 2 members. An accepted
// structure holds exactly the distinct inclusion-maximal input sets, and their union as
// shareholders.

var (
	verifDTO      *cnfDTO
	verifDTOFail  bool
	verifUnmCalls int
)

func verifUnmarshal(data []byte) (*cnfDTO, error) {
	verifUnmCalls++
	if verifDTOFail {
		return nil, errs.New("harness: cbor decoding failed")
	}
	// (verifDTO == nil models CBOR null / undefined: the real decoder returns the nil pointer without
	// an error, and the method under test has to check for it — it used to dereference it; repaired
	// in /repo, see known_findings.json)
	return verifDTO, nil
}

// verifRegister replaces serde.Register (reflection, the cbor tag registry), which the package
// initialiser calls; the package's error sentinels live in the same initialiser.
func verifRegister(tag uint64) {}

func verifReplacements() map[string]any {
	return map[string]any{
		"github.com/bronlabs/bron-crypto/pkg/base/serde.UnmarshalCBOR[...]": verifUnmarshal,
		"github.com/bronlabs/bron-crypto/pkg/base/serde.Register[...]":      verifRegister,
	}
}

const verifPoolSize = 4 // IDs 0..3; a set is a bit mask over them

// verifDrawSet: a subset of the pool as a mask, or (nilMap) a nil map.
func verifDrawSet() (m map[ID]bool, mask uint, nilMap bool) {
	k := verifLen(0, 1<<verifPoolSize) // 16 = nil map
	if k == 1<<verifPoolSize {
		return nil, 0, true
	}
	m = map[ID]bool{}
	for i := 0; i < verifPoolSize; i++ {
		if k>>uint(i)&1 == 1 {
			m[ID(i)] = verifU8()&1 == 1 // only keys count
		}
	}
	return m, uint(k), false
}

func verifDrawDTO(maxSets int) (dto *cnfDTO, masks []uint) {
	dto = &cnfDTO{}
	if verifBool() {
		dto.Shareholders = map[ID]bool{ID(verifU8()): true} // ignored by the decoder
	}
	n := verifLen(0, maxSets)
	for i := 0; i < n; i++ {
		m, mask, _ := verifDrawSet()
		dto.MaximalUnqualifiedSets = append(dto.MaximalUnqualifiedSets, m)
		masks = append(masks, mask)
	}
	return dto, masks
}

func verifWire(dto *cnfDTO, garbage bool) []byte {
	if !verifNative() {
		return nil
	}
	if garbage {
		return []byte{0xff}
	}
	if dto == nil {
		return []byte{0xf6}
	}
	data, err := serde.MarshalCBORTagged(dto, CNFAccessStructureTag)
	if err != nil {
		panic(err)
	}
	return data
}

func verifDecode(c *CNF, data []byte) (err error, panicked bool) {
	defer func() {
		if r := recover(); r != nil {
			panicked = true
		}
	}()
	return c.UnmarshalCBOR(data), false
}

func verifPopcount(m uint) int {
	n := 0
	for ; m != 0; m &= m - 1 {
		n++
	}
	return n
}

// verifSetMask: a set of the decoded structure as a mask over the pool; ok = false if it has a
// member outside the pool.
func verifSetMask(ids []ID) (mask uint, ok bool) {
	for _, id := range ids {
		if id >= verifPoolSize {
			return 0, false
		}
		mask |= 1 << uint(id)
	}
	return mask, true
}

func verifCheck(id string, maxSets int) {
	dto, masks := verifDrawDTO(maxSets)
	verifDTO = dto
	var c CNF
	err, panicked := verifDecode(&c, verifWire(dto, false))
	verifReach(id + ".reach")
	verifAssert(id+".no_panic", !panicked)
	if panicked {
		return
	}
	// the predicate, on masks
	valid := len(masks) >= 1
	union := uint(0)
	for _, m := range masks {
		if m == 0 || m&1 == 1 { // empty (or nil), or contains the ID 0
			valid = false
		}
		union |= m
	}
	if verifPopcount(union) < 2 {
		valid = false
	}
	verifAssert(id+".accepted_iff_valid", (err == nil) == valid)
	if err != nil {
		verifAssert(id+".rejected.receiver_untouched", c.shareholders == nil && c.maximalUnqualifiedSets == nil)
		return
	}
	// accepted: shareholders = union, no 0, at least 2
	sh, okSh := verifSetMask(c.Shareholders().List())
	verifAssert(id+".accepted.shareholders_are_the_union", okSh && sh == union)
	verifAssert(id+".accepted.zero_not_a_shareholder", !c.Shareholders().Contains(0))
	verifAssert(id+".accepted.at_least_two_shareholders", c.Shareholders().Size() >= 2)
	// the stored sets: each is an input set, non-empty, without 0; pairwise incomparable; every
	// input set is contained in a stored one
	var stored []uint
	wellFormed := true
	for _, s := range c.maximalUnqualifiedSets {
		m, ok := verifSetMask(s.List())
		isInput := false
		for _, in := range masks {
			isInput = isInput || in == m
		}
		wellFormed = wellFormed && ok && isInput && m != 0 && m&1 == 0
		stored = append(stored, m)
	}
	verifAssert(id+".accepted.stored_sets_are_input_sets_without_zero", wellFormed)
	antichain := true
	for i, a := range stored {
		for j, b := range stored {
			if i != j && a&^b == 0 {
				antichain = false
			}
		}
	}
	verifAssert(id+".accepted.stored_sets_pairwise_incomparable", antichain)
	covered := true
	for _, in := range masks {
		c1 := false
		for _, m := range stored {
			c1 = c1 || in&^m == 0
		}
		covered = covered && c1
	}
	verifAssert(id+".accepted.every_input_set_inside_a_stored_set", covered)
	verifAssertGhost(id+".decoder_called_once", verifUnmCalls == 1)
}

// H_cnfdto_decode: up to 2 sets (1 + 17 + 17^2 shapes).
func H_cnfdto_decode() { verifCheck("cnf", 2) }

// thorough: up to 3 sets (2 * (1 + 17 + 17^2 + 17^3) shapes).
func H_cnfdto_decode_3sets() { verifCheck("cnf3", 3) }

// H_cnfdto_null: CBOR null decodes to the nil DTO pointer without an error; the decoder must
// reject it, not panic.
func H_cnfdto_null() {
	verifDTO = nil
	var c CNF
	err, panicked := verifDecode(&c, verifWire(nil, false))
	verifReach("cnf_null.reach")
	verifAssert("cnf_null.no_panic", !panicked)
	verifAssert("cnf_null.rejected", panicked || err != nil)
}

func H_cnfdto_decoder_error() {
	verifDTOFail = true
	var c CNF
	err, panicked := verifDecode(&c, verifWire(nil, true))
	verifReach("cnf_err.reach")
	verifAssert("cnf_err.no_panic", !panicked)
	verifAssert("cnf_err.rejected", err != nil)
	verifAssert("cnf_err.receiver_untouched", c.shareholders == nil && c.maximalUnqualifiedSets == nil)
}

// H_cnfdto_MUSTFAIL: control - claims that a single shareholder is enough.
func H_cnfdto_MUSTFAIL() {
	dto, masks := verifDrawDTO(1)
	verifDTO = dto
	var c CNF
	err, panicked := verifDecode(&c, verifWire(dto, false))
	verifReach("cnf_mustfail.reach")
	wrong := len(masks) >= 1
	for _, m := range masks {
		if m == 0 || m&1 == 1 {
			wrong = false
		}
	}
	verifAssert("cnf_mustfail.wrong_minimum", !panicked && (err == nil) == wrong)
}
