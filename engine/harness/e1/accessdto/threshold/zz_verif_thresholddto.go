//go:build verif_e1

package threshold

import (
	"github.com/bronlabs/errs-go/errs"

	"github.com/bronlabs/bron-crypto/pkg/base/serde"
)

// E1 harness for (*Threshold).UnmarshalCBOR (property C12: "decoding either fails or returns an
// object that satisfies the same validity rules its constructor enforces"), the path
// UnmarshalCBOR -> thresholdDTO -> NewThresholdAccessStructure.
//
// The reflection-based CBOR decoder serde.UnmarshalCBOR[*thresholdDTO] is replaced by a CONTRACT
// that returns an ARBITRARY DTO: the DTO the harness built from its inputs and left in the ghost
// variable verifDTO (threshold: a symbolic 64-bit value; shareholders: any subset of the pool
// {0, 1, 2, 9} with arbitrary bool values, or a nil map; or the nil pointer, which is what CBOR
// `null` decodes to), or an error. In the native twin the same DTO is really encoded
// (serde.MarshalCBORTagged, as MarshalCBOR does; `null` is the byte 0xf6) and goes through the real
// decoder, so counterexamples are confirmed against the real code.
//
// Validity predicate, as documented on NewThresholdAccessStructure: 0 is not a shareholder,
// 2 <= t, t <= number of shareholders.

var (
	verifDTO      *thresholdDTO // ghost: what the contract returns
	verifDTOFail  bool          // ghost: the contract reports a decoding error
	verifUnmCalls int           // ghost: calls of the contract
)

func verifUnmarshal(data []byte) (*thresholdDTO, error) {
	verifUnmCalls++
	if verifDTOFail {
		return nil, errs.New("harness: cbor decoding failed")
	}
	// (verifDTO == nil models CBOR null / undefined: the real decoder returns the nil pointer without
	// an error, and the method under test has to check for it — it used to dereference it; repaired
	// in /repo, see known_findings.json)
	return verifDTO, nil
}

// verifRegister replaces serde.Register (reflection, the cbor tag registry): the package
// initialiser calls it, and the package's error sentinels live in the same initialiser. The
// registry matters only to the real decoder, which is replaced as well.
func verifRegister(tag uint64) {}

func verifReplacements() map[string]any {
	return map[string]any{
		"github.com/bronlabs/bron-crypto/pkg/base/serde.UnmarshalCBOR[...]": verifUnmarshal,
		"github.com/bronlabs/bron-crypto/pkg/base/serde.Register[...]":      verifRegister,
	}
}

func verifPool() [4]ID { return [4]ID{0, 1, 2, 9} }

// verifDrawDTO builds a non-nil DTO; in[i] tells whether pool[i] is a key.
func verifDrawDTO(t uint) (dto *thresholdDTO, in [4]bool, n int) {
	dto = &thresholdDTO{T: t}
	if verifBool() {
		dto.Ps = map[ID]bool{}
	}
	pool := verifPool()
	for i, id := range pool {
		if dto.Ps != nil && verifBool() {
			dto.Ps[id] = verifU8()&1 == 1 // the value is ignored by the decoder: only keys count
			in[i] = true
			n++
		}
	}
	return dto, in, n
}

// verifWire: the bytes handed to UnmarshalCBOR. Interpreter: irrelevant (the contract ignores them).
func verifWire(dto *thresholdDTO, garbage bool) []byte {
	if !verifNative() {
		return nil
	}
	if garbage {
		return []byte{0xff}
	}
	if dto == nil {
		return []byte{0xf6} // CBOR null
	}
	data, err := serde.MarshalCBORTagged(dto, ThresholdAccessStructureTag)
	if err != nil {
		panic(err)
	}
	return data
}

func verifDecode(a *Threshold, data []byte) (err error, panicked bool) {
	defer func() {
		if r := recover(); r != nil {
			panicked = true
		}
	}()
	return a.UnmarshalCBOR(data), false
}

// H_thresholddto_decode: every non-nil DTO.
func H_thresholddto_decode() {
	t := verifUint()
	dto, in, n := verifDrawDTO(t)
	verifDTO = dto
	var a Threshold
	err, panicked := verifDecode(&a, verifWire(dto, false))
	verifReach("thr.reach")
	verifAssert("thr.no_panic", !panicked)
	if panicked {
		return
	}
	valid := !in[0] && t >= 2 && t <= uint(n)
	verifAssert("thr.accepted_iff_valid", (err == nil) == valid)
	if err == nil {
		verifAssert("thr.accepted.threshold_is_dto_threshold", a.Threshold() == t)
		verifAssert("thr.accepted.threshold_in_range", a.Threshold() >= 2 && a.Threshold() <= uint(a.Shareholders().Size()))
		verifAssert("thr.accepted.zero_not_a_shareholder", !a.Shareholders().Contains(0))
		verifAssert("thr.accepted.size", a.Shareholders().Size() == n)
		pool := verifPool()
		same := true
		for i, id := range pool {
			same = same && a.Shareholders().Contains(id) == in[i]
		}
		verifAssert("thr.accepted.shareholders_are_dto_keys", same)
	} else {
		verifAssert("thr.rejected.receiver_untouched", a.ps == nil && a.t == 0)
	}
	verifAssertGhost("thr.decoder_called_once", verifUnmCalls == 1)
}

// H_thresholddto_null: CBOR null decodes to the nil DTO pointer without an error; the decoder must
// reject it, not panic.
func H_thresholddto_null() {
	verifDTO = nil
	var a Threshold
	err, panicked := verifDecode(&a, verifWire(nil, false))
	verifReach("thr_null.reach")
	verifAssert("thr_null.no_panic", !panicked)
	verifAssert("thr_null.rejected", panicked || err != nil)
}

// H_thresholddto_decoder_error: an error of the CBOR layer is passed on.
func H_thresholddto_decoder_error() {
	verifDTOFail = true
	var a Threshold
	err, panicked := verifDecode(&a, verifWire(nil, true))
	verifReach("thr_err.reach")
	verifAssert("thr_err.no_panic", !panicked)
	verifAssert("thr_err.rejected", err != nil)
	verifAssert("thr_err.receiver_untouched", a.ps == nil && a.t == 0)
}

// H_thresholddto_MUSTFAIL: control - claims that t >= 1 is enough.
func H_thresholddto_MUSTFAIL() {
	t := verifUint()
	dto, in, n := verifDrawDTO(t)
	verifDTO = dto
	var a Threshold
	err, panicked := verifDecode(&a, verifWire(dto, false))
	verifReach("thr_mustfail.reach")
	wrong := !in[0] && t >= 1 && t <= uint(n)
	verifAssert("thr_mustfail.wrong_lower_bound", !panicked && (err == nil) == wrong)
}
