//go:build verif_e1

package hierarchical

import (
	"github.com/bronlabs/errs-go/errs"

	"github.com/bronlabs/bron-crypto/pkg/base/serde"
)

// E1 harness for (*HierarchicalConjunctiveThreshold).UnmarshalCBOR (property C12), the path
// UnmarshalCBOR -> hierarchicalConjunctiveThresholdDTO -> (per level) (*ThresholdLevel).UnmarshalCBOR
// -> thresholdLevelDTO -> NewHierarchicalConjunctiveThresholdAccessStructure.
//
// Two CONTRACTS replace the reflection-based CBOR decoder:
//
//	serde.UnmarshalCBOR[*hierarchicalConjunctiveThresholdDTO]   what the cbor library does for this
//	    type: an error; or the nil pointer (CBOR null); or a DTO whose Levels are, element by element,
//	    nil (CBOR null) or a fresh ThresholdLevel on which the REAL (*ThresholdLevel).UnmarshalCBOR
//	    was run (the type implements cbor.Unmarshaler) - an error of an element fails the whole decoding.
//	serde.UnmarshalCBOR[thresholdLevelDTO]                      returns the ARBITRARY level DTO the
//	    harness prepared: a symbolic threshold (any int) and a party list from a corpus with nil, empty,
//	    the ID 0, duplicates, overlaps between levels.
//
// In the native twin the same content is really encoded ({"levels": [level | null, ...]} with the tag
// MarshalCBOR uses) and decoded by the real decoder.
//
// Validity predicate = what the level decoder and the constructor document: at least one level; no
// nil level; every level has threshold > 0, a non-empty party list and no party 0; thresholds
// strictly increasing; levels pairwise disjoint; every threshold <= number of distinct parties up
// to and including its level.

type verifLevelSpec struct {
	isNil bool
	dto   thresholdLevelDTO
}

var (
	verifLevels     []verifLevelSpec // ghost: the content of the message
	verifCurLevel   int              // ghost: the level being decoded
	verifNilDTO     bool             // ghost: top-level CBOR null
	verifDTOFail    bool             // ghost: the CBOR layer fails
	verifOuterCalls int
	verifLevelCalls int
)

func verifUnmarshalOuter(data []byte) (*hierarchicalConjunctiveThresholdDTO, error) {
	verifOuterCalls++
	if verifDTOFail {
		return nil, errs.New("harness: cbor decoding failed")
	}
	if verifNilDTO {
		// CBOR null / undefined: the real decoder returns the nil pointer without an error, and the
		// method under test has to check for it (it used to dereference it; repaired in /repo)
		return nil, nil
	}
	dto := &hierarchicalConjunctiveThresholdDTO{}
	for i := range verifLevels {
		if verifLevels[i].isNil {
			dto.Levels = append(dto.Levels, nil)
			continue
		}
		verifCurLevel = i
		l := new(ThresholdLevel)
		if err := l.UnmarshalCBOR(nil); err != nil { // the REAL element decoder
			return nil, errs.Wrap(err).WithMessage("harness: element decoder failed")
		}
		dto.Levels = append(dto.Levels, l)
	}
	return dto, nil
}

func verifUnmarshalLevel(data []byte) (thresholdLevelDTO, error) {
	verifLevelCalls++
	return verifLevels[verifCurLevel].dto, nil
}

// verifRegister replaces serde.Register (reflection, the cbor tag registry), which the package
// initialiser calls; the package's error sentinels live in the same initialiser.
func verifRegister(tag uint64) {}

func verifReplacements() map[string]any {
	const pkg = "github.com/bronlabs/bron-crypto/pkg/mpc/sharing/accessstructures/hierarchical."
	return map[string]any{
		"github.com/bronlabs/bron-crypto/pkg/base/serde.UnmarshalCBOR[*" + pkg + "hierarchicalConjunctiveThresholdDTO]": verifUnmarshalOuter,
		"github.com/bronlabs/bron-crypto/pkg/base/serde.UnmarshalCBOR[" + pkg + "thresholdLevelDTO]":                    verifUnmarshalLevel,
		"github.com/bronlabs/bron-crypto/pkg/base/serde.Register[...]":                                                  verifRegister,
	}
}

// the corpus of party lists (IDs 0..6); index len(corpus) = nil level
func verifCorpus() [][]ID {
	return [][]ID{
		nil, {}, {1}, {2}, {1, 2}, {2, 3}, {0}, {0, 4}, {3, 3}, {4, 5, 6}, {1, 1, 2},
	}
}

func verifSmallCorpus() [][]ID {
	return [][]ID{{}, {1}, {1, 2}, {2, 3}, {0, 4}, {3, 3}, {4, 5, 6}}
}

func verifDraw(corpus [][]ID, maxLevels int) []verifLevelSpec {
	n := verifLen(0, maxLevels)
	var out []verifLevelSpec
	for i := 0; i < n; i++ {
		k := verifLen(0, len(corpus))
		if k == len(corpus) {
			out = append(out, verifLevelSpec{isNil: true})
			continue
		}
		out = append(out, verifLevelSpec{dto: thresholdLevelDTO{Threshold: verifInt(), Parties: corpus[k]}})
	}
	return out
}

type verifWireDTO struct {
	Levels []*thresholdLevelDTO `cbor:"levels"`
}

func verifWire(levels []verifLevelSpec, null, garbage bool) []byte {
	if !verifNative() {
		return nil
	}
	if garbage {
		return []byte{0xff}
	}
	if null {
		return []byte{0xf6}
	}
	w := verifWireDTO{}
	for i := range levels {
		if levels[i].isNil {
			w.Levels = append(w.Levels, nil)
		} else {
			w.Levels = append(w.Levels, &levels[i].dto)
		}
	}
	data, err := serde.MarshalCBORTagged(w, HierarchicalConjunctiveThresholdAccessStructureTag)
	if err != nil {
		panic(err)
	}
	return data
}

func verifDecode(h *HierarchicalConjunctiveThreshold, data []byte) (err error, panicked bool) {
	defer func() {
		if r := recover(); r != nil {
			panicked = true
		}
	}()
	return h.UnmarshalCBOR(data), false
}

func verifMask(ids []ID) (mask uint, ok bool) {
	for _, id := range ids {
		if id > 6 {
			return 0, false
		}
		mask |= 1 << uint(id)
	}
	return mask, true
}

func verifPopcount(m uint) int {
	n := 0
	for ; m != 0; m &= m - 1 {
		n++
	}
	return n
}

func verifCheck(id string, corpus [][]ID, maxLevels int) {
	levels := verifDraw(corpus, maxLevels)
	verifLevels = levels
	var h HierarchicalConjunctiveThreshold
	err, panicked := verifDecode(&h, verifWire(levels, false, false))
	verifReach(id + ".reach")
	verifAssert(id+".no_panic", !panicked)
	if panicked {
		return
	}
	// the predicate
	valid := len(levels) >= 1
	cum, prev := uint(0), 0
	for i := range levels {
		l := &levels[i]
		if !valid {
			break
		}
		if l.isNil || len(l.dto.Parties) == 0 {
			valid = false
			break
		}
		m, _ := verifMask(l.dto.Parties)
		if m&1 == 1 || m&cum != 0 {
			valid = false
			break
		}
		cum |= m
		if l.dto.Threshold <= prev || l.dto.Threshold > verifPopcount(cum) {
			valid = false
			break
		}
		prev = l.dto.Threshold
	}
	verifAssert(id+".accepted_iff_valid", (err == nil) == valid)
	if err != nil {
		verifAssert(id+".rejected.receiver_untouched", h.levels == nil)
		return
	}
	same := len(h.levels) == len(levels)
	noDup, noZero := true, true
	for i := 0; same && i < len(levels); i++ {
		got := h.levels[i]
		gm, ok := verifMask(got.parties)
		wm, _ := verifMask(levels[i].dto.Parties)
		same = same && ok && got.threshold == levels[i].dto.Threshold && gm == wm
		noDup = noDup && len(got.parties) == verifPopcount(gm)
		noZero = noZero && gm&1 == 0
	}
	verifAssert(id+".accepted.levels_are_the_decoded_levels", same)
	verifAssert(id+".accepted.stored_parties_distinct", noDup)
	verifAssert(id+".accepted.zero_not_a_party", noZero)
	verifAssertGhost(id+".decoders_called", verifOuterCalls == 1 && verifLevelCalls == len(levels))
}

// H_hierdto_decode: up to 2 levels over the full corpus.
func H_hierdto_decode() { verifCheck("hier", verifCorpus(), 2) }

// thorough: up to 3 levels over the small corpus.
func H_hierdto_decode_3levels() { verifCheck("hier3", verifSmallCorpus(), 3) }

func H_hierdto_null() {
	verifNilDTO = true
	var h HierarchicalConjunctiveThreshold
	err, panicked := verifDecode(&h, verifWire(nil, true, false))
	verifReach("hier_null.reach")
	verifAssert("hier_null.no_panic", !panicked)
	verifAssert("hier_null.rejected", panicked || err != nil)
}

func H_hierdto_decoder_error() {
	verifDTOFail = true
	var h HierarchicalConjunctiveThreshold
	err, panicked := verifDecode(&h, verifWire(nil, false, true))
	verifReach("hier_err.reach")
	verifAssert("hier_err.no_panic", !panicked)
	verifAssert("hier_err.rejected", err != nil)
	verifAssert("hier_err.receiver_untouched", h.levels == nil)
}

// H_hierdto_MUSTFAIL: control - claims that thresholds need only be non-decreasing.
func H_hierdto_MUSTFAIL() {
	levels := []verifLevelSpec{
		{dto: thresholdLevelDTO{Threshold: verifInt(), Parties: []ID{1, 2}}},
		{dto: thresholdLevelDTO{Threshold: verifInt(), Parties: []ID{3}}},
	}
	verifLevels = levels
	var h HierarchicalConjunctiveThreshold
	err, panicked := verifDecode(&h, verifWire(levels, false, false))
	verifReach("hier_mustfail.reach")
	t1, t2 := levels[0].dto.Threshold, levels[1].dto.Threshold
	wrong := t1 > 0 && t1 <= 2 && t2 >= t1 && t2 <= 3
	verifAssert("hier_mustfail.nondecreasing_is_enough", !panicked && (err == nil) == wrong)
}
