//go:build verif_e1

package bf128

// E1 harnesses for pkg/base/binaryfields/bf128: GF(2)[X]/(X^128+X^7+X^2+X+1), limbs
// little-endian (el[0] = coefficients of X^0..X^63).

func verifElem() *FieldElement { return &FieldElement{verifU64(), verifU64()} }

// specXtime is multiplication by X modulo X^128+X^7+X^2+X+1 (X^128 = X^7+X^2+X+1 = 0x87).
func specXtime(a [2]uint64) [2]uint64 {
	carry := a[1] >> 63
	return [2]uint64{(a[0] << 1) ^ verifIteU64(carry == 1, 0x87, 0), (a[1] << 1) | (a[0] >> 63)}
}

func basis(k int) *FieldElement {
	e := &FieldElement{}
	e[k/64] = 1 << uint(k%64)
	return e
}

// H_bf128_add: Add = XOR (also Sub, Op), Neg = identity, Double = 0, operands untouched.
func H_bf128_add() {
	a, b := verifElem(), verifElem()
	a0, b0 := *a, *b
	verifReach("bf128_add")
	r := a.Add(b)
	verifAssert("Add.xor", r[0] == a0[0]^b0[0] && r[1] == a0[1]^b0[1])
	verifAssert("Add.operands_untouched", *a == a0 && *b == b0)
	s := a.Sub(b)
	verifAssert("Sub.xor", s[0] == a0[0]^b0[0] && s[1] == a0[1]^b0[1])
	o := a.Op(b)
	verifAssert("Op.xor", *o == *r)
	n := a.Neg()
	verifAssert("Neg.identity", *n == a0 && n != a)
	d := a.Double()
	verifAssert("Double.zero", d[0] == 0 && d[1] == 0)
	verifAssert("Add.self_is_zero", a.Add(a).IsZero())
}

// H_bf128_mul_left_basis: Mul(a, X^k) == a*X^k mod f for k = 0..127, a fully symbolic.
// Stated inductively so that every query stays shallow: Mul(a, X^0) == a and
// Mul(a, X^(k+1)) == X * Mul(a, X^k) mod f; together (induction on k) these give
// Mul(a, X^k) == specXtime^k(a). k = 0..63 are additionally checked against the unrolled
// specification directly.
func H_bf128_mul_left_basis() {
	a := verifElem()
	verifReach("bf128_mul_left_basis")
	prev := a.Mul(basis(0))
	verifAssert("Mul.a_times_X0", prev[0] == a[0] && prev[1] == a[1])
	direct := [2]uint64{a[0], a[1]}
	for k := 1; k < 128; k++ {
		r := a.Mul(basis(k))
		want := specXtime([2]uint64{prev[0], prev[1]})
		verifAssert("Mul.a_times_Xk.step", (r[0]^want[0])|(r[1]^want[1]) == 0)
		if k < 64 {
			direct = specXtime(direct)
			verifAssert("Mul.a_times_Xk.direct", (r[0]^direct[0])|(r[1]^direct[1]) == 0)
		}
		prev = r
	}
}

// H_bf128_mul_right_basis: Mul(X^k, b) == b*X^k mod f for k = 0..127, b fully symbolic
// (same inductive formulation).
func H_bf128_mul_right_basis() {
	b := verifElem()
	verifReach("bf128_mul_right_basis")
	prev := basis(0).Mul(b)
	verifAssert("Mul.X0_times_b", prev[0] == b[0] && prev[1] == b[1])
	direct := [2]uint64{b[0], b[1]}
	for k := 1; k < 128; k++ {
		r := basis(k).Mul(b)
		want := specXtime([2]uint64{prev[0], prev[1]})
		verifAssert("Mul.Xk_times_b.step", (r[0]^want[0])|(r[1]^want[1]) == 0)
		if k < 64 {
			direct = specXtime(direct)
			verifAssert("Mul.Xk_times_b.direct", (r[0]^direct[0])|(r[1]^direct[1]) == 0)
		}
		prev = r
	}
}

// H_bf128_mul_MUSTFAIL: wrong twin (reduction polynomial X^7+X^2+X instead of X^7+X^2+X+1).
func H_bf128_mul_MUSTFAIL() {
	a := verifElem()
	verifReach("bf128_mul_mustfail")
	carry := a[1] >> 63
	want := [2]uint64{(a[0] << 1) ^ verifIteU64(carry == 1, 0x86, 0), (a[1] << 1) | (a[0] >> 63)}
	r := a.Mul(basis(1))
	verifAssert("Mul.wrong", (r[0]^want[0])|(r[1]^want[1]) == 0)
}

// H_bf128_bytes: FromBytes/Bytes round trips and big-endian layout.
func H_bf128_bytes() {
	f := NewField()
	e := verifElem()
	verifReach("bf128_bytes")
	buf := e.Bytes()
	verifAssert("Bytes.len", len(buf) == FieldElementSize)
	var bad uint64
	for i := 0; i < 8; i++ {
		// byte 15-i is bits 8i..8i+7 of limb 0, byte 7-i the same of limb 1
		bad += verifB2U(buf[15-i] != byte(e[0]>>(8*uint(i))))
		bad += verifB2U(buf[7-i] != byte(e[1]>>(8*uint(i))))
	}
	verifAssert("Bytes.bigendian", bad == 0)
	back, err := f.FromBytes(buf)
	verifAssert("FromBytes.Bytes.roundtrip", err == nil && back[0] == e[0] && back[1] == e[1])

	raw := verifBytes(16)
	el, err := f.FromBytes(raw)
	verifAssert("FromBytes.ok", err == nil)
	out := el.Bytes()
	bad = 0
	for i := range raw {
		bad += verifB2U(out[i] != raw[i])
	}
	verifAssert("Bytes.FromBytes.roundtrip", bad == 0)

	n := verifLen(0, 18)
	if n != 16 {
		_, err := f.FromBytes(verifBytes(n))
		verifAssert("FromBytes.badlen", err != nil)
	}
}

// H_bf128_bytes_MUSTFAIL: wrong twin (claims little-endian byte order).
func H_bf128_bytes_MUSTFAIL() {
	e := verifElem()
	verifReach("bf128_bytes_mustfail")
	buf := e.Bytes()
	verifAssert("Bytes.wrong", buf[0] == byte(e[0]))
}

// H_bf128_select: Select, Equal, IsZero, IsOne, Clone.
func H_bf128_select() {
	f := NewField()
	x, y := verifElem(), verifElem()
	c := verifU64()
	verifReach("bf128_select")
	z := f.Select(c, x, y)
	bit := c & 1
	verifAssert("Select.lo", z[0] == verifIteU64(bit == 1, y[0], x[0]))
	verifAssert("Select.hi", z[1] == verifIteU64(bit == 1, y[1], x[1]))
	verifAssert("Equal", x.Equal(y) == (x[0] == y[0] && x[1] == y[1]))
	verifAssert("Equal.refl", x.Equal(x))
	verifAssert("Equal.nil", !x.Equal(nil) && (*FieldElement)(nil).Equal(nil))
	verifAssert("IsZero", x.IsZero() == (x[0] == 0 && x[1] == 0))
	verifAssert("IsOne", x.IsOne() == (x[0] == 1 && x[1] == 0))
	cl := x.Clone()
	verifAssert("Clone", cl != x && *cl == *x)
	verifAssert("Zero.One", f.Zero().IsZero() && f.One().IsOne() && !f.One().IsZero())
}

// H_bf128_select_MUSTFAIL: wrong twin (Select operands the wrong way round).
func H_bf128_select_MUSTFAIL() {
	f := NewField()
	x, y := verifElem(), verifElem()
	c := verifU64()
	verifReach("bf128_select_mustfail")
	z := f.Select(c, x, y)
	verifAssert("Select.wrong", z[0] == verifIteU64(c&1 == 1, x[0], y[0]))
}
