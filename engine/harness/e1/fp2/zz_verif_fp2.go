//go:build verif_e1

package fields

// E1 harnesses for pkg/base/algebra/impl/fields (property C14: "field arithmetic equals the
// mathematics ... inversion, square roots"): the REAL generic QuadraticFieldExtensionImpl (the code
// behind BLS12-381's Fp2) is instantiated with a tiny prime base field GF(p), p ≡ 3 (mod 4), written
// here in plain Go, and the non-residue β = −1 (as in BLS12-381), so that the solver ranges over ALL
// elements a + b·i of GF(p²). Reference semantics are written here: complex-number style product,
// and "is a square" by running over all candidates.
//
// Obligations: Mul / Square / Inv / Div equal the reference; Sqrt returns ok exactly for the
// squares of GF(p²) (0 included) and a returned root squares back to its argument.

import (
	"io"

	"github.com/bronlabs/bron-crypto/pkg/base/ct"
)

type vModulus interface{ p() uint8 }

type vP7 struct{}
type vP11 struct{}
type vP19 struct{}

func (vP7) p() uint8  { return 7 }
func (vP11) p() uint8 { return 11 }
func (vP19) p() uint8 { return 19 }

type mf[P vModulus] struct{ v uint8 }

func (e *mf[P]) mod() uint8 { var m P; return m.p() }

func (e *mf[P]) Set(x *mf[P])       { e.v = x.v }
func (e *mf[P]) SetZero()           { e.v = 0 }
func (e *mf[P]) SetOne()            { e.v = 1 }
func (e *mf[P]) SetUint64(u uint64) { e.v = uint8(u % uint64(e.mod())) }
func (e *mf[P]) Select(choice ct.Choice, x0, x1 *mf[P]) {
	m := uint8(0) - uint8(choice&1)
	e.v = (x0.v &^ m) | (x1.v & m)
}
func (e *mf[P]) Equal(rhs *mf[P]) ct.Bool { return ct.Bool(verifB2U(e.v == rhs.v)) }
func (e *mf[P]) IsZero() ct.Bool          { return ct.Bool(verifB2U(e.v == 0)) }
func (e *mf[P]) IsNonZero() ct.Bool       { return ct.Bool(verifB2U(e.v != 0)) }
func (e *mf[P]) IsOne() ct.Bool           { return ct.Bool(verifB2U(e.v == 1)) }
func (e *mf[P]) Add(l, r *mf[P])          { e.v = (l.v + r.v) % e.mod() }
func (e *mf[P]) Double(x *mf[P])          { e.v = (x.v + x.v) % e.mod() }
func (e *mf[P]) Sub(l, r *mf[P])          { e.v = (l.v + e.mod() - r.v) % e.mod() }
func (e *mf[P]) Neg(x *mf[P])             { e.v = (e.mod() - x.v) % e.mod() }
func (e *mf[P]) Mul(l, r *mf[P])          { e.v = uint8((uint16(l.v) * uint16(r.v)) % uint16(e.mod())) }
func (e *mf[P]) Square(x *mf[P])          { e.v = uint8((uint16(x.v) * uint16(x.v)) % uint16(e.mod())) }
func (e *mf[P]) Inv(x *mf[P]) ct.Bool {
	acc := uint8(0)
	for r := uint8(1); r < e.mod(); r++ {
		hit := uint8(verifB2U(uint8((uint16(r)*uint16(x.v))%uint16(e.mod())) == 1))
		acc |= (uint8(0) - hit) & r
	}
	ok := ct.Bool(verifB2U(x.v != 0))
	e.v = acc
	return ok
}
func (e *mf[P]) Div(l, r *mf[P]) ct.Bool {
	var t mf[P]
	ok := t.Inv(r)
	e.Mul(l, &t)
	return ok
}
func (e *mf[P]) Sqrt(x *mf[P]) ct.Bool {
	found, root := uint8(0), uint8(0)
	for r := uint8(0); r < e.mod(); r++ {
		hit := uint8(verifB2U(uint8((uint16(r)*uint16(r))%uint16(e.mod())) == x.v)) & (1 - found)
		root |= (uint8(0) - hit) & r
		found |= hit
	}
	e.v = root
	return ct.Bool(found)
}
func (e *mf[P]) SetBytes(b []byte) ct.Bool {
	if len(b) != 1 {
		return 0
	}
	e.v = b[0] % e.mod()
	return 1
}
func (e *mf[P]) Bytes() []byte                       { return []byte{e.v} }
func (e *mf[P]) SetRandom(io.Reader) ct.Bool         { e.v = 0; return 1 }
func (e *mf[P]) SetUniformBytes(d ...[]byte) ct.Bool { e.v = 0; return 1 }
func (e *mf[P]) ComponentsBytes() [][]byte           { return [][]byte{e.Bytes()} }
func (e *mf[P]) Degree() uint64                      { return 1 }

// β = −1
type vArith[P vModulus] struct{}

func (vArith[P]) MulByQuadraticNonResidue(out, in *mf[P]) { out.Neg(in) }

type vFp2[P vModulus] = QuadraticFieldExtensionImpl[*mf[P], vArith[P], mf[P]]

func vMk[P vModulus](a, b uint8) *vFp2[P] {
	return &vFp2[P]{U0: mf[P]{v: a}, U1: mf[P]{v: b}}
}

// reference product (a+bi)(c+di) = (ac − bd) + (ad + bc)i in GF(p)
func vRefMul(p, a, b, c, d uint8) (uint8, uint8) {
	P := uint16(p)
	ac, bd := uint16(a)*uint16(c)%P, uint16(b)*uint16(d)%P
	ad, bc := uint16(a)*uint16(d)%P, uint16(b)*uint16(c)%P
	return uint8((ac + P - bd) % P), uint8((ad + bc) % P)
}

// vIsSquare: ∃ (c,d): (c+di)² = a+bi
func vIsSquare(p, a, b uint8) bool {
	var acc uint64
	for c := uint8(0); c < p; c++ {
		for d := uint8(0); d < p; d++ {
			r0, r1 := vRefMul(p, c, d, c, d)
			acc |= verifB2U(r0 == a) & verifB2U(r1 == b)
		}
	}
	return acc == 1
}

func vInputs(p uint8) (a, b uint8) {
	a, b = verifU8(), verifU8()
	verifAssume(a < p)
	verifAssume(b < p)
	return a, b
}

func vFp2Arith[P vModulus](tag string) {
	var m P
	p := m.p()
	a, b := vInputs(p)
	c, d := vInputs(p)
	x, y := vMk[P](a, b), vMk[P](c, d)
	var r vFp2[P]
	verifReach(tag + ".reach")
	r.Mul(x, y)
	m0, m1 := vRefMul(p, a, b, c, d)
	verifAssert(tag+".mul", r.U0.v == m0 && r.U1.v == m1)
	r.Square(x)
	s0, s1 := vRefMul(p, a, b, a, b)
	verifAssert(tag+".square", r.U0.v == s0 && r.U1.v == s1)
	ok := r.Inv(x)
	nz := a != 0 || b != 0
	verifAssert(tag+".inv_ok_iff_nonzero", (ok == ct.True) == nz)
	if nz {
		i0, i1 := vRefMul(p, a, b, r.U0.v, r.U1.v)
		verifAssert(tag+".inv_times_x_is_one", i0 == 1 && i1 == 0)
	}
	ok = r.Div(y, x)
	verifAssert(tag+".div_ok_iff_nonzero", (ok == ct.True) == nz)
	if nz {
		q0, q1 := vRefMul(p, a, b, r.U0.v, r.U1.v)
		verifAssert(tag+".div_times_x_is_y", q0 == c && q1 == d)
	}
}

func vFp2Sqrt[P vModulus](tag string, realOnly, nonRealOnly bool) {
	var m P
	p := m.p()
	a, b := vInputs(p)
	if realOnly {
		verifAssume(b == 0)
	}
	if nonRealOnly {
		verifAssume(b != 0)
	}
	x := vMk[P](a, b)
	r := vMk[P](3, 4) // sentinel
	verifReach(tag + ".reach") // (before the call: the witness query stays trivial; Sqrt is branch-free)
	ok := r.Sqrt(x)
	sq := vIsSquare(p, a, b)
	verifAssert(tag+".ok_iff_square", (ok == ct.True) == sq)
	if ok == ct.True {
		s0, s1 := vRefMul(p, r.U0.v, r.U1.v, r.U0.v, r.U1.v)
		verifAssert(tag+".root_squares_back", s0 == a && s1 == b)
	}
	verifAssert(tag+".argument_unchanged", x.U0.v == a && x.U1.v == b)
}

func H_fp2_arith_gf7()  { vFp2Arith[vP7]("fp2_gf7") }
func H_fp2_arith_gf11() { vFp2Arith[vP11]("fp2_gf11") }

// Sqrt, split by the imaginary part of the argument (b ≠ 0: the generic case; b = 0: the embedded
// base field, where the root is real for a residue and purely imaginary for a non-residue)
func H_fp2_sqrt_nonreal_gf7()  { vFp2Sqrt[vP7]("fp2_sqrt_nonreal_gf7", false, true) }
func H_fp2_sqrt_real_gf7()     { vFp2Sqrt[vP7]("fp2_sqrt_real_gf7", true, false) }
func H_fp2_sqrt_nonreal_gf11() { vFp2Sqrt[vP11]("fp2_sqrt_nonreal_gf11", false, true) }
func H_fp2_sqrt_real_gf11()    { vFp2Sqrt[vP11]("fp2_sqrt_real_gf11", true, false) }
func H_fp2_sqrt_nonreal_gf19() { vFp2Sqrt[vP19]("fp2_sqrt_nonreal_gf19", false, true) }
func H_fp2_sqrt_real_gf19()    { vFp2Sqrt[vP19]("fp2_sqrt_real_gf19", true, false) }

// control: claims that every element of GF(49) is a square
func H_fp2_sqrt_MUSTFAIL() {
	a, b := vInputs(7)
	verifAssume(b != 0)
	r := vMk[vP7](0, 0)
	ok := r.Sqrt(vMk[vP7](a, b))
	verifReach("fp2_mustfail.reach")
	verifAssert("fp2_mustfail.every_element_is_a_square", ok == ct.True)
}
