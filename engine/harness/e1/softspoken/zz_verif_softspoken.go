//go:build verif_e1

package softspoken

import (
	"github.com/bronlabs/bron-crypto/pkg/base/binaryfields/bf128"
	"github.com/bronlabs/bron-crypto/pkg/ot"
	"github.com/bronlabs/bron-crypto/pkg/ot/base/vsot"
)

// E1 harnesses for the SoftSpoken consistency check (Sender.verifyChallenge): the sender accepts
// a challenge response iff EVERY one of the κ = 128 columns satisfies q̇^i = ṫ^i + Δ_i·ẋ.
// All of ṫ, ẋ, the base-OT choice bits Δ and the extended correlations are symbolic.

func verifSenderWith(choices []byte) *Sender {
	return &Sender{receiverSeeds: &vsot.ReceiverOutput{ReceiverOutput: ot.ReceiverOutput[[]byte]{Choices: choices}}}
}

// One symbolic column at a time: column j (case split over all 128 positions) has symbolic ṫ^j,
// q^j and choice bit Δ_j, ẋ is symbolic; every other column is concretely consistent (Δ_i = 0,
// q^i = ṫ^i = a constant). The sender must accept iff column j is consistent — for every j and both
// values of Δ_j. (All columns symbolic at once: 129 paths of ~8 s each, measured; same verdicts.)
func verifColumnSetup(j int, width int) (choices []byte, resp *ChallengeResponse, ext [][]byte, bit byte) {
	choices = make([]byte, Kappa/8)
	bit = verifU8() & 1
	choices[j/8] = bit << (uint(j) % 8)
	resp = &ChallengeResponse{}
	copy(resp.X[:], verifBytes(SigmaBytes))
	ext = make([][]byte, Kappa)
	for i := range ext {
		ext[i] = make([]byte, width)
		if i == j {
			copy(resp.T[i][:], verifBytes(SigmaBytes))
			copy(ext[i], verifBytes(width))
			continue
		}
		for b := 0; b < SigmaBytes; b++ {
			c := byte(i*7 + b*13 + 1)
			resp.T[i][b] = c
			ext[i][width-SigmaBytes+b] = c
		}
	}
	return choices, resp, ext, bit
}

// H_softspoken_verify_column: empty challenge (η = 0).
func H_softspoken_verify_column() {
	j := verifLen(0, Kappa-1)
	choices, resp, ext, bit := verifColumnSetup(j, SigmaBytes)
	s := verifSenderWith(choices)
	verifReach("softspoken_verify_column")
	err := s.verifyChallenge(Challenge{}, resp, ext)
	mask := byte(0) - bit
	var diff uint64
	for b := 0; b < SigmaBytes; b++ {
		diff |= uint64(ext[j][b] ^ resp.T[j][b] ^ (resp.X[b] & mask))
	}
	verifAssert("softspoken.verify.accept_iff_column_consistent", (err == nil) == (diff == 0))
}

// H_softspoken_verify_column_m1: one challenge block χ (a concrete constant, so that the field
// product is linear in the symbolic operand): q̇^j = q^j_2 + χ·q^j_1; the reference uses the
// library's own bf128 arithmetic for that product (bf128.Mul is checked separately in C09's bf128
// batch).
func H_softspoken_verify_column_m1() {
	j := verifLen(0, Kappa-1)
	choices, resp, ext, bit := verifColumnSetup(j, 2*SigmaBytes)
	s := verifSenderWith(choices)
	var chi [SigmaBytes]byte
	chi[SigmaBytes-1] = 0x02
	chi[3] = 0x80
	verifReach("softspoken_verify_column_m1")
	err := s.verifyChallenge(Challenge{chi}, resp, ext)
	f := bf128.NewField()
	chiE, _ := f.FromBytes(chi[:])
	q1, _ := f.FromBytes(ext[j][:SigmaBytes])
	q2, _ := f.FromBytes(ext[j][SigmaBytes:])
	q := q2.Add(q1.Mul(chiE)).Bytes()
	mask := byte(0) - bit
	var diff uint64
	for b := 0; b < SigmaBytes; b++ {
		diff |= uint64(q[b] ^ resp.T[j][b] ^ (resp.X[b] & mask))
	}
	verifAssert("softspoken.verify_m1.accept_iff_column_consistent", (err == nil) == (diff == 0))
}

// H_softspoken_verify_MUSTFAIL: control — the negated specification on the last column.
func H_softspoken_verify_MUSTFAIL() {
	j := Kappa - 1
	choices, resp, ext, bit := verifColumnSetup(j, SigmaBytes)
	s := verifSenderWith(choices)
	verifReach("softspoken_verify_mustfail")
	err := s.verifyChallenge(Challenge{}, resp, ext)
	mask := byte(0) - bit
	var diff uint64
	for b := 0; b < SigmaBytes; b++ {
		diff |= uint64(ext[j][b] ^ resp.T[j][b] ^ (resp.X[b] & mask))
	}
	verifAssert("softspoken.mustfail.negated_spec", (err == nil) == (diff != 0))
}
