//go:build verif_e1

package k256

import (
	"bytes"
	"errors"

	"github.com/bronlabs/bron-crypto/pkg/base/ct"
	"github.com/bronlabs/bron-crypto/pkg/base/curves"
	k256Impl "github.com/bronlabs/bron-crypto/pkg/base/curves/k256/impl"
)

// E1 harnesses for (*Curve).FromCompressed / FromUncompressed (property C13 "decoders admit only
// valid group elements"), pkg/base/curves/k256/curve.go.
//
// What is checked is the decoders' OWN logic: length and tag checks, byte order, which bytes
// become which coordinate, that a point is returned only when the curve-membership test
// (SetFromAffineX / SetAffine) said yes for exactly those coordinates, the sign selection, the
// reserved encoding of the identity, and the absence of panics. 256-bit field arithmetic is not
// encodable, so the field / point operations the decoders call are replaced by CONTRACTS
// (engine feature "replacements"); the contracts are part of the claim and are listed in
// result.json. Exactly these seven functions are replaced:
//
//	(*k256/impl.Fp).SetBytes        len != 32 -> 0, receiver untouched (as the real code); else 1
//	                                and the receiver becomes SOME field element (see verifSomeFp); all-zero bytes
//	                                give an element for which IsZero is 1 (nothing else is assumed
//	                                about which bytes decode to zero)
//	(*k256/impl.Fp).IsZero          for an element produced by the SetBytes contract and not
//	                                modified since: the zero flag chosen there; otherwise the REAL
//	                                IsZero
//	(*k256/impl.Fp).Bytes           32 arbitrary bytes (only the parity bit is used)
//	(*points.ShortWeierstrassPointImpl[..]).SetFromAffineX(x)
//	                                arbitrary ok; ok=1: X := x, Y := some element, Z := 1;
//	                                ok=0: receiver untouched (as the real code's Select)
//	(*…).SetAffine(x, y)            arbitrary ok; ok=1: X := x, Y := y, Z := 1; ok=0: untouched
//	(*…).ToAffine(xOut, yOut)       ok = [Z != 0] (real IsNonZero on Z); ok=1: outputs := some
//	                                elements; ok=0: outputs untouched
//	(*…).Neg(v)                     X := v.X, Y := some element, Z := v.Z
//
// Every contract records its calls (receiver, argument pointers, argument VALUES at call time,
// result) in the ghost variable verifG. The native twin runs the real functions, so verifG stays
// empty there; obligations that read verifG use verifAssertGhost, and the MUSTFAIL controls are
// stated on results only.
//
// Algebraic facts that are NOT checked here (they are about the replaced functions): y -> p - y
// flips the parity of a non-zero y; SetFromAffineX/SetAffine accept exactly the curve points.

type verifFpCall struct {
	recv *k256Impl.Fp
	n    int      // len(data)
	data [32]byte // copy of the argument (when n == 32)
	val  k256Impl.Fp
	zero ct.Bool // the zero flag of the produced element
	ok   ct.Bool
}

type verifGhost struct {
	nElems int // abstract field elements produced so far (verifSomeFp)

	setBytes                [2]verifFpCall
	nSetBytes               int
	isZeroGhost, isZeroReal int // IsZero calls answered from the ghost table / by the real code

	sfaxCalls int
	sfaxRecv  *k256Impl.Point
	sfaxX     *k256Impl.Fp
	sfaxXVal  k256Impl.Fp
	sfaxOK    ct.Bool

	saCalls        int
	saRecv         *k256Impl.Point
	saX, saY       *k256Impl.Fp
	saXVal, saYVal k256Impl.Fp
	saOK           ct.Bool

	taCalls int
	taRecv  *k256Impl.Point
	taOK    ct.Bool

	bytesCalls  int
	bytesRecv   *k256Impl.Fp
	bytesParity byte

	negCalls        int
	negRecv, negArg *k256Impl.Point
}

var verifG verifGhost

// verifSomeFp makes *f "some field element". No code that remains un-replaced looks inside a field
// element (it is only copied by Set/Select, and Z is only ever written by SetOne/SetZero), so the
// element just has to be (a) not fixed and (b) recognisable: the k-th element produced on a path
// is one of the two constants 2k+2, 2k+3, chosen by a fresh symbolic bit. (A fully symbolic
// 256-bit value would have to go through the Montgomery conversion of SetLimbs/SetBytes, the very
// 256-bit multiplication that is not encodable: equalities between such terms time the solver out.)
func verifSomeFp(f *k256Impl.Fp) {
	k := uint64(verifG.nElems)
	verifG.nElems++
	var c0, c1 k256Impl.Fp
	c0.SetUint64(2*k + 2)
	c1.SetUint64(2*k + 3)
	f.Select(ct.Choice(verifU8()&1), &c0, &c1)
}

func verifFpSetBytes(f *k256Impl.Fp, data []byte) ct.Bool {
	k := verifG.nSetBytes
	verifG.nSetBytes++
	if k >= len(verifG.setBytes) {
		panic("harness: more SetBytes calls than a decoder can make")
	}
	c := &verifG.setBytes[k]
	c.recv, c.n = f, len(data)
	if len(data) != k256Impl.FpBytes {
		return 0
	}
	copy(c.data[:], data)
	verifSomeFp(f)
	c.val.Set(f)
	var acc byte
	for _, b := range data {
		acc |= b
	}
	c.zero = ct.Bool(verifU8() & 1)
	verifAssume(verifB2U(acc == 0) <= uint64(c.zero)) // all-zero bytes decode to zero
	c.ok = 1
	return 1
}

func verifFpIsZero(f *k256Impl.Fp) ct.Bool {
	for k := 0; k < verifG.nSetBytes && k < len(verifG.setBytes); k++ {
		c := &verifG.setBytes[k]
		if c.recv == f && c.ok == 1 && verifSameValue(c.val, *f) {
			verifG.isZeroGhost++
			return c.zero
		}
	}
	verifG.isZeroReal++
	return f.IsZero() // the real one (a contract is not applied inside itself)
}

func verifFpBytes(f *k256Impl.Fp) []byte {
	out := verifBytes(k256Impl.FpBytes)
	verifG.bytesCalls++
	verifG.bytesRecv = f
	verifG.bytesParity = out[0] & 1
	return out
}

func verifPtSetFromAffineX(p *k256Impl.Point, x *k256Impl.Fp) ct.Bool {
	verifG.sfaxCalls++
	verifG.sfaxRecv, verifG.sfaxX = p, x
	verifG.sfaxXVal.Set(x)
	ok := ct.Bool(verifU8() & 1)
	verifG.sfaxOK = ok
	if ok == 1 {
		p.X.Set(x)
		verifSomeFp(&p.Y)
		p.Z.SetOne()
	}
	return ok
}

func verifPtSetAffine(p *k256Impl.Point, x, y *k256Impl.Fp) ct.Bool {
	verifG.saCalls++
	verifG.saRecv, verifG.saX, verifG.saY = p, x, y
	verifG.saXVal.Set(x)
	verifG.saYVal.Set(y)
	ok := ct.Bool(verifU8() & 1)
	verifG.saOK = ok
	if ok == 1 {
		p.X.Set(x)
		p.Y.Set(y)
		p.Z.SetOne()
	}
	return ok
}

func verifPtToAffine(p *k256Impl.Point, xOut, yOut *k256Impl.Fp) ct.Bool {
	verifG.taCalls++
	verifG.taRecv = p
	ok := p.Z.IsNonZero() // real, on the Z the contracts wrote
	verifG.taOK = ok
	if ok == 1 {
		verifSomeFp(xOut)
		verifSomeFp(yOut)
	}
	return ok
}

func verifPtNeg(p, v *k256Impl.Point) {
	verifG.negCalls++
	verifG.negRecv, verifG.negArg = p, v
	var x, z k256Impl.Fp
	x.Set(&v.X)
	z.Set(&v.Z)
	p.X.Set(&x)
	verifSomeFp(&p.Y)
	p.Z.Set(&z)
}

func verifReplacements() map[string]any {
	const fp = "(*github.com/bronlabs/bron-crypto/pkg/base/curves/k256/impl.Fp)."
	const pt = "(*github.com/bronlabs/bron-crypto/pkg/base/curves/impl/points.ShortWeierstrassPointImpl)."
	return map[string]any{
		fp + "SetBytes":       verifFpSetBytes,
		fp + "IsZero":         verifFpIsZero,
		fp + "Bytes":          verifFpBytes,
		pt + "SetFromAffineX": verifPtSetFromAffineX,
		pt + "SetAffine":      verifPtSetAffine,
		pt + "ToAffine":       verifPtToAffine,
		pt + "Neg":            verifPtNeg,
	}
}

// ---- helpers

// verifDecode runs a decoder and reports a panic instead of propagating it.
func verifDecode(compressed bool, in []byte) (p *Point, err error, panicked bool) {
	defer func() {
		if r := recover(); r != nil {
			panicked = true
		}
	}()
	c := &Curve{}
	if compressed {
		p, err = c.FromCompressed(in)
	} else {
		p, err = c.FromUncompressed(in)
	}
	return p, err, false
}

func verifNoContractCalled() bool {
	g := &verifG
	return g.nSetBytes == 0 && g.isZeroGhost+g.isZeroReal == 0 && g.sfaxCalls == 0 && g.saCalls == 0 &&
		g.taCalls == 0 && g.bytesCalls == 0 && g.negCalls == 0
}

// verifLE32: b (32 bytes, big-endian as on the wire) reversed, as the decoders hand it to SetBytes.
func verifLE32(b []byte) (out [32]byte) {
	for i := 0; i < 32; i++ {
		out[i] = b[31-i]
	}
	return out
}

func verifAllZero(b []byte) bool {
	var acc byte
	for _, x := range b {
		acc |= x
	}
	return acc == 0
}

func verifIsIdentity(p *Point) bool {
	var id Point
	id.V.SetZero()
	return p != nil && verifSameValue(p.V, id.V)
}

func verifWireLen() int {
	switch verifLen(0, 6) {
	case 0:
		return 0
	case 1:
		return 32
	case 2:
		return 33
	case 3:
		return 34
	case 4:
		return 64
	case 5:
		return 65
	}
	return 66
}

// ---- FromCompressed
//
// Control flow of the harnesses below depends only on what the native twin observes as well
// (input, returned point, error); everything that reads the ghost record verifG is stated with
// verifAssertGhost (a counterexample there is inconclusive, never VIOLATION, because the native
// twin runs the real functions and has no ghost record).

// H_k256dec_compressed: all obligations for FromCompressed, input = arbitrary bytes of length
// 0, 32, 33, 34, 64, 65 or 66.
func H_k256dec_compressed() {
	n := verifWireLen()
	in := verifBytes(n)
	inCopy := append([]byte{}, in...)
	verifReach("k256dec_compressed")
	p, err, panicked := verifDecode(true, in)
	g := &verifG

	verifAssert("comp.no_panic", !panicked)
	verifAssert("comp.input_not_modified", bytes.Equal(in, inCopy))
	verifAssert("comp.point_xor_error", (p == nil) != (err == nil))
	if n != 33 {
		verifAssert("comp.wrong_length_rejected", p == nil && err != nil && errors.Is(err, curves.ErrInvalidLength))
		verifAssertGhost("comp.wrong_length_touches_nothing", verifNoContractCalled())
		return
	}
	tag := in[0]
	if tag != 2 && tag != 3 {
		verifAssert("comp.bad_tag_rejected", p == nil && err != nil && errors.Is(err, curves.ErrFailed))
		verifAssertGhost("comp.bad_tag_touches_nothing", verifNoContractCalled())
		return
	}
	verifReach("k256dec_compressed_wellformed")
	// the x coordinate: exactly input[1:33], reversed to little-endian, decoded once
	sb := &g.setBytes[0]
	verifAssertGhost("comp.x_decoded_once_from_bytes_1_to_33_reversed", g.nSetBytes == 1 && sb.n == 32 && sb.data == verifLE32(inCopy[1:33]))
	verifAssertGhost("comp.zero_test_on_decoded_x", g.isZeroGhost == 1 && g.isZeroReal == 0)
	if verifAllZero(inCopy[1:33]) {
		verifReach("k256dec_compressed_x0")
		verifAssert("comp.x_zero_is_identity", err == nil && verifIsIdentity(p))
	}
	if err != nil {
		verifReach("k256dec_compressed_rejected")
		verifAssert("comp.wellformed_rejected_only_as_invalid_coordinates", p == nil && errors.Is(err, curves.ErrInvalidCoordinates))
		verifAssertGhost("comp.rejected_iff_membership_test_on_decoded_x_said_no",
			sb.zero != 1 && g.sfaxCalls == 1 && g.sfaxOK != 1 && g.sfaxX == sb.recv && verifSameValue(g.sfaxXVal, sb.val))
		verifAssertGhost("comp.rejected_no_further_calls", g.saCalls == 0 && g.taCalls == 0 && g.bytesCalls == 0 && g.negCalls == 0)
		return
	}
	if p == nil {
		return // excluded by comp.point_xor_error
	}
	if verifIsIdentity(p) {
		// reserved encoding: x = 0 (there is no curve point with x = 0) denotes the identity
		verifReach("k256dec_compressed_identity")
		verifAssertGhost("comp.identity_only_for_zero_x_without_membership_test",
			sb.zero == 1 && g.sfaxCalls == 0 && g.saCalls == 0 && g.taCalls == 0 && g.negCalls == 0)
		return
	}
	verifReach("k256dec_compressed_accepted")
	verifAssertGhost("comp.accepted_iff_membership_test_on_decoded_x_said_yes",
		sb.zero != 1 && g.sfaxCalls == 1 && g.saCalls == 0 && g.sfaxOK == 1 && g.sfaxX == sb.recv && verifSameValue(g.sfaxXVal, sb.val))
	verifAssertGhost("comp.returned_point_is_the_tested_one", g.sfaxRecv == &p.V)
	verifAssertGhost("comp.returned_x_is_decoded_x", verifSameValue(p.V.X, sb.val))
	verifAssert("comp.returned_point_is_affine", p.V.Z.IsOne() == 1)
	verifAssertGhost("comp.to_affine_succeeds", g.taCalls == 1 && g.taRecv == &p.V && g.taOK == 1)
	verifAssertGhost("comp.parity_read_from_returned_y", g.bytesCalls == 1 && g.bytesRecv == &p.V.Y)
	verifAssertGhost("comp.negated_exactly_when_parity_differs",
		(g.bytesParity != tag&1 && g.negCalls == 1 && g.negRecv == &p.V && g.negArg == &p.V) ||
			(g.bytesParity == tag&1 && g.negCalls == 0))
	// parity of the returned y = parity read, flipped once per negation (fact about Neg, see top)
	verifAssertGhost("comp.returned_y_parity_is_tag_bit", (g.bytesParity^byte(g.negCalls&1)) == tag&1)
}

// ---- FromUncompressed

// H_k256dec_uncompressed: all obligations for FromUncompressed, same input lengths.
func H_k256dec_uncompressed() {
	n := verifWireLen()
	in := verifBytes(n)
	inCopy := append([]byte{}, in...)
	verifReach("k256dec_uncompressed")
	p, err, panicked := verifDecode(false, in)
	g := &verifG

	verifAssert("unc.no_panic", !panicked)
	verifAssert("unc.input_not_modified", bytes.Equal(in, inCopy))
	verifAssert("unc.point_xor_error", (p == nil) != (err == nil))
	if n != 65 {
		verifAssert("unc.wrong_length_rejected", p == nil && err != nil && errors.Is(err, curves.ErrInvalidLength))
		verifAssertGhost("unc.wrong_length_touches_nothing", verifNoContractCalled())
		return
	}
	if in[0] != 4 {
		verifAssert("unc.bad_tag_rejected", p == nil && err != nil && errors.Is(err, curves.ErrFailed))
		verifAssertGhost("unc.bad_tag_touches_nothing", verifNoContractCalled())
		return
	}
	verifReach("k256dec_uncompressed_wellformed")
	sx, sy := &g.setBytes[0], &g.setBytes[1]
	verifAssertGhost("unc.x_then_y_decoded_from_bytes_1_to_33_and_33_to_65_reversed",
		g.nSetBytes == 2 && sx.n == 32 && sy.n == 32 && sx.recv != sy.recv &&
			sx.data == verifLE32(inCopy[1:33]) && sy.data == verifLE32(inCopy[33:65]))
	verifAssertGhost("unc.never_uses_compressed_route", g.sfaxCalls == 0 && g.taCalls == 0 && g.bytesCalls == 0 && g.negCalls == 0)
	if verifAllZero(inCopy[1:65]) {
		verifReach("k256dec_uncompressed_00")
		verifAssert("unc.all_zero_is_identity", err == nil && verifIsIdentity(p))
	}
	if err != nil {
		verifReach("k256dec_uncompressed_rejected")
		verifAssert("unc.wellformed_rejected_only_as_invalid_coordinates", p == nil && errors.Is(err, curves.ErrInvalidCoordinates))
		verifAssertGhost("unc.rejected_iff_membership_test_on_decoded_x_y_said_no",
			!(sx.zero == 1 && sy.zero == 1) && g.saCalls == 1 && g.saOK != 1 &&
				g.saX == sx.recv && g.saY == sy.recv && verifSameValue(g.saXVal, sx.val) && verifSameValue(g.saYVal, sy.val))
		return
	}
	if p == nil {
		return // excluded by unc.point_xor_error
	}
	if verifIsIdentity(p) {
		verifReach("k256dec_uncompressed_identity")
		verifAssertGhost("unc.identity_only_for_zero_zero_without_membership_test", sx.zero == 1 && sy.zero == 1 && g.saCalls == 0)
		return
	}
	verifReach("k256dec_uncompressed_accepted")
	verifAssertGhost("unc.accepted_iff_membership_test_on_decoded_x_y_said_yes",
		!(sx.zero == 1 && sy.zero == 1) && g.saCalls == 1 && g.saOK == 1 &&
			g.saX == sx.recv && g.saY == sy.recv && verifSameValue(g.saXVal, sx.val) && verifSameValue(g.saYVal, sy.val))
	verifAssertGhost("unc.returned_point_is_the_tested_one", g.saRecv == &p.V)
	verifAssertGhost("unc.returned_coordinates_are_the_decoded_ones", verifSameValue(p.V.X, sx.val) && verifSameValue(p.V.Y, sy.val))
	verifAssert("unc.returned_point_is_affine", p.V.Z.IsOne() == 1)
}

// ---- controls

// H_k256dec_compressed_MUSTFAIL: wrong twin (claims only tag 2 is ever accepted). The input is
// restricted to x = 0 so that the counterexample (tag 3, identity) does not depend on a contract
// and replays natively.
func H_k256dec_compressed_MUSTFAIL() {
	in := make([]byte, 33)
	in[0] = verifU8()
	verifReach("k256dec_compressed_mustfail")
	_, err, _ := verifDecode(true, in)
	verifAssert("comp.wrong_only_tag2_accepted", err != nil || in[0] == 2)
}

// H_k256dec_uncompressed_MUSTFAIL: wrong twin (claims a 64-byte input without tag is accepted).
func H_k256dec_uncompressed_MUSTFAIL() {
	in := verifBytes(64)
	verifReach("k256dec_uncompressed_mustfail")
	_, err, _ := verifDecode(false, in)
	verifAssert("unc.wrong_length64_accepted", err == nil)
}

// H_k256dec_generator_native_sanity: concrete anchor that involves no symbolic input: the
// generator's compressed encoding is handled by the contracts as an on-curve or off-curve x (both
// outcomes appear) and is never rejected for its length or tag. (Natively the real code accepts it.)
func H_k256dec_generator_sanity() {
	in := []byte{0x02,
		0x79, 0xBE, 0x66, 0x7E, 0xF9, 0xDC, 0xBB, 0xAC, 0x55, 0xA0, 0x62, 0x95, 0xCE, 0x87, 0x0B, 0x07,
		0x02, 0x9B, 0xFC, 0xDB, 0x2D, 0xCE, 0x28, 0xD9, 0x59, 0xF2, 0x81, 0x5B, 0x16, 0xF8, 0x17, 0x98}
	verifReach("k256dec_generator")
	p, err, panicked := verifDecode(true, in)
	verifAssert("gen.no_panic", !panicked)
	if err != nil {
		verifAssert("gen.only_membership_can_reject", errors.Is(err, curves.ErrInvalidCoordinates))
		verifAssertGhost("gen.rejected_by_membership_test", verifG.sfaxCalls == 1 && verifG.sfaxOK == 0)
	} else {
		verifReach("k256dec_generator_accepted")
		verifAssert("gen.accepted_point", p != nil)
		verifAssertGhost("gen.accepted_by_membership_test_or_zero_flag", verifG.sfaxCalls+verifG.isZeroGhost >= 1)
	}
}
