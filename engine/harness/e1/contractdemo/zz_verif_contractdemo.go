//go:build verif_e1

package network

import (
	"context"

	"github.com/bronlabs/bron-crypto/pkg/base/serde"
)

// Engine self-test harnesses for the features "harness-supplied contracts (replacements)" and
// "sequential channel / goroutine model" (internal/ssasym/README.md). Target package:
// pkg/network (any package with channels and a reflection-based callee would do).
//
// Expected verdicts when the whole directory is run (exit status 2 because of the deliberate
// mismatch demo; without it 1):
//
//	H_demo_contract                      valid
//	H_demo_contract_spy                  valid
//	H_demo_contract_EXPECT_MISMATCH      ENGINE-MISMATCH (the counterexample needs a contract
//	                                     result the real function cannot produce)
//	H_demo_chan                          valid
//	H_demo_chan_MUSTFAIL                 violated, replayed natively
//	H_demo_ghost_EXPECT_INCONCLUSIVE     inconclusive (counterexample to a verifAssertGhost obligation)
//	H_demo_blocked_EXPECT_INCONCLUSIVE   inconclusive (uncaught verifBlocked)
//	H_demo_skip_EXPECT_INCONCLUSIVE      inconclusive (native twin used verifSkipReplay)

// ---- contracts

var (
	verifDemoLen   int    // ghost: length of the data handed to UnmarshalCBOR
	verifDemoBoxes int    // ghost: calls of boxFor
	verifDemoCID   string // ghost: last correlation ID asked for
)

// contract for serde.UnmarshalCBOR[routerMessage]: any message with a 1-byte payload, or an error
func verifDemoUnmarshal(data []byte) (routerMessage, error) {
	verifDemoLen = len(data)
	var m routerMessage
	if verifBool() {
		return m, ErrInvalidArgument
	}
	m.CorrelationID = "x"
	m.Payload = verifBytes(1)
	return m, nil
}

// spy contract for (*routerCore).boxFor: records the argument and runs the REAL boxFor (a
// contract is not applied to calls made while it is itself running).
func verifDemoBoxFor(c *routerCore, cid string) *mailbox {
	verifDemoBoxes++
	verifDemoCID = cid
	return c.boxFor(cid)
}

func verifReplacements() map[string]any {
	return map[string]any{
		"github.com/bronlabs/bron-crypto/pkg/base/serde.UnmarshalCBOR[...]":              verifDemoUnmarshal,
		"(*github.com/bronlabs/bron-crypto/pkg/network.routerCore).boxFor":               verifDemoBoxFor,
		"github.com/bronlabs/bron-crypto/pkg/network.thisFunctionDoesNotExist_neverUsed": verifDemoBoxFor,
	}
}

func H_demo_contract() {
	b := verifBytes(3)
	m, err := serde.UnmarshalCBOR[routerMessage](b)
	verifReach("demo_contract")
	verifAssertGhost("contract.ghost_records_argument", verifDemoLen == 3)
	if err == nil {
		verifReach("demo_contract_ok")
		verifAssert("contract.result_obeys_contract", len(m.Payload) == 1 && m.CorrelationID == "x")
	} else {
		verifReach("demo_contract_err")
	}
}

func H_demo_contract_spy() {
	c := &routerCore{boxes: make(map[string]*mailbox), started: true, failed: make(chan struct{})}
	ok := c.deposit(1, routerMessage{CorrelationID: "q", Payload: verifBytes(1)})
	verifReach("demo_contract_spy")
	verifAssert("spy.real_function_ran", ok && len(c.boxes) == 1 && c.buffered == 1)
	verifAssertGhost("spy.argument_recorded", verifDemoBoxes == 1 && verifDemoCID == "q")
}

// The contract may return a payload byte that the real CBOR decoder would never produce from
// these three bytes: the counterexample exists only under the contract. The native twin runs the
// REAL UnmarshalCBOR, does not reproduce it, and the engine reports ENGINE-MISMATCH (exit 2),
// naming the contracts used on the path.
func H_demo_contract_EXPECT_MISMATCH() {
	b := []byte{0xff, 0xff, 0xff} // not valid CBOR: the real function returns an error
	m, err := serde.UnmarshalCBOR[routerMessage](b)
	verifReach("demo_contract_mismatch")
	if err == nil {
		verifAssert("contract.dependent_counterexample", m.Payload[0] != 7)
	}
}

// ---- channels, select, go, blocking

func verifDemoBlocks(f func()) (blocked bool) {
	if verifNative() {
		// natively the operation would hang: the demo only claims something about the model
		return true
	}
	defer func() {
		if r := recover(); r != nil {
			if _, ok := r.(verifBlocked); ok {
				blocked = true
				return
			}
			panic(r)
		}
	}()
	f()
	return false
}

func H_demo_chan() {
	ch := make(chan int, 1)
	sent := 0
	for i := 5; i < 7; i++ {
		select {
		case ch <- i:
			sent++
		default:
		}
	}
	verifReach("demo_chan")
	verifAssert("chan.nonblocking_send_succeeds_iff_room", sent == 1 && len(ch) == 1 && cap(ch) == 1)
	v := <-ch
	verifAssert("chan.fifo_value", v == 5 && len(ch) == 0)

	cleaned := false
	blocked := verifDemoBlocks(func() {
		defer func() { cleaned = true }()
		select {
		case <-ch:
		case <-context.Background().Done():
		}
	})
	verifAssert("chan.blocking_select_with_nothing_ready_blocks", blocked)
	if !verifNative() {
		verifAssert("chan.deferred_functions_run_when_blocked", cleaned)
	}

	done := make(chan struct{})
	close(done)
	_, open := <-done
	verifAssert("chan.closed_receive_ready_with_ok_false", !open)

	ch <- 9
	n := 0
	select {
	case x := <-ch:
		n = x
	case <-done:
		n = 2
	}
	// both cases are ready: the engine explores both, natively Go picks one
	verifAssert("chan.ready_case_taken", n == 9 || n == 2)

	ran := false
	go func() { ran = true }()
	if !verifNative() {
		verifAssert("chan.goroutine_is_environment_not_run", !ran)
	}
}

func H_demo_chan_MUSTFAIL() {
	ch := make(chan int, 1)
	ch <- 1
	sent := false
	select {
	case ch <- 2:
		sent = true
	default:
	}
	verifReach("demo_chan_mustfail")
	verifAssert("chan.wrong_send_on_full_channel", sent)
}

// A wrong claim about ghost state: found by the solver, but the native twin has no ghost state to
// evaluate it on, so it is reported inconclusive (never VIOLATION, never valid).
func H_demo_ghost_EXPECT_INCONCLUSIVE() {
	b := verifBytes(verifLen(2, 3))
	_, _ = serde.UnmarshalCBOR[routerMessage](b)
	verifReach("demo_ghost")
	verifAssertGhost("ghost.wrong_length_claim", verifDemoLen == 3)
}

func H_demo_blocked_EXPECT_INCONCLUSIVE() {
	ch := make(chan int)
	verifReach("demo_blocked")
	if verifNative() {
		return
	}
	<-ch
}

func H_demo_skip_EXPECT_INCONCLUSIVE() {
	x := verifU8()
	verifReach("demo_skip")
	if verifNative() {
		verifSkipReplay("demonstration of the explicit skip marker")
	}
	verifAssert("skip.wrong", x != 3)
}
