//go:build verif_e1

package network

import (
	"bytes"
	"context"
	"errors"
	"time"

	"github.com/bronlabs/bron-crypto/pkg/base"
	"github.com/bronlabs/bron-crypto/pkg/mpc/sharing"
)

// E1 harnesses for pkg/network/router.go (property C11 "message routing is exact").
//
// One step of routerCore.deposit (the only writer of the mailboxes, called by the reader
// goroutine) and one scan of routerCore.receiveFrom (the only reader), each from an ARBITRARY
// valid router state built directly (no NewRouter, no goroutine, no transport):
//
//   - two correlation IDs "a" and "ns/a" (the second is what Namespaced("ns") puts on the wire),
//   - three senders 1, 2, 3,
//   - every (correlation ID, sender) cell is independently present or absent (case split),
//     a present cell holds a fully symbolic payload,
//   - every mailbox is independently poisoned or not,
//   - a mailbox exists in c.boxes iff it holds a payload or is poisoned (what receiveFrom's cleanup
//     and boxFor maintain when no waiter is attached),
//   - c.buffered = number of stored payloads, c.started = true (no reader is spawned), no waiter.
//
// Channels / select / blocking follow the engine's sequential model (README "Channels and
// goroutines"): a receive that cannot complete ends in verifBlocked, which the harness recovers.

func verifCID(i int) string {
	if i == 0 {
		return "a"
	}
	return "ns/a"
}

const (
	verifNC = 2 // correlation IDs
	verifNS = 3 // senders 1..3
)

// verifShape says which part of the state space a harness ranges over (the rest is fixed, to
// keep the number of case splits of one harness function bounded).
type verifShape struct {
	freeCells  [verifNC][verifNS]bool // presence is a case split (otherwise absent)
	freePoison [verifNC]bool          // poison is a case split (otherwise clean)
	lens       [verifNC][verifNS]int  // payload length of a present cell; -1: case split over 0..2
}

type verifSnap struct {
	c        *routerCore
	present  [verifNC][verifNS]bool
	data     [verifNC][verifNS][]byte // private copies of the stored payloads
	stored   [verifNC][verifNS][]byte // the stored slices themselves
	poison   [verifNC]error
	exists   [verifNC]bool
	buffered int
}

// verifFullShape: every cell and every poison flag free; the payload length of cell
// (addrC, addrS), if given, ranges over 0..2, the other cells have fixed, mutually different
// lengths 0..2 (their contents are symbolic all the same).
func verifFullShape(addrC, addrS int) verifShape {
	var sh verifShape
	for i := 0; i < verifNC; i++ {
		sh.freePoison[i] = true
		for j := 0; j < verifNS; j++ {
			sh.freeCells[i][j] = true
			sh.lens[i][j] = (i + j) % 3
		}
	}
	if addrC >= 0 {
		sh.lens[addrC][addrS] = -1
	}
	return sh
}

// verifState builds an arbitrary valid state of the given shape and a snapshot of it.
func verifState(sh verifShape) *verifSnap {
	c := &routerCore{
		boxes:   make(map[string]*mailbox),
		started: true,
		failed:  make(chan struct{}),
	}
	s := &verifSnap{c: c}
	for i := 0; i < verifNC; i++ {
		var box *mailbox
		mk := func() {
			if box == nil {
				box = &mailbox{payloads: make(map[sharing.ID][]byte)}
				c.boxes[verifCID(i)] = box
				s.exists[i] = true
			}
		}
		for j := 0; j < verifNS; j++ {
			if !sh.freeCells[i][j] || verifLen(0, 1) == 0 {
				continue
			}
			n := sh.lens[i][j]
			if n < 0 {
				n = verifLen(0, 2)
			}
			p := verifBytes(n)
			mk()
			box.payloads[sharing.ID(j+1)] = p
			s.present[i][j] = true
			s.stored[i][j] = p
			s.data[i][j] = append([]byte{}, p...)
			c.buffered++
		}
		if sh.freePoison[i] && verifLen(0, 1) == 1 {
			mk()
			culprit := sharing.ID((i+1)%verifNS + 1) // some sender; the poison is compared by identity
			box.poison = ErrDuplicateMessage.WithTag(base.IdentifiableAbortPartyIDTag, culprit)
			s.poison[i] = box.poison
		}
	}
	s.buffered = c.buffered
	return s
}

func verifSameSlice(a, b []byte) bool {
	if len(a) != len(b) {
		return false
	}
	if len(a) == 0 {
		return true
	}
	return &a[0] == &b[0]
}

// verifCellUnchanged: cell (i, j) of the router holds exactly what the snapshot says.
func (s *verifSnap) verifCellUnchanged(i, j int) bool {
	box, ok := s.c.boxes[verifCID(i)]
	if !ok {
		return !s.present[i][j]
	}
	p, ok := box.payloads[sharing.ID(j+1)]
	if ok != s.present[i][j] {
		return false
	}
	return !ok || (verifSameSlice(p, s.stored[i][j]) && bytes.Equal(p, s.data[i][j]))
}

// verifBoxUnchanged: mailbox i is exactly as in the snapshot (existence, every cell, poison, no waiter).
func (s *verifSnap) verifBoxUnchanged(i int) bool {
	box, ok := s.c.boxes[verifCID(i)]
	if ok != s.exists[i] {
		return false
	}
	if !ok {
		return true
	}
	n := 0
	for j := 0; j < verifNS; j++ {
		if !s.verifCellUnchanged(i, j) {
			return false
		}
		if s.present[i][j] {
			n++
		}
	}
	return len(box.payloads) == n && box.poison == s.poison[i] && box.notify == nil
}

func (s *verifSnap) verifNoForeignBoxes() bool {
	n := 0
	for i := 0; i < verifNC; i++ {
		if _, ok := s.c.boxes[verifCID(i)]; ok {
			n++
		}
	}
	return len(s.c.boxes) == n
}

// verifSender: a symbolic sender identifier ranging over {1, 2, 3}; the case split over its
// value is made first, so that the state can give the addressed cell all payload lengths.
func verifSender() (sharing.ID, int) {
	from := sharing.ID(verifU8() & 3)
	verifAssume(from != 0)
	switch from {
	case 1:
		return from, 0
	case 2:
		return from, 1
	}
	return from, 2
}

// ---------------------------------------------------------------------------------------------
// (a) deposit

func verifDeposit(ci int) {
	from, sj := verifSender()
	s := verifState(verifFullShape(ci, sj))
	c := s.c
	cid := verifCID(ci)
	pl := verifBytes(verifLen(0, 2))
	plCopy := append([]byte{}, pl...)
	verifReach("router_deposit")

	ok := c.deposit(from, routerMessage{From: sharing.ID(verifU64()), CorrelationID: cid, Payload: pl})

	verifAssert("deposit.returns_true_below_bound", ok)
	verifAssert("deposit.no_fatal", c.fatal == nil && len(c.failed) == 0)
	verifAssert("deposit.message_not_modified", bytes.Equal(pl, plCopy))
	// frame: every other mailbox, and every other cell of the addressed mailbox
	for i := 0; i < verifNC; i++ {
		if i != ci {
			verifAssert("deposit.other_mailboxes_untouched", s.verifBoxUnchanged(i))
		}
	}
	for j := 0; j < verifNS; j++ {
		if j != sj {
			verifAssert("deposit.other_senders_untouched", s.verifCellUnchanged(ci, j))
		}
	}
	verifAssert("deposit.no_foreign_mailbox", s.verifNoForeignBoxes())
	box, exists := c.boxes[cid]
	verifAssert("deposit.mailbox_exists_after", exists && box != nil)
	if !exists {
		return
	}
	verifAssert("deposit.no_waiter_created", box.notify == nil)
	got, have := box.payloads[from]
	verifAssert("deposit.cell_filled_after", have)
	if !s.present[ci][sj] {
		// the cell was empty: the payload is stored, exactly once
		verifAssert("deposit.new.stored_payload_is_message", bytes.Equal(got, plCopy))
		verifAssert("deposit.new.buffered_plus_one", c.buffered == s.buffered+1)
		verifAssert("deposit.new.poison_unchanged", box.poison == s.poison[ci])
		return
	}
	old := s.data[ci][sj]
	verifAssert("deposit.dup.stored_payload_kept", verifSameSlice(got, s.stored[ci][sj]) && bytes.Equal(got, old))
	verifAssert("deposit.dup.buffered_unchanged", c.buffered == s.buffered)
	if bytes.Equal(old, plCopy) {
		verifAssert("deposit.dup.equal_retransmission_changes_nothing", box.poison == s.poison[ci])
		return
	}
	verifAssert("deposit.conflict.poisoned", box.poison != nil)
	if box.poison != nil {
		verifAssert("deposit.conflict.is_ErrDuplicateMessage", errors.Is(box.poison, ErrDuplicateMessage))
		ids := base.GetMaliciousIdentities[sharing.ID](box.poison)
		verifAssert("deposit.conflict.culprit_is_sender", len(ids) == 1 && ids[0] == from)
	}
}

// H_router_deposit_a / _ns: the addressed correlation ID is "a" / "ns/a".
func H_router_deposit_a()  { verifDeposit(0) }
func H_router_deposit_ns() { verifDeposit(1) }

// H_router_deposit_bound: the buffer bound. Here c.buffered is an arbitrary non-negative count
// (NOT the number of stored payloads: 10000 stored payloads cannot be enumerated), the state is one
// mailbox "a" with senders 1..3 present or absent. deposit returns false exactly when the
// addressed cell is empty and the bound is reached; then nothing is stored, the fatal error is
// ErrReceiveBufferFull and c.failed is closed.
func H_router_deposit_bound() {
	var sh verifShape
	for j := 0; j < verifNS; j++ {
		sh.freeCells[0][j] = true
		sh.lens[0][j] = 1
	}
	s := verifState(sh)
	c := s.c
	c.buffered = verifInt()
	verifAssume(c.buffered >= 0)
	s.buffered = c.buffered
	from, sj := verifSender()
	pl := verifBytes(1)
	verifReach("router_deposit_bound")
	ok := c.deposit(from, routerMessage{CorrelationID: "a", Payload: pl})
	hit := !s.present[0][sj] && s.buffered >= maxReceiveBufferSize
	verifAssert("bound.false_iff_empty_cell_and_bound_reached", ok == !hit)
	if hit {
		verifAssert("bound.fatal_latched", c.fatal != nil && errors.Is(c.fatal, ErrReceiveBufferFull))
		_, open := <-c.failed
		verifAssert("bound.failed_closed", !open)
		verifAssert("bound.nothing_stored", c.buffered == s.buffered)
		if box, ok := c.boxes["a"]; ok {
			_, have := box.payloads[from]
			verifAssert("bound.cell_still_empty", !have)
		}
		for j := 0; j < verifNS; j++ {
			verifAssert("bound.cells_untouched", s.verifCellUnchanged(0, j))
		}
	} else {
		verifAssert("bound.not_fatal", c.fatal == nil)
	}
}

// H_router_deposit_MUSTFAIL: wrong twin (claims a conflicting duplicate overwrites the stored
// payload). State: cell ("a", 1) present with a 1-byte payload.
func H_router_deposit_MUSTFAIL() {
	var sh verifShape
	s := verifState(sh)
	c := s.c
	old := verifBytes(1)
	c.boxes["a"] = &mailbox{payloads: map[sharing.ID][]byte{1: old}}
	c.buffered = 1
	pl := verifBytes(1)
	verifReach("router_deposit_mustfail")
	c.deposit(1, routerMessage{CorrelationID: "a", Payload: pl})
	verifAssert("deposit.wrong_overwrite", bytes.Equal(c.boxes["a"].payloads[1], pl))
}

// ---------------------------------------------------------------------------------------------
// (b) receiveFrom, one scan

// verifBlockCtx: under the interpreter context.Background() (its Done channel is nil: never
// ready). Natively a blocked receive would hang, so the native twin realises "the call blocks
// and is then cancelled" with a real 30 ms deadline: it runs the real receiveFrom until it blocks
// and cancels it.
func verifBlockCtx() (context.Context, func()) {
	if verifNative() {
		return context.WithTimeout(context.Background(), 30*time.Millisecond)
	}
	return context.Background(), func() {}
}

type verifRecv struct {
	res     map[sharing.ID][]byte
	err     error
	blocked bool
}

// verifReceive runs one receiveFrom; blocked = it could not complete (verifBlocked under the
// interpreter, deadline expiry natively).
func verifReceive(c *routerCore, cid string, froms []sharing.ID) (r verifRecv) {
	ctx, stop := verifBlockCtx()
	defer stop()
	func() {
		defer func() {
			if x := recover(); x != nil {
				if _, ok := x.(verifBlocked); ok {
					r.blocked = true
					return
				}
				panic(x)
			}
		}()
		r.res, r.err = c.receiveFrom(ctx, cid, froms)
	}()
	if verifNative() && r.err != nil && errors.Is(r.err, context.DeadlineExceeded) {
		r.blocked, r.err = true, nil
	}
	return r
}

// verifFroms: an arbitrary duplicate-free request list over senders 1..3 (case split), in
// ascending order.
func verifFroms() (froms []sharing.ID, want [verifNS]bool) {
	for j := 0; j < verifNS; j++ {
		if verifLen(0, 1) == 1 {
			froms = append(froms, sharing.ID(j+1))
			want[j] = true
		}
	}
	return froms, want
}

func verifReceiveScan(ci int) {
	s := verifState(verifFullShape(-1, -1))
	c := s.c
	cid := verifCID(ci)
	froms, want := verifFroms()
	verifReach("router_receive")

	r := verifReceive(c, cid, froms)

	for i := 0; i < verifNC; i++ {
		if i != ci {
			verifAssert("receive.other_mailboxes_untouched", s.verifBoxUnchanged(i))
		}
	}
	verifAssert("receive.no_foreign_mailbox", s.verifNoForeignBoxes())
	verifAssert("receive.no_fatal_created", c.fatal == nil)
	if box, ok := c.boxes[cid]; ok {
		verifAssert("receive.waiter_detached_afterwards", box.notify == nil)
		verifAssert("receive.empty_mailbox_is_removed", len(box.payloads) > 0 || box.poison != nil)
	}
	complete := true
	nwant := 0
	for j := 0; j < verifNS; j++ {
		if want[j] {
			nwant++
			if !s.present[ci][j] {
				complete = false
			}
		}
	}
	switch {
	case s.poison[ci] != nil:
		verifAssert("receive.poison.returns_that_error", !r.blocked && r.res == nil && r.err == s.poison[ci])
		verifAssert("receive.poison.state_unchanged", s.verifBoxUnchanged(ci) && c.buffered == s.buffered)
	case complete:
		verifAssert("receive.complete.no_error", !r.blocked && r.err == nil && r.res != nil)
		verifAssert("receive.complete.exactly_the_requested_senders", len(r.res) == nwant)
		verifAssert("receive.complete.buffered_decreases_by_count", c.buffered == s.buffered-nwant)
		box, still := c.boxes[cid]
		for j := 0; j < verifNS; j++ {
			id := sharing.ID(j + 1)
			if want[j] {
				p, ok := r.res[id]
				verifAssert("receive.complete.payload_of_this_cid_and_sender", ok && bytes.Equal(p, s.data[ci][j]))
				if still {
					_, left := box.payloads[id]
					verifAssert("receive.complete.delivered_cell_removed", !left)
				}
			} else {
				_, ok := r.res[id]
				verifAssert("receive.complete.no_unrequested_sender", !ok)
				verifAssert("receive.complete.unrequested_cell_kept", s.verifCellUnchanged(ci, j))
			}
		}
	default:
		verifAssert("receive.incomplete.blocks", r.blocked && r.res == nil && r.err == nil)
		verifAssert("receive.incomplete.loses_nothing", s.verifBoxUnchanged(ci) && c.buffered == s.buffered)
	}
}

// H_router_receive_a / _ns: one receiveFrom on "a" / "ns/a" from an arbitrary state.
func H_router_receive_a()  { verifReceiveScan(0) }
func H_router_receive_ns() { verifReceiveScan(1) }

// H_router_receive_fatal: a latched failure at entry => error wrapping it, nothing changes
// (not even a mailbox or waiter is created). State: mailbox "a" arbitrary, "ns/a" absent.
func H_router_receive_fatal() {
	var sh verifShape
	sh.freePoison[0] = true
	for j := 0; j < verifNS; j++ {
		sh.freeCells[0][j] = true
		sh.lens[0][j] = j
	}
	s := verifState(sh)
	c := s.c
	c.fatal = ErrRouterClosed
	close(c.failed)
	ci := verifLen(0, 1)
	froms, _ := verifFroms()
	verifReach("router_receive_fatal")
	r := verifReceive(c, verifCID(ci), froms)
	verifAssert("fatal.error", !r.blocked && r.res == nil && r.err != nil && errors.Is(r.err, ErrRouterClosed))
	verifAssert("fatal.state_unchanged", s.verifBoxUnchanged(0) && s.verifBoxUnchanged(1) && s.verifNoForeignBoxes() && c.buffered == s.buffered)
}

// H_router_receive_concurrent: a second receive on a correlation ID whose mailbox already has a
// waiter => ErrInvalidArgument, the first waiter and the mailbox are left alone. State: mailbox
// "a" arbitrary with a waiter attached (a mailbox with a waiter exists even when empty).
func H_router_receive_concurrent() {
	var sh verifShape
	sh.freePoison[0] = true
	for j := 0; j < verifNS; j++ {
		sh.freeCells[0][j] = true
		sh.lens[0][j] = j
	}
	s := verifState(sh)
	c := s.c
	box, ok := c.boxes["a"]
	if !ok {
		box = &mailbox{payloads: make(map[sharing.ID][]byte)}
		c.boxes["a"] = box
		s.exists[0] = true
	}
	first := make(chan struct{}, 1)
	box.notify = first
	froms, _ := verifFroms()
	verifReach("router_receive_concurrent")
	r := verifReceive(c, "a", froms)
	verifAssert("concurrent.invalid_argument", !r.blocked && r.res == nil && r.err != nil && errors.Is(r.err, ErrInvalidArgument))
	verifAssert("concurrent.first_waiter_kept", c.boxes["a"] == box && box.notify == first && len(first) == 0)
	box.notify = nil
	verifAssert("concurrent.state_unchanged", s.verifBoxUnchanged(0) && s.verifBoxUnchanged(1) && c.buffered == s.buffered)
}

// H_router_receive_other_cid_absent: a receive on a correlation ID that has no mailbox at all
// ("b") with a non-empty request blocks and leaves no trace (the mailbox created for the waiter is
// removed again); with an empty request it returns an empty map.
func H_router_receive_other_cid_absent() {
	s := verifState(verifFullShape(-1, -1))
	c := s.c
	froms, _ := verifFroms()
	verifReach("router_receive_absent")
	r := verifReceive(c, "b", froms)
	if len(froms) == 0 {
		verifAssert("absent.empty_request_completes", !r.blocked && r.err == nil && r.res != nil && len(r.res) == 0)
	} else {
		verifAssert("absent.blocks", r.blocked)
	}
	_, left := c.boxes["b"]
	verifAssert("absent.no_trace", !left && s.verifBoxUnchanged(0) && s.verifBoxUnchanged(1) && s.verifNoForeignBoxes() && c.buffered == s.buffered)
}

// H_router_receive_MUSTFAIL: wrong twin on the non-blocking route (claims a complete receive
// also delivers the payload of the other correlation ID's mailbox).
func H_router_receive_MUSTFAIL() {
	var sh verifShape
	s := verifState(sh)
	c := s.c
	pa, pn := verifBytes(1), verifBytes(1)
	c.boxes["a"] = &mailbox{payloads: map[sharing.ID][]byte{1: pa}}
	c.boxes["ns/a"] = &mailbox{payloads: map[sharing.ID][]byte{1: pn}}
	c.buffered = 2
	verifReach("router_receive_mustfail")
	r := verifReceive(c, "ns/a", []sharing.ID{1})
	verifAssert("receive.wrong_mailbox", r.err == nil && bytes.Equal(r.res[1], pa))
}

// H_router_receive_blocked_MUSTFAIL: wrong twin on the blocking route (claims a blocked, then
// cancelled receive consumes what was already buffered). Under the interpreter the block is
// verifBlocked; natively it is a real 30 ms deadline (see verifBlockCtx).
func H_router_receive_blocked_MUSTFAIL() {
	var sh verifShape
	s := verifState(sh)
	c := s.c
	c.boxes["a"] = &mailbox{payloads: map[sharing.ID][]byte{1: verifBytes(1)}}
	c.buffered = 1
	verifReach("router_receive_blocked_mustfail")
	r := verifReceive(c, "a", []sharing.ID{1, 2})
	verifAssert("receive.blocked_as_expected", r.blocked)
	verifAssert("receive.wrong_cancel_consumes", c.buffered == 0)
}
