//go:build verif_e1

package impl

import (
	"encoding/binary"
	"math/bits"
)

// E1 harnesses for pkg/base/curves/edwards25519/impl/fp.go (property C14 "field arithmetic equals
// the mathematics"): (*Fp).SetBytesWide, SetBytes and Bytes, p = 2^255 - 19.
//
// Specification of SetBytesWide, written with 64-bit limbs and nothing but the definition of p
// (2^255 = p + 19, asserted concretely in H_ed25519fp_constants):
//
//	X  = little-endian integer of the (zero-extended) 64-byte input          (8 limbs)
//	X  = a + 2^255*b,  a < 2^255, b < 2^257                                    (bit split)
//	S  = a + 19*b      (S = X - p*b, so S = X mod p as residues; S < 2^262)    (5 limbs)
//	S  = a2 + 2^255*b2, b2 < 2^7 ; T = a2 + 19*b2 < 2^255 + 2^12 < 2p          (4 limbs)
//	R  = T - p*[T >= p]                                                        (4 limbs, R < p)
//
// Obligation: the canonical bytes of the receiver after SetBytesWide equal R, limb by limb, and
// (redundantly, as the linear identity the task description asks for)
//	bytes(out) + k*p == S   with k = b2 + [T >= p]  and  bytes(out) < p.
// The library computes the same residue another way (51-bit limbs, lo + 19*bit255 + 38*hi +
// 722*bit511), so the obligation is exactly "the constants for 2^255, 2^256, 2^511 mod p and the
// carry handling are right".

// ---- 64-bit limb helpers (math/bits.Add64/Sub64/Mul64 are exact in the engine) ----

// verifFpP returns p = 2^255 - 19 as little-endian limbs.
func verifFpP() [4]uint64 {
	return [4]uint64{0xffffffffffffffed, 0xffffffffffffffff, 0xffffffffffffffff, 0x7fffffffffffffff}
}

// verifLimbs8 reads up to 64 little-endian bytes as 8 limbs (missing high bytes are zero).
func verifLimbs8(data []byte) [8]uint64 {
	var buf [64]byte
	copy(buf[:], data)
	var x [8]uint64
	for i := range x {
		x[i] = binary.LittleEndian.Uint64(buf[8*i : 8*i+8])
	}
	return x
}

func verifLimbs4(data []byte) [4]uint64 {
	var x [4]uint64
	for i := range x {
		x[i] = binary.LittleEndian.Uint64(data[8*i : 8*i+8])
	}
	return x
}

// verifMul19 returns 19*b for a 5-limb b < 2^257 (the product fits 5 limbs).
func verifMul19(b [5]uint64) [5]uint64 {
	var out [5]uint64
	var carry uint64
	for i := 0; i < 5; i++ {
		hi, lo := bits.Mul64(b[i], 19)
		var c uint64
		out[i], c = bits.Add64(lo, carry, 0)
		carry = hi + c
	}
	return out
}

// verifLess4 is a < b on 4-limb values, branch-free (borrow of a - b).
func verifLess4(a, b [4]uint64) uint64 {
	var br uint64
	for i := 0; i < 4; i++ {
		_, br = bits.Sub64(a[i], b[i], br)
	}
	return br
}

// verifWideRef is the specification above: S (5 limbs), k, R (4 limbs).
func verifWideRef(x [8]uint64) (s [5]uint64, k uint64, r [4]uint64) {
	const top = uint64(1) << 63
	a := [5]uint64{x[0], x[1], x[2], x[3] &^ top, 0}
	var b [5]uint64
	for i := 0; i < 4; i++ {
		b[i] = x[3+i]>>63 | x[4+i]<<1
	}
	b[4] = x[7] >> 63
	m := verifMul19(b)
	var c uint64
	for i := 0; i < 5; i++ {
		s[i], c = bits.Add64(a[i], m[i], c)
	}
	// S = a2 + 2^255*b2
	a2 := [4]uint64{s[0], s[1], s[2], s[3] &^ top}
	b2 := s[3]>>63 | s[4]<<1
	var t [4]uint64
	t[0], c = bits.Add64(a2[0], 19*b2, 0) // b2 < 2^8: no overflow in 19*b2
	t[1], c = bits.Add64(a2[1], 0, c)
	t[2], c = bits.Add64(a2[2], 0, c)
	t[3], _ = bits.Add64(a2[3], 0, c) // T < 2^256
	p := verifFpP()
	ge := 1 - verifLess4(t, p)
	mask := -ge
	var br uint64
	for i := 0; i < 4; i++ {
		r[i], br = bits.Sub64(t[i], p[i]&mask, br)
	}
	return s, b2 + ge, r
}

// verifAddKP returns r + k*p as 5 limbs (k < 2^9).
func verifAddKP(r [4]uint64, k uint64) [5]uint64 {
	p := verifFpP()
	var kp [5]uint64
	var carry uint64
	for i := 0; i < 4; i++ {
		hi, lo := bits.Mul64(p[i], k)
		var c uint64
		kp[i], c = bits.Add64(lo, carry, 0)
		carry = hi + c
	}
	kp[4] = carry
	var out [5]uint64
	var c uint64
	for i := 0; i < 4; i++ {
		out[i], c = bits.Add64(r[i], kp[i], c)
	}
	out[4], _ = bits.Add64(0, kp[4], c)
	return out
}

// verifWideCheck runs SetBytesWide on data (len <= 64) and checks the result against the
// specification. The receiver starts as an arbitrary tight element.
func verifWideCheck(data []byte) {
	data0 := append([]byte{}, data...)
	var f Fp
	ok := f.SetBytesWide(data)
	got := verifLimbs4(f.Bytes())
	s, k, r := verifWideRef(verifLimbs8(data0))
	verifAssert("wide.ok", ok == 1)
	verifAssert("wide.canonical_lt_p", verifLess4(got, verifFpP()) == 1)
	verifAssert("wide.equals_X_mod_p", got == r)
	verifAssert("wide.identity_out_plus_kp_eq_a_plus_19b", verifAddKP(got, k) == s)
	verifAssert("wide.k_small", k <= 1<<7)
	same := uint64(0)
	for i := range data0 {
		same += verifB2U(data[i] != data0[i])
	}
	verifAssert("wide.input_untouched", same == 0)
}

// H_ed25519fp_constants: concrete facts the specification relies on, and the three constants of
// the library's formulation, all by limb arithmetic on concrete numbers:
// p + 19 = 2^255; 2^256 = 2p + 38; 2^511 mod p = 722 (through SetBytesWide on the concrete
// inputs 2^255, 2^256, 2^511, whose canonical bytes must be 19, 38, 722).
func H_ed25519fp_constants() {
	verifReach("ed25519fp_constants")
	p := verifFpP()
	var mod [4]uint64
	mod = verifLimbs4(FpModulus[:])
	verifAssert("const.FpModulus_is_p", mod == p)
	var c uint64
	var q [4]uint64
	q[0], c = bits.Add64(p[0], 19, 0)
	q[1], c = bits.Add64(p[1], 0, c)
	q[2], c = bits.Add64(p[2], 0, c)
	q[3], c = bits.Add64(p[3], 0, c)
	verifAssert("const.p_plus_19_is_2^255", q == [4]uint64{0, 0, 0, 1 << 63} && c == 0)
	for _, tc := range []struct {
		bit  int
		want uint64
	}{{255, 19}, {256, 38}, {511, 722}, {0, 1}, {254, 0}} {
		var in [64]byte
		in[tc.bit/8] = 1 << (tc.bit % 8)
		var f Fp
		ok := f.SetBytesWide(in[:])
		got := verifLimbs4(f.Bytes())
		if tc.bit == 254 {
			verifAssert("const.2^254", ok == 1 && got == [4]uint64{0, 0, 0, 1 << 62})
		} else {
			verifAssert("const.2^k_mod_p", ok == 1 && got == [4]uint64{tc.want, 0, 0, 0})
		}
	}
	// p itself, p-1, 2^512-1
	var in [64]byte
	copy(in[:], FpModulus[:])
	var f Fp
	f.SetBytesWide(in[:])
	verifAssert("const.p_maps_to_0", verifLimbs4(f.Bytes()) == [4]uint64{})
	in[0]--
	f.SetBytesWide(in[:])
	pm1 := p
	pm1[0]--
	verifAssert("const.p_minus_1_fixed", verifLimbs4(f.Bytes()) == pm1)
	for i := range in {
		in[i] = 0xff
	}
	f.SetBytesWide(in[:])
	// 2^512 - 1 = 4*2^510 - 1 ; 2^510 = (2^255)^2 = 361 mod p ; 4*361 - 1 = 1443
	verifAssert("const.2^512_minus_1", verifLimbs4(f.Bytes()) == [4]uint64{1443, 0, 0, 0})
}

// H_ed25519fp_wide_64: ALL 64-byte inputs (512 symbolic bits), one query per obligation.
func H_ed25519fp_wide_64() {
	data := verifBytes(64)
	verifReach("ed25519fp_wide_64")
	verifWideCheck(data)
}

// H_ed25519fp_wide_64_split: the same, case-split on the two special bits (bit 255, bit 511), so
// that the library's two Selects have concrete choices on each of the four paths.
func H_ed25519fp_wide_64_split() {
	data := verifBytes(64)
	b255 := verifLen(0, 1)
	b511 := verifLen(0, 1)
	verifAssume(int(data[31]>>7) == b255)
	verifAssume(int(data[63]>>7) == b511)
	verifReach("ed25519fp_wide_64_split")
	verifWideCheck(data)
}

// H_ed25519fp_wide_short: lengths 0, 1, 31, 32, 33, 63 (missing high bytes are zero), all
// contents symbolic.
func H_ed25519fp_wide_short() {
	lens := []int{0, 1, 31, 32, 33, 63}
	data := verifBytes(lens[verifLen(0, 5)])
	verifReach("ed25519fp_wide_short")
	verifWideCheck(data)
}

// H_ed25519fp_wide_too_long: 65 bytes => returns 0 and leaves the receiver unchanged (receiver:
// arbitrary limbs).
func H_ed25519fp_wide_too_long() {
	data := verifBytes(65)
	var f Fp
	for i := range f.v {
		f.v[i] = verifU64()
	}
	before := f.v
	ok := f.SetBytesWide(data)
	verifReach("ed25519fp_wide_too_long")
	verifAssert("wide65.returns_0", ok == 0)
	verifAssert("wide65.receiver_unchanged", f.v == before)
}

// H_ed25519fp_wide_receiver_irrelevant: the result does not depend on what the receiver held.
func H_ed25519fp_wide_receiver_irrelevant() {
	data := verifBytes(64)
	var f, g Fp
	for i := range f.v {
		f.v[i] = verifU64()
	}
	f.SetBytesWide(data)
	g.SetBytesWide(data)
	verifReach("ed25519fp_wide_receiver_irrelevant")
	verifAssert("wide.receiver_irrelevant", f.v == g.v)
}

// H_ed25519fp_setbytes: SetBytes/Bytes for all 32-byte inputs.
//   - x < p: accepted, Bytes() returns x (round trip).
//   - p <= x < 2^255: the code ACCEPTS (it only tests bit 255; nothing is documented), and
//     Bytes() returns the canonical x - p (19 values: 0..18).
//   - bit 255 set: rejected (returns 0), receiver unchanged.
//   - length != 32: rejected, receiver unchanged.
func H_ed25519fp_setbytes() {
	data := verifBytes(32)
	x := verifLimbs4(data)
	p := verifFpP()
	var f Fp
	for i := range f.v {
		f.v[i] = verifU64()
	}
	before := f.v
	ok := f.SetBytes(data)
	verifReach("ed25519fp_setbytes")
	top := x[3] >> 63
	verifAssert("setbytes.accepts_iff_bit255_clear", uint64(ok) == 1-top)
	if ok == 0 {
		verifAssert("setbytes.reject_leaves_receiver", f.v == before)
		return
	}
	got := verifLimbs4(f.Bytes())
	lt := verifLess4(x, p)
	// x < p: identity; otherwise x - p
	var want [4]uint64
	var br uint64
	mask := lt - 1 // all ones iff x >= p
	for i := 0; i < 4; i++ {
		want[i], br = bits.Sub64(x[i], p[i]&mask, br)
	}
	verifAssert("setbytes.bytes_roundtrip_below_p", verifB2U(lt == 1) <= verifB2U(got == x))
	verifAssert("setbytes.noncanonical_accepted_and_reduced", got == want)
	verifAssert("setbytes.bytes_canonical", verifLess4(got, p) == 1)
	// limbs are the 51-bit split of x
	var bad uint64
	for i := 0; i < 5; i++ {
		bad += verifB2U(f.v[i]>>51 != 0)
	}
	verifAssert("setbytes.limbs_tight", bad == 0)
}

// H_ed25519fp_setbytes_lengths: wrong lengths are rejected without touching the receiver.
func H_ed25519fp_setbytes_lengths() {
	lens := []int{0, 1, 31, 33, 64}
	data := verifBytes(lens[verifLen(0, 4)])
	var f Fp
	for i := range f.v {
		f.v[i] = verifU64()
	}
	before := f.v
	ok := f.SetBytes(data)
	verifReach("ed25519fp_setbytes_lengths")
	verifAssert("setbytes.badlen_rejected", ok == 0 && f.v == before)
}

// H_ed25519fp_bytes_canonical: Bytes() of ANY tight element (5 limbs < 2^51, value possibly
// >= p) is below p and SetBytes(Bytes()) is accepted and has the same bytes.
func H_ed25519fp_bytes_canonical() {
	var f Fp
	for i := range f.v {
		f.v[i] = verifU64()
		verifAssume(f.v[i]>>51 == 0)
	}
	verifReach("ed25519fp_bytes_canonical")
	bs := f.Bytes()
	verifAssert("bytes.lt_p", verifLess4(verifLimbs4(bs), verifFpP()) == 1)
	var g Fp
	ok := g.SetBytes(bs)
	verifAssert("bytes.setbytes_accepts", ok == 1)
	verifAssert("bytes.roundtrip", verifLimbs4(g.Bytes()) == verifLimbs4(bs))
}

// ---- shrunk instances of the 64-byte obligation (see README note in the report) ----

// verifShrunk64 returns a 64-byte input with 4*k fully symbolic bytes (the k lowest and the k
// highest bytes of each 32-byte half: carries enter at the bottom, the special bits 255 and 511
// and the reduction happen at the top) and every other byte of a half equal to ONE shared
// symbolic byte per half ("arbitrary but fewer bits"). Symbolic bits: 32*k + 16.
func verifShrunk64(k int) []byte {
	data := make([]byte, 64)
	for h := 0; h < 2; h++ {
		fill := verifU8()
		for i := 0; i < 32; i++ {
			if i < k || i >= 32-k {
				data[32*h+i] = verifU8()
			} else {
				data[32*h+i] = fill
			}
		}
	}
	return data
}

func H_ed25519fp_wide_shrunk_k1() {
	data := verifShrunk64(1)
	verifReach("ed25519fp_wide_shrunk_k1")
	verifWideCheck(data)
}

func H_ed25519fp_wide_shrunk_k2() {
	data := verifShrunk64(2)
	verifReach("ed25519fp_wide_shrunk_k2")
	verifWideCheck(data)
}

func H_ed25519fp_wide_shrunk_k4() {
	data := verifShrunk64(4)
	verifReach("ed25519fp_wide_shrunk_k4")
	verifWideCheck(data)
}

func H_ed25519fp_wide_shrunk_k8() {
	data := verifShrunk64(8)
	verifReach("ed25519fp_wide_shrunk_k8")
	verifWideCheck(data)
}

// ---- controls ----

// H_ed25519fp_wide_MUSTFAIL: wrong twin (specification with 2^256 = 19 instead of 38, i.e. the
// high half weighted by 19).
func H_ed25519fp_wide_MUSTFAIL() {
	data := verifBytes(64)
	verifReach("ed25519fp_wide_mustfail")
	var f Fp
	f.SetBytesWide(data)
	got := verifLimbs4(f.Bytes())
	x := verifLimbs8(data)
	// wrong: treat the high half as if it started at bit 255 (x' = lo + 2^255*hi)
	var y [8]uint64
	y[0], y[1], y[2], y[3] = x[0], x[1], x[2], x[3]&^(1<<63)|x[4]<<63
	y[4] = x[4]>>1 | x[5]<<63
	y[5] = x[5]>>1 | x[6]<<63
	y[6] = x[6]>>1 | x[7]<<63
	y[7] = x[7] >> 1
	_, _, r := verifWideRef(y)
	verifAssert("wide.wrong_weight_of_high_half", got == r)
}

// H_ed25519fp_setbytes_MUSTFAIL: wrong twin (claims SetBytes rejects every input >= p).
func H_ed25519fp_setbytes_MUSTFAIL() {
	data := verifBytes(32)
	x := verifLimbs4(data)
	var f Fp
	ok := f.SetBytes(data)
	verifReach("ed25519fp_setbytes_mustfail")
	verifAssert("setbytes.wrong_rejects_all_noncanonical", uint64(ok) == verifLess4(x, verifFpP()))
}
