//go:build verif_e1

package impl

import (
	"encoding/binary"
	"math/bits"
)

// E1 harnesses for pkg/base/curves/edwards25519/impl/fp.go (property C14 "field arithmetic equals
// the mathematics"): (*Fp).SetBytesWide, SetBytes and Bytes, p = 2^255 - 19.
//
// Specification of SetBytesWide, written with 64-bit limbs and nothing but the definition of p
// (2^255 = p + 19, asserted concretely in H_ed25519fp_constants):
//
//	X  = little-endian integer of the (zero-extended) 64-byte input          (8 limbs)
//	X  = a + 2^255*b,  a < 2^255, b < 2^257                                    (bit split)
//	S  = a + 19*b      (S = X - p*b, so S = X mod p as residues; S < 2^262)    (5 limbs)
//	S  = a2 + 2^255*b2, b2 < 2^7 ; T = a2 + 19*b2 < 2^255 + 2^12 < 2p          (4 limbs)
//	R  = T - p*[T >= p]                                                        (4 limbs, R < p)
//
// Obligation: the canonical bytes of the receiver after SetBytesWide equal R, limb by limb, and
// (redundantly, as the linear identity the task description asks for)
//	bytes(out) + k*p == S   with k = b2 + [T >= p]  and  bytes(out) < p.
// The library computes the same residue another way (51-bit limbs, lo + 19*bit255 + 38*hi +
// 722*bit511), so the obligation is exactly "the constants for 2^255, 2^256, 2^511 mod p and the
// carry handling are right".
//
// What is proved, and how (details at the sections below):
//   - ALL 64-byte inputs, and lengths 0, 1, 31, 32, 33, 63: H_ed25519fp_wide_composed_64 / _short,
//     in two machine-checked layers: full-width lemmas about the five generated primitives
//     (H_ed25519fp_cert_*) and the real SetBytesWide/Bytes bodies over contracts made of exactly
//     those lemmas; the statement is  R < p  and  R + K*p == lo + 19*b255 + 38*hi + 722*b511
//     with X = lo + 2^255*b255 + 2^256*hi + 2^511*b511, and the three congruences
//     2^255 = 19, 2^256 = 38, 2^511 = 722 (mod p) are checked on concrete limbs in
//     H_ed25519fp_constants (independently of the library).
//   - The MONOLITHIC query (real primitives end to end against the 64-bit reference above) does
//     not finish at 512 symbolic bits on any solver the engine offers (H_*_monolithic_EXPECT_
//     INCONCLUSIVE keep the attempts); it does finish for lengths <= 32 (H_ed25519fp_wide_short_
//     monolithic) and for 32 symbolic bits at length 64 (H_ed25519fp_wide_shrunk_k1_monolithic).
//   - length 65, SetBytes / Bytes: direct.

// ---- 64-bit limb helpers (math/bits.Add64/Sub64/Mul64 are exact in the engine) ----

// verifFpP returns p = 2^255 - 19 as little-endian limbs.
func verifFpP() [4]uint64 {
	return [4]uint64{0xffffffffffffffed, 0xffffffffffffffff, 0xffffffffffffffff, 0x7fffffffffffffff}
}

// verifLimbs8 reads up to 64 little-endian bytes as 8 limbs (missing high bytes are zero).
func verifLimbs8(data []byte) [8]uint64 {
	var buf [64]byte
	copy(buf[:], data)
	var x [8]uint64
	for i := range x {
		x[i] = binary.LittleEndian.Uint64(buf[8*i : 8*i+8])
	}
	return x
}

func verifLimbs4(data []byte) [4]uint64 {
	var x [4]uint64
	for i := range x {
		x[i] = binary.LittleEndian.Uint64(data[8*i : 8*i+8])
	}
	return x
}

// verifMul19 returns 19*b for a 5-limb b < 2^257 (the product fits 5 limbs).
func verifMul19(b [5]uint64) [5]uint64 {
	var out [5]uint64
	var carry uint64
	for i := 0; i < 5; i++ {
		hi, lo := bits.Mul64(b[i], 19)
		var c uint64
		out[i], c = bits.Add64(lo, carry, 0)
		carry = hi + c
	}
	return out
}

// verifLess4 is a < b on 4-limb values, branch-free (borrow of a - b).
func verifLess4(a, b [4]uint64) uint64 {
	var br uint64
	for i := 0; i < 4; i++ {
		_, br = bits.Sub64(a[i], b[i], br)
	}
	return br
}

// verifWideRef is the specification above: S (5 limbs), k, R (4 limbs).
func verifWideRef(x [8]uint64) (s [5]uint64, k uint64, r [4]uint64) {
	const top = uint64(1) << 63
	a := [5]uint64{x[0], x[1], x[2], x[3] &^ top, 0}
	var b [5]uint64
	for i := 0; i < 4; i++ {
		b[i] = x[3+i]>>63 | x[4+i]<<1
	}
	b[4] = x[7] >> 63
	m := verifMul19(b)
	var c uint64
	for i := 0; i < 5; i++ {
		s[i], c = bits.Add64(a[i], m[i], c)
	}
	// S = a2 + 2^255*b2
	a2 := [4]uint64{s[0], s[1], s[2], s[3] &^ top}
	b2 := s[3]>>63 | s[4]<<1
	var t [4]uint64
	t[0], c = bits.Add64(a2[0], 19*b2, 0) // b2 < 2^8: no overflow in 19*b2
	t[1], c = bits.Add64(a2[1], 0, c)
	t[2], c = bits.Add64(a2[2], 0, c)
	t[3], _ = bits.Add64(a2[3], 0, c) // T < 2^256
	p := verifFpP()
	ge := 1 - verifLess4(t, p)
	mask := -ge
	var br uint64
	for i := 0; i < 4; i++ {
		r[i], br = bits.Sub64(t[i], p[i]&mask, br)
	}
	return s, b2 + ge, r
}

// verifAddKP returns r + k*p as 5 limbs (k < 2^9).
func verifAddKP(r [4]uint64, k uint64) [5]uint64 {
	p := verifFpP()
	var kp [5]uint64
	var carry uint64
	for i := 0; i < 4; i++ {
		hi, lo := bits.Mul64(p[i], k)
		var c uint64
		kp[i], c = bits.Add64(lo, carry, 0)
		carry = hi + c
	}
	kp[4] = carry
	var out [5]uint64
	var c uint64
	for i := 0; i < 4; i++ {
		out[i], c = bits.Add64(r[i], kp[i], c)
	}
	out[4], _ = bits.Add64(0, kp[4], c)
	return out
}

// verifWideCheck runs SetBytesWide on data (len <= 64) and checks the result against the
// specification. The receiver starts as an arbitrary tight element.
func verifWideCheck(data []byte) {
	data0 := append([]byte{}, data...)
	var f Fp
	ok := f.SetBytesWide(data)
	got := verifLimbs4(f.Bytes())
	s, k, r := verifWideRef(verifLimbs8(data0))
	verifAssert("wide.ok", ok == 1)
	verifAssert("wide.canonical_lt_p", verifLess4(got, verifFpP()) == 1)
	verifAssert("wide.equals_X_mod_p", got == r)
	verifAssert("wide.identity_out_plus_kp_eq_a_plus_19b", verifAddKP(got, k) == s)
	verifAssert("wide.k_small", k <= 1<<7)
	same := uint64(0)
	for i := range data0 {
		same += verifB2U(data[i] != data0[i])
	}
	verifAssert("wide.input_untouched", same == 0)
}

// H_ed25519fp_constants: concrete facts the specification relies on, and the three constants of
// the library's formulation, all by limb arithmetic on concrete numbers:
// p + 19 = 2^255; 2^256 = 2p + 38; 2^511 mod p = 722 (through SetBytesWide on the concrete
// inputs 2^255, 2^256, 2^511, whose canonical bytes must be 19, 38, 722).
func H_ed25519fp_constants() {
	verifReach("ed25519fp_constants")
	p := verifFpP()
	var mod [4]uint64
	mod = verifLimbs4(FpModulus[:])
	verifAssert("const.FpModulus_is_p", mod == p)
	var c uint64
	var q [4]uint64
	q[0], c = bits.Add64(p[0], 19, 0)
	q[1], c = bits.Add64(p[1], 0, c)
	q[2], c = bits.Add64(p[2], 0, c)
	q[3], c = bits.Add64(p[3], 0, c)
	verifAssert("const.p_plus_19_is_2^255", q == [4]uint64{0, 0, 0, 1 << 63} && c == 0)
	// 2*p + 38 == 2^256 and (2^256 + 38)*p + 722 == 2^511, on 8 concrete limbs
	mulSmall := func(x [8]uint64, m uint64) (out [8]uint64) {
		var carry uint64
		for i := range x {
			hi, lo := bits.Mul64(x[i], m)
			var cc uint64
			out[i], cc = bits.Add64(lo, carry, 0)
			carry = hi + cc
		}
		return out
	}
	add8 := func(x, y [8]uint64) (out [8]uint64) {
		var cc uint64
		for i := range x {
			out[i], cc = bits.Add64(x[i], y[i], cc)
		}
		return out
	}
	p8 := [8]uint64{p[0], p[1], p[2], p[3]}
	pShift256 := [8]uint64{0, 0, 0, 0, p[0], p[1], p[2], p[3]}
	verifAssert("const.2p_plus_38_is_2^256", add8(mulSmall(p8, 2), [8]uint64{38}) == [8]uint64{0, 0, 0, 0, 1})
	verifAssert("const.(2^256+38)p_plus_722_is_2^511",
		add8(add8(pShift256, mulSmall(p8, 38)), [8]uint64{722}) == [8]uint64{0, 0, 0, 0, 0, 0, 0, 1 << 63})
	for _, tc := range []struct {
		bit  int
		want uint64
	}{{255, 19}, {256, 38}, {511, 722}, {0, 1}, {254, 0}} {
		var in [64]byte
		in[tc.bit/8] = 1 << (tc.bit % 8)
		var f Fp
		ok := f.SetBytesWide(in[:])
		got := verifLimbs4(f.Bytes())
		if tc.bit == 254 {
			verifAssert("const.2^254", ok == 1 && got == [4]uint64{0, 0, 0, 1 << 62})
		} else {
			verifAssert("const.2^k_mod_p", ok == 1 && got == [4]uint64{tc.want, 0, 0, 0})
		}
	}
	// p itself, p-1, 2^512-1
	var in [64]byte
	copy(in[:], FpModulus[:])
	var f Fp
	f.SetBytesWide(in[:])
	verifAssert("const.p_maps_to_0", verifLimbs4(f.Bytes()) == [4]uint64{})
	in[0]--
	f.SetBytesWide(in[:])
	pm1 := p
	pm1[0]--
	verifAssert("const.p_minus_1_fixed", verifLimbs4(f.Bytes()) == pm1)
	for i := range in {
		in[i] = 0xff
	}
	f.SetBytesWide(in[:])
	// 2^512 - 1 = 4*2^510 - 1 ; 2^510 = (2^255)^2 = 361 mod p ; 4*361 - 1 = 1443
	verifAssert("const.2^512_minus_1", verifLimbs4(f.Bytes()) == [4]uint64{1443, 0, 0, 0})
}

// H_ed25519fp_wide_64_monolithic_EXPECT_INCONCLUSIVE: ALL 64-byte inputs (512 symbolic bits)
// against the 64-bit reference, one query per obligation, real primitives. Kept as the record of
// the attempt: wide.equals_X_mod_p and wide.identity_* do not finish (600 s: z3 4.8.12 unknown;
// z3 5.1 and cvc5 no answer), so the expected status is inconclusive. The full-width result is
// H_ed25519fp_wide_composed_64 below.
func H_ed25519fp_wide_64_monolithic_EXPECT_INCONCLUSIVE() {
	data := verifBytes(64)
	verifReach("ed25519fp_wide_64_monolithic")
	verifWideCheck(data)
}

// H_ed25519fp_wide_short_monolithic: lengths 0, 1, 31, 32 (the high half is zero), all contents
// symbolic, real primitives, against the 64-bit reference. (Lengths 33 and 63 are covered at
// full width by H_ed25519fp_wide_composed_short.)
func H_ed25519fp_wide_short_monolithic() {
	lens := []int{0, 1, 31, 32}
	data := verifBytes(lens[verifLen(0, 3)])
	verifReach("ed25519fp_wide_short_monolithic")
	verifWideCheck(data)
}

// H_ed25519fp_wide_too_long: 65 bytes => returns 0 and leaves the receiver unchanged (receiver:
// arbitrary limbs).
func H_ed25519fp_wide_too_long() {
	data := verifBytes(65)
	var f Fp
	for i := range f.v {
		f.v[i] = verifU64()
	}
	before := f.v
	ok := f.SetBytesWide(data)
	verifReach("ed25519fp_wide_too_long")
	verifAssert("wide65.returns_0", ok == 0)
	verifAssert("wide65.receiver_unchanged", f.v == before)
}

// H_ed25519fp_wide_receiver_irrelevant: the result does not depend on what the receiver held.
func H_ed25519fp_wide_receiver_irrelevant() {
	data := verifBytes(64)
	var f, g Fp
	for i := range f.v {
		f.v[i] = verifU64()
	}
	f.SetBytesWide(data)
	g.SetBytesWide(data)
	verifReach("ed25519fp_wide_receiver_irrelevant")
	verifAssert("wide.receiver_irrelevant", f.v == g.v)
}

// H_ed25519fp_setbytes: SetBytes/Bytes for all 32-byte inputs.
//   - x < p: accepted, Bytes() returns x (round trip).
//   - p <= x < 2^255: the code ACCEPTS (it only tests bit 255; nothing is documented), and
//     Bytes() returns the canonical x - p (19 values: 0..18).
//   - bit 255 set: rejected (returns 0), receiver unchanged.
//   - length != 32: rejected, receiver unchanged.
func H_ed25519fp_setbytes() {
	data := verifBytes(32)
	x := verifLimbs4(data)
	p := verifFpP()
	var f Fp
	for i := range f.v {
		f.v[i] = verifU64()
	}
	before := f.v
	ok := f.SetBytes(data)
	verifReach("ed25519fp_setbytes")
	top := x[3] >> 63
	verifAssert("setbytes.accepts_iff_bit255_clear", uint64(ok) == 1-top)
	if ok == 0 {
		verifAssert("setbytes.reject_leaves_receiver", f.v == before)
		return
	}
	got := verifLimbs4(f.Bytes())
	lt := verifLess4(x, p)
	// x < p: identity; otherwise x - p
	var want [4]uint64
	var br uint64
	mask := lt - 1 // all ones iff x >= p
	for i := 0; i < 4; i++ {
		want[i], br = bits.Sub64(x[i], p[i]&mask, br)
	}
	verifAssert("setbytes.bytes_roundtrip_below_p", verifB2U(lt == 1) <= verifB2U(got == x))
	verifAssert("setbytes.noncanonical_accepted_and_reduced", got == want)
	verifAssert("setbytes.bytes_canonical", verifLess4(got, p) == 1)
	// limbs are the 51-bit split of x
	var bad uint64
	for i := 0; i < 5; i++ {
		bad += verifB2U(f.v[i]>>51 != 0)
	}
	verifAssert("setbytes.limbs_tight", bad == 0)
}

// H_ed25519fp_setbytes_lengths: wrong lengths are rejected without touching the receiver.
func H_ed25519fp_setbytes_lengths() {
	lens := []int{0, 1, 31, 33, 64}
	data := verifBytes(lens[verifLen(0, 4)])
	var f Fp
	for i := range f.v {
		f.v[i] = verifU64()
	}
	before := f.v
	ok := f.SetBytes(data)
	verifReach("ed25519fp_setbytes_lengths")
	verifAssert("setbytes.badlen_rejected", ok == 0 && f.v == before)
}

// H_ed25519fp_bytes_canonical: Bytes() of ANY tight element (5 limbs < 2^51, value possibly
// >= p) is below p and SetBytes(Bytes()) is accepted and has the same bytes.
func H_ed25519fp_bytes_canonical() {
	var f Fp
	for i := range f.v {
		f.v[i] = verifU64()
		verifAssume(f.v[i]>>51 == 0)
	}
	verifReach("ed25519fp_bytes_canonical")
	bs := f.Bytes()
	verifAssert("bytes.lt_p", verifLess4(verifLimbs4(bs), verifFpP()) == 1)
	var g Fp
	ok := g.SetBytes(bs)
	verifAssert("bytes.setbytes_accepts", ok == 1)
	verifAssert("bytes.roundtrip", verifLimbs4(g.Bytes()) == verifLimbs4(bs))
}

// ---- shrunk instance of the monolithic 64-byte obligation ----

// verifShrunk64 returns a 64-byte input with 4*k fully symbolic bytes (the k lowest and the k
// highest bytes of each 32-byte half: carries enter at the bottom, the special bits 255 and 511
// and the reduction happen at the top); every other byte is the constant 0x00 or 0xa5 (chosen
// per half by a fork: 4 paths). Symbolic bits: 32*k. This is how far the MONOLITHIC query (real
// primitives, 64-bit reference) gets: k = 1 (32 symbolic bits) in minutes; with fill 0xff or
// k = 2 single queries already exceed 100 s.
func verifShrunk64(k int) []byte {
	data := make([]byte, 64)
	for h := 0; h < 2; h++ {
		fill := byte(0x00)
		if verifLen(0, 1) == 1 {
			fill = 0xa5
		}
		for i := 0; i < 32; i++ {
			if i < k || i >= 32-k {
				data[32*h+i] = verifU8()
			} else {
				data[32*h+i] = fill
			}
		}
	}
	return data
}

// (Only the direct statement bytes(out) == X mod p: the redundant identity form costs another
// 50-200 s per path here and is left to the other harnesses.)
func H_ed25519fp_wide_shrunk_k1_monolithic() {
	data := verifShrunk64(1)
	verifReach("ed25519fp_wide_shrunk_k1_monolithic")
	var f Fp
	ok := f.SetBytesWide(data)
	got := verifLimbs4(f.Bytes())
	_, _, r := verifWideRef(verifLimbs8(data))
	verifAssert("shrunk.ok", ok == 1)
	verifAssert("shrunk.canonical_lt_p", verifLess4(got, verifFpP()) == 1)
	verifAssert("shrunk.equals_X_mod_p", got == r)
}

// ---- the same obligation in radix 2^51 (formulation the solver can discharge) ----
//
// Bit decomposition (an identity of integers, asserted as "wide51.decomposition"):
//	X = lo + 2^255*b255 + 2^256*hi + 2^511*b511,  lo, hi < 2^255
// Concrete congruences (H_ed25519fp_constants): 2^255 = p + 19, 2^256 = 2p + 38,
// 2^511 = (2^256 + 38)*p + 722. Hence X = S (mod p) for
//	S = lo + 19*b255 + 38*hi + 722*b511          (S < 40*2^255)
// and "bytes(out) = X mod p" is: bytes(out) < p and bytes(out) + k*p == S for some k. The
// witness is k = floor(S / 2^255) + [S mod 2^255 + 19*floor(S / 2^255) >= p]. Both sides of the
// identity are column vectors in radix 2^51 (5*51 = 255, so lo and hi are exactly five columns
// each); they are compared after the same carry propagation verifNorm51.

const verifMask51 = uint64(1)<<51 - 1

// verifBits returns bits [off, off+n) of the little-endian limb vector x (n <= 64, zero beyond).
func verifBits(x []uint64, off, n int) uint64 {
	i, sh := off/64, uint(off%64)
	var v uint64
	if i < len(x) {
		v = x[i] >> sh
	}
	if sh != 0 && i+1 < len(x) {
		v |= x[i+1] << (64 - sh)
	}
	if n < 64 {
		v &= uint64(1)<<uint(n) - 1
	}
	return v
}

// verifNorm51 propagates carries: the integer sum(c[i]*2^(51i)) as five 51-bit digits and the rest.
func verifNorm51(c [5]uint64) (out [6]uint64) {
	var carry uint64
	for i := 0; i < 5; i++ {
		t := c[i] + carry // columns are < 2^60: no overflow
		out[i] = t & verifMask51
		carry = t >> 51
	}
	out[5] = carry
	return out
}

// verifDecomposition recomposes lo + 2^255*b255 + 2^256*hi + 2^511*b511 from the columns by
// placing every piece at its bit offset (pieces are disjoint, so OR is addition).
func verifDecomposition(lo, hi [5]uint64, b255, b511 uint64) (y [8]uint64) {
	for i := 0; i < 5; i++ {
		for _, part := range []struct {
			v   uint64
			off int
		}{{lo[i], 51 * i}, {hi[i], 256 + 51*i}} {
			j, sh := part.off/64, uint(part.off%64)
			y[j] |= part.v << sh
			if sh > 13 {
				y[j+1] |= part.v >> (64 - sh)
			}
		}
	}
	y[3] |= b255 << 63
	y[7] |= b511 << 63
	return y
}

func verifWideCheck51(data []byte) {
	data0 := append([]byte{}, data...)
	var f Fp
	ok := f.SetBytesWide(data)
	got := verifLimbs4(f.Bytes())
	x8 := verifLimbs8(data0)
	x := x8[:]
	verifAssert("wide51.ok", ok == 1)
	verifAssert("wide51.canonical_lt_p", verifLess4(got, verifFpP()) == 1)

	var lo, hi, r [5]uint64
	for i := 0; i < 5; i++ {
		lo[i] = verifBits(x, 51*i, 51)
		hi[i] = verifBits(x, 256+51*i, 51)
		r[i] = verifBits(got[:], 51*i, 51)
	}
	b255, b511 := verifBits(x, 255, 1), verifBits(x, 511, 1)
	verifAssert("wide51.decomposition", verifDecomposition(lo, hi, b255, b511) == x8)
	verifAssert("wide51.got_is_4_limbs_of_255_bits", got[3]>>63 == 0)

	// S as columns
	var s [5]uint64
	s[0] = lo[0] + 19*b255 + 38*hi[0] + 722*b511
	for i := 1; i < 5; i++ {
		s[i] = lo[i] + 38*hi[i]
	}
	ns := verifNorm51(s)
	k1 := ns[5]
	nt := verifNorm51([5]uint64{ns[0] + 19*k1, ns[1], ns[2], ns[3], ns[4]})
	allOnes := verifB2U(nt[1] == verifMask51) & verifB2U(nt[2] == verifMask51) & verifB2U(nt[3] == verifMask51) & verifB2U(nt[4] == verifMask51)
	ge := nt[5] | allOnes&verifB2U(nt[0] >= verifMask51-18)
	k := k1 + ge
	verifAssert("wide51.k_small", k <= 40 && ge <= 1)
	// bytes(out) + k*p as columns (p = [2^51-19, 2^51-1, 2^51-1, 2^51-1, 2^51-1])
	var a [5]uint64
	a[0] = r[0] + k*(verifMask51-18)
	for i := 1; i < 5; i++ {
		a[i] = r[i] + k*verifMask51
	}
	verifAssert("wide51.out_plus_kp_eq_lo_19b255_38hi_722b511", verifNorm51(a) == ns)
}

// H_ed25519fp_wide51_64_monolithic_EXPECT_INCONCLUSIVE: ALL 64-byte inputs, radix-2^51 identity,
// real primitives, one query: does not finish either (600 s on z3 4.8.12, z3 5.1, cvc5).
func H_ed25519fp_wide51_64_monolithic_EXPECT_INCONCLUSIVE() {
	data := verifBytes(64)
	verifReach("ed25519fp_wide51_64_monolithic")
	verifWideCheck51(data)
}

// ---- helpers for the lemmas about the generated primitives ----
//
// eval z = z[0] + z[1]*2^51 + ... + z[4]*2^204 (fiat's definition). "Tight" = every limb
// <= 2^51 (fiat's tight bound 0x8000000000000). SetBytesWide is the composition
//	lo  = FromBytes(lo')                          eval = lo'
//	hi  = CarryMul(FromBytes(hi'), 38)            eval = 38*hi' - k1*p
//	lo2 = CarryAdd(lo, Select(b255, 0, 19))       eval = lo' + 19*b255 - k2*p
//	hi2 = CarryAdd(hi, Select(b511, 0, 722))      eval = 38*hi' + 722*b511 - (k1+k3)*p
//	out = CarryAdd(lo2, hi2)                      eval = S - (k1+k2+k3+k4)*p
//	bytes = ToBytes(out)                          = eval(out) mod p, canonical.

// verifTight: an arbitrary tight element. Each limb ranges over exactly [0, 2^51]: 51 free low
// bits plus a free 0/1 (no assumption, so concrete self-test runs are never dropped).
func verifTight() (f fiatFpTightFieldElement) {
	for i := range f {
		v := verifU64()
		f[i] = v&verifMask51 + v>>63
	}
	return f
}

// verifColsKP returns the columns of z + k*p.
func verifColsKP(z [5]uint64, k uint64) (a [5]uint64) {
	a[0] = z[0] + k*(verifMask51-18)
	for i := 1; i < 5; i++ {
		a[i] = z[i] + k*verifMask51
	}
	return a
}

// ---- machine-checked composition: SetBytesWide over CONTRACTS of the primitives ----
//
// The single 512-bit query "real SetBytesWide == specification" is out of reach of the solvers
// (see the report); every primitive alone is easy. So the proof has two layers, both checked by
// the engine at full width:
//
//  (1) lemmas (H_ed25519fp_cert_*): the REAL fiatFpCarryAdd / fiatFpCarryMul(., 38) /
//      fiatFpToBytes / fiatFpFromBytes / fiatFpSelectznz satisfy the post-conditions below for ALL
//      in-bounds inputs;
//  (2) composition (H_ed25519fp_wide_composed_*): the REAL bodies of SetBytesWide and Bytes are
//      executed on ALL 64-byte inputs with those five primitives replaced by contracts that
//      assert the pre-conditions and return FRESH values constrained only by the same
//      post-conditions; the result R must satisfy R < p and R + K*p == S (integers),
//      S = lo + 19*b255 + 38*hi + 722*b511.
//
// Post-conditions are integer identities "eval(out) + k*p == exact result" in CERTIFICATE form:
// columns A (left side) and B (right side) in radix 2^51 and explicit signed carries c with
//	A[i] + c[i-1] == B[i] + 2^51*c[i]   (i = 0..4, c[-1] = 0),   c[4] == 0,   |c[i]| <= 2^7
// (verifCertHolds). All columns are < 2^59 and carries are tiny, so these 64-bit equations do not
// wrap and are equations of integers; multiplying column i by 2^(51 i) and adding gives
// sum(A) == sum(B). Certificates of successive steps ADD column-wise, which is word-level linear
// arithmetic the solver normalises, whereas re-deriving carries bit by bit is what makes the
// monolithic query intractable. The contracts are active only while the ghost variable
// verifUseContracts is set, so every other harness of this directory runs the real primitives.

var verifUseContracts bool

// ghost record of the contracts' certificates, in call order
var verifGhostN int
var verifGhostK [8]uint64
var verifGhostC [8][5]uint64
var verifGhostR [5]uint64 // digits of the bytes returned by the ToBytes contract

// verifPack51 packs five 51-bit digits into four 64-bit limbs.
func verifPack51(d [5]uint64) [4]uint64 {
	return [4]uint64{
		d[0] | d[1]<<51,
		d[1]>>13 | d[2]<<38,
		d[2]>>26 | d[3]<<25,
		d[3]>>39 | d[4]<<12,
	}
}

const verifCarryBound = uint64(1) << 7

// verifCertHolds: the certificate equations with carries c (two's complement), |c[i]| <= bound.
func verifCertHolds(a, b, c [5]uint64, bound uint64) bool {
	var bad uint64
	var prev uint64
	for i := 0; i < 5; i++ {
		bad += verifB2U(a[i]+prev != b[i]+c[i]<<51)
		bad += verifB2U(c[i]+bound > 2*bound) // -bound <= c[i] <= bound
		prev = c[i]
	}
	bad += verifB2U(c[4] != 0)
	return bad == 0
}

// verifCertConds: the same conditions one by one (top-level equalities are what the solver's
// word-level preprocessing can use; a single folded Bool hides them).
func verifCertConds(a, b, c [5]uint64, bound uint64) []bool {
	conds := make([]bool, 0, 11)
	var prev uint64
	for i := 0; i < 5; i++ {
		conds = append(conds, a[i]+prev == b[i]+c[i]<<51, c[i]+bound <= 2*bound)
		prev = c[i]
	}
	return append(conds, c[4] == 0)
}

func verifTightConds(f [5]uint64) []bool {
	conds := make([]bool, 0, 5)
	for i := range f {
		conds = append(conds, f[i] <= 1<<51)
	}
	return conds
}

func verifAssumeAll(conds []bool) {
	for _, c := range conds {
		verifAssume(c)
	}
}

// verifCertWitness computes the carries that make the certificate hold, if any do: the
// difference of the carry chains of the two carry propagations (if sum(A) == sum(B), both
// propagate to the same digits d: A[i] + ca[i-1] == d[i] + 2^51*ca[i], likewise for B).
func verifCertWitness(a, b [5]uint64) (c [5]uint64) {
	var ca, cb uint64
	for i := 0; i < 5; i++ {
		ca = (a[i] + ca) >> 51
		cb = (b[i] + cb) >> 51
		c[i] = ca - cb
	}
	return c
}

func verifTightArr(f *[5]uint64) bool {
	var bad uint64
	for i := range f {
		bad += verifB2U(f[i] > 1<<51)
	}
	return bad == 0
}

func verifColSum(a, b [5]uint64) (c [5]uint64) {
	for i := range c {
		c[i] = a[i] + b[i]
	}
	return c
}

func verifColTimes38(a [5]uint64) (c [5]uint64) {
	for i := range c {
		c[i] = 38 * a[i]
	}
	return c
}

func verifDigits(r [4]uint64) (d [5]uint64) {
	for i := range d {
		d[i] = verifBits(r[:], 51*i, 51)
	}
	return d
}

// post-conditions, shared by the lemmas (asserted of the real code, with computed witnesses) and
// by the contracts (assumed of fresh outputs and fresh carries)

// CarryAdd: out tight, eval(out) + k*p == eval(a) + eval(b) for some k <= 2 (the lemma exhibits
// k = floor((eval a + eval b)/2^255)).
func verifPostCarryAdd(a, b, out, c [5]uint64, k uint64) []bool {
	want := verifColSum(a, b)
	conds := []bool{k <= 2}
	conds = append(conds, verifTightConds(out)...)
	return append(conds, verifCertConds(verifColsKP(out, k), want, c, verifCarryBound)...)
}

// CarryMul by {38,0,0,0,0}: out tight, eval(out) + k*p == 38*eval(h) for some k <= 38 (the lemma
// exhibits k = floor(38*eval(h)/2^255)).
func verifPostCarryMul38(h, out, c [5]uint64, k uint64) []bool {
	want := verifColTimes38(h)
	conds := []bool{k <= 38}
	conds = append(conds, verifTightConds(out)...)
	return append(conds, verifCertConds(verifColsKP(out, k), want, c, verifCarryBound)...)
}

// verifGeP: [eval(f) >= p] for tight f (eval(f) < 2p).
func verifGeP(f [5]uint64) uint64 {
	nf := verifNorm51(f)
	allOnes := verifB2U(nf[1] == verifMask51) & verifB2U(nf[2] == verifMask51) & verifB2U(nf[3] == verifMask51) & verifB2U(nf[4] == verifMask51)
	return nf[5] | allOnes&verifB2U(nf[0] >= verifMask51-18)
}

// ToBytes: R < p (bit 255 clear), R + k*p == eval(f) for some k <= 1 (the lemma exhibits
// k = [eval(f) >= p]).
func verifPostToBytes(f [5]uint64, out [32]uint8, c [5]uint64, k uint64) []bool {
	r := verifLimbs4(out[:])
	conds := []bool{k <= 1, verifLess4(r, verifFpP()) == 1, r[3]>>63 == 0}
	return append(conds, verifCertConds(verifColsKP(verifDigits(r), k), f, c, verifCarryBound)...)
}

func verifPostFromBytes(in [32]uint8, out [5]uint64) bool {
	return out == verifDigits(verifLimbs4(in[:]))
}

func verifPostSelect(c uint64, z, nz, out [5]uint64) bool {
	var bad uint64
	for i := 0; i < 5; i++ {
		bad += verifB2U(out[i] != verifIteU64(c == 0, z[i], nz[i]))
	}
	return bad == 0
}

// verifCertSolve returns the unique z with z + k*p (columns) certified equal to want by carries
// c, i.e. verifCertConds(verifColsKP(z, k), want, c, .) holds column by column (mod 2^64).
func verifCertSolve(want, c [5]uint64, k uint64) (z [5]uint64) {
	pcol := [5]uint64{verifMask51 - 18, verifMask51, verifMask51, verifMask51, verifMask51}
	var prev uint64
	for i := 0; i < 5; i++ {
		z[i] = want[i] + c[i]<<51 - k*pcol[i] - prev
		prev = c[i]
	}
	return z
}

func verifFresh5() (x [5]uint64) {
	for i := range x {
		x[i] = verifU64()
	}
	return x
}

func verifGhostPush(k uint64, c [5]uint64) {
	verifGhostK[verifGhostN] = k
	verifGhostC[verifGhostN] = c
	verifGhostN++
}

// contracts
func verifCtrCarryAdd(out1 *fiatFpTightFieldElement, arg1 *fiatFpTightFieldElement, arg2 *fiatFpTightFieldElement) {
	if !verifUseContracts {
		fiatFpCarryAdd(out1, arg1, arg2)
		return
	}
	a, b := [5]uint64(*arg1), [5]uint64(*arg2)
	verifAssertGhost("contract.carryadd.pre_tight", verifTightArr(&a) && verifTightArr(&b))
	// fresh k and carries; out is then determined by the certificate equations (this ranges over
	// exactly the triples (out, k, c) that satisfy them); the remaining conditions are assumed
	c, k := verifFresh5(), verifU64()
	out := verifCertSolve(verifColSum(a, b), c, k)
	verifAssumeAll(verifPostCarryAdd(a, b, out, c, k))
	verifGhostPush(k, c)
	*out1 = out
}

func verifCtrCarryMul(out1 *fiatFpTightFieldElement, arg1 *fiatFpLooseFieldElement, arg2 *fiatFpLooseFieldElement) {
	if !verifUseContracts {
		fiatFpCarryMul(out1, arg1, arg2)
		return
	}
	h, m := [5]uint64(*arg1), [5]uint64(*arg2)
	verifAssertGhost("contract.carrymul38.pre", verifTightArr(&h) && m == [5]uint64{38, 0, 0, 0, 0})
	c, k := verifFresh5(), verifU64()
	out := verifCertSolve(verifColTimes38(h), c, k)
	verifAssumeAll(verifPostCarryMul38(h, out, c, k))
	verifGhostPush(k, c)
	*out1 = out
}

func verifCtrToBytes(out1 *[32]uint8, arg1 *fiatFpTightFieldElement) {
	if !verifUseContracts {
		fiatFpToBytes(out1, arg1)
		return
	}
	f := [5]uint64(*arg1)
	verifAssertGhost("contract.tobytes.pre_tight", verifTightArr(&f))
	c, k := verifFresh5(), verifU64()
	r := verifCertSolve(f, c, k) // digits of R
	for i := range r {
		verifAssume(r[i] <= verifMask51)
	}
	r4 := verifPack51(r)
	var out [32]uint8
	for i := range out {
		out[i] = uint8(r4[i/8] >> (8 * uint(i%8)))
	}
	verifAssumeAll(verifPostToBytes(f, out, c, k))
	verifGhostPush(k, c)
	verifGhostR = r
	*out1 = out
}

func verifCtrFromBytes(out1 *fiatFpTightFieldElement, arg1 *[32]uint8) {
	if !verifUseContracts {
		fiatFpFromBytes(out1, arg1)
		return
	}
	in := *arg1
	verifAssertGhost("contract.frombytes.pre_bit255_clear", in[31]>>7 == 0)
	*out1 = verifDigits(verifLimbs4(in[:])) // the post-condition determines the output
}

func verifCtrSelect(out1 *[5]uint64, arg1 fiatFpUint1, arg2 *[5]uint64, arg3 *[5]uint64) {
	if !verifUseContracts {
		fiatFpSelectznz(out1, arg1, arg2, arg3)
		return
	}
	verifAssertGhost("contract.select.pre_bit", arg1 <= 1)
	z, nz := *arg2, *arg3
	for i := 0; i < 5; i++ {
		out1[i] = verifIteU64(arg1 == 0, z[i], nz[i])
	}
}

func verifReplacements() map[string]any {
	const pk = "github.com/bronlabs/bron-crypto/pkg/base/curves/edwards25519/impl."
	return map[string]any{
		pk + "fiatFpCarryAdd":  verifCtrCarryAdd,
		pk + "fiatFpCarryMul":  verifCtrCarryMul,
		pk + "fiatFpToBytes":   verifCtrToBytes,
		pk + "fiatFpFromBytes": verifCtrFromBytes,
		pk + "fiatFpSelectznz": verifCtrSelect,
	}
}

// lemmas: the real primitives satisfy the post-conditions (carries = computed witnesses), for
// all in-bounds inputs
func H_ed25519fp_cert_carryadd() {
	a, b := verifTight(), verifTight()
	verifReach("ed25519fp_cert_carryadd")
	var out fiatFpTightFieldElement
	fiatFpCarryAdd(&out, &a, &b)
	k := verifNorm51(verifColSum(a, b))[5]
	for _, cond := range verifPostCarryAdd(a, b, out, verifCertWitness(verifColsKP(out, k), verifColSum(a, b)), k) {
		verifAssert("cert.carryadd", cond)
	}
	x := a
	fiatFpCarryAdd(&x, &x, &b) // aliased as in SetBytesWide
	verifAssert("cert.carryadd.aliased", x == out)
}

func H_ed25519fp_cert_carrymul38() {
	h := verifTight()
	verifReach("ed25519fp_cert_carrymul38")
	m := fiatFpLooseFieldElement{38, 0, 0, 0, 0}
	var out fiatFpTightFieldElement
	fiatFpCarryMul(&out, (*fiatFpLooseFieldElement)(&h), &m)
	k := verifNorm51(verifColTimes38(h))[5]
	for _, cond := range verifPostCarryMul38(h, out, verifCertWitness(verifColsKP(out, k), verifColTimes38(h)), k) {
		verifAssert("cert.carrymul38", cond)
	}
	x := h
	fiatFpCarryMul(&x, (*fiatFpLooseFieldElement)(&x), &m)
	verifAssert("cert.carrymul38.aliased", x == out)
}

func H_ed25519fp_cert_tobytes() {
	f := verifTight()
	verifReach("ed25519fp_cert_tobytes")
	var out [32]uint8
	fiatFpToBytes(&out, &f)
	k := verifGeP(f)
	for _, cond := range verifPostToBytes(f, out, verifCertWitness(verifColsKP(verifDigits(verifLimbs4(out[:])), k), f), k) {
		verifAssert("cert.tobytes", cond)
	}
}

func H_ed25519fp_cert_frombytes_select() {
	var in [32]uint8
	copy(in[:], verifBytes(32))
	verifAssume(in[31]>>7 == 0)
	z, nz := verifFresh5(), verifFresh5()
	c := verifU64()
	verifAssume(c <= 1)
	verifReach("ed25519fp_cert_frombytes_select")
	var out fiatFpTightFieldElement
	fiatFpFromBytes(&out, &in)
	verifAssert("cert.frombytes", verifPostFromBytes(in, out))
	var sel [5]uint64
	fiatFpSelectznz(&sel, fiatFpUint1(c), &z, &nz)
	verifAssert("cert.select", verifPostSelect(c, z, nz, sel))
}

// verifWideComposed: SetBytesWide + Bytes over the contracts; the final certificate is the
// column-wise sum of the five recorded ones. weight is 38 (any other value gives a wrong claim,
// used by the control). Conditions that read ghost state are verifAssertGhost (the native twin
// runs the real primitives and has no certificates).
func verifWideComposed(data []byte, weight uint64) {
	data0 := append([]byte{}, data...)
	verifUseContracts = true
	var f Fp
	ok := f.SetBytesWide(data)
	got := verifLimbs4(f.Bytes())
	verifUseContracts = false
	verifAssert("composed.ok", ok == 1)
	// contracts entered: CarryMul, CarryAdd x3, ToBytes
	verifAssertGhost("composed.five_certificates", verifGhostN == 5)
	var kSum uint64
	var cSum [5]uint64
	for j := 0; j < 5; j++ {
		kSum += verifGhostK[j]
		for i := 0; i < 5; i++ {
			cSum[i] += verifGhostC[j][i]
		}
	}
	x8 := verifLimbs8(data0)
	x := x8[:]
	var lo, hi, s [5]uint64
	for i := 0; i < 5; i++ {
		lo[i] = verifBits(x, 51*i, 51)
		hi[i] = verifBits(x, 256+51*i, 51)
		s[i] = lo[i] + weight*hi[i]
	}
	b255, b511 := verifBits(x, 255, 1), verifBits(x, 511, 1)
	s[0] += 19*b255 + 722*b511
	verifAssert("composed.decomposition_X_eq_lo_b255_hi_b511", verifDecomposition(lo, hi, b255, b511) == x8)
	r := verifGhostR
	verifAssertGhost("composed.ghost_digits_are_digits_of_bytes", r == verifDigits(got))
	verifAssert("composed.lt_p", verifLess4(got, verifFpP()) == 1)
	verifAssertGhost("composed.K_small", kSum <= 64)
	// the certificate of R + K*p == S with K = sum k_j and carries C = sum c_j, written as the
	// column-wise SUM of the five recorded certificates (K*p_i as sum of k_j*p_i, 2^51*C_i as sum
	// of c_j[i] << 51: the same 64-bit values, in the form in which the five assumed equations add
	// up to the asserted one). With r_i < 2^51, K <= 64, s_i < 2^58 and |C_i| <= 5*2^7 every side
	// is below 2^62 in absolute value, so the equations hold over the integers; times 2^(51 i) and
	// summed (C_4 = 0, the carries telescope) they give R + K*p == S.
	pcol := [5]uint64{verifMask51 - 18, verifMask51, verifMask51, verifMask51, verifMask51}
	for i := 0; i < 5; i++ {
		lhs, rhs := r[i], s[i]
		for j := 0; j < 5; j++ {
			lhs += verifGhostK[j] * pcol[i]
			if i > 0 {
				lhs += verifGhostC[j][i-1]
			}
			rhs += verifGhostC[j][i] << 51
		}
		verifAssertGhost("composed.bytes_plus_Kp_eq_lo_19b255_38hi_722b511", lhs == rhs)
		verifAssertGhost("composed.carries_small", cSum[i]+5*verifCarryBound <= 10*verifCarryBound)
	}
	verifAssertGhost("composed.top_carry_zero", cSum[4] == 0)
	same := uint64(0)
	for i := range data0 {
		same += verifB2U(data[i] != data0[i])
	}
	verifAssert("composed.input_untouched", same == 0)
	// the contract assumptions are jointly satisfiable on this path (vacuity guard)
	verifReach("ed25519fp_wide_composed_end")
}

// H_ed25519fp_wide_composed_64: ALL 64-byte inputs (512 symbolic bits).
func H_ed25519fp_wide_composed_64() {
	data := verifBytes(64)
	verifReach("ed25519fp_wide_composed_64")
	verifWideComposed(data, 38)
}

// H_ed25519fp_wide_composed_short: lengths 0, 1, 31, 32, 33, 63.
func H_ed25519fp_wide_composed_short() {
	lens := []int{0, 1, 31, 32, 33, 63}
	data := verifBytes(lens[verifLen(0, 5)])
	verifReach("ed25519fp_wide_composed_short")
	verifWideComposed(data, 38)
}

// H_ed25519fp_wide_composed_wrong_EXPECT_INCONCLUSIVE (control, expected status: inconclusive for
// composed.bytes_plus_Kp_*): the composed statement with weight 37 for the high half is NOT
// provable from the contracts (so the composition proves nothing vacuously); the counterexample
// lives in ghost state and is therefore reported inconclusive, never a violation. The control
// that must be VIOLATED natively is H_ed25519fp_wide_composed_MUSTFAIL.
func H_ed25519fp_wide_composed_wrong_EXPECT_INCONCLUSIVE() {
	data := verifBytes(64)
	verifReach("ed25519fp_wide_composed_wrong")
	verifWideComposed(data, 37)
}

// H_ed25519fp_cert_MUSTFAIL: wrong twin of a lemma (certificate for weight 37 instead of 38),
// real primitives.
func H_ed25519fp_cert_MUSTFAIL() {
	h := verifTight()
	verifReach("ed25519fp_cert_mustfail")
	m := fiatFpLooseFieldElement{38, 0, 0, 0, 0}
	var out fiatFpTightFieldElement
	fiatFpCarryMul(&out, (*fiatFpLooseFieldElement)(&h), &m)
	var want [5]uint64
	for i := range want {
		want[i] = 37 * h[i]
	}
	k := verifNorm51(want)[5]
	a := verifColsKP(out, k)
	verifAssert("cert.wrong_weight_37", verifCertHolds(a, want, verifCertWitness(a, want), verifCarryBound))
}

// H_ed25519fp_wide_composed_MUSTFAIL: wrong twin of the end-to-end statement (S with weight 37
// for the high half), REAL primitives, on the two-parameter family X = u + 2^256*v (u, v < 2^32)
// where the monolithic query is tractable: a control must replay natively.
func H_ed25519fp_wide_composed_MUSTFAIL() {
	data := make([]byte, 64)
	copy(data[0:4], verifBytes(4))
	copy(data[32:36], verifBytes(4))
	verifReach("ed25519fp_wide_composed_mustfail")
	var f Fp
	f.SetBytesWide(data)
	got := verifLimbs4(f.Bytes())
	u := uint64(binary.LittleEndian.Uint32(data[0:4]))
	v := uint64(binary.LittleEndian.Uint32(data[32:36]))
	verifAssert("composed.wrong_weight_37", got == [4]uint64{u + 37*v, 0, 0, 0})
}

// ---- controls ----

// H_ed25519fp_wide_MUSTFAIL: wrong twin (specification with 2^256 = 19 instead of 38, i.e. the
// high half weighted by 19).
func H_ed25519fp_wide_MUSTFAIL() {
	data := verifBytes(64)
	verifReach("ed25519fp_wide_mustfail")
	var f Fp
	f.SetBytesWide(data)
	got := verifLimbs4(f.Bytes())
	x := verifLimbs8(data)
	// wrong: treat the high half as if it started at bit 255 (x' = lo + 2^255*hi)
	var y [8]uint64
	y[0], y[1], y[2], y[3] = x[0], x[1], x[2], x[3]&^(1<<63)|x[4]<<63
	y[4] = x[4]>>1 | x[5]<<63
	y[5] = x[5]>>1 | x[6]<<63
	y[6] = x[6]>>1 | x[7]<<63
	y[7] = x[7] >> 1
	_, _, r := verifWideRef(y)
	verifAssert("wide.wrong_weight_of_high_half", got == r)
}

// H_ed25519fp_setbytes_MUSTFAIL: wrong twin (claims SetBytes rejects every input >= p).
func H_ed25519fp_setbytes_MUSTFAIL() {
	data := verifBytes(32)
	x := verifLimbs4(data)
	var f Fp
	ok := f.SetBytes(data)
	verifReach("ed25519fp_setbytes_mustfail")
	verifAssert("setbytes.wrong_rejects_all_noncanonical", uint64(ok) == verifLess4(x, verifFpP()))
}
