//go:build verif_e1

package session

import (
	"bytes"
	"encoding/binary"

	"github.com/bronlabs/bron-crypto/pkg/base/datastructures/hashset"
	"github.com/bronlabs/bron-crypto/pkg/mpc/sharing"
	"github.com/bronlabs/bron-crypto/pkg/network"
)

// E1 harnesses for pkg/mpc/session/context.go (property C10.b). Pairwise seed streams are
// cSHAKE256 objects; the harnesses compare what they ABSORB (verifHashLog: be64(0) ||
// be64(len S) || S || absorbed bytes, S the customisation string). Party identifiers are
// symbolic 64-bit values; the quorum is a set, so without loss of generality its members are
// named in increasing order (a < b < c < d, a >= 1); the holder ranges over the positions.
// Common and pairwise seeds are symbolic 32-byte strings.

func verifIDs(n int) []sharing.ID {
	ids := make([]sharing.ID, n)
	for i := range ids {
		ids[i] = sharing.ID(verifU64())
	}
	verifAssume(ids[0] >= 1)
	for i := 1; i < n; i++ {
		verifAssume(ids[i-1] < ids[i])
	}
	return ids
}

func verifQuorum(ids ...sharing.ID) network.Quorum {
	return hashset.NewComparable(ids...).Freeze()
}

// verifPairSeeds: one shared 32-byte seed per unordered pair.
func verifPairSeeds(n int) [][][]byte {
	s := make([][][]byte, n)
	for i := range s {
		s[i] = make([][]byte, n)
	}
	for i := 0; i < n; i++ {
		for j := i + 1; j < n; j++ {
			seed := verifBytes(32)
			s[i][j], s[j][i] = seed, seed
		}
	}
	return s
}

func verifMkCtx(holder int, ids []sharing.ID, common []byte, seeds [][][]byte) (*Context, error) {
	pw := make(map[sharing.ID][]byte)
	for j := range ids {
		if j != holder {
			pw[ids[j]] = seeds[holder][j]
		}
	}
	return NewContext(ids[holder], verifQuorum(ids...), common, pw)
}

func le64(x uint64) []byte { return binary.LittleEndian.AppendUint64(nil, x) }

// H_session_pair_seeds: three parties. The stream absorbed for pair (i,j) by party i equals the
// one absorbed by party j and has the documented layout (little-endian min, max, shared seed);
// streams of distinct pairs differ; session id and transcript agree between parties.
func H_session_pair_seeds() {
	ids := verifIDs(3)
	common := verifBytes(32)
	seeds := verifPairSeeds(3)
	var ctx [3]*Context
	for h := 0; h < 3; h++ {
		c, err := verifMkCtx(h, ids, common, seeds)
		verifAssert("newcontext.noerr", err == nil)
		ctx[h] = c
	}
	verifReach("session_pair_seeds")
	for i := 0; i < 3; i++ {
		for j := i + 1; j < 3; j++ {
			li := verifHashLog(ctx[i].seeds[ids[j]])
			lj := verifHashLog(ctx[j].seeds[ids[i]])
			verifAssert("pair.same_stream_both_sides", bytes.Equal(li, lj))
			s := []byte(seedDomainSeparatorLabel)
			want := append(append(binary.BigEndian.AppendUint64(nil, 0), binary.BigEndian.AppendUint64(nil, uint64(len(s)))...), s...)
			want = append(want, le64(uint64(ids[i]))...) // ids are increasing: min first
			want = append(want, le64(uint64(ids[j]))...)
			want = append(want, seeds[i][j]...)
			verifAssert("pair.stream_layout", bytes.Equal(li, want))
		}
	}
	// distinct pairs absorb distinct streams (as byte strings), whatever the seeds are
	lab := verifHashLog(ctx[0].seeds[ids[1]])
	lac := verifHashLog(ctx[0].seeds[ids[2]])
	lbc := verifHashLog(ctx[1].seeds[ids[2]])
	verifAssert("pair.distinct_pairs_differ", !bytes.Equal(lab, lac) && !bytes.Equal(lab, lbc) && !bytes.Equal(lac, lbc))
	verifAssert("session.sid_agrees", ctx[0].sid == ctx[1].sid && ctx[1].sid == ctx[2].sid)
	verifAssert("session.transcript_agrees", bytes.Equal(verifHashLog(ctx[0].tape), verifHashLog(ctx[1].tape)) &&
		bytes.Equal(verifHashLog(ctx[1].tape), verifHashLog(ctx[2].tape)))
	verifAssert("session.holder", ctx[0].HolderID() == ids[0] && ctx[2].HolderID() == ids[2])
}

// H_session_pair_seeds_MUSTFAIL: wrong twin (claims the holder's id always comes first).
func H_session_pair_seeds_MUSTFAIL() {
	ids := verifIDs(2)
	common := verifBytes(32)
	seeds := verifPairSeeds(2)
	c, err := verifMkCtx(1, ids, common, seeds) // holder is the larger id
	verifReach("session_pair_seeds_mustfail")
	verifAssert("mustfail.noerr", err == nil)
	l := verifHashLog(c.seeds[ids[0]])
	off := len(l) - 32 - 16
	verifAssert("pair.wrong_order", bytes.Equal(l[off:off+8], le64(uint64(ids[1]))))
}

// H_session_newcontext_rejects: argument validation of NewContext.
func H_session_newcontext_rejects() {
	ids := verifIDs(2)
	common := verifBytes(32)
	seeds := verifPairSeeds(2)
	verifReach("session_newcontext_rejects")
	_, e1 := NewContext(ids[0], verifQuorum(ids...), verifBytes(31), map[sharing.ID][]byte{ids[1]: seeds[0][1]})
	verifAssert("reject.short_common_seed", e1 != nil)
	_, e2 := NewContext(ids[0], verifQuorum(ids...), common, map[sharing.ID][]byte{})
	verifAssert("reject.missing_pairwise_seed", e2 != nil)
	_, e3 := NewContext(ids[0], verifQuorum(ids...), common, map[sharing.ID][]byte{ids[1]: verifBytes(31)})
	verifAssert("reject.short_pairwise_seed", e3 != nil)
	_, e4 := NewContext(0, verifQuorum(ids...), common, map[sharing.ID][]byte{ids[1]: seeds[0][1]})
	verifAssert("reject.id_zero", e4 != nil)
	_, e5 := NewContext(ids[0], verifQuorum(ids[1]), common, map[sharing.ID][]byte{ids[1]: seeds[0][1]})
	verifAssert("reject.quorum_too_small", e5 != nil)
	_, e6 := NewContext(ids[0], nil, common, map[sharing.ID][]byte{ids[1]: seeds[0][1]})
	verifAssert("reject.nil_quorum", e6 != nil)
}

// verifSub picks a sub-quorum of {a,b,c,d} that contains a and b and has at most 3 members.
func verifSub(ids []sharing.ID) (network.Quorum, int) {
	k := verifLen(0, 2)
	switch k {
	case 0:
		return verifQuorum(ids[0], ids[1]), k
	case 1:
		return verifQuorum(ids[0], ids[1], ids[2]), k
	}
	return verifQuorum(ids[0], ids[1], ids[3]), k
}

// H_session_subcontext: four parties a<b<c<d; a and b derive sub-contexts. For the same
// sub-quorum the two members agree on the transcript and on the stream absorbed for their
// pair; for two different sub-quorums (both containing a and b, at most 3 members) the
// transcript logs differ and the pair streams differ; the transcript binds the size and the
// sorted member list.
func H_session_subcontext() {
	ids := verifIDs(4)
	common := verifBytes(32)
	seeds := verifPairSeeds(4)
	ca, ea := verifMkCtx(0, ids, common, seeds)
	cb, eb := verifMkCtx(1, ids, common, seeds)
	verifAssert("sub.setup", ea == nil && eb == nil)
	q1, k1 := verifSub(ids)
	q2, k2 := verifSub(ids)
	sa1, e1 := ca.SubContext(q1)
	sb1, e2 := cb.SubContext(q1)
	sa2, e3 := ca.SubContext(q2)
	verifReach("session_subcontext")
	verifAssert("sub.noerr", e1 == nil && e2 == nil && e3 == nil)

	// same sub-quorum, two members
	verifAssert("sub.same_quorum.transcript_agrees", bytes.Equal(verifHashLog(sa1.tape), verifHashLog(sb1.tape)))
	verifAssert("sub.same_quorum.pair_stream_agrees",
		bytes.Equal(verifHashLog(sa1.seeds[ids[1]]), verifHashLog(sb1.seeds[ids[0]])))
	verifAssert("sub.parent_untouched", bytes.Equal(verifHashLog(ca.tape), verifHashLog(cb.tape)))

	// the transcript extension binds size and sorted members
	ta, tp := verifHashLog(sa1.tape), verifHashLog(ca.tape)
	var data []byte
	members := []sharing.ID{ids[0], ids[1]}
	if k1 == 1 {
		members = append(members, ids[2])
	} else if k1 == 2 {
		members = append(members, ids[3])
	}
	data = append(data, le64(uint64(len(members)))...)
	for _, m := range members {
		data = append(data, le64(uint64(m))...)
	}
	verifAssert("sub.transcript_extends_parent", len(ta) > len(tp) && bytes.Equal(ta[:len(tp)], tp))
	verifAssert("sub.transcript_binds_members", bytes.Equal(ta[len(ta)-len(data):], data))

	// different sub-quorums
	same := k1 == k2
	verifAssert("sub.diff_quorum.transcript", bytes.Equal(verifHashLog(sa1.tape), verifHashLog(sa2.tape)) == same)
	verifAssert("sub.diff_quorum.pair_stream",
		bytes.Equal(verifHashLog(sa1.seeds[ids[1]]), verifHashLog(sa2.seeds[ids[1]])) == same)
}

// H_session_subcontext_MUSTFAIL: wrong twin (claims the sub-transcript does not depend on the
// sub-quorum).
func H_session_subcontext_MUSTFAIL() {
	ids := verifIDs(4)
	common := verifBytes(32)
	seeds := verifPairSeeds(4)
	ca, _ := verifMkCtx(0, ids, common, seeds)
	s1, e1 := ca.SubContext(verifQuorum(ids[0], ids[1], ids[2]))
	s2, e2 := ca.SubContext(verifQuorum(ids[0], ids[1], ids[3]))
	verifReach("session_subcontext_mustfail")
	verifAssert("mustfail.noerr", e1 == nil && e2 == nil)
	verifAssert("sub.wrong", bytes.Equal(verifHashLog(s1.tape), verifHashLog(s2.tape)))
}

// H_session_subcontext_rejects: SubContext refuses a quorum that is too small, not a subset, or
// does not contain the holder.
func H_session_subcontext_rejects() {
	ids := verifIDs(4)
	common := verifBytes(32)
	seeds := verifPairSeeds(3)
	ca, ea := verifMkCtx(0, ids[:3], common, seeds)
	verifReach("session_subcontext_rejects")
	verifAssert("rejects.setup", ea == nil)
	_, e1 := ca.SubContext(verifQuorum(ids[0]))
	verifAssert("rejects.too_small", e1 != nil)
	_, e2 := ca.SubContext(verifQuorum(ids[0], ids[3]))
	verifAssert("rejects.not_subset", e2 != nil)
	_, e3 := ca.SubContext(verifQuorum(ids[1], ids[2]))
	verifAssert("rejects.without_holder", e3 != nil)
	_, e4 := ca.SubContext(nil)
	verifAssert("rejects.nil", e4 != nil)
}
