//go:build verif_e1

package echo

import (
	"bytes"
	"errors"

	"github.com/bronlabs/errs-go/errs"

	"github.com/bronlabs/bron-crypto/pkg/base/datastructures/hashmap"
	"github.com/bronlabs/bron-crypto/pkg/base/datastructures/hashset"
	"github.com/bronlabs/bron-crypto/pkg/mpc/sharing"
	"github.com/bronlabs/bron-crypto/pkg/network"
)

// E1 harnesses for pkg/network/echo/rounds.go, second group (property C11 "in echo broadcast no
// two honest parties accept different payloads from the same sender"). harness/e1/echo has three
// parties, where every honest party has exactly ONE honest echoer per sender. Here: n = 4 and
// n = 5 parties, S = 1 (the possibly equivocating broadcaster, whose own echoes are arbitrary) and
// the honest parties 2..n (A, B, C, D), so that Round3's inner loop over the echoers runs 2 resp.
// 3 times per sender and a verdict can be lost between echoers.
//
//   - S sends a symbolic payload p_X (length 0..2) to each honest X;
//   - every honest Y broadcasts its own honest payload m_Y (1 symbolic byte, the same to everybody);
//   - the REAL Round2 of every honest party produces its echoes;
//   - S's round-2 message to X is ARBITRARY: a symbolic 32-byte digest about every other honest
//     party (an absent entry reads as the zero digest in Round3, which the symbolic digest covers);
//   - the REAL Round3 is run for the parties a harness talks about.
//
// Order of visiting the echoers. Round2/Round3 iterate over the quorum, a Go map: natively the
// order is random, in the engine it is the insertion order. The harnesses therefore (a) build the
// quorum and all message maps in several insertion orders (ascending, descending, one mixed) and
// (b) case-split over WHICH echoer E disagrees with X, for every ordered pair (X, E); obligation
// (ii) has one identifier per POSITION of E in X's echoer sequence, so that "only the first /
// only the last echoer decides" is refuted position by position. The native twin repeats the
// protocol run verifReps() times on the same inputs (fresh participants): a counterexample to a
// "for every visiting order" claim is confirmed when ANY native order exhibits it.
//
// Contract (listed in result.json): serde.UnmarshalCBOR[verifMsg] (reflection-based CBOR) =>
// verifUnmarshal, an arbitrary value; it fails only where a harness asks for that case split.
// SHA3-256 is the engine's byte-log model (functional, NOT injective); collision-freeness on the
// two payloads an obligation compares is an explicit premise, named in the obligation id.

type verifRcv struct{}

type verifMsg uint8

func (verifMsg) Validate(*verifRcv, sharing.ID) error { return nil }

type verifP = Participant[verifMsg, *verifRcv]
type verifR1 = Round1P2P[verifMsg, *verifRcv]
type verifR2 = Round2P2P[verifMsg, *verifRcv]

const (
	verifS    sharing.ID = 1
	verifMaxH            = 4 // honest parties 2..5, index h = id-2
)

// ---- contract for serde.UnmarshalCBOR[verifMsg]

var verifErrUnmarshal = errs.New("harness: unmarshal failed")

// ghost state
var (
	verifWho      int            // set by the harness: index of the party whose Round3 runs
	verifUnmFork  bool           // set by the harness: the contract may also fail (case split)
	verifUnmCalls [verifMaxH]int // calls per party
)

func verifUnmarshal(data []byte) (verifMsg, error) {
	verifUnmCalls[verifWho]++
	if verifUnmFork && verifLen(0, 1) == 1 {
		return 0, verifErrUnmarshal.WithMessage("no")
	}
	return verifMsg(verifU8()), nil
}

func verifReplacements() map[string]any {
	return map[string]any{
		"github.com/bronlabs/bron-crypto/pkg/base/serde.UnmarshalCBOR[...]": verifUnmarshal,
	}
}

// ---- configuration: number of parties and insertion order

type verifCfg struct {
	n     int          // parties 1..n
	order []sharing.ID // insertion order of the quorum and of every message map
}

// verifOrder: k = 0 ascending, 1 descending, 2 mixed (S in the middle, honest parties shuffled).
func verifOrder(n, k int) verifCfg {
	var o []sharing.ID
	switch k {
	case 0:
		for i := 1; i <= n; i++ {
			o = append(o, sharing.ID(i))
		}
	case 1:
		for i := n; i >= 1; i-- {
			o = append(o, sharing.ID(i))
		}
	default:
		if n == 4 {
			o = []sharing.ID{3, 1, 4, 2}
		} else {
			o = []sharing.ID{4, 2, 1, 5, 3}
		}
	}
	return verifCfg{n: n, order: o}
}

func (c verifCfg) honest() int { return c.n - 1 }

func verifID(h int) sharing.ID { return sharing.ID(h + 2) }

// verifPos: position of echoer e in the sequence of x's echoers for sender S (insertion order).
func (c verifCfg) verifPos(x, e int) int {
	pos := 0
	for _, o := range c.order {
		if o == verifS || o == verifID(x) {
			continue
		}
		if o == verifID(e) {
			return pos
		}
		pos++
	}
	return -1
}

// verifReps: how often the native twin repeats the protocol run (Go randomises the map order on
// every range statement); once under the interpreter.
func verifReps() int {
	if verifNative() {
		return 24
	}
	return 1
}

// ---- one protocol run

type verifRun struct {
	cfg  verifCfg
	p, m [verifMaxH][]byte
	part [verifMaxH]*verifP
	out2 [verifMaxH]network.OutgoingUnicasts[*verifR2, *verifP]
	ok   bool
}

// verifRounds12 creates the honest participants and runs the real Round2 of each on
// (p_X from S, m_Y from every other honest Y).
func verifRounds12(cfg verifCfg, p, m [verifMaxH][]byte) *verifRun {
	r := &verifRun{cfg: cfg, p: p, m: m}
	q := hashset.NewComparable[sharing.ID](cfg.order...).Freeze()
	for h := 0; h < cfg.honest(); h++ {
		id := verifID(h)
		part, err := NewParticipant[verifMsg, *verifRcv](id, q)
		if err != nil {
			return r
		}
		in := hashmap.NewComparable[sharing.ID, *verifR1]()
		for _, o := range cfg.order {
			switch {
			case o == id:
			case o == verifS:
				in.Put(o, &verifR1{Payload: p[h]})
			default:
				in.Put(o, &verifR1{Payload: m[int(o)-2]})
			}
		}
		out, err := part.Round2(in.Freeze())
		if err != nil || out == nil {
			return r
		}
		r.part[h], r.out2[h] = part, out
	}
	r.ok = true
	return r
}

// verifRound3 runs the real Round3 of honest party x on the honest echoes addressed to x and
// S's message sEcho. passed = the echo comparison was passed for every sender, i.e. the unmarshal
// step was reached; defined on the result so that it means the same natively (every failure
// before the unmarshal step is echo.ErrFailed: all messages are present and non-nil).
func (r *verifRun) verifRound3(x int, sEcho *verifR2) (out network.RoundMessages[verifMsg, *verifRcv], err error, passed bool) {
	id := verifID(x)
	in := hashmap.NewComparable[sharing.ID, *verifR2]()
	for _, o := range r.cfg.order {
		switch {
		case o == id:
		case o == verifS:
			in.Put(o, sEcho)
		default:
			e, ok := r.out2[int(o)-2].Get(id)
			if !ok || e == nil {
				return nil, ErrFailed, false
			}
			in.Put(o, e)
		}
	}
	verifWho = x
	out, err = r.part[x].Round3(in.Freeze())
	passed = err == nil || !errors.Is(err, ErrFailed)
	return out, err, passed
}

// verifDigests: 32 symbolic bytes per honest party (what S may claim about each of them).
func verifDigests(cfg verifCfg) (d [verifMaxH][32]byte) {
	for h := 0; h < cfg.honest(); h++ {
		copy(d[h][:], verifBytes(32))
	}
	return d
}

// verifSEcho: S's round-2 message to x with the given digests about the other honest parties.
func verifSEcho(cfg verifCfg, x int, d [verifMaxH][32]byte) *verifR2 {
	hm := map[sharing.ID][32]byte{}
	for _, o := range cfg.order {
		if o != verifS && o != verifID(x) {
			hm[o] = d[int(o)-2]
		}
	}
	return &verifR2{EchoHashes: hm}
}

// verifHonestDigests: what an honest S echoes (the true digests of the m_Y).
func verifHonestDigests(cfg verifCfg, m [verifMaxH][]byte) (d [verifMaxH][32]byte) {
	for h := 0; h < cfg.honest(); h++ {
		d[h] = echoHash(m[h])
	}
	return d
}

func verifHonestPayloads(cfg verifCfg) (m [verifMaxH][]byte) {
	for h := 0; h < cfg.honest(); h++ {
		m[h] = verifBytes(1)
	}
	return m
}

// verifPremise: SHA3-256 does not collide on (a, b).
func verifPremise(a, b []byte) {
	ha, hb := echoHash(a), echoHash(b)
	verifAssume(ha != hb || bytes.Equal(a, b))
}

// ---------------------------------------------------------------------------------------------
// (ii) every echoer's verdict counts

// verifEchoSetup: for EVERY ordered pair (X, E) of honest parties (case split), p_X and p_E
// symbolic of lengths 0..2, the payloads of the remaining honest parties symbolic too (fullLens:
// lengths 0..2 each; otherwise the length of p_X, so that they may or may not agree with X), S's
// echoes to X arbitrary. Premise: SHA3-256 does not collide on (p_X, p_E).
type verifEchoCase struct {
	cfg    verifCfg
	x, e   int
	pos    int // position of E among X's echoers (insertion order)
	differ bool
	p, m   [verifMaxH][]byte
	d      [verifMaxH][32]byte
}

func verifEchoSetup(cfg verifCfg, fullLens bool) *verifEchoCase {
	nh := cfg.honest()
	x := verifLen(0, nh-1)
	e := verifLen(0, nh-2)
	if e >= x {
		e++
	}
	k := &verifEchoCase{cfg: cfg, x: x, e: e}
	k.p[x] = verifBytes(verifLen(0, 2))
	k.p[e] = verifBytes(verifLen(0, 2))
	for h := 0; h < nh; h++ {
		if h == x || h == e {
			continue
		}
		if fullLens {
			k.p[h] = verifBytes(verifLen(0, 2))
		} else {
			k.p[h] = verifBytes(len(k.p[x]))
		}
	}
	k.m = verifHonestPayloads(cfg)
	k.d = verifDigests(cfg)
	verifPremise(k.p[x], k.p[e])
	k.pos = cfg.verifPos(x, e)
	k.differ = !bytes.Equal(k.p[x], k.p[e])
	return k
}

// run: fresh participants, real Round2 of everybody, real Round3 of X.
func (k *verifEchoCase) run() (ok, passX bool) {
	r := verifRounds12(k.cfg, k.p, k.m)
	if !r.ok {
		return false, false
	}
	_, _, passX = r.verifRound3(k.x, verifSEcho(k.cfg, k.x, k.d))
	return true, passX
}

// verifEchoers4: if p_E != p_X then X's Round3 fails; one obligation per position of E among
// X's two echoers. 4 parties, all payload lengths 0..2.
func verifEchoers4(order int) {
	k := verifEchoSetup(verifOrder(4, order), true)
	verifReach("echo4_echoers")
	for rep := 0; rep < verifReps(); rep++ {
		ok, passX := k.run()
		verifAssert("echoers4.round2_ok", ok)
		if !ok || !k.differ {
			return
		}
		if k.pos == 0 {
			verifReach("echo4_first_echoer_disagrees")
			verifAssert("echoers4.first_echoer_disagrees_then_round3_fails_under_sha3_256_collision_freeness", !passX)
		} else {
			verifReach("echo4_second_echoer_disagrees")
			verifAssert("echoers4.second_and_last_echoer_disagrees_then_round3_fails_under_sha3_256_collision_freeness", !passX)
		}
	}
}

// verifEchoers5: the same with 5 parties (three echoers). Bound unless fullLens: the payloads of
// the two honest parties other than X and E have the length of p_X.
func verifEchoers5(order int, fullLens bool) {
	k := verifEchoSetup(verifOrder(5, order), fullLens)
	verifReach("echo5_echoers")
	for rep := 0; rep < verifReps(); rep++ {
		ok, passX := k.run()
		verifAssert("echoers5.round2_ok", ok)
		if !ok || !k.differ {
			return
		}
		switch k.pos {
		case 0:
			verifReach("echo5_first_echoer_disagrees")
			verifAssert("echoers5.first_echoer_disagrees_then_round3_fails_under_sha3_256_collision_freeness", !passX)
		case 1:
			verifReach("echo5_second_echoer_disagrees")
			verifAssert("echoers5.second_echoer_disagrees_then_round3_fails_under_sha3_256_collision_freeness", !passX)
		default:
			verifReach("echo5_third_echoer_disagrees")
			verifAssert("echoers5.third_and_last_echoer_disagrees_then_round3_fails_under_sha3_256_collision_freeness", !passX)
		}
	}
}

func H_echo4_echoers_asc()   { verifEchoers4(0) }
func H_echo4_echoers_desc()  { verifEchoers4(1) }
func H_echo4_echoers_mixed() { verifEchoers4(2) }
func H_echo5_echoers_asc()   { verifEchoers5(0, false) }
func H_echo5_echoers_desc()  { verifEchoers5(1, false) }
func H_echo5_echoers_mixed() { verifEchoers5(2, false) }

// H_echo5full_echoers_asc: 5 parties with ALL four payload lengths 0..2 (81 length combinations
// per ordered pair (X, E)); the long run of the group.
func H_echo5full_echoers_asc() { verifEchoers5(0, true) }

// ---------------------------------------------------------------------------------------------
// (i) no two honest parties accept different payloads from S

// verifConsistency: for EVERY unordered pair {X, Y} of honest parties (case split), p_X and p_Y
// symbolic of lengths 0..2, the other payloads symbolic (fullLens as above), S's echoes to X and
// to Y arbitrary and independent: if both X and Y get past the echo comparison then p_X = p_Y.
func verifConsistency(cfg verifCfg, fullLens bool) {
	nh := cfg.honest()
	x := verifLen(0, nh-2)
	y := verifLen(x+1, nh-1)
	var p [verifMaxH][]byte
	p[x] = verifBytes(verifLen(0, 2))
	p[y] = verifBytes(verifLen(0, 2))
	for h := 0; h < nh; h++ {
		if h == x || h == y {
			continue
		}
		if fullLens {
			p[h] = verifBytes(verifLen(0, 2))
		} else {
			p[h] = verifBytes(len(p[x]))
		}
	}
	m := verifHonestPayloads(cfg)
	dx, dy := verifDigests(cfg), verifDigests(cfg)
	verifPremise(p[x], p[y])
	verifReach("echo2_consistency")
	for rep := 0; rep < verifReps(); rep++ {
		r := verifRounds12(cfg, p, m)
		verifAssert("consistency.round2_ok", r.ok)
		if !r.ok {
			return
		}
		_, _, passX := r.verifRound3(x, verifSEcho(cfg, x, dx))
		_, _, passY := r.verifRound3(y, verifSEcho(cfg, y, dy))
		if passX && passY {
			verifReach("echo2_both_pass")
			verifAssert("consistency.two_honest_parties_accept_the_same_payload_under_sha3_256_collision_freeness", bytes.Equal(p[x], p[y]))
		}
	}
}

func H_echo4_consistency_asc()  { verifConsistency(verifOrder(4, 0), true) }
func H_echo4_consistency_desc() { verifConsistency(verifOrder(4, 1), true) }
func H_echo5_consistency_asc()  { verifConsistency(verifOrder(5, 0), false) }
func H_echo5_consistency_desc() { verifConsistency(verifOrder(5, 1), false) }

// ---------------------------------------------------------------------------------------------
// (iii) completeness

// verifHonest: S sends the same payload p (length 0..2) to everybody and echoes the true digests;
// the three insertion orders are a case split. Every honest party passes the comparison, and when
// the unmarshal step succeeds (case split for party 0 only: the others' contract calls always
// succeed) Round3 returns one message per other party. No premise on the hash.
func verifHonest(n int) {
	cfg := verifOrder(n, verifLen(0, 2))
	nh := cfg.honest()
	pl := verifBytes(verifLen(0, 2))
	var p [verifMaxH][]byte
	for h := 0; h < nh; h++ {
		p[h] = append([]byte{}, pl...)
	}
	m := verifHonestPayloads(cfg)
	d := verifHonestDigests(cfg, m)
	verifReach("echo2_honest")
	for rep := 0; rep < verifReps(); rep++ {
		r := verifRounds12(cfg, p, m)
		verifAssert("honest.round2_ok", r.ok)
		if !r.ok {
			return
		}
		for x := 0; x < nh; x++ {
			verifUnmFork = x == 0
			out, err, passed := r.verifRound3(x, verifSEcho(cfg, x, d))
			verifUnmFork = false
			verifAssert("honest.everybody_passes", passed)
			verifAssertGhost("honest.one_unmarshal_per_sender_until_the_first_failure", verifUnmCalls[x] >= 1 && verifUnmCalls[x] <= n-1 && (err != nil || verifUnmCalls[x] == n-1))
			if err == nil {
				verifReach("echo2_honest_output")
				verifAssert("honest.output_has_one_message_per_other_party", out != nil && out.Size() == n-1 && !out.ContainsKey(verifID(x)) && out.ContainsKey(verifS))
			}
			verifAssertGhost("honest.only_the_forking_unmarshal_contract_can_fail", err == nil || x == 0)
		}
	}
}

func H_echo4_honest_accepts() { verifHonest(4) }
func H_echo5_honest_accepts() { verifHonest(5) }

// ---------------------------------------------------------------------------------------------
// controls

// H_echo4_first_echoer_only_MUSTFAIL: wrong twin (claims X = A passes whenever its FIRST echoer B
// got the same payload and S echoes honestly, whatever C got).
func H_echo4_first_echoer_only_MUSTFAIL() {
	cfg := verifOrder(4, 0)
	var p [verifMaxH][]byte
	p[0] = verifBytes(1)
	p[1] = append([]byte{}, p[0]...)
	p[2] = verifBytes(1)
	m := verifHonestPayloads(cfg)
	verifReach("echo2_mustfail_first")
	r := verifRounds12(cfg, p, m)
	if !r.ok {
		return
	}
	_, _, passA := r.verifRound3(0, verifSEcho(cfg, 0, verifHonestDigests(cfg, m)))
	verifAssert("echoers.wrong_only_first_echoer_counts", passA)
}

// H_echo5_last_echoer_only_MUSTFAIL: wrong twin, 5 parties, descending order (claims X = D passes
// whenever its LAST echoer A got the same payload).
func H_echo5_last_echoer_only_MUSTFAIL() {
	cfg := verifOrder(5, 1)
	var p [verifMaxH][]byte
	p[3] = verifBytes(2)
	p[0] = append([]byte{}, p[3]...)
	p[1] = append([]byte{}, p[3]...)
	p[2] = verifBytes(2)
	m := verifHonestPayloads(cfg)
	verifReach("echo2_mustfail_last")
	r := verifRounds12(cfg, p, m)
	if !r.ok {
		return
	}
	_, _, passD := r.verifRound3(3, verifSEcho(cfg, 3, verifHonestDigests(cfg, m)))
	verifAssert("echoers.wrong_only_last_echoer_counts", passD)
}

// H_echo4_any_s_echo_MUSTFAIL: wrong twin (claims an honest broadcast is accepted by A whatever
// S echoes about the others).
func H_echo4_any_s_echo_MUSTFAIL() {
	cfg := verifOrder(4, 2)
	pl := verifBytes(1)
	var p [verifMaxH][]byte
	for h := 0; h < cfg.honest(); h++ {
		p[h] = append([]byte{}, pl...)
	}
	m := verifHonestPayloads(cfg)
	d := verifDigests(cfg)
	verifReach("echo2_mustfail_secho")
	r := verifRounds12(cfg, p, m)
	if !r.ok {
		return
	}
	_, _, passA := r.verifRound3(0, verifSEcho(cfg, 0, d))
	verifAssert("honest.wrong_any_s_echo_accepted", passA)
}

// H_echo4_consistency_nopremise_INCONCLUSIVE: obligation (i) for the pair (A, C) WITHOUT the
// collision-freeness premise. Expected: not valid (the hash model is functional, not injective);
// the counterexample needs a SHA3-256 collision, does not replay => inconclusive.
func H_echo4_consistency_nopremise_INCONCLUSIVE() {
	cfg := verifOrder(4, 0)
	var p [verifMaxH][]byte
	p[0], p[2] = verifBytes(1), verifBytes(1)
	p[1] = append([]byte{}, p[0]...)
	m := verifHonestPayloads(cfg)
	d := verifHonestDigests(cfg, m)
	verifReach("echo2_nopremise")
	r := verifRounds12(cfg, p, m)
	if !r.ok {
		return
	}
	_, _, passA := r.verifRound3(0, verifSEcho(cfg, 0, d))
	if passA {
		verifAssert("consistency.without_premise", bytes.Equal(p[0], p[2]))
	}
}
