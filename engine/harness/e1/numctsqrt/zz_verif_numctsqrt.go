//go:build verif_e1

package numct

import (
	"math/bits"

	"github.com/cronokirby/saferith"

	"github.com/bronlabs/bron-crypto/pkg/base/ct"
)

// E1 harnesses for (*ModulusBasic).ModSqrt / modSqrtPrime (pkg/base/nt/numct/modulus.go, property
// C17 "square roots ... return the mathematically correct value").
//
// modSqrtPrime's own logic is control flow around three saferith calls: reduce the argument
// (Nat.Mod), ask saferith for a candidate root (Nat.ModSqrt, whose result is "undefined" when the
// argument is not a quadratic residue), square the candidate (Nat.ModMul) and accept it iff the
// square equals the REDUCED argument; on acceptance the root is assigned, otherwise `out` is left
// alone. saferith is replaced by the value-level model of zz_verif_sfmodel.go (identical copy of
// harness/e1/numctdiv/zz_verif_sfmodel.go, validated there by TestVerifSaferithModel) plus two
// contracts that are specific to this harness:
//
//	(*saferith.Nat).ModSqrt(x, p)     p even: panics (as saferith); otherwise returns SOME value
//	                                  root < p (fresh solver variable) with the one guarantee saferith
//	                                  documents: if x mod p is a square mod p then root^2 = x mod p.
//	                                  Announced length = bit length of p, marked reduced by p.
//	                                  For a non-residue nothing is assumed about root.
//	(*numct.Nat).IsProbablyPrime()    trial division on the model value (the real one goes through
//	                                  math/big; the moduli here are concrete on each path)
//
// Inputs: p from a corpus of primes (case split), announced with its true length or 64 bits;
// x any value below 2^B (symbolic), announced with B or 64 bits - so x = r + k*p for every residue r
// and every k that fits. Quadratic residuosity of x mod p is computed in the harness by running
// over all s < p.
//
// Obligations (on results, both twins): ok = 1 iff x mod p is a square; ok = 1 implies out < p and
// out^2 = x (mod p); ok = 0 implies out untouched; x itself is never modified. Ghost obligation:
// saferith's ModSqrt was handed the reduced argument exactly once.

var (
	verifSqrtCalls      int
	verifSqrtArgReduced uint64 // 1 iff every argument of ModSqrt was < p
)

func verifCNatModSqrt(z, x *saferith.Nat, p *saferith.Modulus) *saferith.Nat {
	pm, xr := verifModRec(p), verifNatRec(x)
	zr := verifNatRec(z)
	if pm.v&1 == 0 {
		panic("Can't take square root mod an even number")
	}
	verifMEscapeIf(pm.v>>16 != 0)
	verifMEscapeIf(xr.v>>32 != 0)
	if verifSqrtCalls == 0 {
		verifSqrtArgReduced = 1
	}
	verifSqrtCalls++
	verifSqrtArgReduced &= verifB2U(xr.v < pm.v)
	pv := uint32(pm.v)
	xm := uint32(xr.v) % pv
	root := uint32(verifU64()) & 0xffff
	verifAssume(root < pv)
	verifAssume(verifB2U(!verifIsSquareMod(xm, pv))|verifB2U(root*root%pv == xm) == 1)
	zr.v, zr.ann, zr.red = uint64(root), pm.bits, pm
	return z
}

// verifIsSquareMod: exists s < p with s^2 = a (mod p); p is concrete, a < p may be symbolic.
func verifIsSquareMod(a, p uint32) bool {
	var acc uint64
	for s := uint32(0); s < p; s++ {
		acc |= verifB2U(s*s%p == a)
	}
	return acc == 1
}

func verifCNatIsProbablyPrime(n *Nat) ct.Bool {
	v := verifNatRec((*saferith.Nat)(n)).v
	if v < 2 {
		return ct.False
	}
	for k := uint64(2); k*k <= v; k++ {
		if v%k == 0 {
			return ct.False
		}
	}
	return ct.True
}

// verifCModSqrtGeneric stands in for (*ModulusBasic).modSqrtGeneric, the route for moduli that are
// not odd primes: it works on math/big values (Nat.Big, big.Int.Sqrt), which the engine does not
// encode. Contract = what that function computes: r = x mod m; ok iff r is a perfect square as an
// integer, then out = its integer root, announced with the modulus' bit length; otherwise out is
// untouched. Only the modulus-2 harness reaches it (every other modulus here is an odd prime).
var verifGenericCalls int

func verifCModSqrtGeneric(m *ModulusBasic, out, x *Nat) ct.Bool {
	pm, xr := verifModRec((*saferith.Modulus)(m)), verifNatRec((*saferith.Nat)(x))
	verifGenericCalls++
	verifMEscapeIf(pm.v>>16 != 0)
	verifMEscapeIf(xr.v>>32 != 0)
	r := xr.v % pm.v
	var root, found uint64
	for s := uint64(0); s < pm.v; s++ {
		hit := verifB2U(s*s == r)
		found |= hit
		root |= s * hit
	}
	if found == 0 {
		return ct.False
	}
	or := verifNatRec((*saferith.Nat)(out))
	or.v, or.ann, or.red = root, pm.bits, nil
	return ct.True
}

func verifReplacements() map[string]any {
	m := verifSaferithReplacements()
	m["(*github.com/bronlabs/bron-crypto/pkg/base/nt/numct.ModulusBasic).modSqrtGeneric"] = verifCModSqrtGeneric
	m["(*github.com/cronokirby/saferith.Nat).ModSqrt"] = verifCNatModSqrt
	m["(*github.com/bronlabs/bron-crypto/pkg/base/nt/numct.Nat).IsProbablyPrime"] = verifCNatIsProbablyPrime
	return m
}

func verifMkNat(v uint64, ann int) *Nat { return (*Nat)(new(saferith.Nat).SetUint64(v).Resize(ann)) }

func verifPrimesQuick() []uint64 { return []uint64{3, 5, 7, 11, 13, 17, 29, 31} }
func verifPrimesThorough() []uint64 {
	return []uint64{3, 5, 7, 11, 13, 17, 19, 23, 29, 31, 37, 41, 43, 47, 53, 59, 61, 97, 127}
}

type verifSqrtRun struct {
	p, x, sentinel uint64
	ok             ct.Bool
	root, xAfter   uint64
	panicked       bool
}

func verifSqrtDo(p uint64, B int, viaModSqrt bool) (r verifSqrtRun) {
	r.p = p
	pAnn := bits.Len64(p)
	if verifLen(0, 1) == 1 {
		pAnn = 64
	}
	xAnn := B
	if verifLen(0, 1) == 1 {
		xAnn = 64
	}
	r.x = verifU64() & (uint64(1)<<uint(B) - 1)
	m, okm := NewModulus(verifMkNat(p, pAnn))
	if okm != ct.True {
		panic("harness: modulus rejected")
	}
	xn := verifMkNat(r.x, xAnn)
	r.sentinel = p // not a reduced value: recognisable
	out := verifMkNat(r.sentinel, 64)
	defer func() {
		if e := recover(); e != nil {
			r.panicked = true
		}
	}()
	if viaModSqrt {
		r.ok = m.ModSqrt(out, xn)
	} else {
		r.ok = m.modSqrtPrime(out, xn)
	}
	r.root = (*saferith.Nat)(out).Uint64()
	r.xAfter = (*saferith.Nat)(xn).Uint64()
	return r
}

func verifSqrtCheck(id string, primes []uint64, B int, viaModSqrt bool) {
	p := primes[verifLen(0, len(primes)-1)]
	r := verifSqrtDo(p, B, viaModSqrt)
	verifReach(id + ".reach")
	verifAssert(id+".no_panic", !r.panicked)
	if r.panicked {
		return
	}
	xm := uint32(r.x) % uint32(p)
	isSq := verifIsSquareMod(xm, uint32(p))
	verifAssert(id+".accepted_iff_residue", verifB2U(r.ok == ct.True) == verifB2U(isSq))
	rt := uint32(r.root & 0xffff)
	verifAssert(id+".accepted_root_is_reduced_and_squares_to_x",
		verifB2U(r.ok != ct.True)|(verifB2U(r.root < p)&verifB2U(rt*rt%uint32(p) == xm)) == 1)
	verifAssert(id+".rejected_out_untouched", verifB2U(r.ok == ct.True)|verifB2U(r.root == r.sentinel) == 1)
	verifAssert(id+".argument_not_modified", r.xAfter == r.x)
	verifAssertGhost(id+".saferith_modsqrt_called_once_with_reduced_argument", verifSqrtCalls == 1 && verifSqrtArgReduced == 1)
	verifAssertGhost(id+".model_in_domain", verifEscaped == 0)
}

// H_numct_modsqrtprime: modSqrtPrime directly, x < 2^8.
func H_numct_modsqrtprime() { verifSqrtCheck("modsqrtprime", verifPrimesQuick(), 8, false) }

// H_numct_modsqrt: through ModSqrt (primality dispatch included).
func H_numct_modsqrt() { verifSqrtCheck("modsqrt", verifPrimesQuick(), 8, true) }

// thorough: more primes, x < 2^10
func H_numct_modsqrt_B10() { verifSqrtCheck("modsqrt_b10", verifPrimesThorough(), 10, true) }

// H_numct_modsqrt_p2: the prime 2 (every x is a square mod 2; the root is x mod 2). ModSqrt used
// to hand it to saferith's ModSqrt, which panics on an even modulus (repaired in /repo: only odd
// primes take that route; the generic route is a contract here, see verifCModSqrtGeneric).
func H_numct_modsqrt_p2() {
	r := verifSqrtDo(2, 8, true)
	verifReach("modsqrt_p2.reach")
	verifAssert("modsqrt_p2.no_panic", !r.panicked)
	verifAssertGhost("modsqrt_p2.saferith_ModSqrt_is_not_called_with_an_even_modulus", verifSqrtCalls == 0)
	if r.panicked {
		return
	}
	verifAssert("modsqrt_p2.accepted", r.ok == ct.True)
	verifAssert("modsqrt_p2.root", r.root == r.x&1)
}

// H_numct_modsqrt_MUSTFAIL: control - claims that every x is accepted.
func H_numct_modsqrt_MUSTFAIL() {
	r := verifSqrtDo(7, 6, true)
	verifReach("modsqrt_mustfail.reach")
	verifAssert("modsqrt_mustfail.every_x_accepted", verifB2U(!r.panicked)&verifB2U(r.ok == ct.True) == 1)
}
