//go:build verif_e1

package bip340

import (
	"bytes"
	"crypto/subtle"
	"errors"

	"github.com/bronlabs/bron-crypto/pkg/base/curves/k256"
	"github.com/bronlabs/bron-crypto/pkg/base/utils/algebrautils"
	"github.com/bronlabs/bron-crypto/pkg/hashing"
	hbip340 "github.com/bronlabs/bron-crypto/pkg/hashing/bip340"
	"github.com/bronlabs/bron-crypto/pkg/mpc/sharing"
	"github.com/bronlabs/bron-crypto/pkg/mpc/sharing/scheme/additive"
	"github.com/bronlabs/bron-crypto/pkg/signatures"
)

// E1 harnesses for property C15 (Schnorr part: BIP-340) and C01 (BIP-340 parity corrections of the
// threshold helpers): pkg/signatures/schnorrlike/bip340 (bip340.go, variant.go) together with what
// they call in pkg/signatures/schnorrlike (SignerTrait.Sign, NewPublicKey / NewPrivateKey,
// MakeGenericChallenge, ComputeGenericResponse), pkg/hashing (Hash, the BIP-340 tagged SHA-256),
// pkg/base/ct (CompareBytes) and pkg/mpc/sharing (additive shares), all INTERPRETED.
//
// What is checked is the CONTROL FLOW and the SIGN / PARITY LOGIC: which scalar is negated when,
// which point enters which hash in which encoding, which check rejects what, in which order. The
// 256-bit curve and field arithmetic of the k256 wrapper layer is replaced by the DISCRETE-LOG MODEL
// of zz_verif_bip340_model.go (contracts): scalars are exact (four symbolic limbs mod n) and carry a
// polynomial normal form over opaque leaves, points are their discrete logarithms, X / Y coordinates
// are uninterpreted functions of the discrete logarithm with X(d) = X(-d), X injective up to sign,
// Y(-d) = p - Y(d) (parity flips), X, Y != 0; products of leaves are uninterpreted values with the
// field facts (no zero divisors, function of the unordered pair, cancellation). The tagged hashes are
// NOT replaced: the engine's byte-log model of SHA-256 makes every digest an uninterpreted function
// of the bytes absorbed (no collision-freeness assumed; "another message / key / R" obligations are
// therefore stated as "accepted only under the scalar relation between the hash outputs").
// (*Variant).ComputeChallenge runs REAL under a spy contract that only re-uses the earlier result
// object when the same challenge value is computed again. 77 replacement keys: 58 contracts and 19
// refusals of unmodelled wrapper methods (a call to one of those is not-encodable); the list entered
// by a run is in result.json (replacements_used).
//
// Inputs: secret key(s), auxiliary randomness, nonces, shifts as 32 symbolic bytes each (assumed
// canonical and non-zero where stated), a 3-byte symbolic message, and the PARITIES of the points
// that steer the code (public key, nonce point, aggregate nonce) as boolean inputs: under the
// interpreter they are assumed of the uninterpreted parity function; the native twin runs the REAL
// functions and makes them true of a real situation (negates the key / the shares / the nonces, steps
// the auxiliary randomness) before the same obligations are evaluated, so a counterexample counts
// only if the real code fails it too.
//
// Obligations (all on results):
//   (a) H_bip340_sign_verify: for the four parity cases, Signer.Sign succeeds (unless s = 0, see
//       there), Verify accepts, R = k_eff*G has even y, E = H(x(R) || x(P) || m), s = k_eff + e*d_eff,
//       s*G = R + e*lift_x(P), d_eff = -d iff P odd, k_eff = -k' iff k'G odd, k' = the BIP-340 nonce
//       derivation recomputed by the harness; H_bip340_sign_deterministic.
//   (b) Verify on a well-formed signature (any nonce with an even-y point): s + delta rejected for
//       every delta != 0; s - 2k (recomputed R = -R, odd y) rejected; another R / message / key
//       accepted only under the scalar relation between hash outputs that makes the Schnorr equation
//       hold; -R and -P are the same x-only values (accepted); infinity, zero, nil rejected; the E
//       field of a signature is ignored.
//   (c) H_bip340_threshold_{2,3}: n additive shares and partial nonces, four parity cases: the four
//       Correct* helpers negate iff the AGGREGATE point is odd, agree with each other (corrected
//       commitment = corrected nonce * G, corrected key share = corrected share * G), sums are the
//       effective key / nonce, every partial signature verifies under PartialSignatureVerifier, the
//       aggregate verifies under the x-only key (with the corrected or the uncorrected aggregate R).
//   (d) H_bip340_batch_{1,2,3}: u signatures, the i-th response shifted by delta_i (possibly 0):
//       BatchVerify accepts iff sum a_i*delta_i = 0 (one obligation per direction) with a_1 = 1 and a_2.. the coefficients it drew
//       (the harness reads them from a second reader at the same position): all unaltered accepted,
//       exactly one altered rejected; lengths / prng / nil key checks; nil signature element.
//   (e) serialisation round trips, x-only encodings, canonical-encoding and length checks.
// Controls: six _MUSTFAIL harnesses. Bounds: message length 3; n <= 3 shares; u <= 3 signatures.
// Not checked here: the group law, the curve equation, SHA-256 itself, the reduction of hash outputs
// wider than 32 bytes, CBOR.

// ---- helpers run by BOTH twins (library API only)

// verifReader: the PRNG handed to BatchVerify. Natively a deterministic byte stream that depends
// only on the position (two readers at the same position produce the same bytes); under the
// interpreter only its position is used (contract of RandomNonIdentity).
type verifReader struct {
	pos int
}

func (r *verifReader) Read(b []byte) (int, error) {
	for i := range b {
		x := uint64(r.pos)*0x9E3779B97F4A7C15 + 0xD1B54A32D192ED03
		x ^= x >> 29
		x *= 0xBF58476D1CE4E5B9
		x ^= x >> 32
		b[i] = byte(x)
		r.pos++
	}
	return len(b), nil
}

// verifInScalar: 32 input bytes, assumed canonical (< n) and non-zero, as a scalar.
func verifInScalar(b []byte) *k256.Scalar {
	verifAssume(verifSpecLess4(verifLimbsBE(b), verifN()))
	s, err := k256.NewScalarField().FromBytes(b)
	if err != nil {
		panic(err)
	}
	verifAssume(!s.IsZero())
	return s
}

func verifIsOddY(p *k256.Point) bool {
	y, err := p.AffineY()
	if err != nil {
		panic(err)
	}
	return y.IsOdd()
}

// verifNonceSpec: steps 5-7 of BIP-340 signing, from the library's hashing routines: the scalar
// k' = int(hash_nonce(bytes(d) xor hash_aux(aux) || bytes(P) || m)) mod n.
func verifNonceSpec(d *k256.Scalar, bigP *k256.Point, aux [32]byte, msg []byte) *k256.Scalar {
	auxDigest, err := hashing.Hash(hbip340.NewBip340HashAux, aux[:])
	if err != nil {
		panic(err)
	}
	t := make([]byte, 32)
	subtle.XORBytes(t, d.Bytes(), auxDigest)
	rand, err := hashing.Hash(hbip340.NewBip340HashNonce, t, bigP.ToCompressed()[1:], msg)
	if err != nil {
		panic(err)
	}
	k, err := k256.NewScalarField().FromWideBytes(rand)
	if err != nil {
		panic(err)
	}
	return k
}

type verifCase struct {
	d, dEff *k256.Scalar // secret key; BIP-340 effective key (negated iff P has odd y)
	bigP    *k256.Point
	aux     [32]byte
	msg     []byte
	kPrime  *k256.Scalar // derived nonce before the parity correction
	kEff    *k256.Scalar // after it
	sk      *PrivateKey
	scheme  *Scheme
}

// verifMakeCase: a signing situation in which the public key has odd y iff wantPOdd and the point
// k'G of the derived nonce has odd y iff wantROdd. Under the interpreter the two facts are
// ASSUMED of the inputs (parity is an uninterpreted function of the discrete logarithm); natively
// the key is negated and the auxiliary randomness stepped until the real points have them.
func verifMakeCase(dB, auxB, msg []byte, wantPOdd, wantROdd bool) *verifCase {
	c := &verifCase{msg: msg}
	curve := k256.NewCurve()
	c.d = verifInScalar(dB)
	copy(c.aux[:], auxB)
	if verifNative() {
		if verifIsOddY(curve.ScalarBaseMul(c.d)) != wantPOdd {
			c.d = c.d.Neg()
		}
	}
	c.bigP = curve.ScalarBaseMul(c.d)
	pOdd := verifIsOddY(c.bigP)
	verifAssume(pOdd == wantPOdd)
	c.dEff = c.d
	if pOdd {
		c.dEff = c.d.Neg()
	}
	for try := 0; ; try++ {
		c.kPrime = verifNonceSpec(c.dEff, c.bigP, c.aux, msg)
		verifAssume(!c.kPrime.IsZero())
		rOdd := verifIsOddY(curve.ScalarBaseMul(c.kPrime))
		if verifNative() && rOdd != wantROdd && try < 200 {
			c.aux[31]++
			c.aux[try%31] ^= byte(try)
			continue
		}
		verifAssume(rOdd == wantROdd)
		c.kEff = c.kPrime
		if rOdd {
			c.kEff = c.kPrime.Neg()
		}
		break
	}
	var err error
	c.sk, err = NewPrivateKey(c.d)
	if err != nil {
		panic(err)
	}
	c.scheme = NewSchemeWithAux(c.aux)
	return c
}

func (c *verifCase) sign() (*Signature, error) {
	signer, err := c.scheme.Signer(c.sk)
	if err != nil {
		panic(err)
	}
	return signer.Sign(c.msg)
}

func (c *verifCase) verifier() *Verifier {
	v, err := c.scheme.Verifier()
	if err != nil {
		panic(err)
	}
	return v
}

// ---- (a) Sign then Verify, all four parity cases

func H_bip340_sign_verify() {
	dB, auxB, msg := verifBytes(32), verifBytes(32), verifBytes(3)
	wantPOdd, wantROdd := verifBool(), verifBool()
	c := verifMakeCase(dB, auxB, msg, wantPOdd, wantROdd)
	switch {
	case wantPOdd && wantROdd:
		verifReach("sv_P_odd_R_odd")
	case wantPOdd:
		verifReach("sv_P_odd_R_even")
	case wantROdd:
		verifReach("sv_P_even_R_odd")
	default:
		verifReach("sv_P_even_R_even")
	}
	curve := k256.NewCurve()
	msgCopy := append([]byte{}, msg...)
	sig, err := c.sign()
	// specification of the signature, from the library's own scalar / point / hash routines
	wantR := curve.ScalarBaseMul(c.kEff)
	atR := wantR
	if sig != nil && sig.R != nil {
		atR = sig.R // (asserted equal to wantR below)
	}
	e, cerr := c.scheme.Variant().ComputeChallenge(atR, LiftX(c.bigP), c.msg)
	if cerr != nil {
		panic(cerr)
	}
	wantS := c.kEff.Add(e.Mul(c.dEff))
	// the signer verifies its own output and Verify refuses s = 0 (an event of probability 2^-256
	// that BIP-340 itself does not exclude): that is the only failure
	verifAssert("sv.sign_succeeds_unless_s_is_zero", (err == nil && sig != nil) == !wantS.IsZero())
	if err != nil || sig == nil {
		verifAssert("sv.sign_failure_is_verification_failure", errors.Is(err, signatures.ErrVerificationFailed))
		return
	}
	verifReach("sv_signed")
	verifAssert("sv.verify_accepts", c.verifier().Verify(sig, c.sk.PublicKey(), c.msg) == nil)
	verifAssert("sv.R_is_effective_nonce_times_G", sig.R.Equal(wantR))
	verifAssert("sv.R_nonzero_with_even_y", !sig.R.IsZero() && !verifIsOddY(sig.R))
	verifAssert("sv.E_is_challenge_over_xR_xP_m", sig.E != nil && sig.E.Equal(e))
	verifAssert("sv.s_is_k_plus_e_times_effective_key", sig.S.Equal(wantS))
	verifAssert("sv.sG_equals_R_plus_eP_for_even_y_P", curve.ScalarBaseMul(sig.S).Equal(sig.R.Add(LiftX(c.bigP).ScalarMul(e))))
	verifAssert("sv.private_key_negated_iff_P_odd", c.dEff.Equal(c.d) == !wantPOdd)
	verifAssert("sv.nonce_negated_iff_R_odd", c.kEff.Equal(c.kPrime) == !wantROdd)
	verifAssert("sv.message_and_key_not_modified", bytes.Equal(msg, msgCopy) && c.sk.Value().Equal(c.d) && c.sk.PublicKey().Value().Equal(c.bigP))
}

// signing twice gives the same signature (the nonce is a function of key, aux and message).
func H_bip340_sign_deterministic() {
	dB, auxB, msg := verifBytes(32), verifBytes(32), verifBytes(3)
	c := verifMakeCase(dB, auxB, msg, verifBool(), verifBool())
	verifReach("det")
	sig, err := c.sign()
	sig2, err2 := c.sign()
	verifAssert("det.same_outcome", (err == nil) == (err2 == nil))
	if err != nil || err2 != nil {
		return
	}
	verifAssert("det.same_signature", sig2.R.Equal(sig.R) && sig2.S.Equal(sig.S))
}

// ---- a well-formed signature built from the specification (what (a) proves Sign returns), with an
// arbitrary nonce k whose point has even y: used by (b), (d), (e).

type verifSigCase struct {
	d, dEff, k, e *k256.Scalar
	bigP, bigR    *k256.Point
	pk            *PublicKey
	msg           []byte
	sig           *Signature
	scheme        *Scheme
}

func verifMakeSig(dB, kB, msg []byte, wantPOdd bool) *verifSigCase {
	c := &verifSigCase{msg: msg}
	curve := k256.NewCurve()
	c.d = verifInScalar(dB)
	if verifNative() && verifIsOddY(curve.ScalarBaseMul(c.d)) != wantPOdd {
		c.d = c.d.Neg()
	}
	c.bigP = curve.ScalarBaseMul(c.d)
	pOdd := verifIsOddY(c.bigP)
	verifAssume(pOdd == wantPOdd)
	c.dEff = c.d
	if pOdd {
		c.dEff = c.d.Neg()
	}
	c.k = verifInScalar(kB)
	if verifNative() && verifIsOddY(curve.ScalarBaseMul(c.k)) {
		c.k = c.k.Neg()
	}
	c.bigR = curve.ScalarBaseMul(c.k)
	verifAssume(!verifIsOddY(c.bigR))
	var err error
	c.pk, err = NewPublicKey(c.bigP)
	if err != nil {
		panic(err)
	}
	c.scheme = NewSchemeWithAux([32]byte{})
	c.e, err = c.scheme.Variant().ComputeChallenge(c.bigR, c.bigP, msg)
	if err != nil {
		panic(err)
	}
	s := c.k.Add(c.e.Mul(c.dEff))
	verifAssume(!s.IsZero())
	c.sig = &Signature{E: c.e, R: c.bigR, S: s}
	return c
}

func (c *verifSigCase) verifier() *Verifier {
	v, err := c.scheme.Verifier()
	if err != nil {
		panic(err)
	}
	return v
}

// verifAny: a disjunction that does not fork on symbolic operands.
func verifAny(c ...bool) bool {
	var acc uint64
	for _, x := range c {
		acc |= verifB2U(x)
	}
	return acc != 0
}

func verifRejected(err error) bool {
	return err != nil && errors.Is(err, signatures.ErrVerificationFailed)
}

// ---- (b) Verify rejects changed components

// s shifted by any delta != 0 (includes delta = -2k, for which the recomputed R is -R: odd y).
func H_bip340_verify_shifted_s() {
	dB, kB, msg, deltaB := verifBytes(32), verifBytes(32), verifBytes(3), verifBytes(32)
	c := verifMakeSig(dB, kB, msg, verifBool())
	delta := verifInScalar(deltaB)
	verifReach("shift")
	v := c.verifier()
	verifAssert("shift.unmodified_accepted", v.Verify(c.sig, c.pk, msg) == nil)
	err := v.Verify(&Signature{E: c.e, R: c.bigR, S: c.sig.S.Add(delta)}, c.pk, msg)
	verifAssert("shift.s_plus_delta_rejected", verifRejected(err))
}

// the signature (R, s - 2k): s'G - eP = -R has the abscissa of R but odd y.
func H_bip340_verify_odd_y_R() {
	dB, kB, msg := verifBytes(32), verifBytes(32), verifBytes(3)
	c := verifMakeSig(dB, kB, msg, verifBool())
	s2 := c.sig.S.Sub(c.k).Sub(c.k)
	verifAssume(!s2.IsZero())
	verifReach("oddy")
	err := c.verifier().Verify(&Signature{E: c.e, R: c.bigR, S: s2}, c.pk, msg)
	verifAssert("oddy.recomputed_R_with_odd_y_rejected", verifRejected(err))
}

// R replaced by another point k2*G: accepted only if s*G - e2*P is the even-y point with the abscissa
// of k2*G, i.e. only under the scalar relation s - e2*d = +-k2 between hash outputs; R replaced by
// -R (same abscissa: the signature's R is x-only) is accepted.
func H_bip340_verify_other_R() {
	dB, kB, msg, k2B := verifBytes(32), verifBytes(32), verifBytes(3), verifBytes(32)
	c := verifMakeSig(dB, kB, msg, verifBool())
	k2 := verifInScalar(k2B)
	verifAssume(!k2.Equal(c.k) && !k2.Equal(c.k.Neg()))
	curve := k256.NewCurve()
	bigR2 := curve.ScalarBaseMul(k2)
	v := c.verifier()
	verifReach("otherR")
	err := v.Verify(&Signature{E: c.e, R: bigR2, S: c.sig.S}, c.pk, msg)
	e2, cerr := c.scheme.Variant().ComputeChallenge(bigR2, c.bigP, msg)
	if cerr != nil {
		panic(cerr)
	}
	rec := c.sig.S.Sub(e2.Mul(c.dEff))
	verifAssert("otherR.accepted_only_under_the_relation_s_minus_e2d_is_pm_k2", verifAny(err != nil, rec.Equal(k2), rec.Equal(k2.Neg())))
	verifAssert("otherR.minus_R_is_the_same_x_only_R", v.Verify(&Signature{E: c.e, R: c.bigR.Neg(), S: c.sig.S}, c.pk, msg) == nil)
	verifAssert("otherR.infinity_rejected", verifRejected(v.Verify(&Signature{E: c.e, R: curve.OpIdentity(), S: c.sig.S}, c.pk, msg)))
}

// another message: accepted only if the two challenges collide mod n.
func H_bip340_verify_other_message() {
	dB, kB, msg, msg2 := verifBytes(32), verifBytes(32), verifBytes(3), verifBytes(3)
	c := verifMakeSig(dB, kB, msg, verifBool())
	verifAssume(!bytes.Equal(msg, msg2))
	verifReach("othermsg")
	err := c.verifier().Verify(c.sig, c.pk, msg2)
	e2, cerr := c.scheme.Variant().ComputeChallenge(c.bigR, c.bigP, msg2)
	if cerr != nil {
		panic(cerr)
	}
	verifAssert("othermsg.accepted_only_if_challenges_collide", verifRejected(err) || (err == nil && e2.Equal(c.e)))
	// a wire-supplied E is not trusted: the right E with the wrong message does not help
	verifAssert("othermsg.E_field_is_ignored", (err == nil) == (c.verifier().Verify(&Signature{E: nil, R: c.bigR, S: c.sig.S}, c.pk, msg2) == nil))
}

// the negated key is the same x-only key; any other key is accepted only under the scalar relation
// e2*d2 = e*d between hash outputs.
func H_bip340_verify_other_key() {
	dB, kB, msg, d2B := verifBytes(32), verifBytes(32), verifBytes(3), verifBytes(32)
	c := verifMakeSig(dB, kB, msg, verifBool())
	d2 := verifInScalar(d2B)
	verifAssume(!d2.Equal(c.d) && !d2.Equal(c.d.Neg()))
	curve := k256.NewCurve()
	v := c.verifier()
	verifReach("otherkey")
	negPk, err := NewPublicKey(c.bigP.Neg())
	if err != nil {
		panic(err)
	}
	verifAssert("otherkey.negated_key_is_the_same_x_only_key", v.Verify(c.sig, negPk, msg) == nil)
	bigP2 := curve.ScalarBaseMul(d2)
	pk2, err := NewPublicKey(bigP2)
	if err != nil {
		panic(err)
	}
	d2Eff := d2
	if verifIsOddY(bigP2) {
		d2Eff = d2.Neg()
	}
	err = v.Verify(c.sig, pk2, msg)
	e2, cerr := c.scheme.Variant().ComputeChallenge(c.bigR, bigP2, msg)
	if cerr != nil {
		panic(cerr)
	}
	verifAssert("otherkey.accepted_only_under_the_relation_e2d2_is_ed", verifRejected(err) || (err == nil && e2.Mul(d2Eff).Equal(c.e.Mul(c.dEff))))
}

// nil / zero components.
func H_bip340_verify_degenerate() {
	dB, kB, msg := verifBytes(32), verifBytes(32), verifBytes(3)
	c := verifMakeSig(dB, kB, msg, verifBool())
	v := c.verifier()
	curve := k256.NewCurve()
	verifReach("degenerate")
	verifAssert("deg.nil_signature_rejected", verifRejected(v.Verify(nil, c.pk, msg)))
	verifAssert("deg.nil_R_rejected", verifRejected(v.Verify(&Signature{E: c.e, R: nil, S: c.sig.S}, c.pk, msg)))
	verifAssert("deg.nil_s_rejected", verifRejected(v.Verify(&Signature{E: c.e, R: c.bigR, S: nil}, c.pk, msg)))
	verifAssert("deg.zero_s_rejected", verifRejected(v.Verify(&Signature{E: c.e, R: c.bigR, S: k256.NewScalarField().Zero()}, c.pk, msg)))
	verifAssert("deg.infinite_R_rejected", verifRejected(v.Verify(&Signature{E: c.e, R: curve.OpIdentity(), S: c.sig.S}, c.pk, msg)))
	err := v.Verify(c.sig, nil, msg)
	verifAssert("deg.nil_key_is_invalid_argument", err != nil && errors.Is(err, signatures.ErrInvalidArgument))
	_, err = NewPublicKey(curve.OpIdentity())
	verifAssert("deg.identity_is_not_a_public_key", err != nil)
	_, err = NewPrivateKey(k256.NewScalarField().Zero())
	verifAssert("deg.zero_is_not_a_private_key", err != nil)
}

// ---- (c) threshold helpers of variant.go

func verifThreshold(n int) {
	msg := verifBytes(3)
	wantPOdd, wantROdd := verifBool(), verifBool()
	curve, sf := k256.NewCurve(), k256.NewScalarField()
	ds, ks := make([]*k256.Scalar, n), make([]*k256.Scalar, n)
	d, k := sf.Zero(), sf.Zero()
	for i := 0; i < n; i++ {
		ds[i], ks[i] = verifInScalar(verifBytes(32)), verifInScalar(verifBytes(32))
		d, k = d.Add(ds[i]), k.Add(ks[i])
	}
	verifAssume(!d.IsZero() && !k.IsZero())
	// natively: negate all shares / all partial nonces to obtain the requested parities
	if verifNative() && verifIsOddY(curve.ScalarBaseMul(d)) != wantPOdd {
		d = d.Neg()
		for i := range ds {
			ds[i] = ds[i].Neg()
		}
	}
	if verifNative() && verifIsOddY(curve.ScalarBaseMul(k)) != wantROdd {
		k = k.Neg()
		for i := range ks {
			ks[i] = ks[i].Neg()
		}
	}
	bigP, bigR := curve.ScalarBaseMul(d), curve.ScalarBaseMul(k)
	verifAssume(verifIsOddY(bigP) == wantPOdd)
	verifAssume(verifIsOddY(bigR) == wantROdd)
	switch {
	case wantPOdd && wantROdd:
		verifReach("th_P_odd_R_odd")
	case wantPOdd:
		verifReach("th_P_odd_R_even")
	case wantROdd:
		verifReach("th_P_even_R_odd")
	default:
		verifReach("th_P_even_R_even")
	}
	dEff, kEff := d, k
	if wantPOdd {
		dEff = d.Neg()
	}
	if wantROdd {
		kEff = k.Neg()
	}
	pk, err := NewPublicKey(bigP)
	if err != nil {
		panic(err)
	}
	scheme := NewSchemeWithAux([32]byte{})
	variant := scheme.Variant()
	// as lindell22 signing: the challenge is computed over the UNCORRECTED aggregates (x-only)
	e, err := variant.ComputeChallenge(bigR, bigP, msg)
	if err != nil {
		panic(err)
	}
	psv, err := scheme.PartialSignatureVerifier(pk)
	if err != nil {
		panic(err)
	}
	sumD, sumK, sumS, sumR := sf.Zero(), sf.Zero(), sf.Zero(), curve.OpIdentity()
	for i := 0; i < n; i++ {
		share, err := additive.NewShare(sharing.ID(i+1), ds[i], nil)
		if err != nil {
			panic(err)
		}
		cs, err := variant.CorrectAdditiveSecretShareParity(pk, share)
		verifAssert("th.share_correction_succeeds", err == nil && cs != nil)
		cR, cK, err2 := variant.CorrectPartialNonceParity(bigR, ks[i])
		verifAssert("th.nonce_correction_succeeds", err2 == nil && cR != nil && cK != nil)
		bigRi, bigPi := curve.ScalarBaseMul(ks[i]), curve.ScalarBaseMul(ds[i])
		cRc, err3 := variant.CorrectPartialNonceCommitmentParity(bigR, bigRi)
		cP, err4 := variant.CorrectPublicKeyShareParity(pk, bigPi)
		verifAssert("th.commitment_and_key_share_corrections_succeed", err3 == nil && cRc != nil && err4 == nil && cP != nil)
		if err != nil || err2 != nil || err3 != nil || err4 != nil || cs == nil || cR == nil || cK == nil || cRc == nil || cP == nil {
			return
		}
		verifAssert("th.share_negated_iff_P_odd", cs.Value().Equal(ds[i]) == !wantPOdd && (cs.Value().Equal(ds[i]) || cs.Value().Equal(ds[i].Neg())))
		verifAssert("th.share_id_kept_and_input_share_untouched", cs.ID() == share.ID() && share.Value().Equal(ds[i]))
		verifAssert("th.nonce_negated_iff_R_odd", cK.Equal(ks[i]) == !wantROdd && (cK.Equal(ks[i]) || cK.Equal(ks[i].Neg())))
		verifAssert("th.corrected_commitment_is_corrected_nonce_times_G", cR.Equal(curve.ScalarBaseMul(cK)))
		verifAssert("th.commitment_correction_agrees_with_nonce_correction", cRc.Equal(cR))
		verifAssert("th.key_share_correction_agrees_with_share_correction", cP.Equal(curve.ScalarBaseMul(cs.Value())))
		si, err := variant.ComputeResponse(cs.Value(), cK, e)
		verifAssert("th.response_is_k_plus_e_times_share", err == nil && si != nil && si.Equal(cK.Add(e.Mul(cs.Value()))))
		if err != nil || si == nil {
			return
		}
		pki, err := NewPublicKey(bigPi)
		if err != nil {
			panic(err)
		}
		verifAssume(!si.IsZero()) // (Verify refuses a zero response: probability 2^-256)
		perr := psv.Verify(&Signature{E: e, R: cR, S: si}, pki, msg)
		verifAssert("th.partial_signature_verifies", perr == nil)
		if i == 0 {
			// a partial signature with the UNCORRECTED commitment / a shifted response is refused
			bad := psv.Verify(&Signature{E: e, R: bigRi, S: si}, pki, msg)
			verifAssert("th.uncorrected_commitment_accepted_iff_no_correction", (bad == nil) == !wantROdd)
			sh := si.Add(sf.One())
			verifAssume(!sh.IsZero())
			bad = psv.Verify(&Signature{E: e, R: cR, S: sh}, pki, msg)
			verifAssert("th.shifted_partial_response_rejected", verifRejected(bad))
		}
		sumD, sumK, sumS, sumR = sumD.Add(cs.Value()), sumK.Add(cK), sumS.Add(si), sumR.Add(cR)
	}
	verifAssert("th.corrected_shares_sum_to_effective_key", sumD.Equal(dEff))
	verifAssert("th.corrected_nonces_sum_to_effective_nonce", sumK.Equal(kEff))
	verifAssert("th.corrected_commitments_sum_to_even_y_R", sumR.Equal(curve.ScalarBaseMul(kEff)) && !verifIsOddY(sumR))
	v, err := scheme.Verifier()
	if err != nil {
		panic(err)
	}
	verifAssume(!sumS.IsZero())
	agg := v.Verify(&Signature{E: e, R: sumR, S: sumS}, pk, msg)
	verifAssert("th.aggregate_signature_verifies_under_x_only_key", agg == nil)
	// the cosigning aggregator keeps the uncorrected aggregate R (same abscissa)
	agg = v.Verify(&Signature{E: e, R: bigR, S: sumS}, pk, msg)
	verifAssert("th.aggregate_with_uncorrected_R_verifies", agg == nil)
}

func H_bip340_threshold_2() { verifThreshold(2) }
func H_bip340_threshold_3() { verifThreshold(3) }

// ---- (d) BatchVerify

// verifBatch: u signatures by independent keys on independent messages, the i-th response shifted
// by delta_i (possibly 0). With a_1 = 1 and a_2..a_u the coefficients BatchVerify draws (obtained by
// the harness from a second reader at the same position): accepted iff sum a_i*delta_i = 0.
func verifBatch(u int, individually bool) (berr error, comb *k256.Scalar, nonZero, allOK uint64) {
	sf := k256.NewScalarField()
	sigs, pks, msgs := make([]*Signature, u), make([]*PublicKey, u), make([]Message, u)
	deltas := make([]*k256.Scalar, u)
	var scheme *Scheme
	allOK = 1
	for i := 0; i < u; i++ {
		c := verifMakeSig(verifBytes(32), verifBytes(32), verifBytes(3), verifBool())
		deltaB := verifBytes(32)
		verifAssume(verifSpecLess4(verifLimbsBE(deltaB), verifN()))
		var err error
		deltas[i], err = sf.FromBytes(deltaB)
		if err != nil {
			panic(err)
		}
		nonZero += verifB2U(!deltas[i].IsZero())
		shifted := c.sig.S.Add(deltas[i])
		// Verify and BatchVerify refuse a zero response outright (an s + delta = 0 is a separate,
		// trivially rejected case: H_bip340_verify_degenerate)
		verifAssume(!shifted.IsZero())
		sigs[i], pks[i], msgs[i] = &Signature{E: c.e, R: c.bigR, S: shifted}, c.pk, c.msg
		scheme = c.scheme
		if individually {
			allOK &= verifB2U(c.verifier().Verify(sigs[i], pks[i], msgs[i]) == nil)
		}
	}
	rd1, rd2 := &verifReader{}, &verifReader{}
	v, err := scheme.Verifier(VerifyWithPRNG(rd1))
	if err != nil {
		panic(err)
	}
	verifReach("batch")
	berr = v.BatchVerify(sigs, pks, msgs)
	comb = deltas[0]
	for i := 1; i < u; i++ {
		a, err := algebrautils.RandomNonIdentity(sf, rd2)
		if err != nil {
			panic(err)
		}
		comb = comb.Add(a.Mul(deltas[i]))
	}
	// "accepted iff sum a_i*delta_i = 0", one obligation per direction (the verdict is concrete on a
	// path): a counterexample of the first needs only the shifts (harness inputs, applied natively to
	// real signatures: e.g. delta_1 = -delta_0 against an implementation whose coefficients coincide)
	// and replays natively; one of the second may rest on the value of a coefficient, which only the
	// model can choose.
	if berr == nil {
		verifAssert("batch.accepted_only_if_sum_of_coefficient_times_shift_is_zero", comb.IsZero())
	} else {
		verifAssert("batch.rejected_only_if_sum_of_coefficient_times_shift_is_nonzero", !comb.IsZero())
	}
	verifAssert("batch.rejection_is_verification_failure", berr == nil || errors.Is(berr, signatures.ErrVerificationFailed))
	verifAssert("batch.all_unaltered_accepted", verifAny(nonZero != 0, berr == nil))
	verifAssert("batch.exactly_one_altered_rejected", verifAny(nonZero != 1, berr != nil))
	return berr, comb, nonZero, allOK
}

// one signature: the batch verdict is the individual verdict.
func H_bip340_batch_1() {
	berr, comb, nonZero, allOK := verifBatch(1, true)
	verifAssert("batch1.individual_verdict_ok_iff_not_altered", (allOK == 1) == (nonZero == 0))
	verifAssert("batch1.batch_verdict_is_individual_verdict", (allOK == 1) == (berr == nil))
	verifAssert("batch1.accepted_implies_valid_or_coefficient_relation", verifAny(berr != nil, allOK == 1, comb.IsZero()))
}

func H_bip340_batch_2() { verifBatch(2, false) }
func H_bip340_batch_3() { verifBatch(3, false) }

// mismatched / empty slices and a missing prng are refused.
func H_bip340_batch_lengths() {
	dB, kB, msg := verifBytes(32), verifBytes(32), verifBytes(3)
	c := verifMakeSig(dB, kB, msg, verifBool())
	a, b, m := verifLen(0, 2), verifLen(0, 2), verifLen(0, 2)
	sigs, pks, msgs := []*Signature{c.sig, c.sig}, []*PublicKey{c.pk, c.pk}, []Message{msg, msg}
	v, err := c.scheme.Verifier(VerifyWithPRNG(&verifReader{}))
	if err != nil {
		panic(err)
	}
	verifReach("batchlen")
	berr := v.BatchVerify(sigs[:a], pks[:b], msgs[:m])
	if a == b && b == m && a > 0 {
		verifReach("batchlen_equal")
		verifAssert("batchlen.equal_lengths_valid_signatures_accepted", berr == nil)
	} else {
		verifReach("batchlen_mismatch")
		verifAssert("batchlen.mismatched_or_empty_refused", berr != nil && errors.Is(berr, signatures.ErrInvalidArgument))
	}
	berr = c.verifier().BatchVerify(sigs[:1], pks[:1], msgs[:1])
	verifAssert("batchlen.no_prng_refused", berr != nil && errors.Is(berr, signatures.ErrInvalidArgument))
	_, err = c.scheme.Verifier(VerifyWithPRNG(nil))
	verifAssert("batchlen.nil_prng_option_refused", err != nil)
	berr = v.BatchVerify(sigs[:1], []*PublicKey{nil}, msgs[:1])
	verifAssert("batchlen.nil_key_refused", berr != nil && errors.Is(berr, signatures.ErrInvalidArgument))
}

func verifPanics(f func()) (p bool) {
	defer func() {
		if recover() != nil {
			p = true
		}
	}()
	f()
	return false
}

// a nil element in the signature slice: an error is expected, as Verify gives for a nil signature.
// (Found with this harness: BatchVerify dereferenced the nil signature and panicked; repaired in /repo
// by "fix: bip340 BatchVerify refuses nil or zero signature elements like Verify does".)
func H_bip340_batch_nil_signature() {
	dB, kB, msg := verifBytes(32), verifBytes(32), verifBytes(3)
	c := verifMakeSig(dB, kB, msg, verifBool())
	v, err := c.scheme.Verifier(VerifyWithPRNG(&verifReader{}))
	if err != nil {
		panic(err)
	}
	verifReach("batchnil")
	verifAssert("batchnil.verify_refuses_a_nil_signature_with_an_error", verifRejected(v.Verify(nil, c.pk, msg)))
	var berr error
	panicked := verifPanics(func() {
		berr = v.BatchVerify([]*Signature{nil}, []*PublicKey{c.pk}, []Message{msg})
	})
	verifAssert("batchnil.batch_verify_refuses_a_nil_signature_with_an_error", !panicked && berr != nil)
}

// ---- (e) serialisation

func H_bip340_serialise_roundtrip() {
	dB, kB, msg := verifBytes(32), verifBytes(32), verifBytes(3)
	c := verifMakeSig(dB, kB, msg, verifBool())
	verifReach("ser")
	verifInternScalar, verifInternPoint = c.sig.S, c.bigR // (model only) hints: see the decoding contracts
	sb, err := SerializeSignature(c.sig)
	verifAssert("ser.signature_is_64_bytes_xR_then_s", err == nil && len(sb) == 64 &&
		bytes.Equal(sb[:32], c.bigR.ToCompressed()[1:]) && bytes.Equal(sb[32:], c.sig.S.Bytes()))
	if err != nil || len(sb) != 64 {
		return
	}
	sig2, err := NewSignatureFromBytes(sb)
	verifAssert("ser.signature_decodes", err == nil && sig2 != nil)
	if err != nil || sig2 == nil {
		return
	}
	verifAssert("ser.signature_roundtrip", sig2.R.Equal(c.bigR) && sig2.S.Equal(c.sig.S) && sig2.E == nil)
	verifAssert("ser.decoded_signature_verifies", c.verifier().Verify(sig2, c.pk, msg) == nil)
	// the signature with -R (odd y) serialises to the same bytes: R is x-only
	sb2, err := SerializeSignature(&Signature{E: c.e, R: c.bigR.Neg(), S: c.sig.S})
	verifAssert("ser.minus_R_serialises_identically", err == nil && bytes.Equal(sb, sb2))

	pb, err := SerializePublicKey(c.pk)
	verifAssert("ser.key_is_32_bytes_xP", err == nil && len(pb) == 32 && bytes.Equal(pb, c.bigP.ToCompressed()[1:]))
	if err != nil || len(pb) != 32 {
		return
	}
	verifInternPoint = c.bigP
	pk2, err := NewPublicKeyFromBytes(pb)
	verifAssert("ser.key_decodes", err == nil && pk2 != nil)
	if err != nil || pk2 == nil {
		return
	}
	verifAssert("ser.key_roundtrip_is_lift_x", pk2.Value().Equal(LiftX(c.bigP)) && !verifIsOddY(pk2.Value()))
	verifAssert("ser.signature_verifies_under_decoded_key", c.verifier().Verify(c.sig, pk2, msg) == nil)
	_, err = SerializeSignature(nil)
	verifAssert("ser.nil_signature_refused", err != nil)
	_, err = SerializePublicKey(nil)
	verifAssert("ser.nil_key_refused", err != nil)
}

// arbitrary bytes: what is accepted is canonical and re-serialises to itself.
func H_bip340_decode_signature_bytes() {
	in := verifBytes(64)
	verifReach("decsig")
	sig, err := NewSignatureFromBytes(in)
	verifAssert("decsig.signature_xor_error", (sig == nil) != (err == nil))
	xOK := verifSpecLess4(verifLimbsBE(in[:32]), verifP())
	sOK := verifSpecLess4(verifLimbsBE(in[32:]), verifN())
	if err != nil || sig == nil {
		verifReach("decsig_rejected")
		return
	}
	verifReach("decsig_accepted")
	verifAssert("decsig.accepted_only_with_x_below_p_and_s_below_n", xOK && sOK)
	out, err := SerializeSignature(sig)
	verifAssert("decsig.reserialises_to_the_input", err == nil && bytes.Equal(out, in))
	verifAssert("decsig.R_is_infinity_or_has_even_y", sig.R.IsZero() || !verifIsOddY(sig.R))
	verifAssert("decsig.no_challenge_taken_from_the_wire", sig.E == nil)
}

func H_bip340_decode_signature_noncanonical() {
	in := verifBytes(64)
	which := verifBool()
	if which {
		verifAssume(!verifSpecLess4(verifLimbsBE(in[:32]), verifP()))
	} else {
		verifAssume(!verifSpecLess4(verifLimbsBE(in[32:]), verifN()))
	}
	verifReach("decsig_nc")
	sig, err := NewSignatureFromBytes(in)
	verifAssert("decsig.x_at_least_p_or_s_at_least_n_rejected", sig == nil && err != nil)
}

func H_bip340_decode_lengths() {
	n := verifLen(0, 66)
	in := verifBytes(n)
	verifReach("declen")
	if n != 64 {
		sig, err := NewSignatureFromBytes(in)
		verifAssert("declen.signature_length_must_be_64", sig == nil && err != nil && errors.Is(err, signatures.ErrSerialization))
	}
	if n != 32 {
		pk, err := NewPublicKeyFromBytes(in)
		verifAssert("declen.key_length_must_be_32", pk == nil && err != nil)
	}
}

func H_bip340_decode_key_bytes() {
	in := verifBytes(32)
	verifReach("deckey")
	pk, err := NewPublicKeyFromBytes(in)
	verifAssert("deckey.key_xor_error", (pk == nil) != (err == nil))
	if err != nil || pk == nil {
		verifReach("deckey_rejected")
		return
	}
	verifReach("deckey_accepted")
	verifAssert("deckey.accepted_only_with_x_below_p_and_nonzero", verifSpecLess4(verifLimbsBE(in), verifP()) && !verifIsZero4(verifLimbsBE(in)))
	verifAssert("deckey.lift_x_gives_even_y", !pk.Value().IsZero() && !verifIsOddY(pk.Value()))
	out, err := SerializePublicKey(pk)
	verifAssert("deckey.reserialises_to_the_input", err == nil && bytes.Equal(out, in))
}

// ---- controls (wrong claims on results; each must be VIOLATED and confirmed natively)

// wrong: the signer never negates the nonce (R = k'G).
func H_bip340_sign_nonce_MUSTFAIL() {
	dB, auxB, msg := verifBytes(32), verifBytes(32), verifBytes(3)
	wantPOdd, wantROdd := verifBool(), verifBool()
	c := verifMakeCase(dB, auxB, msg, wantPOdd, wantROdd)
	verifReach("nonce_mustfail")
	sig, err := c.sign()
	if err != nil || sig == nil {
		return
	}
	verifAssert("sv.wrong_R_is_unadjusted_nonce_times_G", sig.R.Equal(k256.NewCurve().ScalarBaseMul(c.kPrime)))
}

// wrong: the response always uses the secret key as given (s = k + e*d').
func H_bip340_sign_key_MUSTFAIL() {
	dB, auxB, msg := verifBytes(32), verifBytes(32), verifBytes(3)
	wantPOdd, wantROdd := verifBool(), verifBool()
	c := verifMakeCase(dB, auxB, msg, wantPOdd, wantROdd)
	verifReach("key_mustfail")
	sig, err := c.sign()
	if err != nil || sig == nil {
		return
	}
	verifAssert("sv.wrong_s_uses_unadjusted_key", sig.S.Equal(c.kEff.Add(sig.E.Mul(c.d))))
}

// wrong: a signature verifies under any key.
func H_bip340_verify_any_key_MUSTFAIL() {
	dB, kB, msg, d2B := verifBytes(32), verifBytes(32), verifBytes(3), verifBytes(32)
	c := verifMakeSig(dB, kB, msg, verifBool())
	pk2, err := NewPublicKey(k256.NewCurve().ScalarBaseMul(verifInScalar(d2B)))
	if err != nil {
		panic(err)
	}
	verifReach("anykey_mustfail")
	verifAssert("otherkey.wrong_any_key_accepts", c.verifier().Verify(c.sig, pk2, msg) == nil)
}

// wrong: the partial nonce is never negated (the aggregate commitment is made to have odd y).
func H_bip340_threshold_nonce_MUSTFAIL() {
	kB, rB := verifBytes(32), verifBytes(32)
	k, r := verifInScalar(kB), verifInScalar(rB)
	curve := k256.NewCurve()
	if verifNative() && !verifIsOddY(curve.ScalarBaseMul(r)) {
		r = r.Neg()
	}
	bigR := curve.ScalarBaseMul(r)
	verifAssume(verifIsOddY(bigR))
	verifReach("thnonce_mustfail")
	_, cK, err := NewSchemeWithAux([32]byte{}).Variant().CorrectPartialNonceParity(bigR, k)
	if err != nil {
		return
	}
	verifAssert("th.wrong_nonce_never_negated", cK.Equal(k))
}

// wrong: batch verification accepts when two shifts cancel without the coefficients.
func H_bip340_batch_cancelling_shifts_MUSTFAIL() {
	sf := k256.NewScalarField()
	c1 := verifMakeSig(verifBytes(32), verifBytes(32), verifBytes(3), verifBool())
	c2 := verifMakeSig(verifBytes(32), verifBytes(32), verifBytes(3), verifBool())
	delta := verifInScalar(verifBytes(32))
	v, err := c1.scheme.Verifier(VerifyWithPRNG(&verifReader{}))
	if err != nil {
		panic(err)
	}
	_ = sf
	verifReach("batch_mustfail")
	berr := v.BatchVerify(
		[]*Signature{{E: c1.e, R: c1.bigR, S: c1.sig.S.Add(delta)}, {E: c2.e, R: c2.bigR, S: c2.sig.S.Sub(delta)}},
		[]*PublicKey{c1.pk, c2.pk}, []Message{c1.msg, c2.msg})
	verifAssert("batch.wrong_cancelling_shifts_accepted", berr == nil)
}
