//go:build verif_native

// NATIVE reproduction of the observation reported by H_bip340_batch_nil_signature: BatchVerify
// dereferences a nil element of the signature slice (Verify returns an error for a nil signature).
// Run (never writes /repo): with OVERLAY = a JSON file
//   {"Replace": {"/repo/pkg/signatures/schnorrlike/bip340/zz_nil_test.go":
//                "/verif/engine/harness/e1/bip340/native/batchverify_nil_test.go"}}
//   cd /repo && GOPROXY=off GOSUMDB=off GOTOOLCHAIN=local CGO_ENABLED=0 go1.26.8 test \
//     -tags purego,verif_native -overlay $OVERLAY -count=1 -run TestBatchVerifyNilSignature -v \
//     ./pkg/signatures/schnorrlike/bip340

package bip340_test

import (
	"crypto/rand"
	"testing"

	"github.com/bronlabs/bron-crypto/pkg/signatures/schnorrlike/bip340"
)

// BatchVerify with a nil element in the signature slice: Verify(nil, pk, m) returns an error,
// BatchVerify dereferences the nil signature.
func TestBatchVerifyNilSignature(t *testing.T) {
	scheme := bip340.NewSchemeWithAux([32]byte{})
	kg, err := scheme.Keygen()
	if err != nil {
		t.Fatal(err)
	}
	_, pk, err := kg.Generate(rand.Reader)
	if err != nil {
		t.Fatal(err)
	}
	v, err := scheme.Verifier(bip340.VerifyWithPRNG(rand.Reader))
	if err != nil {
		t.Fatal(err)
	}
	msg := []byte{1, 2, 3}
	t.Logf("Verify(nil, pk, msg) = %v", v.Verify(nil, pk, msg))
	defer func() {
		if r := recover(); r != nil {
			t.Fatalf("BatchVerify([nil], [pk], [msg]) panicked: %v", r)
		}
	}()
	err = v.BatchVerify([]*bip340.Signature{nil}, []*bip340.PublicKey{pk}, []bip340.Message{msg})
	t.Logf("BatchVerify([nil], [pk], [msg]) = %v", err)
	if err == nil {
		t.Fatal("accepted")
	}
}
