package e2

// PropertyDef binds a property id to its case generator and static evidence metadata.
type PropertyDef struct {
	Cases  func(tier string, seed int64) []Case
	Config func(tier string) Config
}

// Properties is the registry of E2 checks.
var Properties = map[string]PropertyDef{
	"C07": {Cases: C07Cases, Config: func(tier string) Config {
		c := Config{
			Functions: []string{"gennaro rounds", "lindell22 signing rounds", "redistribute/hjky rounds", "algebrautils.RandomNonIdentity / Field.Random call sites of every round (observed through the reader monitor)", "kw.Scheme.DealAndRevealDealerFunc (columnFactory.Random)"},
			Bounds:    map[string]any{"failing source (dkls23)": "DKLs23 SoftSpoken variant (thorough: also bbot): every RAW byte read of one cosigner's source (choice bits, commitment witnesses, …) fails once — same obligations", "failing source": "Gennaro, Canetti, Lindell22 signing, refresh (3 parties, resp. a 2-party quorum): for every consumption index k < 24 of one party's source (thorough: of every party's), the k-th read fails once: the party reports an error from its constructor or from the round in which the read happens, and produces no result", "protocols": "Gennaro DKG, Lindell22 signing, redistribute (refresh)", "clauses": "reader discipline on every symbolic path; dependence of PK / joint nonce point / shares on each party's stream (solver witness); nonce-commitment injectivity and independence from message and other parties (validity)"},
			Assumes:   []string{"a party's stream = the io.Reader passed to its constructor; streams of distinct parties are independent symbolic variables", "byte-level randomness (commitment witnesses, session contributions) is visible only as 'read from the right reader'"},
			Outside:   []string{"session setup, OT, RVOLE, DKLs23, Lindell17, BLS", "randomness obtained without going through the supplied io.Reader and without sampling a field/group element (invisible to the monitor)", "sequences of sessions on the same key material"},
		}
		return c
	}},
	"C08": {Cases: C08Cases, Config: func(tier string) Config {
		c := Config{
			Functions: []string{"maurer09.Protocol.ComputeProverCommitment/ComputeProverResponse/Verify/RunSimulator/Extract/ValidateStatement", "dlog/schnorr.NewProtocol", "okamoto.NewProtocol", "batch_schnorr.Protocol.*", "sigand.Compose + Protocol.*", "sigor.Compose + Protocol.*", "compiler.Compile", "fischlin.NewCompiler / Prover.Prove / Verifier.Verify", "randfischlin.NewCompiler / Prover.Prove / Verifier.Verify", "fiatshamir.Protocol.NewProver/NewVerifier", "fiatshamir Prover.Prove / Verifier.Verify", "zkmodule.Prove/Verify", "algebrautils.ScalarMul (double-and-add on symbolic bases)", "elcomop.NewProtocol/NewWitness/NewStatement (Maurer09 over G×F → G², homomorphism = the real indcpacom/elgamal commitment)", "elog.NewProtocol/NewWitness/NewStatement (sigand.CartesianComposeNamed of elcomop and Schnorr)", "indcpacom.NewCommitmentKey / CommitmentKey.CommitWithWitness over elgamal.PublicKey"},
			Bounds:    map[string]any{"compilers": "fischlin and randfischlin over Schnorr (k=1) and batch Schnorr (k = 2, 5; thorough 1..5, 8, 9 — k = 5..8 makes the Fischlin challenge length a multiple of 8): the prover's hash search runs concretely over interned encodings of symbolic responses; the proof verifies in its context and is rejected under another session / transcript state / prover label / statement and when truncated, extended or empty", "elgamal proofs": "elcomop and elog with the ElGamal secret, the committed element, y, λ, the second base h and all offsets symbolic: completeness on every path for the 5 challenges, simulator, every response component shifted by δ≠0 rejected, a witness whose plaintext or nonce is shifted by δ≠0 refused by ValidateStatement and its transcript rejected, elog.NewWitness refuses y' ≠ y, ValidateStatement refuses Y ≠ h^y, Fiat–Shamir context binding", "witnesses, prover nonces, tampering offsets": "symbolic", "challenges": "5 concrete 16-byte challenges (0, 1, 2^128-1, high-bit, random)", "extractor": "arbitrary statement, commitment and responses; 10 (quick) / 20 (thorough) ordered challenge pairs", "compositions": "batch k=1..3 (5), AND k=1..3, OR n=2,3 with every witness position"},
			Assumes:   []string{"Fiat–Shamir challenges are real transcript outputs over interned handles (random-oracle idealisation): context-binding clauses are class B", "fresh random draws non-zero"},
			Outside:   []string{"every Paillier-/ring-based proof (paillier/*, prm, cggmp21/*): big-integer arithmetic", "interactive zk compiler", "byte-level malleability of encoded proofs beyond truncation/extension (C12)"},
		}
		return c
	}},
	"C06": {Cases: C06Cases, Config: func(tier string) Config {
		c := Config{
			Functions: []string{"redistribute.NewParticipant/WithTrustedAnchorID", "redistribute.Participant.Round1/Round2/Round3", "hjky.Participant.Round1/Round2", "session.Context.SubContext", "feldman.Scheme.Deal/Verify/ConvertShareToAdditive/ConvertLiftedShareToAdditive", "mpc.NewBaseShard", "accessstructures.InducedMSP", "trusteddealer.Deal"},
			Bounds:    map[string]any{"histories": "every single operation from 3 start structures; all pairs (first op × 4 second ops) from threshold(2,3) (quick); also from the CNF start and all triples (thorough)", "operations": "refresh, recover a lost share (2 positions), re-key by each minimal qualified set, redistribute to 6 structures incl. different holder sets and a 3-clause CNF whose quorums are smaller than its MSP dimension, with/without trusted anchor; one previous holder with a forged self-consistent shard (every position, no anchor)", "shares, zero sharings, re-sharing randomness": "symbolic"},
			Assumes:   []string{"fresh random draws non-zero", "ROM idealisation for transcript hashes", "the documented measure-zero retry abort of the zero sharing is excluded"},
			Outside:   []string{"networked runner", "histories longer than 3", "signing after each epoch (covered separately by C01 on dealt shards)", "real curves"},
		}
		return c
	}},
	"C01": {Cases: C01Cases, Config: func(tier string) Config {
		c := Config{
			Functions: []string{"dkls23 signing_bbot.NewCosigner / Cosigner.Round1–Round4", "dkls23 keygen.NewShard", "rvole/bbot Alice/Bob rounds", "ecbbot rounds", "ecdsa.NewSuite / DigestToScalar", "signing.NewCosigner", "Cosigner.Round1/Round2/Round3/ComputePartialSignature/computeEffectivePartialPublicKeys", "signing.NewAggregator/NewCosigningAggregator", "Aggregator.Aggregate", "hjky.Participant.Round1/Round2", "lindell22 dlogProve/dlogVerify (Fiat–Shamir Schnorr PoK)", "hashcom Commit/Open (real BLAKE2b over handles)", "schnorrlike.VerifierTrait.Verify", "feldman.Scheme.ConvertShareToAdditive/ConvertLiftedShareToAdditive", "kw/msp ReconstructionCoefficients", "przs.SampleZeroShare", "trusteddealer.Deal", "keygen.NewShard",
				"boldyreva02 keygen.NewShortKeyShard/NewLongKeyShard", "boldyreva02 signing.NewShortKeyCosigner/NewLongKeyCosigner, Cosigner.ProducePartialSignature", "boldyreva02 signing.NewShortKeyAggregator/NewLongKeyAggregator, Aggregator.Aggregate", "boldyreva02.PartialSignature.Validate", "bls.Scheme.Signer/Verifier, Signer.Sign, Verifier.Verify, coreSign/coreVerify/popVerify", "feldman.Scheme.ReconstructInTheExponent"},
			Bounds: map[string]any{"boldyreva02": "threshold BLS over the pairing model (G1, G2, GT in discrete-log representation, e([a]g1,[b]g2)=gT^(ab); hash-to-curve outputs = fresh symbolic discrete logs, pairwise distinct): dealer randomness symbolic; keys in G1 and in G2; Basic, MessageAugmentation and POP; every protocol structure incl. the non-ideal one (a holder with two MSP rows); ≤2 quorums per structure in quick: the aggregator accepts the honest partial signatures, the result verifies under the joint key with the standard verifier of the target scheme and equals [x]·H(m); cosigner constructors refuse an unqualified quorum", "protocol": "Lindell22 with the vanilla (configurable) Schnorr variant, both response signs, Fiat–Shamir compiler, round-by-round API", "dkls23-softspoken": "the SoftSpoken variant (ECBBOT base OTs, SoftSpoken OT extension executed concretely on the bytes derived from interned encodings, RVOLE over it), rounds 1–5, same obligations", "dkls23": "DKLs23 threshold ECDSA, bbot variant (RVOLE over ECBBOT), rounds 1–4 of every cosigner for a 2-party quorum of a 2-of-3 structure (thorough: also a CNF structure; a 3-party quorum is outside: one such case did not finish in 100 minutes) with all randomness symbolic: nobody aborts (measure-zero validator refusals excluded), all cosigners report the same R, and the partial signatures satisfy (Σw)·k = (m + r_x·x)·(Σu) with k = dlog R, x = dlog PK, r_x the opaque x-coordinate of R as the library converts it, Σu ≠ 0 — the ECDSA equation for s = Σw/Σu, stated without inversion", "structures/quorums": "threshold, unanimity, CNF, hierarchical, non-ideal gate tree; minimal quorums and minimal+1 (≤3 quorums per structure in quick)", "shares, nonces, zero shares": "symbolic mod the real group order", "messages": "2 concrete messages"},
			Assumes: []string{"random-oracle idealisation for transcript/commitment hashes (interned handles)", "fresh random draws are non-zero", "the measure-zero refusals the code itself documents are excluded: effective partial public key = identity (retry abort), aggregated s = 0 or R = identity (shown to be the only way an aggregator can refuse)",
				"threshold BLS: the pairing model (see C15); a share component equal to zero (probability 1/q over the dealer's randomness; bls.NewPrivateKey refuses a zero scalar) and a partial signature or proof equal to the identity end the path with a reach marker, the signing path itself must be reachable (MustReach)"},
			Outside: []string{"Lindell17 (Paillier), CGGMP21", "the pairing itself, hash-to-curve, subgroup membership of decoded points (bls12381 arithmetic is replaced by the bilinear model)", "BIP-340 / Mina variants (parity of an affine coordinate)", "DKLs23 with a quorum of 3 or more cosigners", "networked runner API", "real curves"},
		}
		return c
	}},
	"C14": {Cases: C14Cases, Config: func(tier string) Config {
		return Config{
			Functions: []string{"algebra/impl.MultiScalarMulLowLevel (naive path n≤7, Pippenger path with window w = bitlen(n), bucket accumulation, window extraction)", "algebra/impl.ScalarMulLowLevel (4-bit fixed window)"},
			Bounds:    map[string]any{"points": "n symbolic points of the model group, n ∈ {1,2,7,8,9,16,33,100,255,256,600,1023,1024,1100} (thorough: up to 5000, window sizes up to 13)", "scalars": "CONCRETE corpus per case: 32-byte and 5-byte little-endian values — random full-width, all-ones, single high bits, short — so every window position and every (start mod 8, w) combination that occurs is exercised; the verdict is for all points, not for all scalars"},
			Assumes:   []string{"the skeletons only use the low-level group interface (Add, Double, Set, SetZero, Select, Equal, IsZero); an adapter maps it onto the model group", "genericity: a bucket that received at least one symbolic point is not the identity (the skip branch of the running sum is exercised by the empty buckets only)"},
			Outside:   []string{"symbolic scalar bytes (E2 executes byte code concretely)", "window sizes 14–16 (n ≥ 8192)", "the per-curve wrappers that convert scalars to bytes"},
		}
	}},
	"C09": {Cases: C09Cases, Config: func(tier string) Config {
		return Config{
			Functions: []string{"vsot.NewSuite/NewSender/NewReceiver", "vsot Sender.Round1/Round3/Round5, Receiver.Round2/Round4/Round6", "dlog/schnorr + fiatshamir proof inside VSOT", "ecbbot.NewSuite/NewSender/NewReceiver, Sender.Round1/Round3, Receiver.Round2", "ecbbot.Popf.Program/Eval, TaggedKeyAgreement", "rvole/bbot Alice.Round1/Round3, Bob.Round2/Round4 (OT-based multiplication over ECBBOT, gadget vector, consistency check)", "hashing.HashIndexLengthPrefixed (real SHA-256 over interned encodings)", "ecbbot ReceiverOutput.ToBitsOutput / SenderOutput.ToBitsOutput", "rvole/softspoken NewSuite/NewAlice/NewBob, Bob.Round1/Round3, Alice.Round2, roTheta/roMu, Round2P2P.Validate", "softspoken.NewSender/NewReceiver and the extension rounds underneath (concrete bytes)"},
			Bounds:    map[string]any{"ecbbot byte outputs": "ToBitsOutput of both sides for 16- and 32-byte pads: receiver's pad = sender's pad of the chosen branch for every instance and every block (L up to 3), ≠ the other branch, all sender pads distinct, short lengths / keys refused", "rvole/softspoken": "standalone over a fixed corpus of concrete base-OT seeds, L = 1 (thorough 2), xi = 416 rows, Bob's choice bits chosen by the harness (every byte 0xa5; thorough also 0x00 and 0xff), Alice's inputs and randomness symbolic: honest run c_i + d_i = a_i·b and Bob accepts; deviating Alice: one ATilde entry (data column or check column, in a row with β = 0 or β = 1), one η entry shifted by a symbolic δ ≠ 0, or one μ byte flipped ⇒ Bob aborts (2 rows × 3 columns in quick; 5 rows incl. row 100 in thorough)", "instances": "Xi = 8 (thorough: up to 24), L = 1..3 (thorough 4) blocks", "choices": "concrete corpus of choice bytes (all-zero, all-one, mixed, single bits)", "randomness": "sender's and receiver's streams symbolic", "rvole": "L = 1 (thorough: 2) multiplications per run, xi = 416 OT instances, Alice's inputs and all randomness symbolic, Bob's choice bits from his (concrete) byte stream: c_i + d_i = a_i·b and Bob's consistency check accepts"},
			Assumes:   []string{"random-oracle idealisation: hashes run for real over interned element encodings (provably equal elements ⇒ equal encodings; otherwise different)", "the model group satisfies curves.Curve/curves.Point through a facade with opaque coordinates (symalg/curve.go)", "fresh draws non-zero", "points an honest party transmits are not the identity (the peer's validation refuses the identity; probability Xi·L/q per run; in the RVOLE harness via the engine's generic-non-identity mode)"},
			Outside:   []string{"the SoftSpoken OT extension with symbolic seeds (it runs concretely here; E1 covers its consistency check and the bit-level helpers)", "deviating parties in the base-OT protocols; deviating Bob in the multiplication", "random sources that return short reads without an error (the model streams always deliver full reads)", "real curves"},
		}
	}},
	"C12": {Cases: C12Cases, Config: func(tier string) Config {
		return Config{
			Functions: []string{"serde.MarshalCBOR/UnmarshalCBOR (fxamacker/cbor strict mode, run natively)", "kw.Share / shamir.Share / feldman.LiftedShare / pedersen.Share / polynomials.Polynomial UnmarshalCBOR → constructors", "mat.Matrix / ModuleValuedMatrix / SquareMatrix UnmarshalCBOR", "msp.MSP.UnmarshalCBOR → NewMSP", "feldman.VerificationVector.UnmarshalCBOR → NewVerificationVector", "mpc.BasePublicMaterial.UnmarshalCBOR → NewBasePublicMaterial", "mpc.BaseShard.UnmarshalCBOR → NewBaseShard (share must lift to its public share)", "pedersencom.CommitmentKey/TrapdoorKey.UnmarshalCBOR", "elgamal.PublicKey/SecretKey.UnmarshalCBOR", "schnorrlike.PublicKey.UnmarshalCBOR"},
			Bounds:    map[string]any{"leaves": "every field / group element inside a DTO is an arbitrary symbolic value mod the real group order (keys, share values) — the verdict 'accepted ⇔ validity predicate' is the solver's for all of them", "shapes": "concrete corpus: vector lengths D−1, D, D+1; matrix shapes incl. zero, negative and overflowing dimensions; ID 0; nil leaves; non-shareholder IDs; 3 policies (7 thorough)", "containers": "for each valid encoding: trailing byte, truncation, empty input, duplicate key, unknown field, indefinite-length map — executed natively through the real CBOR library"},
			Assumes:   []string{"elements are encoded as interned handles (provably equal terms share a handle), so byte-level determinism is decided up to the element encoding, which is C13's subject", "fresh random draws non-zero"},
			Outside:   []string{"the ~120 remaining serialisable types (protocol messages, Paillier, BLS, curve points, access structures: integers and real curve bytes are not symbolic in E2)", "arbitrary byte strings (the CBOR library itself is reflection-based)", "moduli sizes"},
		}
	}},
	"C04": {Cases: C04Cases, Config: func(tier string) Config {
		c := Config{
			Functions: []string{"gennaro.Participant.Round1/Round2/Round3 (consuming rounds under deviation)", "gennaro message Validate", "network.ValidateIncomingMessages", "pedersen.Scheme.Verify", "feldman.Scheme.Verify", "fiatshamir Verifier.Verify / zkmodule.Verify", "batch_schnorr / okamoto Verify", "base.GetMaliciousIdentities / ShouldAbort", "mpc.NewBaseShard",
				"redistribute.Participant.Round2/Round3 and Round1Broadcast/Round1P2P/Round2Broadcast/Round2P2P.Validate under deviation", "hjky.Participant.Round2 under deviation", "lindell22 signing.Cosigner.Round2/Round3, Aggregator.Aggregate under deviation", "canetti.Participant.Round2/Round3/Round4 under deviation", "dkls23 signing_bbot Cosigner.Round3/Round4 and rvole/bbot Bob.Round4 under deviation", "boldyreva02 signing.Aggregator.Aggregate and PartialSignature.Validate under deviation"},
			Bounds: map[string]any{"deviation": "one field of one message of one sender (per-recipient for unicasts, uniform for broadcasts), or the deviator's whole dealing / starting shard replaced by a self-consistent forgery; offset δ symbolic with δ≠0",
				"faults gennaro":      "unicast share secret/blinding component, Pedersen / Feldman vector entries (proof unchanged), Feldman vector re-proved by the deviator for another column, vectors truncated/extended by one entry, dropped broadcast",
				"faults canetti":      "round-1 commitment bit, opened message: vector entry shifted (δ), rho bit, witness bit, wrong sharing ID; private share shifted / extended / truncated; round-3 proof response / commitment shifted (δ)",
				"faults dkls23":       "DKLs23 (bbot) signing, 2-party quorum: opened nonce point R (round 2), public key share (round 3 broadcast), Γ_U, Γ_V, one entry of the RVOLE ATilde matrix, one entry of η (round 3 unicast), each shifted by δ: every honest cosigner rejects, blames the deviator where the check is per-sender, abort demanded",
				"faults boldyreva02":  "threshold BLS (pairing model), every rogue-key mode: a message-signature component or a POP component shifted by δ, a component dropped / duplicated, two components swapped (non-ideal structure), partial signature over another message: the aggregator refuses and tags the deviator",
				"faults lindell22":    "partial signature response / nonce commitment, opened nonce, zero-sharing dealing replaced by a consistent dealing of δ (deviator at each of the 3 positions), zero share shifted",
				"faults redistribute": "zero-sharing dealing of δ, zero share / zero vector entry shifted, next-share contribution shifted / extended / truncated, next / previous / zero verification vector entries shifted, forged self-consistent previous shard; refresh, recovery with and without anchor, redistribution to multi-row structures; deviator at every previous-holder position",
				"structures":          "threshold, CNF, non-ideal gate tree (3 parties); more in thorough"},
			Assumes: []string{"class A faults (share components, re-proved vector): verdict for every δ≠0", "class B faults (vector entry with unchanged proof): rejected under the random-oracle idealisation (a changed hashed element changes the challenge bytes)", "fresh random draws non-zero"},
			Outside: []string{"DKLs23/RVOLE/OT, Lindell17, BLS, CGGMP21", "echo-broadcast enforcement (C11)", "hangs", "bit flips inside encodings (C12)", "replays across parallel sessions"},
		}
		return c
	}},
	"C03": {Cases: C03Cases, Config: func(tier string) Config {
		c := Config{
			Functions: []string{"canetti.NewParticipant", "canetti.Participant.Round1/Round2/Round3/Round4", "canetti CommitmentMessage.Bytes / message Validate", "hashcom Commit/Open (real BLAKE2b over handles)", "zkmodule.Commit/Prove/Verify", "gennaro.NewParticipant", "gennaro.Participant.Round1/Round2/Round3", "pedersen.Scheme.DealRandomAndRevealDealerFunc/Verify", "feldman.Scheme.Verify", "okamoto.NewProtocol", "batch_schnorr.NewProtocol", "sigand.Compose", "maurer09.Protocol.*", "fiatshamir.NewCompiler/Prover.Prove/Verifier.Verify", "zkmodule.Prove/Verify", "pedersencom.ExtractCommitmentKey", "session.NewContext", "mpc.NewBaseShard/NewBasePublicMaterial", "trusteddealer.Deal", "feldman.Scheme.Reconstruct/ReconstructInTheExponent"},
			Bounds:    map[string]any{"parties": "2–3 (quick) / up to 4 (thorough)", "structures": "threshold, unanimity, CNF, hierarchical, non-ideal gate tree", "every party's random stream": "independent symbolic variables", "compiler": "Fiat–Shamir"},
			Assumes:   []string{"random-oracle idealisation: transcript/hash outputs depend on hashed elements only through equality (interned handles); the Pedersen generator h = hash-to-group output has an unknown symbolic discrete log, h ∉ {identity, g}", "fresh random draws are non-zero", "sigand's goroutines interleave as under GOMAXPROCS=1"},
			Outside:   []string{"real curves", "Fischlin compilers", "networked runner", "store/reload (C12)", "Lindell17 key generation (Paillier)"},
		}
		return c
	}},
	"C10": {Cases: C10Cases, Config: func(tier string) Config {
		c := Config{
			Functions: []string{"session.NewContext", "session.Context.SubContext/Seeds/Transcript/SessionID/Clone", "przs.SampleZeroShare", "additive.NewShare", "hagrid transcript (real cSHAKE, run natively)"},
			Bounds:    map[string]any{"quorum": "2..4 parties (quick) / 2..5 (thorough) × 3 ID pools, every sub-quorum of size ≥ 2", "pairwise PRG outputs": "symbolic (one variable per pairwise stream position)", "seeds": "concrete"},
			Assumes:   []string{"a pairwise PRG stream is a deterministic function of its seed: both ends that read the same bytes obtain the same symbolic element (random-function model of the PRG)", "session ids / transcript states are compared as real hash outputs (class B: no solver claim beyond determinism)"},
			Outside:   []string{"the interactive setup rounds (commit/open of seed contributions): hash level", "the runner", "distinctness of seeds across sessions (hash)"},
		}
		if tier == "thorough" {
			c.Moduli = []string{"secp256k1", "ed25519"}
		}
		return c
	}},
	"C15": {Cases: C15Cases, Config: func(tier string) Config {
		c := Config{
			Functions: []string{"schnorrlike/schnorr.NewScheme/Signer/Verifier", "schnorrlike.SignerTrait.Sign", "schnorrlike.VerifierTrait.Verify", "schnorr.Variant.ComputeNonceCommitment/ComputeChallenge/ComputeResponse", "schnorrlike.ComputeGenericNonceCommitment/ComputeGenericResponse/MakeGenericChallenge", "ecdsa.NewSignature",
				"bls.NewShortKeyScheme/NewLongKeyScheme", "bls.NewPrivateKey/NewPublicKey/NewSignature/NewProofOfPossession", "bls.Signer.Sign", "bls.Verifier.Verify/AggregateVerify", "bls.Scheme.AggregateSignatures", "bls.VerifyWithProofsOfPossession", "bls.AugmentMessage", "bls coreSign/coreVerify/coreAggregateVerify/popProve/popVerify"},
			Bounds: map[string]any{"bls": "BLS over the pairing model (bilinear map on discrete logs, hash-to-curve outputs symbolic and pairwise distinct), keys in G1 and in G2 × Basic / MessageAugmentation / POP × 2 signers (thorough: 3): sign→verify accepts; a signature or an aggregate shifted by any δ≠0 is rejected; acceptance under another key ⇒ equal keys; aggregate of honest signatures verifies; aggregate with a key missing is rejected; POP mode refuses fewer proofs than keys (and none at all); rogue key pk_r = [x]g − pk_victim with an arbitrary claimed proof: acceptance ⇒ the claimed proof IS the proof of possession of pk_r", "private key, nonce, tampering offset": "symbolic over GF(q)", "configurations": "response sign ±, byte order, sha256/sha512, 3 messages"},
			Assumes: []string{"challenge = real hash of interned handles (random-oracle idealisation): equal hashed values ⇔ equal handles", "fresh nonces are non-zero (probability 1/q excluded)",
				"BLS: G1, G2, GT in discrete-log representation with e([a]g1,[b]g2) = gT^(ab) (the pairing model of symalg); hash-to-curve outputs are fresh symbolic discrete logs ∉ {0,1}, pairwise distinct for distinct inputs (random-oracle idealisation); secret keys ≠ 0 as bls.NewPrivateKey requires; an aggregate Σ sk_i·H(m_i) equal to the identity (probability 1/q over the hash outputs; the verifier refuses it) is assumed away; in message-augmentation mode acceptance under another key is possible exactly on a relation between two hash outputs (reach marker, not an obligation)"},
			Outside: []string{"ECDSA verification/recovery/normalisation (crypto/ecdsa, integer comparison of scalars)", "BIP-340, Mina (parity of an affine coordinate)", "bls12381 arithmetic itself (pairing, hash-to-curve, subgroup checks: replaced by the bilinear model); BLS key generation from a seed (HKDF, concrete)", "published vectors"},
		}
		if tier == "thorough" {
			c.Moduli = []string{"secp256k1", "ed25519", "pallas"}
			c.Cross = "cvc5"
		}
		return c
	}},
	"C16": {Cases: C16Cases, Config: func(tier string) Config {
		c := Config{
			Functions: []string{"elgamal.NewSecretKey/NewPublicKey", "elgamal.PublicKey.EncryptWithNonce/Representative/IdentityNoise/ReRandomise/Shift/CiphertextOp/CiphertextOpInv/CiphertextScalarOp/PlaintextOp/NonceOp", "elgamal.SecretKey.Decrypt/EncryptWithNonce/IdentityNoise/ReRandomise", "encryption/internal/gift.Encrypt/ReRandomise/Shift", "constructions.FiniteDirectPowerModule"},
			Bounds:    map[string]any{"sk, plaintexts, nonces, scalar": "symbolic over GF(q)/the group", "operation sequences": "all sequences over {op,inv,scalar,shift,rerand} of length ≤2 (quick) / ≤4 (thorough)"},
			Assumes:   []string{"group modelled as (Z/q,+) by isomorphism; sk ∉ {0,1} and nonces ≠ 0 as the constructors require"},
			Outside:   []string{"Paillier in all flavours, znstar, modular, crt (big-integer arithmetic on saferith: DESIGN §6 barrier 1)"},
		}
		if tier == "thorough" {
			c.Moduli = []string{"secp256k1", "ed25519", "p256"}
			c.Cross = "cvc5"
		}
		return c
	}},
	"C18": {Cases: C18Cases, Config: func(tier string) Config {
		c := Config{
			Functions: []string{"pedersencom.NewCommitmentKeyUnchecked", "pedersencom.CommitmentKey.CommitWithWitness/Open/CommitmentOp/CommitmentScalarOp/CommitmentOpInv/ReRandomise/Shift/MessageOp/WitnessOp", "pedersencom.NewTrapdoorKey", "TrapdoorKey.CommitWithWitness/Equivocate/Export", "commitments/internal.GenericOpen", "indcpacom.NewCommitmentKey", "indcpacom.CommitmentKey.CommitWithWitness/Open"},
			Bounds:    map[string]any{"message, witness, second generator h, alternative opening, offsets δ": "symbolic", "trapdoor λ": "4 concrete values (Equivocate inverts it)"},
			Assumes:   []string{"h ∉ {identity, g} (what NewCommitmentKeyUnchecked enforces)", "'changed key ⇒ reject' is claimed for witness ≠ 0 (with witness 0 the commitment does not depend on h)"},
			Outside:   []string{"intcom (RSA-group integers)", "hash commitments are checked by the E1 part of C18", "key extraction from transcripts (hash, class B)"},
		}
		if tier == "thorough" {
			c.Moduli = []string{"secp256k1", "ed25519", "bls12381"}
			c.Cross = "cvc5"
		}
		return c
	}},
	"C20": {Cases: C20Cases, Config: func(tier string) Config {
		c := Config{
			Functions: []string{"mat.SolveRight", "mat.SolveLeft", "mat.solveAugmented", "mat.SquareMatrix.TryInv/Determinant/Mul/Transpose/IsIdentity", "mat.Lift", "mat.LeftAction", "mat.RightAction", "polynomials.Polynomial.Eval/Add/Mul/Derivative", "polynomials.LiftPolynomial", "ModuleValuedPolynomial.Eval",
				"lagrange.InterpolateAt/BasisAt/InterpolateInExponentAt", "vandermonde.Interpolate/BuildVandermondeMatrix", "birkhoff.BuildVandermondeMatrix"},
			Bounds:  map[string]any{"matrices": "concrete, shapes ≤3×3 (quick) / ≤4×4 (thorough), seeded corpus incl. rank-deficient, zero-leading, dependent rows/columns", "right-hand sides, vectors, second factor, polynomial coefficients, evaluation point": "symbolic over GF(q)", "interpolation nodes": "concrete distinct node sets (unsorted, sparse, > 2^63), degree ≤ 3 (quick) / ≤ 5"},
			Assumes: []string{"matrix entries and interpolation nodes concrete (elimination pivots / Lagrange denominators are inverted: DESIGN §6 barrier 2)"},
			Outside: []string{"symbolic matrices and nodes", "birkhoff.Interpolate with symbolic values (Cramer determinants divide by symbolic pivots)"},
		}
		if tier == "thorough" {
			c.Moduli = []string{"secp256k1", "bls12381"}
			c.Cross = "cvc5"
		}
		return c
	}},
	"C05": {Cases: C05Cases, Config: func(tier string) Config {
		c := Config{
			Functions: []string{"feldman.NewScheme", "feldman.Scheme.Deal", "feldman.Scheme.Verify", "feldman.NewLiftedDealerFunc", "feldman.LiftedDealerFunc.ShareOf", "feldman.LiftShare", "feldman.NewVerificationVector", "feldman.VerificationVector.Op", "feldman.Scheme.ReconstructInTheExponent",
				"pedersen.NewScheme", "pedersen.Scheme.Deal", "pedersen.Scheme.Verify", "pedersen.LiftShare", "pedersen.Scheme.ReconstructAndVerify", "pedersen.Share.Add", "mat.LeftAction", "mat.Lift", "pedersencom.NewCommitmentKeyUnchecked/CommitWithWitness"},
			Bounds:  map[string]any{"policies": "≤6 per family (quick) / whole corpus (thorough), every holder", "share and verification vector": "fully symbolic (arbitrary) in the iff clauses", "tampering offset δ": "symbolic, δ≠0", "pedersen h": "arbitrary group element ∉ {identity, g} (symbolic discrete log)"},
			Assumes: []string{"policies/IDs/MSP matrices concrete per case", "group modelled as (Z/q,+) (isomorphism), q the real group order"},
			Outside: []string{"real curve arithmetic (replay only)", "more than two combined dealings"},
		}
		if tier == "thorough" {
			c.Moduli = []string{"secp256k1", "ed25519"}
			c.Cross = "cvc5"
		}
		return c
	}},
	"C02": {Cases: C02Cases, Config: func(tier string) Config {
		c := Config{
			Functions: []string{"kw.NewScheme", "kw.Scheme.Deal/DealAndRevealDealerFunc", "kw.NewDealerFunc", "kw.Scheme.Reconstruct", "kw.Scheme.CanReconstruct", "kw.Scheme.ConvertShareToAdditive", "kw.Share.Add/ScalarMul",
				"msp.MSP.Accepts/ReconstructionVector/ReconstructionCoefficients", "mat.SolveLeft/solveAugmented", "mat.DotProduct", "accessstructures.InducedMSP", "threshold/unanimity/cnf/hierarchical/boolexpr.InducedMSP", "IsQualified of every family"},
			Bounds:  map[string]any{"shareholders": "≤4 (quick) / ≤5 (thorough), all subsets", "ids": "three concrete pools (dense, sparse-unsorted, large)", "secret,randomness": "symbolic over GF(q), q = real group order"},
			Assumes: []string{"shareholder IDs, policies and MSP matrices are concrete per case (symbolic IDs need inverses: DESIGN §6 barrier 2)"},
			Outside: []string{"policies on more than 5 shareholders", "symbolic shareholder IDs", "statistical uniformity of shares"},
		}
		if tier == "thorough" {
			c.Moduli = []string{"secp256k1", "ed25519", "bls12381"}
			c.Cross = "cvc5"
		}
		return c
	}},
}
