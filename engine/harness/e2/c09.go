package e2

import (
	"bytes"
	"crypto/sha256"
	"fmt"
	"strings"

	rvole_bbot "github.com/bronlabs/bron-crypto/pkg/mpc/rvole/bbot"
	"github.com/bronlabs/bron-crypto/pkg/mpc/sharing"
	"github.com/bronlabs/bron-crypto/pkg/ot/base/ecbbot"
	"github.com/bronlabs/bron-crypto/pkg/ot/base/vsot"

	"verif/engine/symalg"
)

// E2 part of C09: the two base-OT protocols, run round by round over the model group with the
// sender's and the receiver's random streams symbolic. Hashes run for real over interned element
// encodings: provably equal group elements have equal encodings, so "receiver's pad = sender's
// pad for the chosen branch" is decided by the solver through the interning of a·B and (A−ωB)·b.

func choiceBit(choices []byte, i int) byte { return (choices[i/8] >> (uint(i) % 8)) & 1 }

// c09VSOT: Xi = 8 instances × L blocks.
func c09VSOT(env *SymEnv, l int, choices []byte) {
	env.AssumeDrawsNonZero()
	group := env.R.Group()
	suite, err := vsot.NewSuite[sG, sF, sF](8*len(choices), l, group, sha256.New)
	if !env.Check("C09.vsot/suite-ok", err == nil, fmt.Sprint(err)) {
		return
	}
	ctxs, err := makeContexts(fmt.Sprintf("c09/vsot/%d/%x", l, choices), []sharing.ID{1, 2})
	if !env.Check("C09.vsot/contexts-ok", err == nil, fmt.Sprint(err)) {
		return
	}
	snd, e1 := vsot.NewSender(ctxs[1], suite, env.Reader("sender"))
	rcv, e2 := vsot.NewReceiver(ctxs[2], suite, env.Reader("receiver"))
	if !env.Check("C09.vsot/participants-ok", e1 == nil && e2 == nil, fmt.Sprint(e1, e2)) {
		return
	}
	r1, err := snd.Round1()
	if !env.Check("C09.vsot/round1-ok", err == nil, fmt.Sprint(err)) {
		return
	}
	r2, rout, err := rcv.Round2(r1, choices)
	if !env.Check("C09.vsot/round2-ok (honest sender proof accepted)", err == nil, fmt.Sprint(err)) {
		return
	}
	// the sender refuses an identity point; an honest receiver produces one with probability 1/q per
	// instance (a + ω·b = 0): excluded, as stated in the evidence
	for _, A := range r2.BigA {
		env.Assume(symalg.Not(env.EqG(A, group.OpIdentity())))
	}
	r3, sout, err := snd.Round3(r2)
	if !env.Check("C09.vsot/round3-ok", err == nil, fmt.Sprint(err)) {
		return
	}
	r4, err := rcv.Round4(r3)
	if !env.Check("C09.vsot/round4-ok", err == nil, fmt.Sprint(err)) {
		return
	}
	r5, err := snd.Round5(r4)
	if !env.Check("C09.vsot/round5-ok (honest receiver's response accepted)", err == nil, fmt.Sprint(err)) {
		return
	}
	err = rcv.Round6(r5)
	if !env.Check("C09.vsot/round6-ok (honest sender's openings accepted)", err == nil, fmt.Sprint(err)) {
		return
	}
	xi := 8 * len(choices)
	env.Check("C09.vsot/output shapes", len(sout.Messages) == xi && len(rout.Messages) == xi && bytes.Equal(rout.Choices, choices), "wrong shapes")
	for i := 0; i < xi; i++ {
		c := choiceBit(choices, i)
		for j := 0; j < l; j++ {
			env.Check("C09.vsot/receiver's pad = sender's pad of the chosen branch (every instance, every block)", bytes.Equal(rout.Messages[i][j], sout.Messages[i][c][j]), fmt.Sprintf("instance %d block %d choice %d", i, j, c))
			env.Check("C09.vsot/receiver's pad ≠ sender's pad of the other branch", !bytes.Equal(rout.Messages[i][j], sout.Messages[i][1-c][j]), fmt.Sprintf("instance %d block %d", i, j))
		}
	}
	// distinct instances / blocks carry distinct pads
	seen := map[string]string{}
	for i := 0; i < xi; i++ {
		for b := 0; b < 2; b++ {
			for j := 0; j < l; j++ {
				k := string(sout.Messages[i][b][j])
				id := fmt.Sprintf("(%d,%d,%d)", i, b, j)
				if prev, dup := seen[k]; dup {
					env.Check("C09.vsot/sender pads of different (instance, branch, block) differ", false, prev+" = "+id)
				}
				seen[k] = id
			}
		}
	}
	env.Reach("vsot-done")
}

// c09ECBBOT: the endemic base OT with scalar outputs.
func c09ECBBOT(env *SymEnv, l int, choices []byte) {
	env.AssumeDrawsNonZero()
	group := env.R.Group()
	xi := 8 * len(choices)
	suite, err := ecbbot.NewSuite[sG, sF](xi, l, group)
	if !env.Check("C09.ecbbot/suite-ok", err == nil, fmt.Sprint(err)) {
		return
	}
	ctxs, err := makeContexts(fmt.Sprintf("c09/ecbbot/%d/%x", l, choices), []sharing.ID{1, 2})
	if !env.Check("C09.ecbbot/contexts-ok", err == nil, fmt.Sprint(err)) {
		return
	}
	snd, e1 := ecbbot.NewSender(ctxs[1], suite, env.Reader("sender"))
	rcv, e2 := ecbbot.NewReceiver(ctxs[2], suite, env.Reader("receiver"))
	if !env.Check("C09.ecbbot/participants-ok", e1 == nil && e2 == nil, fmt.Sprint(e1, e2)) {
		return
	}
	r1, err := snd.Round1()
	if !env.Check("C09.ecbbot/round1-ok", err == nil, fmt.Sprint(err)) {
		return
	}
	r2, rout, err := rcv.Round2(r1, choices)
	if !env.Check("C09.ecbbot/round2-ok", err == nil, fmt.Sprint(err)) {
		return
	}
	for _, phi := range r2.Phi {
		for b := 0; b < 2; b++ {
			for _, P := range phi[b] {
				env.Assume(symalg.Not(env.EqG(P, group.OpIdentity())))
			}
		}
	}
	sout, err := snd.Round3(r2)
	if err != nil && strings.Contains(fmt.Sprintf("%+v", err), "computing shared bytes for KA.key_2") {
		// the key agreement refuses an identity point: the POPF value of a branch is the identity with
		// probability 1/q (the success path must be reachable: MustReach)
		env.Reach("measure-zero: an evaluated POPF point is the identity")
		return
	}
	if !env.Check("C09.ecbbot/round3-ok", err == nil, fmt.Sprint(err)) {
		return
	}
	var same, other []symalg.Pred
	for i := 0; i < xi; i++ {
		c := choiceBit(choices, i)
		for j := 0; j < l; j++ {
			same = append(same, env.EqF(rout.Messages[i][j], sout.Messages[i][c][j]))
			other = append(other, symalg.Not(env.EqF(rout.Messages[i][j], sout.Messages[i][1-c][j])))
		}
	}
	env.Valid("C09.ecbbot/receiver's key = sender's key of the chosen branch (every instance, every block)", symalg.And(same...))
	env.Witness("C09.ecbbot/receiver's key ≠ sender's key of the other branch", symalg.And(other...))
	// conversion to byte outputs (what VSOT consumers and the OT extension take): the keyed hash runs
	// for real over the interned encodings of the scalar outputs, so provably equal scalars give
	// equal bytes, and the per-(instance, block) framing must agree on both sides
	key := []byte("0123456789abcdef-c09-ecbbot-bits")
	for _, byteLen := range []int{16, 32} {
		rb, e1 := rout.ToBitsOutput(byteLen, key)
		sb, e2 := sout.ToBitsOutput(byteLen, key)
		if !env.Check("C09.ecbbot/ToBitsOutput-ok", e1 == nil && e2 == nil, fmt.Sprint(e1, e2)) {
			return
		}
		env.Check("C09.ecbbot/bits: shapes and choices preserved", len(rb.Messages) == xi && len(sb.Messages) == xi && bytes.Equal(rb.Choices, choices), "wrong shapes")
		seen := map[string]string{}
		for i := 0; i < xi; i++ {
			c := choiceBit(choices, i)
			for j := 0; j < l; j++ {
				env.Check("C09.ecbbot/bits: receiver's pad = sender's pad of the chosen branch (every instance, every block)", len(rb.Messages[i][j]) == byteLen && bytes.Equal(rb.Messages[i][j], sb.Messages[i][c][j]), fmt.Sprintf("instance %d block %d choice %d", i, j, c))
				env.Check("C09.ecbbot/bits: receiver's pad ≠ sender's pad of the other branch", !bytes.Equal(rb.Messages[i][j], sb.Messages[i][1-c][j]), fmt.Sprintf("instance %d block %d", i, j))
				for b := 0; b < 2; b++ {
					k, id := string(sb.Messages[i][b][j]), fmt.Sprintf("(%d,%d,%d)", i, b, j)
					if prev, dup := seen[k]; dup {
						env.Check("C09.ecbbot/bits: sender pads of different (instance, branch, block) differ", false, prev+" = "+id)
					}
					seen[k] = id
				}
			}
		}
	}
	_, e16 := rout.ToBitsOutput(15, key)
	_, k16 := sout.ToBitsOutput(16, key[:15])
	env.Check("C09.ecbbot/bits: output length < 16 or key < 16 bytes refused", e16 != nil && k16 != nil, "accepted")
	env.Reach("ecbbot-done")
}

// c09RVOLE: the OT-based multiplication (random vector OLE over ECBBOT): Alice's inputs a_i
// symbolic, all randomness symbolic; outputs satisfy c_i + d_i = a_i · b for every i, Bob's
// consistency check accepts the honest Alice.
func c09RVOLE(env *SymEnv, l int) {
	env.AssumeDrawsNonZero()
	env.R.SetGenericNonIdentity(true)
	group := env.R.Group()
	suite, err := rvole_bbot.NewSuite[sG, sF](l, group)
	if !env.Check("C09.rvole/suite-ok", err == nil, fmt.Sprint(err)) {
		return
	}
	ctxs, err := makeContexts(fmt.Sprintf("c09/rvole/%d", l), []sharing.ID{1, 2})
	if !env.Check("C09.rvole/contexts-ok", err == nil, fmt.Sprint(err)) {
		return
	}
	alice, e1 := rvole_bbot.NewAlice(ctxs[1], suite, env.Reader("alice"))
	bob, e2 := rvole_bbot.NewBob(ctxs[2], suite, env.Reader("bob"))
	if !env.Check("C09.rvole/participants-ok", e1 == nil && e2 == nil, fmt.Sprint(e1, e2)) {
		return
	}
	r1, err := alice.Round1()
	if !env.Check("C09.rvole/round1-ok", err == nil, fmt.Sprint(err)) {
		return
	}
	r2, b, err := bob.Round2(r1)
	if !env.Check("C09.rvole/round2-ok", err == nil, fmt.Sprint(err)) {
		return
	}
	// a second Bob over the SAME stream, delivered in short reads (one byte per Read call, a legal
	// io.Reader): his multiplication input must be the same — every raw read has to be a full read
	{
		ctxs2, err := makeContexts(fmt.Sprintf("c09/rvole/%d", l), []sharing.ID{1, 2})
		if err == nil {
			rd := env.R.ReaderTwin("bob", -1)
			rd.SetShortReads(1)
			if bob2, err := rvole_bbot.NewBob(ctxs2[2], suite, rd); err == nil {
				if _, b2, err := bob2.Round2(r1); env.Check("C09.rvole/Bob over a source with short reads completes round 2", err == nil, fmt.Sprint(err)) {
					env.Valid("C09.rvole/Bob's input does not depend on how the source chunks its bytes (short reads)", env.EqF(b, b2))
				}
			}
		}
	}
	a := make([]sF, l)
	for i := range a {
		a[i] = env.Scalar(fmt.Sprintf("a%d", i))
	}
	r3, c, err := alice.Round3(r2, a)
	if !env.Check("C09.rvole/round3-ok", err == nil, fmt.Sprint(err)) {
		return
	}
	d, err := bob.Round4(r3)
	if !env.Check("C09.rvole/round4-ok (Bob's consistency check accepts the honest Alice)", err == nil, fmt.Sprint(err)) {
		return
	}
	var eqs []symalg.Pred
	for i := 0; i < l; i++ {
		eqs = append(eqs, env.EqF(c[i].Add(d[i]), a[i].Mul(b)))
	}
	env.Valid("C09.rvole/c_i + d_i = a_i · b for every i", symalg.And(eqs...))
	env.Reach("rvole-done")
}

// C09Cases (E2 part).
func C09Cases(tier string, seed int64) []Case {
	var cases []Case
	chs := [][]byte{{0x00}, {0xff}, {0xa5}, {0x01}, {0x80}}
	ls := []int{1, 2, 3}
	if tier == "thorough" {
		// (L = 4 exceeds the engine's fork-depth bound in the ECBBOT harness — one measure-zero fork per
		// instance and block — and was reported inconclusive; the thorough tier widens Xi instead)
		chs = append(chs, []byte{0x3c, 0xc3}, []byte{0xff, 0x00}, []byte{0x12, 0x34, 0x56})
	}
	for _, ch := range chs {
		for _, l := range ls {
			if len(ch) > 1 && l > 1 {
				// (Xi ≥ 16 with L ≥ 2 exceeds the engine's fork-depth bound in the ECBBOT harness:
				// reported inconclusive, so the wide instances run with L = 1)
				continue
			}
			c, ll := ch, l
			cases = append(cases, Case{ID: fmt.Sprintf("C09/vsot/L=%d/choices=%x", l, ch), Desc: map[string]any{"protocol": "vsot", "Xi": 8 * len(ch), "L": l, "choices": fmt.Sprintf("%x", ch), "randomness": "symbolic"},
				Sym: func(e *SymEnv) { c09VSOT(e, ll, c) }, MustReach: []string{"vsot-done"}})
			cases = append(cases, Case{ID: fmt.Sprintf("C09/ecbbot/L=%d/choices=%x", l, ch), Desc: map[string]any{"protocol": "ecbbot", "Xi": 8 * len(ch), "L": l, "choices": fmt.Sprintf("%x", ch), "randomness": "symbolic"},
				Sym: func(e *SymEnv) { c09ECBBOT(e, ll, c) }, MustReach: []string{"ecbbot-done"}})
		}
	}
	// RVOLE: xi = 416 OT instances × (L+2) blocks per run (≈ 2.5 min for L = 1 on one core)
	rvoleLs := []int{1}
	if tier == "thorough" {
		rvoleLs = []int{1, 2}
	}
	for _, l := range rvoleLs {
		ll := l
		cases = append(cases, Case{ID: fmt.Sprintf("C09/rvole-bbot/L=%d", l), Desc: map[string]any{"protocol": "rvole/bbot over ecbbot", "L": l, "inputs and randomness": "symbolic", "xi": "kappa + 2·80 OT instances"},
			Sym: func(e *SymEnv) { c09RVOLE(e, ll) }, MustReach: []string{"rvole-done"}, NoConcreteValidation: true})
	}
	cases = append(cases, c09RVOLESoftCases(tier)...)
	return cases
}
