package e2

import (
	"fmt"

	"github.com/bronlabs/bron-crypto/pkg/base/algebra"
	"github.com/bronlabs/bron-crypto/pkg/base/curves"
	ds "github.com/bronlabs/bron-crypto/pkg/base/datastructures"
	"github.com/bronlabs/bron-crypto/pkg/base/datastructures/hashmap"
	"github.com/bronlabs/bron-crypto/pkg/mpc"
	"github.com/bronlabs/bron-crypto/pkg/mpc/dkg/trusteddealer"
	"github.com/bronlabs/bron-crypto/pkg/mpc/session"
	"github.com/bronlabs/bron-crypto/pkg/mpc/sharing"
	"github.com/bronlabs/bron-crypto/pkg/mpc/signatures/bls/boldyreva02"
	bkeygen "github.com/bronlabs/bron-crypto/pkg/mpc/signatures/bls/boldyreva02/keygen"
	bsigning "github.com/bronlabs/bron-crypto/pkg/mpc/signatures/bls/boldyreva02/signing"
	"github.com/bronlabs/bron-crypto/pkg/signatures/bls"

	"verif/engine/symalg"
)

// Threshold BLS (Boldyreva) over the pairing model: dealer randomness symbolic, real cosigner and
// aggregator code, every rogue-key mode, both key sizes, ideal and non-ideal access structures.

type boldyrevaSide[PK interface {
	curves.PairingFriendlyPoint[PK, sF, SG, sF, *symalg.T, sF]
	dlogger
}, SG interface {
	curves.PairingFriendlyPoint[SG, sF, PK, sF, *symalg.T, sF]
	dlogger
}] struct {
	name      string
	keyGroup  func(r *symalg.Run) algebra.PrimeGroup[PK, sF]
	sigGroup  func(r *symalg.Run) curves.PairingFriendlyCurve[SG, sF, PK, sF, *symalg.T, sF]
	scheme    func(r *symalg.Run, alg bls.RogueKeyPreventionAlgorithm) (*bls.Scheme[PK, sF, SG, sF, *symalg.T, sF], error)
	shard     func(b *mpc.BaseShard[PK, sF]) (*boldyreva02.Shard[PK, sF, SG, sF, *symalg.T, sF], error)
	cosigner  func(r *symalg.Run, ctx *session.Context, sh *boldyreva02.Shard[PK, sF, SG, sF, *symalg.T, sF], alg bls.RogueKeyPreventionAlgorithm) (*bsigning.Cosigner[PK, sF, SG, sF, *symalg.T, sF], error)
	aggregate func(r *symalg.Run, pm *boldyreva02.PublicMaterial[PK, sF, SG, sF, *symalg.T, sF], alg bls.RogueKeyPreventionAlgorithm) (*bsigning.Aggregator[PK, sF, SG, sF, *symalg.T, sF], error)
}

var boldyrevaShort = boldyrevaSide[*symalg.G, *symalg.G2]{
	name:     "short-key",
	keyGroup: func(r *symalg.Run) algebra.PrimeGroup[*symalg.G, sF] { return r.Group() },
	sigGroup: func(r *symalg.Run) curves.PairingFriendlyCurve[*symalg.G2, sF, *symalg.G, sF, *symalg.T, sF] {
		return r.Group2()
	},
	scheme: func(r *symalg.Run, alg bls.RogueKeyPreventionAlgorithm) (*bls.Scheme[*symalg.G, sF, *symalg.G2, sF, *symalg.T, sF], error) {
		return bls.NewShortKeyScheme(r.PairingFamily(), alg)
	},
	shard: func(b *mpc.BaseShard[*symalg.G, sF]) (*boldyreva02.Shard[*symalg.G, sF, *symalg.G2, sF, *symalg.T, sF], error) {
		return bkeygen.NewShortKeyShard[*symalg.G, sF, *symalg.G2, sF, *symalg.T, sF](b)
	},
	cosigner: func(r *symalg.Run, ctx *session.Context, sh *boldyreva02.Shard[*symalg.G, sF, *symalg.G2, sF, *symalg.T, sF], alg bls.RogueKeyPreventionAlgorithm) (*bsigning.Cosigner[*symalg.G, sF, *symalg.G2, sF, *symalg.T, sF], error) {
		return bsigning.NewShortKeyCosigner(ctx, r.PairingFamily(), sh, alg)
	},
	aggregate: func(r *symalg.Run, pm *boldyreva02.PublicMaterial[*symalg.G, sF, *symalg.G2, sF, *symalg.T, sF], alg bls.RogueKeyPreventionAlgorithm) (*bsigning.Aggregator[*symalg.G, sF, *symalg.G2, sF, *symalg.T, sF], error) {
		return bsigning.NewShortKeyAggregator(r.PairingFamily(), pm, alg)
	},
}

var boldyrevaLong = boldyrevaSide[*symalg.G2, *symalg.G]{
	name:     "long-key",
	keyGroup: func(r *symalg.Run) algebra.PrimeGroup[*symalg.G2, sF] { return r.Group2() },
	sigGroup: func(r *symalg.Run) curves.PairingFriendlyCurve[*symalg.G, sF, *symalg.G2, sF, *symalg.T, sF] {
		return r.Group()
	},
	scheme: func(r *symalg.Run, alg bls.RogueKeyPreventionAlgorithm) (*bls.Scheme[*symalg.G2, sF, *symalg.G, sF, *symalg.T, sF], error) {
		return bls.NewLongKeyScheme(r.PairingFamily(), alg)
	},
	shard: func(b *mpc.BaseShard[*symalg.G2, sF]) (*boldyreva02.Shard[*symalg.G2, sF, *symalg.G, sF, *symalg.T, sF], error) {
		return bkeygen.NewLongKeyShard[*symalg.G2, sF, *symalg.G, sF, *symalg.T, sF](b)
	},
	cosigner: func(r *symalg.Run, ctx *session.Context, sh *boldyreva02.Shard[*symalg.G2, sF, *symalg.G, sF, *symalg.T, sF], alg bls.RogueKeyPreventionAlgorithm) (*bsigning.Cosigner[*symalg.G2, sF, *symalg.G, sF, *symalg.T, sF], error) {
		return bsigning.NewLongKeyCosigner(ctx, r.PairingFamily(), sh, alg)
	},
	aggregate: func(r *symalg.Run, pm *boldyreva02.PublicMaterial[*symalg.G2, sF, *symalg.G, sF, *symalg.T, sF], alg bls.RogueKeyPreventionAlgorithm) (*bsigning.Aggregator[*symalg.G2, sF, *symalg.G, sF, *symalg.T, sF], error) {
		return bsigning.NewLongKeyAggregator(r.PairingFamily(), pm, alg)
	},
}

// boldyrevaFault: a deviation applied to one cosigner's partial signature (C04); nil = honest run.
type boldyrevaFault struct {
	Kind     string // sigma | pop | drop-component | swap-components | extra-component | other-message
	Deviator sharing.ID
	Index    int
}

func (f *boldyrevaFault) String() string {
	if f == nil {
		return "honest"
	}
	return fmt.Sprintf("%s/dev=%d/idx=%d", f.Kind, f.Deviator, f.Index)
}

func c01Boldyreva[PK interface {
	curves.PairingFriendlyPoint[PK, sF, SG, sF, *symalg.T, sF]
	dlogger
}, SG interface {
	curves.PairingFriendlyPoint[SG, sF, PK, sF, *symalg.T, sF]
	dlogger
}](env *SymEnv, side boldyrevaSide[PK, SG], pol Policy, quorum []sharing.ID, alg bls.RogueKeyPreventionAlgorithm, fault *boldyrevaFault) {
	env.AssumeDrawsNonZero()
	pfx := "C01.bls"
	if fault != nil {
		pfx = "C04.bls"
	}
	as, err := pol.Build()
	if err != nil {
		env.Reach("refused")
		return
	}
	f := env.Field()
	kg, sg := side.keyGroup(env.R), side.sigGroup(env.R)
	dealt, err := guarded(func() (ds.Map[sharing.ID, *mpc.BaseShard[PK, sF]], error) {
		return trusteddealer.Deal(kg, as, env.Reader("dealer"))
	})
	if err != nil {
		env.Reach("refused")
		return
	}
	tag := fmt.Sprintf("c01/bls/%s/%s/%s/alg=%d/%s", side.name, pol.Name, setName(quorum), alg, fault)
	ctxs, err := makeContexts(tag, quorum)
	if !env.Check(pfx+"/contexts-ok", err == nil, fmt.Sprint(err)) {
		return
	}
	msg := []byte("threshold bls message")
	qualified := as.IsQualified(quorum...)
	shards := map[sharing.ID]*boldyreva02.Shard[PK, sF, SG, sF, *symalg.T, sF]{}
	cos := map[sharing.ID]*bsigning.Cosigner[PK, sF, SG, sF, *symalg.T, sF]{}
	for _, id := range quorum {
		b, ok := dealt.Get(id)
		if !ok {
			env.Reach("quorum-member-without-shard")
			return
		}
		sh, err := side.shard(b)
		if !env.Check(pfx+"/shard-ok", err == nil, fmt.Sprint(err)) {
			return
		}
		shards[id] = sh
		c, err := guarded(func() (*bsigning.Cosigner[PK, sF, SG, sF, *symalg.T, sF], error) {
			return side.cosigner(env.R, ctxs[id], sh, alg)
		})
		if !qualified {
			env.Check(pfx+"/a cosigner refuses an unqualified quorum", err != nil, fmt.Sprintf("cosigner %d accepted quorum %v", id, quorum))
			continue
		}
		if err != nil && containsStr(fmt.Sprintf("%+v", err), "identity scalar") {
			// a share component is zero with probability 1/q over the dealer's randomness; bls.NewPrivateKey
			// refuses a zero scalar (the success path must be reachable: MustReach)
			env.Reach("measure-zero: a share component is zero")
			return
		}
		if !env.Check(pfx+"/cosigner-ok", err == nil, fmt.Sprintf("cosigner %d: %+v", id, err)) {
			return
		}
		cos[id] = c
	}
	first := shards[quorum[0]]
	pm := first.PublicKeyMaterial()
	agg, err := side.aggregate(env.R, pm, alg)
	if !env.Check(pfx+"/aggregator-ok", err == nil, fmt.Sprint(err)) {
		return
	}
	if !qualified {
		// partial signatures made directly from the shares (what colluding unqualified holders can send)
		scheme, err := side.scheme(env.R, bls.POP)
		if err != nil {
			return
		}
		_ = scheme
		env.Reach("unqualified-refused")
		return
	}
	delta := env.Scalar("delta")
	env.Assume(symalg.Not(env.EqF(delta, f.Zero())))
	shift := func(s *bls.Signature[SG, sF, PK, sF, *symalg.T, sF]) *bls.Signature[SG, sF, PK, sF, *symalg.T, sF] {
		v := s.Value().Op(sg.Generator().ScalarOp(delta))
		// (an identity component is refused by PartialSignature.Validate; here the deviator sends a
		// non-identity point)
		env.Assume(symalg.Not(eqPt(env, v, sg.OpIdentity())))
		out, err := bls.NewSignature(v, s.Pop())
		if err != nil {
			panic(err)
		}
		return out
	}
	if fault != nil {
		// the same (long-lived) aggregator first serves an honest session for an earlier message:
		// nothing it keeps from that session may weaken the checks of the next one
		earlier := []byte("an earlier message")
		wctxs, err := makeContexts(tag+"/earlier-session", quorum)
		if !env.Check(pfx+"/contexts-ok", err == nil, fmt.Sprint(err)) {
			return
		}
		wps := hashmap.NewComparable[sharing.ID, *boldyreva02.PartialSignature[SG, sF, PK, sF, *symalg.T, sF]]()
		for _, id := range quorum {
			env.SetActor(fmt.Sprint(id))
			c, err := side.cosigner(env.R, wctxs[id], shards[id], alg)
			if !env.Check(pfx+"/cosigner-ok", err == nil, fmt.Sprintf("cosigner %d (earlier session): %+v", id, err)) {
				return
			}
			ps, err := c.ProducePartialSignature(earlier)
			if !env.Check(pfx+"/partial signature produced", err == nil, fmt.Sprintf("cosigner %d (earlier session): %v", id, err)) {
				return
			}
			wps.Put(id, ps)
		}
		env.SetActor("aggregator")
		_, err = guarded(func() (*bls.Signature[SG, sF, PK, sF, *symalg.T, sF], error) {
			return agg.Aggregate(wps.Freeze(), earlier)
		})
		if err != nil && isBoldyrevaMeasureZero(err) {
			env.Reach("measure-zero: a partial signature or proof is the identity")
			return
		}
		if !env.Check(pfx+"/the earlier honest session through the same aggregator succeeds", err == nil, fmt.Sprintf("%+v", err)) {
			return
		}
	}
	psigs := hashmap.NewComparable[sharing.ID, *boldyreva02.PartialSignature[SG, sF, PK, sF, *symalg.T, sF]]()
	applied := false
	for _, id := range quorum {
		env.SetActor(fmt.Sprint(id))
		m := msg
		if fault != nil && fault.Kind == "other-message" && id == fault.Deviator {
			m, applied = []byte("another message"), true
		}
		ps, err := cos[id].ProducePartialSignature(m)
		if !env.Check(pfx+"/partial signature produced", err == nil, fmt.Sprintf("cosigner %d: %v", id, err)) {
			return
		}
		if fault != nil && id == fault.Deviator {
			cp := &boldyreva02.PartialSignature[SG, sF, PK, sF, *symalg.T, sF]{SigmaI: append([]*bls.Signature[SG, sF, PK, sF, *symalg.T, sF]{}, ps.SigmaI...), SigmaPopI: append([]*bls.Signature[SG, sF, PK, sF, *symalg.T, sF]{}, ps.SigmaPopI...)}
			if ps.SigmaPopI == nil {
				cp.SigmaPopI = nil
			}
			switch fault.Kind {
			case "sigma":
				if fault.Index < len(cp.SigmaI) {
					cp.SigmaI[fault.Index], applied = shift(cp.SigmaI[fault.Index]), true
				}
			case "pop":
				if fault.Index < len(cp.SigmaPopI) {
					cp.SigmaPopI[fault.Index], applied = shift(cp.SigmaPopI[fault.Index]), true
				}
			case "drop-component":
				if len(cp.SigmaI) > 1 {
					cp.SigmaI, applied = cp.SigmaI[:len(cp.SigmaI)-1], true
					if cp.SigmaPopI != nil {
						cp.SigmaPopI = cp.SigmaPopI[:len(cp.SigmaPopI)-1]
					}
				}
			case "extra-component":
				cp.SigmaI, applied = append(cp.SigmaI, cp.SigmaI[0]), true
				if cp.SigmaPopI != nil {
					cp.SigmaPopI = append(cp.SigmaPopI, cp.SigmaPopI[0])
				}
			case "swap-components":
				if len(cp.SigmaI) > 1 {
					cp.SigmaI[0], cp.SigmaI[1] = cp.SigmaI[1], cp.SigmaI[0]
					applied = true
				}
			}
			ps = cp
		}
		psigs.Put(id, ps)
	}
	env.SetActor("aggregator")
	if fault != nil && !applied {
		env.Reach("fault-not-applicable")
		return
	}
	sig, err := guarded(func() (*bls.Signature[SG, sF, PK, sF, *symalg.T, sF], error) {
		return agg.Aggregate(psigs.Freeze(), msg)
	})
	if fault != nil {
		if !env.Check(pfx+"/"+fault.Kind+": the aggregator refuses a deviating partial signature", err != nil, "aggregate signature produced from a deviating partial signature") {
			return
		}
		blameOK(env, pfx+"/"+fault.Kind, err, fault.Deviator, fault.Kind != "swap-components" || true)
		env.Reach("bls-fault-caught")
		return
	}
	if err != nil && isBoldyrevaMeasureZero(err) {
		env.Reach("measure-zero: a partial signature or proof is the identity")
		return
	}
	if !env.Check(pfx+"/the aggregator accepts the honest partial signatures", err == nil, fmt.Sprintf("%+v", err)) {
		return
	}
	// verification under the joint public key by the standard verifier of the target scheme
	scheme, err := side.scheme(env.R, alg)
	if !env.Check(pfx+"/scheme-ok", err == nil, fmt.Sprint(err)) {
		return
	}
	v, err := scheme.Verifier()
	if !env.Check(pfx+"/verifier-ok", err == nil, fmt.Sprint(err)) {
		return
	}
	pk := first.PublicKey()
	verr := v.Verify(sig, pk, msg)
	env.Check(pfx+"/threshold signature verifies under the joint public key (standard verifier of the target scheme)", verr == nil, fmt.Sprintf("%+v", verr))
	// the same value a single signer holding the joint secret would produce
	joint := pk.Value().Dlog()
	dst, err := scheme.CipherSuite().GetDst(alg, scheme.Variant())
	if err == nil {
		m := msg
		if alg == bls.MessageAugmentation {
			m, _ = bls.AugmentMessage(msg, pk.Value())
		}
		hm, herr := sg.HashWithDst(dst, m)
		if herr == nil {
			env.Valid(pfx+"/σ = [x]·H(m) for the joint secret x", eqPt(env, sig.Value(), hm.ScalarOp(joint)))
		}
	}
	for id, sh := range shards {
		env.Check(pfx+"/every shard carries the same joint public key", sh.PublicKey().Equal(pk), fmt.Sprintf("shard %d", id))
	}
	env.Reach("bls-signed")
}

func isBoldyrevaMeasureZero(err error) bool {
	s := fmt.Sprintf("%v", err)
	for _, m := range []string{"must be non-identity", "is the identity element"} {
		if containsStr(s, m) {
			return true
		}
	}
	return false
}

func containsStr(s, sub string) bool {
	for i := 0; i+len(sub) <= len(s); i++ {
		if s[i:i+len(sub)] == sub {
			return true
		}
	}
	return false
}

var blsAlgs = []bls.RogueKeyPreventionAlgorithm{bls.Basic, bls.MessageAugmentation, bls.POP}

func c01BoldyrevaCases(tier string) []Case {
	var cases []Case
	for _, pol := range protocolPolicies(tier) {
		p := pol
		as, err := p.Build()
		if err != nil {
			continue
		}
		qs := quorumsOf(as, p.IDs)
		if tier != "thorough" && len(qs) > 2 {
			qs = qs[:2]
		}
		for qi, q := range qs {
			Q := q
			for _, alg := range blsAlgs {
				if tier != "thorough" && qi > 0 && alg != bls.POP {
					continue
				}
				a := alg
				cases = append(cases, Case{ID: fmt.Sprintf("C01/boldyreva/short-key/%s/quorum=%s/alg=%d", p.Name, setName(Q), a),
					Desc: map[string]any{"protocol": "boldyreva02 threshold BLS, keys in G1", "policy": p.Name, "quorum": Q, "rogue key prevention": a, "dealer randomness": "symbolic"},
					Sym:  func(e *SymEnv) { c01Boldyreva(e, boldyrevaShort, p, Q, a, nil) }, MustReach: []string{"bls-signed"}})
				if tier == "thorough" || qi == 0 {
					cases = append(cases, Case{ID: fmt.Sprintf("C01/boldyreva/long-key/%s/quorum=%s/alg=%d", p.Name, setName(Q), a),
						Desc: map[string]any{"protocol": "boldyreva02 threshold BLS, keys in G2", "policy": p.Name, "quorum": Q, "rogue key prevention": a, "dealer randomness": "symbolic"},
						Sym:  func(e *SymEnv) { c01Boldyreva(e, boldyrevaLong, p, Q, a, nil) }, MustReach: []string{"bls-signed"}})
				}
			}
		}
		// one unqualified subset per policy: every cosigner constructor refuses
		for _, sub := range subsetsOf(sortedIDs(p.IDs)) {
			if len(sub) < 2 || as.IsQualified(sub...) {
				continue
			}
			S := sub
			cases = append(cases, Case{ID: fmt.Sprintf("C01/boldyreva/short-key/%s/unqualified=%s", p.Name, setName(S)),
				Desc: map[string]any{"protocol": "boldyreva02 threshold BLS", "policy": p.Name, "unqualified quorum": S},
				Sym:  func(e *SymEnv) { c01Boldyreva(e, boldyrevaShort, p, S, bls.POP, nil) }, MustReach: []string{"unqualified-refused"}})
			if tier != "thorough" {
				break
			}
		}
	}
	return cases
}

func c04BoldyrevaCases(tier string) []Case {
	var cases []Case
	kinds := []string{"sigma", "pop", "drop-component", "extra-component", "swap-components", "other-message"}
	for _, pol := range protocolPolicies(tier) {
		p := pol
		as, err := p.Build()
		if err != nil {
			continue
		}
		qs := quorumsOf(as, p.IDs)
		if len(qs) == 0 {
			continue
		}
		if tier != "thorough" {
			qs = qs[:1]
		} else if len(qs) > 3 {
			qs = qs[:3]
		}
		for _, q := range qs {
			Q := q
			for _, alg := range blsAlgs {
				a := alg
				for _, kind := range kinds {
					if kind == "pop" && a != bls.POP {
						continue
					}
					if tier != "thorough" && a != bls.POP && kind != "sigma" {
						continue
					}
					devs := Q
					if tier != "thorough" && len(Q) > 2 {
						devs = []sharing.ID{Q[0], Q[len(Q)-1]}
					}
					for _, dev := range devs {
						idxs := []int{0, 1}
						if kind != "sigma" && kind != "pop" {
							idxs = []int{0}
						}
						for _, idx := range idxs {
							ft := &boldyrevaFault{Kind: kind, Deviator: dev, Index: idx}
							cases = append(cases, Case{ID: fmt.Sprintf("C04/boldyreva/short-key/%s/quorum=%s/alg=%d/%s", p.Name, setName(Q), a, ft),
								Desc: map[string]any{"protocol": "boldyreva02 threshold BLS, keys in G1", "policy": p.Name, "quorum": Q, "rogue key prevention": a, "fault": ft.String(), "offset": "symbolic δ ≠ 0"},
								Sym:  func(e *SymEnv) { c01Boldyreva(e, boldyrevaShort, p, Q, a, ft) }})
							if tier == "thorough" {
								cases = append(cases, Case{ID: fmt.Sprintf("C04/boldyreva/long-key/%s/quorum=%s/alg=%d/%s", p.Name, setName(Q), a, ft),
									Desc: map[string]any{"protocol": "boldyreva02 threshold BLS, keys in G2", "policy": p.Name, "quorum": Q, "rogue key prevention": a, "fault": ft.String(), "offset": "symbolic δ ≠ 0"},
									Sym:  func(e *SymEnv) { c01Boldyreva(e, boldyrevaLong, p, Q, a, ft) }})
							}
						}
					}
				}
			}
		}
	}
	return cases
}
