package e2

import (
	"fmt"

	"github.com/bronlabs/bron-crypto/pkg/base/algebra"
	"github.com/bronlabs/bron-crypto/pkg/base/curves/k256"
	"github.com/bronlabs/bron-crypto/pkg/encryption/elgamal"

	"verif/engine/symalg"
)

// c16ElGamal: sk, plaintexts, nonces, scalars all symbolic. Decrypt∘Encrypt = id; homomorphic
// operations act on plaintexts as op / inverse / scalar / shift / identity; secret-key accelerated
// paths give the same ciphertexts as the public-key ones; a sequence of operations composes.
func c16ElGamal[E algebra.PrimeGroupElement[E, S], S algebra.PrimeFieldElement[S]](env Env[E, S], seq []string) {
	group := env.Group()
	f := env.Field()
	g := group.Generator()
	a := env.Scalar("sk")
	env.Assume(symalg.Not(env.EqF(a, f.Zero())))
	env.Assume(symalg.Not(env.EqF(a, f.One())))
	sk, err := elgamal.NewSecretKey[E, S](g, a)
	if !env.Check("C16/keygen-ok", err == nil, fmt.Sprint(err)) {
		return
	}
	pk := sk.Public()
	env.Valid("C16/pk=g^sk", env.EqG(pk.Value(), g.ScalarOp(a)))
	env.Reach("key")

	mk := func(name string) (*elgamal.Plaintext[E, S], E) {
		v := env.Point(name)
		p, err := elgamal.NewPlaintext[E, S](v)
		env.Check("C16/plaintext-ok", err == nil, fmt.Sprint(err))
		return p, v
	}
	nonce := func(name string) (*elgamal.Nonce[S], S) {
		v := env.Scalar(name)
		env.Assume(symalg.Not(env.EqF(v, f.Zero())))
		n, err := elgamal.NewNonce(v)
		env.Check("C16/nonce-ok", err == nil, fmt.Sprint(err))
		return n, v
	}
	dec := func(id string, c *elgamal.Ciphertext[E, S], want E) {
		p, err := sk.Decrypt(c)
		if env.Check("C16/decrypt-ok", err == nil, fmt.Sprint(err)) {
			env.Valid(id, env.EqG(p.Value(), want))
		}
	}
	eqCt := func(id string, x, y *elgamal.Ciphertext[E, S]) {
		xs, ys := x.Value().Components(), y.Value().Components()
		env.Valid(id, symalg.And(env.EqG(xs[0], ys[0]), env.EqG(xs[1], ys[1])))
	}

	m1, m1v := mk("m1")
	m2, m2v := mk("m2")
	r1, r1v := nonce("r1")
	r2, _ := nonce("r2")
	c1, err := pk.EncryptWithNonce(m1, r1)
	if !env.Check("C16/encrypt-ok", err == nil, fmt.Sprint(err)) {
		return
	}
	c2, err := pk.EncryptWithNonce(m2, r2)
	if !env.Check("C16/encrypt-ok", err == nil, fmt.Sprint(err)) {
		return
	}
	// textbook form
	cs := c1.Value().Components()
	env.Valid("C16/c=(g^r, m·h^r)", symalg.And(env.EqG(cs[0], g.ScalarOp(r1v)), env.EqG(cs[1], m1v.Op(pk.Value().ScalarOp(r1v)))))
	dec("C16/decrypt(encrypt(m))=m", c1, m1v)

	// secret-key accelerated paths agree with public-key paths
	c1s, err := sk.EncryptWithNonce(m1, r1)
	if env.Check("C16/sk-encrypt-ok", err == nil, fmt.Sprint(err)) {
		eqCt("C16/sk.EncryptWithNonce=pk.EncryptWithNonce", c1s, c1)
	}
	n1, e1 := pk.IdentityNoise(r1)
	n1s, e2 := sk.IdentityNoise(r1)
	if env.Check("C16/identity-noise-ok", e1 == nil && e2 == nil, fmt.Sprint(e1, e2)) {
		eqCt("C16/sk.IdentityNoise=pk.IdentityNoise", n1s, n1)
		dec("C16/decrypt(IdentityNoise)=identity", n1, group.OpIdentity())
	}
	rr, e1 := pk.ReRandomise(c1, r2)
	rrs, e2 := sk.ReRandomise(c1, r2)
	if env.Check("C16/rerandomise-ok", e1 == nil && e2 == nil, fmt.Sprint(e1, e2)) {
		eqCt("C16/sk.ReRandomise=pk.ReRandomise", rrs, rr)
		dec("C16/decrypt(ReRandomise(c))=m", rr, m1v)
	}

	// homomorphisms
	if s, err := pk.CiphertextOp(c1, c2); env.Check("C16/op-ok", err == nil, fmt.Sprint(err)) {
		dec("C16/decrypt(c1·c2)=m1·m2", s, m1v.Op(m2v))
	}
	if s, err := pk.CiphertextOpInv(c1); env.Check("C16/opinv-ok", err == nil, fmt.Sprint(err)) {
		dec("C16/decrypt(c⁻¹)=m⁻¹", s, m1v.OpInv())
	}
	k := env.Scalar("k")
	if s, err := pk.CiphertextScalarOp(c1, k); env.Check("C16/scalarop-ok", err == nil, fmt.Sprint(err)) {
		dec("C16/decrypt(c^k)=m^k", s, m1v.ScalarOp(k))
	}
	if s, err := pk.Shift(c1, m2); env.Check("C16/shift-ok", err == nil, fmt.Sprint(err)) {
		dec("C16/decrypt(Shift(c,δ))=m·δ", s, m1v.Op(m2v))
		sc := s.Value().Components()
		env.Valid("C16/Shift keeps the nonce", env.EqG(sc[0], cs[0]))
	}
	if rep, err := pk.Representative(m1); env.Check("C16/representative-ok", err == nil, fmt.Sprint(err)) {
		dec("C16/decrypt(Representative(m))=m", rep, m1v)
		if n1 != nil {
			if prod, err := pk.CiphertextOp(rep, n1); err == nil {
				eqCt("C16/Encrypt=Representative·IdentityNoise", prod, c1)
			}
		}
	}
	// plaintext / nonce side operations
	if p12, err := pk.PlaintextOp(m1, m2); env.Check("C16/plaintextop-ok", err == nil, fmt.Sprint(err)) {
		env.Valid("C16/PlaintextOp", env.EqG(p12.Value(), m1v.Op(m2v)))
		if n12, err := pk.NonceOp(r1, r2); err == nil {
			if c12, err := pk.EncryptWithNonce(p12, n12); err == nil {
				if s, err := pk.CiphertextOp(c1, c2); err == nil {
					eqCt("C16/Enc(m1·m2; r1+r2)=Enc(m1;r1)·Enc(m2;r2)", c12, s)
				}
			}
		}
	}

	// a sequence of homomorphic operations tracked against the plaintext it should carry
	cur, want := c1, m1v
	for i, op := range seq {
		var err error
		switch op {
		case "op":
			cur, err = pk.CiphertextOp(cur, c2)
			want = want.Op(m2v)
		case "inv":
			cur, err = pk.CiphertextOpInv(cur)
			want = want.OpInv()
		case "scalar":
			cur, err = pk.CiphertextScalarOp(cur, k)
			want = want.ScalarOp(k)
		case "shift":
			cur, err = pk.Shift(cur, m2)
			want = want.Op(m2v)
		case "rerand":
			cur, err = pk.ReRandomise(cur, r2)
		}
		if !env.Check("C16/sequence-op-ok", err == nil, fmt.Sprintf("step %d (%s): %v", i, op, err)) {
			return
		}
	}
	if len(seq) > 0 {
		dec("C16/decrypt after operation sequence", cur, want)
	}
}

// c16CustomGenerator: NewSecretKey takes the generator as an argument; a key built over a
// caller-chosen generator g must behave like any other key.
func c16CustomGenerator[E algebra.PrimeGroupElement[E, S], S algebra.PrimeFieldElement[S]](env Env[E, S]) {
	group := env.Group()
	f := env.Field()
	g := env.Point("g")
	a := env.Scalar("sk")
	env.Assume(symalg.Not(env.EqG(g, group.OpIdentity())))
	env.Assume(symalg.Not(env.EqF(a, f.Zero())))
	env.Assume(symalg.Not(env.EqF(a, f.One())))
	sk, err := elgamal.NewSecretKey[E, S](g, a)
	if err != nil {
		env.Reach("C16.g/custom generator refused by the constructor")
		return
	}
	env.Reach("C16.g/custom generator accepted by the constructor")
	pk := sk.Public()
	env.Valid("C16.g/pk=g^sk", env.EqG(pk.Value(), g.ScalarOp(a)))
	mv, rv := env.Point("m"), env.Scalar("r")
	env.Assume(symalg.Not(env.EqF(rv, f.Zero())))
	m, e1 := elgamal.NewPlaintext[E, S](mv)
	r, e2 := elgamal.NewNonce(rv)
	if !env.Check("C16.g/inputs-ok", e1 == nil && e2 == nil, fmt.Sprint(e1, e2)) {
		return
	}
	c, err := pk.EncryptWithNonce(m, r)
	if !env.Check("C16.g/encrypt-ok", err == nil, fmt.Sprint(err)) {
		return
	}
	p, err := sk.Decrypt(c)
	if env.Check("C16.g/decrypt-ok", err == nil, fmt.Sprint(err)) {
		env.Valid("C16.g/decrypt(encrypt(m))=m for a key over a caller-chosen generator", env.EqG(p.Value(), mv))
	}
}

func opSequences(tier string) [][]string {
	ops := []string{"op", "inv", "scalar", "shift", "rerand"}
	var out [][]string
	out = append(out, nil)
	maxLen := 2
	if tier == "thorough" {
		maxLen = 4
	}
	var rec func(cur []string)
	rec = func(cur []string) {
		if len(cur) > 0 {
			out = append(out, append([]string(nil), cur...))
		}
		if len(cur) == maxLen {
			return
		}
		for _, o := range ops {
			rec(append(cur, o))
		}
	}
	rec(nil)
	return out
}

// C16Cases builds the case list.
func C16Cases(tier string, seed int64) []Case {
	var cases []Case
	for _, seq := range opSequences(tier) {
		s := seq
		cases = append(cases, both(fmt.Sprintf("C16/elgamal/seq=%v", s), map[string]any{"scheme": "elgamal", "sequence": s},
			func(e Env[*symalg.G, *symalg.F]) { c16ElGamal(e, s) },
			func(e Env[*k256.Point, *k256.Scalar]) { c16ElGamal(e, s) }))
	}
	cases = append(cases, both("C16/elgamal/custom-generator", map[string]any{"scheme": "elgamal", "generator": "arbitrary symbolic point handed to NewSecretKey"},
		func(e Env[*symalg.G, *symalg.F]) { c16CustomGenerator(e) },
		func(e Env[*k256.Point, *k256.Scalar]) { c16CustomGenerator(e) }))
	return cases
}
