package e2

import (
	"crypto/sha256"
	"fmt"

	"github.com/bronlabs/bron-crypto/pkg/mpc"
	"github.com/bronlabs/bron-crypto/pkg/mpc/dkg/trusteddealer"
	"github.com/bronlabs/bron-crypto/pkg/mpc/sharing"
)

// C07, failing random source: every secret is drawn from the source supplied to the party, so when
// that source fails on ANY one of its reads the party's protocol step must fail too — it must not
// carry on with a zero or stale value. The symbolic Reader can be told to fail its k-th consumption
// once; the harness first runs the protocol honestly to count the consumptions, then once more with
// the failure injected, and requires that the party whose source failed reports an error (from its
// constructor or from the round in which the read happens) and produces no result.

type failProto struct {
	Name string
	// run executes the protocol under `tag`; party readers are "<tag>/<role><id>"
	run  func(env *SymEnv, tag string) (errs map[sharing.ID]error, outputs map[sharing.ID]bool, setupErr error)
	role string
	ids  []sharing.ID
	// rawOnly: the case parameter k selects the k-th RAW byte read (io.ReadFull on the source: choice
	// bits, commitment witnesses, …) instead of the k-th consumption of any kind (for protocols with
	// thousands of element draws)
	rawOnly  bool
	maxK     int
	thorough bool
}

// (DKLs23 runs of this clause use the SHA-256 suite)
func c07FailingSource(env *SymEnv, p failProto, victim sharing.ID, k int) {
	dklsHash = sha256.New
	env.AssumeDrawsNonZero()
	// honest run: count the victim's consumptions
	tag0 := "c07f/" + p.Name + "/count"
	errs0, _, setup0 := p.run(env, tag0)
	if setup0 != nil || len(errs0) > 0 {
		env.Reach("honest run did not complete (measure-zero path)")
		return
	}
	name0 := fmt.Sprintf("%s/%s%d", tag0, p.role, victim)
	n := env.R.Reader(name0).Calls()
	env.Check("C07.d/the party consumes its source at all", n > 0, fmt.Sprintf("party %d never reads its source", victim))
	if p.rawOnly {
		// map "k-th raw read" to its consumption index through the monitor log of the honest run
		idx, raw := 0, -1
		found := false
		for _, ev := range env.R.ReadEvents() {
			if ev.Reader != name0 {
				continue
			}
			if ev.Kind == "bytes" {
				raw++
				if raw == k {
					k, found = idx, true
					break
				}
			}
			idx++
		}
		if !found {
			env.Reach("no such read")
			return
		}
	}
	if k >= n {
		env.Reach("no such read")
		return
	}
	tag := fmt.Sprintf("c07f/%s/fail@%d", p.Name, k)
	rd := env.R.Reader(fmt.Sprintf("%s/%s%d", tag, p.role, victim))
	rd.InjectFailure(k)
	errs, outs, setupErr := p.run(env, tag)
	if !rd.Fired() {
		// the second run took a path (e.g. a measure-zero abort) on which this read does not happen
		env.Reach("failing read not reached on this path")
		return
	}
	env.Reach("failure-injected")
	_, reported := errs[victim]
	env.Check("C07.d/a party whose random source fails reports an error (no read failure is swallowed)", setupErr != nil || reported, fmt.Sprintf("read %d of %d of party %d failed, the protocol went on", k, n, victim))
	env.Check("C07.d/a party whose random source failed produces no result", !outs[victim], fmt.Sprintf("party %d produced a result although read %d failed", victim, k))
}

func failProtocols() []failProto {
	t23 := thresholdPolicy(2, []sharing.ID{1, 2, 3})
	as, _ := t23.Build()
	deal := func(env *SymEnv) map[sharing.ID]*mpc.BaseShard[sG, sF] {
		dealt, err := trusteddealer.Deal[sG, sF](env.R.Group(), as, env.Reader("dealer"))
		if err != nil {
			return nil
		}
		m := map[sharing.ID]*mpc.BaseShard[sG, sF]{}
		for id, s := range dealt.Iter() {
			m[id] = s
		}
		return m
	}
	dkls := func(soft bool) func(env *SymEnv, tag string) (map[sharing.ID]error, map[sharing.ID]bool, error) {
		return func(env *SymEnv, tag string) (map[sharing.ID]error, map[sharing.ID]bool, error) {
			env.R.SetGenericNonIdentity(true)
			pol := thresholdPolicy(2, idPools[1][:3])
			q := sortedIDs(pol.IDs)[:2]
			var res *dklsResult
			var err error
			if soft {
				res, err = runDkls23Soft(env, tag, pol, q, []byte("m"))
			} else {
				res, err = runDkls23(env, tag, pol, q, []byte("m"), nil)
			}
			if err != nil {
				return nil, nil, err
			}
			outs := map[sharing.ID]bool{}
			for id := range res.PSigs {
				outs[id] = true
			}
			return res.Errs, outs, nil
		}
	}
	dq := sortedIDs(thresholdPolicy(2, idPools[1][:3]).IDs)[:2]
	return []failProto{
		{Name: "dkls23-softspoken", role: "cosigner", ids: dq, run: dkls(true), rawOnly: true, maxK: 8},
		{Name: "dkls23-bbot", role: "cosigner", ids: dq, run: dkls(false), rawOnly: true, maxK: 8, thorough: true},
		{Name: "gennaro", role: "party", ids: t23.IDs, run: func(env *SymEnv, tag string) (map[sharing.ID]error, map[sharing.ID]bool, error) {
			res, err := runGennaro[sG, sF](env, tag, as, t23.IDs, nil)
			if err != nil {
				return nil, nil, err
			}
			outs := map[sharing.ID]bool{}
			for id := range res.Shards {
				outs[id] = true
			}
			return res.Errs, outs, nil
		}},
		{Name: "canetti", role: "party", ids: t23.IDs, run: func(env *SymEnv, tag string) (map[sharing.ID]error, map[sharing.ID]bool, error) {
			res, err := runCanetti[sG, sF](env, tag, t23, t23.IDs, nil)
			if err != nil {
				return nil, nil, err
			}
			outs := map[sharing.ID]bool{}
			for id := range res.Shards {
				outs[id] = true
			}
			return res.Errs, outs, nil
		}},
		{Name: "lindell22", role: "cosigner", ids: []sharing.ID{1, 2}, run: func(env *SymEnv, tag string) (map[sharing.ID]error, map[sharing.ID]bool, error) {
			shards := deal(env)
			if shards == nil {
				return nil, nil, fmt.Errorf("dealer refused")
			}
			res, err := runLindell22[sG, sF](env, tag, shards, []sharing.ID{1, 2}, []byte("msg"), false, nil)
			if err != nil {
				return nil, nil, err
			}
			outs := map[sharing.ID]bool{}
			for id := range res.PSigs {
				outs[id] = true
			}
			return res.Errs, outs, nil
		}},
		{Name: "refresh", role: "party", ids: t23.IDs, run: func(env *SymEnv, tag string) (map[sharing.ID]error, map[sharing.ID]bool, error) {
			shards := deal(env)
			if shards == nil {
				return nil, nil, fmt.Errorf("dealer refused")
			}
			res, err := runRedistribute[sG, sF](env, tag, t23.IDs, shards, as, 0, nil)
			if err != nil {
				return nil, nil, err
			}
			outs := map[sharing.ID]bool{}
			for id := range res.Shards {
				outs[id] = true
			}
			return res.Errs, outs, nil
		}},
	}
}

func c07FailingSourceCases(tier string) []Case {
	var cases []Case
	maxK := 24
	for _, fp := range failProtocols() {
		p := fp
		if p.thorough && tier != "thorough" {
			continue
		}
		maxK := maxK
		if p.maxK > 0 {
			maxK = p.maxK
		}
		victims := p.ids[:1]
		if tier == "thorough" {
			victims = p.ids
		}
		for _, v := range victims {
			for k := 0; k < maxK; k++ {
				vv, kk := v, k
				cases = append(cases, Case{ID: fmt.Sprintf("C07/failing-source/%s/party=%d/read=%d", p.Name, v, k),
					Desc: map[string]any{"protocol": p.Name, "party whose source fails": v, "failing read (0-based)": k},
					Sym:  func(e *SymEnv) { c07FailingSource(e, p, vv, kk) }, NoConcreteValidation: true})
			}
		}
	}
	return cases
}
