package e2

import (
	"fmt"
	"math/big"
	"slices"
	"sort"

	"github.com/bronlabs/bron-crypto/pkg/base/algebra"
	"github.com/bronlabs/bron-crypto/pkg/base/curves/k256"
	"github.com/bronlabs/bron-crypto/pkg/base/nt/num"
	"github.com/bronlabs/bron-crypto/pkg/mpc/sharing"
	"github.com/bronlabs/bron-crypto/pkg/mpc/sharing/accessstructures/unanimity"
	"github.com/bronlabs/bron-crypto/pkg/mpc/sharing/scheme/kw"

	"verif/engine/symalg"
)

// both builds a Case from one generic harness instantiated symbolically and on real secp256k1.
func both(id string, desc any,
	sym func(Env[*symalg.G, *symalg.F]),
	real func(Env[*k256.Point, *k256.Scalar])) Case {
	c := Case{ID: id, Desc: desc, Sym: func(e *SymEnv) { sym(e) }}
	if real != nil {
		c.Real = func(e *RealEnv) { real(e) }
	}
	return c
}

// panicErr wraps a panic raised by a constructor.
type panicErr struct{ v any }

func (p panicErr) Error() string { return fmt.Sprint("panic: ", p.v) }

// guarded runs a constructor and converts a panic into an error (engine-internal panics such as
// "unsupported" or path aborts are re-raised).
func guarded[T any](f func() (T, error)) (out T, err error) {
	defer func() {
		if x := recover(); x != nil {
			if symalg.IsEnginePanic(x) {
				panic(x)
			}
			err = panicErr{x}
		}
	}()
	return f()
}

func setName(ids []sharing.ID) string {
	c := append([]sharing.ID(nil), ids...)
	sort.Slice(c, func(i, j int) bool { return c[i] < c[j] })
	return idsStr(c)
}

// c02KW: exactness, correctness, privacy, additive conversion and linearity of the KW/MSP scheme
// for one policy, over all subsets; secret and dealer randomness symbolic.
func c02KW[E algebra.PrimeGroupElement[E, S], S algebra.PrimeFieldElement[S]](env Env[E, S], pol Policy) {
	as, err := pol.Build()
	if err != nil {
		env.Reach("refused-by-policy-constructor")
		return
	}
	f := env.Field()
	scheme, err := guarded(func() (*kw.Scheme[S], error) { return kw.NewScheme(f, as) })
	if err != nil {
		// refusals are part of the quantifier (one-column MSPs, Tassa's field condition …); a
		// constructor that refuses by panicking (cnf.InducedMSP for shareholder IDs > 64) is
		// counted separately and reported as an observation, not as a violation of C02
		if _, p := err.(panicErr); p {
			env.Reach("refused-by-scheme-constructor-PANIC")
		} else {
			env.Reach("refused-by-scheme-constructor")
		}
		return
	}
	env.Reach("dealt")
	m := scheme.MSP()
	D := int(m.D())
	secret := env.Scalar("secret")
	out, err := scheme.Deal(kw.NewSecret(secret), env.Reader("dealer"))
	if !env.Check("C02.b/deal-ok", err == nil, fmt.Sprint("Deal failed: ", err)) {
		return
	}
	// privacy dealing: secret fixed to 1, randomness symbolic
	one := env.Const(big.NewInt(1))
	out1, err := scheme.Deal(kw.NewSecret(one), env.Reader("dealer-priv"))
	if !env.Check("C02.c/deal-ok", err == nil, fmt.Sprint("Deal failed: ", err)) {
		return
	}
	// second dealing for linearity
	secret2 := env.Scalar("secret2")
	out2, err := scheme.Deal(kw.NewSecret(secret2), env.Reader("dealer2"))
	if !env.Check("C02.d/deal-ok", err == nil, fmt.Sprint("Deal failed: ", err)) {
		return
	}
	htr := m.HoldersToRows()
	zero := f.Zero()

	for _, A := range subsetsOf(pol.IDs) {
		an := setName(A)
		q := as.IsQualified(A...)
		if pol.Spec != nil {
			env.Check("C02.a/the access structure decides like the description it was built from", q == pol.Spec(A), fmt.Sprintf("IsQualified(%s)=%v, the description says %v", an, q, pol.Spec(A)))
		}
		acc := m.Accepts(A...)
		can := scheme.CanReconstruct(A...)
		// A shareholder contained in every maximal unqualified set owns no MSP row; the library then
		// refuses every quorum that lists it although the policy calls the quorum qualified (known
		// finding, see known_findings.json). That specific disagreement gets its own obligation id so
		// that any *other* disagreement is still reported.
		var withRows []sharing.ID
		for _, id := range A {
			if _, ok := htr.Get(id); ok {
				withRows = append(withRows, id)
			}
		}
		rowless := len(withRows) != len(A)
		if rowless {
			accCore := len(withRows) > 0 && m.Accepts(withRows...)
			if q == accCore && q && !acc && !can {
				env.Check("C02.a/agree-rowless-holder", false,
					fmt.Sprintf("quorum %s is qualified by the policy but refused because it lists a shareholder that owns no MSP row", an))
			} else {
				env.Check("C02.a/agree", q == accCore && (q || (!acc && !can)),
					fmt.Sprintf("policy/MSP disagree on %s (rowless holder present): IsQualified=%v Accepts(core)=%v Accepts=%v CanReconstruct=%v", an, q, accCore, acc, can))
			}
			continue
		}
		env.Check("C02.a/agree", q == acc && q == can,
			fmt.Sprintf("policy/MSP disagree on %s: IsQualified=%v Accepts=%v CanReconstruct=%v", an, q, acc, can))

		// the solver as independent rank oracle: ∃λ: λ·M_A = e0 ?
		var rows []int
		for _, id := range A {
			// a shareholder contained in every maximal unqualified set owns no MSP row
			if rs, ok := htr.Get(id); ok {
				rows = append(rows, rs.List()...)
			}
		}
		sort.Ints(rows)
		var eqs []symalg.Pred
		for j := 0; j < D; j++ {
			acc := zero
			for _, r := range rows {
				mij, _ := m.Matrix().Get(r, j)
				lam := env.Scalar(fmt.Sprintf("lambda/%s/%d", an, r))
				acc = acc.Add(lam.Mul(mij))
			}
			target := zero
			if j == 0 {
				target = f.One()
			}
			eqs = append(eqs, env.EqF(acc, target))
		}
		span := symalg.And(eqs...)
		if env.Symbolic() {
			if q {
				env.Witness("C02.a/span-exists-for-qualified", span)
			} else {
				env.Valid("C02.a/no-span-for-unqualified", symalg.Not(span))
			}
		}

		shares := func(o *kw.DealerOutput[S]) []*kw.Share[S] {
			var sh []*kw.Share[S]
			for _, id := range A {
				if s, ok := o.Shares().Get(id); ok {
					sh = append(sh, s)
				}
			}
			return sh
		}
		shA := shares(out)
		rec, err := scheme.Reconstruct(shA...)
		if q {
			if env.Check("C02.b/reconstruct-ok", err == nil, fmt.Sprintf("Reconstruct(%s) failed: %v", an, err)) {
				env.Valid("C02.b/reconstruct=secret", env.EqF(rec.Value(), secret))
			}
			// additive conversion over the quorum sums to the secret
			quorum, qerr := unanimity.NewUnanimityAccessStructure(idSet(A...))
			if qerr == nil {
				sum := zero
				ok := true
				for _, s := range shA {
					a, err := scheme.ConvertShareToAdditive(s, quorum)
					if !env.Check("C02.d/additive-ok", err == nil, fmt.Sprintf("ConvertShareToAdditive(%d,%s): %v", s.ID(), an, err)) {
						ok = false
						break
					}
					sum = sum.Add(a.Value())
				}
				if ok {
					env.Valid("C02.d/additive-sum=secret", env.EqF(sum, secret))
				}
			}
			// linearity
			sh2 := shares(out2)
			var sumSh, scaled []*kw.Share[S]
			c := num.N().FromUint64(7)
			for i := range shA {
				sumSh = append(sumSh, shA[i].Add(sh2[i]))
				scaled = append(scaled, shA[i].ScalarMul(c))
			}
			if r2, err := scheme.Reconstruct(sumSh...); env.Check("C02.d/sum-reconstruct-ok", err == nil, fmt.Sprint(err)) {
				env.Valid("C02.d/add-shares=add-secrets", env.EqF(r2.Value(), secret.Add(secret2)))
			}
			if r3, err := scheme.Reconstruct(scaled...); env.Check("C02.d/scaled-reconstruct-ok", err == nil, fmt.Sprint(err)) {
				env.Valid("C02.d/scale-shares=scale-secret", env.EqF(r3.Value(), secret.Mul(f.FromUint64(7))))
			}
		} else {
			env.Check("C02.a/unqualified-refused", err != nil, fmt.Sprintf("Reconstruct accepted the unqualified set %s", an))
		}

		// privacy (kernel query through the real dealer): with secret = 1, can all of A's share
		// components be 0 ?  sat ⇔ e0 ∉ rowspan(M_A) ⇔ A learns nothing (linearity).
		var zs []symalg.Pred
		for _, s := range shares(out1) {
			for _, v := range s.Value() {
				zs = append(zs, env.EqF(v, zero))
			}
		}
		allZero := symalg.And(zs...)
		if env.Symbolic() {
			if q {
				env.Valid("C02.c/qualified-shares-determine-secret", symalg.Not(allZero))
			} else {
				env.Witness("C02.c/unqualified-consistent-with-every-secret", allZero)
			}
		}
	}
}

// C02Cases builds the case list.
func C02Cases(tier string, seed int64) []Case {
	var cases []Case
	for _, pol := range PolicyCorpus(tier, seed) {
		p := pol
		cases = append(cases, both("C02/kw/"+p.Name, map[string]any{"scheme": "kw", "policy": p.Name, "subsets": 1<<len(p.IDs) - 1},
			func(e Env[*symalg.G, *symalg.F]) { c02KW(e, p) },
			func(e Env[*k256.Point, *k256.Scalar]) { c02KW(e, p) }))
	}
	cases = append(cases, C02ExtraCases(tier, seed)...)
	return cases
}

var _ = slices.Sort[[]int]
