package e2

import (
	"fmt"
	"strings"

	"github.com/bronlabs/bron-crypto/pkg/mpc"
	"github.com/bronlabs/bron-crypto/pkg/mpc/dkg/trusteddealer"
	"github.com/bronlabs/bron-crypto/pkg/mpc/sharing"

	"verif/engine/symalg"
)

// readerDiscipline checks the monitor log of a protocol run: every element or byte drawn while
// party X executes comes from the random source the caller supplied to party X (reader names end
// in "/party<X>" or "/cosigner<X>"), or from a deterministic PRG seeded by session material
// (sha3.SHAKE pairwise streams); never from another party's stream or an unknown source.
func readerDiscipline(env *SymEnv, pfx string) {
	evs := env.R.ReadEvents()
	env.Check(pfx+"/some randomness was drawn", len(evs) > 0, "no randomness consumed at all")
	for _, ev := range evs {
		if ev.Actor == "" || ev.Actor == "aggregator" {
			continue
		}
		owner := ""
		for _, marker := range []string{"/party", "/cosigner"} {
			if i := strings.LastIndex(ev.Reader, marker); i >= 0 {
				owner = ev.Reader[i+len(marker):]
			}
		}
		switch {
		case owner != "":
			env.Check(pfx+"/party draws only from its own supplied stream", owner == ev.Actor, fmt.Sprintf("party %s consumed %d bytes (%s) from the stream of party %s", ev.Actor, ev.N, ev.Kind, owner))
		case strings.Contains(ev.Reader, "SHAKE"):
			// pairwise session PRG
		case strings.HasSuffix(ev.Reader, "/scheme") || ev.Reader == "dealer":
			// harness-owned streams (trusted dealer, scheme object)
		default:
			env.Check(pfx+"/no foreign random source", false, fmt.Sprintf("party %s drew %s from unexpected source %q", ev.Actor, ev.Kind, ev.Reader))
		}
	}
}

func ownedBy(tag, role string, id sharing.ID) func(string) bool {
	pre := fmt.Sprintf("rnd:%s/%s%d@", tag, role, id)
	return func(name string) bool { return strings.HasPrefix(name, pre) }
}

// c07Gennaro: the generated public key depends on every party's own stream; parties draw only from
// their own stream.
func c07Gennaro(env *SymEnv, pol Policy) {
	env.AssumeDrawsNonZero()
	as, err := pol.Build()
	if err != nil {
		env.Reach("refused")
		return
	}
	tag := "c07/" + pol.Name
	res, err := runGennaro[sG, sF](env, tag, as, pol.IDs, nil)
	if err != nil || len(res.Errs) > 0 {
		env.Reach("refused-or-aborted")
		return
	}
	env.Reach("dkg-complete")
	readerDiscipline(env, "C07.a/gennaro")
	pk := res.Shards[pol.IDs[0]].PublicKeyValue()
	for _, id := range pol.IDs {
		own := ownedBy(tag, "party", id)
		pk2 := env.R.RenameG(pk, own, "'")
		env.Witness(fmt.Sprintf("C07.b/gennaro: changing only one party's stream changes the public key"), symalg.Not(symalg.EqG(pk, pk2)))
		// and that party's own share changes as well
		sh := res.Shards[id].Share().Value()[0]
		env.Witness("C07.b/gennaro: changing a party's stream changes its key share", symalg.Not(symalg.EqF(sh, env.R.RenameF(sh, own, "'"))))
	}
	// the first draw of each party (its dealt secret) enters the key with coefficient 1:
	// k_i ≠ k_i' ⇒ PK ≠ PK' when only that draw changes
	for _, id := range pol.IDs {
		first := fmt.Sprintf("rnd:%s/party%d@0", tag, id)
		k := env.R.Drawn(fmt.Sprintf("%s/party%d", tag, id), 0)
		only := func(n string) bool { return n == first }
		k2 := env.R.RenameF(k, only, "''")
		pk2 := env.R.RenameG(pk, only, "''")
		env.Valid("C07.b/gennaro: different dealt secret ⇒ different public key (other streams fixed)", symalg.Implies(symalg.Not(symalg.EqF(k, k2)), symalg.Not(symalg.EqG(pk, pk2))))
	}
}

// c07Lindell22: nonce shares come from each cosigner's own stream, the joint nonce point depends on
// every cosigner, nonce commitments never repeat across differing streams and do not depend on the
// message or on other parties.
func c07Lindell22(env *SymEnv, pol Policy, quorum []sharing.ID) {
	env.AssumeDrawsNonZero()
	as, err := pol.Build()
	if err != nil {
		env.Reach("refused")
		return
	}
	group := env.R.Group()
	dealt, err := trusteddealer.Deal[sG, sF](group, as, env.Reader("dealer"))
	if err != nil {
		env.Reach("refused")
		return
	}
	shards := map[sharing.ID]*mpc.BaseShard[sG, sF]{}
	for id, s := range dealt.Iter() {
		shards[id] = s
	}
	tag := "c07l/" + pol.Name + "/" + setName(quorum)
	run := func(msg string) *lindellResult[sG, sF] {
		res, err := runLindell22[sG, sF](env, tag, shards, quorum, []byte(msg), false, nil)
		if err != nil || len(res.Errs) > 0 || res.SigErr != nil {
			return nil
		}
		return res
	}
	res := run("message one")
	if res == nil {
		env.Reach("aborted (measure-zero path)")
		return
	}
	env.Reach("signed")
	readerDiscipline(env, "C07.a/lindell22")
	R := res.Sig.R
	for _, id := range quorum {
		own := ownedBy(tag, "cosigner", id)
		Ri := res.PSigs[id].Sig.R
		// R_i is a function of party i's own stream only (not of the message, not of others)
		for _, n := range env.R.VarNamesG(Ri) {
			env.Check("C07.c/nonce commitment depends only on the cosigner's own stream", own(n), fmt.Sprintf("R_%d depends on variable %q", id, n))
		}
		k := env.R.Drawn(fmt.Sprintf("%s/cosigner%d", tag, id), 0)
		env.Valid("C07.c/nonce commitment = [first draw of the cosigner's stream]G", symalg.EqG(Ri, group.Generator().ScalarOp(k)))
		first := fmt.Sprintf("rnd:%s/cosigner%d@0", tag, id)
		only := func(n string) bool { return n == first }
		k2 := env.R.RenameF(k, only, "'")
		env.Valid("C07.b/different nonce share ⇒ different nonce commitment", symalg.Implies(symalg.Not(symalg.EqF(k, k2)), symalg.Not(symalg.EqG(Ri, env.R.RenameG(Ri, only, "'")))))
		env.Valid("C07.b/different nonce share of one cosigner ⇒ different joint nonce point", symalg.Implies(symalg.Not(symalg.EqF(k, k2)), symalg.Not(symalg.EqG(R, env.R.RenameG(R, only, "'")))))
		env.Witness("C07.b/changing only one cosigner's stream changes the joint nonce point", symalg.Not(symalg.EqG(R, env.R.RenameG(R, own, "'"))))
	}
}

// c07Redistribute: refresh — new shares depend on every previous holder's stream; discipline.
func c07Redistribute(env *SymEnv) {
	env.AssumeDrawsNonZero()
	pol := c06Structures()[0]
	as, _ := pol.Build()
	group := env.R.Group()
	dealt, err := trusteddealer.Deal[sG, sF](group, as, env.Reader("dealer"))
	if err != nil {
		env.Reach("refused")
		return
	}
	shards := map[sharing.ID]*mpc.BaseShard[sG, sF]{}
	for id, s := range dealt.Iter() {
		shards[id] = s
	}
	tag := "c07r"
	res, err := runRedistribute[sG, sF](env, tag, sortedIDs(pol.IDs), shards, as, 0, nil)
	if err != nil || len(res.Errs) > 0 {
		env.Reach("aborted")
		return
	}
	env.Reach("refreshed")
	readerDiscipline(env, "C07.a/redistribute")
	for _, id := range pol.IDs {
		sh := res.Shards[id].Share().Value()[0]
		for _, other := range pol.IDs {
			own := ownedBy(tag, "party", other)
			env.Witness("C07.b/refresh: every new share depends on every previous holder's stream", symalg.Not(symalg.EqF(sh, env.R.RenameF(sh, own, "'"))))
		}
		// while the key itself does not depend on the refresh randomness at all
	}
	pk := res.Shards[pol.IDs[0]].PublicKeyValue()
	for _, n := range env.R.VarNamesG(pk) {
		env.Check("C07/refresh: the public key does not depend on refresh randomness", strings.HasPrefix(n, "rnd:dealer@"), "public key depends on "+n)
	}
}

// C07Cases builds the case list.
func C07Cases(tier string, seed int64) []Case {
	var cases []Case
	for _, pol := range protocolPolicies(tier) {
		p := pol
		cases = append(cases, Case{ID: "C07/gennaro/" + p.Name, Desc: map[string]any{"protocol": "gennaro", "policy": p.Name}, Sym: func(e *SymEnv) { c07Gennaro(e, p) }, MustReach: []string{"dkg-complete"}})
		as, err := p.Build()
		if err != nil {
			continue
		}
		qs := quorumsOf(as, p.IDs)
		if len(qs) > 2 && tier != "thorough" {
			qs = qs[:2]
		}
		for _, q := range qs {
			Q := q
			if len(Q) < 2 {
				continue
			}
			cases = append(cases, Case{ID: "C07/lindell22/" + p.Name + "/quorum=" + setName(Q), Desc: map[string]any{"protocol": "lindell22", "policy": p.Name, "quorum": Q}, Sym: func(e *SymEnv) { c07Lindell22(e, p, Q) }, MustReach: []string{"signed"}})
		}
	}
	cases = append(cases, c07FailingSourceCases(tier)...)
	cases = append(cases, Case{ID: "C07/redistribute/refresh", Desc: map[string]any{"protocol": "redistribute (refresh)"}, Sym: c07Redistribute, MustReach: []string{"refreshed"}})
	return cases
}
