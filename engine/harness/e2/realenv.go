package e2

import (
	"crypto/sha256"
	"encoding/binary"
	"fmt"
	"io"
	"math/big"

	"github.com/bronlabs/bron-crypto/pkg/base/algebra"
	"github.com/bronlabs/bron-crypto/pkg/base/curves/k256"

	"verif/engine/symalg"
)

// RealEnv instantiates a harness with real secp256k1 types; symbolic inputs are bound to the
// values of a solver model. It is used only to replay counterexamples: a violation is printed only
// if it reproduces here (when the case has a real instantiation).
type RealEnv struct {
	model   map[string]*big.Int
	readers map[string]*realReader
	Failed  map[string]string
	seed    int64
}

var _ Env[*k256.Point, *k256.Scalar] = (*RealEnv)(nil)

func newRealEnv(model map[string]*big.Int) *RealEnv {
	return &RealEnv{model: model, readers: map[string]*realReader{}, Failed: map[string]string{}}
}

func (e *RealEnv) value(name string) *big.Int {
	if v, ok := e.model[name]; ok {
		return new(big.Int).Mod(v, symalg.Secp256k1N)
	}
	h := sha256.Sum256([]byte("real-default:" + name))
	return new(big.Int).Mod(new(big.Int).SetBytes(h[:]), symalg.Secp256k1N)
}

func (e *RealEnv) scalarOf(v *big.Int) *k256.Scalar {
	var buf [32]byte
	new(big.Int).Mod(v, symalg.Secp256k1N).FillBytes(buf[:])
	s, err := k256.NewScalarField().FromBytes(buf[:])
	if err != nil {
		panic(err)
	}
	return s
}

func (e *RealEnv) Field() algebra.PrimeField[*k256.Scalar]              { return k256.NewScalarField() }
func (e *RealEnv) Group() algebra.PrimeGroup[*k256.Point, *k256.Scalar] { return k256.NewCurve() }
func (e *RealEnv) Scalar(name string) *k256.Scalar                      { return e.scalarOf(e.value("in:" + name)) }
func (e *RealEnv) Point(name string) *k256.Point {
	return k256.NewCurve().ScalarBaseMul(e.scalarOf(e.value("in:" + name)))
}
func (e *RealEnv) Const(v *big.Int) *k256.Scalar { return e.scalarOf(v) }
func (e *RealEnv) Drawn(reader string, off int) *k256.Scalar {
	return e.scalarOf(e.value(fmt.Sprintf("rnd:%s@%d", reader, off)))
}
func (e *RealEnv) Reader(name string) io.Reader {
	if r, ok := e.readers[name]; ok {
		return r
	}
	r := &realReader{env: e, name: name}
	e.readers[name] = r
	return r
}
func (e *RealEnv) EqF(a, b *k256.Scalar) symalg.Pred { return symalg.Bool(a.Equal(b)) }
func (e *RealEnv) EqG(a, b *k256.Point) symalg.Pred  { return symalg.Bool(a.Equal(b)) }
func (e *RealEnv) Assume(p symalg.Pred) {
	if !evalConcrete(p) {
		panic(realAbort{"assumption false"})
	}
}
func (e *RealEnv) Valid(id string, p symalg.Pred) bool {
	if !evalConcrete(p) {
		e.Failed[id] = "assertion false on real secp256k1"
		return false
	}
	return true
}
func (e *RealEnv) Witness(id string, p symalg.Pred) bool { return evalConcrete(p) }
func (e *RealEnv) Check(id string, c bool, msg string) bool {
	if !c {
		e.Failed[id] = msg
	}
	return c
}
func (e *RealEnv) Reach(string)        {}
func (e *RealEnv) SetActor(string)     {}
func (e *RealEnv) Symbolic() bool      { return false }
func (e *RealEnv) AssumeDrawsNonZero() {}

type realAbort struct{ why string }

func evalConcrete(p symalg.Pred) bool { return symalg.EvalConcrete(p) }

// realReader feeds the real field's SetRandom (48 little-endian bytes, wide-reduced) so that the
// element sampled at byte offset o is the model value of variable "rnd:<name>@<o>"; other reads get
// the same deterministic bytes as the model Reader.
type realReader struct {
	env  *RealEnv
	name string
	off  int
}

func (r *realReader) Read(p []byte) (int, error) {
	if len(p) == 48 {
		v := r.env.value(fmt.Sprintf("rnd:%s@%d", r.name, r.off))
		be := v.FillBytes(make([]byte, 48))
		for i := range p {
			p[i] = be[47-i]
		}
		r.off += 48
		return 48, nil
	}
	for i := range p {
		blk := (r.off + i) / 32
		h := sha256.New()
		var sd [16]byte
		binary.BigEndian.PutUint64(sd[:8], uint64(r.env.seed))
		binary.BigEndian.PutUint64(sd[8:], uint64(blk))
		h.Write(sd[:])
		h.Write([]byte(r.name))
		h.Write([]byte{0})
		p[i] = h.Sum(nil)[(r.off+i)%32]
	}
	r.off += len(p)
	return len(p), nil
}

// replayReal runs the real instantiation under the model; true if the obligation fails there too.
func replayReal(c Case, obligation string, model map[string]string) (repro bool) {
	env := newRealEnv(modelBig(model))
	defer func() {
		if x := recover(); x != nil {
			if _, ok := x.(realAbort); ok {
				repro = false
				return
			}
			env.Failed["nopanic"] = fmt.Sprint(x)
			_, repro = env.Failed[obligation]
		}
	}()
	c.Real(env)
	_, repro = env.Failed[obligation]
	return repro
}
